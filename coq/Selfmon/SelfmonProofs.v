(* Proofs about Selfmon/Selfmon.v (C28). *)
From Coq Require Import List Bool Arith PeanoNat Lia.
From Verif Require Import Selfmon.Selfmon.
Import ListNotations.

Lemma memn_In : forall i l, memn i l = true <-> In i l.
Proof.
  intros i l. induction l as [|x t IH]; simpl; [split; [discriminate|tauto]|].
  rewrite orb_true_iff, Nat.eqb_eq, IH. tauto.
Qed.
Lemma memn_remn_same : forall n l, memn n (remn n l) = false.
Proof.
  intros n l. destruct (memn n (remn n l)) eqn:E; [|reflexivity].
  apply memn_In in E. unfold remn in E. apply filter_In in E. destruct E as [_ E].
  rewrite Nat.eqb_refl in E. discriminate.
Qed.

Lemma nth_upd_same : forall A (f : A -> A) k l d, k < length l -> nth k (upd k f l) d = f (nth k l d).
Proof. intros A f k l d. revert k. induction l; intros [|k] H; simpl in *; try lia; auto. apply IHl. lia. Qed.
Lemma nth_upd_other : forall A (f : A -> A) k j l d, k <> j -> nth j (upd k f l) d = nth j l d.
Proof. intros A f k j l d. revert k j. induction l; intros [|k] [|j] H; simpl; auto; try congruence. Qed.
Lemma upd_length : forall A (f : A -> A) i l, length (upd i f l) = length l.
Proof. intros A f i l. revert i. induction l; intros [|i]; simpl; auto. Qed.

Lemma phase_active_lt : forall s k se, phase s k = Active se -> k < length (ws s).
Proof.
  intros s k se H. unfold phase in H. destruct (Nat.lt_ge_cases k (length (ws s))); [assumption|].
  rewrite nth_overflow in H by assumption. discriminate.
Qed.
Lemma phase_set_same : forall s k p, k < length (ws s) -> phase (set_phase s k p) k = p.
Proof. intros. unfold phase, set_phase. simpl. rewrite nth_upd_same by assumption. reflexivity. Qed.
Lemma phase_set_other : forall s k j p, k <> j -> phase (set_phase s k p) j = phase s j.
Proof. intros. unfold phase, set_phase. simpl. apply nth_upd_other. assumption. Qed.

Definition absent (s : st) (n : node) : Prop := memn n (alive s) = false.
Definition owes (s : st) (se : session) (n : node) : Prop :=
  In n (se_tasks se) \/ In (n, false) (se_queue se) \/
  (se_listed se = true /\ In n (se_init se) /\ absent s n) \/
  (se_listed se = false /\ In n (nodes s) /\ absent s n).
Definition done (s : st) (n : node) : Prop := node_down s n = true.

Definition msr (s : st) (se : session) : nat :=
  (if se_watch se then 0 else 1) + (if se_listed se then 0 else 1 + 2 * length (nodes s)) +
  2 * length (se_init se) + 2 * length (se_queue se) + length (se_tasks se).

Lemma node_down_map : forall n m l,
  forallb (fun w => negb (w_node w =? n) || is_down w) l = true ->
  forallb (fun w => negb (w_node w =? n) || is_down w) (map (down_wl m) l) = true.
Proof.
  intros n m l. induction l as [|w t IH]; simpl; [auto|].
  intro H. apply andb_true_iff in H. destruct H as [H1 H2]. rewrite (IH H2), andb_true_r.
  unfold down_wl. destruct (w_node w =? m) eqn:E; simpl; [|exact H1].
  destruct (w_node w =? n); reflexivity.
Qed.
Lemma node_down_self : forall n l,
  forallb (fun w => negb (w_node w =? n) || is_down w) (map (down_wl n) l) = true.
Proof.
  intros n l. induction l as [|w t IH]; simpl; [reflexivity|]. rewrite IH, andb_true_r.
  unfold down_wl. destruct (w_node w =? n) eqn:E; simpl; [rewrite E; reflexivity|rewrite E; reflexivity].
Qed.
Lemma map_node_down : forall m l, map w_node (map (down_wl m) l) = map w_node l.
Proof.
  intros m l. induction l as [|w t IH]; simpl; [reflexivity|]. rewrite IH. f_equal.
  unfold down_wl. destruct (w_node w =? m); reflexivity.
Qed.

(* one step of the canonical continuation *)
Lemma settle_step : forall s k se e, phase s k = Active se -> next_event s k = Some e ->
  exists se', phase (step s e) k = Active se' /\ msr (step s e) se' < msr s se /\
    nodes (step s e) = nodes s /\ alive (step s e) = alive s /\
    map w_node (wls (step s e)) = map w_node (wls s) /\
    (forall n, owes s se n \/ done s n -> owes (step s e) se' n \/ done (step s e) n).
Proof.
  intros s k se e P N. pose proof (phase_active_lt s k se P) as L.
  unfold next_event in N. rewrite P in N.
  destruct (se_watch se) eqn:Wt; simpl in N.
  2:{ inversion N; subst e. simpl. rewrite P.
      eexists. split; [apply phase_set_same; exact L|]. repeat split.
      - unfold msr. simpl. rewrite Wt. lia.
      - intros n [O|D]; [left|right; exact D].
        unfold owes, absent in *. simpl. exact O. }
  destruct (se_listed se) eqn:Ls; simpl in N.
  2:{ inversion N; subst e. simpl. rewrite P, Ls, Wt. simpl.
      eexists. split; [apply phase_set_same; exact L|]. repeat split.
      - unfold msr. simpl. rewrite Wt, Ls. lia.
      - intros n [O|D]; [left|right; exact D].
        unfold owes, absent in *. simpl. rewrite Ls in O.
        destruct O as [O|[O|[[O _]|[_ O]]]]; auto; try discriminate.
        all: try (right; right; left; tauto). }
  destruct (se_init se) as [|n0 r0] eqn:Ini.
  2:{ inversion N; subst e. simpl. rewrite P, Ini.
      eexists. split; [apply phase_set_same; exact L|]. repeat split.
      - unfold msr. simpl. rewrite Wt, Ls, Ini. destruct (memn n0 (alive s)); simpl; rewrite ?app_length; simpl; lia.
      - intros n [O|D]; [left|right; exact D].
        unfold owes, absent in *. simpl. rewrite Ls, Ini in O.
        destruct O as [O|[O|[[_ [O A]]|[O _]]]]; try discriminate.
        + left. destruct (memn n0 (alive s)); [exact O|apply in_or_app; left; exact O].
        + right. left. exact O.
        + destruct O as [O|O].
          * subst n0. left. rewrite A. apply in_or_app. right. left. reflexivity.
          * right. right. left. rewrite Ls. auto. }
  destruct (se_queue se) as [|[n0 a0] r0] eqn:Qu.
  2:{ inversion N; subst e. simpl. rewrite P, Qu.
      eexists. split; [apply phase_set_same; exact L|]. repeat split.
      - unfold msr. simpl. rewrite Wt, Ls, Ini, Qu. destruct a0; simpl; rewrite ?app_length; simpl; lia.
      - intros n [O|D]; [left|right; exact D].
        unfold owes, absent in *. simpl. rewrite Ls, Ini, Qu in O.
        destruct O as [O|[O|[[_ [O _]]|[O _]]]]; try discriminate; try (destruct O; fail).
        + left. destruct a0; [exact O|apply in_or_app; left; exact O].
        + destruct O as [O|O].
          * inversion O; subst. left. apply in_or_app. right. left. reflexivity.
          * right. left. exact O. }
  destruct (se_tasks se) as [|n0 r0] eqn:Ta; [discriminate|].
  inversion N; subst e. simpl. rewrite P, Ta. simpl.
  eexists. split; [unfold phase; simpl; rewrite nth_upd_same by exact L; reflexivity|]. repeat split.
  - unfold msr. simpl. rewrite Wt, Ls, Ini, Qu, Ta. simpl. lia.
  - simpl. apply map_node_down.
  - intros n [O|D].
    + unfold owes, absent in O. rewrite Ls, Ini, Qu, Ta in O.
      destruct O as [O|[O|[[_ [O _]]|[O _]]]]; try discriminate; try (destruct O; fail).
      destruct O as [O|O].
      * subst n0. right. unfold done, node_down. simpl. apply node_down_self.
      * left. unfold owes. simpl. left. exact O.
    + right. unfold done, node_down in *. simpl. apply node_down_map. exact D.
Qed.
Lemma settle_none : forall s k se n, phase s k = Active se -> next_event s k = None -> ~ owes s se n.
Proof.
  intros s k se n P N O. unfold next_event in N. rewrite P in N.
  destruct (se_watch se); simpl in N; [|discriminate].
  destruct (se_listed se) eqn:Ls; simpl in N; [|discriminate].
  destruct (se_init se) eqn:Ini; [|discriminate].
  destruct (se_queue se) eqn:Qu; [|discriminate].
  destruct (se_tasks se) eqn:Ta; [|discriminate].
  unfold owes in O. rewrite Ls, Ini, Qu, Ta in O.
  destruct O as [O|[O|[[_ [O _]]|[O _]]]]; try discriminate; destruct O.
Qed.

(* the canonical continuation discharges every obligation of the session *)
Lemma settle_discharges : forall fuel s k se n,
  phase s k = Active se -> msr s se <= fuel -> owes s se n \/ done s n ->
  let s' := settle fuel k s in
  done s' n /\ map w_node (wls s') = map w_node (wls s) /\ next_event s' k = None.
Proof.
  induction fuel as [|f IH]; intros s k se n P M O; simpl.
  - destruct (next_event s k) as [e|] eqn:N.
    + destruct (settle_step s k se e P N) as [se' [_ [Lt _]]]. lia.
    + split; [|split; [reflexivity|first [exact N|reflexivity]]].
      destruct O as [O|D]; [|exact D]. exfalso. exact (settle_none s k se n P N O).
  - destruct (next_event s k) as [e|] eqn:N.
    + destruct (settle_step s k se e P N) as [se' [P' [Lt [_ [_ [Wn Pres]]]]]].
      destruct (IH (step s e) k se' n P') as [A [B C]]; [lia|apply Pres; exact O|].
      split; [exact A|split; [congruence|exact C]].
    + split; [|split; [reflexivity|first [exact N|reflexivity]]].
      destruct O as [O|D]; [|exact D]. exfalso. exact (settle_none s k se n P N O).
Qed.

Lemma msr_bound : forall s k se, phase s k = Active se -> msr s se <= settle_bound s k.
Proof.
  intros s k se P. unfold settle_bound, msr. rewrite P.
  destruct (se_watch se), (se_listed se); lia.
Qed.

(* "every workload recorded on n is reported neither running nor healthy" spelled out *)
Lemma node_down_spec : forall s n, node_down s n = true <->
  forall i w, nth_error (wls s) i = Some w -> w_node w = n -> w_st w = Some (false, false).
Proof.
  intros s n. unfold node_down. rewrite forallb_forall. split.
  - intros H i w Hi Hn. apply nth_error_In in Hi. specialize (H w Hi).
    rewrite Hn, Nat.eqb_refl in H. simpl in H. unfold is_down in H.
    destruct (w_st w) as [[[] []]|]; try discriminate. reflexivity.
  - intros H w Hw. apply In_nth_error in Hw. destruct Hw as [i Hi].
    destruct (w_node w =? n) eqn:E; [|reflexivity]. apply Nat.eqb_eq in E.
    unfold is_down. rewrite (H i w Hi E). reflexivity.
Qed.

Lemma same_nodes_nth : forall (l l' : list wl) i w, map w_node l' = map w_node l ->
  nth_error l i = Some w -> exists w', nth_error l' i = Some w' /\ w_node w' = w_node w.
Proof.
  intros l l' i w E H.
  assert (nth_error (map w_node l) i = Some (w_node w)) by (rewrite nth_error_map, H; reflexivity).
  rewrite <- E, nth_error_map in H0. destruct (nth_error l' i) as [w'|]; [|discriminate].
  simpl in H0. inversion H0. eauto.
Qed.

(* ---- invariants of reachable states ---- *)
Record inv (s : st) : Prop := mkInv {
  inv_alive : forall n, memn n (alive s) = true -> memn n (nodes s) = true;
  inv_listed : forall k se, phase s k = Active se -> se_listed se = true -> se_watch se = true;
  inv_holder : forall k se, phase s k = Active se -> holder s = Some k
}.
Lemma phase_set_cases : forall s k p j se, phase (set_phase s k p) j = Active se ->
  (j = k /\ p = Active se) \/ (j <> k /\ phase s j = Active se).
Proof.
  intros s k p j se H. destruct (Nat.eq_dec k j) as [E|E].
  - subst. destruct (Nat.lt_ge_cases j (length (ws s))) as [L|L].
    + rewrite phase_set_same in H by exact L. left. auto.
    + unfold phase, set_phase in H. simpl in H. rewrite nth_overflow in H; [discriminate|].
      rewrite upd_length. exact L.
  - rewrite phase_set_other in H by exact E. right. split; [congruence|exact H].
Qed.

Lemma phase_map_enqueue : forall s n a j se al,
  phase (set_ws (set_alive s al) (map (enqueue n a) (ws s))) j = Active se ->
  exists se0, phase s j = Active se0 /\ se_watch se = se_watch se0 /\ se_listed se = se_listed se0.
Proof.
  intros s n a j se al H. unfold phase in *. simpl in H.
  change Stopped with (enqueue n a Stopped) in H. rewrite map_nth in H.
  destruct (nth j (ws s) Stopped) as [| |se0|]; simpl in H; try discriminate.
  exists se0. split; [reflexivity|]. destruct (se_watch se0) eqn:W; inversion H; subst; simpl; auto.
Qed.

Lemma phase_snoc : forall s j se, phase (set_ws s (ws s ++ [Idle])) j = Active se -> phase s j = Active se.
Proof.
  intros s j se H. unfold phase in *. simpl in H.
  destruct (Nat.lt_ge_cases j (length (ws s))) as [L|L].
  - rewrite app_nth1 in H by exact L. exact H.
  - rewrite app_nth2 in H by exact L. destruct (j - length (ws s)) as [|[|d]]; simpl in H; discriminate.
Qed.

Ltac phase_cases H :=
  apply phase_set_cases in H; destruct H as [[? H]|[? H]]; [subst; try discriminate; try (inversion H; subst; clear H)|].
Ltac same I := constructor; [apply (inv_alive _ I)|apply (inv_listed _ I)|apply (inv_holder _ I)].

(* an update of the session of watcher k that keeps "listed -> watch" *)
Lemma inv_set_active : forall s k se se', inv s -> phase s k = Active se ->
  (se_listed se' = true -> se_watch se' = true) ->
  inv (set_phase s k (Active se')).
Proof.
  intros s k se se' I Pk Hl. constructor; simpl.
  - apply (inv_alive _ I).
  - intros j x P L. phase_cases P; [auto|]. apply (inv_listed _ I j x P L).
  - intros j x P. phase_cases P; [apply (inv_holder _ I _ _ Pk)|]. apply (inv_holder _ I j x P).
Qed.

Lemma inv_step : forall s e, inv s -> inv (step s e).
Proof.
  intros s e I.
  destruct e; simpl.
  - (* EAddNode *) destruct (memn n (nodes s)) eqn:M; [same I|]. constructor; simpl;
      [|apply (inv_listed _ I)|apply (inv_holder _ I)].
    intros m Hm. apply (inv_alive _ I) in Hm. apply memn_In. apply in_or_app. left. apply memn_In. exact Hm.
  - (* EHeartbeat *) destruct (memn n (nodes s)) eqn:M; simpl; [|same I].
    destruct (memn n (alive s)) eqn:A; [same I|]. constructor; simpl.
    + intros m Hm. apply orb_true_iff in Hm. destruct Hm as [Hm|Hm];
        [apply Nat.eqb_eq in Hm; subst; exact M|apply (inv_alive _ I); exact Hm].
    + intros k se P L. apply phase_map_enqueue in P. destruct P as [se0 [P [W Li]]].
      rewrite W. apply (inv_listed _ I k se0 P). congruence.
    + intros k se P. apply phase_map_enqueue in P. destruct P as [se0 [P _]]. apply (inv_holder _ I k se0 P).
  - (* ELapse *) destruct (memn n (alive s)) eqn:A; [|same I]. constructor; simpl.
    + intros m Hm. apply (inv_alive _ I). apply memn_In in Hm. unfold remn in Hm. apply filter_In in Hm.
      apply memn_In. tauto.
    + intros k se P L. apply phase_map_enqueue in P. destruct P as [se0 [P [W Li]]].
      rewrite W. apply (inv_listed _ I k se0 P). congruence.
    + intros k se P. apply phase_map_enqueue in P. destruct P as [se0 [P _]]. apply (inv_holder _ I k se0 P).
  - (* ECreate *) destruct (memn n (nodes s)); same I.
  - (* EReport *) same I.
  - (* ESpawn *) constructor; simpl; [apply (inv_alive _ I)| |].
    + intros k se P. apply phase_snoc in P. apply (inv_listed _ I k se P).
    + intros k se P. apply phase_snoc in P. apply (inv_holder _ I k se P).
  - (* EStart *) destruct (phase s k) eqn:Pk; try (same I). constructor; simpl; [apply (inv_alive _ I)| |].
    + intros j se P. phase_cases P. apply (inv_listed _ I j se P).
    + intros j se P. phase_cases P. apply (inv_holder _ I j se P).
  - (* ERegister *) destruct (phase s k) eqn:Pk; try (same I).
    destruct (holder s) eqn:Ho; [same I|]. constructor; simpl; [apply (inv_alive _ I)| |].
    + intros j se P L. phase_cases P; [simpl in L; discriminate|]. apply (inv_listed _ I j se P L).
    + intros j se P. phase_cases P; [reflexivity|]. apply (inv_holder _ I) in P. congruence.
  - (* EExpire *) destruct (phase s k) eqn:Pk; try (same I). constructor; simpl; [apply (inv_alive _ I)| |].
    + intros j se0 P. phase_cases P. apply (inv_listed _ I j se0 P).
    + intros j se0 P. phase_cases P. pose proof (inv_holder _ I _ _ P). pose proof (inv_holder _ I _ _ Pk). congruence.
  - (* EStop *) destruct (phase s k) eqn:Pk; try (same I).
    + constructor; simpl; [apply (inv_alive _ I)| |].
      * intros j se0 P. phase_cases P. apply (inv_listed _ I j se0 P).
      * intros j se0 P. phase_cases P. apply (inv_holder _ I j se0 P).
    + constructor; simpl; [apply (inv_alive _ I)| |].
      * intros j se0 P. phase_cases P. apply (inv_listed _ I j se0 P).
      * intros j se0 P. phase_cases P. apply (inv_holder _ I j se0 P).
    + constructor; simpl; [apply (inv_alive _ I)| |].
      * intros j se0 P. phase_cases P. apply (inv_listed _ I j se0 P).
      * intros j se0 P. phase_cases P. pose proof (inv_holder _ I _ _ P). pose proof (inv_holder _ I _ _ Pk). congruence.
  - (* EWatch *) destruct (phase s k) eqn:Pk; try (same I).
    apply (inv_set_active s k se); auto.
  - (* EInitList *) destruct (phase s k) eqn:Pk; try (same I).
    destruct (se_listed se || negb (se_watch se)) eqn:G; [same I|].
    apply (inv_set_active s k se); auto. simpl. intros _.
    apply orb_false_iff in G. destruct G as [_ G]. apply negb_false_iff in G. exact G.
  - (* EInitRead *) destruct (phase s k) eqn:Pk; try (same I).
    destruct (se_init se) eqn:Ini; [same I|].
    apply (inv_set_active s k se); auto. simpl. apply (inv_listed _ I k se Pk).
  - (* EDeliver *) destruct (phase s k) eqn:Pk; try (same I).
    destruct (se_queue se) as [|[n0 a0] r0] eqn:Qu; [same I|].
    apply (inv_set_active s k se); auto. simpl. apply (inv_listed _ I k se Pk).
  - (* EHandle *) destruct (phase s k) eqn:Pk; try (same I).
    destruct (nth_error (se_tasks se) j) eqn:Nt; [|same I].
    pose proof (inv_set_active s k se (mkSe (se_watch se) (se_listed se) (se_init se) (se_queue se) (remove_nth j (se_tasks se))) I Pk (inv_listed _ I k se Pk)) as X.
    destruct X as [XA XL XH]. constructor; simpl; auto.
Qed.

Lemma inv_init : inv init.
Proof.
  constructor; simpl; intros; try discriminate; unfold phase in *; simpl in *; destruct k; discriminate.
Qed.
Lemma inv_run : forall evs s, inv s -> inv (run s evs).
Proof. induction evs as [|e t IH]; intros s I; simpl; [exact I|]. apply IH. apply inv_step. exact I. Qed.
(* every workload recorded on n in s is, in s', still on n and reported down *)
Definition all_down (s s' : st) (n : node) : Prop :=
  forall i w, nth_error (wls s) i = Some w -> w_node w = n ->
    exists w', nth_error (wls s') i = Some w' /\ w_node w' = n /\ w_st w' = Some (false, false).

Lemma discharge_all_down : forall s k se n,
  phase s k = Active se -> owes s se n ->
  all_down s (settle (settle_bound s k) k s) n.
Proof.
  intros s k se n P O.
  destruct (settle_discharges (settle_bound s k) s k se n P (msr_bound s k se P) (or_introl O)) as [D [Wn _]].
  intros i w Hi Hn. destruct (same_nodes_nth _ _ i w Wn Hi) as [w' [Hi' Hn']].
  exists w'. split; [exact Hi'|]. split; [congruence|].
  apply (proj1 (node_down_spec _ n) D i w' Hi'). congruence.
Qed.

(* C28, obligations: whatever a session owes (a queued DELETE, a pending
   handler, a node its init pass will find without status) is discharged by
   the watcher's own steps *)
Theorem obligations_discharged : forall s k se n,
  phase s k = Active se -> owes s se n -> all_down s (settle (settle_bound s k) k s) n.
Proof. exact discharge_all_down. Qed.

Lemma phase_enqueue : forall s n a k se al,
  phase s k = Active se ->
  phase (set_ws (set_alive s al) (map (enqueue n a) (ws s))) k = enqueue n a (Active se).
Proof.
  intros s n a k se al P. unfold phase in *. simpl.
  change Stopped with (enqueue n a Stopped). rewrite map_nth, P. reflexivity.
Qed.

(* C28_down, first half: the status of n disappears while watcher k is active *)
Theorem down_on_lapse : forall evs k se n,
  let s := run init evs in
  phase s k = Active se -> memn n (alive s) = true ->
  let s1 := step s (ELapse n) in
  all_down s (settle (settle_bound s1 k) k s1) n.
Proof.
  intros evs k se n s P A s1.
  assert (I : inv s) by (apply inv_run; exact inv_init).
  assert (E : wls s1 = wls s) by (unfold s1; simpl; rewrite A; reflexivity).
  assert (P1 : phase s1 k = enqueue n false (Active se)).
  { unfold s1. simpl. rewrite A. apply phase_enqueue. exact P. }
  assert (Ab : absent s1 n).
  { unfold absent, s1. simpl. rewrite A. simpl. apply memn_remn_same. }
  assert (Nn : nodes s1 = nodes s) by (unfold s1; simpl; rewrite A; reflexivity).
  intros i w Hi Hn. rewrite <- E in Hi. revert i w Hi Hn.
  change (all_down s1 (settle (settle_bound s1 k) k s1) n).
  simpl in P1. destruct (se_watch se) eqn:W.
  - apply (discharge_all_down s1 k _ n P1). right. left. simpl. apply in_or_app. right. left. reflexivity.
  - apply (discharge_all_down s1 k _ n P1). right. right. right.
    split; [|split; [|exact Ab]].
    + destruct (se_listed se) eqn:L; [|reflexivity]. rewrite (inv_listed _ I k se P L) in W. discriminate.
    + rewrite Nn. apply memn_In. apply (inv_alive _ I). exact A.
Qed.

(* C28_down, second half: watcher k becomes active while the status of n is absent *)
Theorem down_on_activation : forall evs k n,
  let s := run init evs in
  phase s k = Waiting -> holder s = None ->
  memn n (nodes s) = true -> memn n (alive s) = false ->
  let s1 := step s (ERegister k) in
  all_down s (settle (settle_bound s1 k) k s1) n.
Proof.
  intros evs k n s P H Nn A s1.
  assert (L : k < length (ws s)).
  { unfold phase in P. destruct (Nat.lt_ge_cases k (length (ws s))); [assumption|].
    rewrite nth_overflow in P by assumption. discriminate. }
  assert (P1 : phase s1 k = Active fresh).
  { unfold s1. simpl. rewrite P, H. unfold phase. simpl. rewrite nth_upd_same by exact L. reflexivity. }
  assert (E : wls s1 = wls s) by (unfold s1; simpl; rewrite P, H; reflexivity).
  intros i w Hi Hn. rewrite <- E in Hi. revert i w Hi Hn.
  change (all_down s1 (settle (settle_bound s1 k) k s1) n).
  apply (discharge_all_down s1 k fresh n P1). right. right. right. simpl.
  split; [reflexivity|]. unfold absent, s1. simpl. rewrite P, H. simpl.
  split; [apply memn_In; exact Nn|exact A].
Qed.

(* the handler step itself: SetNode{WorkloadsDown} marks every workload recorded on n *)
Theorem handler_step : forall s k se j n,
  phase s k = Active se -> nth_error (se_tasks se) j = Some n ->
  let s' := step s (EHandle k j) in
  all_down s s' n /\ trace s' = THandled k n (on_node n (wls s)) :: trace s.
Proof.
  intros s k se j n P T s'. unfold s'. cbn [step]. rewrite P, T.
  unfold add_trace, set_wls, set_phase, set_ws. cbn [wls trace]. split; [|reflexivity].
  intros i w Hi Hn. cbn [wls nodes alive holder ws trace]. exists (down_wl n w). split; [rewrite nth_error_map, Hi; reflexivity|].
  unfold down_wl. rewrite Hn, Nat.eqb_refl. simpl. auto.
Qed.

(* withActiveLock: at most one watcher is active *)
Theorem one_active : forall evs k1 k2 se1 se2,
  let s := run init evs in
  phase s k1 = Active se1 -> phase s k2 = Active se2 -> k1 = k2.
Proof.
  intros evs k1 k2 se1 se2 s P1 P2.
  assert (I : inv s) by (apply inv_run; exact inv_init).
  pose proof (inv_holder _ I _ _ P1). pose proof (inv_holder _ I _ _ P2). congruence.
Qed.

(* the hypotheses are satisfiable, and the statement is not vacuous *)
Example down_on_lapse_example :
  let evs := [EAddNode 0; EHeartbeat 0; ECreate 0; EReport 0 true true; ESpawn; EStart 0; ERegister 0; EWatch 0] in
  let s := run init evs in
  (exists se, phase s 0 = Active se) /\ memn 0 (alive s) = true /\
  map w_st (wls s) = [Some (true, true)] /\
  let s1 := step s (ELapse 0) in
  map w_st (wls (settle (settle_bound s1 0) 0 s1)) = [Some (false, false)].
Proof. vm_compute. split; [eexists; reflexivity|auto]. Qed.

(* ---- the start order before /repo commit 26913a3 ----
   monitor started initNodeStatus first and the watch was opened later by a pool
   goroutine: the init pass did not wait for the watch. *)
Definition old_step (s : st) (e : event) : st :=
  match e with
  | EInitList k =>
      match phase s k with
      | Active se => if se_listed se then s
                     else set_phase s k (Active (mkSe (se_watch se) true (nodes s) (se_queue se) (se_tasks se)))
      | _ => s
      end
  | _ => step s e
  end.
Definition old_run (s : st) (evs : list event) : st := fold_left old_step evs s.

(* lock taken, init pass over (node 0 found alive), watch not yet open; then
   the status of node 0 disappears; then the watcher does everything it can *)
Definition old_witness : list event :=
  [EAddNode 0; EHeartbeat 0; ECreate 0; EReport 0 true true; ESpawn; EStart 0; ERegister 0;
   EInitList 0; EInitRead 0;
   ELapse 0;
   EWatch 0; EInitList 0; EInitRead 0; EDeliver 0; EHandle 0 0].

Theorem old_order_missed_lapse :
  let s := old_run init old_witness in
  (exists se, phase s 0 = Active se /\ se_watch se = true /\ se_listed se = true /\
              se_init se = [] /\ se_queue se = [] /\ se_tasks se = []) /\
  memn 0 (alive s) = false /\ map w_st (wls s) = [Some (true, true)].
Proof. vm_compute. split; [eexists; repeat split|auto]. Qed.

(* the same schedule under the repaired order ends with the workload down *)
Example new_order_catches_lapse :
  let s1 := run init [EAddNode 0; EHeartbeat 0; ECreate 0; EReport 0 true true; ESpawn; EStart 0; ERegister 0;
                      EInitList 0; EInitRead 0; ELapse 0] in
  map w_st (wls (settle (settle_bound s1 0) 0 s1)) = [Some (false, false)].
Proof. vm_compute. reflexivity. Qed.
