(* Model of the node-status watcher (C28).

   selfmon/selfmon.go
     run            : for { withActiveLock(ctx, monitor); sleep }
     withActiveLock : StartEphemeral(/selfmon/active) -- retried every second while the
                      key exists; f(ctx) runs with a context cancelled when the lock
                      expires or selfmon stops
     monitor        : ch := cluster.NodeStatusStream(ctx); go initNodeStatus(ctx);
                      for msg := range ch { go dealNodeStatusMessage(ctx, msg) }
                      (order as of /repo commit 26913a3; before it initNodeStatus was started
                       first and the watch was opened asynchronously; see the old_ model in SelfmonProofs)
     initNodeStatus : ListPodNodes(all); for each node: GetNodeStatus; absent => Alive=false;
                      dealNodeStatusMessage
     dealNodeStatusMessage : Alive => ignore; else SetNode{WorkloadsDown: true}
   store/etcdv3/node.go
     NodeStatusStream : Watch(/status:node/ prefix) (returns once the watch is established), then
                        in a pool goroutine: PUT => Alive=true, DELETE => Alive=false
     SetNodeStatus    : ttl<0 => delete; else BindStatus (put with lease / keep-alive of the
                        existing lease when the value is unchanged: no event)
   cluster/calcium/node.go
     SetNode{WorkloadsDown} -> setAllWorkloadsOnNodeDown: ListNodeWorkloads(node); for each:
                        StatusMeta.Running=false, Healthy=false; SetWorkloadStatus(ttl 0)

   The model is a transition system over atomic actions of the environment
   (heartbeat, lapse, create, agent report) and of the watcher goroutines
   (register, establish watch, list, read one node status, deliver one watch
   event, run one handler).  Every list of events is a run.  No proofs here. *)
From Coq Require Import List Bool Arith PeanoNat.
Import ListNotations.

Definition node := nat.
Definition wid := nat.

Record wl := mkWl { w_node : node; w_st : option (bool * bool) }.   (* StatusMeta: (running, healthy) *)

(* one activation of a watcher: the body of withActiveLock's f = monitor *)
Record session := mkSe {
  se_watch : bool;                 (* the etcd watch of NodeStatusStream is established *)
  se_listed : bool;                (* initNodeStatus has listed the nodes *)
  se_init : list node;             (* nodes initNodeStatus still has to examine *)
  se_queue : list (node * bool);   (* watch events not yet delivered: (node, alive) *)
  se_tasks : list node             (* dealNodeStatusMessage(Alive=false) calls that have not run SetNode yet *)
}.
Definition fresh : session := mkSe false false [] [] [].

Inductive wphase := Idle | Waiting | Active (se : session) | Stopped.

Inductive tev := THandled (k : nat) (n : node) (ws : list wid).

Record st := mkSt {
  nodes : list node;       (* node records *)
  alive : list node;       (* nodes whose status key exists *)
  wls : list wl;           (* index = workload number *)
  holder : option nat;     (* whose lease the key /selfmon/active is bound to, if the key exists *)
  ws : list wphase;        (* watchers, by number *)
  trace : list tev
}.

Inductive event :=
| EAddNode (n : node)
| EHeartbeat (n : node)          (* SetNodeStatus(n, ttl>0) *)
| ELapse (n : node)              (* status key deleted or its lease expired *)
| ECreate (n : node)             (* a workload is created on n *)
| EReport (w : wid) (r h : bool) (* the agent reports a workload status *)
| ESpawn                         (* a new selfmon process: watcher number = length ws *)
| EStart (k : nat)               (* run(): first attempt pending *)
| ERegister (k : nat)            (* StartEphemeral(/selfmon/active) attempt *)
| ELeaseLost (k : nat)           (* the lease of /selfmon/active held by k expires or is revoked: the key vanishes *)
| EExpire (k : nat)              (* k's keep-alive notices the loss (or its context is cancelled): the session
                                    ends, unregister revokes k's own lease, run() loops *)
| EStop (k : nat)                (* selfmon's context is cancelled *)
| EWatch (k : nat)               (* NodeStatusStream's goroutine establishes the watch *)
| EInitList (k : nat)
| EInitRead (k : nat)
| EDeliver (k : nat)
| EHandle (k : nat) (j : nat)    (* the j-th pending handler runs SetNode{WorkloadsDown} *)
| EHandleFail (k : nat) (j : nat). (* ... and SetNode fails (store/lock error): logged, NOT retried *)

Fixpoint memn (i : nat) (l : list nat) : bool :=
  match l with [] => false | x :: t => Nat.eqb x i || memn i t end.
Definition remn (i : nat) (l : list nat) : list nat := filter (fun x => negb (x =? i)) l.

Fixpoint upd {A} (i : nat) (f : A -> A) (l : list A) : list A :=
  match l, i with
  | [], _ => []
  | x :: t, 0 => f x :: t
  | x :: t, S j => x :: upd j f t
  end.
Fixpoint remove_nth {A} (j : nat) (l : list A) : list A :=
  match l, j with
  | [], _ => []
  | _ :: t, 0 => t
  | x :: t, S j' => x :: remove_nth j' t
  end.

Definition set_nodes s v := mkSt v (alive s) (wls s) (holder s) (ws s) (trace s).
Definition set_alive s v := mkSt (nodes s) v (wls s) (holder s) (ws s) (trace s).
Definition set_wls s v := mkSt (nodes s) (alive s) v (holder s) (ws s) (trace s).
Definition set_holder s v := mkSt (nodes s) (alive s) (wls s) v (ws s) (trace s).
Definition set_ws s v := mkSt (nodes s) (alive s) (wls s) (holder s) v (trace s).
Definition add_trace t s := mkSt (nodes s) (alive s) (wls s) (holder s) (ws s) (t :: trace s).

(* a watch event reaches every session whose watch is established *)
Definition enqueue (n : node) (a : bool) (p : wphase) : wphase :=
  match p with
  | Active se => if se_watch se
                 then Active (mkSe true (se_listed se) (se_init se) (se_queue se ++ [(n, a)]) (se_tasks se))
                 else p
  | _ => p
  end.

(* setAllWorkloadsOnNodeDown *)
Definition down_wl (n : node) (w : wl) : wl :=
  if w_node w =? n then mkWl (w_node w) (Some (false, false)) else w.
Fixpoint on_node_from (n : node) (l : list wl) (i : nat) : list wid :=
  match l with
  | [] => []
  | w :: t => if w_node w =? n then i :: on_node_from n t (S i) else on_node_from n t (S i)
  end.
Definition on_node (n : node) (l : list wl) : list wid := on_node_from n l 0.

Definition phase (s : st) (k : nat) : wphase := nth k (ws s) Stopped.
Definition set_phase (s : st) (k : nat) (p : wphase) : st := set_ws s (upd k (fun _ => p) (ws s)).

(* unregister(): k revokes its own lease; a key bound to somebody else's lease stays *)
Definition release_by (k : nat) (h : option nat) : option nat :=
  match h with Some k' => if k' =? k then None else h | None => None end.

Definition step (s : st) (e : event) : st :=
  match e with
  | EAddNode n => if memn n (nodes s) then s else set_nodes s (nodes s ++ [n])
  | EHeartbeat n =>
      if negb (memn n (nodes s)) then s                      (* GetNode fails *)
      else if memn n (alive s) then s                        (* same value, lease kept alive: no event *)
      else set_ws (set_alive s (n :: alive s)) (map (enqueue n true) (ws s))
  | ELapse n =>
      if memn n (alive s)
      then set_ws (set_alive s (remn n (alive s))) (map (enqueue n false) (ws s))
      else s
  | ECreate n =>
      (* the harness pins the node by name (NodeFilter.Includes), which bypasses the
         availability filter of filterNodes: creation succeeds on a node without status *)
      if memn n (nodes s) then set_wls s (wls s ++ [mkWl n None]) else s
  | EReport w r h => set_wls s (upd w (fun x => mkWl (w_node x) (Some (r, h))) (wls s))
  | ESpawn => set_ws s (ws s ++ [Idle])
  | EStart k => match phase s k with Idle => set_phase s k Waiting | _ => s end
  | ERegister k =>
      match phase s k, holder s with
      | Waiting, None => set_holder (set_phase s k (Active fresh)) (Some k)
      | _, _ => s
      end
  | ELeaseLost k =>
      match holder s with
      | Some k' => if k' =? k then set_holder s None else s
      | None => s
      end
  | EExpire k =>
      match phase s k with
      | Active _ => set_holder (set_phase s k Waiting) (release_by k (holder s))
      | _ => s
      end
  | EStop k =>
      match phase s k with
      | Active _ => set_holder (set_phase s k Stopped) (release_by k (holder s))
      | Idle | Waiting => set_phase s k Stopped
      | Stopped => s
      end
  | EWatch k =>
      match phase s k with
      | Active se => set_phase s k (Active (mkSe true (se_listed se) (se_init se) (se_queue se) (se_tasks se)))
      | _ => s
      end
  | EInitList k =>
      match phase s k with
      | Active se => if se_listed se || negb (se_watch se) then s    (* init starts after the stream is open *)
                     else set_phase s k (Active (mkSe (se_watch se) true (nodes s) (se_queue se) (se_tasks se)))
      | _ => s
      end
  | EInitRead k =>
      match phase s k with
      | Active se =>
          match se_init se with
          | [] => s
          | n :: r =>
              let tasks := if memn n (alive s) then se_tasks se else se_tasks se ++ [n] in
              set_phase s k (Active (mkSe (se_watch se) (se_listed se) r (se_queue se) tasks))
          end
      | _ => s
      end
  | EDeliver k =>
      match phase s k with
      | Active se =>
          match se_queue se with
          | [] => s
          | (n, a) :: r =>
              let tasks := if a then se_tasks se else se_tasks se ++ [n] in
              set_phase s k (Active (mkSe (se_watch se) (se_listed se) (se_init se) r tasks))
          end
      | _ => s
      end
  | EHandle k j =>
      match phase s k with
      | Active se =>
          match nth_error (se_tasks se) j with
          | None => s
          | Some n =>
              let s1 := set_phase s k (Active (mkSe (se_watch se) (se_listed se) (se_init se) (se_queue se)
                                                   (remove_nth j (se_tasks se)))) in
              add_trace (THandled k n (on_node n (wls s))) (set_wls s1 (map (down_wl n) (wls s)))
          end
      | _ => s
      end
  | EHandleFail k j =>
      match phase s k with
      | Active se =>
          match nth_error (se_tasks se) j with
          | None => s
          | Some _ => set_phase s k (Active (mkSe (se_watch se) (se_listed se) (se_init se) (se_queue se)
                                                  (remove_nth j (se_tasks se))))
          end
      | _ => s
      end
  end.

Definition run (s : st) (evs : list event) : st := fold_left step evs s.
Definition init : st := mkSt [] [] [] None [] [].

(* ---- canonical continuation of watcher k on its own ---- *)
Definition next_event (s : st) (k : nat) : option event :=
  match phase s k with
  | Active se =>
      if negb (se_watch se) then Some (EWatch k)
      else if negb (se_listed se) then Some (EInitList k)
      else match se_init se, se_queue se, se_tasks se with
           | _ :: _, _, _ => Some (EInitRead k)
           | [], _ :: _, _ => Some (EDeliver k)
           | [], [], _ :: _ => Some (EHandle k 0)
           | [], [], [] => None
           end
  | _ => None
  end.
Fixpoint settle (fuel : nat) (k : nat) (s : st) : st :=
  match fuel with
  | 0 => s
  | S f => match next_event s k with Some e => settle f k (step s e) | None => s end
  end.
(* the same continuation with the first handler failing *)
Fixpoint settle_failing (fuel : nat) (k : nat) (s : st) (armed : bool) : st :=
  match fuel with
  | 0 => s
  | S f => match next_event s k with
           | Some (EHandle k' j) =>
               if armed then settle_failing f k (step s (EHandleFail k' j)) false
               else settle_failing f k (step s (EHandle k' j)) false
           | Some e => settle_failing f k (step s e) armed
           | None => s
           end
  end.
Definition settle_bound (s : st) (k : nat) : nat :=
  match phase s k with
  | Active se => 2 + 2 * (length (nodes s) + length (se_init se)) + 2 * length (se_queue se) + length (se_tasks se)
  | _ => 0
  end.

Definition is_down (w : wl) : bool :=
  match w_st w with Some (false, false) => true | _ => false end.
(* every workload recorded on n is reported neither running nor healthy *)
Definition node_down (s : st) (n : node) : bool :=
  forallb (fun w => negb (w_node w =? n) || is_down w) (wls s).

(* ------------------------------------------------------------------ *)
(* Correspondence cases                                                *)
(* ------------------------------------------------------------------ *)

Inductive action :=
| AAddNode (n : node)           (* AddNode + first heartbeat *)
| AHeartbeat (n : node)
| ALapse (n : node)
| ALapseFail (n : node)         (* lapse; the SetNode call of the handler it triggers fails (injected) *)
| ALapseHb (n : node)           (* lapse; the heartbeat is back before the handler has made its first call *)
| ACreate (n : node)
| AReport (w : wid) (r h : bool)
| AStart                        (* a new selfmon starts; runs freely *)
| AStartHeld                    (* a new selfmon starts with its NodeStatusStream call held back *)
| ARelease (k : nat)            (* ... and released *)
| AStop (k : nat)
| AExpire (k : nat).

Definition obs := list (option (bool * bool)).   (* status of every workload, by number *)
Record slot := mkSlot { act : action; seen : obs }.
Record case := mkCase { slots : list slot }.

(* which watchers have their stream call held back by the harness *)
Fixpoint all_init_reads (fuel k : nat) (s : st) : st :=
  match fuel with
  | 0 => s
  | S f => match phase s k with
           | Active se => match se_init se with
                          | _ :: _ => all_init_reads f k (step s (EInitRead k))
                          | [] => s
                          end
           | _ => s
           end
  end.
Fixpoint all_handles (fuel k : nat) (s : st) : st :=
  match fuel with
  | 0 => s
  | S f => match phase s k with
           | Active se => match se_tasks se with
                          | _ :: _ => all_handles f k (step s (EHandle k 0))
                          | [] => s
                          end
           | _ => s
           end
  end.

(* what the watchers do until nothing is enabled: if the lock is free the
   lowest-numbered waiting watcher takes it (the harness has at most one waiting);
   the lock holder then runs to completion -- unless the harness holds it back in
   its NodeStatusStream call, where it just sits with the lock *)
Fixpoint first_waiting_from (l : list wphase) (i : nat) : option nat :=
  match l with
  | [] => None
  | Waiting :: _ => Some i
  | _ :: t => first_waiting_from t (S i)
  end.
Definition first_waiting (s : st) : option nat := first_waiting_from (ws s) 0.
Definition take_lock (s : st) : st :=
  match holder s, first_waiting s with
  | None, Some k => step s (ERegister k)
  | _, _ => s
  end.
Definition quiesce (held : list nat) (armed : bool) (s : st) : st :=
  let s1 := take_lock s in
  match holder s1 with
  | Some k => if memn k held then s1 else settle_failing (settle_bound s1 k + 8) k s1 armed
  | None => s1
  end.

Definition act_events (s : st) (a : action) : list event :=
  match a with
  | AAddNode n => [EAddNode n; EHeartbeat n]
  | AHeartbeat n => [EHeartbeat n]
  | ALapse n | ALapseFail n => [ELapse n]
  | ALapseHb n => [ELapse n; EHeartbeat n]
  | ACreate n => [ECreate n]
  | AReport w r h => [EReport w r h]
  | AStart | AStartHeld => [ESpawn; EStart (length (ws s))]
  | ARelease _ => []
  | AStop k => [EStop k]
  | AExpire k => [ELeaseLost k; EExpire k]
  end.
Definition held_after (s : st) (held : list nat) (a : action) : list nat :=
  match a with
  | AStartHeld => length (ws s) :: held
  | ARelease k | AStop k => remn k held
  | _ => held
  end.

Definition st_eqb (a b : option (bool * bool)) : bool :=
  match a, b with
  | None, None => true
  | Some (r1, h1), Some (r2, h2) => Bool.eqb r1 r2 && Bool.eqb h1 h2
  | _, _ => false
  end.
Fixpoint obs_eqb (a b : obs) : bool :=
  match a, b with
  | [], [] => true
  | x :: a', y :: b' => st_eqb x y && obs_eqb a' b'
  | _, _ => false
  end.

Fixpoint agree_from (s : st) (held : list nat) (sls : list slot) : bool :=
  match sls with
  | [] => true
  | sl :: t =>
      let held' := held_after s held (act sl) in
      let s1 := run s (act_events s (act sl)) in
      let armed := match act sl with ALapseFail _ => true | _ => false end in
      let s2 := quiesce held' armed s1 in
      obs_eqb (map w_st (wls s2)) (seen sl) && agree_from s2 held' t
  end.
Definition agree (c : case) : bool := agree_from init [] (slots c).

(* ---- boolean reflection of the property on the observed run ----
   From the script alone: which nodes are absent, which workloads sit on which
   node, who holds the lock.  A watcher whose NodeStatusStream call the harness
   holds back is slowed down artificially, so its obligations fall due when it
   is released.  Clause 1: a lapse of n while a free-running watcher holds the
   lock => every workload on n is seen down after that slot.  Clause 2: a
   free-running watcher takes the lock (start, release, hand-over by
   stop/expire) while n is absent => same. *)
Record okst := mkOk {
  o_nodes : list node; o_alive : list node; o_wnode : list node;   (* node of each workload *)
  o_free : list nat;      (* started, not stopped, not held *)
  o_held : list nat;
  o_nw : nat;             (* watchers spawned *)
  o_active : option nat;  (* who holds the lock, as far as the script determines it *)
  o_good : bool
}.
Definition is_nil {A} (l : list A) : bool := match l with [] => true | _ => false end.
Definition min_of (l : list nat) : option nat :=
  match l with [] => None | x :: t => Some (fold_left Nat.min t x) end.
Definition seen_down (wnode : list node) (seen : obs) (n : node) : bool :=
  forallb (fun p => negb (fst p =? n) || match snd p with Some (false, false) => true | _ => false end)
          (combine wnode seen).
(* the script-level state after a slot (the verdict so far is carried along unchanged) *)
Definition ok_upd (o : okst) (sl : slot) : okst :=
  let a := act sl in
  let nodes' := match a with AAddNode n => if memn n (o_nodes o) then o_nodes o else o_nodes o ++ [n] | _ => o_nodes o end in
  let alive' := match a with
                | AAddNode n | AHeartbeat n => if memn n nodes' && negb (memn n (o_alive o)) then n :: o_alive o else o_alive o
                | ALapse n | ALapseFail n => remn n (o_alive o)
                | ALapseHb n => if memn n nodes' then n :: remn n (o_alive o) else remn n (o_alive o)
                | _ => o_alive o end in
  let wnode' := match a with
                | ACreate n => if length (o_wnode o) <? length (seen sl) then o_wnode o ++ [n] else o_wnode o
                | _ => o_wnode o end in
  let free' := match a with
               | AStart => o_free o ++ [o_nw o]
               | ARelease k => if memn k (o_held o) then o_free o ++ [k] else o_free o
               | AStop k => remn k (o_free o)
               | _ => o_free o end in
  let held' := match a with
               | AStartHeld => o_nw o :: o_held o
               | ARelease k => remn k (o_held o)
               | AStop k => remn k (o_held o)
               | _ => o_held o end in
  let nw' := match a with AStart | AStartHeld => S (o_nw o) | _ => o_nw o end in
  let remaining := free' ++ held' in
  let active' := match a, o_active o with
                 | (AStart | AStartHeld), None => Some (o_nw o)
                 | (AStop k | AExpire k), Some k' => if k =? k' then min_of remaining else Some k'
                 | _, x => x
                 end in
  mkOk nodes' alive' wnode' free' held' nw' active' (o_good o).

(* is the lock in the hands of a free-running watcher? *)
Definition lock_running (held : list nat) (x : option nat) : bool :=
  match x with Some k => negb (memn k held) | None => false end.
(* does this step put a free-running watcher in charge? *)
Definition ok_takes (o : okst) (sl : slot) : bool :=
  let o' := ok_upd o sl in
  match act sl, o_active o with
  | AStart, None => true
  | ARelease k, Some k' => (k =? k') && memn k (o_held o)
  | (AStop k | AExpire k), Some k' => (k =? k') && lock_running (o_held o') (o_active o')
  | _, _ => false
  end.
Definition ok_absent (o' : okst) : list node := filter (fun n => negb (memn n (o_alive o'))) (o_nodes o').
(* the actions in which the status of a node disappears (and its handler is not made to fail) *)
Definition lapse_of (a : action) : option node :=
  match a with ALapse n | ALapseHb n => Some n | _ => None end.
Definition ok_check (o : okst) (sl : slot) : bool :=
  let o' := ok_upd o sl in
  match lapse_of (act sl) with
  | Some n =>
      (* the status disappears while a watcher is active -- whether or not it is back soon *)
      if lock_running (o_held o') (o_active o) && memn n (o_alive o)
      then seen_down (o_wnode o') (seen sl) n else true
  | None =>
      (* a watcher becomes active while the status is absent *)
      if ok_takes o sl then forallb (seen_down (o_wnode o') (seen sl)) (ok_absent o') else true
  end.
Definition ok_step (o : okst) (sl : slot) : okst :=
  let o' := ok_upd o sl in
  mkOk (o_nodes o') (o_alive o') (o_wnode o') (o_free o') (o_held o') (o_nw o') (o_active o')
       (o_good o && ok_check o sl).
Definition ok (c : case) : bool :=
  o_good (fold_left ok_step (slots c) (mkOk [] [] [] [] [] 0 None true)).
