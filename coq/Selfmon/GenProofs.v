(* C28: the harness check ok accepts the model's own observations for every history:
   an invariant (rel) ties ok's script-level bookkeeping to the model state at slot boundaries. *)
From Coq Require Import List Bool Arith PeanoNat Lia.
From Verif Require Import Selfmon.Selfmon Selfmon.SelfmonProofs Selfmon.OkProofs.
Import ListNotations.

(* ---- the steps of watcher k's own session ---- *)
Definition sess (k : nat) (e : event) : Prop :=
  e = EWatch k \/ e = EInitList k \/ e = EInitRead k \/ e = EDeliver k \/
  (exists j, e = EHandle k j) \/ (exists j, e = EHandleFail k j).

Lemma next_event_sess : forall s k e, next_event s k = Some e ->
  sess k e /\ (forall k' j, e = EHandle k' j -> k' = k).
Proof.
  intros s k e H. unfold next_event in H. destruct (phase s k); try discriminate.
  destruct (negb (se_watch se)); [inversion H; split; [left; reflexivity|intros; discriminate]|].
  destruct (negb (se_listed se)); [inversion H; split; [right; left; reflexivity|intros; discriminate]|].
  destruct (se_init se); [|inversion H; split; [right; right; left; reflexivity|intros; discriminate]].
  destruct (se_queue se); [|inversion H; split; [right; right; right; left; reflexivity|intros; discriminate]].
  destruct (se_tasks se); [discriminate|]. inversion H. split.
  - right. right. right. right. left. exists 0. reflexivity.
  - intros k' j E. inversion E. reflexivity.
Qed.

Lemma settle_failing_run : forall f k s a, exists evs, Forall (sess k) evs /\ settle_failing f k s a = run s evs.
Proof.
  induction f as [|f IH]; intros k s a; simpl; [exists []; split; [constructor|reflexivity]|].
  destruct (next_event s k) as [e|] eqn:N; [|exists []; split; [constructor|reflexivity]].
  destruct (next_event_sess s k e N) as [Se Hk].
  destruct e as [n|n|n|n|w r h| |k0|k0|k0|k0|k0|k0|k0|k0|k0|k0 j|k0 j]; try (match goal with |- context [settle_failing f k (step s ?e) a] => destruct (IH k (step s e) a) as [evs [F E]]; exists (e :: evs); split; [constructor; [exact Se|exact F]|exact E] end).
  (* EHandle *)
  assert (k0 = k) by (apply (Hk k0 j); reflexivity). subst k0.
  destruct a.
  - destruct (IH k (step s (EHandleFail k j)) false) as [evs [F E]]. exists (EHandleFail k j :: evs).
    split; [constructor; [right; right; right; right; right; exists j; reflexivity|exact F]|exact E].
  - destruct (IH k (step s (EHandle k j)) false) as [evs [F E]]. exists (EHandle k j :: evs).
    split; [constructor; [exact Se|exact F]|exact E].
Qed.

Lemma settle_failing_false : forall f k s, settle_failing f k s false = settle f k s.
Proof.
  induction f as [|f IH]; intros k s; simpl; [reflexivity|].
  destruct (next_event s k) as [e|]; [|reflexivity]. destruct e; apply IH.
Qed.

(* what a session step leaves alone *)
Record frame (s s' : st) (k : nat) : Prop := mkFrame {
  fr_nodes : nodes s' = nodes s;
  fr_alive : alive s' = alive s;
  fr_holder : holder s' = holder s;
  fr_len : length (ws s') = length (ws s);
  fr_wnode : map w_node (wls s') = map w_node (wls s);
  fr_other : forall j, j <> k -> phase s' j = phase s j;
  fr_act : forall se, phase s k = Active se -> exists se', phase s' k = Active se' /\
             (se_watch se = true -> se_watch se' = true);
  fr_inact : (forall se, phase s k <> Active se) -> s' = s
}.

Lemma frame_refl : forall s k, frame s s k.
Proof. intros. constructor; auto. intros se P. exists se. auto. Qed.

Lemma frame_trans : forall a b c k, frame a b k -> frame b c k -> frame a c k.
Proof.
  intros a b c k [A1 A2 A3 A4 A5 A6 A7 A8] [B1 B2 B3 B4 B5 B6 B7 B8]. constructor; try congruence.
  - intros j Hj. rewrite B6, A6; auto.
  - intros se P. destruct (A7 se P) as [se1 [P1 W1]]. destruct (B7 se1 P1) as [se2 [P2 W2]].
    exists se2. split; auto.
  - intro H. rewrite (A8 H) in *. apply B8. exact H.
Qed.

Lemma set_phase_len : forall s k p, length (ws (set_phase s k p)) = length (ws s).
Proof. intros. unfold set_phase. simpl. apply upd_length. Qed.

Lemma frame_set_active : forall s k se se', phase s k = Active se ->
  (se_watch se = true -> se_watch se' = true) -> frame s (set_phase s k (Active se')) k.
Proof.
  intros s k se se' P W. constructor; simpl; auto.
  - apply upd_length.
  - intros j Hj. apply phase_set_other. congruence.
  - intros se0 P0. exists se'. split; [apply phase_set_same; eapply phase_active_lt; exact P|].
    rewrite P in P0. inversion P0; subst. exact W.
  - intro H. exfalso. apply (H se). exact P.
Qed.

Lemma sess_frame : forall s k e, sess k e -> frame s (step s e) k.
Proof.
  intros s k e [E|[E|[E|[E|[[j E]|[j E]]]]]]; subst e; simpl.
  - destruct (phase s k) eqn:P; try apply frame_refl. eapply frame_set_active; [exact P|]. simpl. auto.
  - destruct (phase s k) eqn:P; try apply frame_refl. destruct (se_listed se || negb (se_watch se)); [apply frame_refl|].
    eapply frame_set_active; [exact P|]. simpl. auto.
  - destruct (phase s k) eqn:P; try apply frame_refl. destruct (se_init se); [apply frame_refl|].
    eapply frame_set_active; [exact P|]. simpl. auto.
  - destruct (phase s k) eqn:P; try apply frame_refl. destruct (se_queue se) as [|[? ?] ?]; [apply frame_refl|].
    eapply frame_set_active; [exact P|]. simpl. auto.
  - destruct (phase s k) eqn:P; try apply frame_refl. destruct (nth_error (se_tasks se) j); [|apply frame_refl].
    pose proof (frame_set_active s k se (mkSe (se_watch se) (se_listed se) (se_init se) (se_queue se) (remove_nth j (se_tasks se))) P (fun H => H)) as F.
    destruct F as [F1 F2 F3 F4 F5 F6 F7 F8]. constructor; simpl; auto.
    all: try apply map_node_down; try exact F6; try exact F7; try (intro H; exfalso; apply (H se); exact P).
  - destruct (phase s k) eqn:P; try apply frame_refl. destruct (nth_error (se_tasks se) j); [|apply frame_refl].
    eapply frame_set_active; [exact P|]. simpl. auto.
Qed.

Lemma sess_run_frame : forall evs s k, Forall (sess k) evs -> frame s (run s evs) k.
Proof.
  induction evs as [|e t IH]; intros s k F; simpl; [apply frame_refl|]. inversion F; subst.
  eapply frame_trans; [apply sess_frame; eassumption|apply IH; assumption].
Qed.

Lemma sess_not_loss : forall k e, sess k e -> ~ lease_loss e.
Proof. intros k e [E|[E|[E|[E|[[j E]|[j E]]]]]] [k' L]; subst; discriminate. Qed.

(* ---- taking the lock ---- *)
Lemma fwf_some : forall l i m, first_waiting_from l i = Some m ->
  i <= m /\ nth (m - i) l Stopped = Waiting /\ forall j, j < m - i -> nth j l Stopped <> Waiting.
Proof.
  induction l as [|p t IH]; intros i m H; simpl in H; [discriminate|].
  destruct p; try (apply IH in H; destruct H as [A [B C]]; split; [lia|];
    replace (m - i) with (S (m - S i)) by lia; split; [exact B|];
    intros [|j] Hj; simpl; [discriminate|apply C; lia]).
  inversion H; subst. rewrite Nat.sub_diag. split; [lia|]. split; [reflexivity|]. intros j Hj. lia.
Qed.
Lemma fwf_none : forall l i, first_waiting_from l i = None -> forall j, nth j l Stopped <> Waiting.
Proof.
  induction l as [|p t IH]; intros i H j; simpl in *; [destruct j; discriminate|].
  destruct p; try discriminate; destruct j; simpl; try discriminate; eapply IH; eauto.
Qed.
Lemma fw_some : forall s m, first_waiting s = Some m ->
  phase s m = Waiting /\ forall j, j < m -> phase s j <> Waiting.
Proof.
  intros s m H. apply fwf_some in H. rewrite Nat.sub_0_r in H. destruct H as [_ [B C]]. split; [exact B|exact C].
Qed.
Lemma fw_none : forall s, first_waiting s = None -> forall j, phase s j <> Waiting.
Proof. intros s H j. eapply fwf_none. exact H. Qed.

Lemma fold_min_spec : forall t x,
  (fold_left Nat.min t x = x \/ In (fold_left Nat.min t x) t) /\
  fold_left Nat.min t x <= x /\ forall z, In z t -> fold_left Nat.min t x <= z.
Proof.
  induction t as [|y t IH]; intro x; simpl.
  - split; [left; reflexivity|]. split; [lia|]. intros z [].
  - destruct (IH (Nat.min x y)) as [A [B C]]. split; [|split].
    + destruct A as [A|A]; [|right; right; exact A].
      destruct (Nat.min_dec x y) as [E|E]; [left; congruence|right; left; congruence].
    + lia.
    + intros z [E|E]; [subst; lia|apply C; exact E].
Qed.
Lemma min_of_spec : forall l m, min_of l = Some m -> In m l /\ forall x, In x l -> m <= x.
Proof.
  intros [|x t] m H; simpl in H; [discriminate|]. inversion H; subst. clear H.
  destruct (fold_min_spec t x) as [A [B C]]. split.
  - destruct A as [A|A]; [left; symmetry; exact A|right; exact A].
  - intros z [E|E]; [subst; exact B|apply C; exact E].
Qed.
Lemma min_of_none : forall l, min_of l = None -> l = [].
Proof. intros [|x t] H; [reflexivity|discriminate]. Qed.

Lemma fw_min : forall s l, (forall j, In j l <-> phase s j = Waiting) -> first_waiting s = min_of l.
Proof.
  intros s l H. destruct (first_waiting s) as [m|] eqn:F.
  - destruct (fw_some s m F) as [A B]. destruct (min_of l) as [m'|] eqn:M.
    + destruct (min_of_spec l m' M) as [C D]. f_equal.
      assert (m' <= m) by (apply D; apply H; exact A).
      assert (~ m' < m) by (intro L; apply (B m' L); apply H; exact C). lia.
    + apply min_of_none in M. subst. exfalso. apply (proj2 (H m)) in A. destruct A.
  - destruct (min_of l) as [m'|] eqn:M; [|reflexivity].
    destruct (min_of_spec l m' M) as [C _]. apply H in C. exfalso. exact (fw_none s F m' C).
Qed.

(* the standing assumptions at a slot boundary, before the watchers settle *)
Record qpre (s : st) (held : list nat) : Prop := mkQpre {
  qp_exact : hexact s;
  qp_valid : hvalid s;
  qp_inv : inv s;
  qp_fresh : forall k se, In k held -> phase s k = Active se -> se_listed se = false
}.

Definition started (s : st) (k : nat) : Prop := phase s k = Waiting \/ active s k.

Record qpost (s1 s2 : st) (held : list nat) : Prop := mkQpost {
  qo_nodes : nodes s2 = nodes s1;
  qo_alive : alive s2 = alive s1;
  qo_len : length (ws s2) = length (ws s1);
  qo_wnode : map w_node (wls s2) = map w_node (wls s1);
  qo_started : forall j, started s2 j <-> started s1 j;
  qo_holder : holder s2 = match holder s1 with Some k => Some k | None => first_waiting s1 end;
  qo_pre : qpre s2 held;
  qo_nowait : holder s2 = None -> forall j, phase s2 j <> Waiting;
  qo_watch : forall k, holder s2 = Some k -> ~ In k held ->
             exists se, phase s2 k = Active se /\ se_watch se = true
}.

Lemma started_frame : forall s s' k j, frame s s' k -> (started s' j <-> started s j).
Proof.
  intros s s' k j F. unfold started, active. destruct (Nat.eq_dec j k) as [E|E].
  - subst. destruct (phase s k) as [| |se|] eqn:P.
    + rewrite (fr_inact _ _ _ F); [rewrite P; tauto|]. intros se0. congruence.
    + rewrite (fr_inact _ _ _ F); [rewrite P; tauto|]. intros se0. congruence.
    + destruct (fr_act _ _ _ F se P) as [se' [P' _]]. rewrite P'. split; intros _; right; eauto.
    + rewrite (fr_inact _ _ _ F); [rewrite P; tauto|]. intros se0. congruence.
  - rewrite (fr_other _ _ _ F j E). tauto.
Qed.

Lemma settle_watch : forall f k s a se, phase s k = Active se ->
  exists se', phase (settle_failing (S f) k s a) k = Active se' /\ se_watch se' = true.
Proof.
  intros f k s a se P.
  destruct (se_watch se) eqn:W.
  - destruct (settle_failing_run (S f) k s a) as [evs [F E]]. rewrite E.
    destruct (fr_act _ _ _ (sess_run_frame evs s k F) se P) as [se' [P' W']]. exists se'. auto.
  - assert (N : next_event s k = Some (EWatch k)) by (unfold next_event; rewrite P, W; reflexivity).
    assert (U : settle_failing (S f) k s a = settle_failing f k (step s (EWatch k)) a).
    { cbn [settle_failing]. rewrite N. reflexivity. }
    rewrite U.
    assert (P1 : phase (step s (EWatch k)) k = Active (mkSe true (se_listed se) (se_init se) (se_queue se) (se_tasks se))).
    { simpl. rewrite P. apply phase_set_same. eapply phase_active_lt. exact P. }
    destruct (settle_failing_run f k (step s (EWatch k)) a) as [evs [F E]]. rewrite E.
    destruct (fr_act _ _ _ (sess_run_frame evs _ k F) _ P1) as [se' [P' W']]. exists se'. split; [exact P'|apply W'; reflexivity].
Qed.

Lemma qpre_sess_run : forall evs s held k, Forall (sess k) evs -> ~ In k held -> qpre s held -> qpre (run s evs) held.
Proof.
  intros evs s held k F Nk [E V I Fr]. constructor.
  - apply hexact_run; [|exact E]. eapply Forall_impl; [|exact F]. intros e He. eapply sess_not_loss. exact He.
  - apply hvalid_run. exact V.
  - apply inv_run. exact I.
  - intros k' se Hk P. assert (k' <> k) by (intro; subst; contradiction).
    rewrite (fr_other _ _ _ (sess_run_frame evs s k F) k' H) in P. eapply Fr; eauto.
Qed.

Record settled (s s2 : st) (held : list nat) (k : nat) : Prop := mkSettled {
  st_nodes : nodes s2 = nodes s;
  st_alive : alive s2 = alive s;
  st_len : length (ws s2) = length (ws s);
  st_wnode : map w_node (wls s2) = map w_node (wls s);
  st_started : forall j, started s2 j <-> started s j;
  st_holder : holder s2 = holder s;
  st_pre : qpre s2 held;
  st_watch : ~ In k held -> exists se, phase s2 k = Active se /\ se_watch se = true
}.

Lemma settle_post : forall s held armed k, qpre s held -> holder s = Some k ->
  settled s (if memn k held then s else settle_failing (settle_bound s k + 8) k s armed) held k.
Proof.
  intros s held armed k Q H. destruct (memn k held) eqn:M.
  - constructor; auto; try tauto. intro N. exfalso. apply N. apply memn_In. exact M.
  - assert (Nk : ~ In k held) by (intro C; apply memn_In in C; congruence).
    destruct (settle_failing_run (settle_bound s k + 8) k s armed) as [evs [F E]].
    pose proof (sess_run_frame evs s k F) as Fr.
    destruct (qp_valid _ _ Q k H) as [se P].
    replace (settle_bound s k + 8) with (S (settle_bound s k + 7)) in * by lia.
    destruct (settle_watch (settle_bound s k + 7) k s armed se P) as [se' [P' W']].
    rewrite E in *. constructor.
    + apply (fr_nodes _ _ _ Fr).
    + apply (fr_alive _ _ _ Fr).
    + apply (fr_len _ _ _ Fr).
    + apply (fr_wnode _ _ _ Fr).
    + intro j. eapply started_frame. exact Fr.
    + apply (fr_holder _ _ _ Fr).
    + eapply qpre_sess_run; eauto.
    + intros _. exists se'. auto.
Qed.

Lemma take_lock_cases : forall s,
  (take_lock s = s /\ (holder s <> None \/ first_waiting s = None)) \/
  (exists k, holder s = None /\ first_waiting s = Some k /\ take_lock s = step s (ERegister k)).
Proof.
  intro s. unfold take_lock. destruct (holder s) eqn:H; [left; split; [reflexivity|left; discriminate]|].
  destruct (first_waiting s) eqn:F; [right; eauto|left; auto].
Qed.

Lemma register_effect : forall s k, holder s = None -> phase s k = Waiting ->
  let s' := step s (ERegister k) in
  nodes s' = nodes s /\ alive s' = alive s /\ length (ws s') = length (ws s) /\ wls s' = wls s /\
  holder s' = Some k /\ phase s' k = Active fresh /\ (forall j, j <> k -> phase s' j = phase s j).
Proof.
  intros s k H P. simpl. rewrite P, H. simpl.
  assert (L : k < length (ws s)).
  { unfold phase in P. destruct (Nat.lt_ge_cases k (length (ws s))); [assumption|].
    rewrite nth_overflow in P by assumption. discriminate. }
  repeat split; auto.
  - apply upd_length.
  - unfold phase. simpl. apply nth_upd_same. exact L.
  - intros j Hj. unfold phase. simpl. apply nth_upd_other. congruence.
Qed.

Lemma quiesce_spec : forall s1 held armed, qpre s1 held -> qpost s1 (quiesce held armed s1) held.
Proof.
  intros s1 held armed Q. unfold quiesce.
  destruct (take_lock_cases s1) as [[T C]|[k [H [F T]]]]; rewrite T.
  - destruct (holder s1) as [k|] eqn:H.
    + destruct (settle_post s1 held armed k Q H) as [A1 A2 A3 A4 A5 A6 A7 A8].
      constructor; auto.
      all: try (rewrite A6; congruence).
      all: try (intros k0 Hk Nk; rewrite A6 in Hk; assert (k0 = k) by congruence; subst; apply A8; exact Nk).
      all: try (rewrite A6, H; reflexivity).
    + destruct C as [C|C]; [congruence|]. constructor; auto; try tauto.
      all: try (rewrite H, C; reflexivity).
      all: try (intros _; apply fw_none; exact C).
      all: try (intros k0 Hk; rewrite H in Hk; discriminate).
  - destruct (fw_some s1 k F) as [Pk Least].
    destruct (register_effect s1 k H Pk) as [R1 [R2 [R3 [R4 [R5 [R6 R7]]]]]].
    set (s' := step s1 (ERegister k)) in *.
    assert (Q' : qpre s' held).
    { destruct Q as [E V I Fr]. constructor.
      - apply hexact_step; [intros [k' L]; discriminate|exact E].
      - apply hvalid_step. exact V.
      - apply inv_step. exact I.
      - intros k' se Hk P. destruct (Nat.eq_dec k' k) as [Ek|Ek].
        + subst. rewrite R6 in P. inversion P. reflexivity.
        + rewrite (R7 k' Ek) in P. eapply Fr; eauto. }
    rewrite R5.
    destruct (settle_post s' held armed k Q' R5) as [A1 A2 A3 A4 A5 A6 A7 A8].
    constructor; try congruence.
    all: try (rewrite A4, R4; reflexivity).
    all: try (rewrite A6, R5, H; symmetry; exact F).
    all: try exact A7.
    all: try (rewrite A6, R5; discriminate).
    all: try (intros k0 Hk Nk; rewrite A6, R5 in Hk; inversion Hk; subst; apply A8; exact Nk).
    intro j. rewrite A5. unfold started, active. destruct (Nat.eq_dec j k) as [Ej|Ej].
    + subst. rewrite R6, Pk. split; intros _; [left; reflexivity|right; eauto].
    + rewrite (R7 j Ej). tauto.
Qed.

(* ---- ok's bookkeeping against the model state ---- *)
Record rel (o : okst) (s : st) (held : list nat) : Prop := mkRel {
  r_nodes : o_nodes o = nodes s;
  r_alive : o_alive o = alive s;
  r_wnode : o_wnode o = map w_node (wls s);
  r_nw : o_nw o = length (ws s);
  r_held : o_held o = held;
  r_active : o_active o = holder s;
  r_started : forall k, In k (o_free o ++ o_held o) <-> started s k;
  r_pre : qpre s held;
  r_nowait : holder s = None -> forall j, phase s j <> Waiting;
  r_watch : forall k, holder s = Some k -> ~ In k held -> exists se, phase s k = Active se /\ se_watch se = true
}.

Lemma rel_finish : forall o' s1 held' armed,
  o_nodes o' = nodes s1 -> o_alive o' = alive s1 -> o_wnode o' = map w_node (wls s1) ->
  o_nw o' = length (ws s1) -> o_held o' = held' ->
  (forall k, In k (o_free o' ++ o_held o') <-> started s1 k) ->
  qpre s1 held' ->
  o_active o' = match holder s1 with Some k => Some k | None => first_waiting s1 end ->
  rel o' (quiesce held' armed s1) held'.
Proof.
  intros o' s1 held' armed H1 H2 H3 H4 H5 H6 H7 H8.
  destruct (quiesce_spec s1 held' armed H7) as [Q1 Q2 Q3 Q4 Q5 Q6 Q7 Q8 Q9].
  constructor; try congruence; try assumption.
  intro k. rewrite H6. symmetry. apply Q5.
Qed.

Lemma rel_ok_step : forall o sl s h, rel (ok_upd o sl) s h -> rel (ok_step o sl) s h.
Proof. intros o sl s h [A1 A2 A3 A4 A5 A6 A7 A8 A9 A10]. constructor; assumption. Qed.

Lemma fw_ext : forall s s', (forall j, phase s' j = Waiting <-> phase s j = Waiting) ->
  first_waiting s' = first_waiting s.
Proof.
  intros s s' H.
  destruct (first_waiting s) as [m|] eqn:F; destruct (first_waiting s') as [m'|] eqn:F'; try reflexivity.
  - destruct (fw_some s m F) as [A B]. destruct (fw_some s' m' F') as [A' B']. f_equal.
    assert (~ m < m') by (intro L; apply (B' m L); apply H; exact A).
    assert (~ m' < m) by (intro L; apply (B m' L); apply H; exact A'). lia.
  - destruct (fw_some s m F) as [A _]. exfalso. apply (fw_none s' F' m). apply H. exact A.
  - destruct (fw_some s' m' F') as [A _]. exfalso. apply (fw_none s F m'). apply H. exact A.
Qed.

Lemma memn_app : forall n l1 l2, memn n (l1 ++ l2) = memn n l1 || memn n l2.
Proof. intros. induction l1; simpl; [reflexivity|]. rewrite IHl1. apply orb_assoc. Qed.
Lemma remn_notin : forall n l, memn n l = false -> remn n l = l.
Proof.
  intros n l. induction l as [|x t IH]; simpl; [reflexivity|]. intro H.
  apply orb_false_iff in H. destruct H as [H1 H2]. rewrite H1. simpl. rewrite IH by exact H2. reflexivity.
Qed.

(* the events of the environment that do not touch the watchers, except by
   appending to the queues of established watches *)
Record envstep (s s' : st) : Prop := mkEnv {
  ev_holder : holder s' = holder s;
  ev_len : length (ws s') = length (ws s);
  ev_phase : forall j, match phase s j with
                       | Active se => exists se', phase s' j = Active se' /\ se_listed se' = se_listed se /\ se_watch se' = se_watch se
                       | p => phase s' j = p
                       end
}.
Lemma envstep_refl : forall s, envstep s s.
Proof. intro s. constructor; auto. intro j. destruct (phase s j); eauto. Qed.
Lemma envstep_trans : forall a b c, envstep a b -> envstep b c -> envstep a c.
Proof.
  intros a b c [A1 A2 A3] [B1 B2 B3]. constructor; try congruence.
  intro j. specialize (A3 j). specialize (B3 j). destruct (phase a j) eqn:P.
  - rewrite A3 in B3. exact B3.
  - rewrite A3 in B3. exact B3.
  - destruct A3 as [se1 [P1 [L1 W1]]]. rewrite P1 in B3. destruct B3 as [se2 [P2 [L2 W2]]].
    exists se2. repeat split; congruence.
  - rewrite A3 in B3. exact B3.
Qed.
Lemma envstep_same_ws : forall s s', ws s' = ws s -> holder s' = holder s -> envstep s s'.
Proof.
  intros s s' W H. constructor; [exact H|rewrite W; reflexivity|].
  intro j. unfold phase. rewrite W. destruct (nth j (ws s) Stopped); eauto.
Qed.
Lemma envstep_enqueue : forall s n a al, envstep s (set_ws (set_alive s al) (map (enqueue n a) (ws s))).
Proof.
  intros. constructor; simpl; [reflexivity|apply map_length|].
  intro j. rewrite phase_enqueue_any. destruct (phase s j); simpl; auto.
  destruct (se_watch se) eqn:W; eexists; split; try reflexivity; simpl; auto.
Qed.

Definition is_env (e : event) : Prop :=
  match e with EAddNode _ | EHeartbeat _ | ELapse _ | ECreate _ | EReport _ _ _ => True | _ => False end.
Lemma env_envstep : forall s e, is_env e -> envstep s (step s e).
Proof.
  intros s e H. destruct e; try destruct H; simpl.
  - destruct (memn n (nodes s)); [apply envstep_refl|apply envstep_same_ws; reflexivity].
  - destruct (negb (memn n (nodes s))); [apply envstep_refl|]. destruct (memn n (alive s)); [apply envstep_refl|apply envstep_enqueue].
  - destruct (memn n (alive s)); [apply envstep_enqueue|apply envstep_refl].
  - destruct (memn n (nodes s)); [apply envstep_same_ws; reflexivity|apply envstep_refl].
  - apply envstep_same_ws; reflexivity.
Qed.
Lemma env_run_envstep : forall evs s, Forall is_env evs -> envstep s (run s evs).
Proof.
  induction evs as [|e t IH]; intros s F; [apply envstep_refl|].
  change (run s (e :: t)) with (run (step s e) t). inversion F as [|? ? He Ht]; subst.
  eapply envstep_trans; [apply env_envstep; exact He|apply IH; exact Ht].
Qed.

Lemma envstep_started : forall s s' j, envstep s s' -> (started s' j <-> started s j).
Proof.
  intros s s' j E. pose proof (ev_phase _ _ E j) as P. unfold started, active.
  destruct (phase s j) eqn:Pj.
  - rewrite P. tauto.
  - rewrite P. tauto.
  - destruct P as [se' [P' _]]. rewrite P'. split; intros _; right; eauto.
  - rewrite P. tauto.
Qed.
Lemma envstep_waiting : forall s s' j, envstep s s' -> (phase s' j = Waiting <-> phase s j = Waiting).
Proof.
  intros s s' j E. pose proof (ev_phase _ _ E j) as P. destruct (phase s j) eqn:Pj.
  - rewrite P. tauto.
  - rewrite P. tauto.
  - destruct P as [se' [P' _]]. rewrite P'. split; discriminate.
  - rewrite P. tauto.
Qed.
Lemma envstep_fresh : forall s s' held,
  envstep s s' ->
  (forall k se, In k held -> phase s k = Active se -> se_listed se = false) ->
  (forall k se, In k held -> phase s' k = Active se -> se_listed se = false).
Proof.
  intros s s' held E H k se' Hk P'. pose proof (ev_phase _ _ E k) as P. destruct (phase s k) eqn:Pk; try congruence.
  destruct P as [se1 [P1 [L1 _]]]. rewrite P1 in P'. inversion P'; subst. rewrite L1. eapply H; eauto.
Qed.
Lemma is_env_not_loss : forall e, is_env e -> ~ lease_loss e.
Proof. intros e H [k L]. subst. destruct H. Qed.

Lemma qpre_env_run : forall evs s held, Forall is_env evs -> qpre s held -> qpre (run s evs) held.
Proof.
  intros evs s held F [E V I Fr]. constructor.
  - apply hexact_run; [|exact E]. eapply Forall_impl; [|exact F]. intros e He. apply is_env_not_loss. exact He.
  - apply hvalid_run. exact V.
  - apply inv_run. exact I.
  - eapply envstep_fresh; [apply env_run_envstep; exact F|exact Fr].
Qed.

Lemma no_waiting_fw : forall s, (forall j, phase s j <> Waiting) -> first_waiting s = None.
Proof.
  intros s H. destruct (first_waiting s) as [m|] eqn:F; [|reflexivity].
  destruct (fw_some s m F) as [A _]. exfalso. exact (H m A).
Qed.

Lemma rel_env_gen : forall o s held o' evs armed,
  rel o s held -> Forall is_env evs ->
  o_nodes o' = nodes (run s evs) -> o_alive o' = alive (run s evs) ->
  o_wnode o' = map w_node (wls (run s evs)) ->
  o_nw o' = o_nw o -> o_held o' = o_held o -> o_free o' = o_free o -> o_active o' = o_active o ->
  rel o' (quiesce held armed (run s evs)) held.
Proof.
  intros o s held o' evs armed R F H1 H2 H3 H4 H5 H6 H7.
  pose proof (env_run_envstep evs s F) as E.
  apply rel_finish.
  - exact H1.
  - exact H2.
  - exact H3.
  - rewrite H4, (r_nw _ _ _ R). symmetry. apply (ev_len _ _ E).
  - rewrite H5. apply (r_held _ _ _ R).
  - intro k. rewrite H6, H5, (r_started _ _ _ R). symmetry. apply envstep_started. exact E.
  - apply qpre_env_run; [exact F|apply (r_pre _ _ _ R)].
  - rewrite H7, (r_active _ _ _ R), (ev_holder _ _ E).
    destruct (holder s) eqn:Ho; [reflexivity|]. symmetry. apply no_waiting_fw.
    intros j C. apply (envstep_waiting _ _ j E) in C. exact (r_nowait _ _ _ R Ho j C).
Qed.

(* observations of the model against ok's node map *)
Lemma seen_down_model : forall s n, seen_down (map w_node (wls s)) (map w_st (wls s)) n = node_down s n.
Proof.
  intros s n. unfold seen_down, node_down. induction (wls s) as [|w t IH]; simpl; [reflexivity|].
  rewrite IH. reflexivity.
Qed.

Lemma quiesce_wnode : forall s1 held armed, qpre s1 held ->
  map w_node (wls (quiesce held armed s1)) = map w_node (wls s1).
Proof. intros. apply (qo_wnode _ _ _ (quiesce_spec s1 held armed H)). Qed.
Lemma quiesce_wlen : forall s1 held armed, qpre s1 held ->
  length (wls (quiesce held armed s1)) = length (wls s1).
Proof.
  intros s1 held armed H. pose proof (quiesce_wnode s1 held armed H) as E.
  rewrite <- (map_length w_node), E, map_length. reflexivity.
Qed.

(* the lock holder, free-running and with its watch open, handles a lapse *)
Lemma lapse_handled : forall s held k n,
  qpre s held -> holder s = Some k -> ~ In k held ->
  (exists se, phase s k = Active se /\ se_watch se = true) ->
  memn n (alive s) = true ->
  node_down (quiesce held false (step s (ELapse n))) n = true.
Proof.
  intros s held k n Q H Nk [se [P W]] A.
  set (s1 := step s (ELapse n)).
  assert (H1 : holder s1 = Some k) by (unfold s1; simpl; rewrite A; exact H).
  assert (T : take_lock s1 = s1) by (unfold take_lock; rewrite H1; reflexivity).
  unfold quiesce. rewrite T. cbv zeta. rewrite H1.
  destruct (memn k held) eqn:M; [apply memn_In in M; contradiction|].
  rewrite settle_failing_false.
  assert (P1 : phase s1 k = Active (mkSe true (se_listed se) (se_init se) (se_queue se ++ [(n, false)]) (se_tasks se))).
  { unfold s1. simpl. rewrite A. rewrite phase_enqueue_any, P. simpl. rewrite W. reflexivity. }
  destruct (settle_discharges (settle_bound s1 k + 8) s1 k _ n P1) as [D _].
  - pose proof (msr_bound s1 k _ P1). lia.
  - left. right. left. simpl. apply in_or_app. right. left. reflexivity.
  - exact D.
Qed.

Lemma queued_handled : forall s1 held k se1 n,
  holder s1 = Some k -> ~ In k held -> phase s1 k = Active se1 -> In (n, false) (se_queue se1) ->
  node_down (quiesce held false s1) n = true.
Proof.
  intros s1 held k se1 n H1 Nk P1 Hq.
  assert (T : take_lock s1 = s1) by (unfold take_lock; rewrite H1; reflexivity).
  unfold quiesce. rewrite T. cbv zeta. rewrite H1.
  destruct (memn k held) eqn:M; [apply memn_In in M; contradiction|].
  rewrite settle_failing_false.
  destruct (settle_discharges (settle_bound s1 k + 8) s1 k se1 n P1) as [D _].
  - pose proof (msr_bound s1 k se1 P1). lia.
  - left. right. left. exact Hq.
  - exact D.
Qed.

(* ... also when the heartbeat is back before the handler runs *)
Lemma lapsehb_handled : forall s held k n,
  qpre s held -> holder s = Some k -> ~ In k held ->
  (exists se, phase s k = Active se /\ se_watch se = true) ->
  memn n (alive s) = true ->
  node_down (quiesce held false (run s [ELapse n; EHeartbeat n])) n = true.
Proof.
  intros s held k n Q H Nk [se [P W]] A.
  set (sa := step s (ELapse n)).
  assert (Pa : phase sa k = Active (mkSe true (se_listed se) (se_init se) (se_queue se ++ [(n, false)]) (se_tasks se))).
  { unfold sa. simpl. rewrite A. rewrite phase_enqueue_any, P. simpl. rewrite W. reflexivity. }
  assert (Ha : holder sa = Some k) by (unfold sa; simpl; rewrite A; exact H).
  change (run s [ELapse n; EHeartbeat n]) with (step sa (EHeartbeat n)).
  assert (Nn : memn n (nodes sa) = true).
  { unfold sa. simpl. rewrite A. simpl. apply (inv_alive _ (qp_inv _ _ Q)). exact A. }
  assert (Aa : memn n (alive sa) = false) by (unfold sa; simpl; rewrite A; simpl; apply memn_remn_same).
  assert (Pb : exists se1, phase (step sa (EHeartbeat n)) k = Active se1 /\ In (n, false) (se_queue se1)).
  { simpl. rewrite Nn, Aa. simpl. rewrite phase_enqueue_any, Pa. simpl.
    eexists. split; [reflexivity|]. simpl. apply in_or_app. left. apply in_or_app. right. left. reflexivity. }
  destruct Pb as [se1 [Pb Hq]].
  apply (queued_handled _ held k se1 n); auto.
  simpl. rewrite Nn, Aa. simpl. exact Ha.
Qed.

(* a fresh or not-yet-listed session examines every node without status *)
Lemma init_handles : forall s held k se n,
  holder s = Some k -> ~ In k held -> phase s k = Active se -> se_listed se = false ->
  memn n (nodes s) = true -> memn n (alive s) = false ->
  node_down (settle_failing (settle_bound s k + 8) k s false) n = true.
Proof.
  intros s held k se n H Nk P L Nn A. rewrite settle_failing_false.
  destruct (settle_discharges (settle_bound s k + 8) s k se n P) as [D _].
  - pose proof (msr_bound s k se P). lia.
  - left. right. right. right. split; [exact L|]. split; [apply memn_In; exact Nn|exact A].
  - exact D.
Qed.

(* ---- what the environment actions do to the data ---- *)
Lemma run_addnode : forall s n,
  let s1 := run s [EAddNode n; EHeartbeat n] in
  let nodes' := if memn n (nodes s) then nodes s else nodes s ++ [n] in
  nodes s1 = nodes' /\
  alive s1 = (if memn n nodes' && negb (memn n (alive s)) then n :: alive s else alive s) /\
  wls s1 = wls s.
Proof.
  intros s n. simpl. destruct (memn n (nodes s)) eqn:M; simpl.
  - rewrite M. simpl. destruct (memn n (alive s)); simpl; auto.
  - rewrite memn_app, M. simpl. rewrite Nat.eqb_refl. simpl. destruct (memn n (alive s)); simpl; auto.
Qed.
Lemma run_heartbeat : forall s n,
  let s1 := run s [EHeartbeat n] in
  nodes s1 = nodes s /\
  alive s1 = (if memn n (nodes s) && negb (memn n (alive s)) then n :: alive s else alive s) /\
  wls s1 = wls s.
Proof.
  intros s n. simpl. destruct (memn n (nodes s)); simpl; auto. destruct (memn n (alive s)); simpl; auto.
Qed.
Lemma run_lapse : forall s n,
  let s1 := run s [ELapse n] in
  nodes s1 = nodes s /\ alive s1 = remn n (alive s) /\ wls s1 = wls s.
Proof.
  intros s n. simpl. destruct (memn n (alive s)) eqn:M; simpl; auto.
  rewrite remn_notin by exact M. auto.
Qed.
Lemma run_lapsehb : forall s n,
  let s1 := run s [ELapse n; EHeartbeat n] in
  nodes s1 = nodes s /\
  alive s1 = (if memn n (nodes s) then n :: remn n (alive s) else remn n (alive s)) /\ wls s1 = wls s.
Proof.
  intros s n. destruct (run_lapse s n) as [A [B C]].
  change (run s [ELapse n; EHeartbeat n]) with (run (run s [ELapse n]) [EHeartbeat n]).
  destruct (run_heartbeat (run s [ELapse n]) n) as [A' [B' C']].
  cbv zeta. rewrite A', B', C'. rewrite A, B, C. rewrite memn_remn_same. simpl. rewrite andb_true_r. auto.
Qed.
Lemma run_create : forall s n,
  let s1 := run s [ECreate n] in
  nodes s1 = nodes s /\ alive s1 = alive s /\
  wls s1 = (if memn n (nodes s) then wls s ++ [mkWl n None] else wls s).
Proof. intros s n. simpl. destruct (memn n (nodes s)); simpl; auto. Qed.
Lemma run_report : forall s w r h,
  let s1 := run s [EReport w r h] in
  nodes s1 = nodes s /\ alive s1 = alive s /\ map w_node (wls s1) = map w_node (wls s).
Proof. intros. simpl. repeat split. apply map_node_upd. Qed.

Definition slot_for (s : st) (held : list nat) (a : action) : slot * st * list nat :=
  let held' := held_after s held a in
  let s1 := run s (act_events s a) in
  let armed := match a with ALapseFail _ => true | _ => false end in
  let s2 := quiesce held' armed s1 in
  (mkSlot a (map w_st (wls s2)), s2, held').

Lemma gen_step_env : forall o s held a,
  rel o s held ->
  match a with AAddNode _ | AHeartbeat _ | ALapse _ | ALapseFail _ | ALapseHb _ | ACreate _ | AReport _ _ _ => True | _ => False end ->
  let '(sl, s2, held') := slot_for s held a in
  rel (ok_step o sl) s2 held'.
Proof.
  intros o s held a R Ha. unfold slot_for.
  pose proof R as [Rn Ra Rw Rnw Rh Rac Rst Rpre Rnowait Rwatch].
  destruct a; try destruct Ha; cbn [held_after act_events]; apply rel_ok_step.
  - (* AAddNode *)
    destruct (run_addnode s n) as [A [B C]].
    apply rel_env_gen with (o := o); auto; try (repeat constructor); cbn -[run quiesce].
    + rewrite A, Rn. reflexivity.
    + rewrite B, Rn, Ra. reflexivity.
    + rewrite C. exact Rw.
  - (* AHeartbeat *)
    destruct (run_heartbeat s n) as [A [B C]].
    apply rel_env_gen with (o := o); auto; try (repeat constructor); cbn -[run quiesce].
    + rewrite A. exact Rn.
    + rewrite B, Rn, Ra. reflexivity.
    + rewrite C. exact Rw.
  - (* ALapse *)
    destruct (run_lapse s n) as [A [B C]].
    apply rel_env_gen with (o := o); auto; try (repeat constructor); cbn -[run quiesce].
    + rewrite A. exact Rn.
    + rewrite B, Ra. reflexivity.
    + rewrite C. exact Rw.
  - (* ALapseFail *)
    destruct (run_lapse s n) as [A [B C]].
    apply rel_env_gen with (o := o); auto; try (repeat constructor); cbn -[run quiesce].
    + rewrite A. exact Rn.
    + rewrite B, Ra. reflexivity.
    + rewrite C. exact Rw.
  - (* ALapseHb *)
    destruct (run_lapsehb s n) as [A [B C]].
    apply rel_env_gen with (o := o); auto; try (repeat constructor); cbn -[run quiesce].
    + rewrite A. exact Rn.
    + rewrite B, Rn, Ra. reflexivity.
    + rewrite C. exact Rw.
  - (* ACreate *)
    destruct (run_create s n) as [A [B C]].
    assert (Q1 : qpre (run s [ECreate n]) held) by (apply qpre_env_run; [repeat constructor|exact Rpre]).
    apply rel_env_gen with (o := o); auto; try (repeat constructor); cbn -[run quiesce].
    + rewrite A. exact Rn.
    + rewrite B. exact Ra.
    + rewrite map_length, (quiesce_wlen _ held false Q1), C, Rw, map_length.
      destruct (memn n (nodes s)).
      * rewrite app_length. cbn [length]. rewrite Nat.add_1_r, Nat.leb_refl, map_app. reflexivity.
      * change (match length (wls s) with 0 => false | S m' => length (wls s) <=? m' end) with (length (wls s) <? length (wls s)).
        rewrite Nat.ltb_irrefl. reflexivity.
  - (* AReport *)
    destruct (run_report s w r h) as [A [B C]].
    apply rel_env_gen with (o := o); auto; try (repeat constructor); cbn -[run quiesce].
    all: try (rewrite A; exact Rn); try (rewrite B; exact Ra); try (rewrite C; exact Rw).
Qed.

Lemma fw_intro : forall s m, phase s m = Waiting -> (forall j, j < m -> phase s j <> Waiting) ->
  first_waiting s = Some m.
Proof.
  intros s m P L. destruct (first_waiting s) as [m'|] eqn:F.
  - destruct (fw_some s m' F) as [A B]. f_equal.
    assert (~ m < m') by (intro C; exact (B m C P)).
    assert (~ m' < m) by (intro C; exact (L m' C A)). lia.
  - exfalso. exact (fw_none s F m P).
Qed.

Lemma phase_overflow : forall s k, length (ws s) <= k -> phase s k = Stopped.
Proof. intros. unfold phase. apply nth_overflow. assumption. Qed.

(* ---- a new selfmon process ---- *)
Lemma run_spawn : forall s,
  let nw := length (ws s) in
  let s1 := run s [ESpawn; EStart nw] in
  nodes s1 = nodes s /\ alive s1 = alive s /\ wls s1 = wls s /\ holder s1 = holder s /\
  length (ws s1) = S nw /\ phase s1 nw = Waiting /\ (forall j, j <> nw -> phase s1 j = phase s j).
Proof.
  intros s nw s1. unfold s1, nw. cbn [run fold_left]. cbn [step].
  assert (P0 : phase (set_ws s (ws s ++ [Idle])) (length (ws s)) = Idle).
  { unfold phase. simpl. rewrite app_nth2 by lia. rewrite Nat.sub_diag. reflexivity. }
  rewrite P0. unfold set_phase. simpl. repeat split.
  - rewrite upd_length, app_length. simpl. lia.
  - unfold phase. simpl. rewrite nth_upd_same by (rewrite app_length; simpl; lia). reflexivity.
  - intros j Hj. unfold phase. simpl. rewrite nth_upd_other by congruence.
    destruct (Nat.lt_ge_cases j (length (ws s))) as [L|L].
    + apply app_nth1. exact L.
    + rewrite !nth_overflow; [reflexivity|exact L|rewrite app_length; simpl; lia].
Qed.

Lemma qpre_spawn : forall s held held',
  qpre s held -> (forall k, In k held' -> k = length (ws s) \/ In k held) ->
  qpre (run s [ESpawn; EStart (length (ws s))]) held'.
Proof.
  intros s held held' [E V I Fr] Hh.
  destruct (run_spawn s) as [_ [_ [_ [_ [_ [Pn Po]]]]]]. constructor.
  - apply hexact_run; [|exact E]. repeat constructor; intros [k L]; discriminate.
  - apply hvalid_run. exact V.
  - apply inv_run. exact I.
  - intros k se Hk P. destruct (Nat.eq_dec k (length (ws s))) as [Ek|Ek].
    + subst. rewrite Pn in P. discriminate.
    + rewrite (Po k Ek) in P. destruct (Hh k Hk) as [C|C]; [contradiction|]. eapply Fr; eauto.
Qed.

(* ---- the two ways a fresh session comes to run freely ---- *)
Lemma all_down_take : forall s1 held k n,
  qpre s1 held -> holder s1 = None -> first_waiting s1 = Some k -> ~ In k held ->
  memn n (nodes s1) = true -> memn n (alive s1) = false ->
  node_down (quiesce held false s1) n = true.
Proof.
  intros s1 held k n Q H F Nk Nn A.
  destruct (fw_some s1 k F) as [Pk _].
  destruct (register_effect s1 k H Pk) as [R1 [R2 [R3 [R4 [R5 [R6 R7]]]]]].
  unfold quiesce, take_lock. rewrite H, F. cbv zeta. rewrite R5.
  destruct (memn k held) eqn:M; [apply memn_In in M; contradiction|].
  eapply init_handles; eauto; try congruence; try reflexivity.
Qed.

Lemma all_down_release : forall s1 held k se n,
  holder s1 = Some k -> ~ In k held -> phase s1 k = Active se -> se_listed se = false ->
  memn n (nodes s1) = true -> memn n (alive s1) = false ->
  node_down (quiesce held false s1) n = true.
Proof.
  intros s1 held k se n H Nk P L Nn A.
  assert (T : take_lock s1 = s1) by (unfold take_lock; rewrite H; reflexivity).
  unfold quiesce. rewrite T. cbv zeta. rewrite H.
  destruct (memn k held) eqn:M; [apply memn_In in M; contradiction|].
  eapply init_handles; eauto.
Qed.

(* ---- stopping a watcher ---- *)
Lemma step_stop : forall s k, hexact s -> hvalid s ->
  let s1 := step s (EStop k) in
  nodes s1 = nodes s /\ alive s1 = alive s /\ wls s1 = wls s /\ length (ws s1) = length (ws s) /\
  phase s1 k = Stopped /\ (forall j, j <> k -> phase s1 j = phase s j) /\
  ((holder s = Some k /\ holder s1 = None) \/ (holder s <> Some k /\ holder s1 = holder s)).
Proof.
  intros s k E V s1. unfold s1. simpl.
  destruct (phase s k) eqn:P; simpl.
  - assert (L : k < length (ws s)).
    { destruct (Nat.lt_ge_cases k (length (ws s))); [assumption|]. rewrite phase_overflow in P by assumption. discriminate. }
    repeat split; auto; try apply upd_length; try (apply phase_set_same; exact L); try (intros; apply phase_set_other; congruence).
    right. split; [|reflexivity]. intro H. apply V in H. destruct H as [se Q]. congruence.
  - assert (L : k < length (ws s)).
    { destruct (Nat.lt_ge_cases k (length (ws s))); [assumption|]. rewrite phase_overflow in P by assumption. discriminate. }
    repeat split; auto; try apply upd_length; try (apply phase_set_same; exact L); try (intros; apply phase_set_other; congruence).
    right. split; [|reflexivity]. intro H. apply V in H. destruct H as [se Q]. congruence.
  - assert (L : k < length (ws s)) by (eapply phase_active_lt; exact P).
    repeat split; auto; try apply upd_length;
      try (unfold phase; simpl; rewrite nth_upd_same by exact L; reflexivity);
      try (intros; unfold phase; simpl; apply nth_upd_other; congruence).
    left. assert (H : holder s = Some k) by (apply E; exists se; exact P). split; [exact H|].
    rewrite H. unfold release_by. rewrite Nat.eqb_refl. reflexivity.
  - repeat split; auto. right. split; [|reflexivity]. intro H. apply V in H. destruct H as [se Q]. congruence.
Qed.

(* ---- the lock lease is revoked and the holder notices ---- *)
Lemma run_expire : forall s k, hexact s -> hvalid s ->
  let s1 := run s [ELeaseLost k; EExpire k] in
  nodes s1 = nodes s /\ alive s1 = alive s /\ wls s1 = wls s /\ length (ws s1) = length (ws s) /\
  (forall j, j <> k -> phase s1 j = phase s j) /\
  ((holder s = Some k /\ holder s1 = None /\ phase s1 k = Waiting) \/
   (holder s <> Some k /\ s1 = s)).
Proof.
  intros s k E V s1. unfold s1. cbn [run fold_left]. cbn [step].
  destruct (holder s) as [k'|] eqn:H.
  - destruct (k' =? k) eqn:Ek.
    + apply Nat.eqb_eq in Ek. subst k'. destruct (V k H) as [se P].
      assert (L : k < length (ws s)) by (eapply phase_active_lt; exact P).
      assert (P' : phase (set_holder s None) k = Active se) by exact P. rewrite P'. cbn.
      repeat split; auto; try apply upd_length; try (intros; unfold phase; simpl; apply nth_upd_other; congruence).
      left. repeat split; auto. unfold phase. simpl. apply nth_upd_same. exact L.
    + assert (N : forall se, phase s k <> Active se).
      { intros se P. assert (holder s = Some k) by (apply E; exists se; exact P). apply Nat.eqb_neq in Ek. congruence. }
      destruct (phase s k) eqn:P; try (exfalso; eapply N; reflexivity);
        (repeat split; auto; right; split; [apply Nat.eqb_neq in Ek; congruence|reflexivity]).
  - assert (N : forall se, phase s k <> Active se).
    { intros se P. assert (holder s = Some k) by (apply E; exists se; exact P). congruence. }
    destruct (phase s k) eqn:P; try (exfalso; eapply N; reflexivity);
      (repeat split; auto; right; split; [discriminate|reflexivity]).
Qed.

Lemma started_lt : forall s k, started s k -> k < length (ws s).
Proof.
  intros s k [P|[se P]]; destruct (Nat.lt_ge_cases k (length (ws s))); auto;
    rewrite phase_overflow in P by assumption; discriminate.
Qed.

Lemma remn_In' : forall j k l, In j (remn k l) <-> In j l /\ j <> k.
Proof. intros. unfold remn. rewrite filter_In, negb_true_iff, Nat.eqb_neq. tauto. Qed.

Lemma qpre_sub : forall s held held', qpre s held -> (forall k, In k held' -> In k held) -> qpre s held'.
Proof. intros s held held' [E V I F] H. constructor; auto. intros k se Hk P. eapply F; eauto. Qed.

(* the checks of one slot, once ok's bookkeeping is known to match the new state *)
Lemma check_all_down : forall o' s2 held' seen,
  rel o' s2 held' -> seen = map w_st (wls s2) ->
  (forall n, memn n (nodes s2) = true -> memn n (alive s2) = false -> node_down s2 n = true) ->
  forallb (seen_down (o_wnode o') seen) (ok_absent o') = true.
Proof.
  intros o' s2 held' seen R Hs H. apply forallb_forall. intros n Hn.
  unfold ok_absent in Hn. apply filter_In in Hn. destruct Hn as [Hn Ha]. apply negb_true_iff in Ha.
  rewrite (r_wnode _ _ _ R), Hs, seen_down_model. apply H.
  - rewrite <- (r_nodes _ _ _ R). apply memn_In. exact Hn.
  - rewrite <- (r_alive _ _ _ R). exact Ha.
Qed.

Lemma quiesce_data : forall s1 held armed, qpre s1 held ->
  nodes (quiesce held armed s1) = nodes s1 /\ alive (quiesce held armed s1) = alive s1.
Proof. intros s1 held armed Q. destruct (quiesce_spec s1 held armed Q); auto. Qed.

Theorem gen_step : forall o s held a,
  rel o s held ->
  let '(sl, s2, held') := slot_for s held a in
  ok_check o sl = true /\ rel (ok_step o sl) s2 held'.
Proof.
  intros o s held a R.
  pose proof R as [Rn Ra Rw Rnw Rh Rac Rst Rpre Rnowait Rwatch].
  pose proof Rpre as [HE HV HI HF].
  destruct a.
  - (* AAddNode *) pose proof (gen_step_env o s held (AAddNode n) R I) as G. unfold slot_for in *.
    split; [|exact G]. unfold ok_check, ok_takes. cbn. destruct (o_active o); reflexivity.
  - (* AHeartbeat *) pose proof (gen_step_env o s held (AHeartbeat n) R I) as G. unfold slot_for in *.
    split; [|exact G]. unfold ok_check, ok_takes. cbn. destruct (o_active o); reflexivity.
  - (* ALapse *) pose proof (gen_step_env o s held (ALapse n) R I) as G. unfold slot_for in *.
    split; [|exact G]. cbn [held_after act_events] in *.
    unfold ok_check. cbn [act seen lapse_of].
    match goal with |- context [if ?c then _ else _] => destruct c eqn:C end; [|reflexivity].
    apply andb_true_iff in C. destruct C as [C1 C2]. cbn in C1. unfold lock_running in C1.
    rewrite Rac in C1. destruct (holder s) as [k|] eqn:Ho; [|discriminate].
    apply negb_true_iff in C1. rewrite Rh in C1. rewrite Ra in C2.
    assert (Nk : ~ In k held) by (intro X; apply memn_In in X; congruence).
    pose proof (r_wnode _ _ _ G) as W. cbn in W.
    match goal with |- seen_down ?w _ _ = true => change w with (o_wnode o) end.
    rewrite W, seen_down_model.
    apply (lapse_handled s held k n Rpre Ho Nk (Rwatch k eq_refl Nk) C2).
  - (* ALapseFail *) pose proof (gen_step_env o s held (ALapseFail n) R I) as G. unfold slot_for in *.
    split; [|exact G]. unfold ok_check, ok_takes. cbn. destruct (o_active o); reflexivity.
  - (* ALapseHb *) pose proof (gen_step_env o s held (ALapseHb n) R I) as G. unfold slot_for in *.
    split; [|exact G]. cbn [held_after act_events] in *.
    unfold ok_check. cbn [act seen lapse_of].
    match goal with |- context [if ?c then _ else _] => destruct c eqn:C end; [|reflexivity].
    apply andb_true_iff in C. destruct C as [C1 C2]. cbn in C1. unfold lock_running in C1.
    rewrite Rac in C1. destruct (holder s) as [k|] eqn:Ho; [|discriminate].
    apply negb_true_iff in C1. rewrite Rh in C1. rewrite Ra in C2.
    assert (Nk : ~ In k held) by (intro X; apply memn_In in X; congruence).
    pose proof (r_wnode _ _ _ G) as W. cbn in W.
    match goal with |- seen_down ?w _ _ = true => change w with (o_wnode o) end.
    rewrite W, seen_down_model.
    apply (lapsehb_handled s held k n Rpre Ho Nk (Rwatch k eq_refl Nk) C2).
  - (* ACreate *) pose proof (gen_step_env o s held (ACreate n) R I) as G. unfold slot_for in *.
    split; [|exact G]. unfold ok_check, ok_takes. cbn. destruct (o_active o); reflexivity.
  - (* AReport *) pose proof (gen_step_env o s held (AReport w r h) R I) as G. unfold slot_for in *.
    split; [|exact G]. unfold ok_check, ok_takes. cbn. destruct (o_active o); reflexivity.
  - (* AStart *)
    unfold slot_for. cbn [held_after act_events].
    destruct (run_spawn s) as [S1 [S2 [S3 [S4 [S5 [S6 S7]]]]]].
    assert (Q1 : qpre (run s [ESpawn; EStart (length (ws s))]) held) by (apply (qpre_spawn s held held Rpre); auto).
    set (nw := length (ws s)) in *. set (s1 := run s [ESpawn; EStart nw]) in *. clearbody s1.
    assert (Hst : forall k, In k ((o_free o ++ [o_nw o]) ++ o_held o) <-> started s1 k).
    { intro k. rewrite Rnw. fold nw. destruct (Nat.eq_dec k nw) as [E|E].
      - subst k. split; [intros _; left; exact S6|intros _; apply in_or_app; left; apply in_or_app; right; left; reflexivity].
      - unfold started, active. rewrite (S7 k E). fold (active s k). fold (started s k). rewrite <- Rst.
        rewrite !in_app_iff. simpl. intuition congruence. }
    assert (H8 : match o_active o with None => Some (o_nw o) | Some x => Some x end =
                 match holder s1 with Some k => Some k | None => first_waiting s1 end).
    { rewrite S4, Rac. destruct (holder s) as [k|] eqn:Ho; [reflexivity|]. symmetry. rewrite Rnw. fold nw.
      apply fw_intro; [exact S6|]. intros j Hj. rewrite (S7 j) by lia. apply (Rnowait eq_refl). }
    assert (R' : rel (ok_upd o (mkSlot AStart (map w_st (wls (quiesce held false s1))))) (quiesce held false s1) held).
    { apply rel_finish; cbn -[quiesce]; try congruence; try exact Hst;
        try (rewrite Rnw; symmetry; exact S5); try (destruct (o_active o); exact H8).
 }
    split; [|apply rel_ok_step; exact R'].
    unfold ok_check. cbn [act seen]. destruct (ok_takes o _) eqn:T; [|reflexivity].
    unfold ok_takes in T. cbn [act] in T. destruct (o_active o) eqn:Oa; [discriminate|].
    eapply check_all_down; [exact R'|reflexivity|].
    intros n Hn Ha. destruct (quiesce_data s1 held false Q1) as [D1 D2]. rewrite D1 in Hn. rewrite D2 in Ha.
    assert (Ho : holder s1 = None) by (rewrite S4; symmetry; exact Rac).
    apply (all_down_take s1 held nw n Q1 Ho); auto.
    + rewrite Ho in H8. rewrite Rnw in H8. symmetry. exact H8.
    + intro C. assert (started s nw) by (apply Rst; apply in_or_app; right; rewrite Rh; exact C).
      apply started_lt in H. unfold nw in H. lia.
  - (* AStartHeld *)
    unfold slot_for. cbn [held_after act_events].
    destruct (run_spawn s) as [S1 [S2 [S3 [S4 [S5 [S6 S7]]]]]].
    assert (Q1 : qpre (run s [ESpawn; EStart (length (ws s))]) (length (ws s) :: held)).
    { apply (qpre_spawn s held (length (ws s) :: held) Rpre). intros k [E|E]; [left; symmetry; exact E|right; exact E]. }
    set (nw := length (ws s)) in *. set (s1 := run s [ESpawn; EStart nw]) in *. clearbody s1.
    assert (Hst : forall k, In k (o_free o ++ o_nw o :: o_held o) <-> started s1 k).
    { intro k. rewrite Rnw. fold nw. destruct (Nat.eq_dec k nw) as [E|E].
      - subst k. split; [intros _; left; exact S6|intros _; apply in_or_app; right; left; reflexivity].
      - unfold started, active. rewrite (S7 k E). fold (active s k). fold (started s k). rewrite <- Rst.
        rewrite !in_app_iff. simpl. intuition congruence. }
    assert (H8 : match o_active o with None => Some (o_nw o) | Some x => Some x end =
                 match holder s1 with Some k => Some k | None => first_waiting s1 end).
    { rewrite S4, Rac. destruct (holder s) as [k|] eqn:Ho; [reflexivity|]. symmetry. rewrite Rnw. fold nw.
      apply fw_intro; [exact S6|]. intros j Hj. rewrite (S7 j) by lia. apply (Rnowait eq_refl). }
    split.
    + unfold ok_check, ok_takes. cbn. destruct (o_active o); reflexivity.
    + apply rel_ok_step. apply rel_finish; cbn -[quiesce]; try congruence; try exact Hst;
        try (rewrite Rnw; symmetry; exact S5); try (rewrite Rnw, Rh; reflexivity);
        try (destruct (o_active o); exact H8).
  - (* ARelease *)
    unfold slot_for. cbn [held_after act_events]. change (run s []) with s.
    assert (Q1 : qpre s (remn k held)).
    { apply (qpre_sub s held); [exact Rpre|]. intros j Hj. apply remn_In' in Hj. tauto. }
    assert (Hst : forall j, In j ((if memn k (o_held o) then o_free o ++ [k] else o_free o) ++ remn k (o_held o)) <-> started s j).
    { intro j. rewrite <- Rst. destruct (memn k (o_held o)) eqn:M.
      - apply memn_In in M. rewrite !in_app_iff, remn_In'. simpl.
        destruct (Nat.eq_dec j k); [subst; tauto|]. intuition congruence.
      - rewrite (remn_notin _ _ M). tauto. }
    assert (H8 : o_active o = match holder s with Some x => Some x | None => first_waiting s end).
    { rewrite Rac. destruct (holder s) eqn:Ho; [reflexivity|]. symmetry. apply no_waiting_fw. apply (Rnowait eq_refl). }
    assert (R' : rel (ok_upd o (mkSlot (ARelease k) (map w_st (wls (quiesce (remn k held) false s))))) (quiesce (remn k held) false s) (remn k held)).
    { apply rel_finish; cbn -[quiesce]; try congruence; try exact Hst; try exact H8. }
    split; [|apply rel_ok_step; exact R'].
    unfold ok_check. cbn [act seen]. destruct (ok_takes o _) eqn:T; [|reflexivity].
    unfold ok_takes in T. cbn [act] in T. destruct (o_active o) as [k'|] eqn:Oa; [|discriminate].
    apply andb_true_iff in T. destruct T as [T1 T2]. apply Nat.eqb_eq in T1. subst k'.
    rewrite Rh in T2. apply memn_In in T2.
    eapply check_all_down; [exact R'|reflexivity|].
    intros n Hn Ha. destruct (quiesce_data s (remn k held) false Q1) as [D1 D2]. rewrite D1 in Hn. rewrite D2 in Ha.
    assert (Ho : holder s = Some k) by (symmetry; exact Rac).
    destruct (HV k Ho) as [se P].
    apply (all_down_release s (remn k held) k se n Ho); auto.
    + intro C. apply remn_In' in C. tauto.
    + apply (HF k se T2 P).
  - (* AStop *)
    unfold slot_for. cbn [held_after act_events]. change (run s [EStop k]) with (step s (EStop k)).
    destruct (step_stop s k HE HV) as [S1 [S2 [S3 [S4 [S5 [S6 S7]]]]]].
    assert (Q1 : qpre (step s (EStop k)) (remn k held)).
    { constructor.
      - apply hexact_step; [intros [k' L]; discriminate|exact HE].
      - apply hvalid_step. exact HV.
      - apply inv_step. exact HI.
      - intros j se Hj P. apply remn_In' in Hj. destruct Hj as [Hj Ne]. rewrite (S6 j Ne) in P. eapply HF; eauto. }
    set (s1 := step s (EStop k)) in *. clearbody s1.
    assert (Hst : forall j, In j (remn k (o_free o) ++ remn k (o_held o)) <-> started s1 j).
    { intro j. rewrite in_app_iff, !remn_In'. unfold started, active. destruct (Nat.eq_dec j k) as [E|E].
      - subst. rewrite S5. split; [tauto|]. intros [C|[se C]]; discriminate.
      - rewrite (S6 j E). fold (active s j). fold (started s j). rewrite <- Rst, in_app_iff. tauto. }
    assert (NoAct : holder s1 = None -> forall j, ~ active s1 j).
    { intros Hn j A. apply (qp_exact _ _ Q1) in A. congruence. }
    assert (H8 : match o_active o with
                 | Some k' => if k =? k' then min_of (remn k (o_free o) ++ remn k (o_held o)) else Some k'
                 | None => None end =
                 match holder s1 with Some x => Some x | None => first_waiting s1 end).
    { rewrite Rac. destruct (holder s) as [k'|] eqn:Ho.
      - destruct S7 as [[A B]|[A B]].
        + inversion A; subst k'. rewrite Nat.eqb_refl, B. symmetry. apply fw_min.
          intro j. rewrite Hst. unfold started. split; [intros [C|C]; [exact C|exfalso; exact (NoAct B j C)]|tauto].
        + rewrite B. destruct (k =? k') eqn:E; [apply Nat.eqb_eq in E; subst; congruence|reflexivity].
      - destruct S7 as [[A B]|[A B]]; [discriminate|]. rewrite B. symmetry. apply no_waiting_fw.
        intros j C. destruct (Nat.eq_dec j k) as [E|E]; [subst; congruence|]. rewrite (S6 j E) in C. exact (Rnowait eq_refl j C). }
    assert (R' : rel (ok_upd o (mkSlot (AStop k) (map w_st (wls (quiesce (remn k held) false s1))))) (quiesce (remn k held) false s1) (remn k held)).
    { apply rel_finish; cbn -[quiesce]; try congruence; try exact Hst; try exact H8. }
    split; [|apply rel_ok_step; exact R'].
    unfold ok_check. cbn [act seen]. destruct (ok_takes o _) eqn:T; [|reflexivity].
    unfold ok_takes in T. cbn -[quiesce] in T. destruct (o_active o) as [k'|] eqn:Oa; [|discriminate].
    apply andb_true_iff in T. destruct T as [T1 T2]. rewrite T1 in T2. apply Nat.eqb_eq in T1. subst k'.
    unfold lock_running in T2.
    destruct (min_of (remn k (o_free o) ++ remn k (o_held o))) as [k2|] eqn:Mi; [|discriminate].
    apply negb_true_iff in T2. rewrite Rh in T2.
    eapply check_all_down; [exact R'|reflexivity|].
    intros n Hn Ha. destruct (quiesce_data s1 (remn k held) false Q1) as [D1 D2]. rewrite D1 in Hn. rewrite D2 in Ha.
    destruct S7 as [[A B]|[A B]]; [|exfalso; apply A; symmetry; exact Rac].
    rewrite Nat.eqb_refl, B in H8.
    apply (all_down_take s1 (remn k held) k2 n Q1 B); auto.
    intro C. apply memn_In in C. congruence.
  - (* AExpire *)
    unfold slot_for. cbn [held_after act_events].
    destruct (run_expire s k HE HV) as [S1 [S2 [S3 [S4 [S6 S7]]]]].
    assert (HI1 : inv (run s [ELeaseLost k; EExpire k])) by (apply inv_run; exact HI).
    set (s1 := run s [ELeaseLost k; EExpire k]) in *. clearbody s1.
    destruct S7 as [[A [B C]]|[A B]].
    + (* the holder loses the lock and goes back to waiting *)
      destruct (HV k A) as [se0 P0].
      assert (NoAct : forall j, ~ active s1 j).
      { intros j [se Pj]. destruct (Nat.eq_dec j k) as [E|E]; [subst; congruence|].
        rewrite (S6 j E) in Pj. assert (holder s = Some j) by (apply HE; exists se; exact Pj). congruence. }
      assert (Q1 : qpre s1 held).
      { constructor.
        - intros j Aj. exfalso. exact (NoAct j Aj).
        - intros j Hj. congruence.
        - exact HI1.
        - intros j se Hj P. exfalso. apply (NoAct j). exists se. exact P. }
      assert (Hst : forall j, In j (o_free o ++ o_held o) <-> started s1 j).
      { intro j. rewrite Rst. unfold started, active. destruct (Nat.eq_dec j k) as [E|E].
        - subst. rewrite C, P0. split; intros _; [left; reflexivity|right; eauto].
        - rewrite (S6 j E). tauto. }
      assert (H8 : match o_active o with
                   | Some k' => if k =? k' then min_of (o_free o ++ o_held o) else Some k'
                   | None => None end =
                   match holder s1 with Some x => Some x | None => first_waiting s1 end).
      { rewrite Rac, A, Nat.eqb_refl, B. symmetry. apply fw_min.
        intro j. rewrite Hst. unfold started. split; [intros [X|X]; [exact X|exfalso; exact (NoAct j X)]|tauto]. }
      assert (R' : rel (ok_upd o (mkSlot (AExpire k) (map w_st (wls (quiesce held false s1))))) (quiesce held false s1) held).
      { apply rel_finish; cbn -[quiesce]; try congruence; try exact Hst; try exact H8. }
      split; [|apply rel_ok_step; exact R'].
      unfold ok_check. cbn [act seen]. destruct (ok_takes o _) eqn:T; [|reflexivity].
      unfold ok_takes in T. cbn -[quiesce] in T. destruct (o_active o) as [k'|] eqn:Oa; [|discriminate].
      apply andb_true_iff in T. destruct T as [T1 T2]. rewrite T1 in T2. apply Nat.eqb_eq in T1. subst k'.
      unfold lock_running in T2.
      destruct (min_of (o_free o ++ o_held o)) as [k2|] eqn:Mi; [|discriminate].
      apply negb_true_iff in T2. rewrite Rh in T2.
      eapply check_all_down; [exact R'|reflexivity|].
      intros n Hn Ha. destruct (quiesce_data s1 held false Q1) as [D1 D2]. rewrite D1 in Hn. rewrite D2 in Ha.
      assert (F : first_waiting s1 = Some k2).
      { rewrite Nat.eqb_refl, B in H8. symmetry. exact H8. }
      apply (all_down_take s1 held k2 n Q1 B F); auto.
      intro X. apply memn_In in X. congruence.
    + (* somebody else holds the lock, or nobody: nothing happens *)
      subst s1.
      assert (H8 : match o_active o with
                   | Some k' => if k =? k' then min_of (o_free o ++ o_held o) else Some k'
                   | None => None end =
                   match holder s with Some x => Some x | None => first_waiting s end).
      { rewrite Rac. destruct (holder s) as [k'|] eqn:Ho.
        - destruct (k =? k') eqn:E; [apply Nat.eqb_eq in E; subst; congruence|reflexivity].
        - symmetry. apply no_waiting_fw. apply (Rnowait eq_refl). }
      assert (R' : rel (ok_upd o (mkSlot (AExpire k) (map w_st (wls (quiesce held false s))))) (quiesce held false s) held).
      { apply rel_finish; cbn -[quiesce]; try congruence; try exact Rst; try exact H8; try exact Rpre. }
      split; [|apply rel_ok_step; exact R'].
      unfold ok_check. cbn [act seen]. destruct (ok_takes o _) eqn:T; [|reflexivity].
      unfold ok_takes in T. cbn -[quiesce] in T. destruct (o_active o) as [k'|] eqn:Oa; [|discriminate].
      apply andb_true_iff in T. destruct T as [T1 _]. apply Nat.eqb_eq in T1. subst k'.
      exfalso. apply A. symmetry. exact Rac.
Qed.

Lemma rel_init : rel ok_init init [].
Proof.
  constructor; simpl; auto.
  - intro k. unfold started, active, phase. simpl. split; [intros []|].
    intros [H|[se H]]; destruct k; discriminate.
  - constructor.
    + exact hexact_init.
    + exact hvalid_init.
    + exact inv_init.
    + intros k se [].
  - intros _ j. unfold phase. simpl. destruct j; discriminate.
  - intros k H. discriminate.
Qed.

Lemma ok_gen_from : forall acts o s held, rel o s held -> o_good o = true ->
  o_good (fold_left ok_step (gen_from s held acts) o) = true.
Proof.
  induction acts as [|a t IH]; intros o s held R G; simpl; [exact G|].
  pose proof (gen_step o s held a R) as H. unfold slot_for in H. destruct H as [C R'].
  apply (IH _ _ _ R'). rewrite ok_step_good, G, C. reflexivity.
Qed.

(* C28: the check accepts the model's own observations, for EVERY history *)
Theorem ok_gen : forall acts, ok (gen_case acts) = true.
Proof.
  intro acts. unfold ok, gen_case. cbn [slots]. apply (ok_gen_from acts _ init []); [exact rel_init|reflexivity].
Qed.
