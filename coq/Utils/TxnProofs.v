(* Proofs about the Txn/PCR model.  The domain (outcomes x cancellation points)
   is finite, so the proofs are exhaustive case analyses; the value of the file
   is the [Prop]-level statement of C17 and that every orchestration model uses
   the same combinator semantics. *)
From Coq Require Import List Bool Arith Lia.
From Verif Require Import Utils.Txn.
Import ListNotations.

Definition ran (s : step) (evs : list ev) : Prop := In s (map who evs).
Definition a_step_failed (cnd thn : outcome) : Prop :=
  cnd = Failr \/ (cnd = Succeed /\ thn = Failr).

(* Prop-level statement of the property for utils.Txn *)
Definition txn_spec (cnd thn rb : outcome) (cp : cpoint) (ca : cause) : Prop :=
  let evs := fst (txn cnd thn rb cp ca) in
  let res := snd (txn cnd thn rb cp ca) in
  (* the condition step always runs, first, under the caller-derived context *)
  (exists e rest, evs = e :: rest /\ who e = SCond /\ kind e = Derived /\ count_step SCond evs = 1) /\
  (* follow-up runs (once) only if condition succeeded (and exists) *)
  (ran SThen evs <-> (cnd = Succeed /\ thn <> Absent)) /\
  (count_step SThen evs <= 1) /\
  (* rollback runs exactly once iff a step failed (and rollback exists), else never *)
  (count_step SRollback evs = 1 <-> (a_step_failed cnd thn /\ rb <> Absent)) /\
  (count_step SRollback evs <= 1) /\
  (* rollback is last, is told whether cond was the failing step, and runs under a
     context the caller's cancellation or deadline cannot reach (it is never
     expired on entry; it can only expire by outliving its own fresh ttl) *)
  (forall e, In e evs -> who e = SRollback ->
      flag e = failed cnd /\ kind e = Detached /\ c_entry e = false /\ (ca <> ByTtl -> c_exit e = false)
      /\ exists front, evs = front ++ [e]) /\
  (* follow-up context is detached iff no rollback supplied *)
  (forall e, In e evs -> who e = SThen -> (kind e = Detached <-> rb = Absent)) /\
  (* the first failure is returned; a rollback failure never surfaces *)
  (res = match cnd, thn with Failr, _ => RCondErr | _, Failr => RThenErr | _, _ => RNil end).

Ltac crush_in :=
  repeat match goal with
  | H : In _ (_ :: _) |- _ => destruct H as [H|H]; [subst|]
  | H : In _ [] |- _ => destruct H
  | H : _ \/ _ |- _ => destruct H
  | H : _ /\ _ |- _ => destruct H
  | H : False |- _ => destruct H
  end.
Ltac fin := intros; simpl in *; crush_in; simpl in *; subst;
  try congruence; try discriminate; try lia; auto.

Lemma txn_spec_holds : forall cnd thn rb cp ca, cnd <> Absent -> txn_spec cnd thn rb cp ca.
Proof.
  intros cnd thn rb cp ca Hc. unfold txn_spec, ran, a_step_failed.
  destruct cnd; [congruence| |]; destruct thn, rb, ca; cbn -[In app];
  (split; [do 2 eexists; repeat split; reflexivity|]);
  (split; [split; fin; try (split; congruence)|]);
  (split; [fin|]);
  (split; [split; fin; try (split; [tauto|congruence])|]);
  (split; [fin|]);
  (split; [fin; repeat split; try reflexivity; try (intros; try reflexivity; congruence);
           first [eexists []; reflexivity | eexists [_]; reflexivity | eexists [_;_]; reflexivity]|]);
  (split; [fin; split; fin|]);
  reflexivity.
Qed.

(* PCR: rollback runs (once) iff prepare succeeded and commit failed *)
Definition pcr_spec (prep com rb : outcome) (cp : cpoint) (ca : cause) : Prop :=
  let evs := fst (pcr prep com rb cp ca) in
  let res := snd (pcr prep com rb cp ca) in
  (count_step SRollback evs = 1 <-> (prep = Succeed /\ com = Failr)) /\
  (count_step SRollback evs <= 1) /\
  (ran SThen evs <-> prep = Succeed) /\
  (forall e, In e evs -> who e = SRollback -> c_entry e = false /\ (ca <> ByTtl -> c_exit e = false)) /\
  (res = match prep, com with Failr, _ => RCondErr | _, Failr => RThenErr | _, _ => RNil end).

Lemma pcr_spec_holds : forall prep com rb cp ca,
  prep <> Absent -> com <> Absent -> rb <> Absent -> pcr_spec prep com rb cp ca.
Proof.
  intros prep com rb cp ca H1 H2 H3. unfold pcr_spec, ran.
  destruct prep; [congruence| |]; (destruct com; [congruence| |]);
  (destruct rb; [congruence| |]); destruct cp, ca; cbv -[In not];
  repeat split; intros; crush_in; simpl in *; try congruence; try lia; try discriminate; auto.
Qed.

(* the boolean reflection used by the correspondence check implies the Prop spec
   on the model's own output *)
Lemma txn_ok_model : forall cnd thn rb cp ca, cnd <> Absent ->
  txn_ok cnd thn rb ca (fst (txn cnd thn rb cp ca)) (snd (txn cnd thn rb cp ca)) = true.
Proof.
  intros cnd thn rb cp ca Hc. destruct cnd; [congruence| |]; destruct thn, rb, cp, ca; reflexivity.
Qed.

Lemma pcr_ok_model : forall prep com rb cp ca,
  prep <> Absent -> com <> Absent -> rb <> Absent ->
  pcr_ok prep com rb ca (fst (pcr prep com rb cp ca)) (snd (pcr prep com rb cp ca)) = true.
Proof.
  intros prep com rb cp ca H1 H2 H3.
  destruct prep; [congruence| |]; (destruct com; [congruence| |]);
  (destruct rb; [congruence| |]); destruct cp, ca; reflexivity.
Qed.

(* non-vacuity: a concrete run with a failing follow-up and caller cancellation
   during it: rollback runs once, flag false, uninterruptible *)
Example txn_example :
  txn Succeed Failr Succeed InThen ByCancel =
  ([mkEv SCond false Derived false false; mkEv SThen false Derived false true;
    mkEv SRollback false Detached false false], RThenErr).
Proof. reflexivity. Qed.
