(* Model of utils.Txn / utils.PCR (utils/transaction.go).

   A step is a closure supplied by the caller; the model abstracts it to its
   scripted outcome.  The caller may cancel its context at one of five points.
   The observable of a run is the list of step events (who ran, with which
   flag, and whether the context the step received was cancelled on entry and on
   exit) together with the returned error.

   The model follows the Go text statement by statement:
     txnCtx      = WithTimeout(ctx)                 -- derived: sees caller cancel
     condErr     = cond(txnCtx)
     if condErr == nil && then != nil:
        thenCtx  = txnCtx, or WithTimeout(NewInheritCtx(ctx)) when rollback == nil
        thenErr  = then(thenCtx)
     deferred:   txnErr = first of condErr, thenErr; if nil return;
                 if rollback == nil return;
                 rollback(WithTimeout(NewInheritCtx(ctx)), condErr != nil)
*)
From Coq Require Import List Bool.
Import ListNotations.

Inductive outcome := Absent | Succeed | Failr.
Inductive cpoint := Never | Before | InCond | InThen | InRollback.
(* How the harness realises "the caller's context ends" at the chosen point:
   an explicit cancel, the caller's deadline passing, or the transaction's own
   ttl being used up by the step.  The model is independent of the cause: a
   Derived context observes all three, a Detached one (fresh ttl, no link to
   the caller) observes none. *)
Inductive cause := ByCancel | ByDeadline | ByTtl.
Inductive step := SCond | SThen | SRollback.
Inductive ctxkind := Derived | Detached.
Inductive result := RNil | RCondErr | RThenErr.

Record ev := mkEv { who : step; flag : bool; kind : ctxkind; c_entry : bool; c_exit : bool }.

Definition outcome_eqb (a b : outcome) : bool :=
  match a, b with Absent, Absent | Succeed, Succeed | Failr, Failr => true | _, _ => false end.
Definition step_eqb (a b : step) : bool :=
  match a, b with SCond, SCond | SThen, SThen | SRollback, SRollback => true | _, _ => false end.
Definition kind_eqb (a b : ctxkind) : bool :=
  match a, b with Derived, Derived | Detached, Detached => true | _, _ => false end.
Definition result_eqb (a b : result) : bool :=
  match a, b with RNil, RNil | RCondErr, RCondErr | RThenErr, RThenErr => true | _, _ => false end.
Definition ev_eqb (a b : ev) : bool :=
  step_eqb (who a) (who b) && Bool.eqb (flag a) (flag b) && kind_eqb (kind a) (kind b)
  && Bool.eqb (c_entry a) (c_entry b) && Bool.eqb (c_exit a) (c_exit b).

(* has the caller's context been cancelled when step [s] is entered / left? *)
Definition cancelled_before (cp : cpoint) (s : step) : bool :=
  match cp, s with
  | Never, _ => false
  | Before, _ => true
  | InCond, SCond => false
  | InCond, _ => true
  | InThen, (SCond | SThen) => false
  | InThen, SRollback => true
  | InRollback, _ => false
  end.
Definition cancelled_after (cp : cpoint) (s : step) : bool :=
  match cp, s with
  | Never, _ => false
  | Before, _ => true
  | InCond, _ => true
  | InThen, SCond => false
  | InThen, _ => true
  | InRollback, SRollback => true
  | InRollback, _ => false
  end.

(* what a step sees of the caller's cancellation through a context of kind k *)
Definition sees (k : ctxkind) (b : bool) : bool :=
  match k with Derived => b | Detached => false end.

(* is [s] the step at which the caller's context ends? *)
Definition at_point (cp : cpoint) (s : step) : bool :=
  match cp, s with
  | InCond, SCond | InThen, SThen | InRollback, SRollback => true
  | _, _ => false
  end.
Definition is_ttl (ca : cause) : bool := match ca with ByTtl => true | _ => false end.

(* Every step context is a WithTimeout(_, ttl): a step that itself outlives the
   ttl (cause ByTtl, at the chosen point) finds its own context expired on exit,
   whatever the context's link to the caller. *)
Definition mk (cp : cpoint) (ca : cause) (s : step) (fl : bool) (k : ctxkind) : ev :=
  mkEv s fl k (sees k (cancelled_before cp s))
       (if is_ttl ca && at_point cp s then true else sees k (cancelled_after cp s)).

Definition failed (o : outcome) : bool := match o with Failr => true | _ => false end.

(* utils.Txn.  [cnd] is never Absent in Go (a nil cond would panic); the model
   treats Absent cond like the Go code would treat a cond returning nil only in
   the sense that callers never pass it; theorems quantify over cnd <> Absent. *)
Definition txn (cnd thn rb : outcome) (cp : cpoint) (ca : cause) : list ev * result :=
  let e_cond := [mk cp ca SCond false Derived] in
  let cond_err := failed cnd in
  let then_runs := negb cond_err && negb (outcome_eqb thn Absent) in
  let then_kind := if outcome_eqb rb Absent then Detached else Derived in
  let e_then := if then_runs then [mk cp ca SThen false then_kind] else [] in
  let then_err := then_runs && failed thn in
  let res := if cond_err then RCondErr else if then_err then RThenErr else RNil in
  let rb_runs := (cond_err || then_err) && negb (outcome_eqb rb Absent) in
  let e_rb := if rb_runs then [mk cp ca SRollback cond_err Detached] else [] in
  (e_cond ++ e_then ++ e_rb, res).

(* utils.PCR = Txn(prepare, commit, fun byCond => if !byCond then rollback else nil).
   The inner rollback closure is what the harness observes, so the wrapper's
   call with byCond = true produces no observable event. *)
Definition pcr (prep com rb : outcome) (cp : cpoint) (ca : cause) : list ev * result :=
  let '(evs, res) := txn prep com Succeed cp ca in
  let evs' := flat_map (fun e =>
      match who e with
      | SRollback => if flag e then [] else [mkEv SRollback false (kind e) (c_entry e) (c_exit e)]
      | _ => [e]
      end) evs in
  (evs', res).

(* ---- cases of the correspondence check ---- *)
Record case := mkCase {
  is_pcr : bool; c_cond : outcome; c_then : outcome; c_rb : outcome; c_cp : cpoint; c_cause : cause;
  obs_evs : list ev; obs_res : result }.

Definition model_of (c : case) : list ev * result :=
  if is_pcr c then pcr (c_cond c) (c_then c) (c_rb c) (c_cp c) (c_cause c)
  else txn (c_cond c) (c_then c) (c_rb c) (c_cp c) (c_cause c).

Fixpoint evs_eqb (l1 l2 : list ev) : bool :=
  match l1, l2 with
  | [], [] => true
  | a :: t1, b :: t2 => ev_eqb a b && evs_eqb t1 t2
  | _, _ => false
  end.

Definition agree (c : case) : bool :=
  let '(evs, res) := model_of c in evs_eqb evs (obs_evs c) && result_eqb res (obs_res c).

(* boolean reflection of the property on an observed run *)
Definition count_step (s : step) (l : list ev) : nat :=
  length (filter (fun e => step_eqb (who e) s) l).
Definition any_failed (cnd thn : outcome) : bool :=
  failed cnd || (negb (failed cnd) && failed thn).

Definition txn_ok (cnd thn rb : outcome) (ca : cause) (evs : list ev) (res : result) : bool :=
  (* then runs iff cond succeeded and then present; never more than once *)
  Nat.eqb (count_step SThen evs)
          (if negb (failed cnd) && negb (outcome_eqb thn Absent) then 1 else 0)
  (* cond runs exactly once *)
  && Nat.eqb (count_step SCond evs) 1
  (* rollback exactly once iff a step failed and rollback is present *)
  && Nat.eqb (count_step SRollback evs)
          (if any_failed cnd thn && negb (outcome_eqb rb Absent) then 1 else 0)
  (* rollback is told whether cond failed; its context cannot be interrupted *)
  && forallb (fun e => match who e with
                       | SRollback => Bool.eqb (flag e) (failed cnd)
                                      && negb (c_entry e) && (is_ttl ca || negb (c_exit e))
                                      && kind_eqb (kind e) Detached
                       | SThen => kind_eqb (kind e) (if outcome_eqb rb Absent then Detached else Derived)
                       | SCond => kind_eqb (kind e) Derived
                       end) evs
  (* first failure is returned; rollback failure never surfaces *)
  && result_eqb res (if failed cnd then RCondErr else if failed thn && negb (outcome_eqb thn Absent) then RThenErr else RNil)
  (* order: cond, then, rollback *)
  && match evs with
     | e :: _ => step_eqb (who e) SCond
     | [] => false
     end
  && match rev evs with
     | e :: _ => if any_failed cnd thn && negb (outcome_eqb rb Absent) then step_eqb (who e) SRollback else true
     | [] => false
     end.

Definition pcr_ok (prep com rb : outcome) (ca : cause) (evs : list ev) (res : result) : bool :=
  Nat.eqb (count_step SCond evs) 1
  && Nat.eqb (count_step SThen evs) (if failed prep then 0 else 1)
  && Nat.eqb (count_step SRollback evs) (if negb (failed prep) && failed com then 1 else 0)
  && forallb (fun e => match who e with
                       | SRollback => negb (c_entry e) && (is_ttl ca || negb (c_exit e))
                       | _ => true end) evs
  && result_eqb res (if failed prep then RCondErr else if failed com then RThenErr else RNil).

Definition ok (c : case) : bool :=
  if is_pcr c then pcr_ok (c_cond c) (c_then c) (c_rb c) (c_cause c) (obs_evs c) (obs_res c)
  else txn_ok (c_cond c) (c_then c) (c_rb c) (c_cause c) (obs_evs c) (obs_res c).
