(* Proofs about Select/Model.v (C21). *)
From Coq Require Import List Bool Arith String Ascii Lia Sorted Permutation.
From Verif Require Import Base.GoStr Base.GoStrLemmas Select.Model.
Import ListNotations.
Open Scope list_scope.

(* ------------------------------------------------------------------ *)
(* utils.Unique                                                        *)

Definition sgt (a b : string) : Prop := slt b a.

(* the kept elements (most recent first), ignoring where the skipped ones end up *)
Fixpoint uniq_final (first : bool) (last : string) (uniq_rev rest : list string) : list string :=
  match rest with
  | [] => uniq_rev
  | x :: rest' =>
      if String.eqb x last && negb first then uniq_final false last uniq_rev rest'
      else uniq_final false x (x :: uniq_rev) rest'
  end.

Lemma unique_loop_shape : forall rest first last U J,
  exists J', unique_loop first last U J rest
             = (rev (uniq_final first last U rest) ++ J', List.length (uniq_final first last U rest)).
Proof.
  induction rest as [|x rest IH]; intros first last U J; simpl.
  - exists J. reflexivity.
  - destruct (String.eqb x last && negb first).
    + apply IH.
    + destruct J; apply IH.
Qed.

Lemma uniq_final_spec : forall rest first last U,
  StronglySorted sle rest ->
  (first = false -> exists U', U = last :: U') ->
  (first = true -> U = []) ->
  (first = false -> Forall (sle last) rest) ->
  StronglySorted sgt U ->
  StronglySorted sgt (uniq_final first last U rest) /\
  (forall y, In y (uniq_final first last U rest) <-> In y U \/ In y rest).
Proof.
  induction rest as [|x rest IH]; intros first last U Srt Hnf Hf Hge SU; simpl.
  - split; [exact SU|]. intro y. tauto.
  - inversion Srt as [|? ? Srt' Hx]; subst.
    destruct (String.eqb x last && negb first) eqn:C.
    + apply andb_true_iff in C. destruct C as [C1 C2]. apply String.eqb_eq in C1.
      apply negb_true_iff in C2. subst x first.
      destruct (Hnf eq_refl) as [U' ->].
      assert (P1 : false = false -> exists U'0, last :: U' = last :: U'0) by (intros _; eexists; reflexivity).
      assert (P2 : false = true -> last :: U' = []) by discriminate.
      assert (P3 : false = false -> Forall (sle last) rest)
        by (intros _; specialize (Hge eq_refl); inversion Hge; assumption).
      destruct (IH false last (last :: U') Srt' P1 P2 P3 SU) as [A B].
      split; [exact A|]. intro y. rewrite B. simpl. tauto.
    + assert (SU' : StronglySorted sgt (x :: U)).
      { constructor; [exact SU|].
        destruct first.
        - rewrite (Hf eq_refl). constructor.
        - destruct (Hnf eq_refl) as [U' ->]. simpl in C. rewrite andb_true_r in C.
          apply String.eqb_neq in C.
          specialize (Hge eq_refl). inversion Hge as [|? ? Hlx _]; subst.
          assert (L : slt last x).
          { apply str_leb_neq_ltb; [exact Hlx | congruence]. }
          constructor; [exact L|].
          inversion SU as [|? ? _ HU']; subst.
          rewrite Forall_forall in HU' |- *. intros z Hz. unfold sgt, slt in *.
          eapply str_ltb_trans; [apply HU'; exact Hz | exact L]. }
      assert (P1 : false = false -> exists U'0, x :: U = x :: U'0) by (intros _; eexists; reflexivity).
      assert (P2 : false = true -> x :: U = []) by discriminate.
      destruct (IH false x (x :: U) Srt' P1 P2 (fun _ => Hx) SU') as [A B].
      split; [exact A|]. intro y. rewrite B. simpl. tauto.
Qed.

Lemma ss_app_single : forall (R : string -> string -> Prop) l x,
  StronglySorted R l -> Forall (fun z => R z x) l -> StronglySorted R (l ++ [x]).
Proof.
  induction l as [|y r IH]; intros x S F; simpl.
  - constructor; constructor.
  - inversion S as [|? ? Sr Hy]; subst. inversion F as [|? ? Fy Fr]; subst.
    constructor; [apply IH; assumption|].
    apply Forall_app. split; [exact Hy | constructor; [exact Fy | constructor]].
Qed.

Lemma ss_rev : forall (R : string -> string -> Prop) l,
  StronglySorted (fun a b => R b a) l -> StronglySorted R (rev l).
Proof.
  intros R. induction l as [|x t IH]; intro S; simpl; [constructor|].
  inversion S as [|? ? St Hx]; subst.
  apply ss_app_single; [apply IH; exact St|].
  rewrite Forall_forall in Hx |- *. intros z Hz. apply Hx. apply in_rev. exact Hz.
Qed.

Lemma unique_spec : forall s out p, unique s = (out, p) ->
  StronglySorted slt (firstn p out) /\ (forall y, In y (firstn p out) <-> In y s)
  /\ List.length out = List.length s.
Proof.
  intros s out p H. unfold unique in H.
  destruct (unique_loop_shape (sort_str s) true ""%string [] []) as [J' E].
  rewrite E in H. inversion H; subst out p. clear H.
  destruct (uniq_final_spec (sort_str s) true ""%string []) as [A B].
  - apply sort_str_sorted.
  - discriminate.
  - reflexivity.
  - discriminate.
  - constructor.
  - set (F := uniq_final true ""%string [] (sort_str s)) in *.
    assert (Efn : firstn (List.length F) (rev F ++ J') = rev F).
    { rewrite <- (rev_length F). rewrite firstn_app, firstn_all, Nat.sub_diag. simpl. apply app_nil_r. }
    rewrite Efn. split; [apply ss_rev; exact A|]. split.
    + intro y. rewrite <- in_rev, B, sort_str_In. simpl. tauto.
    + (* length: the loop only permutes *)
      clear - E.
      assert (G : forall rest first last U J out p,
                 unique_loop first last U J rest = (out, p) ->
                 List.length out = List.length U + List.length J + List.length rest).
      { induction rest as [|x rest IH]; intros first last U J out p H; simpl in H.
        - inversion H; subst. rewrite app_length, rev_length. simpl. lia.
        - destruct (String.eqb x last && negb first).
          + apply IH in H. rewrite app_length in H. simpl in *. lia.
          + destruct J as [|g J].
            * apply IH in H. simpl in *. lia.
            * apply IH in H. rewrite app_length in H. simpl in *. lia. }
      apply G in E. simpl in E. rewrite E.
      apply Permutation_length. apply Permutation_sym. apply sort_str_perm.
Qed.

(* ------------------------------------------------------------------ *)
(* by_name, finish                                                      *)

Lemma by_name_some : forall ns nm n, by_name ns nm = Some n -> In n ns /\ n_name n = nm.
Proof.
  induction ns as [|a t IH]; intros nm n H; simpl in H; [discriminate|].
  destruct (by_name t nm) eqn:E.
  - inversion H; subst. destruct (IH _ _ E). split; [right|]; assumption.
  - destruct (String.eqb (n_name a) nm) eqn:E2; [|discriminate].
    inversion H; subst. apply String.eqb_eq in E2. split; [left; reflexivity | assumption].
Qed.
Lemma by_name_found : forall ns nm, In nm (map n_name ns) -> exists n, by_name ns nm = Some n.
Proof.
  induction ns as [|a t IH]; intros nm H; simpl in *; [contradiction|].
  destruct (by_name t nm) eqn:E; [eexists; reflexivity|].
  destruct H as [H|H].
  - subst. rewrite String.eqb_refl. eexists; reflexivity.
  - destruct (IH _ H) as [n Hn]. congruence.
Qed.

Lemma rebuild_names : forall ns names,
  (forall x, In x names -> In x (map n_name ns)) ->
  map n_name (flat_map (fun nm => match by_name ns nm with Some n => [n] | None => [] end) names) = names.
Proof.
  induction names as [|x t IH]; intro H; simpl; [reflexivity|].
  destruct (by_name_found ns x) as [n Hn]; [apply H; left; reflexivity|].
  rewrite Hn. simpl. destruct (by_name_some _ _ _ Hn) as [_ ->].
  f_equal. apply IH. intros y Hy. apply H. right. exact Hy.
Qed.
Lemma rebuild_in : forall ns names n,
  In n (flat_map (fun nm => match by_name ns nm with Some n => [n] | None => [] end) names) -> In n ns.
Proof.
  intros ns names n H. apply in_flat_map in H. destruct H as [x [_ Hx]].
  destruct (by_name ns x) eqn:E; [|contradiction].
  destruct Hx as [<-|[]]. apply (by_name_some _ _ _ E).
Qed.

Lemma finish_spec : forall ns,
  StronglySorted slt (map n_name (finish ns)) /\
  (forall x, In x (map n_name (finish ns)) <-> In x (map n_name ns)) /\
  (forall n, In n (finish ns) -> In n ns).
Proof.
  intros ns. unfold finish. destruct ns as [|a t].
  - simpl. split; [constructor|]. split; [tauto|tauto].
  - set (ns := a :: t). destruct (unique (map n_name ns)) as [sorted p] eqn:U.
    destruct (unique_spec _ _ _ U) as [S [M _]].
    assert (R := rebuild_names ns (firstn p sorted) (fun x Hx => proj1 (M x) Hx)).
    rewrite R. split; [exact S|]. split; [exact M|].
    intros n. apply rebuild_in.
Qed.

(* ------------------------------------------------------------------ *)
(* store reads                                                          *)

Lemma filter_all_true : forall (A : Type) (l : list A), filter (fun _ => true) l = l.
Proof. induction l; simpl; congruence. Qed.

Lemma do_get_nodes_nil_all : forall kvs, do_get_nodes kvs [] true = kvs.
Proof.
  intros. unfold do_get_nodes. simpl.
  rewrite (filter_all_true node kvs). apply filter_all_true.
Qed.

Lemma get_node_some : forall st x n, get_node st x = Some n -> In n (s_nodes st) /\ n_name n = x.
Proof.
  intros st x n H. unfold get_node in H. rewrite do_get_nodes_nil_all in H.
  destruct (filter (fun n0 => String.eqb (n_name n0) x) (s_nodes st)) as [|m r] eqn:E; [discriminate|].
  inversion H; subst m.
  assert (I : In n (filter (fun n0 => String.eqb (n_name n0) x) (s_nodes st))) by (rewrite E; left; reflexivity).
  apply filter_In in I. destruct I as [I1 I2]. apply String.eqb_eq in I2. auto.
Qed.
Lemma get_node_none : forall st x, get_node st x = None <-> ~ In x (map n_name (s_nodes st)).
Proof.
  intros st x. unfold get_node. rewrite do_get_nodes_nil_all.
  destruct (filter (fun n0 => String.eqb (n_name n0) x) (s_nodes st)) as [|m r] eqn:E; split; intro H;
    try reflexivity; try discriminate.
  - intro I. apply in_map_iff in I. destruct I as [n [Hn In_]].
    assert (I : In n (filter (fun n0 => String.eqb (n_name n0) x) (s_nodes st))).
    { apply filter_In. split; [assumption|]. apply String.eqb_eq. assumption. }
    rewrite E in I. destruct I.
  - exfalso. apply H.
    assert (I : In m (filter (fun n0 => String.eqb (n_name n0) x) (s_nodes st))) by (rewrite E; left; reflexivity).
    apply filter_In in I. destruct I as [I1 I2]. apply String.eqb_eq in I2.
    apply in_map_iff. exists m. auto.
Qed.

Lemma get_all_some : forall st names ns, get_all st names = Some ns ->
  map n_name ns = names /\ (forall n, In n ns -> In n (s_nodes st)).
Proof.
  induction names as [|x t IH]; intros ns H; simpl in H.
  - inversion H; subst. split; [reflexivity|]. intros ? [].
  - destruct (get_node st x) as [n|] eqn:G; [|discriminate].
    destruct (get_all st t) as [r|] eqn:A; [|discriminate].
    inversion H; subst. destruct (IH _ eq_refl) as [I1 I2].
    destruct (get_node_some _ _ _ G) as [G1 G2].
    split; [simpl; congruence|]. intros m [<-|Hm]; auto.
Qed.
Lemma get_all_none : forall st names, get_all st names = None ->
  exists x, In x names /\ ~ In x (map n_name (s_nodes st)).
Proof.
  induction names as [|x t IH]; intro H; simpl in H; [discriminate|].
  destruct (get_node st x) as [n|] eqn:G.
  - destruct (get_all st t) as [r|] eqn:A; [discriminate|].
    destruct (IH eq_refl) as [y [Y1 Y2]]. exists y. split; [right|]; assumption.
  - exists x. split; [left; reflexivity|]. apply get_node_none. exact G.
Qed.
Lemma get_all_defined : forall st names,
  (forall x, In x names -> In x (map n_name (s_nodes st))) -> exists ns, get_all st names = Some ns.
Proof.
  intros st names H. destruct (get_all st names) as [ns|] eqn:E; [eexists; reflexivity|].
  destruct (get_all_none _ _ E) as [x [X1 X2]]. elim X2. apply H. exact X1.
Qed.

(* ------------------------------------------------------------------ *)
(* the specification                                                    *)

Definition store_wf (st : store) : Prop := NoDup (map n_name (s_nodes st)).

Definition pod_matches (st : store) (f : nfilter) (n : node) : Prop :=
  (f_pod f = ""%string /\ In (n_pod n) (s_pods st)) \/ (f_pod f <> ""%string /\ n_pod n = f_pod f).

(* a node of the store that the pod-based selection must return *)
Definition selected (st : store) (f : nfilter) (n : node) : Prop :=
  In n (s_nodes st) /\ pod_matches st f n /\
  labels_filter (n_labels n) (f_labels f) = true /\
  ~ In (n_name n) (f_excludes f) /\
  (f_all f = true \/ is_down n = false).

Lemma in_do_get_nodes : forall kvs labels all n,
  In n (do_get_nodes kvs labels all) <->
  In n kvs /\ labels_filter (n_labels n) labels = true /\ (all = true \/ is_down n = false).
Proof.
  intros. unfold do_get_nodes. rewrite !filter_In, orb_true_iff, negb_true_iff. tauto.
Qed.

Lemma in_get_nodes_by_pod : forall st f n,
  In n (get_nodes_by_pod st f) <->
  In n (s_nodes st) /\ pod_matches st f n /\ labels_filter (n_labels n) (f_labels f) = true
  /\ (f_all f = true \/ is_down n = false).
Proof.
  intros st f n. unfold get_nodes_by_pod, pod_matches.
  destruct (String.eqb (f_pod f) "") eqn:E; simpl.
  - apply String.eqb_eq in E. rewrite in_flat_map. split.
    + intros [pod [Hp Hn]]. apply in_do_get_nodes in Hn. destruct Hn as [Hn [Hl Ha]].
      unfold nodes_of_pod in Hn. apply filter_In in Hn. destruct Hn as [Hn Hq].
      apply String.eqb_eq in Hq. subst pod. tauto.
    + intros [Hn [[[_ Hp]|[Hne _]] [Hl Ha]]]; [|congruence].
      exists (n_pod n). split; [exact Hp|]. apply in_do_get_nodes.
      split; [|tauto]. unfold nodes_of_pod. apply filter_In. split; [exact Hn | apply String.eqb_refl].
  - apply String.eqb_neq in E. rewrite in_do_get_nodes. unfold nodes_of_pod. rewrite filter_In, String.eqb_eq.
    split.
    + intros [[Hn Hp] [Hl Ha]]. tauto.
    + intros [Hn [[[He _]|[_ Hp]] [Hl Ha]]]; [congruence|tauto].
Qed.

Lemma wf_same_name : forall st n m, store_wf st -> In n (s_nodes st) -> In m (s_nodes st) ->
  n_name n = n_name m -> n = m.
Proof.
  intros st n m W. unfold store_wf in W. induction (s_nodes st) as [|a t IH]; intros Hn Hm E; [destruct Hn|].
  simpl in W. inversion W as [|? ? Ha Wt]; subst.
  destruct Hn as [<-|Hn]; destruct Hm as [<-|Hm]; auto.
  - elim Ha. rewrite E. apply in_map. exact Hm.
  - elim Ha. rewrite <- E. apply in_map. exact Hn.
Qed.

Definition select_spec (st : store) (f : nfilter) (r : option (list node)) : Prop :=
  match r with
  | None => f_includes f <> [] /\ exists x, In x (f_includes f) /\ ~ In x (map n_name (s_nodes st))
  | Some ns =>
      (* each selected node once, in name order *)
      StronglySorted slt (map n_name ns) /\
      (forall n, In n ns -> In n (s_nodes st)) /\
      (* include list: exactly the named nodes, whatever the repeats and the order *)
      (f_includes f <> [] ->
         (forall x, In x (f_includes f) -> In x (map n_name (s_nodes st))) /\
         (forall x, In x (map n_name ns) <-> In x (f_includes f))) /\
      (* otherwise: the pod's (or every pod's) nodes with the labels, minus excludes,
         skipping down / bypassed nodes unless all was requested *)
      (f_includes f = [] -> forall n, In n ns <-> selected st f n)
  end.

Lemma filter_nodes_spec : forall st f, store_wf st -> select_spec st f (filter_nodes st f).
Proof.
  intros st f W. unfold filter_nodes, select_spec.
  destruct (f_includes f) as [|i0 it] eqn:EI.
  - (* pod-based selection *)
    set (listed := get_nodes_by_pod st f).
    set (kept := match f_excludes f with
                 | [] => listed
                 | _ => filter (fun n => negb (mem_str (n_name n) (f_excludes f))) listed end).
    assert (Hkept : forall n, In n kept <-> In n listed /\ ~ In (n_name n) (f_excludes f)).
    { intro n. unfold kept. destruct (f_excludes f) as [|e et] eqn:EE.
      - simpl. tauto.
      - rewrite filter_In, negb_true_iff. rewrite <- (mem_str_In (n_name n) (e :: et)).
        destruct (mem_str (n_name n) (e :: et)); split; intros [A B]; split; auto; try discriminate.
        elim B. reflexivity. }
    assert (Eres : match f_excludes f with
                   | [] => Some (finish listed)
                   | _ :: _ => Some (finish (filter (fun n => negb (mem_str (n_name n) (f_excludes f))) listed))
                   end = Some (finish kept)).
    { unfold kept. destruct (f_excludes f); reflexivity. }
    fold listed. rewrite Eres.
    destruct (finish_spec kept) as [S [M I]].
    split; [exact S|]. split.
    { intros n Hn. apply I, Hkept in Hn. destruct Hn as [Hn _]. apply in_get_nodes_by_pod in Hn. tauto. }
    split; [intro C; congruence|]. intros _ n. unfold selected. split.
    + intro Hn. apply I, Hkept in Hn. destruct Hn as [Hn He]. apply in_get_nodes_by_pod in Hn. tauto.
    + intros [Hn [Hp [Hl [He Ha]]]].
      assert (K : In n kept). { apply Hkept. split; [apply in_get_nodes_by_pod; tauto | exact He]. }
      assert (Hname : In (n_name n) (map n_name (finish kept))). { apply M. apply in_map. exact K. }
      apply in_map_iff in Hname. destruct Hname as [m [Em Hm]].
      assert (m = n) as ->; [|exact Hm].
      apply (wf_same_name st); auto.
      apply I, Hkept in Hm. destruct Hm as [Hm _]. apply in_get_nodes_by_pod in Hm. tauto.
  - (* include list *)
    destruct (get_all st (i0 :: it)) as [ns|] eqn:G.
    + destruct (get_all_some _ _ _ G) as [Names InSt].
      destruct (finish_spec ns) as [S [M I]].
      split; [exact S|]. split; [intros n Hn; apply InSt, I, Hn|].
      split; [|intro C; discriminate]. intros _. split.
      * intros x Hx. rewrite <- Names in Hx. apply in_map_iff in Hx. destruct Hx as [n [<- Hn]].
        apply in_map. apply InSt. exact Hn.
      * intro x. rewrite M, Names. tauto.
    + split; [discriminate|]. apply get_all_none. exact G.
Qed.

(* the answer depends only on the set of names in the include list *)
Lemma includes_order_irrelevant : forall st f1 f2 ns1 ns2,
  store_wf st ->
  f_includes f1 <> [] -> f_includes f2 <> [] ->
  (forall x, In x (f_includes f1) <-> In x (f_includes f2)) ->
  filter_nodes st f1 = Some ns1 -> filter_nodes st f2 = Some ns2 -> ns1 = ns2.
Proof.
  intros st f1 f2 ns1 ns2 W N1 N2 Same H1 H2.
  pose proof (filter_nodes_spec st f1 W) as P1. rewrite H1 in P1.
  pose proof (filter_nodes_spec st f2 W) as P2. rewrite H2 in P2.
  destruct P1 as [S1 [I1 [A1 _]]]. destruct P2 as [S2 [I2 [A2 _]]].
  destruct (A1 N1) as [_ M1]. destruct (A2 N2) as [_ M2].
  assert (E : map n_name ns1 = map n_name ns2).
  { apply strictly_sorted_unique; auto. intro x. rewrite M1, M2. apply Same. }
  clear - E I1 I2 W. revert ns2 E I2. induction ns1 as [|a t IH]; intros [|b u] E I2; simpl in E; try discriminate; [reflexivity|].
  inversion E. f_equal.
  - apply (wf_same_name st); auto; [apply I1|apply I2]; left; reflexivity.
  - apply IH; auto. intros n Hn. apply I1. right. exact Hn. intros n Hn. apply I2. right. exact Hn.
Qed.

Lemma includes_defined_iff : forall st f, f_includes f <> [] ->
  (filter_nodes st f <> None <-> forall x, In x (f_includes f) -> In x (map n_name (s_nodes st))).
Proof.
  intros st f N. unfold filter_nodes. destruct (f_includes f) as [|i0 it] eqn:E; [congruence|]. split.
  - intros H x Hx. destruct (get_all st (i0 :: it)) as [ns|] eqn:G; [|congruence].
    destruct (get_all_some _ _ _ G) as [Names InSt]. rewrite <- Names in Hx.
    apply in_map_iff in Hx. destruct Hx as [n [<- Hn]]. apply in_map, InSt, Hn.
  - intro H. destruct (get_all_defined st (i0 :: it) H) as [ns ->]. discriminate.
Qed.

(* the order in which the store lists nodes and pods does not matter *)
Lemma store_order_irrelevant : forall st1 st2 f ns1 ns2,
  store_wf st1 -> store_wf st2 ->
  (forall n, In n (s_nodes st1) <-> In n (s_nodes st2)) ->
  (forall p, In p (s_pods st1) <-> In p (s_pods st2)) ->
  filter_nodes st1 f = Some ns1 -> filter_nodes st2 f = Some ns2 -> ns1 = ns2.
Proof.
  intros st1 st2 f ns1 ns2 W1 W2 SameN SameP H1 H2.
  pose proof (filter_nodes_spec st1 f W1) as P1. rewrite H1 in P1.
  pose proof (filter_nodes_spec st2 f W2) as P2. rewrite H2 in P2.
  destruct P1 as [S1 [I1 [A1 B1]]]. destruct P2 as [S2 [I2 [A2 B2]]].
  assert (E : map n_name ns1 = map n_name ns2).
  { apply strictly_sorted_unique; auto. intro x.
    destruct (f_includes f) as [|i0 it] eqn:EI.
    - specialize (B1 eq_refl). specialize (B2 eq_refl). rewrite !in_map_iff.
      assert (Sel : forall n, selected st1 f n <-> selected st2 f n).
      { intro n. unfold selected, pod_matches. rewrite SameN, SameP. tauto. }
      split; intros [n [En Hn]]; exists n; (split; [exact En|]).
      + apply B2, Sel, B1, Hn.
      + apply B1, Sel, B2, Hn.
    - destruct A1 as [_ M1]; [discriminate|]. destruct A2 as [_ M2]; [discriminate|].
      rewrite M1, M2. tauto. }
  clear - E I1 I2 W2 SameN. revert ns2 E I2. induction ns1 as [|a t IH]; intros [|b u] E I2; simpl in E; try discriminate; [reflexivity|].
  inversion E. f_equal.
  - apply (wf_same_name st2); auto; [apply SameN, I1|apply I2]; left; reflexivity.
  - apply IH; auto. intros n Hn. apply I1. right. exact Hn. intros n Hn. apply I2. right. exact Hn.
Qed.

(* ------------------------------------------------------------------ *)
(* the finding, on the model of the code before the repair              *)

Definition n3 (x : string) : node := mkNode x "p" [] true false false.
Definition st3 : store := mkStore ["p"%string] [n3 "a"; n3 "b"; n3 "c"].
Definition f_dup : nfilter := mkFilter "" ["a"; "a"; "b"]%string [] [] false.

Lemma old_code_refuted :
  exists st f ns, store_wf st /\ filter_nodes_old st f = Some ns /\ ~ select_spec st f (Some ns).
Proof.
  exists st3, f_dup, [n3 "a"; n3 "a"]. split; [|split].
  - unfold store_wf. simpl. repeat constructor; simpl; intuition discriminate.
  - vm_compute. reflexivity.
  - intros [S _]. simpl in S. inversion S as [|? ? _ F]; subst. inversion F as [|? ? L _]; subst.
    vm_compute in L. discriminate.
Qed.

Lemma new_code_on_witness : option_map (map n_name) (filter_nodes st3 f_dup) = Some ["a"; "b"]%string.
Proof. vm_compute. reflexivity. Qed.

(* ------------------------------------------------------------------ *)
(* the boolean check used on implementation output is sound w.r.t. the Prop spec *)

Lemma strictly_sorted_iff : forall l, strictly_sorted l = true <-> StronglySorted slt l.
Proof.
  induction l as [|x t IH]; simpl; [split; [constructor|reflexivity]|].
  destruct t as [|y u].
  - split; [intros _; constructor; constructor | reflexivity].
  - rewrite andb_true_iff, IH. split.
    + intros [L S]. constructor; [exact S|]. constructor; [exact L|].
      inversion S as [|? ? _ F]; subst. rewrite Forall_forall in F |- *. intros z Hz.
      unfold slt in *. eapply str_ltb_trans; [exact L | apply F; exact Hz].
    + intro S. inversion S as [|? ? St F]; subst. inversion F; subst. split; assumption.
Qed.

Lemma in_store_iff : forall st x, in_store st x = true <-> In x (map n_name (s_nodes st)).
Proof.
  intros. unfold in_store. rewrite existsb_exists, in_map_iff. split; intros [n [A B]]; exists n.
  - apply String.eqb_eq in B. tauto.
  - split; [tauto|]. apply String.eqb_eq. tauto.
Qed.

Lemma pod_selected_iff : forall st f n, In n (s_nodes st) ->
  (pod_selected st f n = true <-> selected st f n).
Proof.
  intros st f n Hn. unfold pod_selected, selected, pod_matches.
  rewrite !andb_true_iff, orb_true_iff, !negb_true_iff.
  rewrite <- (mem_str_In (n_name n) (f_excludes f)).
  destruct (String.eqb (f_pod f) "") eqn:E.
  - apply String.eqb_eq in E. rewrite mem_str_In.
    destruct (mem_str (n_name n) (f_excludes f)); split; intros; intuition (try congruence; try discriminate).
  - apply String.eqb_neq in E. rewrite String.eqb_eq.
    destruct (mem_str (n_name n) (f_excludes f)); split; intros; intuition (try congruence; try discriminate).
Qed.

(* select_ok accepts exactly the name lists allowed by select_spec *)
Lemma select_ok_some_iff : forall st f names, store_wf st ->
  (select_ok st f (Some names) = true <->
   StronglySorted slt names /\
   match f_includes f with
   | _ :: _ => forall x, In x names <-> In x (f_includes f)
   | [] => forall x, In x names <-> exists n, selected st f n /\ n_name n = x
   end).
Proof.
  intros st f names W. unfold select_ok, expected_member, expected_names.
  rewrite !andb_true_iff, strictly_sorted_iff, !forallb_forall.
  destruct (f_includes f) as [|i0 it] eqn:EI.
  - split.
    + intros [[S A] B]. split; [exact S|]. intro x. split.
      * intro Hx. specialize (A _ Hx). apply existsb_exists in A. destruct A as [n [Hn C]].
        apply andb_true_iff in C. destruct C as [C1 C2]. apply String.eqb_eq in C1.
        exists n. split; [apply pod_selected_iff; assumption | assumption].
      * intros [n [Sel <-]]. apply mem_str_In. apply B. apply in_map. apply filter_In.
        split; [apply Sel | apply pod_selected_iff; [apply Sel | exact Sel]].
    + intros [S A]. split; [split; [exact S|]|].
      * intros x Hx. apply A in Hx. destruct Hx as [n [Sel <-]]. apply existsb_exists. exists n.
        split; [apply Sel|]. rewrite String.eqb_refl. simpl. apply pod_selected_iff; [apply Sel | exact Sel].
      * intros x Hx. apply mem_str_In. apply A. apply in_map_iff in Hx. destruct Hx as [n [<- Hn]].
        apply filter_In in Hn. destruct Hn as [Hn Hs]. exists n. split; [|reflexivity].
        apply pod_selected_iff; assumption.
  - split.
    + intros [[S A] B]. split; [exact S|]. intro x. split.
      * intro Hx. apply mem_str_In. apply A. exact Hx.
      * intro Hx. apply mem_str_In. apply B. exact Hx.
    + intros [S A]. split; [split; [exact S|]|].
      * intros x Hx. apply mem_str_In. apply A. exact Hx.
      * intros x Hx. apply mem_str_In. apply A. exact Hx.
Qed.

Lemma select_ok_on_model : forall st f, store_wf st ->
  select_ok st f (option_map (map n_name) (filter_nodes st f)) = true.
Proof.
  intros st f W. pose proof (filter_nodes_spec st f W) as P.
  destruct (filter_nodes st f) as [ns|]; simpl in *.
  - apply select_ok_some_iff; [exact W|]. destruct P as [S [I [A B]]]. split; [exact S|].
    destruct (f_includes f) as [|i0 it] eqn:EI.
    + specialize (B eq_refl). intro x. rewrite in_map_iff. split.
      * intros [n [<- Hn]]. exists n. split; [apply B; exact Hn | reflexivity].
      * intros [n [Sel <-]]. exists n. split; [reflexivity | apply B; exact Sel].
    + destruct A as [_ M]; [discriminate|]. exact M.
  - destruct P as [N [x [X1 X2]]]. destruct (f_includes f) as [|i0 it]; [congruence|].
    apply existsb_exists. exists x. split; [exact X1|]. apply negb_true_iff.
    destruct (in_store st x) eqn:E; [|reflexivity]. apply in_store_iff in E. contradiction.
Qed.

(* hypotheses are satisfiable: a well-formed store with a down node and a bypassed node *)
Example select_example :
  let st := mkStore ["p"%string]
     [mkNode "a" "p" [] true false false; mkNode "b" "p" [] true true false;
      mkNode "c" "p" [] false false false; mkNode "d" "p" [] false false true] in
  store_wf st /\
  option_map (map n_name) (filter_nodes st (mkFilter "p" [] [] [] false)) = Some ["a"; "d"]%string /\
  option_map (map n_name) (filter_nodes st (mkFilter "p" [] ["a"%string] [] true)) = Some ["b"; "c"; "d"]%string /\
  option_map (map n_name) (filter_nodes st (mkFilter "" ["d"; "b"; "d"]%string [] [] false)) = Some ["b"; "d"]%string.
Proof.
  split; [|vm_compute; auto].
  unfold store_wf. simpl. repeat constructor; simpl; intuition discriminate.
Qed.
