(* C21 — model of node selection.

   Anchors:
     cluster/calcium/node.go      filterNodes   (after the repair `fix: filterNodes sorts and
                                                 dedupes the node slice itself`)
     store/{etcdv3,redis}/node.go GetNode(s), GetNodesByPod, doGetNodes
     utils/generics.go            Unique
     utils/utils.go               LabelsFilter
     types/node.go                Node.IsDown

   The store is abstracted to what these functions read: the pod list (in
   GetAllPods order) and the node records (name, pod, labels, test flag, bypass
   flag, "a status key exists").  doGetNodes returns nodes in goroutine
   completion order; the model uses the order of the [nodes] list, the theorems
   hold for every order (and [filter_nodes_store_perm] shows the result does not
   depend on it).  No proofs in this file. *)
From Coq Require Import List Bool Arith String Ascii.
From Verif Require Import Base.GoStr.
Import ListNotations.
Open Scope list_scope.

Record node := mkNode {
  n_name : string; n_pod : string; n_labels : list (string * string);
  n_test : bool; n_bypass : bool; n_status : bool }.

Record store := mkStore { s_pods : list string; s_nodes : list node }.

Record nfilter := mkFilter {
  f_pod : string; f_includes : list string; f_excludes : list string;
  f_labels : list (string * string); f_all : bool }.

(* ---- utils.LabelsFilter(extend = node labels, labels = requested) ---- *)
Fixpoint lookup_label (k : string) (m : list (string * string)) : option string :=
  match m with
  | [] => None
  | (k', v) :: t => if String.eqb k k' then Some v else lookup_label k t
  end.
Definition labels_filter (extend labels : list (string * string)) : bool :=
  forallb (fun kv => match lookup_label (fst kv) extend with
                     | Some n => String.eqb n (snd kv)
                     | None => false
                     end) labels.

(* ---- doGetNodes: availability and Node.IsDown ----
     if node.Test { Available = true && !Bypass }
     else if GetNodeStatus err is "no such key" { Available = false } else if nil { Available = true }
     IsDown = Bypass || !Available *)
Definition available (n : node) : bool := if n_test n then negb (n_bypass n) else n_status n.
Definition is_down (n : node) : bool := n_bypass n || negb (available n).

Definition do_get_nodes (kvs : list node) (labels : list (string * string)) (all : bool) : list node :=
  filter (fun n => all || negb (is_down n))
         (filter (fun n => labels_filter (n_labels n) labels) kvs).

(* GetNode(name) = GetNodes([name])[0] = doGetNodes(kvs, nil, true): error when the key is missing *)
Definition get_node (st : store) (name : string) : option node :=
  match do_get_nodes (filter (fun n => String.eqb (n_name n) name) (s_nodes st)) [] true with
  | n :: _ => Some n
  | [] => None
  end.

Definition nodes_of_pod (st : store) (pod : string) : list node :=
  filter (fun n => String.eqb (n_pod n) pod) (s_nodes st).

Definition get_nodes_by_pod (st : store) (f : nfilter) : list node :=
  let do := fun pod => do_get_nodes (nodes_of_pod st pod) (f_labels f) (f_all f) in
  if negb (String.eqb (f_pod f) "") then do (f_pod f)
  else flat_map do (s_pods st).

(* ---- utils.Unique on an already sorted slice ----
   The Go loop keeps indices i (read) and j (write) and swaps s[i] with s[j] when
   s[i] starts a new run.  The slice is represented as  uniq ++ junk ++ rest
   with j = |uniq| and i = |uniq| + |junk|:
     - skip:  s[i] stays where it is            -> junk grows by s[i]
     - take:  swap s[i], s[j]; j++              -> uniq grows by s[i]; the first junk
                                                   element moves to position i (end of junk)
   Returns the final slice and j. *)
Fixpoint unique_loop (first : bool) (last : string) (uniq_rev junk rest : list string)
  : list string * nat :=
  match rest with
  | [] => (rev uniq_rev ++ junk, List.length uniq_rev)
  | x :: rest' =>
      if String.eqb x last && negb first then unique_loop false last uniq_rev (junk ++ [x]) rest'
      else match junk with
           | [] => unique_loop false x (x :: uniq_rev) [] rest'
           | g :: junk' => unique_loop false x (x :: uniq_rev) (junk' ++ [g]) rest'
           end
  end.
(* utils.Unique(s, func(i) s[i]) : sorts, then compacts *)
Definition unique (s : list string) : list string * nat :=
  unique_loop true ""%string [] [] (sort_str s).

(* byName[node.Name] = node : later nodes overwrite earlier ones *)
Fixpoint by_name (ns : list node) (name : string) : option node :=
  match ns with
  | [] => None
  | n :: t => match by_name t name with
              | Some m => Some m
              | None => if String.eqb (n_name n) name then Some n else None
              end
  end.

(* the deferred function of filterNodes *)
Definition finish (ns : list node) : list node :=
  match ns with
  | [] => []
  | _ =>
    let nodenames := map n_name ns in
    let '(sorted, p) := unique nodenames in
    flat_map (fun nm => match by_name ns nm with Some n => [n] | None => [] end) (firstn p sorted)
  end.

Fixpoint get_all (st : store) (names : list string) : option (list node) :=
  match names with
  | [] => Some []
  | x :: t => match get_node st x with
              | None => None
              | Some n => match get_all st t with None => None | Some r => Some (n :: r) end
              end
  end.

(* filterNodes: None = an error is returned *)
Definition filter_nodes (st : store) (f : nfilter) : option (list node) :=
  match f_includes f with
  | _ :: _ =>
      match get_all st (f_includes f) with
      | None => None
      | Some ns => Some (finish ns)
      end
  | [] =>
      let listed := get_nodes_by_pod st f in
      match f_excludes f with
      | [] => Some (finish listed)
      | _ => Some (finish (filter (fun n => negb (mem_str (n_name n) (f_excludes f))) listed))
      end
  end.

(* ---- the code before the repair (kept to document the finding):
       p := Unique(copy of the names); ns = ns[:p]  ---- *)
Definition finish_old (ns : list node) : list node :=
  match ns with
  | [] => []
  | _ => let '(_, p) := unique (map n_name ns) in firstn p ns
  end.
Definition filter_nodes_old (st : store) (f : nfilter) : option (list node) :=
  match f_includes f with
  | _ :: _ =>
      match get_all st (f_includes f) with
      | None => None
      | Some ns => Some (finish_old ns)
      end
  | [] =>
      let listed := get_nodes_by_pod st f in
      match f_excludes f with
      | [] => Some (finish_old listed)
      | _ => Some (finish_old (filter (fun n => negb (mem_str (n_name n) (f_excludes f))) listed))
      end
  end.

(* ---- correspondence cases ---- *)
Definition node_eqb (a b : node) : bool :=
  String.eqb (n_name a) (n_name b) && String.eqb (n_pod a) (n_pod b)
  && Bool.eqb (n_test a) (n_test b) && Bool.eqb (n_bypass a) (n_bypass b).

Fixpoint strs_eqb (a b : list string) : bool :=
  match a, b with
  | [], [] => true
  | x :: a', y :: b' => String.eqb x y && strs_eqb a' b'
  | _, _ => false
  end.

(* observed: None = error; Some (names in order, Available flag of each) *)
Record case := mkCase {
  c_store : store; c_filter : nfilter;
  c_obs : option (list (string * bool));       (* filterNodes through the export shim *)
  c_locked : option (list string);             (* node map handed to the withNodesPodLocked callback, keys sorted *)
  c_listed : option (list string)              (* public API: names streamed by Calcium.ListPodNodes(pod, labels, all), sorted *)
}.

Fixpoint obs_eqb (a b : list (string * bool)) : bool :=
  match a, b with
  | [], [] => true
  | (x, u) :: a', (y, v) :: b' => String.eqb x y && Bool.eqb u v && obs_eqb a' b'
  | _, _ => false
  end.

Definition model_obs (c : case) : option (list (string * bool)) :=
  match filter_nodes (c_store c) (c_filter c) with
  | None => None
  | Some ns => Some (map (fun n => (n_name n, available n)) ns)
  end.

(* ListPodNodes = GetNodesByPod(pod, labels, all), ignoring includes / excludes *)
Definition listed_names (st : store) (f : nfilter) : list string :=
  sort_str (map n_name (get_nodes_by_pod st f)).

Definition agree (c : case) : bool :=
  match c_listed c with
  | Some l => strs_eqb (listed_names (c_store c) (c_filter c)) l
  | None => false
  end &&
  match model_obs c, c_obs c with
  | None, None => match c_locked c with None => true | Some _ => false end
  | Some m, Some o =>
      obs_eqb m o &&
      match c_locked c with
      | Some l => strs_eqb (map fst m) l      (* the model's names are sorted and distinct *)
      | None => false
      end
  | _, _ => false
  end.

(* ---- boolean reflection of the property, evaluated on the implementation's answer.
   It does not use sort/unique/finish: membership is computed from the store and the filter. *)
Fixpoint strictly_sorted (l : list string) : bool :=
  match l with
  | [] => true
  | x :: t => match t with
              | [] => true
              | y :: _ => str_ltb x y && strictly_sorted t
              end
  end.

Definition in_store (st : store) (x : string) : bool := existsb (fun n => String.eqb (n_name n) x) (s_nodes st).

Definition pod_selected (st : store) (f : nfilter) (n : node) : bool :=
  (if String.eqb (f_pod f) "" then mem_str (n_pod n) (s_pods st) else String.eqb (n_pod n) (f_pod f))
  && labels_filter (n_labels n) (f_labels f)
  && negb (mem_str (n_name n) (f_excludes f))
  && (f_all f || negb (is_down n)).

Definition expected_member (st : store) (f : nfilter) (x : string) : bool :=
  match f_includes f with
  | _ :: _ => mem_str x (f_includes f)
  | [] => existsb (fun n => String.eqb (n_name n) x && pod_selected st f n) (s_nodes st)
  end.

Definition expected_names (st : store) (f : nfilter) : list string :=
  match f_includes f with
  | _ :: _ => f_includes f
  | [] => map n_name (filter (pod_selected st f) (s_nodes st))
  end.

Definition select_ok (st : store) (f : nfilter) (obs : option (list string)) : bool :=
  match obs with
  | None =>
      (* an error is legitimate only for an include list naming an unknown node *)
      match f_includes f with
      | _ :: _ => existsb (fun x => negb (in_store st x)) (f_includes f)
      | [] => false
      end
  | Some names =>
      strictly_sorted names
      && forallb (expected_member st f) names
      && forallb (fun x => mem_str x names) (expected_names st f)
  end.

(* pod-based listing through the public API: the pod's nodes with the labels, down / bypassed
   ones skipped unless all (include and exclude lists do not apply to ListPodNodes) *)
Definition listed_ok (st : store) (f : nfilter) (obs : option (list string)) : bool :=
  let f' := mkFilter (f_pod f) [] [] (f_labels f) (f_all f) in
  match obs with Some names => select_ok st f' (Some names) | None => false end.

Definition ok (c : case) : bool :=
  listed_ok (c_store c) (c_filter c) (c_listed c) &&
  select_ok (c_store c) (c_filter c) (option_map (map fst) (c_obs c))
  && select_ok (c_store c) (c_filter c) (c_locked c)
  (* availability reported for a selected node is the store's verdict *)
  && match c_obs c with
     | None => true
     | Some l => forallb (fun p => existsb (fun n => String.eqb (n_name n) (fst p) && Bool.eqb (available n) (snd p))
                                           (s_nodes (c_store c))) l
     end.

(* ---- utils.Unique stream: the real function on arbitrary string slices ---- *)
Record ucase := mkU { u_in : list string; u_out : list string; u_p : nat }.
Definition uagree (c : ucase) : bool :=
  let '(s, p) := unique (u_in c) in strs_eqb s (u_out c) && Nat.eqb p (u_p c).
Definition uok (c : ucase) : bool :=
  let pre := firstn (u_p c) (u_out c) in
  strictly_sorted pre
  && forallb (fun x => mem_str x (u_in c)) pre
  && forallb (fun x => mem_str x pre) (u_in c)
  && Nat.eqb (List.length (u_out c)) (List.length (u_in c)).

(* ---- end-to-end stream: Calcium.CalculateCapacity (public API) over nodes added with
   Calcium.AddNode.  Observed: the keys of CapacityMessage.NodeCapacities (sorted), None when the
   call fails; with no node selected the call fails with "insufficient resource". ---- *)
Record ccase := mkC { cc_store : store; cc_filter : nfilter; cc_obs : option (list string) }.
Definition cagree (c : ccase) : bool :=
  match filter_nodes (cc_store c) (cc_filter c), cc_obs c with
  | None, None => true
  | Some [], None => true
  | Some (n :: ns), Some l => strs_eqb (map n_name (n :: ns)) l
  | _, _ => false
  end.
Definition cok (c : ccase) : bool :=
  match cc_obs c with
  | Some names => select_ok (cc_store c) (cc_filter c) (Some names)
  | None => select_ok (cc_store c) (cc_filter c) None || select_ok (cc_store c) (cc_filter c) (Some [])
  end.
