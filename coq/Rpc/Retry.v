(* Model of the client retry interceptors (C36).

   Anchors: client/interceptor/retry.go (NewStreamRetry, retryStream.SendMsg,
   retryStream.RecvMsg, RPCNeedRetry, NewUnaryRetry), client/interceptor/types.go.

   The server is a script: the i-th stream opened on the server sends
   [s_msgs] messages (message j of stream i is the pair (i, j)) and then ends
   with an error status (EErr), a clean end -- io.EOF on the client -- (EEOF), or
   stays open and silent (EHang).  Streams opened after the script is exhausted
   fail at once.  For a unary call the i-th invocation succeeds iff s_msgs > 0.

   The caller loops on Recv until it gets an error.  Two cancellation plans:
   the caller cancels its context while blocked in Recv on a hanging stream, or
   while the interceptor sleeps after the failed re-open on server stream j.

   Modelled from the libraries (trusted, cross-checked by the harness):
     backoff.Retry(op, WithMaxRetries(WithContext(exp, ctx), Max)):
        op runs; on error NextBackOff: Stop when Max = 0, when Max retries were
        already granted, or when ctx is done; on Stop: ctx.Err() if non-nil else
        the last error; otherwise sleep (select on ctx.Done) and run op again.
        (ExponentialBackOff.MaxElapsedTime = 15 min is not modelled.)
     grpc: RecvMsg on a stream whose context was cancelled returns a *status*
        error (code Canceled), which is NOT errors.Is(context.Canceled); opening
        a stream with a cancelled context fails locally, nothing reaches the server.

   No proofs in this file. *)
From Coq Require Import List Bool Arith.
Import ListNotations.

Inductive ending := EErr | EEOF | EHang.
Record sscript := mkS { s_msgs : nat; s_end : ending }.

Inductive meth := MWorkloadStatus | MWatchService | MNodeStatus | MUnary.

(* RPCNeedRetry *)
Definition need_retry (m : meth) : bool :=
  match m with MWorkloadStatus | MWatchService => true | _ => false end.

Record plan := mkPlan { p_on_hang : bool; p_backoff_after : option nat }.

Inductive final :=
  | FNone            (* unary call succeeded *)
  | FEOF             (* io.EOF *)
  | FBreak           (* the scripted error status *)
  | FCtxCanceled     (* context.Canceled itself *)
  | FStatusCanceled  (* grpc status error with code Canceled *)
  | FOther
  | FTimeout         (* the call never returns (blocked in Recv) *)
  | FOutOfFuel.      (* model artefact; proved unreachable *)

Definition final_eqb (a b : final) : bool :=
  match a, b with
  | FNone, FNone | FEOF, FEOF | FBreak, FBreak | FCtxCanceled, FCtxCanceled
  | FStatusCanceled, FStatusCanceled | FOther, FOther | FTimeout, FTimeout
  | FOutOfFuel, FOutOfFuel => true
  | _, _ => false
  end.

Definition req := nat.

Inductive event :=
  | EvOpen (i : nat) (r : req)   (* a stream / unary invocation reached the server carrying request r *)
  | EvDeliver (i j : nat)        (* message j of server stream i returned to the caller *)
  | EvBreak (e : final)          (* RecvMsg on the current stream failed with e; retry starts *)
  | EvSleep                      (* backoff sleep *)
  | EvCancel                     (* the caller cancels its context *)
  | EvLocalOpenFail.             (* newStream with a dead context: fails before reaching the server *)

(* the client's view of one server stream *)
Record cstream := mkC { c_idx : nat; c_next : nat; c_total : nat; c_end : ending }.

Record st := mkSt {
  rest : list sscript;     (* scripts of the streams not yet opened *)
  nxt : nat;               (* index the next opened stream gets *)
  cancelled : bool;        (* caller's context *)
  cur : cstream;           (* retryStream.ClientStream *)
  sent : req }.            (* retryStream.sent *)

Definition err_of (e : ending) : final :=
  match e with EErr => FBreak | EEOF => FEOF | EHang => FTimeout end.

(* the server side of opening a stream *)
Definition pop (l : list sscript) : sscript * list sscript :=
  match l with [] => (mkS 0 EErr, []) | x :: t => (x, t) end.

(* streamer(ctx, desc, cc, method, opts...) followed by SendMsg(s.sent) on it *)
Definition open_stream (s : st) : event * st :=
  let '(sc, t) := pop (rest s) in
  (EvOpen (nxt s) (sent s),
   mkSt t (S (nxt s)) (cancelled s) (mkC (nxt s) 0 (s_msgs sc) (s_end sc)) (sent s)).

Inductive rr := RMsg (i j : nat) | RErr (e : final).

(* grpc ClientStream.RecvMsg on the current stream *)
Definition raw_recv (pl : plan) (s : st) : list event * rr * st :=
  let c := cur s in
  if cancelled s then ([], RErr FStatusCanceled, s)
  else if c_next c <? c_total c then
    ([EvDeliver (c_idx c) (c_next c)], RMsg (c_idx c) (c_next c),
     mkSt (rest s) (nxt s) (cancelled s) (mkC (c_idx c) (S (c_next c)) (c_total c) (c_end c)) (sent s))
  else match c_end c with
       | EErr => ([], RErr FBreak, s)
       | EEOF => ([], RErr FEOF, s)
       | EHang =>
           if p_on_hang pl then
             (* blocked in Recv; the caller cancels; grpc finishes the stream with a status error *)
             ([EvCancel], RErr FStatusCanceled, mkSt (rest s) (nxt s) true (cur s) (sent s))
           else ([], RErr FTimeout, s)
       end.

Definition opt_nat_eqb (o : option nat) (n : nat) : bool :=
  match o with Some m => Nat.eqb m n | None => false end.

(* backoff.Retry(func() error { newStream; setStream; SendMsg(sent); RecvMsg(m) }, ...)
   [left] = retries WithMaxRetries still grants *)
Fixpoint retry_loop (pl : plan) (left : nat) (s : st) : list event * rr * st :=
  if cancelled s then
    (* s.newStream() fails locally; NextBackOff = Stop (Max = 0 or ctx.Done()); ctx.Err() != nil *)
    ([EvLocalOpenFail], RErr FCtxCanceled, s)
  else
    let '(eo, s1) := open_stream s in
    let '(ev, r, s2) := raw_recv pl s1 in
    match r with
    | RMsg _ _ => (eo :: ev, r, s2)
    | RErr FTimeout => (eo :: ev, r, s2)
    | RErr e =>
        if cancelled s2 then (eo :: ev, RErr FCtxCanceled, s2)      (* Stop, ctx.Err() *)
        else match left with
             | 0 => (eo :: ev, RErr e, s2)                          (* Stop, the operation's error *)
             | S left' =>
                 if opt_nat_eqb (p_backoff_after pl) (c_idx (cur s2)) then
                   (* select { case <-ctx.Done(): return ctx.Err() } *)
                   (eo :: ev ++ [EvSleep; EvCancel], RErr FCtxCanceled,
                    mkSt (rest s2) (nxt s2) true (cur s2) (sent s2))
                 else
                   let '(ev', r', s3) := retry_loop pl left' s2 in
                   (eo :: ev ++ EvSleep :: ev', r', s3)
             end
    end.

(* retryStream.RecvMsg *)
Definition recv_msg (pl : plan) (max : nat) (s : st) : list event * rr * st :=
  let '(ev, r, s1) := raw_recv pl s in
  match r with
  | RMsg _ _ => (ev, r, s1)                                   (* err == nil *)
  | RErr FCtxCanceled => (ev, r, s1)                          (* errors.Is(err, context.Canceled) *)
  | RErr FTimeout => (ev, r, s1)                              (* never returned *)
  | RErr e =>
      let '(ev', r', s2) := retry_loop pl max s1 in
      (ev ++ EvBreak e :: ev', r', s2)
  end.

(* the caller: for { m, err := stream.Recv(); if err != nil { break } } *)
Fixpoint caller (recv : st -> list event * rr * st) (fuel : nat) (s : st) : list event * final * st :=
  match fuel with
  | 0 => ([], FOutOfFuel, s)
  | S f =>
      let '(ev, r, s') := recv s in
      match r with
      | RMsg _ _ => let '(ev', fin, s'') := caller recv f s' in (ev ++ ev', fin, s'')
      | RErr e => (ev, e, s')
      end
  end.

Definition total_msgs (script : list sscript) : nat :=
  fold_right (fun sc n => s_msgs sc + n) 0 script.

(* NewStreamRetry: the first stream is opened by the interceptor; the generated
   client code then calls SendMsg(req) (retryStream.SendMsg records it) and CloseSend *)
Definition init (script : list sscript) (r : req) : list event * st :=
  let '(sc, t) := pop script in
  ([EvOpen 0 r], mkSt t 1 false (mkC 0 0 (s_msgs sc) (s_end sc)) r).

Definition run_stream (m : meth) (max : nat) (script : list sscript) (pl : plan) (r : req)
  : list event * final :=
  let '(ev0, s0) := init script r in
  let recv := if need_retry m then recv_msg pl max else raw_recv pl in
  let '(ev, fin, _) := caller recv (S (total_msgs script)) s0 in
  (ev0 ++ ev, fin).

(* NewUnaryRetry: backoff.Retry(invoker, WithMaxRetries(..., Max)); invocation i
   succeeds iff its script entry has a message *)
Fixpoint unary_loop (left : nat) (rest : list sscript) (idx : nat) (r : req) : list event * final :=
  let '(sc, t) := pop rest in
  if 0 <? s_msgs sc then ([EvOpen idx r; EvDeliver idx 0], FNone)
  else match left with
       | 0 => ([EvOpen idx r], FBreak)
       | S left' => let '(ev, fin) := unary_loop left' t (S idx) r in (EvOpen idx r :: EvSleep :: ev, fin)
       end.

Definition run (m : meth) (max : nat) (script : list sscript) (pl : plan) (r : req)
  : list event * final :=
  match m with
  | MUnary => unary_loop max script 0 r
  | _ => run_stream m max script pl r
  end.

(* ---- projections of a trace ---- *)

Definition deliveries (t : list event) : list (nat * nat) :=
  flat_map (fun e => match e with EvDeliver i j => [(i, j)] | _ => [] end) t.
Definition requests (t : list event) : list req :=
  flat_map (fun e => match e with EvOpen _ r => [r] | _ => [] end) t.
Definition opens (t : list event) : nat := length (requests t).

(* messages of the streams, in server order *)
Definition msgs_of (idx : nat) (sc : sscript) : list (nat * nat) :=
  map (pair idx) (seq 0 (s_msgs sc)).
Fixpoint all_from (idx : nat) (l : list sscript) : list (nat * nat) :=
  match l with [] => [] | x :: t => msgs_of idx x ++ all_from (S idx) t end.

(* ---- correspondence cases ---- *)

Record case := mkCase {
  c_meth : meth; c_max : nat; c_script : list sscript; c_plan : plan;
  obs_delivered : list (nat * nat);   (* (stream, index) of every message the caller received *)
  obs_final : final;
  obs_opened : nat;                   (* streams / invocations the server saw *)
  obs_reqok : list bool }.            (* per server stream: it carried the original request *)

Definition the_req : req := 7.

Definition pair_eqb (a b : nat * nat) : bool := Nat.eqb (fst a) (fst b) && Nat.eqb (snd a) (snd b).
Fixpoint list_eqb {A} (f : A -> A -> bool) (a b : list A) : bool :=
  match a, b with
  | [], [] => true
  | x :: a', y :: b' => f x y && list_eqb f a' b'
  | _, _ => false
  end.

Definition agree (c : case) : bool :=
  let '(t, fin) := run (c_meth c) (c_max c) (c_script c) (c_plan c) the_req in
  list_eqb pair_eqb (deliveries t) (obs_delivered c)
  && final_eqb fin (obs_final c)
  && Nat.eqb (opens t) (obs_opened c)
  && list_eqb Bool.eqb (map (Nat.eqb the_req) (requests t)) (obs_reqok c).

(* ---- boolean reflection of the property on the observables ---- *)

Definition nth_script (script : list sscript) (i : nat) : sscript := nth i script (mkS 0 EErr).

Definition empty_fail (sc : sscript) : bool :=
  Nat.eqb (s_msgs sc) 0 && match s_end sc with EHang => false | _ => true end.

(* streams p .. p+n-1 are all empty failing streams *)
Fixpoint all_empty (script : list sscript) (p n : nat) : bool :=
  match n with 0 => true | S n' => empty_fail (nth_script script p) && all_empty script (S p) n' end.

(* no window of max+1 consecutive empty failing re-opens starting at p in [1, hi) *)
Fixpoint no_early_window (script : list sscript) (max : nat) (p cnt : nat) : bool :=
  match cnt with
  | 0 => true
  | S cnt' => negb (all_empty script p (S max)) && no_early_window script max (S p) cnt'
  end.

Definition has_hang_before (script : list sscript) (n : nat) : bool :=
  existsb (fun sc => match s_end sc with EHang => true | _ => false end) (firstn n script).

Definition ok (c : case) : bool :=
  let script := c_script c in
  let n := obs_opened c in
  let max := c_max c in
  match c_meth c with
  | MUnary =>
      (* invoked at most max+1 times (exactly once with the shipped budget 0); stops at the first success *)
      (1 <=? n) && (n <=? S max)
      && all_empty script 0 (n - 1)
      && (if 0 <? s_msgs (nth_script script (n - 1))
          then final_eqb (obs_final c) FNone && list_eqb pair_eqb (obs_delivered c) [(n - 1, 0)]
          else final_eqb (obs_final c) FBreak && Nat.eqb n (S max) && list_eqb pair_eqb (obs_delivered c) [])
      && forallb (fun b => b) (obs_reqok c) && Nat.eqb (length (obs_reqok c)) n
  | m =>
      (* every message of every opened stream, in order, nothing else *)
      list_eqb pair_eqb (obs_delivered c) (all_from 0 (map (nth_script script) (seq 0 n)))
      (* every stream carried the original request *)
      && forallb (fun b => b) (obs_reqok c) && Nat.eqb (length (obs_reqok c)) n
      && (1 <=? n)
      && (if need_retry m then
            if p_on_hang (c_plan c) && has_hang_before script n then
              (* cancelled while blocked on the last opened stream: nothing opened afterwards *)
              final_eqb (obs_final c) FCtxCanceled
              && match s_end (nth_script script (n - 1)) with EHang => true | _ => false end
            else
              let exhausted :=
                if has_hang_before script n then final_eqb (obs_final c) FTimeout
                else
                (* budget exhausted: the last max+1 re-opens all failed empty, the error of the
                   last one surfaces, and the client neither gave up earlier nor went on longer *)
                (S (S max) <=? n)
                && all_empty script (n - S max) (S max)
                && no_early_window script max 1 (n - S max - 1)
                && final_eqb (obs_final c) (err_of (s_end (nth_script script (n - 1)))) in
              match p_backoff_after (c_plan c) with
              | Some j =>
                if final_eqb (obs_final c) FCtxCanceled then
                  (* cancelled during the sleep after stream j failed: j is the last stream *)
                  Nat.eqb n (S j) && (1 <=? j) && empty_fail (nth_script script j)
                else exhausted
              | None => exhausted
              end
          else
            (* not a watch stream: passed through untouched *)
            Nat.eqb n 1
            && final_eqb (obs_final c)
                 (match s_end (nth_script script 0) with
                  | EHang => if p_on_hang (c_plan c) then FStatusCanceled else FTimeout
                  | e => err_of e end))
  end.

(* ---- several watch streams at the same time through ONE interceptor / connection ----
   NewStreamRetry keeps no state of its own: every stream gets its own retryStream and every
   broken RecvMsg builds its own back-off policy, so each stream must behave exactly as it
   would alone.  A concurrent case is the list of the per-stream cases (each logical stream
   has its own server script); it is checked stream by stream against the single-stream model. *)
Definition ccase := list case.
Definition cagree (c : ccase) : bool := forallb agree c.
Definition cok (c : ccase) : bool := forallb ok c.
