(* Proofs about the RPC authentication model (C35). *)
From Coq Require Import List Bool Arith String Ascii Lia.
From Verif Require Import Rpc.Auth.
Import ListNotations.
Open Scope string_scope.
Open Scope list_scope.
Open Scope nat_scope.

(* ---- lower ---- *)

Lemma lower_ascii_idem : forall c, lower_ascii (lower_ascii c) = lower_ascii c.
Proof. intros [[] [] [] [] [] [] [] []]; vm_compute; reflexivity. Qed.

Lemma lower_idem : forall s, lower (lower s) = lower s.
Proof. induction s as [|c t IH]; simpl; [reflexivity|]. now rewrite lower_ascii_idem, IH. Qed.

Lemma lower_empty : forall s, lower s = "" -> s = "".
Proof. intros [|c t]; simpl; [reflexivity|discriminate]. Qed.

Lemma is_empty_spec : forall s, is_empty s = true <-> s = "".
Proof. intros [|c t]; simpl; split; congruence. Qed.

Lemma is_empty_false : forall s, is_empty s = false <-> s <> "".
Proof. intros [|c t]; simpl; split; congruence. Qed.

(* ---- metadata maps ---- *)

Definition lower_keys (m : md) : md := map (fun kv => (lower (fst kv), snd kv)) m.

(* looking up a key that no entry of [m] lower-cases to *)
Lemma md_get_lower_keys_none : forall k m,
  (forall kv, In kv m -> lower (fst kv) <> k) -> md_get k (lower_keys m) = None.
Proof.
  intros k m; induction m as [|[k' vs] t IH]; intros H; simpl; [reflexivity|].
  destruct (String.eqb_spec k (lower k')) as [E|E].
  - exfalso. apply (H (k', vs)); [left; reflexivity|]. simpl. congruence.
  - apply IH. intros kv Hin. apply H. right; exact Hin.
Qed.

(* what the server finds under [k] after one credential header (k0, v) was
   appended to an environment none of whose keys lower-cases to [k] *)
Lemma md_get_after_append : forall k k0 v m,
  (forall kv, In kv m -> lower (fst kv) <> k) ->
  md_get k (lower_keys (md_append m k0 v)) =
    if existsb (fun kv => String.eqb k0 (fst kv)) m then None
    else if String.eqb k (lower k0) then Some [v] else None.
Proof.
  intros k k0 v m; induction m as [|[k' vs] t IH]; intros H.
  - simpl. destruct (String.eqb k (lower k0)); reflexivity.
  - assert (Hk' : lower k' <> k) by (apply (H (k', vs)); left; reflexivity).
    assert (Ht : forall kv, In kv t -> lower (fst kv) <> k) by (intros kv Hin; apply H; right; exact Hin).
    cbn [md_append existsb fst].
    destruct (String.eqb_spec k0 k') as [E|E]; cbn [orb].
    + cbn [lower_keys map fst snd md_get].
      destruct (String.eqb_spec k (lower k')) as [E'|E']; [congruence|].
      apply md_get_lower_keys_none. exact Ht.
    + cbn [lower_keys map fst snd md_get].
      destruct (String.eqb_spec k (lower k')) as [E'|E']; [congruence|].
      apply IH. exact Ht.
Qed.

(* ---- validity ---- *)

Lemma valid_key_parts : forall u, valid_key u = true ->
  u <> "" /\ is_std_key (lower u) = false.
Proof.
  intros u H. unfold valid_key in H.
  apply andb_true_iff in H. destruct H as [H H3].
  apply andb_true_iff in H. destruct H as [H1 _].
  split.
  - apply negb_true_iff in H1. apply is_empty_false. exact H1.
  - apply negb_true_iff. exact H3.
Qed.

Lemma std_only_in : forall std kv, std_only std = true -> In kv std -> is_std_key (lower (fst kv)) = true.
Proof. intros std kv H Hin. unfold std_only in H. rewrite forallb_forall in H. apply H. exact Hin. Qed.

Lemma std_keys_differ : forall std us, std_only std = true -> is_std_key (lower us) = false ->
  forall kv, In kv std -> lower (fst kv) <> lower us.
Proof.
  intros std us Hs Hu kv Hin E. pose proof (std_only_in _ _ Hs Hin) as H. rewrite E in H. congruence.
Qed.

(* ---- the decision ---- *)

Definition matching (us ps uc pc : string) : Prop := lower uc = lower us /\ pc = ps.

Lemma creds_match_spec : forall us ps uc pc, creds_match us ps uc pc = true <-> matching us ps uc pc.
Proof.
  intros. unfold creds_match, matching. rewrite andb_true_iff.
  split; intros [A B]; split; try (apply String.eqb_eq; assumption); try (apply String.eqb_eq in A; assumption);
    try (apply String.eqb_eq in B; assumption).
Qed.

Lemma check_one : forall p ps, check_passwords [p] ps = Accept <-> p = ps.
Proof.
  intros. simpl. destruct (String.eqb_spec p ps); split; intro H; try congruence; reflexivity.
Qed.

(* the core lemma: for a configured (non-empty, valid) server user name the
   repaired doAuth accepts exactly the matching credentials *)
Lemma do_auth_decides : forall std us ps uc pc,
  std_only std = true -> valid_key us = true ->
  (do_auth us ps (incoming_ctx (server_md std (client_headers uc pc))) = Accept
   <-> matching us ps uc pc).
Proof.
  intros std us ps uc pc Hstd Hus.
  destruct (valid_key_parts _ Hus) as [Hne Hnstd].
  pose proof (std_keys_differ _ _ Hstd Hnstd) as Hdiff.
  unfold client_headers.
  destruct (is_empty uc) eqn:Euc.
  - (* client without credentials *)
    apply is_empty_spec in Euc. subst uc. cbn [server_md fold_left].
    unfold matching. split.
    + intro H. exfalso. unfold do_auth, incoming_ctx in H.
      destruct std as [|e std']; [simpl in H; discriminate|].
      cbn [from_incoming_context] in H.
      change (map (fun kv => (lower (fst kv), snd kv)) (e :: std')) with (lower_keys (e :: std')) in H.
      rewrite md_get_lower_keys_none in H by exact Hdiff. discriminate.
    + intros [E _]. simpl in E. symmetry in E. apply lower_empty in E. congruence.
  - cbn [get_request_metadata tr_auth_data map fst snd server_md fold_left].
    set (m := md_append std (lower uc) pc).
    assert (Hm : incoming_ctx m = Some m).
    { unfold m. destruct std as [|[k' vs] t]; cbn [md_append]; [reflexivity|].
      destruct (String.eqb (lower uc) k'); reflexivity. }
    rewrite Hm. unfold do_auth. cbn [from_incoming_context].
    change (map (fun kv => (lower (fst kv), snd kv)) m) with (lower_keys m).
    unfold m. rewrite md_get_after_append by exact Hdiff. rewrite lower_idem.
    destruct (existsb (fun kv => String.eqb (lower uc) (fst kv)) std) eqn:Eex.
    + (* the client's key collides with a protocol header: never the server's user *)
      split; [discriminate|]. intros [E _]. exfalso.
      apply existsb_exists in Eex. destruct Eex as [kv [Hin Hk]].
      apply String.eqb_eq in Hk.
      apply (Hdiff kv Hin). rewrite <- Hk. rewrite lower_idem. exact E.
    + destruct (String.eqb_spec (lower us) (lower uc)) as [E|E].
      * rewrite check_one. unfold matching. split; [intros ->; split; [symmetry; exact E|reflexivity]|intros [_ H]; exact H].
      * split; [discriminate|]. intros [E' _]. congruence.
Qed.

Lemma rpc_configured : forall k std us ps uc pc, is_empty us = false ->
  rpc k std us ps uc pc = do_auth us ps (incoming_ctx (server_md std (client_headers uc pc))).
Proof.
  intros k std us ps uc pc H. unfold rpc, rpc_with, serve_with. rewrite H.
  destruct k; unfold unary_interceptor, stream_interceptor;
    destruct (do_auth us ps _); reflexivity.
Qed.

(* C35: served iff the caller presents the configured user name (as gRPC
   metadata keys compare, i.e. up to ASCII case) with the configured password;
   for unary and streaming calls, for every transport environment *)
Theorem auth_iff : forall k std us ps uc pc,
  std_only std = true -> valid_key us = true ->
  (rpc k std us ps uc pc = Accept <-> matching us ps uc pc).
Proof.
  intros k std us ps uc pc Hstd Hus.
  destruct (valid_key_parts _ Hus) as [Hne _].
  rewrite rpc_configured by (apply is_empty_false; exact Hne).
  apply do_auth_decides; assumption.
Qed.

Theorem same_credentials_accepted : forall k std u p,
  std_only std = true -> valid_cred u p = true -> rpc k std u p u p = Accept.
Proof.
  intros k std u p Hstd Hv. unfold valid_cred in Hv. apply andb_true_iff in Hv. destruct Hv as [Hk _].
  apply auth_iff; [assumption|assumption|]. split; reflexivity.
Qed.

(* core.go: without a configured user name no interceptor is installed *)
Theorem unconfigured_serves_all : forall k std ps uc pc, rpc k std "" ps uc pc = Accept.
Proof. intros. reflexivity. Qed.

(* rejected calls are rejected with the user-name or the password error, never
   "Other"; a wrong password for the right user is a password error *)
Theorem reject_kind : forall k std us ps uc pc,
  std_only std = true -> valid_key us = true ->
  lower uc = lower us -> pc <> ps -> rpc k std us ps uc pc = RejPass.
Proof.
  intros k std us ps uc pc Hstd Hus E Hp.
  destruct (valid_key_parts _ Hus) as [Hne Hnstd].
  rewrite rpc_configured by (apply is_empty_false; exact Hne).
  pose proof (std_keys_differ _ _ Hstd Hnstd) as Hdiff.
  assert (Huc : is_empty uc = false).
  { apply is_empty_false. intro; subst uc. simpl in E. symmetry in E. apply lower_empty in E. congruence. }
  unfold client_headers. rewrite Huc.
  cbn [get_request_metadata tr_auth_data map fst snd server_md fold_left].
  set (m := md_append std (lower uc) pc).
  assert (Hm : incoming_ctx m = Some m).
  { unfold m. destruct std as [|[k' vs] t]; cbn [md_append]; [reflexivity|].
    destruct (String.eqb (lower uc) k'); reflexivity. }
  rewrite Hm. unfold do_auth. cbn [from_incoming_context].
  change (map (fun kv => (lower (fst kv), snd kv)) m) with (lower_keys m).
  unfold m. rewrite md_get_after_append by exact Hdiff. rewrite lower_idem.
  destruct (existsb (fun kv => String.eqb (lower uc) (fst kv)) std) eqn:Eex.
  - exfalso. apply existsb_exists in Eex. destruct Eex as [kv [Hin Hk]].
    apply String.eqb_eq in Hk. apply (Hdiff kv Hin). rewrite <- Hk. rewrite lower_idem. exact E.
  - rewrite E, String.eqb_refl. simpl. destruct (String.eqb_spec pc ps); congruence.
Qed.

(* ---- the boolean reflection used by the correspondence check ---- *)

Lemma accepted_spec : forall v, accepted v = true <-> v = Accept.
Proof. intros []; simpl; split; congruence. Qed.

Definition served_iff_match (us ps uc pc : string) (v : verdict) : Prop :=
  v = Accept <-> (us = "" \/ matching us ps uc pc).

Lemma eqb_iff : forall (a b : bool) (P Q : Prop),
  (a = true <-> P) -> (b = true <-> Q) -> (Bool.eqb a b = true <-> (P <-> Q)).
Proof.
  intros [] [] P Q [A1 A2] [B1 B2]; simpl; split; intro H; try reflexivity; try discriminate.
  - split; intros _; auto.
  - destruct H as [H1 _]. apply B2, H1, A1. reflexivity.
  - destruct H as [_ H2]. apply A2, H2, B1. reflexivity.
  - split; intro X; [apply A2 in X|apply B2 in X]; discriminate.
Qed.

Theorem ok_spec : forall c, in_domain (c_us c) = true ->
  (ok c = true <->
   served_iff_match (c_us c) (c_ps c) (c_uc c) (c_pc c) (obs_unary c) /\
   served_iff_match (c_us c) (c_ps c) (c_uc c) (c_pc c) (obs_stream c)).
Proof.
  intros c Hd. unfold ok, served_iff_match. rewrite Hd.
  assert (He : is_empty (c_us c) || creds_match (c_us c) (c_ps c) (c_uc c) (c_pc c) = true
               <-> (c_us c = "" \/ matching (c_us c) (c_ps c) (c_uc c) (c_pc c))).
  { rewrite orb_true_iff, is_empty_spec, creds_match_spec. reflexivity. }
  rewrite andb_true_iff.
  rewrite (eqb_iff _ _ _ _ (accepted_spec (obs_unary c)) He).
  rewrite (eqb_iff _ _ _ _ (accepted_spec (obs_stream c)) He).
  reflexivity.
Qed.

(* the check accepts the model on every valid input *)
Theorem ok_on_model : forall std us ps uc pc md',
  std_only std = true ->
  ok (mkCase us ps uc pc md' (rpc Unary std us ps uc pc) (rpc Stream std us ps uc pc)) = true.
Proof.
  intros std us ps uc pc md' Hstd.
  destruct (in_domain us) eqn:Hd; [|unfold ok; cbn [c_us]; rewrite Hd; reflexivity].
  apply ok_spec; [exact Hd|]. cbn [c_us c_ps c_uc c_pc obs_unary obs_stream].
  unfold served_iff_match. unfold in_domain in Hd. apply orb_true_iff in Hd. destruct Hd as [Hus|Hus].
  - apply is_empty_spec in Hus. subst us.
    split; (split; [intros _; left; reflexivity | intros _; reflexivity]).
  - destruct (valid_key_parts _ Hus) as [Hne _].
    split; rewrite auth_iff by assumption; (split; [intro H; right; exact H | intros [H|H]; [congruence|exact H]]).
Qed.

(* ---- the version before the repair ---- *)

Definition std_example : md :=
  [(":authority", ["bufnet"]); ("content-type", ["application/grpc"]); ("user-agent", ["grpc-go/1.60.1"])].

(* meta[b.username] verbatim: a client with the very same credentials is refused
   as soon as the configured user name contains an upper-case letter *)
Theorem verbatim_refuted : exists std u p,
  std_only std = true /\ valid_cred u p = true /\
  rpc_verbatim Unary std u p u p = RejUser /\ rpc_verbatim Stream std u p u p = RejUser.
Proof. exists std_example, "Admin", "secret". repeat split; vm_compute; reflexivity. Qed.

(* hypotheses of the theorems are satisfiable, and the repaired code accepts the witness *)
Example hyps_satisfiable :
  std_only std_example = true /\ valid_cred "Admin" "secret" = true /\
  rpc Unary std_example "Admin" "secret" "Admin" "secret" = Accept /\
  rpc Stream std_example "Admin" "secret" "aDMIN" "secret" = Accept /\
  rpc Unary std_example "Admin" "secret" "Admin" "Secret" = RejPass /\
  rpc Unary std_example "Admin" "secret" "" "" = RejUser.
Proof. repeat split; vm_compute; reflexivity. Qed.
