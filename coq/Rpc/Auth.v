(* Model of RPC basic authentication (C35).

   Anchors: auth/simple/simple.go (BasicAuth.doAuth, the two interceptors),
   auth/simple/credential.go (BasicCredential.GetRequestMetadata), auth/auth.go
   (NewAuth/NewCredential), core.go (interceptors installed iff
   config.Auth.Username != ""), client/client.go dial (per-RPC credentials
   installed iff Username != "").

   Between the two sits the gRPC transport; the parts of it the decision
   depends on are modelled from google.golang.org/grpc v1.60.1:
     http2_client.getTrAuthData   k = strings.ToLower(k); authData[k] = v
     http2_server.operateHeaders  mdata[hf.Name] = append(mdata[hf.Name], v)
                                  metadata attached iff len(mdata) > 0
     metadata.FromIncomingContext keys lower-cased again, values copied
   Header values travel unchanged (printable ASCII verbatim, "-bin" keys via
   base64 encode/decode = identity).  The headers the transport itself adds
   (:authority, content-type, user-agent, ...) are an environment argument
   [std]; the theorems quantify over every such environment.

   The model follows the code after the repair `fix: basic auth looks up the
   configured username case-insensitively` (meta[strings.ToLower(b.username)]).
   [do_auth_verbatim] is the lookup before the repair (meta[b.username]), kept
   only to record the refutation of the property for that version.

   No proofs in this file. *)
From Coq Require Import List Bool Arith String Ascii.
Import ListNotations.
Open Scope string_scope.
Open Scope list_scope.
Open Scope nat_scope.

(* ---- strings ---- *)

(* strings.ToLower restricted to ASCII (valid metadata keys are ASCII) *)
Definition lower_ascii (c : ascii) : ascii :=
  let n := nat_of_ascii c in
  if ((65 <=? n) && (n <=? 90))%nat then ascii_of_nat (n + 32) else c.

Fixpoint lower (s : string) : string :=
  match s with
  | EmptyString => EmptyString
  | String c t => String (lower_ascii c) (lower t)
  end.

Definition is_empty (s : string) : bool :=
  match s with EmptyString => true | _ => false end.

(* ---- gRPC metadata: key -> list of values (association list, keys unique) ---- *)

Definition md := list (string * list string).

Fixpoint md_get (k : string) (m : md) : option (list string) :=
  match m with
  | [] => None
  | (k', vs) :: t => if String.eqb k k' then Some vs else md_get k t
  end.

(* mdata[k] = append(mdata[k], v) *)
Fixpoint md_append (m : md) (k v : string) : md :=
  match m with
  | [] => [(k, [v])]
  | (k', vs) :: t => if String.eqb k k' then (k', vs ++ [v]) :: t else (k', vs) :: md_append t k v
  end.

(* ---- client side ---- *)

(* BasicCredential.GetRequestMetadata: map[string]string{c.username: c.password} *)
Definition get_request_metadata (u p : string) : list (string * string) := [(u, p)].

(* http2_client.getTrAuthData: every key lower-cased ("Capital header names are
   illegal in HTTP/2") *)
Definition tr_auth_data (data : list (string * string)) : list (string * string) :=
  map (fun kv => (lower (fst kv), snd kv)) data.

(* client/client.go dial: credentials only when a username is configured *)
Definition client_headers (uc pc : string) : list (string * string) :=
  if is_empty uc then [] else tr_auth_data (get_request_metadata uc pc).

(* ---- transport, server side ---- *)

(* headers owned by HTTP/2 / gRPC itself; a user name equal to one of these is
   not "valid as metadata" (it would collide with, or be dropped like, a
   protocol header) *)
Definition is_std_key (k : string) : bool :=
  prefix ":" k || prefix "grpc-" k
  || String.eqb k "content-type" || String.eqb k "user-agent" || String.eqb k "te"
  || String.eqb k "connection" || String.eqb k "host".

(* operateHeaders: the transport's own entries [std] first (they precede the
   credentials on the wire), then each credential header appended *)
Definition server_md (std : md) (hdrs : list (string * string)) : md :=
  fold_left (fun m kv => md_append m (fst kv) (snd kv)) hdrs std.

(* "if len(mdata) > 0 { s.ctx = metadata.NewIncomingContext(s.ctx, mdata) }" *)
Definition incoming_ctx (m : md) : option md :=
  match m with [] => None | _ => Some m end.

(* metadata.FromIncomingContext *)
Definition from_incoming_context (ctx : option md) : option md :=
  match ctx with
  | None => None
  | Some m => Some (map (fun kv => (lower (fst kv), snd kv)) m)
  end.

(* ---- server side: auth/simple/simple.go ---- *)

Inductive verdict := Accept | RejMeta | RejUser | RejPass | Other.

Definition verdict_eqb (a b : verdict) : bool :=
  match a, b with
  | Accept, Accept | RejMeta, RejMeta | RejUser, RejUser | RejPass, RejPass | Other, Other => true
  | _, _ => false
  end.

Definition check_passwords (passwords : list string) (ps : string) : verdict :=
  match passwords with
  | [] => RejPass                                   (* len(passwords) < 1 *)
  | p :: _ => if String.eqb p ps then Accept else RejPass
  end.

(* BasicAuth.doAuth (repaired) *)
Definition do_auth (us ps : string) (ctx : option md) : verdict :=
  match from_incoming_context ctx with
  | None => RejMeta
  | Some meta =>
      match md_get (lower us) meta with
      | None => RejUser
      | Some passwords => check_passwords passwords ps
      end
  end.

(* BasicAuth.doAuth before the repair: meta[b.username] *)
Definition do_auth_verbatim (us ps : string) (ctx : option md) : verdict :=
  match from_incoming_context ctx with
  | None => RejMeta
  | Some meta =>
      match md_get us meta with
      | None => RejUser
      | Some passwords => check_passwords passwords ps
      end
  end.

Inductive rpc_kind := Unary | Stream.

(* UnaryInterceptor / StreamInterceptor: doAuth, then the handler (which succeeds) *)
Definition unary_interceptor (auth : option md -> verdict) (ctx : option md) : verdict :=
  match auth ctx with Accept => Accept (* handler(ctx, req) *) | e => e end.
Definition stream_interceptor (auth : option md -> verdict) (ctx : option md) : verdict :=
  match auth ctx with Accept => Accept (* handler(srv, stream) *) | e => e end.

(* core.go: interceptors installed only when config.Auth.Username != "" *)
Definition serve_with (auth : string -> string -> option md -> verdict)
           (k : rpc_kind) (us ps : string) (ctx : option md) : verdict :=
  if is_empty us then Accept
  else match k with
       | Unary => unary_interceptor (auth us ps) ctx
       | Stream => stream_interceptor (auth us ps) ctx
       end.

(* one call end to end: client credentials -> wire -> server decision *)
Definition rpc_with auth (k : rpc_kind) (std : md) (us ps uc pc : string) : verdict :=
  serve_with auth k us ps (incoming_ctx (server_md std (client_headers uc pc))).

Definition rpc := rpc_with do_auth.
Definition rpc_verbatim := rpc_with do_auth_verbatim.

(* ---- validity as gRPC metadata ---- *)

(* key characters of the gRPC wire spec, plus upper case (lower-cased by the client) *)
Definition key_char (c : ascii) : bool :=
  let n := nat_of_ascii c in
  (((48 <=? n) && (n <=? 57)) || ((65 <=? n) && (n <=? 90)) || ((97 <=? n) && (n <=? 122))
  || (n =? 95) || (n =? 46) || (n =? 45))%nat.

Fixpoint all_chars (f : ascii -> bool) (s : string) : bool :=
  match s with EmptyString => true | String c t => f c && all_chars f t end.

Definition valid_key (u : string) : bool :=
  negb (is_empty u) && all_chars key_char u && negb (is_std_key (lower u)).

Definition printable (c : ascii) : bool :=
  let n := nat_of_ascii c in ((32 <=? n) && (n <=? 126))%nat.

Definition is_bin_key (u : string) : bool :=
  let l := lower u in
  (4 <=? String.length l)%nat && String.eqb (substring (String.length l - 4) 4 l) "-bin".

(* ASCII-Value of the gRPC spec; "-bin" keys carry arbitrary bytes *)
Definition valid_val (u p : string) : bool := is_bin_key u || all_chars printable p.

Definition valid_cred (u p : string) : bool := valid_key u && valid_val u p.

(* the environment: every entry the transport adds is a protocol header *)
Definition std_only (std : md) : bool := forallb (fun kv => is_std_key (lower (fst kv))) std.

(* ---- correspondence cases ---- *)

Record case := mkCase {
  c_us : string; c_ps : string; c_uc : string; c_pc : string;
  obs_md : md;               (* metadata the server transport delivered, sorted by key *)
  obs_unary : verdict; obs_stream : verdict }.

Definition strs_eqb (a b : list string) : bool :=
  (fix go a b := match a, b with
                 | [], [] => true
                 | x :: a', y :: b' => String.eqb x y && go a' b'
                 | _, _ => false
                 end) a b.

Fixpoint md_eqb (a b : md) : bool :=
  match a, b with
  | [], [] => true
  | (k, v) :: a', (k', v') :: b' => String.eqb k k' && strs_eqb v v' && md_eqb a' b'
  | _, _ => false
  end.

Definition std_part (m : md) : md := filter (fun kv => is_std_key (fst kv)) m.
Definition user_part (m : md) : md := filter (fun kv => negb (is_std_key (fst kv))) m.

(* the domain of the model: a side is either unconfigured or configured with a
   user name valid as a metadata key *)
Definition in_domain (u : string) : bool := is_empty u || valid_key u.

(* model agrees with the implementation: the non-protocol part of the metadata
   the server saw is what the model's transport produces from the client's
   credentials, and both verdicts are the model's.  Cases whose user names are
   protocol header names (the malformed stream) are outside the model. *)
Definition agree (c : case) : bool :=
  if in_domain (c_us c) && in_domain (c_uc c) then
    let std := std_part (obs_md c) in
    let m := server_md std (client_headers (c_uc c) (c_pc c)) in
    md_eqb (user_part m) (user_part (obs_md c))
    && verdict_eqb (rpc Unary std (c_us c) (c_ps c) (c_uc c) (c_pc c)) (obs_unary c)
    && verdict_eqb (rpc Stream std (c_us c) (c_ps c) (c_uc c) (c_pc c)) (obs_stream c)
  else true.

(* the credentials the caller presents match the configured ones *)
Definition creds_match (us ps uc pc : string) : bool :=
  String.eqb (lower uc) (lower us) && String.eqb pc ps.

Definition accepted (v : verdict) : bool := verdict_eqb v Accept.

(* boolean reflection of C35 on what the implementation did (for a server user
   name in the domain; the client's credentials are arbitrary) *)
Definition ok (c : case) : bool :=
  if in_domain (c_us c) then
    let expect := is_empty (c_us c) || creds_match (c_us c) (c_ps c) (c_uc c) (c_pc c) in
    Bool.eqb (accepted (obs_unary c)) expect && Bool.eqb (accepted (obs_stream c)) expect
  else true.
