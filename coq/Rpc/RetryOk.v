(* C36: whole-run characterisation of a watch stream without cancellation and
   without hanging streams: which streams are opened ("no earlier window": the
   client neither gives up early nor goes on longer than its budget), and the
   boolean reflection [ok] of the harness accepts the model on every such input. *)
From Coq Require Import List Bool Arith Lia.
From Verif Require Import Rpc.Retry Rpc.RetryProofs.
Import ListNotations.

Definition plain : plan := mkPlan false None.
Definition NoHang (script : list sscript) : Prop := forall i, s_end (nth_script script i) <> EHang.
Definition nonempty (script : list sscript) (i : nat) : Prop := 0 < s_msgs (nth_script script i).

Lemma empty_fail_of : forall script i, NoHang script -> s_msgs (nth_script script i) = 0 ->
  empty_fail (nth_script script i) = true.
Proof.
  intros script i Hn H. unfold empty_fail. rewrite H. simpl.
  specialize (Hn i). destruct (s_end (nth_script script i)); try reflexivity. congruence.
Qed.

Lemma nonempty_not_empty_fail : forall script i, nonempty script i -> empty_fail (nth_script script i) = false.
Proof.
  intros script i H. unfold nonempty in H. unfold empty_fail.
  destruct (s_msgs (nth_script script i)); [lia|reflexivity].
Qed.

(* ---- RecvMsg on the current stream, plain plan ---- *)

Lemma raw_plain : forall script s ev r s',
  NoHang script -> Link script s -> cancelled s = false -> raw_recv plain s = (ev, r, s') ->
  cancelled s' = false /\ nxt s' = nxt s /\
  match r with
  | RMsg _ _ => c_next (cur s) < c_total (cur s)
  | RErr e => c_total (cur s) <= c_next (cur s) /\ (e = FBreak \/ e = FEOF) /\ s' = s
  end.
Proof.
  intros script s ev r s' Hn L Hc H. unfold raw_recv in H. rewrite Hc in H.
  destruct (c_next (cur s) <? c_total (cur s)) eqn:E.
  - inversion H; subst; clear H. apply Nat.ltb_lt in E. cbn [cancelled nxt]. auto.
  - apply Nat.ltb_ge in E. destruct L as [_ _ _ Le _].
    destruct (c_end (cur s)) eqn:Ee.
    + inversion H; subst. repeat split; auto.
    + inversion H; subst. repeat split; auto.
    + exfalso. apply (Hn (nxt s - 1)). rewrite <- Le. reflexivity.
Qed.

(* ---- the retry loop, plain plan: which streams it opens ---- *)

Definition opened_empty (script : list sscript) (a b : nat) : Prop :=
  forall i, a <= i < b -> empty_fail (nth_script script i) = true.

Lemma retry_plain : forall script left s ev r s',
  NoHang script -> Link script s -> cancelled s = false ->
  retry_loop plain left s = (ev, r, s') ->
  cancelled s' = false /\ nxt s < nxt s' /\ nxt s' <= nxt s + S left /\
  opened_empty script (nxt s) (nxt s' - 1) /\
  match r with
  | RMsg _ _ => nonempty script (nxt s' - 1)
  | RErr e => empty_fail (nth_script script (nxt s' - 1)) = true /\ nxt s' = nxt s + S left /\ (e = FBreak \/ e = FEOF)
  end.
Proof.
  intros script left. induction left as [|left IH]; intros s ev r s' Hn L Hc H;
    rewrite retry_loop_eq in H; rewrite Hc in H;
    destruct (open_stream s) as [eo s1] eqn:Eo;
    pose proof (link_open _ _ _ _ L Eo) as L1;
    (assert (Hs1 : cancelled s1 = false /\ nxt s1 = S (nxt s) /\ c_next (cur s1) = 0)
       by (unfold open_stream in Eo; destruct (pop (rest s)); inversion Eo; subst; cbn; auto));
    destruct Hs1 as (Hc1 & Hn1 & Hnext1);
    destruct (raw_recv plain s1) as [[ev1 r1] s2] eqn:Er;
    destruct (raw_plain _ _ _ _ _ Hn L1 Hc1 Er) as (Hc2 & Hn2 & Hr);
    pose proof L1 as [_ _ _ _ Lt1].
  - destruct r1 as [i j|e].
    + inversion H; subst; clear H. rewrite Hn2, Hn1. replace (S (nxt s) - 1) with (nxt s) by lia.
      repeat split; try assumption; try lia.
      * intros i0 Hi. lia.
      * unfold nonempty. rewrite Hn1 in Lt1. replace (S (nxt s) - 1) with (nxt s) in Lt1 by lia. rewrite <- Lt1. lia.
    + destruct Hr as (Hd & He & Hs). subst s2.
      assert (Hto : is_timeout e = false) by (destruct He; subst; reflexivity).
      rewrite Hto, Hc1 in H. inversion H; subst; clear H. rewrite Hn1. replace (S (nxt s) - 1) with (nxt s) by lia.
      repeat split; try assumption; try lia.
      * intros i0 Hi. lia.
      * apply empty_fail_of; [exact Hn|]. rewrite Hn1 in Lt1. replace (S (nxt s) - 1) with (nxt s) in Lt1 by lia.
        rewrite <- Lt1. lia.
  - destruct r1 as [i j|e].
    + inversion H; subst; clear H. rewrite Hn2, Hn1. replace (S (nxt s) - 1) with (nxt s) by lia.
      repeat split; try assumption; try lia.
      * intros i0 Hi. lia.
      * unfold nonempty. rewrite Hn1 in Lt1. replace (S (nxt s) - 1) with (nxt s) in Lt1 by lia. rewrite <- Lt1. lia.
    + destruct Hr as (Hd & He & Hs). subst s2.
      assert (Hto : is_timeout e = false) by (destruct He; subst; reflexivity).
      rewrite Hto, Hc1 in H. cbn [plain p_backoff_after opt_nat_eqb] in H.
      destruct (retry_loop plain left s1) as [[ev' r'] s3] eqn:Erl.
      inversion H; subst; clear H.
      destruct (IH _ _ _ _ Hn L1 Hc1 Erl) as (Hc3 & Hlt & Hle & Hemp & Hres).
      assert (Hthis : empty_fail (nth_script script (nxt s)) = true).
      { apply empty_fail_of; [exact Hn|]. rewrite Hn1 in Lt1. replace (S (nxt s) - 1) with (nxt s) in Lt1 by lia.
        rewrite <- Lt1. lia. }
      rewrite Hn1 in *.
      repeat split; try assumption; try lia.
      * intros i0 Hi. destruct (Nat.eq_dec i0 (nxt s)) as [->|Hne]; [exact Hthis|apply Hemp; lia].
      * destruct r as [i j|e']; [exact Hres|]. destruct Hres as (A & B & C). repeat split; try assumption; lia.
Qed.

(* ---- one RecvMsg, plain plan ---- *)

Lemma recv_plain : forall script max s ev r s',
  NoHang script -> Link script s -> cancelled s = false ->
  recv_msg plain max s = (ev, r, s') ->
  cancelled s' = false /\
  match r with
  | RMsg _ _ =>
      nxt s' = nxt s \/
      (nxt s < nxt s' /\ nxt s' <= nxt s + S max /\ opened_empty script (nxt s) (nxt s' - 1)
       /\ nonempty script (nxt s' - 1))
  | RErr e =>
      nxt s' = nxt s + S max /\ opened_empty script (nxt s) (nxt s') /\
      e = err_of (s_end (nth_script script (nxt s' - 1))) /\ (e = FBreak \/ e = FEOF)
  end.
Proof.
  intros script max s ev r s' Hn L Hc H. rewrite recv_msg_eq in H.
  destruct (raw_recv plain s) as [[ev1 r1] s1] eqn:Er.
  destruct (raw_plain _ _ _ _ _ Hn L Hc Er) as (Hc1 & Hn1 & Hr).
  destruct r1 as [i j|e].
  - inversion H; subst. split; [exact Hc1|left; exact Hn1].
  - destruct Hr as (Hd & He & Hs). subst s1.
    assert (H1 : final_eqb e FCtxCanceled || is_timeout e = false) by (destruct He; subst; reflexivity).
    rewrite H1 in H. destruct (retry_loop plain max s) as [[ev' r'] s2] eqn:Erl.
    injection H as Hev Hr' Hs'; subst ev r s'.
    destruct (retry_plain _ _ _ _ _ _ Hn L Hc Erl) as (Hc2 & Hlt & Hle & Hemp & Hres).
    split; [exact Hc2|]. destruct r' as [i j|e'].
    + right. repeat split; assumption.
    + destruct Hres as (A & B & C).
      pose proof (link_retry _ _ _ _ _ _ _ L Erl) as [_ _ _ Le _].
      repeat split; try assumption.
      * intros i0 Hi. destruct (Nat.eq_dec i0 (nxt s2 - 1)) as [->|Hne]; [exact A|apply Hemp; lia].
      * (* the error is the ending of the last opened stream *)
        assert (HI : Inv s) by (intro Hx; congruence).
        assert (Hrm : recv_msg plain max s = (ev1 ++ EvBreak e :: ev', RErr e', s2)).
        { rewrite recv_msg_eq, Er, H1, Erl. reflexivity. }
        assert (Hnt : e' <> FTimeout) by (destruct C; subst; discriminate).
        destruct (recv_msg_exhausted _ _ _ _ _ _ HI Hrm Hc2 Hnt) as (_ & _ & Ee & _).
        rewrite Ee, Le. reflexivity.
Qed.

(* ---- windows of consecutive empty streams ---- *)

Lemma all_empty_spec : forall script n p,
  all_empty script p n = true <-> (forall i, p <= i < p + n -> empty_fail (nth_script script i) = true).
Proof.
  intros script. induction n as [|n IH]; intros p; cbn [all_empty].
  - split; [intros _ i Hi; lia|reflexivity].
  - rewrite andb_true_iff, IH. split.
    + intros [H0 H1] i Hi. destruct (Nat.eq_dec i p) as [->|Hne]; [exact H0|apply H1; lia].
    + intros H. split; [apply H; lia|intros i Hi; apply H; lia].
Qed.

Lemma window_broken : forall script max p i,
  p <= i <= p + max -> nonempty script i -> all_empty script p (S max) = false.
Proof.
  intros script max p i Hi Hne. destruct (all_empty script p (S max)) eqn:E; [|reflexivity].
  rewrite all_empty_spec in E. specialize (E i ltac:(lia)).
  rewrite (nonempty_not_empty_fail _ _ Hne) in E. discriminate.
Qed.

Lemma no_early_window_spec : forall script max cnt a,
  (forall p, a <= p < a + cnt -> all_empty script p (S max) = false) ->
  no_early_window script max a cnt = true.
Proof.
  intros script max. induction cnt as [|cnt IH]; intros a H; cbn [no_early_window]; [reflexivity|].
  rewrite (H a) by lia. cbn [negb andb]. apply IH. intros p Hp. apply H. lia.
Qed.

(* invariant of the caller's loop: the current stream delivered something (or is
   the initial one) and no window of max+1 empty streams lies before it *)
Record WInv (script : list sscript) (max : nat) (s : st) : Prop := mkW {
  w_link : Link script s;
  w_alive : cancelled s = false;
  w_cur : nxt s = 1 \/ nonempty script (nxt s - 1);
  w_windows : forall p, 1 <= p -> p + max <= nxt s - 1 -> all_empty script p (S max) = false }.

Lemma winv_step : forall script max s ev i j s',
  NoHang script -> WInv script max s -> recv_msg plain max s = (ev, RMsg i j, s') -> WInv script max s'.
Proof.
  intros script max s ev i j s' Hn [L Hc Hcur Hw] H.
  destruct (recv_plain _ _ _ _ _ _ Hn L Hc H) as (Hc' & Hr).
  pose proof (link_recv_msg _ _ _ _ _ _ _ L H) as L'.
  destruct Hr as [Hsame|(Hlt & Hle & Hemp & Hne)].
  - constructor; try assumption; rewrite Hsame; assumption.
  - constructor; try assumption; [right; exact Hne|].
    intros p Hp Hpm.
    destruct (le_lt_dec (p + max) (nxt s - 1)) as [Hold|Hnew]; [apply Hw; assumption|].
    pose proof (l_nxt _ _ L) as Hn1.
    destruct (le_lt_dec p (nxt s - 1)) as [Hin|Hout].
    + (* the old current stream lies in the window; it is not the initial one since p >= 1 *)
      destruct Hcur as [E|Hne0]; [lia|].
      apply (window_broken script max p (nxt s - 1)); [lia|exact Hne0].
    + (* the window lies after the old current stream: it reaches the new one *)
      apply (window_broken script max p (nxt s' - 1)); [lia|exact Hne].
Qed.

(* shape of the whole run *)
Lemma caller_plain : forall script max fuel s ev fin s',
  NoHang script -> WInv script max s ->
  caller (recv_msg plain max) fuel s = (ev, fin, s') -> fin <> FOutOfFuel ->
  let n := nxt s' in
  S (S max) <= n /\
  all_empty script (n - S max) (S max) = true /\
  no_early_window script max 1 (n - S max - 1) = true /\
  fin = err_of (s_end (nth_script script (n - 1))).
Proof.
  intros script max. induction fuel as [|fuel IH]; intros s ev fin s' Hn W H Hf; cbn [caller] in H.
  - inversion H; subst. congruence.
  - destruct (recv_msg plain max s) as [[ev1 r1] s1] eqn:Er. destruct r1 as [i j|e].
    + destruct (caller (recv_msg plain max) fuel s1) as [[ev' f'] s2] eqn:Ec. inversion H; subst; clear H.
      apply (IH s1 ev' fin s' Hn (winv_step _ _ _ _ _ _ _ Hn W Er) Ec Hf).
    + inversion H; subst; clear H. destruct W as [L Hc Hcur Hw].
      destruct (recv_plain _ _ _ _ _ _ Hn L Hc Er) as (_ & Hnx & Hemp & Hfin & _).
      pose proof (l_nxt _ _ L) as Hn1. cbv zeta.
      split; [lia|]. split; [|split; [|exact Hfin]].
      * apply all_empty_spec. intros i Hi. apply Hemp. lia.
      * apply no_early_window_spec. intros p Hp.
        destruct (le_lt_dec (p + max) (nxt s - 1)) as [Hold|Hnew]; [apply Hw; lia|].
        destruct Hcur as [E|Hne0]; [lia|].
        apply (window_broken script max p (nxt s - 1)); [lia|exact Hne0].
Qed.

(* ---- the whole run ---- *)

Theorem plain_run_shape : forall m max script r t fin,
  need_retry m = true -> NoHang script -> run_stream m max script plain r = (t, fin) ->
  let n := opens t in
  S (S max) <= n /\
  all_empty script (n - S max) (S max) = true /\
  no_early_window script max 1 (n - S max - 1) = true /\
  fin = err_of (s_end (nth_script script (n - 1))).
Proof.
  intros m max script r t fin Hm Hn H.
  pose proof (retry_run_facts _ _ _ _ _ _ _ Hm H) as F.
  destruct (split_run_stream _ _ _ _ _ _ _ H) as (ev0 & s0 & ev & s' & Hi & Hc & Ht). subst t.
  rewrite Hm in Hc.
  destruct (init_spec _ _ _ _ Hi) as (E0 & P0 & N0 & R0 & S0 & C0).
  assert (I0 : Inv s0) by (intro Hx; congruence).
  assert (Hlen : length (pending s0) < S (total_msgs script)) by (rewrite P0, length_all_from; lia).
  destruct (caller_spec _ _ (recv_msg_good plain max) _ _ _ _ _ Hc I0 Hlen) as ((_ & N & _) & _).
  assert (W0 : WInv script max s0).
  { constructor; [eapply link_init; eauto|exact C0|left; exact N0|intros p Hp Hpm; lia]. }
  pose proof (caller_plain _ _ _ _ _ _ _ Hn W0 Hc (rf_fuel _ _ _ _ F)) as Hs.
  assert (Hop : opens (ev0 ++ ev) = nxt s') by (subst ev0; rewrite opens_app, N, N0; reflexivity).
  cbv zeta in *. rewrite Hop. exact Hs.
Qed.

(* ---- the harness check accepts the model ---- *)

Lemma pair_list_eqb_refl : forall l, list_eqb pair_eqb l l = true.
Proof.
  induction l as [|[a b] l IH]; [reflexivity|]. cbn [list_eqb]. rewrite IH. unfold pair_eqb. cbn [fst snd].
  rewrite !Nat.eqb_refl. reflexivity.
Qed.

Lemma all_from_default : forall l i e, all_from i (map (fun _ : nat => mkS 0 e) l) = [].
Proof. induction l as [|x l IH]; intros i e; [reflexivity|]. cbn [map all_from]. rewrite IH. reflexivity. Qed.

Lemma all_from_map_nth : forall script n i,
  all_from i (map (nth_script script) (seq 0 n)) = all_from i (firstn n script).
Proof.
  induction script as [|x t IH]; intros n i.
  - rewrite firstn_nil. cbn [all_from].
    rewrite (map_ext (nth_script []) (fun _ => mkS 0 EErr)) by (intros k; unfold nth_script; destruct k; reflexivity).
    apply all_from_default.
  - destruct n as [|n]; [reflexivity|].
    cbn [seq map firstn all_from]. change (nth_script (x :: t) 0) with x. f_equal.
    rewrite <- seq_shift, map_map.
    rewrite (map_ext (fun k => nth_script (x :: t) (S k)) (nth_script t)) by (intros k; reflexivity).
    apply IH.
Qed.

Lemma nohang_no_hang_before : forall script n, NoHang script -> has_hang_before script n = false.
Proof.
  intros script n Hn. unfold has_hang_before.
  destruct (existsb _ (firstn n script)) eqn:E; [|reflexivity]. exfalso.
  apply existsb_exists in E. destruct E as [sc [Hin Hh]].
  apply (In_nth _ _ (mkS 0 EErr)) in Hin. destruct Hin as [k [Hk Ek]].
  assert (Hk' : k < n /\ k < length script).
  { rewrite firstn_length in Hk. lia. }
  assert (E2 : nth k (firstn n script) (mkS 0 EErr) = nth_script script k).
  { unfold nth_script. rewrite <- (firstn_skipn n script) at 2. rewrite app_nth1; [reflexivity|]. rewrite firstn_length. lia. }
  rewrite E2 in Ek. apply (Hn k). rewrite Ek. destruct (s_end sc); try discriminate. reflexivity.
Qed.

(* for every watch-stream script without hanging streams, every budget: the property
   check evaluated by the correspondence harness holds of the model's own output *)
Theorem ok_on_model_plain : forall m max script t fin,
  need_retry m = true -> NoHang script -> run m max script plain the_req = (t, fin) ->
  ok (mkCase m max script plain (deliveries t) fin (opens t) (map (Nat.eqb the_req) (requests t))) = true.
Proof.
  intros m max script t fin Hm Hn H.
  assert (Hrs : run_stream m max script plain the_req = (t, fin)) by (destruct m; try discriminate; exact H).
  pose proof (retry_run_facts _ _ _ _ _ _ _ Hm Hrs) as F.
  destruct (plain_run_shape _ _ _ _ _ _ Hm Hn Hrs) as (A1 & A2 & A3 & A4).
  unfold ok. cbn [c_script obs_opened c_max c_meth obs_delivered obs_reqok obs_final c_plan].
  assert (Hd : list_eqb pair_eqb (deliveries t) (all_from 0 (map (nth_script script) (seq 0 (opens t)))) = true).
  { rewrite all_from_map_nth, <- (rf_delivered _ _ _ _ F). apply pair_list_eqb_refl. }
  assert (Hq : forallb (fun b : bool => b) (map (Nat.eqb the_req) (requests t)) = true).
  { apply forallb_forall. intros b Hb. apply in_map_iff in Hb. destruct Hb as [x [E Hx]]. subst b.
    pose proof (rf_requests _ _ _ _ F) as Q. rewrite Forall_forall in Q. rewrite <- (Q x Hx). apply Nat.eqb_refl. }
  assert (Hl : Nat.eqb (length (map (Nat.eqb the_req) (requests t))) (opens t) = true).
  { rewrite map_length. unfold opens. apply Nat.eqb_refl. }
  assert (H1 : (1 <=? opens t) = true) by (apply Nat.leb_le; lia).
  assert (Hex : (S (S max) <=? opens t) = true) by (apply Nat.leb_le; exact A1).
  assert (Hfin : final_eqb fin (err_of (s_end (nth_script script (opens t - 1)))) = true).
  { rewrite <- A4. destruct fin; reflexivity. }
  destruct m; try discriminate Hm; cbn [need_retry plain p_on_hang p_backoff_after andb];
    rewrite Hd, Hq, Hl, H1, (nohang_no_hang_before _ _ Hn), Hex, A2, A3, Hfin; reflexivity.
Qed.

Example nohang_example : NoHang [mkS 2 EErr; mkS 1 EEOF; mkS 0 EErr].
Proof. intros [|[|[|[|i]]]]; discriminate. Qed.
