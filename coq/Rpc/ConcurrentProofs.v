(* Independence of concurrent watch streams behind one interceptor (C36):
   the step-wise client of one stream computes exactly the single-stream run, and in
   the interleaved system every stream's component only depends on its own steps. *)
From Coq Require Import List Bool Arith Lia.
From Verif Require Import Rpc.Retry Rpc.RetryProofs Rpc.Concurrent.
Import ListNotations.

Lemma iter_add : forall {A} a b (f : A -> A) x, iter (a + b) f x = iter b f (iter a f x).
Proof. induction a as [|a IH]; intros b f x; [reflexivity|]. cbn [Nat.add iter]. apply IH. Qed.

Lemma cstep_done : forall pl max c f, cs_ph c = PDone f -> cstep pl max c = c.
Proof. intros pl max c f H. unfold cstep. rewrite H. reflexivity. Qed.

Lemma iter_done : forall pl max n c f, cs_ph c = PDone f -> iter n (cstep pl max) c = c.
Proof.
  induction n as [|n IH]; intros c f H; [reflexivity|]. cbn [iter]. rewrite (cstep_done _ _ _ _ H). eapply IH; eauto.
Qed.

Definition phase_of (r : rr) : phase := match r with RMsg _ _ => PIdle | RErr e => PDone e end.

(* ---- the reopen loop, attempt by attempt ---- *)

Lemma retry_steps : forall pl max left s ev r s' tr,
  retry_loop pl left s = (ev, r, s') ->
  exists k, iter k (cstep pl max) (mkCst s (PRetry left) tr) = mkCst s' (phase_of r) (tr ++ ev).
Proof.
  intros pl max left. induction left as [|left IH]; intros s ev r s' tr H; rewrite retry_loop_eq in H.
  - exists 1. cbn [iter]. unfold cstep. cbn [cs_st cs_ph cs_tr].
    destruct (cancelled s); [inversion H; subst; reflexivity|].
    destruct (open_stream s) as [eo s1]. destruct (raw_recv pl s1) as [[ev1 r1] s2].
    destruct r1 as [i j|e]; [inversion H; subst; reflexivity|].
    change (timeout_b e) with (is_timeout e).
    destruct (is_timeout e); [inversion H; subst; reflexivity|].
    destruct (cancelled s2); inversion H; subst; reflexivity.
  - destruct (cancelled s) eqn:Ec.
    + exists 1. cbn [iter]. unfold cstep. cbn [cs_st cs_ph cs_tr]. rewrite Ec. inversion H; subst. reflexivity.
    + destruct (open_stream s) as [eo s1] eqn:Eo. destruct (raw_recv pl s1) as [[ev1 r1] s2] eqn:Er.
      assert (Hstep : forall X, cstep pl max (mkCst s (PRetry (S left)) tr) = X ->
                cstep pl max (mkCst s (PRetry (S left)) tr) = X) by auto.
      destruct r1 as [i j|e].
      * exists 1. cbn [iter]. unfold cstep. cbn [cs_st cs_ph cs_tr]. rewrite Ec, Eo, Er. inversion H; subst. reflexivity.
      * destruct (is_timeout e) eqn:Et.
        -- exists 1. cbn [iter]. unfold cstep. cbn [cs_st cs_ph cs_tr]. rewrite Ec, Eo, Er.
           change (timeout_b e) with (is_timeout e). rewrite Et. inversion H; subst. reflexivity.
        -- destruct (cancelled s2) eqn:Ec2.
           ++ exists 1. cbn [iter]. unfold cstep. cbn [cs_st cs_ph cs_tr]. rewrite Ec, Eo, Er.
              change (timeout_b e) with (is_timeout e). rewrite Et, Ec2. inversion H; subst. reflexivity.
           ++ destruct (opt_nat_eqb (p_backoff_after pl) (c_idx (cur s2))) eqn:Eb.
              ** exists 1. cbn [iter]. unfold cstep. cbn [cs_st cs_ph cs_tr]. rewrite Ec, Eo, Er.
                 change (timeout_b e) with (is_timeout e). rewrite Et, Ec2, Eb. inversion H; subst. reflexivity.
              ** destruct (retry_loop pl left s2) as [[ev' r'] s3] eqn:Erl.
                 inversion H; subst; clear H.
                 destruct (IH _ _ _ _ (tr ++ eo :: ev1 ++ [EvSleep]) Erl) as [k Hk].
                 exists (S k). cbn [iter].
                 assert (E1 : cstep pl max (mkCst s (PRetry (S left)) tr)
                              = mkCst s2 (PRetry left) (tr ++ eo :: ev1 ++ [EvSleep])).
                 { unfold cstep. cbn [cs_st cs_ph cs_tr]. rewrite Ec, Eo, Er.
                   change (timeout_b e) with (is_timeout e). rewrite Et, Ec2, Eb. reflexivity. }
                 rewrite E1, Hk. f_equal. rewrite <- !app_assoc. cbn [app]. rewrite <- !app_assoc. reflexivity.
Qed.

(* ---- one RecvMsg of the caller ---- *)

Lemma recv_steps : forall pl max s ev r s' tr,
  recv_msg pl max s = (ev, r, s') ->
  exists k, iter k (cstep pl max) (mkCst s PIdle tr) = mkCst s' (phase_of r) (tr ++ ev).
Proof.
  intros pl max s ev r s' tr H. rewrite recv_msg_eq in H.
  destruct (raw_recv pl s) as [[ev1 r1] s1] eqn:Er.
  destruct r1 as [i j|e].
  - exists 1. cbn [iter]. unfold cstep. cbn [cs_st cs_ph cs_tr]. rewrite Er. inversion H; subst. reflexivity.
  - destruct (final_eqb e FCtxCanceled || is_timeout e) eqn:Es.
    + exists 1. cbn [iter]. unfold cstep. cbn [cs_st cs_ph cs_tr]. rewrite Er.
      change (timeout_b e) with (is_timeout e). rewrite Es. inversion H; subst. reflexivity.
    + destruct (retry_loop pl max s1) as [[ev' r'] s2] eqn:Erl. inversion H; subst; clear H.
      destruct (retry_steps pl max max _ _ _ _ (tr ++ ev1 ++ [EvBreak e]) Erl) as [k Hk].
      exists (S k). cbn [iter].
      assert (E1 : cstep pl max (mkCst s PIdle tr) = mkCst s1 (PRetry max) (tr ++ ev1 ++ [EvBreak e])).
      { unfold cstep. cbn [cs_st cs_ph cs_tr]. rewrite Er. change (timeout_b e) with (is_timeout e). rewrite Es. reflexivity. }
      rewrite E1, Hk. f_equal. rewrite <- !app_assoc. reflexivity.
Qed.

(* ---- the caller's loop ---- *)

Lemma caller_steps : forall pl max fuel s ev fin s' tr,
  caller (recv_msg pl max) fuel s = (ev, fin, s') -> fin <> FOutOfFuel ->
  exists k, iter k (cstep pl max) (mkCst s PIdle tr) = mkCst s' (PDone fin) (tr ++ ev).
Proof.
  intros pl max. induction fuel as [|fuel IH]; intros s ev fin s' tr H Hf; cbn [caller] in H.
  - inversion H; subst. congruence.
  - destruct (recv_msg pl max s) as [[ev1 r1] s1] eqn:Er.
    destruct (recv_steps pl max _ _ _ _ tr Er) as [k1 Hk1].
    destruct r1 as [i j|e].
    + destruct (caller (recv_msg pl max) fuel s1) as [[ev' f'] s2] eqn:Ec. inversion H; subst; clear H.
      destruct (IH _ _ _ _ (tr ++ ev1) Ec Hf) as [k2 Hk2].
      exists (k1 + k2). rewrite iter_add, Hk1. cbn [phase_of]. rewrite Hk2, app_assoc. reflexivity.
    + inversion H; subst; clear H. exists k1. exact Hk1.
Qed.

(* the step-wise client of ONE stream computes exactly the single-stream run *)
Theorem single_stream_steps : forall m max script pl r t fin,
  need_retry m = true -> run_stream m max script pl r = (t, fin) ->
  exists k s', forall k', k <= k' ->
    iter k' (cstep pl max) (cinit script r) = mkCst s' (PDone fin) t.
Proof.
  intros m max script pl r t fin Hm H.
  pose proof (rf_fuel _ _ _ _ (retry_run_facts _ _ _ _ _ _ _ Hm H)) as Hf.
  destruct (split_run_stream _ _ _ _ _ _ _ H) as (ev0 & s0 & ev & s' & Hi & Hc & Ht). subst t.
  rewrite Hm in Hc.
  destruct (caller_steps pl max _ _ _ _ _ ev0 Hc Hf) as [k Hk].
  exists k, s'. intros k' Hle. unfold cinit. rewrite Hi.
  replace k' with (k + (k' - k)) by lia. rewrite iter_add, Hk.
  eapply iter_done. reflexivity.
Qed.

(* ---- the interleaved system: frame ---- *)

Lemma nth_error_update_same : forall {A} k (x : A) l, k < length l -> nth_error (update k x l) k = Some x.
Proof.
  induction k as [|k IH]; intros x l H; destruct l as [|y t]; simpl in *; try lia; [reflexivity|]. apply IH. lia.
Qed.

Lemma nth_error_update_other : forall {A} k j (x : A) l, j <> k -> nth_error (update k x l) j = nth_error l j.
Proof.
  induction k as [|k IH]; intros j x l H; destruct l as [|y t]; simpl; try reflexivity.
  - destruct j; [congruence|reflexivity].
  - destruct j; [reflexivity|]. simpl. apply IH. congruence.
Qed.

Lemma gstep_other : forall max cfgs k j g, j <> k -> nth_error (gstep max cfgs k g) j = nth_error g j.
Proof.
  intros max cfgs k j g H. unfold gstep.
  destruct (nth_error g k); [|reflexivity]. destruct (nth_error cfgs k); [|reflexivity].
  apply nth_error_update_other. exact H.
Qed.

Lemma gstep_same : forall max cfgs k g c cfg,
  nth_error g k = Some c -> nth_error cfgs k = Some cfg ->
  nth_error (gstep max cfgs k g) k = Some (cstep (g_plan cfg) max c).
Proof.
  intros max cfgs k g c cfg Hc Hcfg. unfold gstep. rewrite Hc, Hcfg.
  apply nth_error_update_same. apply nth_error_Some. congruence.
Qed.

(* whatever the schedule, component j is the result of j's own steps only *)
Theorem frame : forall max cfgs sched g j c cfg,
  nth_error g j = Some c -> nth_error cfgs j = Some cfg ->
  nth_error (grun max cfgs sched g) j =
    Some (iter (count_occ Nat.eq_dec sched j) (cstep (g_plan cfg) max) c).
Proof.
  intros max cfgs sched. induction sched as [|k sched IH]; intros g j c cfg Hc Hcfg; [exact Hc|].
  unfold grun in *. cbn [fold_left count_occ].
  destruct (Nat.eq_dec k j) as [->|Hne].
  - cbn [iter]. apply IH; [apply gstep_same; assumption|exact Hcfg].
  - apply IH; [rewrite gstep_other by congruence; exact Hc|exact Hcfg].
Qed.

(* independence: any number of concurrent watch streams behind one interceptor, any
   schedule that lets stream j run long enough: stream j ends exactly as it would alone
   (same trace: messages, streams opened, requests re-sent, sleeps; same final error) *)
Theorem independence : forall m max cfgs j cfg t fin,
  need_retry m = true ->
  nth_error cfgs j = Some cfg ->
  run_stream m max (g_script cfg) (g_plan cfg) (g_req cfg) = (t, fin) ->
  exists k s', forall sched, k <= count_occ Nat.eq_dec sched j ->
    nth_error (grun max cfgs sched (ginit cfgs)) j = Some (mkCst s' (PDone fin) t).
Proof.
  intros m max cfgs j cfg t fin Hm Hcfg H.
  destruct (single_stream_steps _ _ _ _ _ _ _ Hm H) as (k & s' & Hk).
  exists k, s'. intros sched Hle.
  assert (Hg : nth_error (ginit cfgs) j = Some (cinit (g_script cfg) (g_req cfg))).
  { unfold ginit. rewrite nth_error_map, Hcfg. reflexivity. }
  rewrite (frame _ _ _ _ _ _ _ Hg Hcfg). f_equal. apply Hk. exact Hle.
Qed.

Example independence_example :
  let cfgs := [mkCfg [mkS 1 EErr; mkS 0 EErr; mkS 0 EErr; mkS 1 EErr] (mkPlan false None) 7;
               mkCfg [mkS 1 EErr; mkS 0 EErr; mkS 0 EErr; mkS 1 EErr] (mkPlan false None) 8] in
  map cs_ph (grun 2 cfgs [0;1;0;1;1;0;0;1;0;1;1;0;0;1;1;0;0;1;0;1;1;0;0;1] (ginit cfgs)) = [PDone FBreak; PDone FBreak] /\
  map (fun c => deliveries (cs_tr c)) (grun 2 cfgs [0;1;0;1;1;0;0;1;0;1;1;0;0;1;1;0;0;1;0;1;1;0;0;1] (ginit cfgs))
    = [[(0,0); (3,0)]; [(0,0); (3,0)]].
Proof. split; vm_compute; reflexivity. Qed.
