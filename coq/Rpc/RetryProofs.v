(* Proofs about the client retry model (C36). *)
From Coq Require Import List Bool Arith Lia.
From Verif Require Import Rpc.Retry.
Import ListNotations.

(* ---- trace projections ---- *)

Lemma deliveries_app : forall a b, deliveries (a ++ b) = deliveries a ++ deliveries b.
Proof. intros. unfold deliveries. apply flat_map_app. Qed.
Lemma requests_app : forall a b, requests (a ++ b) = requests a ++ requests b.
Proof. intros. unfold requests. apply flat_map_app. Qed.
Lemma opens_app : forall a b, opens (a ++ b) = opens a + opens b.
Proof. intros. unfold opens. rewrite requests_app, app_length. reflexivity. Qed.

(* the caller cancelled somewhere in the trace *)
Definition has_cancel (t : list event) : bool :=
  existsb (fun e => match e with EvCancel => true | _ => false end) t.

(* after a cancellation nothing reaches the server *)
Fixpoint quiet (t : list event) : bool :=
  match t with
  | [] => true
  | EvCancel :: t' => Nat.eqb (opens t') 0 && quiet t'
  | _ :: t' => quiet t'
  end.

Lemma has_cancel_app : forall a b, has_cancel (a ++ b) = has_cancel a || has_cancel b.
Proof. intros. unfold has_cancel. apply existsb_app. Qed.

Lemma quiet_app : forall a b, quiet a = true -> quiet b = true ->
  (has_cancel a = true -> opens b = 0) -> quiet (a ++ b) = true.
Proof.
  induction a as [|e a IH]; intros b Ha Hb Hc; simpl; [exact Hb|].
  destruct e; simpl in *; try (apply IH; assumption).
  apply andb_true_iff in Ha. destruct Ha as [Ha1 Ha2].
  apply andb_true_iff. split.
  - apply Nat.eqb_eq in Ha1. rewrite opens_app, Ha1, (Hc eq_refl). reflexivity.
  - apply IH; [assumption|assumption|]. intros _. apply Hc. reflexivity.
Qed.

(* ---- messages still owed to the caller ---- *)

Definition pending (s : st) : list (nat * nat) :=
  map (pair (c_idx (cur s))) (seq (c_next (cur s)) (c_total (cur s) - c_next (cur s)))
  ++ all_from (nxt s) (rest s).

Definition drained (s : st) : Prop := c_total (cur s) <= c_next (cur s).

(* in these scenarios the context is only ever cancelled on a drained stream *)
Definition Inv (s : st) : Prop := cancelled s = true -> drained s.

Lemma pending_drained : forall s, drained s -> pending s = all_from (nxt s) (rest s).
Proof.
  intros s H. unfold pending, drained in *.
  replace (c_total (cur s) - c_next (cur s)) with 0 by lia. reflexivity.
Qed.

Lemma length_all_from : forall l i, length (all_from i l) = total_msgs l.
Proof.
  induction l as [|x t IH]; intros i; simpl; [reflexivity|].
  rewrite app_length, IH. unfold msgs_of. rewrite map_length, seq_length. reflexivity.
Qed.

Lemma all_from_split : forall n l i,
  all_from i l = all_from i (firstn n l) ++ all_from (i + n) (skipn n l).
Proof.
  induction n as [|n IH]; intros l i; simpl.
  - rewrite Nat.add_0_r. reflexivity.
  - destruct l as [|x t]; simpl; [reflexivity|].
    rewrite (IH t (S i)). rewrite <- app_assoc. f_equal. f_equal. f_equal. lia.
Qed.

Lemma skipn_add : forall {A} a b (l : list A), skipn (a + b) l = skipn b (skipn a l).
Proof.
  induction a as [|a IH]; intros b l; simpl; [reflexivity|].
  destruct l as [|x t]; simpl; [destruct b; reflexivity|]. apply IH.
Qed.

(* ---- frames: what a piece of the client does to the state and the trace ---- *)

Definition frame (b : nat) (s : st) (ev : list event) (s' : st) : Prop :=
  deliveries ev ++ pending s' = pending s /\
  nxt s' = nxt s + opens ev /\
  rest s' = skipn (opens ev) (rest s) /\
  sent s' = sent s /\
  Forall (eq (sent s)) (requests ev) /\
  opens ev <= b /\
  (cancelled s = true -> cancelled s' = true /\ opens ev = 0) /\
  quiet ev = true /\
  (has_cancel ev = true -> cancelled s' = true).

Lemma frame_weaken : forall b b' s ev s', b <= b' -> frame b s ev s' -> frame b' s ev s'.
Proof. unfold frame. intros. intuition lia. Qed.

Lemma frame_seq : forall b1 b2 s ev1 s1 ev2 s2,
  frame b1 s ev1 s1 -> frame b2 s1 ev2 s2 -> frame (b1 + b2) s (ev1 ++ ev2) s2.
Proof.
  unfold frame.
  intros b1 b2 s ev1 s1 ev2 s2 (P1 & N1 & R1 & S1 & Q1 & B1 & M1 & U1 & H1) (P2 & N2 & R2 & S2 & Q2 & B2 & M2 & U2 & H2).
  repeat split.
  - rewrite deliveries_app, <- app_assoc, P2, P1. reflexivity.
  - rewrite opens_app. lia.
  - rewrite opens_app, skipn_add, <- R1. exact R2.
  - congruence.
  - rewrite requests_app. apply Forall_app. split; [exact Q1|]. rewrite <- S1. exact Q2.
  - rewrite opens_app. lia.
  - destruct (M1 H) as [C1 _]. destruct (M2 C1) as [C2 _]. exact C2.
  - destruct (M1 H) as [C1 O1]. destruct (M2 C1) as [_ O2]. rewrite opens_app. lia.
  - apply quiet_app; [exact U1|exact U2|]. intros Hc. apply M2. apply H1. exact Hc.
  - rewrite has_cancel_app. intros Hc. apply orb_true_iff in Hc. destruct Hc as [Hc|Hc].
    + apply M2. apply H1. exact Hc.
    + apply H2. exact Hc.
Qed.

Lemma frame_nil : forall s, frame 0 s [] s.
Proof.
  intros s. unfold frame. simpl. repeat split; auto. discriminate.
Qed.

(* events that neither reach the server nor deliver nor cancel *)
Definition neutral (e : event) : bool :=
  match e with EvBreak _ | EvSleep | EvLocalOpenFail => true | _ => false end.

Lemma frame_neutral : forall s e, neutral e = true -> frame 0 s [e] s.
Proof.
  intros s e H. unfold frame. destruct e; simpl in H; try discriminate; simpl; repeat split; auto; discriminate.
Qed.

Definition set_cancelled (s : st) : st := mkSt (rest s) (nxt s) true (cur s) (sent s).

Lemma frame_cancel : forall s, frame 0 s [EvCancel] (set_cancelled s).
Proof. intros s. unfold frame, set_cancelled, pending. simpl. repeat split; auto. Qed.

Lemma frame_open : forall s eo s1, open_stream s = (eo, s1) -> drained s -> cancelled s = false ->
  frame 1 s [eo] s1 /\ cancelled s1 = false /\ eo = EvOpen (nxt s) (sent s).
Proof.
  intros s eo s1 H Hd Hc. unfold open_stream in H.
  destruct (pop (rest s)) as [sc t] eqn:Ep. inversion H; subst; clear H.
  split; [|split; [exact Hc|reflexivity]].
  unfold frame. cbn [deliveries requests opens flat_map app length nxt rest sent cancelled].
  rewrite (pending_drained s Hd).
  unfold pending. cbn [cur c_idx c_next c_total nxt rest].
  rewrite Nat.sub_0_r.
  assert (Hpop : all_from (nxt s) (rest s) = map (pair (nxt s)) (seq 0 (s_msgs sc)) ++ all_from (S (nxt s)) t).
  { unfold pop in Ep. destruct (rest s) as [|x l]; inversion Ep; subst; reflexivity. }
  assert (Ht : t = skipn 1 (rest s)).
  { unfold pop in Ep. destruct (rest s) as [|x l]; inversion Ep; subst; reflexivity. }
  repeat split; auto; try lia; try congruence.
  simpl. discriminate.
Qed.

(* ---- RecvMsg on the underlying stream ---- *)

Definition res_ok (ev : list event) (r : rr) (s' : st) : Prop :=
  Inv s' /\
  match r with
  | RMsg i j => deliveries ev = [(i, j)] /\ cancelled s' = false
  | RErr e => deliveries ev = [] /\ drained s' /\ e <> FOutOfFuel /\ e <> FNone
  end.

Lemma raw_recv_spec : forall pl s ev r s', raw_recv pl s = (ev, r, s') -> Inv s ->
  frame 0 s ev s' /\ res_ok ev r s' /\
  (cancelled s = true -> r = RErr FStatusCanceled) /\
  (forall e, r = RErr e -> e <> FCtxCanceled /\
      (cancelled s' = false -> e = err_of (c_end (cur s')) /\ (e = FTimeout -> p_on_hang pl = false))
      /\ (cancelled s' = true -> e = FStatusCanceled)).
Proof.
  intros pl s ev r s' H HI. unfold raw_recv in H.
  destruct (cancelled s) eqn:Ec.
  - inversion H; subst; clear H. split; [apply frame_nil|].
    split; [split; [exact HI|]; repeat split; auto; try discriminate; apply HI; exact Ec|].
    split; [reflexivity|]. intros e He. inversion He; subst.
    split; [discriminate|]. split; [congruence|reflexivity].
  - destruct (c_next (cur s) <? c_total (cur s)) eqn:El.
    + apply Nat.ltb_lt in El. inversion H; subst; clear H.
      split; [|split; [|split; [discriminate|intros e He; discriminate]]].
      * unfold frame, pending. cbn [deliveries requests opens flat_map app length nxt rest sent cancelled cur c_idx c_next c_total].
        replace (c_total (cur s) - c_next (cur s)) with (S (c_total (cur s) - S (c_next (cur s)))) by lia.
        simpl. rewrite Ec. repeat split; auto; try discriminate.
      * split; [intro Hx; simpl in Hx; congruence|]. split; [reflexivity|reflexivity].
    + apply Nat.ltb_ge in El.
      destruct (c_end (cur s)) eqn:Ee.
      * inversion H; subst; clear H. split; [apply frame_nil|].
        split; [split; [exact HI|]; repeat split; auto; discriminate|].
        split; [discriminate|]. intros e He; inversion He; subst.
        split; [discriminate|]. rewrite Ee. split; [intros _; split; [reflexivity|discriminate]|congruence].
      * inversion H; subst; clear H. split; [apply frame_nil|].
        split; [split; [exact HI|]; repeat split; auto; discriminate|].
        split; [discriminate|]. intros e He; inversion He; subst.
        split; [discriminate|]. rewrite Ee. split; [intros _; split; [reflexivity|discriminate]|congruence].
      * destruct (p_on_hang pl) eqn:Eh.
        -- inversion H; subst; clear H. split; [apply frame_cancel|].
           split; [split; [intros _; exact El|]; repeat split; auto; discriminate|].
           split; [discriminate|]. intros e He; inversion He; subst.
           split; [discriminate|]. simpl. split; [discriminate|reflexivity].
        -- inversion H; subst; clear H. split; [apply frame_nil|].
           split; [split; [exact HI|]; repeat split; auto; discriminate|].
           split; [discriminate|]. intros e He; inversion He; subst.
           split; [discriminate|]. rewrite Ee. split; [intros _; split; [reflexivity|intros _; reflexivity]|congruence].
Qed.

(* ---- the retry loop ---- *)

Definition is_timeout (e : final) : bool := final_eqb e FTimeout.

Lemma retry_loop_eq : forall pl left s,
  retry_loop pl left s =
  if cancelled s then ([EvLocalOpenFail], RErr FCtxCanceled, s)
  else
    let '(eo, s1) := open_stream s in
    let '(ev, r, s2) := raw_recv pl s1 in
    match r with
    | RMsg _ _ => (eo :: ev, r, s2)
    | RErr e =>
        if is_timeout e then (eo :: ev, r, s2)
        else if cancelled s2 then (eo :: ev, RErr FCtxCanceled, s2)
        else match left with
             | 0 => (eo :: ev, RErr e, s2)
             | S left' =>
                 if opt_nat_eqb (p_backoff_after pl) (c_idx (cur s2)) then
                   (eo :: ev ++ [EvSleep; EvCancel], RErr FCtxCanceled, set_cancelled s2)
                 else
                   let '(ev', r', s3) := retry_loop pl left' s2 in
                   (eo :: ev ++ EvSleep :: ev', r', s3)
             end
    end.
Proof.
  intros pl left s. destruct left; cbn [retry_loop];
  destruct (cancelled s); try reflexivity;
  destruct (open_stream s) as [eo s1]; destruct (raw_recv pl s1) as [[ev r] s2];
  destruct r as [i j|e]; try reflexivity; destruct e; reflexivity.
Qed.

Definition retry_post (pl : plan) (left : nat) (s : st) (ev : list event) (r : rr) (s' : st) : Prop :=
  frame (S left) s ev s' /\ res_ok ev r s' /\
  (cancelled s = true -> r = RErr FCtxCanceled) /\
  (forall e, r = RErr e ->
      (cancelled s' = true -> e = FCtxCanceled) /\
      (cancelled s' = false ->
         e = err_of (c_end (cur s')) /\ e <> FCtxCanceled /\
         (e = FTimeout -> p_on_hang pl = false) /\
         (e <> FTimeout -> opens ev = S left))).

Lemma deliveries_open_cons : forall i r t, deliveries (EvOpen i r :: t) = deliveries t.
Proof. reflexivity. Qed.

Lemma retry_loop_spec : forall pl left s ev r s',
  retry_loop pl left s = (ev, r, s') -> drained s -> Inv s -> retry_post pl left s ev r s'.
Proof.
  intros pl left. induction left as [|left IH]; intros s ev r s' H Hd HI;
  rewrite retry_loop_eq in H; unfold retry_post;
  (destruct (cancelled s) eqn:Ec;
   [ inversion H; subst; clear H;
     split; [apply (frame_weaken 0); [lia|apply frame_neutral; reflexivity]|];
     split; [split; [exact HI|repeat split; auto; discriminate]|];
     split; [reflexivity|]; intros e He; inversion He; subst; split; [reflexivity|congruence]
   | ]);
  destruct (open_stream s) as [eo s1] eqn:Eo;
  destruct (frame_open _ _ _ Eo Hd Ec) as (F1 & C1 & Heo);
  destruct (raw_recv pl s1) as [[ev1 r1] s2] eqn:Er;
  (assert (HI1 : Inv s1) by (intro Hx; congruence));
  destruct (raw_recv_spec _ _ _ _ _ Er HI1) as (F2 & R2 & _ & E2);
  pose proof (frame_seq _ _ _ _ _ _ _ F1 F2) as F12; cbn [app Nat.add] in F12;
  (assert (Hdel : deliveries (eo :: ev1) = deliveries ev1) by (rewrite Heo; reflexivity));
  (assert (Hop : opens (eo :: ev1) = 1)
     by (destruct F2 as (_ & _ & _ & _ & _ & B & _); rewrite Heo; unfold opens in *; simpl; lia)).
  (* left = 0 *)
  - destruct r1 as [i j|e].
    + inversion H; subst; clear H.
      split; [exact F12|]. split; [destruct R2 as [I2 [D2 C2]]; split; [exact I2|split; [rewrite Hdel; exact D2|exact C2]]|].
      split; [discriminate|]. intros e He; discriminate.
    + destruct (E2 e eq_refl) as (Ne & Ef & Et). destruct R2 as [I2 (D2 & Dr2 & Nf & Nn)].
      destruct (is_timeout e) eqn:Eto.
      * inversion H; subst; clear H. destruct e; try discriminate.
        split; [exact F12|]. split; [split; [exact I2|repeat split; auto; rewrite Hdel; exact D2]|].
        split; [discriminate|]. intros e He; inversion He; subst.
        split; [intro Hc; specialize (Et Hc); discriminate|].
        intro Hc. destruct (Ef Hc) as [Ee Eh]. repeat split; auto; try discriminate; try congruence.
      * destruct (cancelled s2) eqn:Ec2.
        -- inversion H; subst; clear H.
           split; [exact F12|]. split; [split; [exact I2|repeat split; auto; try discriminate; rewrite Hdel; exact D2]|].
           split; [discriminate|]. intros e' He; inversion He; subst. split; [reflexivity|congruence].
        -- inversion H; subst; clear H.
           split; [exact F12|]. split; [split; [exact I2|repeat split; auto; rewrite Hdel; exact D2]|].
           split; [discriminate|]. intros e' He; inversion He; subst. split; [congruence|].
           intros _. destruct (Ef eq_refl) as [Ee Eh]. repeat split; auto.
  (* left = S left *)
  - destruct r1 as [i j|e].
    + inversion H; subst; clear H.
      split; [apply (frame_weaken 1); [lia|exact F12]|].
      split; [destruct R2 as [I2 [D2 C2]]; split; [exact I2|split; [rewrite Hdel; exact D2|exact C2]]|].
      split; [discriminate|]. intros e He; discriminate.
    + destruct (E2 e eq_refl) as (Ne & Ef & Et). destruct R2 as [I2 (D2 & Dr2 & Nf & Nn)].
      destruct (is_timeout e) eqn:Eto.
      * inversion H; subst; clear H. destruct e; try discriminate.
        split; [apply (frame_weaken 1); [lia|exact F12]|].
        split; [split; [exact I2|repeat split; auto; rewrite Hdel; exact D2]|].
        split; [discriminate|]. intros e He; inversion He; subst.
        split; [intro Hc; specialize (Et Hc); discriminate|].
        intro Hc. destruct (Ef Hc) as [Ee Eh]. repeat split; auto; try discriminate; try congruence.
      * destruct (cancelled s2) eqn:Ec2.
        -- inversion H; subst; clear H.
           split; [apply (frame_weaken 1); [lia|exact F12]|].
           split; [split; [exact I2|repeat split; auto; try discriminate; rewrite Hdel; exact D2]|].
           split; [discriminate|]. intros e' He; inversion He; subst. split; [reflexivity|congruence].
        -- destruct (opt_nat_eqb (p_backoff_after pl) (c_idx (cur s2))) eqn:Eb.
           ++ injection H as Hev Hr Hs; subst ev r s'.
              change (eo :: ev1 ++ [EvSleep; EvCancel]) with ((eo :: ev1) ++ [EvSleep] ++ [EvCancel]).
              pose proof (frame_seq _ _ _ _ _ _ _ F12
                           (frame_seq _ _ _ _ _ _ _ (frame_neutral s2 EvSleep eq_refl) (frame_cancel s2))) as F.
              split; [apply (frame_weaken (1 + (0 + 0))); [lia|exact F]|].
              split; [split; [intros _; exact Dr2|]|].
              { rewrite deliveries_app, Hdel, D2. repeat split; auto; discriminate. }
              split; [discriminate|]. intros e' He; inversion He; subst. split; [reflexivity|].
              simpl. discriminate.
           ++ destruct (retry_loop pl left s2) as [[ev' r'] s3] eqn:Erl.
              injection H as Hev Hr Hs; subst ev r s'.
              destruct (IH _ _ _ _ Erl Dr2 I2) as (F3 & R3 & _ & E3).
              change (eo :: ev1 ++ EvSleep :: ev') with ((eo :: ev1) ++ [EvSleep] ++ ev').
              pose proof (frame_seq _ _ _ _ _ _ _ F12
                           (frame_seq _ _ _ _ _ _ _ (frame_neutral s2 EvSleep eq_refl) F3)) as F.
              split; [apply (frame_weaken (1 + (0 + S left))); [lia|exact F]|].
              split.
              { destruct R3 as [I3 R3]. split; [exact I3|].
                rewrite !deliveries_app, Hdel, D2. cbn [deliveries flat_map app]. exact R3. }
              split; [discriminate|]. intros e' He. destruct (E3 e' He) as [Ec3 En3].
              split; [exact Ec3|]. intro Hc. destruct (En3 Hc) as (A1 & A2 & A3 & A4).
              repeat split; auto. intro Hn. rewrite !opens_app, Hop, (A4 Hn). reflexivity.
Qed.

(* ---- retryStream.RecvMsg ---- *)

Lemma recv_msg_eq : forall pl max s,
  recv_msg pl max s =
  let '(ev, r, s1) := raw_recv pl s in
  match r with
  | RMsg _ _ => (ev, r, s1)
  | RErr e =>
      if final_eqb e FCtxCanceled || is_timeout e then (ev, r, s1)
      else let '(ev', r', s2) := retry_loop pl max s1 in (ev ++ EvBreak e :: ev', r', s2)
  end.
Proof.
  intros. unfold recv_msg. destruct (raw_recv pl s) as [[ev r] s1].
  destruct r as [i j|e]; [reflexivity|]. destruct e; reflexivity.
Qed.

Definition recv_post (pl : plan) (max : nat) (s : st) (ev : list event) (r : rr) (s' : st) : Prop :=
  frame (S max) s ev s' /\ res_ok ev r s' /\
  (cancelled s = true -> r = RErr FCtxCanceled) /\
  (forall e, r = RErr e ->
      (cancelled s' = true -> e = FCtxCanceled) /\
      (cancelled s' = false ->
         e = err_of (c_end (cur s')) /\ e <> FCtxCanceled /\
         (e = FTimeout -> p_on_hang pl = false) /\
         (e <> FTimeout -> opens ev = S max))).

Lemma recv_msg_spec : forall pl max s ev r s',
  recv_msg pl max s = (ev, r, s') -> Inv s -> recv_post pl max s ev r s'.
Proof.
  intros pl max s ev r s' H HI. rewrite recv_msg_eq in H.
  destruct (raw_recv pl s) as [[ev1 r1] s1] eqn:Er.
  destruct (raw_recv_spec _ _ _ _ _ Er HI) as (F1 & R1 & C1 & E1).
  unfold recv_post.
  destruct r1 as [i j|e].
  - inversion H; subst; clear H.
    split; [apply (frame_weaken 0); [lia|exact F1]|]. split; [exact R1|].
    split; [intro Hc; specialize (C1 Hc); discriminate|]. intros e He; discriminate.
  - destruct (E1 e eq_refl) as (Ne & Ef & Et). destruct R1 as [I1 (D1 & Dr1 & Nf & Nn)].
    assert (Hnc : final_eqb e FCtxCanceled = false) by (destruct e; try reflexivity; congruence).
    rewrite Hnc in H. cbn [orb] in H.
    destruct (is_timeout e) eqn:Eto.
    + inversion H; subst; clear H. destruct e; try discriminate.
      split; [apply (frame_weaken 0); [lia|exact F1]|].
      split; [split; [exact I1|repeat split; auto]|].
      split; [intro Hc; specialize (C1 Hc); discriminate|].
      intros e He; inversion He; subst.
      split; [intro Hc; specialize (Et Hc); discriminate|].
      intro Hc. destruct (Ef Hc) as [Ee Eh]. repeat split; auto; try discriminate; try congruence.
    + destruct (retry_loop pl max s1) as [[ev' r'] s2] eqn:Erl.
      injection H as Hev Hr Hs; subst ev r s'.
      destruct (retry_loop_spec _ _ _ _ _ _ Erl Dr1 I1) as (F2 & R2 & C2 & E2).
      change (ev1 ++ EvBreak e :: ev') with (ev1 ++ [EvBreak e] ++ ev').
      pose proof (frame_seq _ _ _ _ _ _ _ F1
                   (frame_seq _ _ _ _ _ _ _ (frame_neutral s1 (EvBreak e) eq_refl) F2)) as F.
      split; [exact F|].
      split.
      { destruct R2 as [I2 R2]. split; [exact I2|].
        rewrite !deliveries_app, D1. cbn [deliveries flat_map app]. exact R2. }
      split.
      { intro Hc. apply C2. destruct F1 as (_ & _ & _ & _ & _ & _ & M & _). apply M. exact Hc. }
      intros e' He. destruct (E2 e' He) as [Ec2 En2]. split; [exact Ec2|].
      intro Hc. destruct (En2 Hc) as (A1 & A2 & A3 & A4). repeat split; auto.
      intro Hn. rewrite !opens_app, (A4 Hn).
      destruct F1 as (_ & _ & _ & _ & _ & B & _). unfold opens in *. simpl. lia.
Qed.

(* ---- the caller's loop ---- *)

Definition recv_good (b0 : nat) (recv : st -> list event * rr * st) : Prop :=
  forall s ev r s', recv s = (ev, r, s') -> Inv s -> frame b0 s ev s' /\ res_ok ev r s'.

Lemma recv_msg_good : forall pl max, recv_good (S max) (recv_msg pl max).
Proof. intros pl max s ev r s' H HI. destruct (recv_msg_spec _ _ _ _ _ _ H HI) as (F & R & _). split; assumption. Qed.

Lemma raw_recv_good : forall pl, recv_good 0 (raw_recv pl).
Proof. intros pl s ev r s' H HI. destruct (raw_recv_spec _ _ _ _ _ H HI) as (F & R & _). split; assumption. Qed.

Lemma has_cancel_false_of_msg : forall b s ev s', frame b s ev s' -> cancelled s' = false -> has_cancel ev = false.
Proof.
  intros b s ev s' (_ & _ & _ & _ & _ & _ & _ & _ & H) Hc.
  destruct (has_cancel ev); [specialize (H eq_refl); congruence|reflexivity].
Qed.

Lemma caller_spec : forall b0 recv, recv_good b0 recv ->
  forall fuel s ev fin s', caller recv fuel s = (ev, fin, s') -> Inv s -> length (pending s) < fuel ->
  frame (fuel * b0) s ev s' /\ Inv s' /\ drained s' /\ fin <> FOutOfFuel /\ fin <> FNone /\
  exists sl evp evl, ev = evp ++ evl /\ recv sl = (evl, RErr fin, s') /\ Inv sl /\ has_cancel evp = false
                     /\ deliveries evl = [].
Proof.
  intros b0 recv Hg. induction fuel as [|fuel IH]; intros s ev fin s' H HI Hf; [lia|].
  cbn [caller] in H. destruct (recv s) as [[ev1 r1] s1] eqn:Er.
  destruct (Hg _ _ _ _ Er HI) as [F1 [I1 R1]].
  destruct r1 as [i j|e].
  - destruct (caller recv fuel s1) as [[ev' fin'] s2] eqn:Ec.
    injection H as Hev Hfin Hs; subst ev fin s'.
    destruct R1 as [D1 C1].
    assert (Hlen : length (pending s1) < fuel).
    { destruct F1 as (P & _). rewrite D1 in P. rewrite <- P in Hf. simpl in Hf. lia. }
    destruct (IH _ _ _ _ Ec I1 Hlen) as (F2 & I2 & Dr2 & Nf & Nn & sl & evp & evl & Hev & Hl & Isl & Hcp & Hdl).
    split; [replace (S fuel * b0) with (b0 + fuel * b0) by lia; exact (frame_seq _ _ _ _ _ _ _ F1 F2)|].
    repeat split; auto.
    exists sl, (ev1 ++ evp), evl. repeat split; auto.
    + rewrite Hev, app_assoc. reflexivity.
    + rewrite has_cancel_app, Hcp, (has_cancel_false_of_msg _ _ _ _ F1 C1). reflexivity.
  - injection H as Hev Hfin Hs; subst ev fin s'.
    destruct R1 as (D1 & Dr1 & Nf & Nn).
    split; [apply (frame_weaken b0); [lia|exact F1]|].
    repeat split; auto.
    exists s, [], ev1. repeat split; auto.
Qed.

(* ---- whole runs of a streaming call ---- *)

Lemma init_spec : forall script r ev0 s0, init script r = (ev0, s0) ->
  ev0 = [EvOpen 0 r] /\ pending s0 = all_from 0 script /\ nxt s0 = 1 /\ rest s0 = skipn 1 script /\
  sent s0 = r /\ cancelled s0 = false.
Proof.
  intros script r ev0 s0 H. unfold init in H. destruct (pop script) as [sc t] eqn:Ep.
  inversion H; subst; clear H. unfold pending. simpl. rewrite Nat.sub_0_r.
  unfold pop in Ep. destruct script as [|x l]; inversion Ep; subst; repeat split; reflexivity.
Qed.

Record run_facts (script : list sscript) (r : req) (t : list event) (fin : final) : Prop := {
  rf_delivered : deliveries t = all_from 0 (firstn (opens t) script);
  rf_requests : Forall (eq r) (requests t);
  rf_opened : 1 <= opens t;
  rf_quiet : quiet t = true;
  rf_cancel : has_cancel t = true -> fin = FCtxCanceled \/ fin = FStatusCanceled;
  rf_fuel : fin <> FOutOfFuel }.

Lemma run_stream_facts_gen : forall b0 recv script r,
  recv_good b0 recv ->
  (forall sl evl fin s', recv sl = (evl, RErr fin, s') -> Inv sl -> cancelled s' = true ->
       fin = FCtxCanceled \/ fin = FStatusCanceled) ->
  forall ev0 s0 ev fin s', init script r = (ev0, s0) ->
  caller recv (S (total_msgs script)) s0 = (ev, fin, s') ->
  run_facts script r (ev0 ++ ev) fin /\ opens (ev0 ++ ev) <= 1 + S (total_msgs script) * b0.
Proof.
  intros b0 recv script r Hg Hcan ev0 s0 ev fin s' Hi Hc.
  destruct (init_spec _ _ _ _ Hi) as (E0 & P0 & N0 & R0 & S0 & C0).
  assert (I0 : Inv s0) by (intro Hx; congruence).
  assert (Hlen : length (pending s0) < S (total_msgs script)) by (rewrite P0, length_all_from; lia).
  destruct (caller_spec _ _ Hg _ _ _ _ _ Hc I0 Hlen)
    as (F & I' & Dr & Nf & Nn & sl & evp & evl & Hev & Hl & Isl & Hcp & Hdl).
  destruct F as (P & N & R & S & Q & B & M & U & Hh).
  subst ev0.
  assert (Hop : opens ([EvOpen 0 r] ++ ev) = 1 + opens ev) by (rewrite opens_app; reflexivity).
  split; [|rewrite Hop; lia].
  constructor.
  - rewrite Hop. rewrite deliveries_app. cbn [deliveries flat_map app].
    rewrite (pending_drained _ Dr) in P. rewrite P0 in P.
    rewrite (all_from_split (1 + opens ev) script 0) in P.
    rewrite N, N0, R, R0, <- skipn_add in P. cbn [Nat.add] in P.
    apply app_inv_tail in P. exact P.
  - rewrite requests_app. apply Forall_app. split; [repeat constructor|]. rewrite <- S0. exact Q.
  - rewrite Hop. lia.
  - apply quiet_app; [reflexivity|exact U|]. discriminate.
  - rewrite has_cancel_app. cbn [has_cancel existsb orb]. intro Hx.
    apply (Hcan _ _ _ _ Hl Isl). apply Hh. exact Hx.
  - exact Nf.
Qed.

Lemma split_run_stream : forall m max script pl r t fin,
  run_stream m max script pl r = (t, fin) ->
  exists ev0 s0 ev s', init script r = (ev0, s0) /\
    caller (if need_retry m then recv_msg pl max else raw_recv pl) (S (total_msgs script)) s0 = (ev, fin, s')
    /\ t = ev0 ++ ev.
Proof.
  intros m max script pl r t fin H. unfold run_stream in H.
  destruct (init script r) as [ev0 s0] eqn:Ei.
  destruct (caller _ (S (total_msgs script)) s0) as [[ev f] s'] eqn:Ec.
  inversion H; subst. exists ev0, s0, ev, s'. repeat split; auto.
Qed.

(* watch streams (methods in RPCNeedRetry) *)
Theorem retry_run_facts : forall m max script pl r t fin,
  need_retry m = true -> run_stream m max script pl r = (t, fin) -> run_facts script r t fin.
Proof.
  intros m max script pl r t fin Hm H.
  destruct (split_run_stream _ _ _ _ _ _ _ H) as (ev0 & s0 & ev & s' & Hi & Hc & Ht). subst t.
  rewrite Hm in Hc.
  refine (proj1 (run_stream_facts_gen _ _ script r (recv_msg_good pl max) _ _ _ _ _ _ Hi Hc)).
  intros sl evl f s2 Hl Isl Hcan.
  destruct (recv_msg_spec _ _ _ _ _ _ Hl Isl) as (_ & _ & _ & E). left. apply (E f eq_refl). exact Hcan.
Qed.

(* a watch stream whose context was cancelled ends with context.Canceled *)
Theorem retry_run_cancel : forall m max script pl r t fin,
  need_retry m = true -> run_stream m max script pl r = (t, fin) ->
  has_cancel t = true -> fin = FCtxCanceled.
Proof.
  intros m max script pl r t fin Hm H Hc.
  destruct (split_run_stream _ _ _ _ _ _ _ H) as (ev0 & s0 & ev & s' & Hi & Hcl & Ht). subst t.
  rewrite Hm in Hcl.
  destruct (init_spec _ _ _ _ Hi) as (E0 & P0 & N0 & R0 & S0 & C0).
  assert (I0 : Inv s0) by (intro Hx; congruence).
  assert (Hlen : length (pending s0) < S (total_msgs script)) by (rewrite P0, length_all_from; lia).
  destruct (caller_spec _ _ (recv_msg_good pl max) _ _ _ _ _ Hcl I0 Hlen)
    as (F & I' & Dr & Nf & Nn & sl & evp & evl & Hev & Hl & Isl & Hcp & Hdl).
  destruct (recv_msg_spec _ _ _ _ _ _ Hl Isl) as (_ & _ & _ & E).
  apply (E fin eq_refl). destruct F as (_ & _ & _ & _ & _ & _ & _ & _ & Hh). apply Hh.
  subst ev0. rewrite has_cancel_app in Hc. exact Hc.
Qed.

(* other streaming calls are passed through: one stream, its messages, its error *)
Theorem passthrough_run_facts : forall m max script pl r t fin,
  need_retry m = false -> run_stream m max script pl r = (t, fin) ->
  run_facts script r t fin /\ opens t = 1.
Proof.
  intros m max script pl r t fin Hm H.
  destruct (split_run_stream _ _ _ _ _ _ _ H) as (ev0 & s0 & ev & s' & Hi & Hc & Ht). subst t.
  rewrite Hm in Hc.
  assert (Hcan : forall sl evl f s2, raw_recv pl sl = (evl, RErr f, s2) -> Inv sl -> cancelled s2 = true ->
                   f = FCtxCanceled \/ f = FStatusCanceled).
  { intros sl evl f s2 Hl Isl Hcn. destruct (raw_recv_spec _ _ _ _ _ Hl Isl) as (_ & _ & _ & E).
    right. apply (E f eq_refl). exact Hcn. }
  destruct (run_stream_facts_gen _ _ script r (raw_recv_good pl) Hcan _ _ _ _ _ Hi Hc) as [Hf Hb].
  split; [exact Hf|]. pose proof (rf_opened _ _ _ _ Hf). lia.
Qed.

(* ---- each break (one call of retryStream.RecvMsg) ---- *)

(* at most Max+1 new streams are opened, each carrying the recorded request *)
Theorem recv_msg_budget : forall pl max s ev r s', Inv s ->
  recv_msg pl max s = (ev, r, s') ->
  opens ev <= S max /\ Forall (eq (sent s)) (requests ev).
Proof.
  intros pl max s ev r s' HI H. destruct (recv_msg_spec _ _ _ _ _ _ H HI) as ((_ & _ & _ & _ & Q & B & _) & _).
  split; assumption.
Qed.

(* when the call fails although the context is alive and the stream is not
   blocked, all Max+1 attempts were made, none of them delivered anything, and
   the error returned is the one of the last attempt's stream *)
Theorem recv_msg_exhausted : forall pl max s ev e s', Inv s ->
  recv_msg pl max s = (ev, RErr e, s') -> cancelled s' = false -> e <> FTimeout ->
  opens ev = S max /\ deliveries ev = [] /\ e = err_of (c_end (cur s')) /\ (e = FBreak \/ e = FEOF).
Proof.
  intros pl max s ev e s' HI H Hc Hn.
  destruct (recv_msg_spec _ _ _ _ _ _ H HI) as (_ & (_ & D & _) & _ & E).
  destruct (E e eq_refl) as [_ En]. destruct (En Hc) as (A1 & A2 & A3 & A4).
  repeat split; auto. rewrite A1 in *. destruct (c_end (cur s')); simpl in *; auto. congruence.
Qed.

(* a call made after the caller cancelled reaches the server with nothing and
   returns context.Canceled *)
Theorem recv_msg_cancelled : forall pl max s ev r s', Inv s -> cancelled s = true ->
  recv_msg pl max s = (ev, r, s') -> opens ev = 0 /\ r = RErr FCtxCanceled.
Proof.
  intros pl max s ev r s' HI Hc H.
  destruct (recv_msg_spec _ _ _ _ _ _ H HI) as ((_ & _ & _ & _ & _ & _ & M & _) & _ & C & _).
  split; [apply M; exact Hc|apply C; exact Hc].
Qed.

(* a successful call returns exactly one message, the next one owed *)
Theorem recv_msg_delivers : forall pl max s ev i j s', Inv s ->
  recv_msg pl max s = (ev, RMsg i j, s') -> pending s = (i, j) :: pending s'.
Proof.
  intros pl max s ev i j s' HI H.
  destruct (recv_msg_spec _ _ _ _ _ _ H HI) as ((P & _) & (_ & D & _) & _).
  rewrite D in P. symmetry. exact P.
Qed.

(* ---- unary calls ---- *)

Theorem unary_facts : forall left script idx r t fin,
  unary_loop left script idx r = (t, fin) ->
  1 <= opens t /\ opens t <= S left /\ Forall (eq r) (requests t) /\
  (fin = FNone \/ (fin = FBreak /\ opens t = S left)).
Proof.
  induction left as [|left IH]; intros script idx r t fin H; cbn [unary_loop] in H;
    destruct (pop script) as [sc tl] eqn:Ep; destruct (0 <? s_msgs sc).
  - inversion H; subst. unfold opens; simpl. repeat split; auto.
  - inversion H; subst. unfold opens; simpl. repeat split; auto.
  - inversion H; subst. unfold opens; simpl. repeat split; auto; lia.
  - destruct (unary_loop left tl (S idx) r) as [ev f] eqn:Eu. inversion H; subst.
    destruct (IH _ _ _ _ _ Eu) as (A & B & C & D).
    unfold opens in *. simpl. repeat split; auto; try lia.
    destruct D as [D|[D1 D2]]; [left; exact D|right; split; [exact D1|lia]].
Qed.

(* with the budget client.dial configures (Max = 0) a unary call is invoked exactly once *)
Theorem unary_once : forall script pl r t fin, run MUnary 0 script pl r = (t, fin) -> opens t = 1.
Proof.
  intros script pl r t fin H. cbn [run] in H.
  destruct (unary_facts _ _ _ _ _ _ H) as (A & B & _). lia.
Qed.

(* with a positive budget NewUnaryRetry does re-invoke unary calls (by design) *)
Example unary_retried_with_budget :
  opens (fst (run MUnary 2 [mkS 0 EErr; mkS 1 EErr] (mkPlan false None) the_req)) = 2.
Proof. vm_compute. reflexivity. Qed.

(* concrete runs (the first two are corpus cases of the harness) *)
Example run_example_budget0 :
  run MWorkloadStatus 0 [mkS 2 EErr; mkS 1 EEOF; mkS 0 EErr] (mkPlan false None) 7 =
  ([EvOpen 0 7; EvDeliver 0 0; EvDeliver 0 1; EvBreak FBreak; EvOpen 1 7; EvDeliver 1 0;
    EvBreak FEOF; EvOpen 2 7], FBreak).
Proof. vm_compute. reflexivity. Qed.

Example run_example_cancel_in_backoff :
  run MWatchService 2 [mkS 1 EErr; mkS 0 EErr; mkS 3 EErr] (mkPlan false (Some 1)) 7 =
  ([EvOpen 0 7; EvDeliver 0 0; EvBreak FBreak; EvOpen 1 7; EvSleep; EvCancel], FCtxCanceled).
Proof. vm_compute. reflexivity. Qed.

Example run_example_cancel_on_hang :
  run MWatchService 2 [mkS 2 EHang; mkS 5 EErr] (mkPlan true None) 7 =
  ([EvOpen 0 7; EvDeliver 0 0; EvDeliver 0 1; EvCancel; EvBreak FStatusCanceled; EvLocalOpenFail], FCtxCanceled).
Proof. vm_compute. reflexivity. Qed.

Lemma retry_run_statement : forall m max script pl r t fin,
  need_retry m = true -> run_stream m max script pl r = (t, fin) ->
  deliveries t = all_from 0 (firstn (opens t) script) /\
  Forall (eq r) (requests t) /\
  1 <= opens t /\
  quiet t = true /\
  fin <> FOutOfFuel.
Proof.
  intros m max script pl r t fin Hm H. destruct (retry_run_facts _ _ _ _ _ _ _ Hm H).
  repeat split; assumption.
Qed.

Lemma passthrough_statement : forall m max script pl r t fin,
  need_retry m = false -> run_stream m max script pl r = (t, fin) ->
  opens t = 1 /\ deliveries t = all_from 0 (firstn 1 script) /\ fin <> FOutOfFuel.
Proof.
  intros m max script pl r t fin Hm H. destruct (passthrough_run_facts _ _ _ _ _ _ _ Hm H) as [F O].
  destruct F. rewrite O in *. repeat split; assumption.
Qed.

(* ---- linking the client state to the server script ---- *)

Record Link (script : list sscript) (s : st) : Prop := mkLink {
  l_rest : rest s = skipn (nxt s) script;
  l_nxt : 1 <= nxt s;
  l_idx : c_idx (cur s) = nxt s - 1;
  l_end : c_end (cur s) = s_end (nth_script script (nxt s - 1));
  l_total : c_total (cur s) = s_msgs (nth_script script (nxt s - 1)) }.

Lemma pop_skipn : forall k (l : list sscript),
  pop (skipn k l) = (nth k l (mkS 0 EErr), skipn (S k) l).
Proof.
  induction k as [|k IH]; intros l.
  - destruct l; reflexivity.
  - destruct l as [|x l]; [reflexivity|]. cbn [skipn nth]. apply IH.
Qed.

Lemma link_open : forall script s eo s1, Link script s -> open_stream s = (eo, s1) -> Link script s1.
Proof.
  intros script s eo s1 [R N I E T] H. unfold open_stream in H. rewrite R, pop_skipn in H.
  inversion H; subst; clear H. constructor; cbn [rest nxt cur c_idx c_end c_total s_msgs s_end];
    try (replace (S (nxt s) - 1) with (nxt s) by lia); unfold nth_script; try reflexivity; try lia.
Qed.

Lemma link_raw : forall script pl s ev r s', Link script s -> raw_recv pl s = (ev, r, s') -> Link script s'.
Proof.
  intros script pl s ev r s' L H. unfold raw_recv in H.
  destruct (cancelled s); [inversion H; subst; exact L|].
  destruct (c_next (cur s) <? c_total (cur s)).
  - inversion H; subst; clear H. destruct L. constructor; cbn [rest nxt cur c_idx c_end c_total]; assumption.
  - destruct (c_end (cur s)); try (inversion H; subst; exact L).
    destruct (p_on_hang pl); inversion H; subst; clear H; [|exact L].
    destruct L. constructor; cbn [rest nxt cur]; assumption.
Qed.

Lemma link_retry : forall script pl left s ev r s', Link script s -> retry_loop pl left s = (ev, r, s') -> Link script s'.
Proof.
  intros script pl left. induction left as [|left IH]; intros s ev r s' L H; rewrite retry_loop_eq in H;
    (destruct (cancelled s); [inversion H; subst; exact L|]);
    destruct (open_stream s) as [eo s1] eqn:Eo; pose proof (link_open _ _ _ _ L Eo) as L1;
    destruct (raw_recv pl s1) as [[ev1 r1] s2] eqn:Er; pose proof (link_raw _ _ _ _ _ _ L1 Er) as L2;
    (destruct r1 as [i j|e]; [inversion H; subst; exact L2|]);
    (destruct (is_timeout e); [inversion H; subst; exact L2|]);
    (destruct (cancelled s2); [inversion H; subst; exact L2|]).
  - inversion H; subst; exact L2.
  - destruct (opt_nat_eqb (p_backoff_after pl) (c_idx (cur s2))).
    + inversion H; subst; clear H. destruct L2. constructor; cbn [set_cancelled rest nxt cur]; assumption.
    + destruct (retry_loop pl left s2) as [[ev' r'] s3] eqn:Erl. inversion H; subst. eapply IH; eauto.
Qed.

Lemma link_recv_msg : forall script pl max s ev r s', Link script s -> recv_msg pl max s = (ev, r, s') -> Link script s'.
Proof.
  intros script pl max s ev r s' L H. rewrite recv_msg_eq in H.
  destruct (raw_recv pl s) as [[ev1 r1] s1] eqn:Er. pose proof (link_raw _ _ _ _ _ _ L Er) as L1.
  destruct r1 as [i j|e]; [inversion H; subst; exact L1|].
  destruct (final_eqb e FCtxCanceled || is_timeout e); [inversion H; subst; exact L1|].
  destruct (retry_loop pl max s1) as [[ev' r'] s2] eqn:Erl. inversion H; subst. eapply link_retry; eauto.
Qed.

Lemma link_caller : forall script recv,
  (forall s ev r s', Link script s -> recv s = (ev, r, s') -> Link script s') ->
  forall fuel s ev fin s', Link script s -> caller recv fuel s = (ev, fin, s') -> Link script s'.
Proof.
  intros script recv Hr. induction fuel as [|fuel IH]; intros s ev fin s' L H; cbn [caller] in H.
  - inversion H; subst; exact L.
  - destruct (recv s) as [[ev1 r1] s1] eqn:Er. pose proof (Hr _ _ _ _ L Er) as L1.
    destruct r1 as [i j|e]; [|inversion H; subst; exact L1].
    destruct (caller recv fuel s1) as [[ev' f'] s2] eqn:Ec. inversion H; subst. eapply IH; eauto.
Qed.

Lemma link_init : forall script r ev0 s0, init script r = (ev0, s0) -> Link script s0.
Proof.
  intros script r ev0 s0 H. unfold init in H. destruct (pop script) as [sc t] eqn:Ep.
  inversion H; subst; clear H.
  pose proof (pop_skipn 0 script) as P. cbn [skipn] in P. rewrite Ep in P. inversion P; subst.
  constructor; cbn [rest nxt cur c_idx c_end c_total s_msgs s_end Nat.sub]; try reflexivity; lia.
Qed.

(* exhausted budget, whole run: a watch stream that ends with anything but
   context.Canceled, and is not blocked for ever, ends with the error of the LAST
   stream that reached the server (script entry opens-1: status error or io.EOF),
   its last RecvMsg having made all Max+1 attempts without receiving anything *)
Theorem retry_run_exhausted : forall m max script pl r t fin,
  need_retry m = true -> run_stream m max script pl r = (t, fin) ->
  fin <> FCtxCanceled -> fin <> FTimeout ->
  fin = err_of (s_end (nth_script script (opens t - 1))) /\ (fin = FBreak \/ fin = FEOF) /\
  exists tp tl, t = tp ++ tl /\ opens tl = S max /\ deliveries tl = [].
Proof.
  intros m max script pl r t fin Hm H Hnc Hnt.
  destruct (split_run_stream _ _ _ _ _ _ _ H) as (ev0 & s0 & ev & s' & Hi & Hc & Ht). subst t.
  rewrite Hm in Hc.
  destruct (init_spec _ _ _ _ Hi) as (E0 & P0 & N0 & R0 & S0 & C0).
  assert (I0 : Inv s0) by (intro Hx; congruence).
  assert (Hlen : length (pending s0) < S (total_msgs script)) by (rewrite P0, length_all_from; lia).
  destruct (caller_spec _ _ (recv_msg_good pl max) _ _ _ _ _ Hc I0 Hlen)
    as (F & I' & Dr & Nf & Nn & sl & evp & evl & Hev & Hl & Isl & Hcp & Hdl).
  pose proof (link_caller script _ (link_recv_msg script pl max) _ _ _ _ _ (link_init _ _ _ _ Hi) Hc) as L.
  destruct (recv_msg_spec _ _ _ _ _ _ Hl Isl) as (_ & _ & _ & El).
  destruct (El fin eq_refl) as [Ec En].
  assert (Hcs : cancelled s' = false).
  { destruct (cancelled s') eqn:E; [exfalso; apply Hnc; apply Ec; reflexivity|reflexivity]. }
  destruct (En Hcs) as (A1 & A2 & A3 & A4).
  destruct F as (_ & N & _).
  assert (Hop : opens (ev0 ++ ev) = nxt s').
  { subst ev0. rewrite opens_app. rewrite N, N0. reflexivity. }
  destruct L as [_ _ _ Le _].
  split; [rewrite Hop, <- Le; exact A1|].
  split.
  { rewrite A1 in *. destruct (c_end (cur s')); simpl in *; auto. congruence. }
  exists (ev0 ++ evp), evl. split; [rewrite Hev, app_assoc; reflexivity|].
  split; [apply A4; exact Hnt|exact Hdl].
Qed.
