(* Several watch streams at the same time through ONE NewStreamRetry interceptor (C36).

   The interceptor closure holds only the immutable RetryOptions; each stream gets
   its own retryStream, and each broken RecvMsg builds its own back-off policy
   (backoff.WithMaxRetries(backoff.WithContext(backoff.NewExponentialBackOff(), ctx), Max)).
   So the state of the whole client is one client state per stream and nothing else.

   To speak about interleavings, one stream's client is cut into steps: a step is the
   caller's RecvMsg on the current stream, or ONE attempt of the reopen loop (open a new
   stream, re-send the request, first RecvMsg on it, then the back-off decision).
   The whole system makes steps of arbitrary streams in arbitrary order (a schedule).
   Each logical stream has its own server script.  No proofs in this file. *)
From Coq Require Import List Bool Arith.
From Verif Require Import Rpc.Retry.
Import ListNotations.

Inductive phase :=
  | PIdle                 (* between two RecvMsg calls of the caller *)
  | PRetry (left : nat)   (* inside backoff.Retry: [left] retries still granted by this call's own policy *)
  | PDone (fin : final).  (* the caller got an error and stopped *)

Record cst := mkCst { cs_st : st; cs_ph : phase; cs_tr : list event }.

Definition timeout_b (e : final) : bool := final_eqb e FTimeout.

(* one step of one stream's client *)
Definition cstep (pl : plan) (max : nat) (c : cst) : cst :=
  let s := cs_st c in
  match cs_ph c with
  | PDone _ => c
  | PIdle =>
      let '(ev, r, s1) := raw_recv pl s in
      match r with
      | RMsg _ _ => mkCst s1 PIdle (cs_tr c ++ ev)
      | RErr e =>
          if final_eqb e FCtxCanceled || timeout_b e then mkCst s1 (PDone e) (cs_tr c ++ ev)
          else mkCst s1 (PRetry max) (cs_tr c ++ ev ++ [EvBreak e])     (* a fresh policy: Max retries *)
      end
  | PRetry lft =>
      if cancelled s then mkCst s (PDone FCtxCanceled) (cs_tr c ++ [EvLocalOpenFail])
      else
        let '(eo, s1) := open_stream s in
        let '(ev, r, s2) := raw_recv pl s1 in
        match r with
        | RMsg _ _ => mkCst s2 PIdle (cs_tr c ++ eo :: ev)
        | RErr e =>
            if timeout_b e then mkCst s2 (PDone e) (cs_tr c ++ eo :: ev)
            else if cancelled s2 then mkCst s2 (PDone FCtxCanceled) (cs_tr c ++ eo :: ev)
            else match lft with
                 | 0 => mkCst s2 (PDone e) (cs_tr c ++ eo :: ev)
                 | S lft' =>
                     if opt_nat_eqb (p_backoff_after pl) (c_idx (cur s2)) then
                       mkCst (mkSt (rest s2) (nxt s2) true (cur s2) (sent s2)) (PDone FCtxCanceled)
                             (cs_tr c ++ eo :: ev ++ [EvSleep; EvCancel])
                     else mkCst s2 (PRetry lft') (cs_tr c ++ eo :: ev ++ [EvSleep])
                 end
        end
  end.

Fixpoint iter {A} (n : nat) (f : A -> A) (x : A) : A :=
  match n with 0 => x | S n' => iter n' f (f x) end.

(* one stream alone *)
Definition cinit (script : list sscript) (r : req) : cst :=
  let '(ev0, s0) := init script r in mkCst s0 PIdle ev0.

(* ---- the whole client: one component per stream, the budget Max is the only shared thing ---- *)

Record stream_cfg := mkCfg { g_script : list sscript; g_plan : plan; g_req : req }.

Fixpoint update {A} (k : nat) (x : A) (l : list A) : list A :=
  match l, k with
  | [], _ => []
  | _ :: t, 0 => x :: t
  | y :: t, S k' => y :: update k' x t
  end.

(* stream k makes its next step *)
Definition gstep (max : nat) (cfgs : list stream_cfg) (k : nat) (g : list cst) : list cst :=
  match nth_error g k, nth_error cfgs k with
  | Some c, Some cfg => update k (cstep (g_plan cfg) max c) g
  | _, _ => g
  end.

Definition grun (max : nat) (cfgs : list stream_cfg) (schedule : list nat) (g : list cst) : list cst :=
  fold_left (fun g k => gstep max cfgs k g) schedule g.

Definition ginit (cfgs : list stream_cfg) : list cst :=
  map (fun cfg => cinit (g_script cfg) (g_req cfg)) cfgs.
