(* The two defects repaired in /repo (fix: commits), shown on the model of the
   code as it was: concrete witnesses evaluated by vm_compute. *)
From Coq Require Import String Ascii.
From Coq Require Import List Bool ZArith.
From Verif Require Import Base.GoInt Base.GoFloat Base.GoSort Strategy.Model.
Import ListNotations.
Local Open Scope Z_scope.

Definition nm (s : string) := s.

(* FILL before the repair: one node with unlimited capacity that already runs one
   instance; topping it up to 3 is feasible, the old code refused. *)
Definition w_fill : list info := [mkInfo "u" fzero fzero max_int 1].
Lemma fill_old_refuted :
  feasible Fill 3 0 w_fill = true /\ fill_old w_fill 3 0 = Err EInsufficientResource.
Proof. split; vm_compute; reflexivity. Qed.
Lemma fill_fixed_witness : deploy Fill 3 0 w_fill max_int = Ok [("u"%string, 2)].
Proof. vm_compute. reflexivity. Qed.

(* DRAINED before the repair: small (capacity 1, usage 0.1) and big (capacity 3,
   usage 0.9); the old comparator put big first and small stayed empty. *)
Definition w_drained : list info :=
  [mkInfo "small" (fb 4591870180066957722) (fb 4591870180066957722) 1 0;
   mkInfo "big" (fb 4606281698874543309) (fb 4591870180066957722) 3 0].
Lemma drained_old_refuted :
  exists p, drained_old w_drained 2 4 = Ok p /\ mget p "big" = 2 /\ mget p "small" = 0.
Proof. eexists. split; [vm_compute; reflexivity|]. split; reflexivity. Qed.
Lemma drained_fixed_witness :
  exists p, deploy Drained 2 0 w_drained 4 = Ok p /\ mget p "big" = 1 /\ mget p "small" = 1.
Proof. eexists. split; [vm_compute; reflexivity|]. split; reflexivity. Qed.
