(* The theorems of Strategy/Proofs.v hold through the glue doGetDeployStrategy,
   for every iteration order of the capacity map. *)
From Coq Require Import String Ascii.
From Coq Require Import List Bool ZArith Arith Lia Permutation.
From Verif Require Import Base.GoInt Base.GoFloat Strategy.Model Strategy.Glue Strategy.ProofsBase Strategy.Proofs.
Import ListNotations.
Local Open Scope Z_scope.

Definition valid_caps (caps : list cap_entry) (status : plan) : Prop :=
  NoDup (map ce_name caps) /\ Forall (fun e => 0 <= ce_cap e) caps /\ (forall k, 0 <= mget status k).

Lemma glue_names order status : names (glue_infos order status) = map ce_name order.
Proof. unfold names, glue_infos. rewrite map_map. reflexivity. Qed.

Lemma glue_valid caps order status :
  valid_caps caps status -> Permutation caps order -> valid_infos (glue_infos order status).
Proof.
  intros (Hnd & Hc & Hs) Hp. split.
  - rewrite glue_names. eapply Permutation_NoDup; [apply Permutation_map; exact Hp|exact Hnd].
  - apply Forall_forall. intros x Hx. unfold glue_infos in Hx. apply in_map_iff in Hx.
    destruct Hx as (e & <- & He). simpl. split; [|apply Hs].
    rewrite Forall_forall in Hc. apply Hc. eapply Permutation_in; [symmetry; exact Hp|exact He].
Qed.

Lemma glue_ok_inv s need limit order status total p :
  glue s need limit order status total = Ok p -> deploy s need limit (glue_infos order status) total = Ok p.
Proof. unfold glue. destruct (deploy _ _ _ _ _); simpl; congruence. Qed.

Section G.
Variables (caps order : list cap_entry) (status : plan) (need limit total : Z).
Hypothesis Hv : valid_caps caps status.
Hypothesis Hp : Permutation caps order.
Hypothesis Hneed : 0 < need.
Hypothesis Hlimit : 0 <= limit.

Lemma glue_C01 s p : glue s need limit order status total = Ok p ->
  C01_spec s need limit (glue_infos order status) p.
Proof.
  intro H. apply glue_ok_inv in H.
  apply (C01_sound _ need limit total (glue_valid _ _ _ Hv Hp) Hneed Hlimit s p). left; exact H.
Qed.

Lemma glue_C03 s p : (s = Global -> float_ok (glue_infos order status)) ->
  glue s need limit order status total = Ok p ->
  C03_spec s need limit (glue_infos order status) p.
Proof.
  intros Hf H. apply glue_ok_inv in H.
  apply (C03_rules _ need limit total (glue_valid _ _ _ Hv Hp) Hneed Hlimit s p Hf). left; exact H.
Qed.

Lemma glue_C02 s : s <> Other -> need <= max_int -> total = satsum (map ce_cap order) ->
  (feasible s need limit (glue_infos order status) = true ->
     (exists p, glue s need limit order status total = Ok p) \/
     glue s need limit order status total = AlreadyFilled []) /\
  (feasible s need limit (glue_infos order status) = false ->
     glue s need limit order status total = Err EInsufficientResource \/
     glue s need limit order status total = Err EInsufficientCapacity).
Proof.
  intros Hs Hmax Ht.
  assert (Ht' : total = satsum (map cap (glue_infos order status))).
  { rewrite Ht. unfold glue_infos. rewrite map_map. reflexivity. }
  destruct (C02_complete _ need limit total (glue_valid _ _ _ Hv Hp) Hneed Hlimit s Hs Hmax Ht') as [I1 I2].
  unfold glue. split.
  - intro Hf. destruct (I1 Hf) as (p & [E|E]); rewrite E; simpl; [left; eauto|right; reflexivity].
  - intro Hf. destruct (I2 Hf) as [E|E]; rewrite E; simpl; auto.
Qed.
End G.
