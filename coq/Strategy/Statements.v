(* Readable per-strategy corollaries of Strategy/Proofs.v and non-vacuity
   examples (the hypotheses of the theorems are satisfiable and every strategy
   does produce a plan on a concrete table). *)
From Coq Require Import String Ascii.
From Coq Require Import List Bool ZArith Lia Permutation Sorted.
From Verif Require Import Base.GoInt Base.GoFloat Base.GoSort Base.GoSortSpec
  Strategy.Model Strategy.ProofsBase Strategy.ProofsSort Strategy.Proofs.
Import ListNotations.
Local Open Scope Z_scope.

Section Rules.
Variables (infos : list info) (need limit total : Z) (p : plan).
Hypothesis Hvalid : valid_infos infos.
Hypothesis Hneed : 0 < need.
Hypothesis Hlimit : 0 <= limit.

Lemma C03_auto_stmt : deploy Auto need limit infos total = Ok p ->
  forall a b, In a infos -> In b infos ->
  1 <= mget p (name a) -> 1 <= cap b - mget p (name b) -> (limit = 0 \/ fin p b < limit) ->
  fin p a <= fin p b + 1.
Proof.
  intros H a b Ha Hb.
  exact (C03_rules infos need limit total Hvalid Hneed Hlimit Auto p ltac:(discriminate) (or_introl H) a b Ha Hb).
Qed.

Lemma C03_global_stmt : float_ok infos -> deploy Global need limit infos total = Ok p ->
  forall a b, In a infos -> In b infos ->
  1 <= mget p (name a) -> 1 <= cap b - mget p (name b) ->
  fle (usage_fin p a) (fadd (usage_fin p b) (rate b)) = true.
Proof.
  intros Hf H a b Ha Hb.
  exact (C03_rules infos need limit total Hvalid Hneed Hlimit Global p (fun _ => Hf) (or_introl H) a b Ha Hb).
Qed.

Lemma C03_drained_stmt : deploy Drained need limit infos total = Ok p ->
  forall a b, In a infos -> In b infos ->
  cap a < cap b -> 1 <= mget p (name b) -> mget p (name a) = cap a.
Proof.
  intros H a b Ha Hb.
  exact (C03_rules infos need limit total Hvalid Hneed Hlimit Drained p ltac:(discriminate) (or_introl H) a b Ha Hb).
Qed.

Lemma C03_each_stmt : deploy Each need limit infos total = Ok p ->
  forall a b, In a infos -> In b infos ->
  mhas p (name a) = true -> mhas p (name b) = false -> cap b <= cap a.
Proof.
  intros H a b Ha Hb.
  exact (C03_rules infos need limit total Hvalid Hneed Hlimit Each p ltac:(discriminate) (or_introl H) a b Ha Hb).
Qed.

Lemma C03_fill_stmt : is_plan (deploy Fill need limit infos total) p ->
  forall a b, In a infos -> In b infos ->
  mhas p (name a) = true -> mhas p (name b) = false -> need <= cnt b + cap b ->
  cnt b < cnt a \/ (cnt b = cnt a /\ cap b <= cap a).
Proof.
  intros H a b Ha Hb.
  exact (C03_rules infos need limit total Hvalid Hneed Hlimit Fill p ltac:(discriminate) H a b Ha Hb).
Qed.
End Rules.

(* ---- non-vacuity ---- *)
Definition ex_infos : list info :=
  [mkInfo "a" (fb 4598175219545276416) (fb 4593671619917905920) 4 1;   (* usage 0.25 rate 0.125 *)
   mkInfo "b" (fb 4602678819172646912) (fb 4598175219545276416) 2 0;   (* usage 0.5  rate 0.25 *)
   mkInfo "c" (fb 4593671619917905920) (fb 4602678819172646912) max_int 3]. (* unlimited capacity *)

Lemma ex_valid : valid_infos ex_infos.
Proof.
  split.
  - apply nodupb_spec. reflexivity.
  - repeat constructor; simpl; unfold max_int; lia.
Qed.

Lemma ex_float_ok : float_ok ex_infos.
Proof.
  intros x Hx. simpl in Hx. destruct Hx as [<-|[<-|[<-|[]]]]; (split; [|split]); vm_compute; reflexivity.
Qed.

Lemma ex_all_strategies_plan :
  (exists p, deploy Auto 4 3 ex_infos max_int = Ok p) /\
  (exists p, deploy Global 5 0 ex_infos max_int = Ok p) /\
  (exists p, deploy Drained 5 0 ex_infos max_int = Ok p) /\
  (exists p, deploy Each 2 2 ex_infos max_int = Ok p) /\
  (exists p, deploy Fill 4 2 ex_infos max_int = Ok p) /\
  feasible Auto 4 3 ex_infos = true /\ feasible Fill 4 2 ex_infos = true /\
  feasible Each 2 0 ex_infos = true /\ feasible Auto 5 3 ex_infos = false.
Proof.
  repeat split;
  try (match goal with |- exists p, ?d = Ok p =>
         let r := eval vm_compute in d in
         match r with Ok ?q => exists q; vm_compute; reflexivity end end);
  vm_compute; reflexivity.
Qed.
