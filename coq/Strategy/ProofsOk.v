(* The boolean reflections C01_ok / C02_ok / C03_ok that the correspondence
   check evaluates on the implementation's output:
     - they decide the Prop-level specifications (reflection lemmas), and
     - the model's own output always satisfies them (soundness link), so an
       implementation output that agrees with the model satisfies them too. *)
From Coq Require Import String Ascii.
From Coq Require Import List Bool ZArith Arith Lia Permutation ZifyBool.
From Verif Require Import Base.GoInt Base.GoFloat Base.GoFloatLemmas
  Strategy.Model Strategy.ProofsBase Strategy.Proofs.
Import ListNotations.
Local Open Scope Z_scope.

Lemma all_pairs_spec (f : info -> info -> bool) l :
  all_pairs f l = true <-> (forall a b, In a l -> In b l -> f a b = true).
Proof.
  unfold all_pairs. rewrite forallb_forall. split.
  - intros H a b Ha Hb. specialize (H a Ha). rewrite forallb_forall in H. apply H. exact Hb.
  - intros H a Ha. apply forallb_forall. intros b Hb. apply H; assumption.
Qed.

Lemma C03_pair_spec s need limit p a b :
  C03_pair s need limit p a b = true <->
  match s with
  | Auto => 1 <= mget p (name a) -> 1 <= cap b - mget p (name b) -> (limit = 0 \/ fin p b < limit) ->
            fin p a <= fin p b + 1
  | Global => 1 <= mget p (name a) -> 1 <= cap b - mget p (name b) ->
              fle (usage_fin p a) (fadd (usage_fin p b) (rate b)) = true
  | Drained => cap a < cap b -> 1 <= mget p (name b) -> mget p (name a) = cap a
  | Each => mhas p (name a) = true -> mhas p (name b) = false -> cap b <= cap a
  | Fill => mhas p (name a) = true -> mhas p (name b) = false -> need <= cnt b + cap b ->
            cnt b < cnt a \/ (cnt b = cnt a /\ cap b <= cap a)
  | Other => True
  end.
Proof.
  unfold C03_pair, fin. destruct s.
  - lia.
  - destruct (mhas p (name a)), (mhas p (name b)); simpl; split; intro H; try discriminate; try lia;
      try (intros; discriminate); try reflexivity.
  - destruct (mhas p (name a)), (mhas p (name b)); simpl; split; intro H; try discriminate; try lia;
      try (intros; discriminate); try reflexivity.
  - destruct (fle (usage_fin p a) (fadd (usage_fin p b) (rate b))) eqn:E.
    + rewrite orb_true_r. split; auto.
    + rewrite orb_false_r.
      destruct (Z.leb_spec 1 (mget p (name a))), (Z.leb_spec 1 (cap b - mget p (name b))); simpl;
        split; intro HH; try reflexivity; try discriminate; try lia.
  - lia.
  - tauto.
Qed.

Lemma C03_reflect s need limit infos p :
  all_pairs (C03_pair s need limit p) infos = true <-> C03_spec s need limit infos p.
Proof.
  rewrite all_pairs_spec. unfold C03_spec. split.
  - intros H a b Ha Hb. specialize (H a b Ha Hb). apply C03_pair_spec in H. destruct s; exact H.
  - intros H a b Ha Hb. apply C03_pair_spec. specialize (H a b Ha Hb). destruct s; exact H.
Qed.

(* ---- the validated domain ---- *)
Lemma valid_case_spec c : valid_case c = true ->
  valid_infos (c_infos c) /\ 0 < c_need c <= max_int /\ 0 <= c_limit c /\ c_strat c <> Other /\
  (forall x, In x (c_infos c) -> f_finite (usage x) = true /\ f_finite (rate x) = true).
Proof.
  unfold valid_case. rewrite !andb_true_iff. intros (((((((H1 & H2) & H3) & H4) & H5) & H6) & H7) & _).
  apply nodupb_spec in H1. rewrite forallb_forall in H2.
  split; [split; [exact H1|]|].
  - apply Forall_forall. intros x Hx. specialize (H2 x Hx). unfold valid_info in H2.
    rewrite !andb_true_iff in H2. lia.
  - split; [lia|]. split; [lia|]. split.
    + intro E. rewrite E in H7. discriminate.
    + intros x Hx. specialize (H2 x Hx). unfold valid_info in H2. rewrite !andb_true_iff in H2. tauto.
Qed.

Section Links.
Variables (s : strategy) (need limit : Z) (infos : list info) (total : Z) (ord : list string).
Let c := mkCase s need limit infos total (deploy s need limit infos total) ord.

(* the model's output passes the C01 check *)
Lemma C01_ok_model : C01_ok c = true.
Proof.
  unfold C01_ok. destruct (valid_case c) eqn:Ev; [|reflexivity]. simpl.
  destruct (valid_case_spec c Ev) as (Hv & Hn & Hl & Hs & _). simpl in *.
  destruct (deploy_total_outcome infos need limit total Hv ltac:(lia) Hl s Hs) as [(p & [Hp|Hp])|[He|He]].
  - rewrite Hp. apply C01_reflect. apply (C01_sound infos need limit total Hv ltac:(lia) Hl s p). left; exact Hp.
  - rewrite Hp. destruct (already_filled_fill infos need limit total Hv ltac:(lia) Hl s p Hp) as [-> Hz].
    simpl. rewrite andb_true_iff. split; [|lia].
    apply C01_reflect. apply (C01_sound infos need limit total Hv ltac:(lia) Hl Fill p). right; exact Hp.
  - rewrite He. reflexivity.
  - rewrite He. reflexivity.
Qed.

Lemma C02_ok_model : C02_ok c = true.
Proof.
  unfold C02_ok. destruct (valid_case c && (c_total c =? satsum (map cap (c_infos c)))) eqn:Ev; [|reflexivity].
  simpl. apply andb_true_iff in Ev. destruct Ev as [Ev Et].
  destruct (valid_case_spec c Ev) as (Hv & Hn & Hl & Hs & _). simpl in *.
  destruct (C02_complete infos need limit total Hv ltac:(lia) Hl s Hs ltac:(lia) ltac:(lia)) as [I1 I2].
  destruct (feasible s need limit infos) eqn:Ef.
  - destruct (I1 eq_refl) as (p & [Hp|Hp]); rewrite Hp; reflexivity.
  - destruct (I2 eq_refl) as [He|He]; rewrite He; reflexivity.
Qed.

Lemma C03_ok_model : C03_ok c = true.
Proof.
  unfold C03_ok. destruct (valid_case c) eqn:Ev; [|reflexivity]. simpl.
  destruct (valid_case_spec c Ev) as (Hv & Hn & Hl & Hs & Hfin). simpl in *.
  destruct (strategy_eqb s Global && negb (nonneg_rates infos)) eqn:Eg; [reflexivity|].
  assert (Hfl : s = Global -> float_ok infos).
  { intros ->. simpl in Eg. apply negb_false_iff in Eg. unfold nonneg_rates in Eg.
    rewrite forallb_forall in Eg. intros x Hx. destruct (Hfin x Hx). repeat split; auto. }
  destruct (deploy_total_outcome infos need limit total Hv ltac:(lia) Hl s Hs) as [(p & [Hp|Hp])|[He|He]].
  - rewrite Hp. apply C03_reflect. apply (C03_rules infos need limit total Hv ltac:(lia) Hl s p Hfl). left; exact Hp.
  - rewrite Hp. apply C03_reflect. apply (C03_rules infos need limit total Hv ltac:(lia) Hl s p Hfl). right; exact Hp.
  - rewrite He. reflexivity.
  - rewrite He. reflexivity.
Qed.
End Links.

(* ---- what a passing check means for an implementation output ---- *)
Lemma C01_ok_meaning c p : valid_case c = true -> (o_res c = Ok p \/ o_res c = AlreadyFilled p) ->
  C01_ok c = true -> C01_spec (c_strat c) (c_need c) (c_limit c) (c_infos c) p.
Proof.
  intros Hv Hp H. unfold C01_ok in H. rewrite Hv in H. simpl in H.
  destruct Hp as [Hp|Hp]; rewrite Hp in H.
  - apply C01_reflect. exact H.
  - rewrite !andb_true_iff in H. apply C01_reflect. tauto.
Qed.

Lemma C03_ok_meaning c p : valid_case c = true -> (o_res c = Ok p \/ o_res c = AlreadyFilled p) ->
  (c_strat c = Global -> nonneg_rates (c_infos c) = true) ->
  C03_ok c = true -> C03_spec (c_strat c) (c_need c) (c_limit c) (c_infos c) p.
Proof.
  intros Hv Hp Hg H. unfold C03_ok in H. rewrite Hv in H. simpl in H.
  destruct (strategy_eqb (c_strat c) Global && negb (nonneg_rates (c_infos c))) eqn:Eg.
  - exfalso. apply andb_true_iff in Eg. destruct Eg as [E1 E2].
    assert (c_strat c = Global) by (destruct (c_strat c); try discriminate; reflexivity).
    rewrite (Hg H0) in E2. discriminate.
  - destruct Hp as [Hp|Hp]; rewrite Hp in H; apply C03_reflect; exact H.
Qed.

Lemma C02_ok_meaning c : valid_case c = true -> c_total c = satsum (map cap (c_infos c)) ->
  C02_ok c = true ->
  (feasible (c_strat c) (c_need c) (c_limit c) (c_infos c) = true ->
     exists p, o_res c = Ok p \/ o_res c = AlreadyFilled p) /\
  (feasible (c_strat c) (c_need c) (c_limit c) (c_infos c) = false ->
     o_res c = Err EInsufficientResource \/ o_res c = Err EInsufficientCapacity).
Proof.
  intros Hv Ht H. unfold C02_ok in H. rewrite Hv in H. rewrite Ht in H. rewrite Z.eqb_refl in H. simpl in H.
  destruct (o_res c) as [p|p|e| |]; try discriminate.
  - split; [intros _; exists p; left; reflexivity|]. intro Hf. rewrite Hf in H. discriminate.
  - split; [intros _; exists p; right; reflexivity|]. intro Hf. rewrite Hf in H. discriminate.
  - destruct e; try discriminate; (split; [intro Hf; rewrite Hf in H; discriminate|intros _; auto]).
Qed.
