(* AUTO (CommunismPlan): loop invariant over the exact heap model. *)
From Coq Require Import String Ascii.
From Coq Require Import List Bool ZArith Arith Lia Permutation.
From Verif Require Import Base.GoInt Base.GoFloat Base.GoHeap Base.GoHeapSpec Strategy.Model Strategy.ProofsBase.
Import ListNotations.
Local Open Scope Z_scope.

(* ---- the heap order of infoHeap.Less ---- *)
Notation ale := (hle info auto_less).

Lemma auto_le_spec a b :
  ale a b = true <-> (cnt a < cnt b \/ (cnt a = cnt b /\ cap b <= cap a)).
Proof.
  unfold hle, auto_less.
  destruct (Z.ltb_spec (cnt b) (cnt a)), (Z.eqb_spec (cnt b) (cnt a)), (Z.gtb_spec (cap b) (cap a));
    simpl; split; intro HH; try lia; try discriminate; try reflexivity.
Qed.

Lemma auto_le_refl a : ale a a = true.
Proof. apply auto_le_spec. lia. Qed.
Lemma auto_le_trans a b c : ale a b = true -> ale b c = true -> ale a c = true.
Proof. rewrite !auto_le_spec. lia. Qed.
Lemma auto_le_total a b : ale a b = true \/ ale b a = true.
Proof. rewrite !auto_le_spec. lia. Qed.

Notation ainv := (heap_inv info dinfo auto_less).

(* ---- ghost state: the candidate with [d] instances placed on it ---- *)
Definition cur (dep : plan) (x : info) : info :=
  mkInfo (name x) (usage x) (rate x) (cap x - mget dep (name x)) (cnt x + mget dep (name x)).

Lemma cur_nil x : cur [] x = x.
Proof. destruct x. unfold cur. simpl. f_equal; lia. Qed.

Lemma map_cur_nil l : map (cur []) l = l.
Proof. induction l as [|x t IH]; simpl; [reflexivity|]. rewrite cur_nil, IH. reflexivity. Qed.

Lemma name_cur dep x : name (cur dep x) = name x.
Proof. reflexivity. Qed.

Lemma cur_madd_same dep x : cur (madd dep (name x) 1) x = bump (cur dep x).
Proof. unfold cur, bump. simpl. rewrite mget_madd_same. f_equal; lia. Qed.

Lemma cur_madd_other dep x y : name x <> name y -> cur (madd dep (name x) 1) y = cur dep y.
Proof. intro H. unfold cur. rewrite mget_madd_other by exact H. reflexivity. Qed.

Lemma map_cur_madd_other dep x l :
  ~ In (name x) (names l) -> map (cur (madd dep (name x) 1)) l = map (cur dep) l.
Proof.
  induction l as [|y t IH]; simpl; intro H; [reflexivity|].
  rewrite cur_madd_other by (intro E; apply H; left; symmetry; exact E).
  rewrite IH by (intro Hi; apply H; right; exact Hi). reflexivity.
Qed.

Section Auto.
Variables (infos : list info) (limit : Z).
Hypothesis Hvalid : valid_infos infos.
Hypothesis Hlimit : 0 <= limit.

Definition rm (x : info) : Z := room limit x.

Lemma rm_nonneg x : In x infos -> 0 <= rm x.
Proof.
  intro Hx. destruct Hvalid as [_ Hv]. rewrite Forall_forall in Hv. specialize (Hv x Hx).
  unfold rm, room. destruct (limit >? 0); lia.
Qed.

Lemma rm_le_cap x : rm x <= cap x.
Proof. unfold rm, room. destruct (limit >? 0); lia. Qed.

Lemma keep_iff_room dep x : 0 <= mget dep (name x) <= rm x ->
  (auto_keep limit (cur dep x) = true <-> mget dep (name x) < rm x).
Proof.
  intro Hd. unfold auto_keep, cur, rm, room in *. simpl in *.
  destruct (Z.eqb_spec (cap x - mget dep (name x)) 0), (Z.gtb_spec limit 0),
           (Z.geb_spec (cnt x + mget dep (name x)) limit);
    simpl; split; intro HH; try lia; try discriminate; try reflexivity.
Qed.

(* invariant on the deployment map *)
Definition dep_inv (dep : plan) : Prop :=
  NoDup (map fst dep) /\
  (forall k, mhas dep k = true -> In k (names infos)) /\
  (forall x, In x infos -> 0 <= mget dep (name x) <= rm x) /\
  (forall a b, In a infos -> In b infos -> 1 <= mget dep (name a) ->
     auto_keep limit (cur dep b) = true ->
     cnt a + mget dep (name a) <= cnt b + mget dep (name b) + 1).

Definition heap_rel (h : list info) (dep : plan) : Prop :=
  Permutation h (filter (auto_keep limit) (map (cur dep) infos)) /\ ainv h.

(* remaining room *)
Definition rem (dep : plan) : Z := sumZ (map (fun x => rm x - mget dep (name x)) infos).

Lemma sum_split_madd dep x i1 i2 : infos = i1 ++ x :: i2 -> NoDup (names infos) ->
  rem (madd dep (name x) 1) = rem dep - 1.
Proof.
  intros E Hnd. unfold rem. rewrite E in *. rewrite !map_app, !sumZ_app. simpl.
  assert (H1 : ~ In (name x) (names i1) /\ ~ In (name x) (names i2)).
  { unfold names in *. rewrite map_app in Hnd. simpl in Hnd. split; intro Hin.
    - apply NoDup_remove_2 in Hnd. apply Hnd. apply in_or_app. left; exact Hin.
    - apply NoDup_remove_2 in Hnd. apply Hnd. apply in_or_app. right; exact Hin. }
  destruct H1 as [Hn1 Hn2].
  assert (Hsame : forall l, ~ In (name x) (names l) ->
     map (fun y => rm y - mget (madd dep (name x) 1) (name y)) l = map (fun y => rm y - mget dep (name y)) l).
  { induction l as [|y t IH]; simpl; intro H; [reflexivity|].
    rewrite mget_madd_other by (intro E'; apply H; left; symmetry; exact E').
    rewrite IH by (intro Hi; apply H; right; exact Hi). reflexivity. }
  rewrite (Hsame i1 Hn1), (Hsame i2 Hn2). rewrite mget_madd_same.
  unfold sumZ. simpl. fold (sumZ (map (fun y => rm y - mget dep (name y)) i2)). lia.
Qed.

Lemma rem_zero_when_none_eligible dep : dep_inv dep ->
  filter (auto_keep limit) (map (cur dep) infos) = [] -> rem dep = 0.
Proof.
  intros (_ & _ & D1 & _) Hf. unfold rem.
  assert (forall x, In x infos -> rm x - mget dep (name x) = 0).
  { intros x Hx. specialize (D1 x Hx).
    destruct (auto_keep limit (cur dep x)) eqn:Ek.
    - exfalso. assert (In (cur dep x) (filter (auto_keep limit) (map (cur dep) infos))).
      { apply filter_In. split; [apply in_map; exact Hx|exact Ek]. }
      rewrite Hf in H. destruct H.
    - assert (~ mget dep (name x) < rm x) by (rewrite <- keep_iff_room by exact D1; congruence). lia. }
  clear -H. induction infos as [|y t IH]; [reflexivity|].
  simpl. unfold sumZ in *. simpl. rewrite H by (left; reflexivity).
  rewrite IH; [reflexivity|]. intros x Hx. apply H. right; exact Hx.
Qed.

Lemma rem_pos_when_eligible dep x : dep_inv dep -> In x infos ->
  auto_keep limit (cur dep x) = true -> 1 <= rem dep.
Proof.
  intros (_ & _ & D1 & _) Hx Hk. unfold rem.
  assert (Hall : forall y, In y infos -> 0 <= rm y - mget dep (name y)) by (intros y Hy; specialize (D1 y Hy); lia).
  assert (Hxp : 1 <= rm x - mget dep (name x)).
  { apply keep_iff_room in Hk; [|apply D1; exact Hx]. lia. }
  clear -Hall Hx Hxp. induction infos as [|y t IH]; [destruct Hx|].
  simpl. unfold sumZ in *. simpl.
  assert (0 <= fold_right Z.add 0 (map (fun x0 => rm x0 - mget dep (name x0)) t)).
  { clear -Hall. induction t as [|z t' IH']; simpl; [lia|].
    assert (0 <= rm z - mget dep (name z)) by (apply Hall; right; left; reflexivity).
    assert (0 <= fold_right Z.add 0 (map (fun x0 => rm x0 - mget dep (name x0)) t')).
    { apply IH'. intros y0 Hy0. apply Hall. destruct Hy0 as [->|Hy0]; [left; reflexivity|right; right; exact Hy0]. }
    lia. }
  destruct Hx as [->|Hx].
  - lia.
  - assert (0 <= rm y - mget dep (name y)) by (apply Hall; left; reflexivity).
    assert (1 <= fold_right Z.add 0 (map (fun x0 => rm x0 - mget dep (name x0)) t)).
    { apply IH; auto. intros z Hz. apply Hall. right; exact Hz. }
    lia.
Qed.

(* one placement preserves the map invariant *)
Lemma dep_inv_step h dep x :
  dep_inv dep -> heap_rel h dep ->
  In x infos -> auto_keep limit (cur dep x) = true ->
  (forall y, In y h -> ale (cur dep x) y = true) ->
  dep_inv (madd dep (name x) 1).
Proof.
  intros (D0 & D2 & D1 & D4) [Hperm _] Hx Hk Hmin.
  destruct Hvalid as [Hnd Hv].
  assert (Hroomx : mget dep (name x) < rm x) by (apply keep_iff_room; auto).
  split; [apply nodup_keys_mset; exact D0|]. split; [|split].
  - intros k Hkk. rewrite mhas_madd in Hkk. apply orb_true_iff in Hkk. destruct Hkk as [E|Hkk].
    + apply seqb_eq in E. subst k. apply in_names. exact Hx.
    + apply D2. exact Hkk.
  - intros y Hy. destruct (string_dec (name x) (name y)) as [E|E].
    + assert (x = y) by (apply (nodup_names_inj infos); auto). subst y.
      rewrite mget_madd_same. specialize (D1 x Hx). lia.
    + rewrite mget_madd_other by exact E. apply D1. exact Hy.
  - intros a b Ha Hb Hda Hkb.
    (* eligibility of b now implies eligibility before *)
    assert (Hkb0 : auto_keep limit (cur dep b) = true).
    { destruct (string_dec (name x) (name b)) as [E|E].
      - assert (x = b) by (apply (nodup_names_inj infos); auto). subst b. exact Hk.
      - rewrite cur_madd_other in Hkb by exact E. exact Hkb. }
    destruct (string_dec (name x) (name a)) as [Ea|Ea];
      destruct (string_dec (name x) (name b)) as [Eb|Eb].
    + assert (x = a) by (apply (nodup_names_inj infos); auto).
      assert (x = b) by (apply (nodup_names_inj infos); auto). subst a b. lia.
    + assert (x = a) by (apply (nodup_names_inj infos); auto). subst a.
      rewrite mget_madd_same. rewrite mget_madd_other by exact Eb.
      assert (Hin : In (cur dep b) h).
      { eapply Permutation_in; [symmetry; exact Hperm|].
        apply filter_In. split; [apply in_map; exact Hb|exact Hkb0]. }
      specialize (Hmin _ Hin). apply auto_le_spec in Hmin. unfold cur in Hmin. simpl in Hmin. lia.
    + assert (x = b) by (apply (nodup_names_inj infos); auto). subst b.
      rewrite mget_madd_same. rewrite mget_madd_other in * by exact Ea.
      specialize (D4 a x Ha Hx Hda Hk). lia.
    + rewrite !mget_madd_other in * by assumption.
      apply D4; auto.
Qed.

(* the heap after re-pushing (or dropping) the bumped element *)
Lemma heap_rel_step h dep x h' :
  dep_inv dep -> heap_rel h dep ->
  In x infos -> auto_keep limit (cur dep x) = true ->
  Permutation h (cur dep x :: h') -> ainv h' ->
  let x' := bump (cur dep x) in
  let h'' := if auto_keep limit x' then push dinfo auto_less h' x'
             else up dinfo auto_less (length h') h' (length h' - 1)%nat in
  heap_rel h'' (madd dep (name x) 1).
Proof.
  intros Hdi [Hperm Hinv] Hx Hk Hpop Hinv'. cbv zeta.
  destruct Hvalid as [Hnd Hv].
  destruct (in_split x infos Hx) as (i1 & i2 & E).
  assert (Hn : ~ In (name x) (names i1) /\ ~ In (name x) (names i2)).
  { rewrite E in Hnd. unfold names in *. rewrite map_app in Hnd. simpl in Hnd. split; intro Hin.
    - apply NoDup_remove_2 in Hnd. apply Hnd. apply in_or_app. left; exact Hin.
    - apply NoDup_remove_2 in Hnd. apply Hnd. apply in_or_app. right; exact Hin. }
  destruct Hn as [Hn1 Hn2].
  set (A := filter (auto_keep limit) (map (cur dep) i1)).
  set (B := filter (auto_keep limit) (map (cur dep) i2)).
  assert (Hold : filter (auto_keep limit) (map (cur dep) infos) = A ++ cur dep x :: B).
  { rewrite E, map_app, filter_app. simpl. rewrite Hk. reflexivity. }
  assert (Hh' : Permutation h' (A ++ B)).
  { apply Permutation_cons_inv with (a := cur dep x).
    eapply perm_trans; [symmetry; exact Hpop|].
    eapply perm_trans; [exact Hperm|]. rewrite Hold. symmetry. apply Permutation_middle. }
  assert (Hnew : filter (auto_keep limit) (map (cur (madd dep (name x) 1)) infos)
                 = A ++ (if auto_keep limit (bump (cur dep x)) then [bump (cur dep x)] else []) ++ B).
  { rewrite E, map_app, filter_app. simpl.
    rewrite (map_cur_madd_other dep x i1 Hn1), (map_cur_madd_other dep x i2 Hn2), cur_madd_same.
    fold A. fold B. destruct (auto_keep limit (bump (cur dep x))); reflexivity. }
  unfold heap_rel. rewrite Hnew.
  destruct (auto_keep limit (bump (cur dep x))) eqn:Ek.
  - split.
    + eapply perm_trans; [apply push_perm|]. simpl.
      eapply perm_trans; [apply perm_skip; exact Hh'|]. apply Permutation_middle.
    + apply (push_inv_all info dinfo auto_less auto_le_refl auto_le_trans auto_le_total). exact Hinv'.
  - assert (Hsame : up dinfo auto_less (length h') h' (length h' - 1)%nat = h').
    { destruct h' as [|z t]; [reflexivity|].
      apply (up_heap_id info dinfo auto_less (fun _ => True) (fun a _ => auto_le_refl a)
               (fun a b c _ _ _ => auto_le_trans a b c) (fun a b _ _ => auto_le_total a b))
        with (n := length (z :: t)); [exact Hinv'|simpl; lia]. }
    rewrite Hsame. simpl. split; [exact Hh'|exact Hinv'].
Qed.

(* ---- the loop ---- *)
Lemma auto_loop_spec : forall k h dep, (1 <= k)%nat -> dep_inv dep -> heap_rel h dep ->
  (Z.of_nat k <= rem dep -> exists p, auto_loop k h limit dep = Ok p /\ dep_inv p /\
                                      plan_sum p = plan_sum dep + Z.of_nat k) /\
  (rem dep < Z.of_nat k -> auto_loop k h limit dep = Err EInsufficientResource).
Proof.
  induction k as [|k IH]; intros h dep Hk Hdi Hhr; [lia|].
  destruct Hhr as [Hperm Hinv].
  cbn [auto_loop].
  destruct h as [|z t].
  - (* heap empty: nobody is eligible *)
    apply Permutation_nil in Hperm.
    pose proof (rem_zero_when_none_eligible dep Hdi Hperm) as Hr0.
    simpl. split; [lia|reflexivity].
  - destruct (pop_spec info dinfo auto_less (fun _ => True)
                (fun a _ => auto_le_refl a)
                (fun a b c _ _ _ => auto_le_trans a b c)
                (fun a b _ _ => auto_le_total a b)
                (z :: t)) as (x' & h' & Hpop & Hpp & Hinv' & _ & _ & Hmin);
      [apply Forall_forall; intros; exact I|exact Hinv|discriminate|].
    rewrite Hpop.
    (* identify the popped element *)
    assert (Hx'in : In x' (filter (auto_keep limit) (map (cur dep) infos))).
    { eapply Permutation_in; [exact Hperm|]. eapply Permutation_in; [symmetry; exact Hpp|]. left; reflexivity. }
    apply filter_In in Hx'in. destruct Hx'in as [Hx'm Hx'k].
    apply in_map_iff in Hx'm. destruct Hx'm as (x & Ex & Hx). subst x'.
    assert (Hdi' : dep_inv (madd dep (name x) 1)).
    { eapply dep_inv_step; eauto. split; eauto. }
    assert (Hrem' : rem (madd dep (name x) 1) = rem dep - 1).
    { destruct (in_split x infos Hx) as (i1 & i2 & E). destruct Hvalid as [Hnd _].
      eapply sum_split_madd; eauto. }
    pose proof (rem_pos_when_eligible dep x Hdi Hx Hx'k) as Hpos.
    rewrite name_cur.
    destruct k as [|k'].
    + split; [|lia]. intros _. eexists. split; [reflexivity|]. split; [exact Hdi'|].
      rewrite plan_sum_madd. lia.
    + assert (Hhr' := heap_rel_step (z :: t) dep x h' Hdi (conj Hperm Hinv) Hx Hx'k Hpp Hinv').
      cbv zeta in Hhr'.
      destruct (IH _ _ ltac:(lia) Hdi' Hhr') as [I1 I2].
      split.
      * intro Hle. destruct I1 as (p & Hp & Hpi & Hps); [lia|].
        exists p. split; [exact Hp|]. split; [exact Hpi|]. rewrite Hps, plan_sum_madd. lia.
      * intro Hlt. apply I2. lia.
Qed.

Lemma heap_rel_init :
  heap_rel (init dinfo auto_less (filter (auto_keep limit) infos)) [].
Proof.
  split.
  - rewrite map_cur_nil. apply init_perm.
  - apply (init_inv_all info dinfo auto_less auto_le_refl auto_le_trans auto_le_total).
Qed.

Lemma dep_inv_nil : dep_inv [].
Proof.
  split; [constructor|]. split; [intros k H; discriminate|]. split.
  - intros x Hx. simpl. pose proof (rm_nonneg x Hx). lia.
  - intros a b _ _ H. simpl in H. lia.
Qed.

Lemma rem_nil : rem [] = sumZ (map (room limit) infos).
Proof. unfold rem. f_equal. apply map_ext. intro x. simpl. unfold rm. lia. Qed.

Lemma dep_inv_C01 need p : dep_inv p -> plan_sum p = need -> C01_spec Auto need limit infos p.
Proof.
  intros (D0 & D2 & D1 & D4) Hs. unfold C01_spec. split; [exact D0|]. split; [exact D2|]. split; [|split].
  - intros x Hx. specialize (D1 x Hx). pose proof (rm_le_cap x). lia.
  - exact Hs.
  - intros _ Hl x Hx Hp. specialize (D1 x Hx). unfold fin, rm, room in *.
    destruct (Z.gtb_spec limit 0); lia.
Qed.

Lemma dep_inv_C03 need p : dep_inv p -> C03_spec Auto need limit infos p.
Proof.
  intros (D0 & D2 & D1 & D4) a b Ha Hb. cbv zeta. intros Hpa Hcb Hlb.
  unfold fin. apply D4; auto.
  apply keep_iff_room; [apply D1; exact Hb|].
  specialize (D1 b Hb). unfold rm, room, fin in *. destruct (Z.gtb_spec limit 0); lia.
Qed.

(* CommunismPlan as a whole *)
Lemma communism_spec need total : 0 < need ->
  (total >= need -> need <= sumZ (map (room limit) infos) ->
     exists p, communism infos need total limit = Ok p /\ dep_inv p /\ plan_sum p = need) /\
  (total < need \/ sumZ (map (room limit) infos) < need ->
     communism infos need total limit = Err EInsufficientResource).
Proof.
  intro Hneed. unfold communism.
  destruct (auto_loop_spec (Z.to_nat need) _ [] ltac:(lia) dep_inv_nil heap_rel_init) as [I1 I2].
  rewrite rem_nil in *. rewrite Z2Nat.id in * by lia.
  split.
  - intros Ht Hf. destruct (Z.ltb_spec total need); [lia|].
    destruct (I1 Hf) as (p & Hp & Hpi & Hps). exists p. split; [exact Hp|]. split; [exact Hpi|].
    rewrite Hps. unfold plan_sum, sumZ. simpl. lia.
  - intros [Ht|Hf]; destruct (Z.ltb_spec total need); auto; try lia.
Qed.
End Auto.
