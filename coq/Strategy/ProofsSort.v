(* EACH, FILL, DRAINED: the sort-based strategies.  Every statement is proved
   for an ARBITRARY sorted permutation of the candidates (what sort.Slice may
   return), then instantiated with [gosort]. *)
From Coq Require Import String Ascii.
From Coq Require Import List Bool ZArith Arith Lia Permutation Sorted RelationClasses.
From Verif Require Import Base.GoInt Base.GoFloat Base.GoSort Base.GoSortSpec Strategy.Model Strategy.ProofsBase.
Import ListNotations.
Local Open Scope Z_scope.

(* ---- generic list facts ---- *)
Lemma Sorted_impl {A} (R S : A -> A -> Prop) l :
  (forall a b, R a b -> S a b) -> Sorted R l -> Sorted S l.
Proof.
  intros HRS. induction 1 as [|a l Hl IH Hhd]; constructor; auto.
  destruct Hhd; constructor; auto.
Qed.

Lemma ssorted_app_rel {A} (R : A -> A -> Prop) l1 l2 a b :
  StronglySorted R (l1 ++ l2) -> In a l1 -> In b l2 -> R a b.
Proof.
  induction l1 as [|h t IH]; simpl; intros H Ha Hb; [tauto|].
  inversion H as [|? ? Ht Hall]; subst.
  destruct Ha as [->|Ha].
  - rewrite Forall_forall in Hall. apply Hall. apply in_or_app. right; exact Hb.
  - apply IH; auto.
Qed.

Lemma ssorted_nth {A} (R : A -> A -> Prop) (d : A) l :
  StronglySorted R l -> forall i j, (i < j < length l)%nat -> R (nth i l d) (nth j l d).
Proof.
  induction 1 as [|a l Hl IH Hall]; intros i j Hij; simpl in *; [lia|].
  destruct j as [|j]; [lia|]. destruct i as [|i].
  - rewrite Forall_forall in Hall. apply Hall. apply nth_In. lia.
  - apply IH. lia.
Qed.

Lemma countb_ext {A} (f g : A -> bool) l : (forall x, In x l -> f x = g x) -> countb f l = countb g l.
Proof.
  induction l as [|x t IH]; intro H; [reflexivity|].
  rewrite !countb_cons. rewrite (H x) by (left; reflexivity). rewrite IH; auto.
  intros y Hy. apply H. right; exact Hy.
Qed.

Lemma countb_prefix {A} (f : A -> bool) (d : A) l : forall p,
  (p <= length l)%nat ->
  (forall i, (i < p)%nat -> f (nth i l d) = true) ->
  (forall i, (p <= i < length l)%nat -> f (nth i l d) = false) ->
  countb f l = Z.of_nat p.
Proof.
  induction l as [|x t IH]; intros p Hp H1 H2.
  - simpl in Hp. assert (p = 0)%nat by lia. subst. reflexivity.
  - rewrite countb_cons. destruct p as [|p].
    + assert (E : f x = false) by (apply (H2 0%nat); simpl; lia). rewrite E.
      rewrite (IH 0%nat); try lia.
      intros i Hi. apply (H2 (S i)). simpl. lia.
    + assert (E : f x = true) by (apply (H1 0%nat); lia). rewrite E.
      rewrite (IH p); try (simpl in Hp; lia).
      * intros i Hi. apply (H1 (S i)). lia.
      * intros i Hi. apply (H2 (S i)). simpl. lia.
Qed.

Lemma in_firstn_or_skipn {A} (l : list A) n x : In x l -> In x (firstn n l) \/ In x (skipn n l).
Proof. intro H. rewrite <- (firstn_skipn n l) in H. apply in_app_or in H. exact H. Qed.

Lemma in_firstn {A} (l : list A) n x : In x (firstn n l) -> In x l.
Proof. intro H. rewrite <- (firstn_skipn n l). apply in_or_app. left; exact H. Qed.
Lemma in_skipn {A} (l : list A) n x : In x (skipn n l) -> In x l.
Proof. intro H. rewrite <- (firstn_skipn n l). apply in_or_app. right; exact H. Qed.

Lemma nodup_app_l {A} (l1 l2 : list A) : NoDup (l1 ++ l2) -> NoDup l1.
Proof.
  induction l1 as [|h t IH]; simpl; intro H; [constructor|].
  inversion H as [|? ? Hnh Hnt]; subst. constructor; auto.
  intro Hin. apply Hnh. apply in_or_app. left; exact Hin.
Qed.
Lemma nodup_app_r {A} (l1 l2 : list A) : NoDup (l1 ++ l2) -> NoDup l2.
Proof.
  induction l1 as [|h t IH]; simpl; intro H; auto.
  inversion H; subst. auto.
Qed.

Lemma names_app l1 l2 : names (l1 ++ l2) = names l1 ++ names l2.
Proof. unfold names. apply map_app. Qed.

Lemma nodup_app_disjoint {A} (l1 l2 : list A) x : NoDup (l1 ++ l2) -> In x l1 -> In x l2 -> False.
Proof.
  induction l1 as [|h t IH]; simpl; intros H H1 H2; [tauto|].
  inversion H as [|? ? Hnh Hnt]; subst. destruct H1 as [->|H1].
  - apply Hnh. apply in_or_app. right; exact H2.
  - apply IH; auto.
Qed.

(* ======================================================================== *)
(* EACH                                                                      *)
(* ======================================================================== *)
Definition each_rel (a b : info) : Prop := cap b <= cap a.

Lemma each_sorted_strong l : Sorted (ngt each_less) l -> StronglySorted each_rel l.
Proof.
  intro H. apply Sorted_StronglySorted.
  - intros a b c. unfold each_rel. lia.
  - eapply Sorted_impl; [|exact H]. intros a b. unfold ngt, each_less, each_rel. lia.
Qed.

(* the map built by the final loop of AveragePlan *)
Definition each_fold (need : Z) (l : list info) (dep : plan) : plan :=
  fold_left (fun dep x => madd dep (name x) need) l dep.

Lemma each_fold_spec need l : forall dep,
  NoDup (names l) -> NoDup (map fst dep) -> (forall x, In x l -> mhas dep (name x) = false) ->
  let r := each_fold need l dep in
  NoDup (map fst r) /\ length r = (length dep + length l)%nat /\
  (forall k, mhas r k = mhas dep k || existsb (String.eqb k) (names l)) /\
  (forall k, mget r k = mget dep k + if existsb (String.eqb k) (names l) then need else 0).
Proof.
  induction l as [|x t IH]; intros dep Hnd Hdep Hdis; simpl.
  - repeat split; auto; intros; try rewrite orb_false_r; auto; lia.
  - simpl in Hnd. inversion Hnd as [|? ? Hx Ht]; subst.
    assert (Hfresh : mhas dep (name x) = false) by (apply Hdis; left; reflexivity).
    destruct (IH (madd dep (name x) need)) as (I1 & I2 & I3 & I4); auto.
    + apply nodup_keys_mset. exact Hdep.
    + intros y Hy. rewrite mhas_madd. rewrite Hdis by (right; exact Hy).
      rewrite orb_false_r. apply seqb_neq. intro E. apply Hx. rewrite E. apply in_names. exact Hy.
    + unfold each_fold in *. split; [exact I1|]. split; [|split].
      * rewrite I2. unfold madd. rewrite length_mset, Hfresh. simpl. lia.
      * intro k. rewrite I3, mhas_madd. rewrite (seqb_sym k (name x)).
        destruct (String.eqb (name x) k), (mhas dep k); reflexivity.
      * intro k. rewrite I4. rewrite (seqb_sym k (name x)).
        destruct (String.eqb (name x) k) eqn:E.
        -- apply seqb_eq in E. subst k. rewrite mget_madd_same.
           assert (existsb (String.eqb (name x)) (names t) = false) as ->.
           { destruct (existsb _ _) eqn:E2; auto. apply existsb_eqb_in in E2. tauto. }
           simpl. lia.
        -- apply seqb_neq in E. rewrite mget_madd_other by exact E. simpl. reflexivity.
Qed.

Section Each.
Variables (infos sorted : list info) (need limit : Z).
Hypothesis Hvalid : valid_infos infos.
Hypothesis Hperm : Permutation infos sorted.
Hypothesis Hsorted : Sorted (ngt each_less) sorted.
Hypothesis Hneed : 0 < need.
Hypothesis Hlimit : 0 <= limit.

Let limit' := each_limit infos limit.
Let n := length sorted.
Let f := fun i : nat => cap (nth i sorted dinfo) <? need.
Let p := search n f.

Lemma each_len : length infos = length sorted.
Proof. apply Permutation_length. exact Hperm. Qed.

Lemma each_limit_nonneg : 0 <= limit'.
Proof. unfold limit', each_limit. destruct (Z.eqb_spec limit 0); lia. Qed.

Lemma each_search : search_post f n p.
Proof.
  apply search_spec. intros i j Hij Hi. unfold f in *.
  destruct (Nat.eq_dec i j) as [->|Hne]; [exact Hi|].
  assert (H := ssorted_nth each_rel dinfo sorted (each_sorted_strong _ Hsorted) i j).
  unfold each_rel in H. specialize (H ltac:(unfold n in Hij; lia)). lia.
Qed.

Lemma each_p_count : countb (fun x => need <=? cap x) sorted = Z.of_nat p.
Proof.
  destruct each_search as (Hp & Hlo & Hhi).
  apply (countb_prefix _ dinfo); [exact Hp| |].
  - intros i Hi. specialize (Hlo i Hi). unfold f in Hlo. lia.
  - intros i Hi. specialize (Hhi i Hi). unfold f in Hhi. lia.
Qed.

Lemma each_feasible_iff :
  feasible Each need limit infos = true <->
  (limit' <= Z.of_nat (length infos) /\ p <> 0%nat /\ limit' <= Z.of_nat p).
Proof.
  unfold feasible. fold limit'.
  rewrite (countb_perm _ _ _ Hperm), each_p_count.
  rewrite !andb_true_iff, !Z.leb_le.
  destruct each_search as (Hp & _). rewrite each_len. fold n.
  unfold limit', each_limit in *. destruct (Z.eqb_spec limit 0); rewrite ?each_len; fold n; lia.
Qed.

(* outcome of the model for this sorted permutation *)
Lemma each_from_cases :
  (p = 0%nat /\ each_from sorted need limit' = Err EInsufficientCapacity) \/
  (p <> 0%nat /\ Z.of_nat p < limit' /\ each_from sorted need limit' = Err EInsufficientResource) \/
  (p <> 0%nat /\ limit' <= Z.of_nat p /\
   each_from sorted need limit' = Ok (each_fold need (firstn (Z.to_nat limit') sorted) [])).
Proof.
  unfold each_from. fold n. fold f. fold p.
  destruct (Nat.eqb_spec p 0) as [E|E]; [left; auto|right].
  destruct (Z.ltb_spec (Z.of_nat p) limit'); [left; auto|right].
  pose proof each_limit_nonneg.
  destruct (Z.ltb_spec limit' 0); [lia|]. auto.
Qed.

Let sel := firstn (Z.to_nat limit') sorted.

Lemma each_sel_nodup : NoDup (names sel).
Proof.
  destruct Hvalid as [Hnd _].
  assert (Hs : NoDup (names sorted)) by (eapply nodup_names_perm; eauto).
  rewrite <- (firstn_skipn (Z.to_nat limit') sorted), names_app in Hs.
  apply nodup_app_l in Hs. exact Hs.
Qed.

Lemma each_plan_facts :
  let r := each_fold need sel [] in
  NoDup (map fst r) /\ length r = length sel /\
  (forall k, mhas r k = existsb (String.eqb k) (names sel)) /\
  (forall k, mget r k = if existsb (String.eqb k) (names sel) then need else 0).
Proof.
  destruct (each_fold_spec need sel [] each_sel_nodup) as (H1 & H2 & H3 & H4); simpl; auto.
  - constructor.
Qed.

Lemma each_in_sel_name x : In x infos -> existsb (String.eqb (name x)) (names sel) = true -> In x sel.
Proof.
  intros Hx Hn. apply existsb_eqb_in in Hn. unfold names in Hn. apply in_map_iff in Hn.
  destruct Hn as (y & Ey & Hy).
  assert (Hys : In y sorted) by (eapply in_firstn; exact Hy).
  destruct Hvalid as [Hnd _].
  assert (x = y); [|subst; exact Hy].
  apply (nodup_names_inj sorted); auto.
  - eapply nodup_names_perm; eauto.
  - eapply Permutation_in; eauto.
Qed.

Lemma in_firstn_nth {A} (d : A) (l : list A) : forall m x, In x (firstn m l) ->
  exists i, (i < m)%nat /\ (i < length l)%nat /\ nth i l d = x.
Proof.
  induction l as [|h t IH]; intros m x H.
  - rewrite firstn_nil in H. destruct H.
  - destruct m as [|m]; simpl in H; [tauto|]. destruct H as [->|H].
    + exists 0%nat. simpl. repeat split; lia.
    + destruct (IH m x H) as (i & Hi & Hl & E). exists (S i). simpl. repeat split; auto; lia.
Qed.

Definition each_result : result :=
  if Z.of_nat (length infos) <? limit' then Err EInsufficientResource
  else each_from sorted need limit'.

Lemma each_sel_cap x : limit' <= Z.of_nat p -> In x sel -> need <= cap x.
Proof.
  intros Hlp Hx. destruct (in_firstn_nth dinfo sorted _ x Hx) as (i & Hi & Hl & E).
  destruct each_search as (_ & Hlo & _).
  specialize (Hlo i ltac:(lia)). unfold f in Hlo. rewrite E in Hlo. lia.
Qed.

Lemma each_C01 pl : each_from sorted need limit' = Ok pl -> C01_spec Each need limit infos pl.
Proof.
  intro H. destruct each_from_cases as [[_ E]|[(_ & _ & E)|(Hp0 & Hlp & E)]];
    rewrite E in H; try discriminate. injection H as <-.
  destruct each_plan_facts as (F1 & F2 & F3 & F4). fold sel.
  destruct each_search as (Hpn & _ & _).
  unfold C01_spec. split; [exact F1|]. split; [|split; [|split]].
  - intros k Hk. rewrite F3 in Hk. apply existsb_eqb_in in Hk.
    eapply Permutation_in; [symmetry; apply perm_names; exact Hperm|].
    unfold names in *. apply in_map_iff in Hk. destruct Hk as (y & <- & Hy).
    apply in_map. eapply in_firstn; exact Hy.
  - intros x Hx. rewrite F4. destruct (existsb _ _) eqn:E2.
    + assert (In x sel) by (apply each_in_sel_name; auto).
      pose proof (each_sel_cap x Hlp H). lia.
    + destruct Hvalid as [_ Hv]. rewrite Forall_forall in Hv. specialize (Hv x Hx). lia.
  - split.
    + rewrite F2. unfold sel. rewrite firstn_length. fold limit'. fold n.
      pose proof each_limit_nonneg. lia.
    + intros k Hk. rewrite F4. rewrite F3 in Hk. rewrite Hk. reflexivity.
  - discriminate.
Qed.

Lemma each_C02 :
  (feasible Each need limit infos = true -> exists pl, each_result = Ok pl) /\
  (feasible Each need limit infos = false ->
     each_result = Err EInsufficientResource \/ each_result = Err EInsufficientCapacity).
Proof.
  unfold each_result. split.
  - intro Hf. apply each_feasible_iff in Hf. destruct Hf as (H1 & H2 & H3).
    destruct (Z.ltb_spec (Z.of_nat (length infos)) limit'); [lia|].
    destruct each_from_cases as [[E0 _]|[(_ & Hlt & _)|(_ & _ & E)]]; try lia; try tauto.
    eexists. exact E.
  - intro Hf.
    destruct (Z.ltb_spec (Z.of_nat (length infos)) limit'); [left; reflexivity|].
    destruct each_from_cases as [[E0 E]|[(_ & Hlt & E)|(Hp0 & Hlp & E)]]; auto.
    exfalso. assert (feasible Each need limit infos = true); [|congruence].
    apply each_feasible_iff. repeat split; auto.
Qed.

Lemma each_C03 pl : each_from sorted need limit' = Ok pl -> C03_spec Each need limit infos pl.
Proof.
  intro H. destruct each_from_cases as [[_ E]|[(_ & _ & E)|(Hp0 & Hlp & E)]];
    rewrite E in H; try discriminate. injection H as <-.
  destruct each_plan_facts as (F1 & F2 & F3 & F4). fold sel.
  intros a b Ha Hb. cbv zeta. intros Hsa Hsb.
  rewrite F3 in Hsa, Hsb.
  assert (Hain : In a sel) by (apply each_in_sel_name; auto).
  assert (Hbs : In b sorted) by (eapply Permutation_in; eauto).
  destruct (in_firstn_or_skipn sorted (Z.to_nat limit') b Hbs) as [Hb1|Hb2].
  - exfalso. assert (existsb (String.eqb (name b)) (names sel) = true); [|congruence].
    apply existsb_eqb_in. apply in_names. exact Hb1.
  - pose proof (each_sorted_strong _ Hsorted) as Hss.
    rewrite <- (firstn_skipn (Z.to_nat limit') sorted) in Hss.
    apply (ssorted_app_rel each_rel _ _ a b Hss Hain Hb2).
Qed.
End Each.
