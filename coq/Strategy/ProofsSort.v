(* EACH, FILL, DRAINED: the sort-based strategies.  Every statement is proved
   for an ARBITRARY sorted permutation of the candidates (what sort.Slice may
   return), then instantiated with [gosort]. *)
From Coq Require Import String Ascii.
From Coq Require Import List Bool ZArith Arith Lia Permutation Sorted RelationClasses.
From Verif Require Import Base.GoInt Base.GoFloat Base.GoSort Base.GoSortSpec Strategy.Model Strategy.ProofsBase.
Import ListNotations.
Local Open Scope Z_scope.

(* ---- generic list facts ---- *)
Lemma Sorted_impl {A} (R S : A -> A -> Prop) l :
  (forall a b, R a b -> S a b) -> Sorted R l -> Sorted S l.
Proof.
  intros HRS. induction 1 as [|a l Hl IH Hhd]; constructor; auto.
  destruct Hhd; constructor; auto.
Qed.

Lemma ssorted_app_rel {A} (R : A -> A -> Prop) l1 l2 a b :
  StronglySorted R (l1 ++ l2) -> In a l1 -> In b l2 -> R a b.
Proof.
  induction l1 as [|h t IH]; simpl; intros H Ha Hb; [tauto|].
  inversion H as [|? ? Ht Hall]; subst.
  destruct Ha as [->|Ha].
  - rewrite Forall_forall in Hall. apply Hall. apply in_or_app. right; exact Hb.
  - apply IH; auto.
Qed.

Lemma ssorted_nth {A} (R : A -> A -> Prop) (d : A) l :
  StronglySorted R l -> forall i j, (i < j < length l)%nat -> R (nth i l d) (nth j l d).
Proof.
  induction 1 as [|a l Hl IH Hall]; intros i j Hij; simpl in *; [lia|].
  destruct j as [|j]; [lia|]. destruct i as [|i].
  - rewrite Forall_forall in Hall. apply Hall. apply nth_In. lia.
  - apply IH. lia.
Qed.

Lemma countb_ext {A} (f g : A -> bool) l : (forall x, In x l -> f x = g x) -> countb f l = countb g l.
Proof.
  induction l as [|x t IH]; intro H; [reflexivity|].
  rewrite !countb_cons. rewrite (H x) by (left; reflexivity). rewrite IH; auto.
  intros y Hy. apply H. right; exact Hy.
Qed.

Lemma countb_prefix {A} (f : A -> bool) (d : A) l : forall p,
  (p <= length l)%nat ->
  (forall i, (i < p)%nat -> f (nth i l d) = true) ->
  (forall i, (p <= i < length l)%nat -> f (nth i l d) = false) ->
  countb f l = Z.of_nat p.
Proof.
  induction l as [|x t IH]; intros p Hp H1 H2.
  - simpl in Hp. assert (p = 0)%nat by lia. subst. reflexivity.
  - rewrite countb_cons. destruct p as [|p].
    + assert (E : f x = false) by (apply (H2 0%nat); simpl; lia). rewrite E.
      rewrite (IH 0%nat); try lia.
      intros i Hi. apply (H2 (S i)). simpl. lia.
    + assert (E : f x = true) by (apply (H1 0%nat); lia). rewrite E.
      rewrite (IH p); try (simpl in Hp; lia).
      * intros i Hi. apply (H1 (S i)). lia.
      * intros i Hi. apply (H2 (S i)). simpl. lia.
Qed.

Lemma in_firstn_or_skipn {A} (l : list A) n x : In x l -> In x (firstn n l) \/ In x (skipn n l).
Proof. intro H. rewrite <- (firstn_skipn n l) in H. apply in_app_or in H. exact H. Qed.

Lemma in_firstn {A} (l : list A) n x : In x (firstn n l) -> In x l.
Proof. intro H. rewrite <- (firstn_skipn n l). apply in_or_app. left; exact H. Qed.
Lemma in_skipn {A} (l : list A) n x : In x (skipn n l) -> In x l.
Proof. intro H. rewrite <- (firstn_skipn n l). apply in_or_app. right; exact H. Qed.

Lemma nodup_app_l {A} (l1 l2 : list A) : NoDup (l1 ++ l2) -> NoDup l1.
Proof.
  induction l1 as [|h t IH]; simpl; intro H; [constructor|].
  inversion H as [|? ? Hnh Hnt]; subst. constructor; auto.
  intro Hin. apply Hnh. apply in_or_app. left; exact Hin.
Qed.
Lemma nodup_app_r {A} (l1 l2 : list A) : NoDup (l1 ++ l2) -> NoDup l2.
Proof.
  induction l1 as [|h t IH]; simpl; intro H; auto.
  inversion H; subst. auto.
Qed.

Lemma names_app l1 l2 : names (l1 ++ l2) = names l1 ++ names l2.
Proof. unfold names. apply map_app. Qed.

Lemma nodup_app_disjoint {A} (l1 l2 : list A) x : NoDup (l1 ++ l2) -> In x l1 -> In x l2 -> False.
Proof.
  induction l1 as [|h t IH]; simpl; intros H H1 H2; [tauto|].
  inversion H as [|? ? Hnh Hnt]; subst. destruct H1 as [->|H1].
  - apply Hnh. apply in_or_app. right; exact H2.
  - apply IH; auto.
Qed.

(* ======================================================================== *)
(* EACH                                                                      *)
(* ======================================================================== *)
Definition each_rel (a b : info) : Prop := cap b <= cap a.

Lemma each_sorted_strong l : Sorted (ngt each_less) l -> StronglySorted each_rel l.
Proof.
  intro H. apply Sorted_StronglySorted.
  - intros a b c. unfold each_rel. lia.
  - eapply Sorted_impl; [|exact H]. intros a b. unfold ngt, each_less, each_rel. lia.
Qed.

(* the map built by the final loop of AveragePlan *)
Definition each_fold (need : Z) (l : list info) (dep : plan) : plan :=
  fold_left (fun dep x => madd dep (name x) need) l dep.

Lemma each_fold_spec need l : forall dep,
  NoDup (names l) -> NoDup (map fst dep) -> (forall x, In x l -> mhas dep (name x) = false) ->
  let r := each_fold need l dep in
  NoDup (map fst r) /\ length r = (length dep + length l)%nat /\
  (forall k, mhas r k = mhas dep k || existsb (String.eqb k) (names l)) /\
  (forall k, mget r k = mget dep k + if existsb (String.eqb k) (names l) then need else 0).
Proof.
  induction l as [|x t IH]; intros dep Hnd Hdep Hdis; simpl.
  - repeat split; auto; intros; try rewrite orb_false_r; auto; lia.
  - simpl in Hnd. inversion Hnd as [|? ? Hx Ht]; subst.
    assert (Hfresh : mhas dep (name x) = false) by (apply Hdis; left; reflexivity).
    destruct (IH (madd dep (name x) need)) as (I1 & I2 & I3 & I4); auto.
    + apply nodup_keys_mset. exact Hdep.
    + intros y Hy. rewrite mhas_madd. rewrite Hdis by (right; exact Hy).
      rewrite orb_false_r. apply seqb_neq. intro E. apply Hx. rewrite E. apply in_names. exact Hy.
    + unfold each_fold in *. split; [exact I1|]. split; [|split].
      * rewrite I2. unfold madd. rewrite length_mset, Hfresh. simpl. lia.
      * intro k. rewrite I3, mhas_madd. rewrite (seqb_sym k (name x)).
        destruct (String.eqb (name x) k), (mhas dep k); reflexivity.
      * intro k. rewrite I4. rewrite (seqb_sym k (name x)).
        destruct (String.eqb (name x) k) eqn:E.
        -- apply seqb_eq in E. subst k. rewrite mget_madd_same.
           assert (existsb (String.eqb (name x)) (names t) = false) as ->.
           { destruct (existsb _ _) eqn:E2; auto. apply existsb_eqb_in in E2. tauto. }
           simpl. lia.
        -- apply seqb_neq in E. rewrite mget_madd_other by exact E. simpl. reflexivity.
Qed.

Section Each.
Variables (infos sorted : list info) (need limit : Z).
Hypothesis Hvalid : valid_infos infos.
Hypothesis Hperm : Permutation infos sorted.
Hypothesis Hsorted : Sorted (ngt each_less) sorted.
Hypothesis Hneed : 0 < need.
Hypothesis Hlimit : 0 <= limit.

Let limit' := each_limit infos limit.
Let n := length sorted.
Let f := fun i : nat => cap (nth i sorted dinfo) <? need.
Let p := search n f.

Lemma each_len : length infos = length sorted.
Proof. apply Permutation_length. exact Hperm. Qed.

Lemma each_limit_nonneg : 0 <= limit'.
Proof. unfold limit', each_limit. destruct (Z.eqb_spec limit 0); lia. Qed.

Lemma each_search : search_post f n p.
Proof.
  apply search_spec. intros i j Hij Hi. unfold f in *.
  destruct (Nat.eq_dec i j) as [->|Hne]; [exact Hi|].
  assert (H := ssorted_nth each_rel dinfo sorted (each_sorted_strong _ Hsorted) i j).
  unfold each_rel in H. specialize (H ltac:(unfold n in Hij; lia)). lia.
Qed.

Lemma each_p_count : countb (fun x => need <=? cap x) sorted = Z.of_nat p.
Proof.
  destruct each_search as (Hp & Hlo & Hhi).
  apply (countb_prefix _ dinfo); [exact Hp| |].
  - intros i Hi. specialize (Hlo i Hi). unfold f in Hlo. lia.
  - intros i Hi. specialize (Hhi i Hi). unfold f in Hhi. lia.
Qed.

Lemma each_feasible_iff :
  feasible Each need limit infos = true <->
  (limit' <= Z.of_nat (length infos) /\ p <> 0%nat /\ limit' <= Z.of_nat p).
Proof.
  unfold feasible. fold limit'.
  rewrite (countb_perm _ _ _ Hperm), each_p_count.
  rewrite !andb_true_iff, !Z.leb_le.
  destruct each_search as (Hp & _). rewrite each_len. fold n.
  unfold limit', each_limit in *. destruct (Z.eqb_spec limit 0); rewrite ?each_len; fold n; lia.
Qed.

(* outcome of the model for this sorted permutation *)
Lemma each_from_cases :
  (p = 0%nat /\ each_from sorted need limit' = Err EInsufficientCapacity) \/
  (p <> 0%nat /\ Z.of_nat p < limit' /\ each_from sorted need limit' = Err EInsufficientResource) \/
  (p <> 0%nat /\ limit' <= Z.of_nat p /\
   each_from sorted need limit' = Ok (each_fold need (firstn (Z.to_nat limit') sorted) [])).
Proof.
  unfold each_from. fold n. fold f. fold p.
  destruct (Nat.eqb_spec p 0) as [E|E]; [left; auto|right].
  destruct (Z.ltb_spec (Z.of_nat p) limit'); [left; auto|right].
  pose proof each_limit_nonneg.
  destruct (Z.ltb_spec limit' 0); [lia|]. auto.
Qed.

Let sel := firstn (Z.to_nat limit') sorted.

Lemma each_sel_nodup : NoDup (names sel).
Proof.
  destruct Hvalid as [Hnd _].
  assert (Hs : NoDup (names sorted)) by (eapply nodup_names_perm; eauto).
  rewrite <- (firstn_skipn (Z.to_nat limit') sorted), names_app in Hs.
  apply nodup_app_l in Hs. exact Hs.
Qed.

Lemma each_plan_facts :
  let r := each_fold need sel [] in
  NoDup (map fst r) /\ length r = length sel /\
  (forall k, mhas r k = existsb (String.eqb k) (names sel)) /\
  (forall k, mget r k = if existsb (String.eqb k) (names sel) then need else 0).
Proof.
  destruct (each_fold_spec need sel [] each_sel_nodup) as (H1 & H2 & H3 & H4); simpl; auto.
  - constructor.
Qed.

Lemma each_in_sel_name x : In x infos -> existsb (String.eqb (name x)) (names sel) = true -> In x sel.
Proof.
  intros Hx Hn. apply existsb_eqb_in in Hn. unfold names in Hn. apply in_map_iff in Hn.
  destruct Hn as (y & Ey & Hy).
  assert (Hys : In y sorted) by (eapply in_firstn; exact Hy).
  destruct Hvalid as [Hnd _].
  assert (x = y); [|subst; exact Hy].
  apply (nodup_names_inj sorted); auto.
  - eapply nodup_names_perm; eauto.
  - eapply Permutation_in; eauto.
Qed.

Lemma in_firstn_nth {A} (d : A) (l : list A) : forall m x, In x (firstn m l) ->
  exists i, (i < m)%nat /\ (i < length l)%nat /\ nth i l d = x.
Proof.
  induction l as [|h t IH]; intros m x H.
  - rewrite firstn_nil in H. destruct H.
  - destruct m as [|m]; simpl in H; [tauto|]. destruct H as [->|H].
    + exists 0%nat. simpl. repeat split; lia.
    + destruct (IH m x H) as (i & Hi & Hl & E). exists (S i). simpl. repeat split; auto; lia.
Qed.

Definition each_result : result :=
  if Z.of_nat (length infos) <? limit' then Err EInsufficientResource
  else each_from sorted need limit'.

Lemma each_sel_cap x : limit' <= Z.of_nat p -> In x sel -> need <= cap x.
Proof.
  intros Hlp Hx. destruct (in_firstn_nth dinfo sorted _ x Hx) as (i & Hi & Hl & E).
  destruct each_search as (_ & Hlo & _).
  specialize (Hlo i ltac:(lia)). unfold f in Hlo. rewrite E in Hlo. lia.
Qed.

Lemma each_C01 pl : each_from sorted need limit' = Ok pl -> C01_spec Each need limit infos pl.
Proof.
  intro H. destruct each_from_cases as [[_ E]|[(_ & _ & E)|(Hp0 & Hlp & E)]];
    rewrite E in H; try discriminate. injection H as <-.
  destruct each_plan_facts as (F1 & F2 & F3 & F4). fold sel.
  destruct each_search as (Hpn & _ & _).
  unfold C01_spec. split; [exact F1|]. split; [|split; [|split]].
  - intros k Hk. rewrite F3 in Hk. apply existsb_eqb_in in Hk.
    eapply Permutation_in; [symmetry; apply perm_names; exact Hperm|].
    unfold names in *. apply in_map_iff in Hk. destruct Hk as (y & <- & Hy).
    apply in_map. eapply in_firstn; exact Hy.
  - intros x Hx. rewrite F4. destruct (existsb _ _) eqn:E2.
    + assert (In x sel) by (apply each_in_sel_name; auto).
      pose proof (each_sel_cap x Hlp H). lia.
    + destruct Hvalid as [_ Hv]. rewrite Forall_forall in Hv. specialize (Hv x Hx). lia.
  - split.
    + rewrite F2. unfold sel. rewrite firstn_length. fold limit'. fold n.
      pose proof each_limit_nonneg. lia.
    + intros k Hk. rewrite F4. rewrite F3 in Hk. rewrite Hk. reflexivity.
  - discriminate.
Qed.

Lemma each_C02 :
  (feasible Each need limit infos = true -> exists pl, each_result = Ok pl) /\
  (feasible Each need limit infos = false ->
     each_result = Err EInsufficientResource \/ each_result = Err EInsufficientCapacity).
Proof.
  unfold each_result. split.
  - intro Hf. apply each_feasible_iff in Hf. destruct Hf as (H1 & H2 & H3).
    destruct (Z.ltb_spec (Z.of_nat (length infos)) limit'); [lia|].
    destruct each_from_cases as [[E0 _]|[(_ & Hlt & _)|(_ & _ & E)]]; try lia; try tauto.
    eexists. exact E.
  - intro Hf.
    destruct (Z.ltb_spec (Z.of_nat (length infos)) limit'); [left; reflexivity|].
    destruct each_from_cases as [[E0 E]|[(_ & Hlt & E)|(Hp0 & Hlp & E)]]; auto.
    exfalso. assert (feasible Each need limit infos = true); [|congruence].
    apply each_feasible_iff. repeat split; auto.
Qed.

Lemma each_C03 pl : each_from sorted need limit' = Ok pl -> C03_spec Each need limit infos pl.
Proof.
  intro H. destruct each_from_cases as [[_ E]|[(_ & _ & E)|(Hp0 & Hlp & E)]];
    rewrite E in H; try discriminate. injection H as <-.
  destruct each_plan_facts as (F1 & F2 & F3 & F4). fold sel.
  intros a b Ha Hb. cbv zeta. intros Hsa Hsb.
  rewrite F3 in Hsa, Hsb.
  assert (Hain : In a sel) by (apply each_in_sel_name; auto).
  assert (Hbs : In b sorted) by (eapply Permutation_in; eauto).
  destruct (in_firstn_or_skipn sorted (Z.to_nat limit') b Hbs) as [Hb1|Hb2].
  - exfalso. assert (existsb (String.eqb (name b)) (names sel) = true); [|congruence].
    apply existsb_eqb_in. apply in_names. exact Hb1.
  - pose proof (each_sorted_strong _ Hsorted) as Hss.
    rewrite <- (firstn_skipn (Z.to_nat limit') sorted) in Hss.
    apply (ssorted_app_rel each_rel _ _ a b Hss Hain Hb2).
Qed.
End Each.

(* ======================================================================== *)
(* FILL                                                                      *)
(* ======================================================================== *)
Definition fill_rel (a b : info) : Prop := cnt b < cnt a \/ (cnt b = cnt a /\ cap b <= cap a).

Lemma fill_sorted_strong l : Sorted (ngt fill_less) l -> StronglySorted fill_rel l.
Proof.
  intro H. apply Sorted_StronglySorted.
  - intros a b c. unfold fill_rel. lia.
  - eapply Sorted_impl; [|exact H]. intros a b. unfold ngt, fill_less, fill_rel.
    destruct (Z.eqb_spec (cnt b) (cnt a)); lia.
Qed.

Definition fill_val (need : Z) (x : info) : Z := Z.max (need - cnt x) 0.
Definition fill_step (need : Z) (st : plan * Z) (x : info) : plan * Z :=
  let d' := madd (fst st) (name x) (fill_val need x) in (d', snd st + mget d' (name x)).
Definition fill_fold (need : Z) (l : list info) (st : plan * Z) : plan * Z :=
  fold_left (fill_step need) l st.

Lemma fill_loop_spec need : forall l lim dep todo, 1 <= lim ->
  (countb (fillable need) l < lim -> fill_loop l need lim dep todo = Err EInsufficientResource) /\
  (lim <= countb (fillable need) l -> exists l1 l2, l = l1 ++ l2 /\ countb (fillable need) l1 = lim /\
     let r := fill_fold need (filter (fillable need) l1) (dep, todo) in
     fill_loop l need lim dep todo = if snd r =? 0 then AlreadyFilled (fst r) else Ok (fst r)).
Proof.
  induction l as [|x t IH]; intros lim dep todo Hlim.
  - split; [reflexivity|]. unfold countb; simpl. lia.
  - rewrite countb_cons. cbn [fill_loop]. destruct (fillable need x) eqn:Ex.
    + destruct (Z.eqb_spec (lim - 1) 0) as [E1|E1].
      * split; [pose proof (countb_nonneg (fillable need) t); lia|].
        intros _. exists [x], t. split; [reflexivity|]. split.
        -- rewrite countb_cons, Ex. unfold countb; simpl. lia.
        -- cbn [filter]. rewrite Ex. reflexivity.
      * destruct (IH (lim - 1) (madd dep (name x) (Z.max (need - cnt x) 0))
                     (todo + mget (madd dep (name x) (Z.max (need - cnt x) 0)) (name x))) as [I1 I2]; [lia|].
        split.
        -- intro Hc. apply I1. lia.
        -- intro Hc. destruct I2 as (l1 & l2 & -> & Hcnt & Hr); [lia|].
           exists (x :: l1), l2. split; [reflexivity|]. split.
           ++ rewrite countb_cons, Ex. lia.
           ++ cbn [filter]. rewrite Ex. exact Hr.
    + destruct (IH lim dep todo Hlim) as [I1 I2]. split.
      * intro Hc. apply I1. lia.
      * intro Hc. destruct I2 as (l1 & l2 & -> & Hcnt & Hr); [lia|].
        exists (x :: l1), l2. split; [reflexivity|]. split.
        -- rewrite countb_cons, Ex. lia.
        -- cbn [filter]. rewrite Ex. exact Hr.
Qed.

Lemma fill_fold_spec need l : forall dep todo,
  NoDup (names l) -> NoDup (map fst dep) -> (forall x, In x l -> mhas dep (name x) = false) ->
  let r := fill_fold need l (dep, todo) in
  NoDup (map fst (fst r)) /\ length (fst r) = (length dep + length l)%nat /\
  (forall k, mhas (fst r) k = mhas dep k || existsb (String.eqb k) (names l)) /\
  (forall x, In x l -> mget (fst r) (name x) = fill_val need x) /\
  (forall k, ~ In k (names l) -> mget (fst r) k = mget dep k) /\
  snd r = todo + plan_sum (fst r) - plan_sum dep.
Proof.
  induction l as [|x t IH]; intros dep todo Hnd Hdep Hdis; cbv zeta.
  - simpl. repeat split; auto; intros; try rewrite orb_false_r; auto; try tauto; lia.
  - simpl in Hnd. inversion Hnd as [|? ? Hx Ht]; subst.
    assert (Hfresh : mhas dep (name x) = false) by (apply Hdis; left; reflexivity).
    set (dep' := madd dep (name x) (fill_val need x)).
    change (fill_fold need (x :: t) (dep, todo)) with (fill_fold need t (dep', todo + mget dep' (name x))).
    destruct (IH dep' (todo + mget dep' (name x))) as (I1 & I2 & I3 & I4 & I5 & I6); auto.
    + apply nodup_keys_mset. exact Hdep.
    + intros y Hy. unfold dep'. rewrite mhas_madd. rewrite Hdis by (right; exact Hy).
      rewrite orb_false_r. apply seqb_neq. intro E. apply Hx. rewrite E. apply in_names. exact Hy.
    + assert (Hgx : mget dep' (name x) = fill_val need x).
      { unfold dep'. rewrite mget_madd_same. rewrite (mhas_false_mget _ _ Hfresh). lia. }
      split; [exact I1|]. split; [|split; [|split; [|split]]].
      * eapply eq_trans; [exact I2|]. unfold dep', madd. rewrite length_mset, Hfresh. simpl. lia.
      * intro k. rewrite I3. unfold dep'. rewrite mhas_madd. simpl. rewrite (seqb_sym k (name x)).
        destruct (String.eqb (name x) k), (mhas dep k); reflexivity.
      * intros y [->|Hy]; [|apply I4; exact Hy].
        rewrite I5; [exact Hgx|exact Hx].
      * intros k Hk. simpl in Hk. rewrite I5 by tauto.
        unfold dep'. apply mget_madd_other. tauto.
      * eapply eq_trans; [exact I6|]. rewrite Hgx.
        assert (Hps : plan_sum dep' = plan_sum dep + fill_val need x) by (unfold dep'; apply plan_sum_madd).
        rewrite Hps. unfold plan in *. lia.
Qed.

Lemma fillable_iff need x : fillable need x = (need <=? cnt x + cap x).
Proof. unfold fillable. destruct (Z.leb_spec need (cnt x + cap x)); lia. Qed.

Section FillS.
Variables (infos sorted : list info) (need limit : Z).
Hypothesis Hvalid : valid_infos infos.
Hypothesis Hperm : Permutation infos sorted.
Hypothesis Hsorted : Sorted (ngt fill_less) sorted.
Hypothesis Hneed : 0 < need.
Hypothesis Hlimit : 0 <= limit.

Let limit' := each_limit infos limit.

Definition fill_result : result :=
  if Z.of_nat (length infos) <? limit' then Err EInsufficientResource
  else fill_from sorted need limit'.

Lemma fill_sorted_nodup : NoDup (names sorted).
Proof. destruct Hvalid as [Hnd _]. eapply nodup_names_perm; eauto. Qed.

Lemma fill_count_eq :
  countb (fun x => need <=? cnt x + cap x) infos = countb (fillable need) sorted.
Proof.
  rewrite (countb_perm _ _ _ Hperm). apply countb_ext. intros x _. symmetry. apply fillable_iff.
Qed.

Lemma fill_limit_cases : (limit' = 0 /\ infos = []) \/ 1 <= limit'.
Proof.
  unfold limit', each_limit. destruct (Z.eqb_spec limit 0).
  - destruct infos; [left; auto|right; simpl; lia].
  - right. lia.
Qed.

(* what a successful run looks like *)
Lemma fill_from_plan r pl : fill_from sorted need limit' = r -> is_plan r pl ->
  1 <= limit' /\ exists l1 l2, sorted = l1 ++ l2 /\ countb (fillable need) l1 = limit' /\
    let sel := filter (fillable need) l1 in
    pl = fst (fill_fold need sel ([], 0)) /\
    (r = AlreadyFilled pl -> snd (fill_fold need sel ([], 0)) = 0).
Proof.
  intros Hr Hpl. unfold fill_from in Hr.
  destruct fill_limit_cases as [[E0 En]|H1].
  - exfalso. rewrite En in Hperm. apply Permutation_nil in Hperm. rewrite Hperm in Hr.
    simpl in Hr. subst r. destruct Hpl; discriminate.
  - split; [exact H1|].
    destruct (fill_loop_spec need sorted limit' [] 0 H1) as [I1 I2].
    destruct (Z.lt_ge_cases (countb (fillable need) sorted) limit') as [Hlt|Hge].
    + rewrite (I1 Hlt) in Hr. subst r. destruct Hpl; discriminate.
    + destruct (I2 Hge) as (l1 & l2 & E & Hc & Hres). exists l1, l2. split; [exact E|]. split; [exact Hc|].
      cbv zeta in *. rewrite Hres in Hr. subst r. unfold is_plan in Hpl. revert Hpl.
      match goal with |- context [if ?c then _ else _] => destruct c eqn:Ez end;
        intros [Hpl|Hpl]; inversion Hpl; subst;
        (split; [reflexivity|first [intros _; apply Z.eqb_eq; exact Ez | intro Hd; discriminate Hd]]).
Qed.

Lemma fill_C01 r pl : fill_from sorted need limit' = r -> is_plan r pl ->
  C01_spec Fill need limit infos pl /\ (r = AlreadyFilled pl -> plan_sum pl = 0).
Proof.
  intros Hr Hpl. destruct (fill_from_plan r pl Hr Hpl) as (H1 & l1 & l2 & E & Hc & Hp & Haf).
  cbv zeta in *. set (sel := filter (fillable need) l1) in *.
  pose proof fill_sorted_nodup as Hnd. rewrite E, names_app in Hnd.
  assert (Hnd1 : NoDup (names l1)) by (eapply nodup_app_l; eauto).
  assert (Hsel_sub : forall x, In x sel -> In x l1 /\ fillable need x = true) by (intros x Hx; apply filter_In in Hx; exact Hx).
  assert (Hnds : NoDup (names sel)).
  { unfold sel. clear -Hnd1. induction l1 as [|h t IH]; simpl in *; [constructor|].
    inversion Hnd1; subst. destruct (fillable need h); simpl; auto. constructor; auto.
    intro Hin. apply H1. unfold names in *. apply in_map_iff in Hin. destruct Hin as (y & Ey & Hy).
    apply filter_In in Hy. apply in_map_iff. exists y. tauto. }
  destruct (fill_fold_spec need sel [] 0 Hnds) as (F1 & F2 & F3 & F4 & F5 & F6); simpl; auto; [constructor|].
  rewrite <- Hp in *.
  assert (Hin_sorted : forall x, In x sel -> In x sorted).
  { intros x Hx. rewrite E. apply in_or_app. left. apply Hsel_sub. exact Hx. }
  assert (Hsel_name : forall x, In x infos -> existsb (String.eqb (name x)) (names sel) = true -> In x sel).
  { intros x Hx Hn. apply existsb_eqb_in in Hn. unfold names in Hn. apply in_map_iff in Hn.
    destruct Hn as (y & Ey & Hy). assert (x = y); [|subst; exact Hy].
    apply (nodup_names_inj sorted); auto using fill_sorted_nodup.
    eapply Permutation_in; eauto. }
  split.
  - unfold C01_spec. split; [exact F1|]. split; [|split; [|split]].
    + intros k Hk. rewrite F3 in Hk. simpl in Hk. apply existsb_eqb_in in Hk.
      eapply Permutation_in; [symmetry; apply perm_names; exact Hperm|].
      unfold names in *. apply in_map_iff in Hk. destruct Hk as (y & <- & Hy).
      apply in_map. apply Hin_sorted. exact Hy.
    + intros x Hx. destruct Hvalid as [_ Hv]. rewrite Forall_forall in Hv. specialize (Hv x Hx).
      destruct (existsb (String.eqb (name x)) (names sel)) eqn:E2.
      * assert (Hs : In x sel) by (apply Hsel_name; auto).
        rewrite (F4 x Hs). destruct (Hsel_sub x Hs) as [_ Hf]. unfold fillable in Hf. unfold fill_val. lia.
      * rewrite F5; [simpl; lia|]. intro Hin. apply existsb_eqb_in in Hin. congruence.
    + split.
      * rewrite F2. simpl. fold limit'. rewrite <- Hc. unfold countb. reflexivity.
      * intros x Hx Hh. rewrite F3 in Hh. simpl in Hh.
        assert (Hs : In x sel) by (apply Hsel_name; auto).
        unfold fin. rewrite (F4 x Hs). unfold fill_val. lia.
    + discriminate.
  - intro Hraf. specialize (Haf Hraf). rewrite F6 in Haf. unfold plan_sum at 2 in Haf. simpl in Haf.
    unfold sumZ in Haf. simpl in Haf. lia.
Qed.

Lemma fill_C02 :
  (feasible Fill need limit infos = true -> exists pl, is_plan fill_result pl) /\
  (feasible Fill need limit infos = false -> fill_result = Err EInsufficientResource).
Proof.
  unfold fill_result, feasible. fold limit'. rewrite fill_count_eq. split.
  - rewrite !andb_true_iff, !Z.leb_le. intros ((H1 & H2) & H3).
    destruct (Z.ltb_spec (Z.of_nat (length infos)) limit'); [lia|].
    unfold fill_from. destruct (fill_loop_spec need sorted limit' [] 0 H2) as [_ I2].
    destruct (I2 H3) as (l1 & l2 & _ & _ & Hr). cbv zeta in Hr. rewrite Hr.
    destruct (_ =? 0); eexists; [right|left]; reflexivity.
  - intro Hf. destruct (Z.ltb_spec (Z.of_nat (length infos)) limit') as [|Hge]; [reflexivity|].
    unfold fill_from. destruct fill_limit_cases as [[E0 En]|H1].
    + rewrite En in Hperm. apply Permutation_nil in Hperm. rewrite Hperm. reflexivity.
    + destruct (fill_loop_spec need sorted limit' [] 0 H1) as [I1 _]. apply I1.
      rewrite !andb_false_iff, !Z.leb_gt in Hf. lia.
Qed.

Lemma fill_C03 r pl : fill_from sorted need limit' = r -> is_plan r pl -> C03_spec Fill need limit infos pl.
Proof.
  intros Hr Hpl. destruct (fill_from_plan r pl Hr Hpl) as (H1 & l1 & l2 & E & Hc & Hp & _).
  cbv zeta in *. set (sel := filter (fillable need) l1) in *.
  pose proof fill_sorted_nodup as Hnd. rewrite E, names_app in Hnd.
  assert (Hnds : NoDup (names sel)).
  { apply nodup_app_l in Hnd. unfold sel. clear -Hnd. induction l1 as [|h t IH]; simpl in *; [constructor|].
    inversion Hnd; subst. destruct (fillable need h); simpl; auto. constructor; auto.
    intro Hin. apply H1. unfold names in *. apply in_map_iff in Hin. destruct Hin as (y & Ey & Hy).
    apply filter_In in Hy. apply in_map_iff. exists y. tauto. }
  destruct (fill_fold_spec need sel [] 0 Hnds) as (F1 & F2 & F3 & F4 & F5 & F6); simpl; auto; [constructor|].
  rewrite <- Hp in *.
  intros a b Ha Hb. cbv zeta. intros Hsa Hsb Hfb.
  rewrite F3 in Hsa, Hsb. simpl in Hsa, Hsb.
  assert (Has : In a sel).
  { apply existsb_eqb_in in Hsa. unfold names in Hsa. apply in_map_iff in Hsa.
    destruct Hsa as (y & Ey & Hy). assert (a = y); [|subst; exact Hy].
    apply (nodup_names_inj sorted); auto using fill_sorted_nodup.
    - eapply Permutation_in; eauto.
    - rewrite E. apply in_or_app. left. apply filter_In in Hy. tauto. }
  assert (Ha1 : In a l1) by (apply filter_In in Has; tauto).
  assert (Hbs : In b sorted) by (eapply Permutation_in; eauto).
  rewrite E in Hbs. apply in_app_or in Hbs. destruct Hbs as [Hb1|Hb2].
  - exfalso. assert (existsb (String.eqb (name b)) (names sel) = true); [|congruence].
    apply existsb_eqb_in. apply in_names. apply filter_In. split; [exact Hb1|].
    rewrite fillable_iff. lia.
  - pose proof (fill_sorted_strong _ Hsorted) as Hss. rewrite E in Hss.
    apply (ssorted_app_rel fill_rel _ _ a b Hss Ha1 Hb2).
Qed.
End FillS.

(* ======================================================================== *)
(* DRAINED                                                                   *)
(* ======================================================================== *)
Definition drained_rel (a b : info) : Prop := cap a <= cap b.

Lemma drained_sorted_strong l : Sorted (ngt drained_less) l -> StronglySorted drained_rel l.
Proof.
  intro H. apply Sorted_StronglySorted.
  - intros a b c. unfold drained_rel. lia.
  - eapply Sorted_impl; [|exact H]. intros a b. unfold ngt, drained_less, drained_rel.
    destruct (Z.eqb_spec (cap b) (cap a)); simpl; lia.
Qed.

Definition caps (l : list info) : Z := sumZ (map cap l).
Lemma caps_cons x l : caps (x :: l) = cap x + caps l.
Proof. reflexivity. Qed.
Lemma caps_nonneg l : Forall (fun x => 0 <= cap x) l -> 0 <= caps l.
Proof. unfold caps, sumZ. induction 1; simpl; lia. Qed.
Lemma caps_perm l l' : Permutation l l' -> caps l = caps l'.
Proof. intro H. unfold caps. apply sumZ_perm. apply Permutation_map. exact H. Qed.

Definition drained_fold (l : list info) (dep : plan) : plan :=
  fold_left (fun d y => mset d (name y) (cap y)) l dep.

Lemma drained_loop_spec : forall l need dep, 1 <= need -> Forall (fun x => 0 <= cap x) l ->
  (caps l < need -> drained_loop l need dep = Err EInsufficientResource) /\
  (need <= caps l -> exists l1 x l2, l = l1 ++ x :: l2 /\ caps l1 < need <= caps l1 + cap x /\
     drained_loop l need dep = Ok (mset (drained_fold l1 dep) (name x) (need - caps l1))).
Proof.
  induction l as [|y t IH]; intros need dep Hneed Hcap.
  - split; [reflexivity|]. unfold caps, sumZ; simpl. lia.
  - inversion Hcap as [|? ? Hy Ht]; subst. pose proof (caps_nonneg t Ht) as Hnn.
    rewrite caps_cons. cbn [drained_loop].
    destruct (Z.ltb_spec need (cap y)) as [Hlt|Hge].
    + cbn [Z.eqb]. split; [lia|]. intros _. exists [], y, t. split; [reflexivity|].
      unfold caps, sumZ; simpl. split; [lia|]. rewrite Z.sub_0_r. reflexivity.
    + destruct (Z.eqb_spec (need - cap y) 0) as [E0|E0].
      * split; [lia|]. intros _. exists [], y, t. split; [reflexivity|].
        unfold caps, sumZ; simpl. split; [lia|]. rewrite Z.sub_0_r. replace need with (cap y) by lia. reflexivity.
      * destruct (IH (need - cap y) (mset dep (name y) (cap y))) as [I1 I2]; [lia|exact Ht|].
        split.
        -- intro Hc. apply I1. lia.
        -- intro Hc. destruct I2 as (l1 & x & l2 & -> & Hb & Hr); [lia|].
           exists (y :: l1), x, l2. split; [reflexivity|]. rewrite caps_cons. split; [lia|].
           rewrite Hr. cbn [drained_fold fold_left]. f_equal. f_equal. lia.
Qed.

Lemma drained_fold_spec l : forall dep,
  NoDup (names l) -> NoDup (map fst dep) -> (forall x, In x l -> mhas dep (name x) = false) ->
  let r := drained_fold l dep in
  NoDup (map fst r) /\
  (forall k, mhas r k = mhas dep k || existsb (String.eqb k) (names l)) /\
  (forall x, In x l -> mget r (name x) = cap x) /\
  (forall k, ~ In k (names l) -> mget r k = mget dep k) /\
  plan_sum r = plan_sum dep + caps l.
Proof.
  induction l as [|x t IH]; intros dep Hnd Hdep Hdis; cbv zeta.
  - simpl. unfold caps, sumZ; simpl. repeat split; auto; intros; try rewrite orb_false_r; auto; try tauto; lia.
  - simpl in Hnd. inversion Hnd as [|? ? Hx Ht]; subst.
    assert (Hfresh : mhas dep (name x) = false) by (apply Hdis; left; reflexivity).
    change (drained_fold (x :: t) dep) with (drained_fold t (mset dep (name x) (cap x))).
    destruct (IH (mset dep (name x) (cap x))) as (I1 & I3 & I4 & I5 & I6); auto.
    + apply nodup_keys_mset. exact Hdep.
    + intros y Hy. rewrite mhas_mset. rewrite Hdis by (right; exact Hy).
      rewrite orb_false_r. apply seqb_neq. intro E. apply Hx. rewrite E. apply in_names. exact Hy.
    + split; [exact I1|]. split; [|split; [|split]].
      * intro k. rewrite I3. rewrite mhas_mset. simpl. rewrite (seqb_sym k (name x)).
        destruct (String.eqb (name x) k), (mhas dep k); reflexivity.
      * intros y [->|Hy]; [|apply I4; exact Hy].
        rewrite I5 by exact Hx. apply mget_mset_same.
      * intros k Hk. simpl in Hk. rewrite I5 by tauto. apply mget_mset_other. tauto.
      * rewrite I6. rewrite plan_sum_mset. rewrite (mhas_false_mget _ _ Hfresh). rewrite caps_cons. lia.
Qed.

Section DrainedS.
Variables (infos sorted : list info) (need total : Z).
Hypothesis Hvalid : valid_infos infos.
Hypothesis Hperm : Permutation infos sorted.
Hypothesis Hsorted : Sorted (ngt drained_less) sorted.
Hypothesis Hneed : 0 < need.

Definition drained_result : result :=
  if total <? need then Err EInsufficientResource else drained_from sorted need total.

Lemma drained_caps_nonneg : Forall (fun x => 0 <= cap x) sorted.
Proof.
  destruct Hvalid as [_ Hv]. rewrite Forall_forall in *. intros x Hx.
  apply Hv. eapply Permutation_in; [symmetry; exact Hperm|exact Hx].
Qed.

Lemma drained_sorted_nodup : NoDup (names sorted).
Proof. destruct Hvalid as [Hnd _]. eapply nodup_names_perm; eauto. Qed.

(* shape of a successful run: l1 is drained completely, x takes the rest *)
Lemma drained_from_plan pl : drained_from sorted need total = Ok pl ->
  exists l1 x l2, sorted = l1 ++ x :: l2 /\ caps l1 < need <= caps l1 + cap x /\
    NoDup (map fst pl) /\
    (forall k, mhas pl k = true -> In k (names (l1 ++ [x]))) /\
    (forall y, In y l1 -> mget pl (name y) = cap y) /\
    mget pl (name x) = need - caps l1 /\
    (forall k, ~ In k (names (l1 ++ [x])) -> mget pl k = 0) /\
    plan_sum pl = need.
Proof.
  unfold drained_from. intro H.
  destruct (drained_loop_spec sorted need [] ltac:(lia) drained_caps_nonneg) as [I1 I2].
  destruct (Z.lt_ge_cases (caps sorted) need) as [Hlt|Hge]; [rewrite (I1 Hlt) in H; discriminate|].
  destruct (I2 Hge) as (l1 & x & l2 & E & Hb & Hr). rewrite Hr in H. injection H as <-.
  exists l1, x, l2. split; [exact E|]. split; [exact Hb|].
  pose proof drained_sorted_nodup as Hnd. rewrite E, names_app in Hnd.
  assert (Hnd1 : NoDup (names l1)) by (eapply nodup_app_l; eauto).
  assert (Hx1 : ~ In (name x) (names l1)).
  { intro Hin. apply (nodup_app_disjoint _ _ (name x) Hnd Hin). simpl. left; reflexivity. }
  destruct (drained_fold_spec l1 [] Hnd1) as (F1 & F3 & F4 & F5 & F6); simpl; auto; [constructor|].
  split; [apply nodup_keys_mset; exact F1|]. split; [|split; [|split; [|split]]].
  - intros k Hk. rewrite mhas_mset, F3 in Hk. simpl in Hk. rewrite names_app. apply in_or_app.
    apply orb_true_iff in Hk. destruct Hk as [Hk|Hk].
    + right. apply seqb_eq in Hk. subst. simpl. left; reflexivity.
    + left. apply existsb_eqb_in. exact Hk.
  - intros y Hy. rewrite mget_mset_other; [apply F4; exact Hy|].
    intro Exy. apply Hx1. rewrite Exy. apply in_names. exact Hy.
  - apply mget_mset_same.
  - intros k Hk. rewrite names_app, in_app_iff in Hk. simpl in Hk.
    rewrite mget_mset_other by tauto. rewrite F5 by tauto. reflexivity.
  - rewrite plan_sum_mset, F6. rewrite F5 by exact Hx1. unfold plan_sum at 1. simpl. unfold sumZ; simpl. lia.
Qed.

Lemma drained_C01 pl : drained_from sorted need total = Ok pl -> C01_spec Drained need 0 infos pl.
Proof.
  intro H. destruct (drained_from_plan pl H) as (l1 & x & l2 & E & Hb & P1 & P2 & P3 & P4 & P5 & P6).
  pose proof drained_caps_nonneg as Hcn. rewrite Forall_forall in Hcn.
  unfold C01_spec. split; [exact P1|]. split; [|split; [|split]].
  - intros k Hk. specialize (P2 k Hk).
    eapply Permutation_in; [symmetry; apply perm_names; exact Hperm|].
    rewrite E. rewrite names_app in *. simpl. rewrite in_app_iff in *. simpl in *. tauto.
  - intros y Hy. assert (Hys : In y sorted) by (eapply Permutation_in; eauto).
    pose proof (Hcn y Hys) as Hcy.
    rewrite E in Hys. apply in_app_or in Hys. destruct Hys as [Hy1|[<-|Hy2]].
    + rewrite (P3 y Hy1). lia.
    + rewrite P4. lia.
    + rewrite P5; [lia|]. intro Hin. rewrite names_app, in_app_iff in Hin.
      pose proof drained_sorted_nodup as Hnd. rewrite E in Hnd.
      replace (l1 ++ x :: l2) with ((l1 ++ [x]) ++ l2) in Hnd by (rewrite <- app_assoc; reflexivity).
      rewrite names_app in Hnd.
      apply (nodup_app_disjoint _ _ (name y) Hnd).
      * rewrite names_app. apply in_or_app. exact Hin.
      * apply in_names. exact Hy2.
  - exact P6.
  - discriminate.
Qed.

Lemma drained_C01_limit pl limit : drained_from sorted need total = Ok pl -> C01_spec Drained need limit infos pl.
Proof.
  intro H. destruct (drained_C01 pl H) as (A & B & C & D & _).
  unfold C01_spec. repeat split; auto; try apply C; auto. discriminate.
Qed.

Lemma drained_C02 : total = satsum (map cap infos) -> need <= max_int ->
  (feasible Drained need 0 infos = true -> exists pl, drained_result = Ok pl) /\
  (feasible Drained need 0 infos = false -> drained_result = Err EInsufficientResource).
Proof.
  intros Ht Hmax. unfold drained_result, feasible. fold (caps infos).
  assert (Hs : total = Z.min max_int (caps infos)).
  { rewrite Ht. apply satsum_spec. destruct Hvalid as [_ Hv].
    rewrite Forall_forall in *. intros z Hz. apply in_map_iff in Hz. destruct Hz as (x & <- & Hx).
    apply Hv. exact Hx. }
  rewrite (caps_perm _ _ Hperm) in *.
  destruct (drained_loop_spec sorted need [] ltac:(lia) drained_caps_nonneg) as [I1 I2].
  split.
  - rewrite Z.leb_le. intro Hf. destruct (Z.ltb_spec total need); [lia|].
    destruct (I2 Hf) as (l1 & x & l2 & _ & _ & Hr). eexists. exact Hr.
  - rewrite Z.leb_gt. intro Hf. destruct (Z.ltb_spec total need); [reflexivity|lia].
Qed.

Lemma drained_C03 pl limit : drained_from sorted need total = Ok pl -> C03_spec Drained need limit infos pl.
Proof.
  intro H. destruct (drained_from_plan pl H) as (l1 & x & l2 & E & Hb & P1 & P2 & P3 & P4 & P5 & P6).
  intros a b Ha Hb'. cbv zeta. intros Hcap Hpb.
  assert (Has : In a sorted) by (eapply Permutation_in; eauto).
  assert (Hbs : In b sorted) by (eapply Permutation_in; eauto).
  pose proof (drained_sorted_strong _ Hsorted) as Hss.
  pose proof drained_sorted_nodup as Hnd.
  (* b received something: it is in l1 or is x *)
  assert (Hb1x : In b (l1 ++ [x])).
  { rewrite E in Hbs. replace (l1 ++ x :: l2) with ((l1 ++ [x]) ++ l2) in Hbs by (rewrite <- app_assoc; reflexivity).
    apply in_app_or in Hbs. destruct Hbs as [|Hb2]; [assumption|].
    exfalso. rewrite P5 in Hpb; [lia|]. intro Hin.
    rewrite E in Hnd. replace (l1 ++ x :: l2) with ((l1 ++ [x]) ++ l2) in Hnd by (rewrite <- app_assoc; reflexivity).
    rewrite names_app in Hnd. apply (nodup_app_disjoint _ _ (name b) Hnd Hin). apply in_names. exact Hb2. }
  (* a stands strictly before b, hence in l1 *)
  rewrite E in Has. apply in_app_or in Has. destruct Has as [Ha1|Ha2]; [apply P3; exact Ha1|].
  exfalso. apply in_app_or in Hb1x. destruct Hb1x as [Hbl1|[<-|[]]].
  - rewrite E in Hss. pose proof (ssorted_app_rel drained_rel _ _ b a Hss Hbl1 Ha2) as Hr.
    unfold drained_rel in Hr. lia.
  - destruct Ha2 as [->|Ha2]; [lia|].
    rewrite E in Hss. apply StronglySorted_inv in Hss || idtac.
    assert (Hss2 : StronglySorted drained_rel (x :: l2)).
    { clear -Hss. induction l1 as [|h t IH]; simpl in *; auto. inversion Hss; auto. }
    inversion Hss2 as [|? ? _ Hall]; subst. rewrite Forall_forall in Hall.
    specialize (Hall a Ha2). unfold drained_rel in Hall. lia.
Qed.
End DrainedS.
