(* C01/C02/C03 restated for the int64 twin on its domain. *)
From Coq Require Import String Ascii.
From Coq Require Import List Bool ZArith Lia.
From Verif Require Import Base.GoInt Base.GoFloat Strategy.Model Strategy.ModelW Strategy.ProofsBase
  Strategy.Proofs Strategy.ProofsW.
Import ListNotations.
Local Open Scope Z_scope.

Lemma dom64_valid s need limit infos : NoDup (names infos) -> dom64 s need limit infos -> valid_infos infos.
Proof.
  intros Hnd (_ & _ & Hi & _). split; [exact Hnd|].
  eapply Forall_impl; [|exact Hi]. simpl. intros x Hx. lia.
Qed.

Section W.
Variables (s : strategy) (need limit : Z) (infos : list info) (total : Z).
Hypothesis Hnd : NoDup (names infos).
Hypothesis Hd : dom64 s need limit infos.

Lemma C01_sound_W p : is_plan (deployW s need limit infos total) p -> C01_spec s need limit infos p.
Proof.
  rewrite (deployW_eq s need limit infos total Hnd Hd).
  destruct Hd as (Hn & Hl & _). apply C01_sound; [eapply dom64_valid; eauto|lia|lia].
Qed.

Lemma C02_complete_W : s <> Other -> total = satsum (map cap infos) ->
  (feasible s need limit infos = true -> exists p, is_plan (deployW s need limit infos total) p) /\
  (feasible s need limit infos = false -> refusal (deployW s need limit infos total)).
Proof.
  intros Hs Ht. rewrite (deployW_eq s need limit infos total Hnd Hd).
  destruct Hd as (Hn & Hl & _). apply C02_complete; auto; try lia. eapply dom64_valid; eauto.
Qed.

Lemma C03_rules_W p : (s = Global -> float_ok infos) ->
  is_plan (deployW s need limit infos total) p -> C03_spec s need limit infos p.
Proof.
  intro Hf. rewrite (deployW_eq s need limit infos total Hnd Hd).
  destruct Hd as (Hn & Hl & _). apply C03_rules; auto; try lia. eapply dom64_valid; eauto.
Qed.
End W.
