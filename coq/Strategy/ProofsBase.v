(* Shared lemmas for the strategy proofs: finite maps as association lists,
   sums, the Prop-level specifications of C01/C02/C03 and their boolean
   reflections. *)
From Coq Require Import String Ascii.
From Coq Require Import List Bool ZArith Arith Lia Permutation Sorted.
From Verif Require Import Base.GoInt Base.GoFloat Base.GoHeap Base.GoSort Base.RunLib Strategy.Model.
Import ListNotations.
Local Open Scope Z_scope.

(* ---- strings ---- *)
Lemma seqb_refl k : String.eqb k k = true.
Proof. apply String.eqb_refl. Qed.
Lemma seqb_eq k k' : String.eqb k k' = true <-> k = k'.
Proof. apply String.eqb_eq. Qed.
Lemma seqb_neq k k' : String.eqb k k' = false <-> k <> k'.
Proof. apply String.eqb_neq. Qed.
Lemma seqb_sym k k' : String.eqb k k' = String.eqb k' k.
Proof. apply String.eqb_sym. Qed.

(* ---- maps ---- *)
Lemma mget_mset_same m k v : mget (mset m k v) k = v.
Proof.
  induction m as [|[k' v'] t IH]; simpl.
  - rewrite seqb_refl. reflexivity.
  - destruct (String.eqb k' k) eqn:E; simpl; rewrite E; auto.
Qed.

Lemma mget_mset_other m k v k' : k <> k' -> mget (mset m k v) k' = mget m k'.
Proof.
  intro Hne. induction m as [|[k2 v2] t IH]; simpl.
  - apply seqb_neq in Hne. rewrite Hne. reflexivity.
  - destruct (String.eqb k2 k) eqn:E; simpl.
    + apply seqb_eq in E. subst k2. apply seqb_neq in Hne. rewrite Hne. reflexivity.
    + destruct (String.eqb k2 k'); auto.
Qed.

Lemma mhas_mset m k v k' : mhas (mset m k v) k' = String.eqb k k' || mhas m k'.
Proof.
  induction m as [|[k2 v2] t IH]; simpl.
  - reflexivity.
  - destruct (String.eqb k2 k) eqn:E; simpl.
    + apply seqb_eq in E. subst k2. destruct (String.eqb k k'); reflexivity.
    + rewrite IH. destruct (String.eqb k2 k'), (String.eqb k k'); reflexivity.
Qed.

Lemma mget_madd_same m k v : mget (madd m k v) k = mget m k + v.
Proof. unfold madd. apply mget_mset_same. Qed.
Lemma mget_madd_other m k v k' : k <> k' -> mget (madd m k v) k' = mget m k'.
Proof. unfold madd. apply mget_mset_other. Qed.
Lemma mhas_madd m k v k' : mhas (madd m k v) k' = String.eqb k k' || mhas m k'.
Proof. unfold madd. apply mhas_mset. Qed.

Lemma mhas_in m k : mhas m k = true <-> In k (map fst m).
Proof.
  induction m as [|[k' v'] t IH]; simpl.
  - split; [discriminate|tauto].
  - rewrite orb_true_iff, IH, seqb_eq. tauto.
Qed.

Lemma mhas_false_mget m k : mhas m k = false -> mget m k = 0.
Proof.
  induction m as [|[k' v'] t IH]; simpl; auto.
  destruct (String.eqb k' k); simpl; [discriminate|auto].
Qed.

Lemma keys_mset m k v : mhas m k = true -> map fst (mset m k v) = map fst m.
Proof.
  induction m as [|[k' v'] t IH]; simpl; [discriminate|].
  destruct (String.eqb k' k) eqn:E; simpl; auto.
  intro H. rewrite IH; auto.
Qed.

Lemma keys_mset_new m k v : mhas m k = false -> map fst (mset m k v) = map fst m ++ [k].
Proof.
  induction m as [|[k' v'] t IH]; simpl; auto.
  destruct (String.eqb k' k) eqn:E; simpl; [discriminate|].
  intro H. rewrite IH; auto.
Qed.

Lemma nodup_keys_mset m k v : NoDup (map fst m) -> NoDup (map fst (mset m k v)).
Proof.
  intro H. destruct (mhas m k) eqn:E.
  - rewrite keys_mset; auto.
  - rewrite keys_mset_new; auto.
    assert (Hn : ~ In k (map fst m)) by (rewrite <- mhas_in; congruence).
    clear E. induction (map fst m) as [|a l IH]; simpl.
    + constructor; [tauto|constructor].
    + inversion H; subst. constructor.
      * rewrite in_app_iff. simpl. intros [?|[?|[]]]; [tauto|]. subst. apply Hn. left; reflexivity.
      * apply IH; auto. intro. apply Hn. right; auto.
Qed.

Lemma length_mset m k v : length (mset m k v) = if mhas m k then length m else S (length m).
Proof.
  induction m as [|[k' v'] t IH]; simpl; auto.
  destruct (String.eqb k' k) eqn:E; simpl; auto.
  rewrite IH. destruct (mhas t k); reflexivity.
Qed.

Lemma plan_sum_mset m k v : plan_sum (mset m k v) = plan_sum m - mget m k + v.
Proof.
  unfold plan_sum. induction m as [|[k' v'] t IH]; simpl.
  - lia.
  - destruct (String.eqb k' k) eqn:E; simpl.
    + lia.
    + unfold sumZ in *. simpl. lia.
Qed.

Lemma plan_sum_madd m k v : plan_sum (madd m k v) = plan_sum m + v.
Proof. unfold madd. rewrite plan_sum_mset. lia. Qed.

(* ---- names ---- *)
Lemma in_names x l : In x l -> In (name x) (names l).
Proof. intro H. unfold names. apply in_map. exact H. Qed.

Lemma nodup_names_inj l x y : NoDup (names l) -> In x l -> In y l -> name x = name y -> x = y.
Proof.
  induction l as [|a t IH]; simpl; intros Hnd Hx Hy E; [tauto|].
  inversion Hnd as [|? ? Hna Hnt]; subst.
  destruct Hx as [->|Hx], Hy as [->|Hy]; auto.
  - exfalso. apply Hna. rewrite E. apply in_names; auto.
  - exfalso. apply Hna. rewrite <- E. apply in_names; auto.
Qed.

Lemma perm_names l l' : Permutation l l' -> Permutation (names l) (names l').
Proof. intro H. unfold names. apply Permutation_map. exact H. Qed.

Lemma nodup_names_perm l l' : Permutation l l' -> NoDup (names l) -> NoDup (names l').
Proof. intros Hp H. eapply Permutation_NoDup; [apply perm_names; exact Hp|exact H]. Qed.

(* ---- sums ---- *)
Lemma sumZ_app l1 l2 : sumZ (l1 ++ l2) = sumZ l1 + sumZ l2.
Proof. unfold sumZ. induction l1; simpl; lia. Qed.

Lemma sumZ_perm l l' : Permutation l l' -> sumZ l = sumZ l'.
Proof. unfold sumZ. induction 1; simpl; lia. Qed.

Lemma sumZ_nonneg l : Forall (fun z => 0 <= z) l -> 0 <= sumZ l.
Proof. unfold sumZ. induction 1; simpl; lia. Qed.

Lemma satadd_spec a b : 0 <= a <= max_int -> 0 <= b -> satadd a b = Z.min max_int (a + b).
Proof.
  intros Ha Hb. unfold satadd. destruct (Z.leb_spec max_int (a + b)); lia.
Qed.

Lemma satsum_from l : Forall (fun z => 0 <= z) l -> forall acc, 0 <= acc <= max_int ->
  fold_left satadd l acc = Z.min max_int (acc + sumZ l).
Proof.
  induction 1 as [|z t Hz Ht IH]; intros acc Hacc; simpl.
  - unfold sumZ; simpl. lia.
  - rewrite IH.
    + rewrite satadd_spec by lia. unfold sumZ; simpl. fold (sumZ t).
      assert (0 <= sumZ t) by (apply sumZ_nonneg; auto). lia.
    + rewrite satadd_spec by lia. unfold max_int in *. lia.
Qed.

Lemma satsum_spec l : Forall (fun z => 0 <= z) l -> satsum l = Z.min max_int (sumZ l).
Proof. intro H. unfold satsum. rewrite satsum_from; auto. unfold max_int; lia. Qed.

Lemma countb_app {A} (f : A -> bool) l1 l2 : countb f (l1 ++ l2) = countb f l1 + countb f l2.
Proof. unfold countb. rewrite filter_app, app_length. lia. Qed.

Lemma countb_perm {A} (f : A -> bool) l l' : Permutation l l' -> countb f l = countb f l'.
Proof.
  unfold countb. induction 1; simpl; auto.
  - destruct (f x); simpl; lia.
  - destruct (f x), (f y); simpl; lia.
  - lia.
Qed.

Lemma countb_cons {A} (f : A -> bool) x l : countb f (x :: l) = (if f x then 1 else 0) + countb f l.
Proof. unfold countb. cbn [filter]. destruct (f x); cbn [length]; lia. Qed.

Lemma countb_nonneg {A} (f : A -> bool) l : 0 <= countb f l.
Proof. unfold countb. lia. Qed.

Lemma countb_le_length {A} (f : A -> bool) l : countb f l <= Z.of_nat (length l).
Proof. unfold countb. induction l as [|x t IH]; cbn [filter length]; [lia|]. destruct (f x); cbn [length]; lia. Qed.

(* ---- validity of the candidate table ---- *)
Definition valid_infos (infos : list info) : Prop :=
  NoDup (names infos) /\ Forall (fun x => 0 <= cap x /\ 0 <= cnt x) infos.

Lemma valid_infos_perm l l' : Permutation l l' -> valid_infos l -> valid_infos l'.
Proof.
  intros Hp [H1 H2]. split.
  - eapply nodup_names_perm; eauto.
  - rewrite Forall_forall in *. intros x Hx. apply H2. eapply Permutation_in; [symmetry; exact Hp|exact Hx].
Qed.

Definition is_plan (r : result) (p : plan) : Prop := r = Ok p \/ r = AlreadyFilled p.

(* ---- C01 as a proposition ---- *)
Definition C01_spec (s : strategy) (need limit : Z) (infos : list info) (p : plan) : Prop :=
  NoDup (map fst p) /\
  (forall k, mhas p k = true -> In k (names infos)) /\
  (forall x, In x infos -> 0 <= mget p (name x) <= cap x) /\
  match s with
  | Auto | Global | Drained => plan_sum p = need
  | Each => Z.of_nat (length p) = each_limit infos limit /\
            (forall k, mhas p k = true -> mget p k = need)
  | Fill => Z.of_nat (length p) = each_limit infos limit /\
            (forall x, In x infos -> mhas p (name x) = true -> fin p x = Z.max (cnt x) need)
  | Other => False
  end /\
  (s = Auto -> limit <> 0 -> forall x, In x infos -> 1 <= mget p (name x) -> fin p x <= limit).

(* ---- C03 as a proposition ---- *)
Definition C03_spec (s : strategy) (need limit : Z) (infos : list info) (p : plan) : Prop :=
  forall a b, In a infos -> In b infos ->
  let pa := mget p (name a) in
  let pb := mget p (name b) in
  match s with
  | Auto => 1 <= pa -> 1 <= cap b - pb -> (limit = 0 \/ fin p b < limit) -> fin p a <= fin p b + 1
  | Global => 1 <= pa -> 1 <= cap b - pb ->
              fle (usage_fin p a) (fadd (usage_fin p b) (rate b)) = true
  | Drained => cap a < cap b -> 1 <= pb -> pa = cap a
  | Each => mhas p (name a) = true -> mhas p (name b) = false -> cap b <= cap a
  | Fill => mhas p (name a) = true -> mhas p (name b) = false -> need <= cnt b + cap b ->
            cnt b < cnt a \/ (cnt b = cnt a /\ cap b <= cap a)
  | Other => True
  end.

(* ---- boolean reflection helpers ---- *)
Lemma nodupb_spec l : nodupb l = true <-> NoDup l.
Proof.
  induction l as [|x t IH]; simpl.
  - split; [constructor|reflexivity].
  - rewrite andb_true_iff, negb_true_iff, IH. split.
    + intros [H1 H2]. constructor; auto. intro Hin.
      assert (existsb (String.eqb x) t = true); [|congruence].
      apply existsb_exists. exists x. split; auto. apply seqb_refl.
    + intro H. inversion H; subst. split; auto.
      destruct (existsb (String.eqb x) t) eqn:E; auto.
      apply existsb_exists in E. destruct E as (y & Hy & Exy). apply seqb_eq in Exy. subst. tauto.
Qed.

Lemma existsb_eqb_in k l : existsb (String.eqb k) l = true <-> In k l.
Proof.
  rewrite existsb_exists. split.
  - intros (y & Hy & E). apply seqb_eq in E. subst. auto.
  - intro H. exists k. split; auto. apply seqb_refl.
Qed.

Lemma C01_reflect s need limit infos p :
  C01_plan_ok s need limit infos p = true <-> C01_spec s need limit infos p.
Proof.
  unfold C01_plan_ok, C01_spec.
  rewrite !andb_true_iff, nodupb_spec, !forallb_forall.
  split.
  - intros ((((H1 & H2) & H3) & H4) & H5). split; [exact H1|]. split; [|split; [|split]].
    + intros k Hk. apply mhas_in in Hk. apply in_map_iff in Hk. destruct Hk as ([k' v] & <- & Hin).
      apply existsb_eqb_in. apply (H2 _ Hin).
    + intros x Hx. specialize (H3 x Hx). apply andb_true_iff in H3. lia.
    + destruct s; try (apply Z.eqb_eq; exact H4); try discriminate.
      * apply andb_true_iff in H4. destruct H4 as [Ha Hb]. split; [lia|].
        rewrite forallb_forall in Hb. intros x Hx Hh.
        specialize (Hb x Hx). rewrite Hh in Hb. simpl in Hb. lia.
      * apply andb_true_iff in H4. destruct H4 as [Ha Hb]. split; [lia|].
        rewrite forallb_forall in Hb. intros k Hk.
        apply mhas_in in Hk. apply in_map_iff in Hk. destruct Hk as ([k' v] & <- & Hin).
        specialize (Hb _ Hin). simpl in *.
        assert (mget p k' = v); [|lia].
        clear -H1 Hin. induction p as [|[k2 v2] t IH]; simpl in *; [tauto|].
        inversion H1; subst. destruct Hin as [E|Hin].
        -- inversion E; subst. rewrite seqb_refl. reflexivity.
        -- destruct (String.eqb k2 k') eqn:E2.
           ++ apply seqb_eq in E2. subst. exfalso. apply H2. apply in_map_iff. exists (k', v). auto.
           ++ apply IH; auto.
    + intros -> Hl x Hx Hp. apply orb_true_iff in H5. destruct H5 as [H5|H5]; [lia|].
      rewrite forallb_forall in H5. specialize (H5 x Hx). apply orb_true_iff in H5. lia.
  - intros (H1 & H2 & H3 & H4 & H5). split; [split; [split; [split|]|]|].
    + exact H1.
    + intros [k v] Hin. simpl. apply existsb_eqb_in. apply H2. apply mhas_in.
      apply in_map_iff. exists (k, v). auto.
    + intros x Hx. specialize (H3 x Hx). apply andb_true_iff. lia.
    + destruct s; try (apply Z.eqb_eq; exact H4); try tauto.
      * destruct H4 as [Ha Hb]. apply andb_true_iff. split; [lia|].
        apply forallb_forall. intros x Hx. destruct (mhas p (name x)) eqn:E; simpl; auto.
        specialize (Hb x Hx E). lia.
      * destruct H4 as [Ha Hb]. apply andb_true_iff. split; [lia|].
        apply forallb_forall. intros [k v] Hin. simpl.
        assert (Hk : mhas p k = true) by (apply mhas_in; apply in_map_iff; exists (k, v); auto).
        specialize (Hb k Hk).
        assert (mget p k = v); [|lia].
        clear -H1 Hin. induction p as [|[k2 v2] t IH]; simpl in *; [tauto|].
        inversion H1; subst. destruct Hin as [E|Hin].
        -- inversion E; subst. rewrite seqb_refl. reflexivity.
        -- destruct (String.eqb k2 k) eqn:E2.
           ++ apply seqb_eq in E2. subst. exfalso. apply H2. apply in_map_iff. exists (k, v). auto.
           ++ apply IH; auto.
    + destruct s; auto.
      destruct (Z.eqb_spec limit 0) as [|Hl]; simpl; auto.
      apply forallb_forall. intros x Hx. apply orb_true_iff.
      destruct (Z.ltb_spec (mget p (name x)) 1); [left; reflexivity|right].
      specialize (H5 eq_refl Hl x Hx). lia.
Qed.
