(* int64 twin of Strategy/Model.v: the same functions with EVERY Go int
   addition / subtraction performed in two's-complement int64 arithmetic
   ([wrap64]).  Comparisons, min/max and assignments need no wrapping.  This is
   the model the correspondence check runs ([agreeW]); Strategy/ProofsW.v proves
   it equal to the unbounded-Z model on the validated domain [int64_domain], so
   "Go ints are int64" is a theorem hypothesis with explicit overflow sites, not
   an assumption.  Executable definitions only. *)
From Coq Require Import String Ascii.
From Coq Require Import List Bool ZArith Arith.
From Verif Require Import Base.GoInt Base.GoFloat Base.GoHeap Base.GoSort Base.RunLib Cpumem.Pdqsort Strategy.Model.
Import ListNotations.
Local Open Scope Z_scope.

Definition addw (a b : Z) : Z := wrap64 (a + b).
Definition subw (a b : Z) : Z := wrap64 (a - b).

(* m[k] += v *)
Definition maddw (m : plan) (k : string) (v : Z) : plan := mset m k (addw (mget m k) v).

(* ---- communism.go ---- *)
Definition bumpW (x : info) : info :=
  mkInfo (name x) (usage x) (rate x) (subw (cap x) 1) (addw (cnt x) 1).   (* Capacity--, Count++ *)

Fixpoint auto_loopW (k : nat) (h : list info) (limit : Z) (dep : plan) : result :=
  match k with
  | O => OutOfFuel
  | S k' =>
    match pop dinfo auto_less h with
    | None => Err EInsufficientResource
    | Some (x, h') =>
      let dep' := maddw dep (name x) 1 in                  (* deploy[info.Nodename]++ *)
      match k' with
      | O => Ok dep'
      | _ =>
        let x' := bumpW x in
        let h'' := if auto_keep limit x' then push dinfo auto_less h' x'
                   else up dinfo auto_less (length h') h' (length h' - 1)%nat in
        auto_loopW k' h'' limit dep'
      end
    end
  end.

Definition communismW (infos : list info) (need total limit : Z) : result :=
  if total <? need then Err EInsufficientResource else
  let h := init dinfo auto_less (filter (auto_keep limit) infos) in
  auto_loopW (Z.to_nat need) h limit [].

(* ---- global.go ---- *)
Definition glob_stepW (x : info) : info :=
  mkInfo (name x) (fstore (fadd (usage x) (rate x))) (rate x) (subw (cap x) 1) (cnt x).

Fixpoint glob_loopW (k : nat) (h : list info) (dep : plan) : result :=
  match k with
  | O => Ok dep
  | S k' =>
    match pop dinfo glob_less h with
    | None => Err EInsufficientResource
    | Some (x, h') =>
      let dep' := maddw dep (name x) 1 in
      let x' := glob_stepW x in
      let h'' := if cap x' >? 0 then push dinfo glob_less h' x' else h' in
      glob_loopW k' h'' dep'
    end
  end.

Definition globalW (infos : list info) (need total : Z) : result :=
  if total <? need then Err EInsufficientResource else
  let h := init dinfo glob_less (filter (fun x => cap x >? 0) infos) in
  glob_loopW (Z.to_nat need) h [].

(* ---- drained.go ---- *)
Fixpoint drained_loopW (l : list info) (need : Z) (dep : plan) : result :=
  match l with
  | [] => Err EInsufficientResource
  | x :: t =>
    let '(dep', need') :=
      if need <? cap x then (mset dep (name x) need, 0)
      else (mset dep (name x) (cap x), subw need (cap x)) in          (* need -= info.Capacity *)
    if need' =? 0 then Ok dep' else drained_loopW t need' dep'
  end.

Definition drainedW (infos : list info) (need total : Z) : result :=
  if total <? need then Err EInsufficientResource else
  drained_loopW (gosort drained_less infos) need [].

(* ---- average.go ---- *)
Definition each_fromW (sorted : list info) (need limit : Z) : result :=
  let n := length sorted in
  let p := search n (fun i => cap (nth i sorted dinfo) <? need) in
  if (p =? 0)%nat then Err EInsufficientCapacity else
  if Z.of_nat p <? limit then Err EInsufficientResource else
  if limit <? 0 then Panic else
  Ok (fold_left (fun dep x => maddw dep (name x) need) (firstn (Z.to_nat limit) sorted) []).

Definition averageW (infos : list info) (need limit : Z) : result * list info :=
  let limit' := each_limit infos limit in
  if Z.of_nat (length infos) <? limit' then (Err EInsufficientResource, infos) else
  let sorted := gosort each_less infos in
  (each_fromW sorted need limit', sorted).

(* ---- fill.go ---- *)
Definition fillableW (need : Z) (x : info) : bool := cap x >=? subw need (cnt x).

Fixpoint fill_loopW (l : list info) (need limit : Z) (dep : plan) (todo : Z) : result :=
  match l with
  | [] => Err EInsufficientResource
  | x :: t =>
    if fillableW need x then
      let dep' := maddw dep (name x) (Z.max (subw need (cnt x)) 0) in
      let todo' := addw todo (mget dep' (name x)) in                 (* toDeploy += deployMap[...] *)
      let limit' := subw limit 1 in                                  (* limit-- *)
      if limit' =? 0 then (if todo' =? 0 then AlreadyFilled dep' else Ok dep')
      else fill_loopW t need limit' dep' todo'
    else fill_loopW t need limit dep todo
  end.

Definition fillW (infos : list info) (need limit : Z) : result * list info :=
  let limit' := each_limit infos limit in
  if Z.of_nat (length infos) <? limit' then (Err EInsufficientResource, infos) else
  let sorted := gosort fill_less infos in
  (fill_loopW sorted need limit' [] 0, sorted).

(* ---- strategy.go ---- *)
Definition deploy_fullW (s : strategy) (count limit : Z) (infos : list info) (total : Z)
  : result * list info :=
  match s with
  | Other => (Err EInvalidStrategy, infos)
  | _ =>
    if count <=? 0 then (Err EInvalidCount, infos) else
    match s with
    | Auto => (communismW infos count total limit, infos)
    | Global => (globalW infos count total, infos)
    | Drained => (drainedW infos count total, infos)
    | Each => averageW infos count limit
    | Fill => fillW infos count limit
    | Other => (Err EInvalidStrategy, infos)
    end
  end.
Definition deployW s count limit infos total : result := fst (deploy_fullW s count limit infos total).

(* ---- slices longer than 12: Go's sort.Slice is pdqsort (unstable).  Builder B's exact
   port Cpumem/Pdqsort.sort_slice (cross-checked against the real sort.Slice) gives the
   very permutation Go produces, so these cases are compared exactly too.  The theorems do
   not depend on it: they hold for every sorted permutation, and [agreeW] still checks
   that the observed order is one. ---- *)
Definition pdqsort (less : info -> info -> bool) (l : list info) : list info := sort_slice info dinfo less l.

Definition drainedP (infos : list info) (need total : Z) : result :=
  if total <? need then Err EInsufficientResource else
  drained_loopW (pdqsort drained_less infos) need [].
Definition averageP (infos : list info) (need limit : Z) : result * list info :=
  let limit' := each_limit infos limit in
  if Z.of_nat (length infos) <? limit' then (Err EInsufficientResource, infos) else
  let sorted := pdqsort each_less infos in
  (each_fromW sorted need limit', sorted).
Definition fillP (infos : list info) (need limit : Z) : result * list info :=
  let limit' := each_limit infos limit in
  if Z.of_nat (length infos) <? limit' then (Err EInsufficientResource, infos) else
  let sorted := pdqsort fill_less infos in
  (fill_loopW sorted need limit' [] 0, sorted).
Definition deploy_fullP (s : strategy) (count limit : Z) (infos : list info) (total : Z)
  : result * list info :=
  match s with
  | Drained => if count <=? 0 then (Err EInvalidCount, infos) else (drainedP infos count total, infos)
  | Each => if count <=? 0 then (Err EInvalidCount, infos) else averageP infos count limit
  | Fill => if count <=? 0 then (Err EInvalidCount, infos) else fillP infos count limit
  | _ => deploy_fullW s count limit infos total
  end.

(* the caller's slice after the call must be a sorted permutation of the candidates
   whenever the strategy sorted it (the hypothesis of the *_any_sorted_order theorems) *)
Definition observed_order_ok (c : case) (after : list info) : bool :=
  match c_strat c with
  | Each | Fill =>
      if strlist_eqb (names after) (names (c_infos c)) && negb (sortedb (sort_less (c_strat c)) (c_infos c))
      then true      (* not sorted by the model => untouched, equality is checked by the caller *)
      else
        let obs := map (fun k => match find_info (c_infos c) k with Some x => x | None => dinfo end) (o_order c) in
        Nat.eqb (length obs) (length (c_infos c)) && nodupb (o_order c) &&
        forallb (fun k => existsb (String.eqb k) (names (c_infos c))) (o_order c) &&
        sortedb (sort_less (c_strat c)) obs
  | _ => true
  end.

(* correspondence: exact comparison of outcome, plan map and post-call slice order in all
   cases; int64 twin with gosort (= Go's insertion sort) up to 12 elements, pdqsort beyond *)
Definition agreeW (c : case) : bool :=
  if negb (is_sorting (c_strat c)) || Nat.leb (length (c_infos c)) 12 then
    let '(r, after) := deploy_fullW (c_strat c) (c_need c) (c_limit c) (c_infos c) (c_total c) in
    res_eqb r (o_res c) && strlist_eqb (names after) (o_order c)
  else
    let '(r, after) := deploy_fullP (c_strat c) (c_need c) (c_limit c) (c_infos c) (c_total c) in
    res_eqb r (o_res c) && strlist_eqb (names after) (o_order c) &&
    (if nodupb (names (c_infos c)) then observed_order_ok c after else true).

(* the former comparison modulo ties (outcome class + projected multiset), kept for
   reference; justified by ProofsProj.v, no longer used by the check *)
Definition agreeW_projected (c : case) : bool :=
  let '(r, after) := deploy_fullW (c_strat c) (c_need c) (c_limit c) (c_infos c) (c_total c) in
  if negb (is_sorting (c_strat c)) || Nat.leb (length (c_infos c)) 12 then
    res_eqb r (o_res c) && strlist_eqb (names after) (o_order c)
  else
    res_class_eqb r (o_res c) &&
    match plan_of r, plan_of (o_res c) with
    | Some p, Some q =>
        multiset_eqb (map (proj (c_strat c) p) (c_infos c)) (map (proj (c_strat c) q) (c_infos c))
        && Nat.eqb (length p) (length q)
    | None, None => true
    | _, _ => false
    end &&
    match c_strat c with
    | Drained => strlist_eqb (names (c_infos c)) (o_order c)
    | _ =>
      if strlist_eqb (names after) (names (c_infos c)) && negb (sortedb (sort_less (c_strat c)) (c_infos c))
      then strlist_eqb (names after) (o_order c)
      else
        let obs := map (fun k => match find_info (c_infos c) k with Some x => x | None => dinfo end) (o_order c) in
        Nat.eqb (length obs) (length (c_infos c)) && nodupb (o_order c) &&
        forallb (fun k => existsb (String.eqb k) (names (c_infos c))) (o_order c) &&
        sortedb (sort_less (c_strat c)) obs
    end.
