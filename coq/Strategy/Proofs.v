(* Top-level statements for C01, C02, C03 about [deploy] (strategy.Deploy),
   assembled from ProofsSort / ProofsAuto / ProofsGlobal, and the links to the
   boolean reflections the correspondence check evaluates. *)
From Coq Require Import String Ascii.
From Coq Require Import List Bool ZArith Arith Lia Permutation Sorted.
From Verif Require Import Base.GoInt Base.GoFloat Base.GoFloatLemmas Base.GoSort Base.GoSortSpec
  Strategy.Model Strategy.ProofsBase Strategy.ProofsSort Strategy.ProofsAuto Strategy.ProofsGlobal.
Import ListNotations.
Local Open Scope Z_scope.

(* ---- the comparators are asymmetric, so gosort yields a sorted permutation ---- *)
Lemma each_less_asym x y : each_less x y = true -> each_less y x = false.
Proof. unfold each_less. lia. Qed.
Lemma fill_less_asym x y : fill_less x y = true -> fill_less y x = false.
Proof.
  unfold fill_less. rewrite (Z.eqb_sym (cnt y) (cnt x)).
  destruct (Z.eqb_spec (cnt x) (cnt y)); lia.
Qed.
Lemma drained_less_asym x y : drained_less x y = true -> drained_less y x = false.
Proof.
  unfold drained_less. rewrite (Z.eqb_sym (cap y) (cap x)).
  destruct (Z.eqb_spec (cap x) (cap y)); simpl; [|lia].
  unfold fgt. apply flt_asym.
Qed.

Definition float_ok (infos : list info) : Prop :=
  forall x, In x infos -> f_finite (usage x) = true /\ f_finite (rate x) = true /\ fle fzero (rate x) = true.

Section Top.
Variables (infos : list info) (need limit total : Z).
Hypothesis Hvalid : valid_infos infos.
Hypothesis Hneed : 0 < need.
Hypothesis Hlimit : 0 <= limit.

Lemma need_pos_leb : (need <=? 0) = false.
Proof. lia. Qed.

(* the sorted permutations the model uses *)
Let sE := gosort each_less infos.
Let sF := gosort fill_less infos.
Let sD := gosort drained_less infos.
Lemma pE : Permutation infos sE. Proof. symmetry. apply gosort_perm. Qed.
Lemma pF : Permutation infos sF. Proof. symmetry. apply gosort_perm. Qed.
Lemma pD : Permutation infos sD. Proof. symmetry. apply gosort_perm. Qed.
Lemma oE : Sorted (ngt each_less) sE. Proof. apply gosort_sorted. exact each_less_asym. Qed.
Lemma oF : Sorted (ngt fill_less) sF. Proof. apply gosort_sorted. exact fill_less_asym. Qed.
Lemma oD : Sorted (ngt drained_less) sD. Proof. apply gosort_sorted. exact drained_less_asym. Qed.

(* instantiate the section hypotheses of a lemma from the context *)
Ltac feed H :=
  repeat (match type of H with
          | ?A -> _ => let a := fresh "a" in
              assert (a : A) by (solve [assumption | apply pE | apply pF | apply pD
                                       | apply oE | apply oF | apply oD | lia]);
              specialize (H a); clear a
          end).
Ltac use L H := pose proof L as H; feed H.

Lemma deploy_auto : deploy Auto need limit infos total = communism infos need total limit.
Proof. unfold deploy, deploy_full. rewrite need_pos_leb. reflexivity. Qed.
Lemma deploy_global : deploy Global need limit infos total = global infos need total.
Proof. unfold deploy, deploy_full. rewrite need_pos_leb. reflexivity. Qed.
Lemma deploy_drained : deploy Drained need limit infos total = drained_result sD need total.
Proof. unfold deploy, deploy_full. rewrite need_pos_leb. reflexivity. Qed.
Lemma deploy_each : deploy Each need limit infos total = each_result infos sE need limit.
Proof.
  unfold deploy, deploy_full. rewrite need_pos_leb. unfold average, each_result. simpl.
  destruct (Z.of_nat (length infos) <? each_limit infos limit); reflexivity.
Qed.
Lemma deploy_fill : deploy Fill need limit infos total = fill_result infos sF need limit.
Proof.
  unfold deploy, deploy_full. rewrite need_pos_leb. unfold fill, fill_result. simpl.
  destruct (Z.of_nat (length infos) <? each_limit infos limit); reflexivity.
Qed.

(* ---- outcome classification: never a panic, never out of fuel ---- *)
Definition refusal (r : result) : Prop :=
  r = Err EInsufficientResource \/ r = Err EInsufficientCapacity.

Lemma auto_outcome :
  (exists p, communism infos need total limit = Ok p /\ dep_inv infos limit p /\ plan_sum p = need /\
             total >= need /\ need <= sumZ (map (room limit) infos)) \/
  (communism infos need total limit = Err EInsufficientResource /\
   (total < need \/ sumZ (map (room limit) infos) < need)).
Proof.
  use (communism_spec infos limit) HH. specialize (HH need total). feed HH. destruct HH as [I1 I2].
  destruct (Z_lt_ge_dec total need) as [Ht|Ht]; [right; split; [apply I2|]; auto|].
  destruct (Z_lt_ge_dec (sumZ (map (room limit) infos)) need) as [Hr|Hr]; [right; split; [apply I2|]; auto|].
  left. destruct (I1 Ht ltac:(lia)) as (p & Hp & Hi & Hs). exists p. split; [exact Hp|]. split; [exact Hi|]. split; [exact Hs|]. split; lia.
Qed.

Lemma global_outcome :
  (exists p, global infos need total = Ok p /\ gdep_inv infos p /\ plan_sum p = need /\
             total >= need /\ need <= sumZ (map cap infos)) \/
  (global infos need total = Err EInsufficientResource /\
   (total < need \/ sumZ (map cap infos) < need)).
Proof.
  use (global_spec infos) HH. specialize (HH need total). feed HH. destruct HH as [I1 I2].
  destruct (Z_lt_ge_dec total need) as [Ht|Ht]; [right; split; [apply I2|]; auto|].
  destruct (Z_lt_ge_dec (sumZ (map cap infos)) need) as [Hr|Hr]; [right; split; [apply I2|]; auto|].
  left. destruct (I1 Ht ltac:(lia)) as (p & Hp & Hi & Hs). exists p. split; [exact Hp|]. split; [exact Hi|]. split; [exact Hs|]. split; lia.
Qed.

Lemma drained_outcome :
  (exists p, drained_result sD need total = Ok p /\ drained_from sD need total = Ok p) \/
  drained_result sD need total = Err EInsufficientResource.
Proof.
  unfold drained_result. destruct (total <? need); [right; reflexivity|].
  unfold drained_from.
  use (drained_caps_nonneg infos sD) Hcn.
  destruct (drained_loop_spec sD need [] ltac:(lia) Hcn) as [I1 I2].
  destruct (Z.lt_ge_cases (caps sD) need) as [Hl|Hg].
  - right. apply I1. exact Hl.
  - left. destruct (I2 Hg) as (l1 & x & l2 & _ & _ & Hr). eexists. split; exact Hr.
Qed.

Lemma each_outcome :
  (exists p, each_result infos sE need limit = Ok p /\ each_from sE need (each_limit infos limit) = Ok p) \/
  refusal (each_result infos sE need limit).
Proof.
  unfold each_result, refusal.
  destruct (Z.of_nat (length infos) <? each_limit infos limit); [right; left; reflexivity|].
  use (each_from_cases infos sE need limit) HH.
  destruct HH as [[_ E]|[(_ & _ & E)|(_ & _ & E)]]; rewrite E; eauto.
Qed.

Lemma fill_outcome :
  (exists p, is_plan (fill_result infos sF need limit) p /\
             is_plan (fill_from sF need (each_limit infos limit)) p /\
             fill_result infos sF need limit = fill_from sF need (each_limit infos limit)) \/
  fill_result infos sF need limit = Err EInsufficientResource.
Proof.
  unfold fill_result.
  destruct (Z.of_nat (length infos) <? each_limit infos limit); [right; reflexivity|].
  unfold fill_from.
  use (fill_limit_cases infos sF limit) HH. destruct HH as [[E0 En]|H1].
  - right. assert (sF = []) as ->; [|reflexivity].
    pose proof pF as Hp. rewrite En in Hp. apply Permutation_nil in Hp. exact Hp.
  - destruct (fill_loop_spec need sF (each_limit infos limit) [] 0 H1) as [I1 I2].
    destruct (Z.lt_ge_cases (countb (fillable need) sF) (each_limit infos limit)) as [Hl|Hg].
    + right. apply I1. exact Hl.
    + left. destruct (I2 Hg) as (l1 & l2 & _ & _ & Hr). cbv zeta in Hr. rewrite Hr.
      destruct (_ =? 0); eexists; (split; [|split]); try reflexivity; [right|right|left|left]; reflexivity.
Qed.

(* ---- C01 ---- *)
Theorem C01_sound s p :
  is_plan (deploy s need limit infos total) p -> C01_spec s need limit infos p.
Proof.
  intro Hp. destruct s.
  - rewrite deploy_auto in Hp. destruct auto_outcome as [(q & Hq & Hi & Hs & _)|[He _]].
    + rewrite Hq in Hp. destruct Hp as [Hp|Hp]; [injection Hp as Hp; subst p|discriminate Hp].
      use (dep_inv_C01 infos limit) HH. first [exact HH | apply HH; auto].
    + rewrite He in Hp. destruct Hp; discriminate.
  - rewrite deploy_fill in Hp. destruct fill_outcome as [(q & _ & _ & E)|He].
    + rewrite E in Hp.
      use (fill_C01 infos sF need limit) HH. exact (proj1 (HH _ p eq_refl Hp)).
    + rewrite He in Hp. destruct Hp; discriminate.
  - rewrite deploy_each in Hp. destruct each_outcome as [(q & Hq & Hf)|[He|He]].
    + rewrite Hq in Hp. destruct Hp as [Hp|Hp]; [injection Hp as Hp; subst p|discriminate Hp].
      use (each_C01 infos sE need limit) HH. first [exact HH | apply HH; auto].
    + rewrite He in Hp. destruct Hp; discriminate.
    + rewrite He in Hp. destruct Hp; discriminate.
  - rewrite deploy_global in Hp. destruct global_outcome as [(q & Hq & Hi & Hs & _)|[He _]].
    + rewrite Hq in Hp. destruct Hp as [Hp|Hp]; [injection Hp as Hp; subst p|discriminate Hp].
      use (gdep_inv_C01 infos need limit q) HH. first [exact HH | apply HH; auto].
    + rewrite He in Hp. destruct Hp; discriminate.
  - rewrite deploy_drained in Hp. destruct drained_outcome as [(q & Hq & Hf)|He].
    + rewrite Hq in Hp. destruct Hp as [Hp|Hp]; [injection Hp as Hp; subst p|discriminate Hp].
      use (drained_C01_limit infos sD need total) HH. first [exact HH | apply HH; auto].
    + rewrite He in Hp. destruct Hp; discriminate.
  - unfold deploy, deploy_full in Hp. simpl in Hp. destruct Hp; discriminate.
Qed.

(* AlreadyFilled only comes from FILL and plans nothing *)
Lemma already_filled_fill s p :
  deploy s need limit infos total = AlreadyFilled p -> s = Fill /\ plan_sum p = 0.
Proof.
  intro Hp. destruct s.
  - rewrite deploy_auto in Hp. destruct auto_outcome as [(q & Hq & _)|[He _]]; congruence.
  - split; [reflexivity|]. rewrite deploy_fill in Hp. destruct fill_outcome as [(q & _ & _ & E)|He]; [|congruence].
    rewrite E in Hp.
    use (fill_C01 infos sF need limit) HH. apply (proj2 (HH _ p eq_refl (or_intror Hp))). exact Hp.
  - rewrite deploy_each in Hp. destruct each_outcome as [(q & Hq & _)|[He|He]]; congruence.
  - rewrite deploy_global in Hp. destruct global_outcome as [(q & Hq & _)|[He _]]; congruence.
  - rewrite deploy_drained in Hp. destruct drained_outcome as [(q & Hq & _)|He]; congruence.
  - unfold deploy, deploy_full in Hp. simpl in Hp. discriminate.
Qed.

Lemma deploy_total_outcome s : s <> Other ->
  (exists p, is_plan (deploy s need limit infos total) p) \/ refusal (deploy s need limit infos total).
Proof.
  intro Hs. unfold refusal. destruct s; try congruence.
  - rewrite deploy_auto. destruct auto_outcome as [(q & Hq & _)|[He _]]; [left; exists q; left; auto|right; left; auto].
  - rewrite deploy_fill. destruct fill_outcome as [(q & Hq & _)|He]; [left; exists q; auto|right; left; auto].
  - rewrite deploy_each. destruct each_outcome as [(q & Hq & _)|He]; [left; exists q; left; auto|right; auto].
  - rewrite deploy_global. destruct global_outcome as [(q & Hq & _)|[He _]]; [left; exists q; left; auto|right; left; auto].
  - rewrite deploy_drained. destruct drained_outcome as [(q & Hq & _)|He]; [left; exists q; left; auto|right; left; auto].
Qed.

(* ---- C02 ---- *)
Lemma room_le_cap_sum : sumZ (map (room limit) infos) <= sumZ (map cap infos).
Proof.
  clear Hvalid. induction infos as [|x t IH]; unfold sumZ in *; simpl; [lia|].
  pose proof (rm_le_cap limit x) as H. unfold rm in H. lia.
Qed.

Lemma caps_nonneg_all : Forall (fun z => 0 <= z) (map cap infos).
Proof.
  destruct Hvalid as [_ Hv]. rewrite Forall_forall in *. intros z Hz.
  apply in_map_iff in Hz. destruct Hz as (x & <- & Hx). apply Hv. exact Hx.
Qed.

Theorem C02_complete s :
  s <> Other -> need <= max_int -> total = satsum (map cap infos) ->
  (feasible s need limit infos = true -> exists p, is_plan (deploy s need limit infos total) p) /\
  (feasible s need limit infos = false -> refusal (deploy s need limit infos total)).
Proof.
  intros Hs Hmax Ht.
  assert (Htot : total = Z.min max_int (sumZ (map cap infos))) by (rewrite Ht; apply satsum_spec; apply caps_nonneg_all).
  unfold refusal. destruct s; try congruence.
  - rewrite deploy_auto. unfold feasible.
    destruct auto_outcome as [(q & Hq & _ & _ & _ & Hf)|[He Hf]].
    + split; [intros _; exists q; left; exact Hq|]. rewrite Z.leb_gt. lia.
    + split; [|intros _; left; exact He]. rewrite Z.leb_le. intro Hfe. exfalso.
      pose proof room_le_cap_sum. lia.
  - rewrite deploy_fill.
    use (fill_C02 infos sF need limit) HH. destruct HH as [I1 I2].
    split; [exact I1|]. intro Hf. left. apply I2. exact Hf.
  - rewrite deploy_each.
    use (each_C02 infos sE need limit) HH. destruct HH as [I1 I2].
    split; [|exact I2]. intro Hf. destruct (I1 Hf) as (q & Hq). exists q. left. exact Hq.
  - rewrite deploy_global. unfold feasible.
    destruct global_outcome as [(q & Hq & _ & _ & _ & Hf)|[He Hf]].
    + split; [intros _; exists q; left; exact Hq|]. rewrite Z.leb_gt. lia.
    + split; [|intros _; left; exact He]. rewrite Z.leb_le. intro Hfe. exfalso. lia.
  - rewrite deploy_drained.
    use (drained_C02 infos sD need total) HH. destruct HH as [I1 I2].
    split.
    + intro Hf. destruct (I1 Hf) as (q & Hq). exists q. left. exact Hq.
    + intro Hf. left. apply I2. exact Hf.
Qed.

(* ---- C03 ---- *)
Theorem C03_rules s p :
  (s = Global -> float_ok infos) ->
  is_plan (deploy s need limit infos total) p -> C03_spec s need limit infos p.
Proof.
  intros Hfl Hp. destruct s.
  - rewrite deploy_auto in Hp. destruct auto_outcome as [(q & Hq & Hi & _)|[He _]].
    + rewrite Hq in Hp. destruct Hp as [Hp|Hp]; [injection Hp as Hp; subst p|discriminate Hp].
      use (dep_inv_C03 infos limit need q) HH. first [exact HH | apply HH; auto].
    + rewrite He in Hp. destruct Hp; discriminate.
  - rewrite deploy_fill in Hp. destruct fill_outcome as [(q & _ & _ & E)|He].
    + rewrite E in Hp. use (fill_C03 infos sF need limit) HH. exact (HH _ p eq_refl Hp).
    + rewrite He in Hp. destruct Hp; discriminate.
  - rewrite deploy_each in Hp. destruct each_outcome as [(q & Hq & Hf)|[He|He]].
    + rewrite Hq in Hp. destruct Hp as [Hp|Hp]; [injection Hp as Hp; subst p|discriminate Hp].
      use (each_C03 infos sE need limit) HH. first [exact HH | apply HH; auto].
    + rewrite He in Hp. destruct Hp; discriminate.
    + rewrite He in Hp. destruct Hp; discriminate.
  - rewrite deploy_global in Hp. destruct global_outcome as [(q & Hq & Hi & _)|[He _]].
    + rewrite Hq in Hp. destruct Hp as [Hp|Hp]; [injection Hp as Hp; subst p|discriminate Hp].
      pose proof (Hfl eq_refl) as Hfo. unfold float_ok in Hfo. fold (FH infos) in Hfo.
      use (gdep_inv_C03 infos need limit q) HH. first [exact HH | apply HH; auto].
    + rewrite He in Hp. destruct Hp; discriminate.
  - rewrite deploy_drained in Hp. destruct drained_outcome as [(q & Hq & Hf)|He].
    + rewrite Hq in Hp. destruct Hp as [Hp|Hp]; [injection Hp as Hp; subst p|discriminate Hp].
      use (drained_C03 infos sD need total) HH. specialize (HH q limit). feed HH. first [exact HH | apply HH; auto].
    + rewrite He in Hp. destruct Hp; discriminate.
  - unfold deploy, deploy_full in Hp. simpl in Hp. destruct Hp; discriminate.
Qed.
End Top.
