(* Model of the glue cluster/calcium/resource.go: doGetDeployStrategy — the
   strategy.Info table is assembled from the resource manager's capacity map and
   the store's deploy status, in Go map iteration order (an oracle: [order] is any
   permutation of the capacity map's entries), then strategy.Deploy is called
   with the manager's total.  On any error (including ErrAlreadyFilled) the
   caller gets no plan.  Executable definitions only. *)
From Coq Require Import String Ascii.
From Coq Require Import List Bool ZArith Arith.
From Verif Require Import Base.GoInt Base.GoFloat Base.RunLib Strategy.Model.
Import ListNotations.
Local Open Scope Z_scope.

(* plugintypes.NodeDeployCapacity for one node *)
Record cap_entry := mkCapE { ce_name : string; ce_cap : Z; ce_usage : f64; ce_rate : f64 }.

Definition glue_infos (order : list cap_entry) (status : plan) : list info :=
  map (fun e => mkInfo (ce_name e) (ce_usage e) (ce_rate e) (ce_cap e) (mget status (ce_name e))) order.

Definition drop_plan_on_error (r : result) : result :=
  match r with AlreadyFilled _ => AlreadyFilled [] | _ => r end.

Definition glue (s : strategy) (need limit : Z) (order : list cap_entry) (status : plan) (total : Z) : result :=
  drop_plan_on_error (deploy s need limit (glue_infos order status) total).

(* all permutations of a short list *)
Fixpoint insert_all {A} (x : A) (l : list A) : list (list A) :=
  match l with
  | [] => [[x]]
  | y :: t => (x :: l) :: map (cons y) (insert_all x t)
  end.
Fixpoint perms {A} (l : list A) : list (list A) :=
  match l with
  | [] => [[]]
  | x :: t => flat_map (insert_all x) (perms t)
  end.

Record gcase := mkG {
  g_strat : strategy; g_need : Z; g_limit : Z;
  g_caps : list cap_entry;        (* capacity map, emitted sorted by name *)
  g_status : plan;                (* deploy status map, sorted by name *)
  g_total : Z;
  g_res : result                  (* what CalculateCapacity returned (NodeCapacities / error class) *)
}.

(* the observed result is the model's for SOME iteration order of the capacity map *)
Definition gagree (g : gcase) : bool :=
  existsb (fun order => res_eqb (glue (g_strat g) (g_need g) (g_limit g) order (g_status g) (g_total g)) (g_res g))
          (perms (g_caps g)).

Definition as_case (g : gcase) : case :=
  mkCase (g_strat g) (g_need g) (g_limit g) (glue_infos (g_caps g) (g_status g)) (g_total g) (g_res g) [].

Definition is_already_filled (r : result) : bool :=
  match r with AlreadyFilled _ => true | _ => false end.

(* the properties on what the caller of the glue observes; an ErrAlreadyFilled
   carries no plan through the glue, so C01/C03 have nothing to say about it *)
Definition gC01_ok (g : gcase) : bool := is_already_filled (g_res g) || C01_ok (as_case g).
Definition gC02_ok (g : gcase) : bool := C02_ok (as_case g).
Definition gC03_ok (g : gcase) : bool := is_already_filled (g_res g) || C03_ok (as_case g).
