(* The comparison "modulo ties" used by the correspondence check for slices
   longer than 12 (where Go's pdqsort is unstable) is well defined: for any two
   sorted permutations of the candidates the strategy's outcome class is the same
   and the multiset of projected tuples (attributes read by the strategy, plan
   entry) is the same.  Proved here for EACH. *)
From Coq Require Import String Ascii.
From Coq Require Import List Bool ZArith Arith Lia Permutation Sorted ZifyBool.
From Verif Require Import Base.GoInt Base.GoFloat Base.GoSort Base.GoSortSpec Base.RunLib
  Strategy.Model Strategy.ProofsBase Strategy.ProofsSort.
Import ListNotations.
Local Open Scope Z_scope.

Lemma map_as_seq {A B} (f : A -> B) (d : A) (l : list A) :
  map f l = map (fun i => f (nth i l d)) (seq 0 (length l)).
Proof.
  induction l as [|h t IH]; simpl; [reflexivity|]. f_equal.
  rewrite <- seq_shift, map_map. exact IH.
Qed.

Lemma name_in_firstn l : NoDup (names l) -> forall i m, (i < length l)%nat ->
  existsb (String.eqb (name (nth i l dinfo))) (names (firstn m l)) = Nat.ltb i m.
Proof.
  induction l as [|h t IH]; intros Hnd i m Hi; simpl in Hi; [lia|].
  simpl in Hnd. inversion Hnd as [|? ? Hh Ht]; subst.
  destruct m as [|m]; [destruct i; reflexivity|].
  destruct i as [|i]; simpl.
  - rewrite seqb_refl. reflexivity.
  - assert (E : String.eqb (name (nth i t dinfo)) (name h) = false).
    { apply seqb_neq. intro E. apply Hh. rewrite <- E. apply in_names. apply nth_In. lia. }
    rewrite E. simpl. change (Nat.ltb (S i) (S m)) with (Nat.ltb i m). apply IH; auto. lia.
Qed.

Section EachProj.
Variables (infos s1 s2 : list info) (need limit : Z).
Hypothesis Hvalid : valid_infos infos.
Hypothesis Hp1 : Permutation infos s1.
Hypothesis Hp2 : Permutation infos s2.
Hypothesis Ho1 : Sorted (ngt each_less) s1.
Hypothesis Ho2 : Sorted (ngt each_less) s2.
Hypothesis Hneed : 0 < need.
Hypothesis Hlimit : 0 <= limit.

Let L := each_limit infos limit.

(* positional description of the projected plan *)
Definition each_pos (caps : list Z) : list (list Z) :=
  map (fun i => nth i caps 0 :: (if Nat.ltb i (Z.to_nat L) then [1; need] else [0; 0]))
      (seq 0 (length caps)).

Lemma each_proj_pos sorted p :
  Permutation infos sorted -> Sorted (ngt each_less) sorted ->
  each_from sorted need L = Ok p ->
  map (proj Each p) sorted = each_pos (map cap sorted).
Proof.
  intros Hp Ho H.
  pose proof (each_from_cases infos sorted need limit) as HC.
  repeat (match type of HC with ?A -> _ => let a := fresh in assert (a : A) by assumption; specialize (HC a); clear a end).
  destruct HC as [[_ E]|[(_ & _ & E)|(_ & _ & E)]]; fold L in E; rewrite E in H; try discriminate.
  injection H as <-.
  pose proof (each_plan_facts infos sorted need limit) as HF.
  repeat (match type of HF with ?A -> _ => let a := fresh in assert (a : A) by assumption; specialize (HF a); clear a end).
  cbv zeta in HF. fold L in HF. destruct HF as (_ & _ & F3 & F4).
  assert (Hnd : NoDup (names sorted)) by (destruct Hvalid as [Hn _]; eapply nodup_names_perm; eauto).
  rewrite (map_as_seq (proj Each _) dinfo sorted). unfold each_pos. rewrite map_length.
  apply map_ext_in. intros i Hi. apply in_seq in Hi.
  unfold proj. rewrite F3, F4. rewrite name_in_firstn by (auto; lia).
  change 0 with (cap dinfo). rewrite map_nth.
  destruct (Nat.ltb i (Z.to_nat L)); reflexivity.
Qed.

Lemma each_caps_eq : map cap s1 = map cap s2.
Proof.
  apply (sorted_perm_keys_eq cap (fun a b => b <= a)).
  - intros a b. lia.
  - eapply perm_trans; [symmetry; exact Hp1|exact Hp2].
  - apply (each_sorted_strong _ Ho1).
  - apply (each_sorted_strong _ Ho2).
Qed.

(* same outcome class whatever the sorted permutation *)
Lemma each_class_invariant : res_class_eqb (each_from s1 need L) (each_from s2 need L) = true.
Proof.
  pose proof (each_from_cases infos s1 need limit) as H1.
  pose proof (each_from_cases infos s2 need limit) as H2.
  repeat (match type of H1 with ?A -> _ => let a := fresh in assert (a : A) by assumption; specialize (H1 a); clear a end).
  repeat (match type of H2 with ?A -> _ => let a := fresh in assert (a : A) by assumption; specialize (H2 a); clear a end).
  pose proof (each_p_count infos s1 need limit) as C1.
  pose proof (each_p_count infos s2 need limit) as C2.
  repeat (match type of C1 with ?A -> _ => let a := fresh in assert (a : A) by assumption; specialize (C1 a); clear a end).
  repeat (match type of C2 with ?A -> _ => let a := fresh in assert (a : A) by assumption; specialize (C2 a); clear a end).
  rewrite <- (countb_perm _ _ _ Hp1) in C1. rewrite <- (countb_perm _ _ _ Hp2) in C2.
  fold L in H1, H2.
  destruct H1 as [[A1 E1]|[(A1 & B1 & E1)|(A1 & B1 & E1)]];
  destruct H2 as [[A2 E2]|[(A2 & B2 & E2)|(A2 & B2 & E2)]]; rewrite E1, E2; try reflexivity; exfalso; lia.
Qed.

Theorem each_proj_invariant p1 p2 :
  each_from s1 need L = Ok p1 -> each_from s2 need L = Ok p2 ->
  Permutation (map (proj Each p1) infos) (map (proj Each p2) infos).
Proof.
  intros H1 H2.
  eapply perm_trans; [apply Permutation_map; exact Hp1|].
  eapply perm_trans; [|symmetry; apply Permutation_map; exact Hp2].
  rewrite (each_proj_pos s1 p1 Hp1 Ho1 H1), (each_proj_pos s2 p2 Hp2 Ho2 H2), each_caps_eq.
  apply Permutation_refl.
Qed.
End EachProj.

(* ======================================================================== *)
(* FILL                                                                      *)
(* ======================================================================== *)
Definition fkey (x : info) : Z * Z := (cnt x, cap x).
Definition fkey_le (a b : Z * Z) : Prop := fst b < fst a \/ (fst b = fst a /\ snd b <= snd a).

Lemma fkey_le_antisym a b : fkey_le a b -> fkey_le b a -> a = b.
Proof. destruct a, b. unfold fkey_le. simpl. intros H1 H2. f_equal; lia. Qed.

(* positional plan: the first [lim] fillable positions are topped up *)
Fixpoint fvals (need : Z) (ks : list (Z * Z)) (lim : Z) : list (list Z) :=
  match ks with
  | [] => []
  | (c, k) :: t =>
    if (k >=? need - c) && (0 <? lim)
    then [c; k; 1; Z.max (need - c) 0] :: fvals need t (lim - 1)
    else [c; k; 0; 0] :: fvals need t lim
  end.

Lemma fvals_done need ks : forall lim, lim <= 0 ->
  fvals need ks lim = map (fun ck => [fst ck; snd ck; 0; 0]) ks.
Proof.
  induction ks as [|[c k] t IH]; intros lim Hl; cbn [fvals map fst snd]; [reflexivity|].
  destruct (Z.ltb_spec 0 lim) as [Hlt|Hge]; [exfalso; apply Z.lt_nge in Hlt; exact (Hlt Hl)|]. rewrite andb_false_r. rewrite IH by lia. reflexivity.
Qed.

Lemma fvals_prefix need (sel : info -> bool) l1 : forall lim,
  (forall x, In x l1 -> sel x = fillable need x) ->
  countb (fillable need) l1 <= lim ->
  forall rest, fvals need (map fkey (l1 ++ rest)) lim =
    map (fun x => if sel x then [cnt x; cap x; 1; fill_val need x] else [cnt x; cap x; 0; 0]) l1
    ++ fvals need (map fkey rest) (lim - countb (fillable need) l1).
Proof.
  induction l1 as [|x t IH]; intros lim Hsel Hc rest.
  - simpl. unfold countb. simpl. rewrite Z.sub_0_r. reflexivity.
  - rewrite countb_cons in Hc. cbn [app map fvals fkey]. rewrite (Hsel x) by (left; reflexivity).
    rewrite countb_cons. unfold fill_val.
    pose proof (countb_nonneg (fillable need) t) as Hnn.
    assert (Ef2 : (cap x >=? need - cnt x) = fillable need x) by reflexivity. rewrite Ef2.
    destruct (fillable need x) eqn:Ef.
    + destruct (Z.ltb_spec 0 lim); [|exfalso; lia]. cbn [andb app map]. f_equal.
      rewrite IH; [|intros y Hy; apply Hsel; right; exact Hy|lia].
      replace (lim - (1 + countb (fillable need) t)) with (lim - 1 - countb (fillable need) t) by lia. reflexivity.
    + cbn [andb app map]. f_equal.
      rewrite IH; [|intros y Hy; apply Hsel; right; exact Hy|lia].
      replace (lim - (0 + countb (fillable need) t)) with (lim - countb (fillable need) t) by lia. reflexivity.
Qed.

Definition projF (p : plan) (x : info) : list Z := proj Fill p x.

Section FillProj.
Variables (infos s1 s2 : list info) (need limit : Z).
Hypothesis Hvalid : valid_infos infos.
Hypothesis Hp1 : Permutation infos s1.
Hypothesis Hp2 : Permutation infos s2.
Hypothesis Ho1 : Sorted (ngt fill_less) s1.
Hypothesis Ho2 : Sorted (ngt fill_less) s2.
Hypothesis Hneed : 0 < need.
Hypothesis Hlimit : 0 <= limit.

Let L := each_limit infos limit.

Lemma fill_proj_pos sorted r p :
  Permutation infos sorted -> Sorted (ngt fill_less) sorted ->
  fill_from sorted need L = r -> is_plan r p ->
  map (proj Fill p) sorted = fvals need (map fkey sorted) L.
Proof.
  intros Hp Ho Hr Hpl.
  pose proof (fill_from_plan infos sorted need limit) as HF.
  repeat (match type of HF with ?A -> _ => let a := fresh in assert (a : A) by assumption; specialize (HF a); clear a end).
  fold L in HF. destruct (HF r p Hr Hpl) as (H1 & l1 & l2 & E & Hc & Hpe & _). cbv zeta in Hpe.
  set (sel := filter (fillable need) l1) in *.
  assert (Hnd : NoDup (names sorted)) by (destruct Hvalid as [Hn _]; eapply nodup_names_perm; eauto).
  rewrite E, names_app in Hnd.
  assert (Hnd1 : NoDup (names l1)) by (eapply nodup_app_l; eauto).
  assert (Hnds : NoDup (names sel)).
  { unfold sel. clear -Hnd1. induction l1 as [|h t IH]; simpl in *; [constructor|].
    inversion Hnd1 as [|? ? Hh Ht]; subst. destruct (fillable need h); simpl; auto. constructor; auto.
    intro Hin. apply Hh. unfold names in *. apply in_map_iff in Hin. destruct Hin as (y & Ey & Hy).
    apply filter_In in Hy. apply in_map_iff. exists y. tauto. }
  destruct (fill_fold_spec need sel [] 0 Hnds) as (_ & _ & F3 & F4 & F5 & _); simpl; auto; [constructor|].
  rewrite <- Hpe in *.
  (* membership of a name in sel, for elements of sorted *)
  assert (Hmem : forall y, In y (l1 ++ l2) ->
            existsb (String.eqb (name y)) (names sel) = (if in_dec string_dec (name y) (names l1) then fillable need y else false)).
  { intros y Hy. destruct (in_dec string_dec (name y) (names l1)) as [Hin|Hnin].
    - assert (Hy1 : In y l1).
      { unfold names in Hin. apply in_map_iff in Hin. destruct Hin as (z & Ez & Hz).
        assert (y = z); [|subst; exact Hz].
        apply (nodup_names_inj (l1 ++ l2)); auto.
        - rewrite names_app. exact Hnd.
        - apply in_or_app. left; exact Hz. }
      destruct (fillable need y) eqn:Ef.
      + apply existsb_eqb_in. apply in_names. apply filter_In. split; assumption.
      + destruct (existsb _ _) eqn:Ex; [|reflexivity]. apply existsb_eqb_in in Ex.
        unfold names in Ex. apply in_map_iff in Ex. destruct Ex as (z & Ez & Hz).
        apply filter_In in Hz. destruct Hz as [Hz1 Hzf].
        assert (y = z) by (apply (nodup_names_inj l1); auto). subst z. congruence.
    - destruct (existsb _ _) eqn:Ex; [|reflexivity]. exfalso. apply Hnin.
      apply existsb_eqb_in in Ex. unfold names in *. apply in_map_iff in Ex. destruct Ex as (z & Ez & Hz).
      apply filter_In in Hz. apply in_map_iff. exists z. tauto. }
  rewrite E.
  rewrite (fvals_prefix need (fun x => existsb (String.eqb (name x)) (names sel)) l1 L).
  - rewrite Hc, Z.sub_diag, fvals_done by lia. rewrite map_app. f_equal.
    + apply map_ext_in. intros y Hy. unfold proj. rewrite F3. simpl.
      destruct (existsb (String.eqb (name y)) (names sel)) eqn:Ex.
      * rewrite F4; [reflexivity|]. apply existsb_eqb_in in Ex. unfold names in Ex. apply in_map_iff in Ex.
        destruct Ex as (z & Ez & Hz). assert (y = z); [|subst; exact Hz].
        apply (nodup_names_inj l1); auto. apply filter_In in Hz. tauto.
      * reflexivity.
    + rewrite map_map. apply map_ext_in. intros y Hy. unfold proj. rewrite F3. simpl.
      rewrite (Hmem y) by (apply in_or_app; right; exact Hy).
      destruct (in_dec string_dec (name y) (names l1)) as [Hin|_]; [|reflexivity].
      exfalso. apply (nodup_app_disjoint _ _ (name y) Hnd Hin). apply in_names. exact Hy.
  - intros y Hy. rewrite (Hmem y) by (apply in_or_app; left; exact Hy).
    destruct (in_dec string_dec (name y) (names l1)) as [_|Hn]; [reflexivity|].
    exfalso. apply Hn. apply in_names. exact Hy.
  - lia.
Qed.

Lemma fill_keys_eq : map fkey s1 = map fkey s2.
Proof.
  apply (sorted_perm_keys_eq fkey fkey_le fkey_le_antisym).
  - eapply perm_trans; [symmetry; exact Hp1|exact Hp2].
  - apply (fill_sorted_strong _ Ho1).
  - apply (fill_sorted_strong _ Ho2).
Qed.

Theorem fill_proj_invariant r1 r2 p1 p2 :
  fill_from s1 need L = r1 -> is_plan r1 p1 -> fill_from s2 need L = r2 -> is_plan r2 p2 ->
  Permutation (map (proj Fill p1) infos) (map (proj Fill p2) infos).
Proof.
  intros H1 I1 H2 I2.
  eapply perm_trans; [apply Permutation_map; exact Hp1|].
  eapply perm_trans; [|symmetry; apply Permutation_map; exact Hp2].
  rewrite (fill_proj_pos s1 r1 p1 Hp1 Ho1 H1 I1), (fill_proj_pos s2 r2 p2 Hp2 Ho2 H2 I2), fill_keys_eq.
  apply Permutation_refl.
Qed.
End FillProj.

(* ======================================================================== *)
(* DRAINED                                                                   *)
(* ======================================================================== *)
From Verif Require Import Base.GoFloatLemmas.

Lemma Sorted_impl_in {A} (R S : A -> A -> Prop) l :
  (forall a b, In a l -> In b l -> R a b -> S a b) -> Sorted R l -> Sorted S l.
Proof.
  induction l as [|a t IH]; intros H Hs; [constructor|].
  inversion Hs as [|? ? Hst Hhd]; subst. constructor.
  - apply IH; auto. intros x y Hx Hy. apply H; right; assumption.
  - destruct Hhd as [|b t' Rab]; constructor. apply H; [left; reflexivity|right; left; reflexivity|exact Rab].
Qed.

Definition dkey (x : info) : Z * Z := (cap x, canon_bits (usage x)).

(* canonical bits decode to a float with the same value *)
Lemma canon_decode u : f_finite u = true ->
  f_finite (fb (canon_bits u)) = true /\ ext (fb (canon_bits u)) = ext u.
Proof.
  intro Hu. unfold canon_bits, fzero. destruct (feq u (fb 0)) eqn:E.
  - split; [reflexivity|]. apply (feq_zero_iff u Hu) in E. rewrite (finite_ext u Hu), E. reflexivity.
  - rewrite fb_fbits. split; [exact Hu|reflexivity].
Qed.

Definition dkey_le (a b : Z * Z) : Prop :=
  fst a < fst b \/ (fst a = fst b /\ fle (fb (snd b)) (fb (snd a)) = true).

Definition drel (a b : info) : Prop :=
  cap a < cap b \/ (cap a = cap b /\ fle (usage b) (usage a) = true).

Lemma drel_dkey a b : f_finite (usage a) = true -> f_finite (usage b) = true ->
  drel a b -> dkey_le (dkey a) (dkey b).
Proof.
  intros Ha Hb [H|[H1 H2]]; [left; exact H|right]. split; [exact H1|]. simpl.
  destruct (canon_decode _ Ha) as [Fa Ea]. destruct (canon_decode _ Hb) as [Fb Eb].
  apply fle_ext; auto using finite_nn. rewrite Ea, Eb. apply fle_ext; auto using finite_nn.
Qed.

(* positional plan *)
Fixpoint dvals (ks : list (Z * Z)) (rem : Z) : list (list Z) :=
  match ks with
  | [] => []
  | (c, u) :: t =>
    if rem <=? 0 then [c; u; 0; 0] :: dvals t rem
    else if rem <=? c then [c; u; 1; rem] :: dvals t 0
    else [c; u; 1; c] :: dvals t (rem - c)
  end.

Lemma dvals_done ks : forall rem, rem <= 0 -> dvals ks rem = map (fun k => [fst k; snd k; 0; 0]) ks.
Proof.
  induction ks as [|[c u] t IH]; intros rem Hr; cbn [dvals map fst snd]; [reflexivity|].
  destruct (Z.leb_spec rem 0) as [_|Hgt]; [|exfalso; lia]. rewrite IH by exact Hr. reflexivity.
Qed.

Lemma dvals_prefix l1 : forall rem rest, Forall (fun y => 0 <= cap y) l1 -> caps l1 < rem ->
  dvals (map dkey (l1 ++ rest)) rem =
  map (fun y => [cap y; canon_bits (usage y); 1; cap y]) l1 ++ dvals (map dkey rest) (rem - caps l1).
Proof.
  induction l1 as [|y t IH]; intros rem rest Hc Hr.
  - simpl. unfold caps, sumZ. simpl. rewrite Z.sub_0_r. reflexivity.
  - inversion Hc as [|? ? Hy Ht]; subst. rewrite caps_cons in Hr. pose proof (caps_nonneg t Ht) as Hnn.
    cbn [app map dvals dkey].
    destruct (Z.leb_spec rem 0); [exfalso; lia|]. destruct (Z.leb_spec rem (cap y)); [exfalso; lia|].
    f_equal. rewrite IH by (auto; lia). rewrite caps_cons.
    replace (rem - (cap y + caps t)) with (rem - cap y - caps t) by lia. reflexivity.
Qed.

Section DrainedProj.
Variables (infos s1 s2 : list info) (need total : Z).
Hypothesis Hvalid : valid_infos infos.
Hypothesis Hfin : forall x, In x infos -> f_finite (usage x) = true.
Hypothesis Hp1 : Permutation infos s1.
Hypothesis Hp2 : Permutation infos s2.
Hypothesis Ho1 : Sorted (ngt drained_less) s1.
Hypothesis Ho2 : Sorted (ngt drained_less) s2.
Hypothesis Hneed : 0 < need.

Lemma drained_proj_pos sorted p :
  Permutation infos sorted -> drained_from sorted need total = Ok p ->
  map (proj Drained p) sorted = dvals (map dkey sorted) need.
Proof.
  intros Hp H. unfold drained_from in H.
  assert (Hcn : Forall (fun x => 0 <= cap x) sorted).
  { destruct Hvalid as [_ Hv]. rewrite Forall_forall in *. intros x Hx.
    apply Hv. eapply Permutation_in; [symmetry; exact Hp|exact Hx]. }
  assert (Hnd : NoDup (names sorted)) by (destruct Hvalid as [Hn _]; eapply nodup_names_perm; eauto).
  destruct (drained_loop_spec sorted need [] ltac:(lia) Hcn) as [I1 I2].
  destruct (Z.lt_ge_cases (caps sorted) need) as [Hlt|Hge]; [rewrite (I1 Hlt) in H; discriminate|].
  destruct (I2 Hge) as (l1 & x & l2 & E & Hb & Hr). rewrite Hr in H. injection H as <-.
  rewrite E in Hnd, Hcn. rewrite names_app in Hnd.
  assert (Hnd1 : NoDup (names l1)) by (eapply nodup_app_l; eauto).
  assert (Hx1 : ~ In (name x) (names l1)).
  { intro Hin. apply (nodup_app_disjoint _ _ (name x) Hnd Hin). simpl. left; reflexivity. }
  assert (Hndx : NoDup (names (x :: l2))) by (eapply nodup_app_r; eauto).
  simpl in Hndx. inversion Hndx as [|? ? Hx2 Hnd2]; subst.
  destruct (drained_fold_spec l1 [] Hnd1) as (_ & F3 & F4 & F5 & _); simpl; auto; [constructor|].
  set (v := need - caps l1) in *.
  set (p := mset (drained_fold l1 []) (name x) v).
  assert (Hhas : forall k, mhas p k = String.eqb (name x) k || existsb (String.eqb k) (names l1)).
  { intro k. unfold p. rewrite mhas_mset, F3. reflexivity. }
  try rewrite E.
  apply Forall_app in Hcn. destruct Hcn as [Hcn1 Hcn2].
  rewrite (dvals_prefix l1 need (x :: l2) Hcn1 ltac:(lia)). fold v.
  rewrite map_app. f_equal.
  - apply map_ext_in. intros y Hy. unfold proj. rewrite Hhas.
    assert (existsb (String.eqb (name y)) (names l1) = true) as -> by (apply existsb_eqb_in; apply in_names; exact Hy).
    rewrite orb_true_r. unfold p. rewrite mget_mset_other.
    + rewrite (F4 y Hy). reflexivity.
    + intro Exy. apply Hx1. rewrite Exy. apply in_names. exact Hy.
  - cbn [map dvals dkey].
    destruct (Z.leb_spec v 0); [exfalso; lia|]. destruct (Z.leb_spec v (cap x)); [|exfalso; lia].
    f_equal.
    + unfold proj. rewrite Hhas, seqb_refl. simpl. unfold p. rewrite mget_mset_same. reflexivity.
    + rewrite dvals_done by lia. rewrite map_map. apply map_ext_in. intros y Hy.
      unfold proj. rewrite Hhas.
      assert (String.eqb (name x) (name y) = false) as ->.
      { apply seqb_neq. intro Exy. apply Hx2. rewrite Exy. apply in_names. exact Hy. }
      assert (existsb (String.eqb (name y)) (names l1) = false) as ->.
      { destruct (existsb _ _) eqn:Ex; [|reflexivity]. exfalso. apply existsb_eqb_in in Ex.
        apply (nodup_app_disjoint _ _ (name y) Hnd Ex). simpl. right. apply in_names. exact Hy. }
      reflexivity.
Qed.

Lemma drained_sorted_keys sorted : Permutation infos sorted -> Sorted (ngt drained_less) sorted ->
  StronglySorted dkey_le (map dkey sorted).
Proof.
  intros Hp Ho.
  assert (HF : Forall (fun x => f_finite (usage x) = true) sorted).
  { apply Forall_forall. intros x Hx. apply Hfin. eapply Permutation_in; [symmetry; exact Hp|exact Hx]. }
  assert (Hs : StronglySorted drel sorted).
  { apply (sorted_strong_on drel (fun x => f_finite (usage x) = true)); auto.
    - intros a b c Pa Pb Pc [H1|[H1 H1']] [H2|[H2 H2']]; unfold drel; try (left; lia).
      right. split; [lia|]. apply (fle_trans _ (usage b)); auto using finite_nn.
    - apply (Sorted_impl_in (ngt drained_less)); [|exact Ho].
      intros a b Ha Hb. unfold ngt, drained_less, drel.
      rewrite Forall_forall in HF.
      destruct (Z.eqb_spec (cap b) (cap a)) as [Ec|Ec]; simpl.
      + intro Hf. right. split; [lia|]. unfold fgt in Hf.
        rewrite <- (negb_flt_fle (usage b) (usage a)); auto using finite_nn. rewrite Hf. reflexivity.
      + intro Hf. left. lia. }
  clear Ho Hp. induction Hs as [|a l Hl IH Ha]; simpl; constructor.
  - apply IH. inversion HF; auto.
  - inversion HF as [|? ? Pa Pl]; subst. rewrite Forall_forall in *.
    intros k Hk. apply in_map_iff in Hk. destruct Hk as (y & <- & Hy).
    apply drel_dkey; auto.
Qed.

Lemma drained_keys_eq : map dkey s1 = map dkey s2.
Proof.
  apply (sorted_perm_eq_in dkey_le).
  - intros [c1 b1] [c2 b2] H1 H2 L1 L2.
    apply in_map_iff in H1. destruct H1 as (x1 & E1 & Hx1). apply in_map_iff in H2. destruct H2 as (x2 & E2 & Hx2).
    unfold dkey in E1, E2. inversion E1; subst. inversion E2; subst.
    assert (F1 : f_finite (usage x1) = true) by (apply Hfin; eapply Permutation_in; [symmetry; exact Hp1|exact Hx1]).
    assert (F2 : f_finite (usage x2) = true) by (apply Hfin; eapply Permutation_in; [symmetry; exact Hp1|exact Hx2]).
    unfold dkey_le in L1, L2. simpl in L1, L2.
    destruct L1 as [L1|[Ec L1]]; destruct L2 as [L2|[Ec' L2]]; try lia.
    f_equal; [exact Ec|].
    destruct (canon_decode _ F1) as [D1 X1]. destruct (canon_decode _ F2) as [D2 X2].
    assert (Ex : ext (usage x1) = ext (usage x2)).
    { rewrite <- X1, <- X2. apply fle_antisym_ext; auto using finite_nn. }
    rewrite (finite_ext _ F1), (finite_ext _ F2) in Ex. injection Ex as Ex.
    unfold canon_bits, fzero. apply same_value_same_bits; auto.
  - apply Permutation_map. eapply perm_trans; [symmetry; exact Hp1|exact Hp2].
  - apply drained_sorted_keys; assumption.
  - apply drained_sorted_keys; assumption.
Qed.

Theorem drained_proj_invariant p1 p2 :
  drained_from s1 need total = Ok p1 -> drained_from s2 need total = Ok p2 ->
  Permutation (map (proj Drained p1) infos) (map (proj Drained p2) infos).
Proof.
  intros H1 H2.
  eapply perm_trans; [apply Permutation_map; exact Hp1|].
  eapply perm_trans; [|symmetry; apply Permutation_map; exact Hp2].
  rewrite (drained_proj_pos s1 p1 Hp1 H1), (drained_proj_pos s2 p2 Hp2 H2), drained_keys_eq.
  apply Permutation_refl.
Qed.
End DrainedProj.

(* ======================================================================== *)
(* Outcome class is the same for every sorted permutation (FILL, DRAINED)    *)
(* ======================================================================== *)
Section DrainedClass.
Variables (infos s1 s2 : list info) (need total : Z).
Hypothesis Hvalid : valid_infos infos.
Hypothesis Hp1 : Permutation infos s1.
Hypothesis Hp2 : Permutation infos s2.
Hypothesis Hneed : 0 < need.

Lemma drained_class_of sorted : Permutation infos sorted ->
  (need <= caps infos -> exists p, drained_from sorted need total = Ok p) /\
  (caps infos < need -> drained_from sorted need total = Err EInsufficientResource).
Proof.
  intro Hp. unfold drained_from.
  assert (Hcn : Forall (fun x => 0 <= cap x) sorted).
  { destruct Hvalid as [_ Hv]. rewrite Forall_forall in *. intros x Hx.
    apply Hv. eapply Permutation_in; [symmetry; exact Hp|exact Hx]. }
  destruct (drained_loop_spec sorted need [] ltac:(lia) Hcn) as [I1 I2].
  rewrite (caps_perm _ _ Hp). split.
  - intro H. destruct (I2 H) as (l1 & x & l2 & _ & _ & Hr). eexists. exact Hr.
  - exact I1.
Qed.

Theorem drained_class_invariant :
  res_class_eqb (drained_from s1 need total) (drained_from s2 need total) = true.
Proof.
  destruct (drained_class_of s1 Hp1) as [A1 B1]. destruct (drained_class_of s2 Hp2) as [A2 B2].
  destruct (Z.lt_ge_cases (caps infos) need) as [Hl|Hg].
  - rewrite (B1 Hl), (B2 Hl). reflexivity.
  - destruct (A1 Hg) as (p1 & E1). destruct (A2 Hg) as (p2 & E2). rewrite E1, E2. reflexivity.
Qed.
End DrainedClass.

(* FILL: ErrAlreadyFilled iff every selected position plans 0 *)
Definition all_selected_zero (vs : list (list Z)) : Prop :=
  forall v, In v vs -> nth 2 v 0 = 1 -> nth 3 v 0 = 0.

Lemma fill_fold_zero need sel : forall dep todo,
  NoDup (names sel) -> (forall x, In x sel -> mhas dep (name x) = false) -> 0 <= todo ->
  (snd (fill_fold need sel (dep, todo)) = 0 <-> todo = 0 /\ forall x, In x sel -> fill_val need x = 0) /\
  0 <= snd (fill_fold need sel (dep, todo)).
Proof.
  induction sel as [|x t IH]; intros dep todo Hnd Hf Ht.
  - simpl. split; [|exact Ht]. split; [intro H; split; [exact H|intros x []]|tauto].
  - simpl in Hnd. inversion Hnd as [|? ? Hx Hnt]; subst.
    change (fill_fold need (x :: t) (dep, todo)) with
      (fill_fold need t (madd dep (name x) (fill_val need x), todo + mget (madd dep (name x) (fill_val need x)) (name x))).
    assert (Eg : mget (madd dep (name x) (fill_val need x)) (name x) = fill_val need x).
    { rewrite mget_madd_same, (mhas_false_mget _ _ (Hf x (or_introl eq_refl))). lia. }
    rewrite Eg. assert (Hv : 0 <= fill_val need x) by (unfold fill_val; lia).
    destruct (IH (madd dep (name x) (fill_val need x)) (todo + fill_val need x)) as [I1 I2]; auto; try lia.
    + intros y Hy. rewrite mhas_madd, (Hf y (or_intror Hy)), orb_false_r.
      apply seqb_neq. intro E. apply Hx. rewrite E. apply in_names. exact Hy.
    + split; [|exact I2]. rewrite I1. split.
      * intros [H1 H2]. split; [lia|]. intros y [<-|Hy]; [lia|apply H2; exact Hy].
      * intros [H1 H2]. split; [rewrite H1, (H2 x (or_introl eq_refl)); lia|].
        intros y Hy. apply H2. right; exact Hy.
Qed.

Section FillClass.
Variables (infos s1 s2 : list info) (need limit : Z).
Hypothesis Hvalid : valid_infos infos.
Hypothesis Hp1 : Permutation infos s1.
Hypothesis Hp2 : Permutation infos s2.
Hypothesis Ho1 : Sorted (ngt fill_less) s1.
Hypothesis Ho2 : Sorted (ngt fill_less) s2.
Hypothesis Hneed : 0 < need.
Hypothesis Hlimit : 0 <= limit.

Let L := each_limit infos limit.

(* which of the three outcomes, in terms of quantities that do not depend on the order *)
Lemma fill_class_of sorted :
  Permutation infos sorted -> Sorted (ngt fill_less) sorted ->
  (countb (fillable need) infos < L \/ L < 1 -> fill_from sorted need L = Err EInsufficientResource) /\
  (1 <= L <= countb (fillable need) infos ->
     exists p, (fill_from sorted need L = AlreadyFilled p \/ fill_from sorted need L = Ok p) /\
       (fill_from sorted need L = AlreadyFilled p <-> all_selected_zero (fvals need (map fkey sorted) L))).
Proof.
  intros Hp Ho. rewrite (countb_perm _ _ _ Hp). split.
  - intros [Hc|Hl].
    + pose proof (fill_limit_cases infos sorted limit) as HL.
      repeat (match type of HL with ?A -> _ => let a := fresh in assert (a : A) by assumption; specialize (HL a); clear a end).
      fold L in HL. destruct HL as [[E0 En]|H1].
      * unfold fill_from. rewrite En in Hp. apply Permutation_nil in Hp. rewrite Hp. reflexivity.
      * unfold fill_from. apply (proj1 (fill_loop_spec need sorted L [] 0 H1)). exact Hc.
    + pose proof (fill_limit_cases infos sorted limit) as HL.
      repeat (match type of HL with ?A -> _ => let a := fresh in assert (a : A) by assumption; specialize (HL a); clear a end).
      fold L in HL. destruct HL as [[E0 En]|H1]; [|lia].
      unfold fill_from. rewrite En in Hp. apply Permutation_nil in Hp. rewrite Hp. reflexivity.
  - intros [H1 Hc].
    destruct (proj2 (fill_loop_spec need sorted L [] 0 H1) Hc) as (l1 & l2 & E & Hcnt & Hres).
    cbv zeta in Hres. set (sel := filter (fillable need) l1) in *.
    set (r := fill_fold need sel (([] : plan), 0)).
    assert (Hres' : fill_loop sorted need L [] 0 = if snd r =? 0 then AlreadyFilled (fst r) else Ok (fst r)) by exact Hres.
    clear Hres. rename Hres' into Hres.
    exists (fst r). unfold fill_from.
    assert (Hnd : NoDup (names sorted)) by (destruct Hvalid as [Hn _]; eapply nodup_names_perm; eauto).
    assert (Hnds : NoDup (names sel)).
    { rewrite E, names_app in Hnd. apply nodup_app_l in Hnd. unfold sel. clear -Hnd.
      induction l1 as [|h t IH]; simpl in *; [constructor|].
      inversion Hnd as [|? ? Hh Ht]; subst. destruct (fillable need h); simpl; auto. constructor; auto.
      intro Hin. apply Hh. unfold names in *. apply in_map_iff in Hin. destruct Hin as (y & Ey & Hy).
      apply filter_In in Hy. apply in_map_iff. exists y. tauto. }
    destruct (fill_fold_zero need sel [] 0 Hnds ltac:(intros; reflexivity) ltac:(lia)) as [Hz0 _].
    assert (Hz : snd r = 0 <-> 0 = 0 /\ (forall x : info, In x sel -> fill_val need x = 0)) by exact Hz0.
    clear Hz0.
    assert (Hplan : is_plan (fill_loop sorted need L [] 0) (fst r)).
    { rewrite Hres. destruct (snd r =? 0); [right|left]; reflexivity. }
    pose proof (fill_proj_pos infos need limit Hvalid Hlimit sorted _ (fst r) Hp Ho eq_refl Hplan) as Hpos.
    fold L in Hpos. rewrite <- Hpos.
    split; [rewrite Hres; destruct (snd r =? 0); auto|].
    (* plan facts *)
    destruct (fill_fold_spec need sel [] 0 Hnds) as (_ & _ & F3' & F4' & _); simpl; auto; [constructor|].
    assert (F3 : forall k, mhas (fst r) k = mhas [] k || existsb (String.eqb k) (names sel)) by exact F3'.
    assert (F4 : forall x, In x sel -> mget (fst r) (name x) = fill_val need x) by exact F4'.
    clear F3' F4'.
    assert (Hsel_of : forall y, In y sorted -> mhas (fst r) (name y) = true -> In y sel).
    { intros y Hy Hh. rewrite F3 in Hh. simpl in Hh. apply existsb_eqb_in in Hh.
      unfold names in Hh. apply in_map_iff in Hh. destruct Hh as (z & Ez & Hz').
      assert (y = z); [|subst; exact Hz'].
      apply (nodup_names_inj sorted); auto. rewrite E. apply in_or_app. left.
      apply filter_In in Hz'. tauto. }
    rewrite Hres. split.
    + intro Haf. assert (Es : snd r = 0) by (destruct (Z.eqb_spec (snd r) 0); [assumption|discriminate]).
      apply Hz in Es. destruct Es as [_ Hall].
      intros v Hv H2. apply in_map_iff in Hv. destruct Hv as (y & <- & Hy).
      unfold proj in *. destruct (mhas (fst r) (name y)) eqn:Eh; simpl in *; [|discriminate].
      rewrite (F4 y (Hsel_of y Hy Eh)). apply Hall. apply Hsel_of; assumption.
    + intro HQ. assert (Es : snd r = 0).
      { apply Hz. split; [reflexivity|]. intros x Hx.
        assert (Hxs : In x sorted) by (rewrite E; apply in_or_app; left; apply filter_In in Hx; tauto).
        specialize (HQ (proj Fill (fst r) x) (in_map _ _ _ Hxs)).
        unfold proj in HQ. rewrite F3 in HQ. simpl in HQ.
        assert (existsb (String.eqb (name x)) (names sel) = true) as Ex by (apply existsb_eqb_in; apply in_names; exact Hx).
        rewrite Ex in HQ. simpl in HQ. rewrite (F4 x Hx) in HQ. apply HQ. reflexivity. }
      rewrite Es. reflexivity.
Qed.

Theorem fill_class_invariant :
  res_class_eqb (fill_from s1 need L) (fill_from s2 need L) = true.
Proof.
  destruct (fill_class_of s1 Hp1 Ho1) as [A1 B1]. destruct (fill_class_of s2 Hp2 Ho2) as [A2 B2].
  destruct (Z_lt_ge_dec (countb (fillable need) infos) L) as [Hc|Hc].
  - rewrite (A1 (or_introl Hc)), (A2 (or_introl Hc)). reflexivity.
  - destruct (Z_lt_ge_dec L 1) as [Hl|Hl].
    + rewrite (A1 (or_intror Hl)), (A2 (or_intror Hl)). reflexivity.
    + destruct (B1 ltac:(lia)) as (p1 & [E1|E1] & Q1); destruct (B2 ltac:(lia)) as (p2 & [E2|E2] & Q2);
        rewrite E1, E2; try reflexivity; exfalso.
      * (* s1 already filled, s2 not *)
        pose proof (fill_keys_eq infos s1 s2) as Ek.
        repeat (match type of Ek with ?A -> _ => let a := fresh in assert (a : A) by assumption; specialize (Ek a); clear a end).
        apply Q1 in E1. rewrite Ek in E1. apply Q2 in E1. rewrite E1 in E2. discriminate.
      * pose proof (fill_keys_eq infos s1 s2) as Ek.
        repeat (match type of Ek with ?A -> _ => let a := fresh in assert (a : A) by assumption; specialize (Ek a); clear a end).
        apply Q2 in E2. rewrite <- Ek in E2. apply Q1 in E2. rewrite E2 in E1. discriminate.
Qed.
End FillClass.
