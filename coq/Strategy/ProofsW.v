(* The int64 twin (Strategy/ModelW.v) equals the unbounded-Z model on the
   validated domain: every wrapped addition / subtraction is shown to stay
   inside int64.  Outside the domain the two really differ (witnesses at the end):
   the domain conditions are exactly the overflow sites of the code. *)
From Coq Require Import String Ascii.
From Coq Require Import List Bool ZArith Arith Lia Permutation.
From Verif Require Import Base.GoInt Base.GoFloat Base.GoHeap Base.GoHeapSpec Base.GoSort Base.GoSortSpec
  Strategy.Model Strategy.ModelW Strategy.ProofsBase.
Import ListNotations.
Local Open Scope Z_scope.

Lemma wrap64_id z : min_int <= z <= max_int -> wrap64 z = z.
Proof.
  unfold wrap64, min_int, max_int, two64. intro H.
  rewrite Z.mod_small by lia. lia.
Qed.

Lemma addw_id a b : min_int <= a + b <= max_int -> addw a b = a + b.
Proof. apply wrap64_id. Qed.
Lemma subw_id a b : min_int <= a - b <= max_int -> subw a b = a - b.
Proof. apply wrap64_id. Qed.

Lemma maddw_id m k v : min_int <= mget m k + v <= max_int -> maddw m k v = madd m k v.
Proof. intro H. unfold maddw, madd. rewrite addw_id by exact H. reflexivity. Qed.

Lemma Forall_perm {A} (P : A -> Prop) l l' : Permutation l l' -> Forall P l -> Forall P l'.
Proof.
  intros Hp H. rewrite Forall_forall in *. intros x Hx. apply H.
  eapply Permutation_in; [symmetry; exact Hp|exact Hx].
Qed.

(* ---- AUTO: a budget of k more increments per value ---- *)
Definition inr (k : nat) (x : info) : Prop :=
  min_int + Z.of_nat k <= cap x <= max_int /\ min_int <= cnt x /\ cnt x + Z.of_nat k <= max_int.
Definition depok (k : nat) (dep : plan) : Prop :=
  forall key, min_int <= mget dep key /\ mget dep key + Z.of_nat k <= max_int.

Lemma depok_madd k dep key : depok (S k) dep -> depok k (madd dep key 1).
Proof.
  intros H key'. destruct (string_dec key key') as [->|Hne].
  - rewrite mget_madd_same. specialize (H key'). lia.
  - rewrite mget_madd_other by exact Hne. specialize (H key'). lia.
Qed.

Lemma inr_weaken k x : inr (S k) x -> inr k x.
Proof. unfold inr. lia. Qed.

Lemma auto_loopW_eq limit : forall k h dep, Forall (inr k) h -> depok k dep ->
  auto_loopW k h limit dep = auto_loop k h limit dep.
Proof.
  induction k as [|k IH]; intros h dep Hh Hd; [reflexivity|].
  cbn [auto_loopW auto_loop].
  destruct (pop dinfo auto_less h) as [[x h']|] eqn:Hpop; [|reflexivity].
  pose proof (pop_perm info dinfo auto_less h x h' Hpop) as Hp.
  pose proof (Forall_perm _ _ _ Hp Hh) as Hxh. inversion Hxh as [|? ? Hx Hh']; subst.
  assert (Em : maddw dep (name x) 1 = madd dep (name x) 1).
  { apply maddw_id. specialize (Hd (name x)). lia. }
  rewrite Em. destruct k as [|k']; [reflexivity|].
  assert (Eb : bumpW x = bump x).
  { unfold bumpW, bump. destruct Hx as (H1 & H2 & H3). rewrite subw_id, addw_id by lia. reflexivity. }
  rewrite Eb. apply IH.
  - assert (Hb : inr (S k') (bump x)) by (unfold inr, bump in *; cbn [cap cnt] in *; lia).
    assert (Hh'' : Forall (inr (S k')) h') by (eapply Forall_impl; [|exact Hh']; apply inr_weaken).
    destruct (auto_keep limit (bump x)).
    + eapply Forall_perm; [symmetry; apply push_perm|]. constructor; assumption.
    + destruct h' as [|z t]; [constructor|].
      eapply Forall_perm; [symmetry; apply up_perm; simpl; lia|exact Hh''].
  - apply depok_madd. exact Hd.
Qed.

(* ---- GLOBAL ---- *)
Definition ginr (x : info) : Prop := 0 < cap x <= max_int.

Lemma glob_loopW_eq : forall k h dep, Forall ginr h -> depok k dep ->
  glob_loopW k h dep = glob_loop k h dep.
Proof.
  induction k as [|k IH]; intros h dep Hh Hd; [reflexivity|].
  cbn [glob_loopW glob_loop].
  destruct (pop dinfo glob_less h) as [[x h']|] eqn:Hpop; [|reflexivity].
  pose proof (pop_perm info dinfo glob_less h x h' Hpop) as Hp.
  pose proof (Forall_perm _ _ _ Hp Hh) as Hxh. inversion Hxh as [|? ? Hx Hh']; subst.
  assert (Em : maddw dep (name x) 1 = madd dep (name x) 1).
  { apply maddw_id. specialize (Hd (name x)). lia. }
  rewrite Em.
  assert (Eb : glob_stepW x = glob_step x).
  { unfold glob_stepW, glob_step. unfold ginr, min_int in *. rewrite subw_id by (unfold min_int; lia). reflexivity. }
  rewrite Eb. apply IH.
  - destruct (cap (glob_step x) >? 0) eqn:Ec.
    + eapply Forall_perm; [symmetry; apply push_perm|]. constructor; [|exact Hh'].
      unfold ginr, glob_step in *. cbn [cap] in *. lia.
    + exact Hh'.
  - apply depok_madd. exact Hd.
Qed.

(* ---- DRAINED ---- *)
Lemma drained_loopW_eq : forall l need dep,
  Forall (fun x => 0 <= cap x <= max_int) l -> 0 <= need <= max_int ->
  drained_loopW l need dep = drained_loop l need dep.
Proof.
  induction l as [|x t IH]; intros need dep Hl Hn; [reflexivity|].
  inversion Hl as [|? ? Hx Ht]; subst. cbn [drained_loopW drained_loop].
  destruct (Z.ltb_spec need (cap x)); [reflexivity|].
  rewrite subw_id by (unfold min_int; lia).
  destruct (need - cap x =? 0); [reflexivity|]. apply IH; auto. lia.
Qed.

(* ---- EACH ---- *)
Lemma each_foldW_eq need l : forall dep,
  NoDup (names l) -> (forall x, In x l -> mget dep (name x) = 0) -> 0 <= need <= max_int ->
  fold_left (fun dep x => maddw dep (name x) need) l dep =
  fold_left (fun dep x => madd dep (name x) need) l dep.
Proof.
  induction l as [|x t IH]; intros dep Hnd Hz Hn; [reflexivity|].
  simpl in Hnd. inversion Hnd as [|? ? Hx Ht]; subst. cbn [fold_left].
  rewrite maddw_id by (rewrite Hz by (left; reflexivity); unfold min_int; lia).
  apply IH; auto. intros y Hy. rewrite mget_madd_other.
  - apply Hz. right; exact Hy.
  - intro E. apply Hx. rewrite E. apply in_names. exact Hy.
Qed.

Lemma nodup_names_firstn l n : NoDup (names l) -> NoDup (names (firstn n l)).
Proof.
  revert n; induction l as [|x t IH]; intros n H; destruct n; simpl; try constructor.
  - simpl in H. inversion H as [|? ? Hx Ht]; subst.
    intro Hin. apply Hx. unfold names in *. apply in_map_iff in Hin. destruct Hin as (y & Ey & Hy).
    apply in_map_iff. exists y. split; auto. clear -Hy. revert n Hy.
    induction t as [|h t' IHt]; intros n Hy; destruct n; simpl in *; try tauto.
    destruct Hy as [->|Hy]; [left; reflexivity|right; eapply IHt; eauto].
  - simpl in H. inversion H; subst. apply IH. assumption.
Qed.

Lemma each_fromW_eq sorted need limit : NoDup (names sorted) -> 0 <= need <= max_int ->
  each_fromW sorted need limit = each_from sorted need limit.
Proof.
  intros Hnd Hn. unfold each_fromW, each_from.
  destruct (_ =? 0)%nat; [reflexivity|]. destruct (_ <? limit); [reflexivity|].
  destruct (limit <? 0); [reflexivity|]. f_equal.
  apply each_foldW_eq; auto. apply nodup_names_firstn. exact Hnd.
Qed.

(* ---- FILL ---- *)
Lemma fill_loopW_eq need : forall l lim dep todo,
  NoDup (names l) -> (forall x, In x l -> mget dep (name x) = 0) ->
  Forall (fun x => 0 <= cnt x <= max_int) l -> 1 <= need <= max_int ->
  min_int + Z.of_nat (length l) < lim <= max_int ->
  0 <= todo -> todo + need * Z.of_nat (length l) <= max_int ->
  fill_loopW l need lim dep todo = fill_loop l need lim dep todo.
Proof.
  induction l as [|x t IH]; intros lim dep todo Hnd Hz Hc Hn Hl Ht0 Ht; [reflexivity|].
  simpl in Hnd. inversion Hnd as [|? ? Hx Hnt]; subst. inversion Hc as [|? ? Hcx Hct]; subst.
  cbn [fill_loopW fill_loop]. cbn [length] in Hl, Ht.
  assert (Es : subw need (cnt x) = need - cnt x) by (apply subw_id; unfold min_int, max_int in *; lia).
  unfold fillableW, fillable. rewrite Es.
  assert (Hfresh : forall y, In y t -> forall v, mget (madd dep (name x) v) (name y) = 0).
  { intros y Hy v. rewrite mget_madd_other; [apply Hz; right; exact Hy|].
    intro E. apply Hx. rewrite E. apply in_names. exact Hy. }
  destruct (cap x >=? need - cnt x).
  - set (v := Z.max (need - cnt x) 0).
    assert (Hv : 0 <= v <= need) by (unfold v; lia).
    assert (Em : maddw dep (name x) v = madd dep (name x) v).
    { apply maddw_id. rewrite Hz by (left; reflexivity). unfold min_int, max_int in *. lia. }
    rewrite Em.
    assert (Eg : mget (madd dep (name x) v) (name x) = v).
    { rewrite mget_madd_same, Hz by (left; reflexivity). lia. }
    rewrite Eg.
    assert (Ea : addw todo v = todo + v).
    { apply addw_id. unfold min_int, max_int in *. nia. }
    rewrite Ea.
    assert (El : subw lim 1 = lim - 1) by (apply subw_id; unfold min_int, max_int in *; lia).
    rewrite El.
    destruct (lim - 1 =? 0); [reflexivity|].
    apply IH; auto; try lia; try nia.
  - apply IH; auto; try lia; try nia. intros y Hy. apply Hz. right; exact Hy.
Qed.

(* ---- the domain, as a proposition ---- *)
Definition dom64 (s : strategy) (need limit : Z) (infos : list info) : Prop :=
  0 < need <= max_int /\ 0 <= limit <= max_int /\
  Forall (fun x => 0 <= cap x <= max_int /\ 0 <= cnt x /\ cnt x + need <= max_int) infos /\
  (s = Fill -> need * Z.of_nat (length infos) <= max_int).

Lemma int64_domain_spec s need limit infos :
  int64_domain s need limit infos = true -> dom64 s need limit infos.
Proof.
  unfold int64_domain, dom64. rewrite !andb_true_iff, orb_true_iff, negb_true_iff.
  intros (((((H1 & H2) & H3) & H4) & H5) & H6).
  split; [lia|]. split; [lia|]. split.
  - apply Forall_forall. intros x Hx. rewrite forallb_forall in H5. specialize (H5 x Hx).
    rewrite !andb_true_iff in H5. lia.
  - intros ->. destruct H6 as [H6|H6]; [discriminate|lia].
Qed.

Theorem deploy_fullW_eq s need limit infos total :
  NoDup (names infos) -> dom64 s need limit infos ->
  deploy_fullW s need limit infos total = deploy_full s need limit infos total.
Proof.
  intros Hnd (Hn & Hl & Hi & Hf).
  unfold deploy_fullW, deploy_full. destruct s; try reflexivity;
    (destruct (need <=? 0); [reflexivity|]).
  - (* AUTO *)
    f_equal. unfold communismW, communism. destruct (total <? need); [reflexivity|].
    apply auto_loopW_eq.
    + eapply Forall_perm; [symmetry; apply init_perm|].
      apply Forall_forall. intros x Hx. apply filter_In in Hx. destruct Hx as [Hx _].
      rewrite Forall_forall in Hi. specialize (Hi x Hx). unfold inr.
      rewrite Z2Nat.id by lia. unfold min_int, max_int in *. lia.
    + intro key. cbn [mget]. rewrite Z2Nat.id by lia. unfold min_int, max_int in *. lia.
  - (* FILL *)
    unfold fillW, fill. destruct (_ <? each_limit infos limit) eqn:El; [reflexivity|]. f_equal.
    unfold fill_from.
    assert (Hp : Permutation (gosort fill_less infos) infos) by apply gosort_perm.
    assert (Hlen : length (gosort fill_less infos) = length infos) by (apply Permutation_length; exact Hp).
    apply fill_loopW_eq.
    + eapply Permutation_NoDup; [apply perm_names; symmetry; exact Hp|exact Hnd].
    + intros; reflexivity.
    + eapply Forall_perm; [symmetry; exact Hp|]. eapply Forall_impl; [|exact Hi]. simpl. intros x Hx. lia.
    + lia.
    + rewrite Hlen. specialize (Hf eq_refl).
      unfold each_limit. unfold min_int, max_int in *.
      destruct (limit =? 0); nia.
    + lia.
    + rewrite Hlen. specialize (Hf eq_refl). lia.
  - (* EACH *)
    unfold averageW, average. destruct (_ <? each_limit infos limit); [reflexivity|]. f_equal.
    apply each_fromW_eq; [|lia].
    eapply Permutation_NoDup; [apply perm_names; symmetry; apply gosort_perm|exact Hnd].
  - (* GLOBAL *)
    f_equal. unfold globalW, global. destruct (total <? need); [reflexivity|].
    apply glob_loopW_eq.
    + eapply Forall_perm; [symmetry; apply init_perm|].
      apply Forall_forall. intros x Hx. apply filter_In in Hx. destruct Hx as [Hx Hc].
      rewrite Forall_forall in Hi. specialize (Hi x Hx). unfold ginr. lia.
    + intro key. cbn [mget]. rewrite Z2Nat.id by lia. unfold min_int, max_int in *. lia.
  - (* DRAINED *)
    f_equal. unfold drainedW, drained, drained_from. destruct (total <? need); [reflexivity|].
    apply drained_loopW_eq; [|lia].
    eapply Forall_perm; [symmetry; apply gosort_perm|]. eapply Forall_impl; [|exact Hi]. simpl. intros x Hx. lia.
Qed.

Corollary deployW_eq s need limit infos total :
  NoDup (names infos) -> dom64 s need limit infos ->
  deployW s need limit infos total = deploy s need limit infos total.
Proof. intros H1 H2. unfold deployW, deploy. rewrite deploy_fullW_eq by assumption. reflexivity. Qed.

Corollary agreeW_eq c :
  nodupb (names (c_infos c)) = true ->
  int64_domain (c_strat c) (c_need c) (c_limit c) (c_infos c) = true ->
  negb (is_sorting (c_strat c)) || Nat.leb (length (c_infos c)) 12 = true ->
  agreeW c = agree c.
Proof.
  intros H1 H2 H3. unfold agreeW, agree. apply nodupb_spec in H1. apply int64_domain_spec in H2.
  rewrite H3. rewrite deploy_fullW_eq by assumption.
  destruct (deploy_full (c_strat c) (c_need c) (c_limit c) (c_infos c) (c_total c)) as [r after].
  try rewrite H3. reflexivity.
Qed.

(* ---- the domain conditions are needed: overflow witnesses ---- *)
(* FILL: three nodes topped up by MaxInt, MaxInt and 2 instances: toDeploy wraps to 0
   and the int64 code reports ErrAlreadyFilled although it plans instances *)
Definition w_fill_wrap : list info :=
  [mkInfo "a" fzero fzero max_int 0; mkInfo "b" fzero fzero max_int 0;
   mkInfo "c" fzero fzero max_int (max_int - 2)].
Lemma fill_todeploy_wraps :
  (exists p, deployW Fill max_int 0 w_fill_wrap max_int = AlreadyFilled p /\ plan_sum p <> 0) /\
  (exists p, deploy Fill max_int 0 w_fill_wrap max_int = Ok p) /\
  int64_domain Fill max_int 0 w_fill_wrap = false.
Proof.
  split; [|split].
  - eexists. split; [vm_compute; reflexivity|vm_compute; discriminate].
  - eexists. vm_compute. reflexivity.
  - vm_compute. reflexivity.
Qed.

(* AUTO: a node whose count is MaxInt: Count++ wraps to MinInt and the node looks empty *)
Definition w_auto_wrap : list info :=
  [mkInfo "a" fzero fzero 5 max_int; mkInfo "b" fzero fzero 5 (max_int - 1)].
Lemma auto_count_wraps :
  deployW Auto 4 0 w_auto_wrap 10 <> deploy Auto 4 0 w_auto_wrap 10 /\
  int64_domain Auto 4 0 w_auto_wrap = false.
Proof. split; [vm_compute; discriminate|vm_compute; reflexivity]. Qed.
