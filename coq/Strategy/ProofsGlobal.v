(* GLOBAL (GlobalPlan): loop invariant over the exact heap model; the balancing
   rule additionally uses the float order facts of Base/GoFloatLemmas.v. *)
From Coq Require Import String Ascii.
From Coq Require Import List Bool ZArith Arith Lia Permutation.
From Verif Require Import Base.GoInt Base.GoFloat Base.GoFloatLemmas Base.GoHeap Base.GoHeapSpec
  Strategy.Model Strategy.ProofsBase.
Import ListNotations.
Local Open Scope Z_scope.

Lemma fstore_id f : fstore f = f.
Proof. apply fb_fbits. Qed.

Lemma iter_add_S_r k : forall u r, iter_add (S k) u r = fstore (fadd (iter_add k u r) r).
Proof. induction k as [|k IH]; intros u r; [reflexivity|]. simpl in *. rewrite <- IH. reflexivity. Qed.

Lemma nn_iter k : forall u r, nn u -> f_finite r = true -> nn (iter_add k u r).
Proof.
  induction k as [|k IH]; intros u r Hu Hr; simpl; [exact Hu|].
  apply IH; [|exact Hr]. rewrite fstore_id. apply fadd_nn; assumption.
Qed.

(* ---- heap order ---- *)
Notation gle := (hle info glob_less).
Definition gP (x : info) : Prop := nn (usage x) /\ f_finite (rate x) = true.

Lemma gP_key x : gP x -> nn (glob_key x).
Proof. intros [H1 H2]. apply fadd_nn; assumption. Qed.

Lemma gle_fle a b : gP a -> gP b -> gle a b = fle (glob_key a) (glob_key b).
Proof. intros Ha Hb. unfold hle, glob_less. apply negb_flt_fle; apply gP_key; assumption. Qed.

Lemma gle_refl a : gP a -> gle a a = true.
Proof. intro H. rewrite gle_fle by assumption. apply fle_refl. apply gP_key; assumption. Qed.
Lemma gle_trans a b c : gP a -> gP b -> gP c -> gle a b = true -> gle b c = true -> gle a c = true.
Proof.
  intros Ha Hb Hc. rewrite !gle_fle by assumption. apply fle_trans; apply gP_key; assumption.
Qed.
Lemma gle_total a b : gP a -> gP b -> gle a b = true \/ gle b a = true.
Proof. intros Ha Hb. rewrite !gle_fle by assumption. apply fle_total; apply gP_key; assumption. Qed.

Notation ginv := (heap_inv info dinfo glob_less).
Definition gkeep (x : info) : bool := cap x >? 0.

(* ---- ghost state ---- *)
Definition gcur (dep : plan) (x : info) : info :=
  mkInfo (name x) (iter_add (Z.to_nat (mget dep (name x))) (usage x) (rate x)) (rate x)
         (cap x - mget dep (name x)) (cnt x).

Lemma gcur_nil x : gcur [] x = x.
Proof. destruct x. unfold gcur. simpl. f_equal; lia. Qed.
Lemma map_gcur_nil l : map (gcur []) l = l.
Proof. induction l as [|x t IH]; simpl; [reflexivity|]. rewrite gcur_nil, IH. reflexivity. Qed.

Lemma gcur_madd_same dep x : 0 <= mget dep (name x) ->
  gcur (madd dep (name x) 1) x = glob_step (gcur dep x).
Proof.
  intro H. unfold gcur, glob_step. simpl. rewrite mget_madd_same.
  replace (Z.to_nat (mget dep (name x) + 1)) with (S (Z.to_nat (mget dep (name x)))) by lia.
  rewrite iter_add_S_r. f_equal. lia.
Qed.

Lemma gcur_madd_other dep x y : name x <> name y -> gcur (madd dep (name x) 1) y = gcur dep y.
Proof. intro H. unfold gcur. rewrite mget_madd_other by exact H. reflexivity. Qed.

Lemma map_gcur_madd_other dep x l :
  ~ In (name x) (names l) -> map (gcur (madd dep (name x) 1)) l = map (gcur dep) l.
Proof.
  induction l as [|y t IH]; simpl; intro H; [reflexivity|].
  rewrite gcur_madd_other by (intro E; apply H; left; symmetry; exact E).
  rewrite IH by (intro Hi; apply H; right; exact Hi). reflexivity.
Qed.

Section GlobalS.
Variable infos : list info.
Hypothesis Hvalid : valid_infos infos.

(* float hypotheses, needed for the balancing rule only *)
Definition FH : Prop :=
  forall x, In x infos -> f_finite (usage x) = true /\ f_finite (rate x) = true /\ fle fzero (rate x) = true.

Definition U (dep : plan) (x : info) : f64 := usage (gcur dep x).

Lemma gP_gcur dep x : FH -> In x infos -> gP (gcur dep x).
Proof.
  intros Hf Hx. destruct (Hf x Hx) as (H1 & H2 & _). split; simpl; [|exact H2].
  apply nn_iter; [apply finite_nn; exact H1|exact H2].
Qed.

Definition gdep_inv (dep : plan) : Prop :=
  NoDup (map fst dep) /\
  (forall k, mhas dep k = true -> In k (names infos)) /\
  (forall x, In x infos -> 0 <= mget dep (name x) <= cap x) /\
  (FH -> forall a b, In a infos -> In b infos -> 1 <= mget dep (name a) -> 1 <= cap b - mget dep (name b) ->
     fle (U dep a) (fadd (U dep b) (rate b)) = true).

Definition gheap_rel (h : list info) (dep : plan) : Prop :=
  Permutation h (filter gkeep (map (gcur dep) infos)) /\ (FH -> ginv h).

Definition grem (dep : plan) : Z := sumZ (map (fun x => cap x - mget dep (name x)) infos).

Lemma grem_madd dep x : In x infos -> grem (madd dep (name x) 1) = grem dep - 1.
Proof.
  intro Hx. destruct (in_split x infos Hx) as (i1 & i2 & E). destruct Hvalid as [Hnd _].
  unfold grem. rewrite E in *. rewrite !map_app, !sumZ_app. simpl.
  assert (H1 : ~ In (name x) (names i1) /\ ~ In (name x) (names i2)).
  { unfold names in *. rewrite map_app in Hnd. simpl in Hnd. split; intro Hin.
    - apply NoDup_remove_2 in Hnd. apply Hnd. apply in_or_app. left; exact Hin.
    - apply NoDup_remove_2 in Hnd. apply Hnd. apply in_or_app. right; exact Hin. }
  destruct H1 as [Hn1 Hn2].
  assert (Hsame : forall l, ~ In (name x) (names l) ->
     map (fun y => cap y - mget (madd dep (name x) 1) (name y)) l = map (fun y => cap y - mget dep (name y)) l).
  { induction l as [|y t IH]; simpl; intro H; [reflexivity|].
    rewrite mget_madd_other by (intro E'; apply H; left; symmetry; exact E').
    rewrite IH by (intro Hi; apply H; right; exact Hi). reflexivity. }
  rewrite (Hsame i1 Hn1), (Hsame i2 Hn2). rewrite mget_madd_same.
  unfold sumZ. simpl. fold (sumZ (map (fun y => cap y - mget dep (name y)) i2)). lia.
Qed.

Lemma grem_nonneg dep : gdep_inv dep -> 0 <= grem dep.
Proof.
  intros (_ & _ & D1 & _). unfold grem. apply sumZ_nonneg. apply Forall_forall.
  intros z Hz. apply in_map_iff in Hz. destruct Hz as (x & <- & Hx). specialize (D1 x Hx). lia.
Qed.

Lemma grem_zero dep : gdep_inv dep -> filter gkeep (map (gcur dep) infos) = [] -> grem dep = 0.
Proof.
  intros (_ & _ & D1 & _) Hf. unfold grem.
  assert (H : forall x, In x infos -> cap x - mget dep (name x) = 0).
  { intros x Hx. specialize (D1 x Hx).
    destruct (gkeep (gcur dep x)) eqn:Ek.
    - exfalso. assert (Hin : In (gcur dep x) (filter gkeep (map (gcur dep) infos))).
      { apply filter_In. split; [apply in_map; exact Hx|exact Ek]. }
      rewrite Hf in Hin. destruct Hin.
    - unfold gkeep, gcur in Ek. simpl in Ek. lia. }
  clear -H. induction infos as [|y t IH]; [reflexivity|].
  simpl. unfold sumZ in *. simpl. rewrite H by (left; reflexivity).
  rewrite IH; [reflexivity|]. intros x Hx. apply H. right; exact Hx.
Qed.

Lemma grem_pos dep x : gdep_inv dep -> In x infos -> gkeep (gcur dep x) = true -> 1 <= grem dep.
Proof.
  intros Hdi Hx Hk.
  destruct (in_split x infos Hx) as (i1 & i2 & E).
  destruct Hdi as (_ & _ & D1 & _). unfold grem. rewrite E, map_app, sumZ_app. simpl.
  assert (Hnn : forall l, (forall y, In y l -> In y infos) ->
            0 <= sumZ (map (fun y => cap y - mget dep (name y)) l)).
  { intros l Hl. apply sumZ_nonneg. apply Forall_forall. intros z Hz.
    apply in_map_iff in Hz. destruct Hz as (y & <- & Hy). specialize (D1 y (Hl y Hy)). lia. }
  assert (H1 := Hnn i1 ltac:(intros y Hy; rewrite E; apply in_or_app; left; exact Hy)).
  assert (H2 := Hnn i2 ltac:(intros y Hy; rewrite E; apply in_or_app; right; right; exact Hy)).
  unfold gkeep, gcur in Hk. simpl in Hk.
  unfold sumZ in *. simpl. lia.
Qed.

Lemma gdep_inv_step h dep x :
  gdep_inv dep -> gheap_rel h dep -> In x infos -> gkeep (gcur dep x) = true ->
  (FH -> forall y, In y h -> gle (gcur dep x) y = true) ->
  gdep_inv (madd dep (name x) 1).
Proof.
  intros (D0 & D2 & D1 & D4) [Hperm _] Hx Hk Hmin.
  destruct Hvalid as [Hnd Hv].
  assert (Hcx : 1 <= cap x - mget dep (name x)) by (unfold gkeep, gcur in Hk; simpl in Hk; lia).
  split; [apply nodup_keys_mset; exact D0|]. split; [|split].
  - intros k Hkk. rewrite mhas_madd in Hkk. apply orb_true_iff in Hkk. destruct Hkk as [E|Hkk].
    + apply seqb_eq in E. subst k. apply in_names. exact Hx.
    + apply D2. exact Hkk.
  - intros y Hy. destruct (string_dec (name x) (name y)) as [E|E].
    + assert (x = y) by (apply (nodup_names_inj infos); auto). subst y.
      rewrite mget_madd_same. specialize (D1 x Hx). lia.
    + rewrite mget_madd_other by exact E. apply D1. exact Hy.
  - intros Hf a b Ha Hb Hda Hcb.
    specialize (D4 Hf). specialize (Hmin Hf).
    pose proof (D1 x Hx) as Hdx.
    assert (HUx : U (madd dep (name x) 1) x = fadd (U dep x) (rate x)).
    { unfold U. rewrite gcur_madd_same by lia. simpl. apply fstore_id. }
    assert (HUo : forall y, name x <> name y -> U (madd dep (name x) 1) y = U dep y).
    { intros y Hy. unfold U. rewrite gcur_madd_other by exact Hy. reflexivity. }
    assert (Hnn : forall d y, In y infos -> nn (U d y)).
    { intros d y Hy. apply (gP_gcur d y Hf Hy). }
    assert (Hfr : forall y, In y infos -> f_finite (rate y) = true /\ fle (fb 0) (rate y) = true).
    { intros y Hy. destruct (Hf y Hy) as (_ & H2 & H3). split; assumption. }
    destruct (string_dec (name x) (name a)) as [Ea|Ea];
      destruct (string_dec (name x) (name b)) as [Eb|Eb].
    + assert (x = a) by (apply (nodup_names_inj infos); auto).
      assert (x = b) by (apply (nodup_names_inj infos); auto). subst a b.
      apply fadd_ge; [apply Hnn; exact Hx|apply Hfr; exact Hx|apply Hfr; exact Hx].
    + assert (x = a) by (apply (nodup_names_inj infos); auto). subst a.
      rewrite HUx, (HUo b Eb). rewrite mget_madd_other in Hcb by exact Eb.
      assert (Hin : In (gcur dep b) h).
      { eapply Permutation_in; [symmetry; exact Hperm|].
        apply filter_In. split; [apply in_map; exact Hb|]. unfold gkeep, gcur. simpl. lia. }
      specialize (Hmin _ Hin). rewrite gle_fle in Hmin by (apply gP_gcur; assumption).
      exact Hmin.
    + assert (x = b) by (apply (nodup_names_inj infos); auto). subst b.
      rewrite (HUo a Ea), HUx. rewrite mget_madd_other in Hda by exact Ea.
      rewrite mget_madd_same in Hcb.
      specialize (D4 a x Ha Hx Hda ltac:(lia)).
      apply fle_trans with (fadd (U dep x) (rate x)); auto.
      * apply fadd_nn; [apply Hnn; exact Hx|apply Hfr; exact Hx].
      * apply fadd_nn; [|apply Hfr; exact Hx]. apply fadd_nn; [apply Hnn; exact Hx|apply Hfr; exact Hx].
      * apply fadd_ge; [|apply Hfr; exact Hx|apply Hfr; exact Hx].
        apply fadd_nn; [apply Hnn; exact Hx|apply Hfr; exact Hx].
    + rewrite (HUo a Ea), (HUo b Eb). rewrite !mget_madd_other in * by assumption.
      apply D4; auto.
Qed.

Lemma gheap_rel_step h dep x h' :
  gdep_inv dep -> gheap_rel h dep -> In x infos -> gkeep (gcur dep x) = true ->
  Permutation h (gcur dep x :: h') -> (FH -> ginv h') ->
  let x' := glob_step (gcur dep x) in
  let h'' := if cap x' >? 0 then push dinfo glob_less h' x' else h' in
  gheap_rel h'' (madd dep (name x) 1).
Proof.
  intros Hdi [Hperm Hinv] Hx Hk Hpop Hinv'. cbv zeta.
  destruct Hvalid as [Hnd Hv].
  destruct Hdi as (_ & _ & D1 & _). pose proof (D1 x Hx) as Hdx.
  destruct (in_split x infos Hx) as (i1 & i2 & E).
  assert (Hn : ~ In (name x) (names i1) /\ ~ In (name x) (names i2)).
  { rewrite E in Hnd. unfold names in *. rewrite map_app in Hnd. simpl in Hnd. split; intro Hin.
    - apply NoDup_remove_2 in Hnd. apply Hnd. apply in_or_app. left; exact Hin.
    - apply NoDup_remove_2 in Hnd. apply Hnd. apply in_or_app. right; exact Hin. }
  destruct Hn as [Hn1 Hn2].
  set (A := filter gkeep (map (gcur dep) i1)).
  set (B := filter gkeep (map (gcur dep) i2)).
  assert (Hold : filter gkeep (map (gcur dep) infos) = A ++ gcur dep x :: B).
  { rewrite E, map_app, filter_app. simpl. rewrite Hk. reflexivity. }
  assert (Hh' : Permutation h' (A ++ B)).
  { apply Permutation_cons_inv with (a := gcur dep x).
    eapply perm_trans; [symmetry; exact Hpop|].
    eapply perm_trans; [exact Hperm|]. rewrite Hold. symmetry. apply Permutation_middle. }
  assert (Hnew : filter gkeep (map (gcur (madd dep (name x) 1)) infos)
                 = A ++ (if gkeep (glob_step (gcur dep x)) then [glob_step (gcur dep x)] else []) ++ B).
  { rewrite E, map_app, filter_app. simpl.
    rewrite (map_gcur_madd_other dep x i1 Hn1), (map_gcur_madd_other dep x i2 Hn2).
    rewrite gcur_madd_same by lia.
    fold A. fold B. destruct (gkeep (glob_step (gcur dep x))); reflexivity. }
  unfold gheap_rel. rewrite Hnew.
  change (gkeep (glob_step (gcur dep x))) with (cap (glob_step (gcur dep x)) >? 0).
  destruct (cap (glob_step (gcur dep x)) >? 0) eqn:Ek.
  - split.
    + eapply perm_trans; [apply push_perm|]. simpl.
      eapply perm_trans; [apply perm_skip; exact Hh'|]. apply Permutation_middle.
    + intro Hf. apply (push_inv info dinfo glob_less gP gle_refl gle_trans gle_total).
      * (* Forall gP h' *)
        apply Forall_forall. intros y Hy.
        assert (Hy' : In y (filter gkeep (map (gcur dep) infos))).
        { eapply Permutation_in; [exact Hperm|]. eapply Permutation_in; [symmetry; exact Hpop|]. right; exact Hy. }
        apply filter_In in Hy'. destruct Hy' as [Hy' _]. apply in_map_iff in Hy'.
        destruct Hy' as (z & <- & Hz). apply gP_gcur; assumption.
      * rewrite <- gcur_madd_same by lia. apply gP_gcur; assumption.
      * apply Hinv'. exact Hf.
  - simpl. split; [exact Hh'|exact Hinv'].
Qed.

Lemma glob_loop_spec : forall k h dep, gdep_inv dep -> gheap_rel h dep ->
  (Z.of_nat k <= grem dep -> exists p, glob_loop k h dep = Ok p /\ gdep_inv p /\
                                       plan_sum p = plan_sum dep + Z.of_nat k) /\
  (grem dep < Z.of_nat k -> glob_loop k h dep = Err EInsufficientResource).
Proof.
  induction k as [|k IH]; intros h dep Hdi Hhr.
  - pose proof (grem_nonneg dep Hdi). simpl. split; [|lia].
    intros _. exists dep. split; [reflexivity|]. split; [exact Hdi|lia].
  - destruct Hhr as [Hperm Hinv]. cbn [glob_loop].
    destruct h as [|z t].
    + apply Permutation_nil in Hperm. pose proof (grem_zero dep Hdi Hperm). simpl. split; [lia|reflexivity].
    + destruct (pop_some info dinfo glob_less (z :: t) ltac:(discriminate)) as (x' & h' & Hpop).
      pose proof (pop_perm info dinfo glob_less _ _ _ Hpop) as Hpp.
      rewrite Hpop.
      assert (Hx'in : In x' (filter gkeep (map (gcur dep) infos))).
      { eapply Permutation_in; [exact Hperm|]. eapply Permutation_in; [symmetry; exact Hpp|]. left; reflexivity. }
      apply filter_In in Hx'in. destruct Hx'in as [Hx'm Hx'k].
      apply in_map_iff in Hx'm. destruct Hx'm as (x & Ex & Hx). subst x'.
      assert (HP : FH -> Forall gP (z :: t)).
      { intro Hf. apply Forall_forall. intros y Hy.
        assert (Hy' : In y (filter gkeep (map (gcur dep) infos))) by (eapply Permutation_in; eauto).
        apply filter_In in Hy'. destruct Hy' as [Hy' _]. apply in_map_iff in Hy'.
        destruct Hy' as (w & <- & Hw). apply gP_gcur; assumption. }
      assert (Hmin : FH -> (forall y, In y (z :: t) -> gle (gcur dep x) y = true) /\ ginv h').
      { intro Hf. apply (pop_min info dinfo glob_less gP gle_refl gle_trans gle_total (z :: t)); auto. }
      assert (Hdi' : gdep_inv (madd dep (name x) 1)).
      { eapply gdep_inv_step; eauto. split; eauto. intro Hf. apply Hmin. exact Hf. }
      assert (Hhr' := gheap_rel_step (z :: t) dep x h' Hdi (conj Hperm Hinv) Hx Hx'k Hpp
                        (fun Hf => proj2 (Hmin Hf))).
      cbv zeta in Hhr'.
      pose proof (grem_madd dep x Hx) as Hrem'.
      pose proof (grem_pos dep x Hdi Hx Hx'k) as Hpos.
      change (name (gcur dep x)) with (name x).
      destruct (IH _ _ Hdi' Hhr') as [I1 I2].
      split.
      * intro Hle. destruct I1 as (p & Hp & Hpi & Hps); [lia|].
        exists p. split; [exact Hp|]. split; [exact Hpi|]. rewrite Hps, plan_sum_madd. lia.
      * intro Hlt. apply I2. lia.
Qed.

Lemma gheap_rel_init : gheap_rel (init dinfo glob_less (filter gkeep infos)) [].
Proof.
  split.
  - rewrite map_gcur_nil. apply init_perm.
  - intro Hf. apply (init_inv info dinfo glob_less gP gle_refl gle_trans gle_total).
    apply Forall_forall. intros y Hy. apply filter_In in Hy. destruct Hy as [Hy _].
    rewrite <- (gcur_nil y). apply gP_gcur; assumption.
Qed.

Lemma gdep_inv_nil : gdep_inv [].
Proof.
  split; [constructor|]. split; [intros k H; discriminate|]. split.
  - intros x Hx. simpl. destruct Hvalid as [_ Hv]. rewrite Forall_forall in Hv. specialize (Hv x Hx). lia.
  - intros _ a b _ _ H. simpl in H. lia.
Qed.

Lemma grem_nil : grem [] = sumZ (map cap infos).
Proof. unfold grem. f_equal. apply map_ext. intro x. simpl. lia. Qed.

Lemma gdep_inv_C01 need limit p : gdep_inv p -> plan_sum p = need -> C01_spec Global need limit infos p.
Proof.
  intros (D0 & D2 & D1 & _) Hs. unfold C01_spec. split; [exact D0|]. split; [exact D2|]. split; [exact D1|].
  split; [exact Hs|discriminate].
Qed.

Lemma gdep_inv_C03 need limit p : FH -> gdep_inv p -> C03_spec Global need limit infos p.
Proof.
  intros Hf (_ & _ & _ & D4) a b Ha Hb. cbv zeta. intros Hpa Hcb.
  exact (D4 Hf a b Ha Hb Hpa Hcb).
Qed.

Lemma global_spec need total : 0 < need ->
  (total >= need -> need <= sumZ (map cap infos) ->
     exists p, global infos need total = Ok p /\ gdep_inv p /\ plan_sum p = need) /\
  (total < need \/ sumZ (map cap infos) < need -> global infos need total = Err EInsufficientResource).
Proof.
  intro Hneed. unfold global. fold gkeep.
  destruct (glob_loop_spec (Z.to_nat need) _ [] gdep_inv_nil gheap_rel_init) as [I1 I2].
  rewrite grem_nil in *. rewrite Z2Nat.id in * by lia.
  split.
  - intros Ht Hf. destruct (Z.ltb_spec total need); [lia|].
    destruct (I1 Hf) as (p & Hp & Hpi & Hps). exists p. split; [exact Hp|]. split; [exact Hpi|].
    rewrite Hps. unfold plan_sum, sumZ. simpl. lia.
  - intros [Ht|Hf]; destruct (Z.ltb_spec total need); auto; try lia.
Qed.
End GlobalS.
