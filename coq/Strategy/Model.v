(* Executable model of /repo/strategy (strategy.go, communism.go, global.go,
   drained.go, average.go, fill.go), written to mirror the Go text.  No proofs
   here (Strategy/Proofs*.v).

   Conventions: Go int = Z (all inputs of the correspondence runs are int64 and
   the sums the code forms stay in range on the validated domain, see
   [valid_case]); float64 = Flocq binary64 (bit exact); container/heap =
   Base/GoHeap (exact); sort.Slice = Base/GoSort.gosort (exact for len <= 12,
   a sorted permutation beyond); Go map[string]int = association list, compared
   as a finite map. *)
From Coq Require Import String Ascii.
From Coq Require Import List Bool ZArith Arith.
From Verif Require Import Base.GoInt Base.GoFloat Base.GoHeap Base.GoSort Base.RunLib.
Import ListNotations.
Local Open Scope Z_scope.

(* ---- strategy.Info ---- *)
Record info := mkInfo { name : string; usage : f64; rate : f64; cap : Z; cnt : Z }.
Definition fzero : f64 := fb 0.
Definition dinfo : info := mkInfo EmptyString fzero fzero 0 0.

(* ---- map[string]int ---- *)
Definition plan := list (string * Z).
Fixpoint mget (m : plan) (k : string) : Z :=
  match m with
  | [] => 0
  | (k', v) :: t => if String.eqb k' k then v else mget t k
  end.
Fixpoint mhas (m : plan) (k : string) : bool :=
  match m with
  | [] => false
  | (k', _) :: t => String.eqb k' k || mhas t k
  end.
Fixpoint mset (m : plan) (k : string) (v : Z) : plan :=
  match m with
  | [] => [(k, v)]
  | (k', v') :: t => if String.eqb k' k then (k', v) :: t else (k', v') :: mset t k v
  end.
(* m[k] += v   (creates the entry, also when v = 0) *)
Definition madd (m : plan) (k : string) (v : Z) : plan := mset m k (mget m k + v).

(* ---- outcomes ---- *)
Inductive strategy := Auto | Fill | Each | Global | Drained | Other.
Inductive err := EInvalidStrategy | EInvalidCount | EInsufficientResource | EInsufficientCapacity.
Inductive result :=
  | Ok (p : plan)
  | AlreadyFilled (p : plan)     (* FillPlan returns the map together with ErrAlreadyFilled *)
  | Err (e : err)
  | Panic
  | OutOfFuel.

(* ---- communism.go ---- *)
Definition auto_less (a b : info) : bool :=
  (cnt a <? cnt b) || ((cnt a =? cnt b) && (cap a >? cap b)).
(* the filter of newInfoHeap and of infoHeap.Push *)
Definition auto_keep (limit : Z) (x : info) : bool :=
  negb ((cap x =? 0) || ((limit >? 0) && (cnt x >=? limit))).

Definition bump (x : info) : info := mkInfo (name x) (usage x) (rate x) (cap x - 1) (cnt x + 1).

(* one iteration per unit of [need]; k = need as a nat (need >= 1 is guaranteed by Deploy) *)
Fixpoint auto_loop (k : nat) (h : list info) (limit : Z) (dep : plan) : result :=
  match k with
  | O => OutOfFuel
  | S k' =>
    match pop dinfo auto_less h with
    | None => Err EInsufficientResource                   (* iHeap.Len() == 0 *)
    | Some (x, h') =>
      let dep' := madd dep (name x) 1 in                   (* deploy[info.Nodename]++ *)
      match k' with
      | O => Ok dep'                                       (* need--; if need == 0 *)
      | _ =>
        let x' := bump x in                                (* info.Count++; info.Capacity-- *)
        (* heap.Push: h.Push(x) may drop x; up(h.Len()-1) runs regardless *)
        let h'' := if auto_keep limit x' then push dinfo auto_less h' x'
                   else up dinfo auto_less (length h') h' (length h' - 1)%nat in
        auto_loop k' h'' limit dep'
      end
    end
  end.

Definition communism (infos : list info) (need total limit : Z) : result :=
  if total <? need then Err EInsufficientResource else
  let h := init dinfo auto_less (filter (auto_keep limit) infos) in
  auto_loop (Z.to_nat need) h limit [].

(* ---- global.go ---- *)
Definition glob_key (x : info) : f64 := fadd (usage x) (rate x).
Definition glob_less (a b : info) : bool := flt (glob_key a) (glob_key b).
(* a float64 written to memory is its 64-bit pattern; [fstore] is the identity
   (Strategy/Proofs: fstore_id) and only keeps evaluation fast by dropping the
   proof term Flocq attaches to a computed float *)
Definition fstore (f : f64) : f64 := fb (fbits f).
Definition glob_step (x : info) : info :=
  mkInfo (name x) (fstore (fadd (usage x) (rate x))) (rate x) (cap x - 1) (cnt x).

Fixpoint glob_loop (k : nat) (h : list info) (dep : plan) : result :=
  match k with
  | O => Ok dep
  | S k' =>
    match pop dinfo glob_less h with
    | None => Err EInsufficientResource
    | Some (x, h') =>
      let dep' := madd dep (name x) 1 in
      let x' := glob_step x in
      let h'' := if cap x' >? 0 then push dinfo glob_less h' x' else h' in
      glob_loop k' h'' dep'
    end
  end.

Definition global (infos : list info) (need total : Z) : result :=
  if total <? need then Err EInsufficientResource else
  let h := init dinfo glob_less (filter (fun x => cap x >? 0) infos) in
  glob_loop (Z.to_nat need) h [].

(* ---- drained.go ---- *)
Definition drained_less (a b : info) : bool :=
  if negb (cap a =? cap b) then cap a <? cap b else fgt (usage a) (usage b).

Fixpoint drained_loop (l : list info) (need : Z) (dep : plan) : result :=
  match l with
  | [] => Err EInsufficientResource                        (* "BUG: never reach here" *)
  | x :: t =>
    let '(dep', need') :=
      if need <? cap x then (mset dep (name x) need, 0)
      else (mset dep (name x) (cap x), need - cap x) in
    if need' =? 0 then Ok dep' else drained_loop t need' dep'
  end.

Definition drained_from (sorted : list info) (need total : Z) : result :=
  drained_loop sorted need [].
Definition drained (infos : list info) (need total : Z) : result :=
  if total <? need then Err EInsufficientResource else
  drained_from (gosort drained_less infos) need total.

(* ---- average.go ---- *)
Definition each_less (a b : info) : bool := cap a >? cap b.

Definition each_from (sorted : list info) (need limit : Z) : result :=
  let n := length sorted in
  let p := search n (fun i => cap (nth i sorted dinfo) <? need) in
  if (p =? 0)%nat then Err EInsufficientCapacity else
  if Z.of_nat p <? limit then Err EInsufficientResource else
  if limit <? 0 then Panic else                            (* infos[:limit] *)
  Ok (fold_left (fun dep x => madd dep (name x) need) (firstn (Z.to_nat limit) sorted) []).

Definition each_limit (infos : list info) (limit : Z) : Z :=
  if limit =? 0 then Z.of_nat (length infos) else limit.

(* returns the result and the caller's slice after the call (sorted in place) *)
Definition average (infos : list info) (need limit : Z) : result * list info :=
  let limit' := each_limit infos limit in
  if Z.of_nat (length infos) <? limit' then (Err EInsufficientResource, infos) else
  let sorted := gosort each_less infos in
  (each_from sorted need limit', sorted).

(* ---- fill.go ---- *)
Definition fill_less (a b : info) : bool :=
  if cnt a =? cnt b then cap a >? cap b else cnt a >? cnt b.

(* info.Capacity >= need-info.Count  (need >= 1 and Count >= 0: the difference cannot overflow) *)
Definition fillable (need : Z) (x : info) : bool := cap x >=? need - cnt x.

Fixpoint fill_loop (l : list info) (need limit : Z) (dep : plan) (todo : Z) : result :=
  match l with
  | [] => Err EInsufficientResource
  | x :: t =>
    if fillable need x then
      let dep' := madd dep (name x) (Z.max (need - cnt x) 0) in
      let todo' := todo + mget dep' (name x) in
      let limit' := limit - 1 in
      if limit' =? 0 then (if todo' =? 0 then AlreadyFilled dep' else Ok dep')
      else fill_loop t need limit' dep' todo'
    else fill_loop t need limit dep todo
  end.

Definition fill_from (sorted : list info) (need limit : Z) : result :=
  fill_loop sorted need limit [] 0.

Definition fill (infos : list info) (need limit : Z) : result * list info :=
  let limit' := each_limit infos limit in
  if Z.of_nat (length infos) <? limit' then (Err EInsufficientResource, infos) else
  let sorted := gosort fill_less infos in
  (fill_from sorted need limit', sorted).

(* ---- strategy.go: Deploy ---- *)
Definition deploy_full (s : strategy) (count limit : Z) (infos : list info) (total : Z)
  : result * list info :=
  match s with
  | Other => (Err EInvalidStrategy, infos)
  | _ =>
    if count <=? 0 then (Err EInvalidCount, infos) else
    match s with
    | Auto => (communism infos count total limit, infos)
    | Global => (global infos count total, infos)
    | Drained => (drained infos count total, infos)
    | Each => average infos count limit
    | Fill => fill infos count limit
    | Other => (Err EInvalidStrategy, infos)
    end
  end.
Definition deploy s count limit infos total : result := fst (deploy_full s count limit infos total).

(* ---- the two comparisons as they were before the repairs (kept for the record:
        Strategy/Proofs.v refutes C02 / C03 for them with concrete witnesses) ---- *)
Definition drained_less_old (a b : info) : bool :=
  if cap a <? cap b then true else fgt (usage a) (usage b).
Definition drained_old (infos : list info) (need total : Z) : result :=
  if total <? need then Err EInsufficientResource else
  drained_from (gosort drained_less_old infos) need total.
(* info.Count+info.Capacity >= need, in int64 arithmetic *)
Definition fillable_old (need : Z) (x : info) : bool := wrap64 (cnt x + cap x) >=? need.
Fixpoint fill_loop_old (l : list info) (need limit : Z) (dep : plan) (todo : Z) : result :=
  match l with
  | [] => Err EInsufficientResource
  | x :: t =>
    if fillable_old need x then
      let dep' := madd dep (name x) (Z.max (need - cnt x) 0) in
      let todo' := todo + mget dep' (name x) in
      let limit' := limit - 1 in
      if limit' =? 0 then (if todo' =? 0 then AlreadyFilled dep' else Ok dep')
      else fill_loop_old t need limit' dep' todo'
    else fill_loop_old t need limit dep todo
  end.
Definition fill_old (infos : list info) (need limit : Z) : result :=
  let limit' := each_limit infos limit in
  if Z.of_nat (length infos) <? limit' then Err EInsufficientResource else
  fill_loop_old (gosort fill_less infos) need limit' [] 0.

(* ======================================================================== *)
(* Correspondence cases                                                      *)
(* ======================================================================== *)
Record case := mkCase {
  c_strat : strategy; c_need : Z; c_limit : Z; c_infos : list info; c_total : Z;
  o_res : result;                (* what strategy.Deploy returned (map sorted by key) *)
  o_order : list string          (* node names of the caller's slice after the call *)
}.

Definition strategy_eqb (a b : strategy) : bool :=
  match a, b with
  | Auto, Auto | Fill, Fill | Each, Each | Global, Global | Drained, Drained | Other, Other => true
  | _, _ => false
  end.
Definition err_eqb (a b : err) : bool :=
  match a, b with
  | EInvalidStrategy, EInvalidStrategy | EInvalidCount, EInvalidCount
  | EInsufficientResource, EInsufficientResource | EInsufficientCapacity, EInsufficientCapacity => true
  | _, _ => false
  end.

Fixpoint nodupb (l : list string) : bool :=
  match l with
  | [] => true
  | x :: t => negb (existsb (String.eqb x) t) && nodupb t
  end.

(* equality of finite maps given as association lists (keys of [obs] distinct) *)
Definition plan_eqb (m obs : plan) : bool :=
  Nat.eqb (length m) (length obs) && nodupb (map fst m) && nodupb (map fst obs) &&
  forallb (fun kv => mhas m (fst kv) && (mget m (fst kv) =? snd kv)) obs.

Definition res_eqb (a b : result) : bool :=
  match a, b with
  | Ok p, Ok q => plan_eqb p q
  | AlreadyFilled p, AlreadyFilled q => plan_eqb p q
  | Err e, Err f => err_eqb e f
  | Panic, Panic => true
  | _, _ => false
  end.

Definition res_class_eqb (a b : result) : bool :=
  match a, b with
  | Ok _, Ok _ | AlreadyFilled _, AlreadyFilled _ | Panic, Panic => true
  | Err e, Err f => err_eqb e f
  | _, _ => false
  end.

Definition plan_of (r : result) : option plan :=
  match r with Ok p | AlreadyFilled p => Some p | _ => None end.

Definition find_info (infos : list info) (k : string) : option info :=
  find (fun x => String.eqb (name x) k) infos.

(* -- projected comparison for slices longer than 12 (unstable pdqsort) -- *)
Definition canon_bits (f : f64) : Z := if feq f fzero then 0 else fbits f.
Definition proj (s : strategy) (p : plan) (x : info) : list Z :=
  let pl := if mhas p (name x) then [1; mget p (name x)] else [0; 0] in
  match s with
  | Each => cap x :: pl
  | Fill => cnt x :: cap x :: pl
  | Drained => cap x :: canon_bits (usage x) :: pl
  | _ => []
  end.
Definition zlist_eqb := list_eqb Z.eqb.
Definition count_occ_b (t : list Z) (l : list (list Z)) : nat :=
  length (filter (zlist_eqb t) l).
Definition multiset_eqb (l1 l2 : list (list Z)) : bool :=
  Nat.eqb (length l1) (length l2) &&
  forallb (fun t => Nat.eqb (count_occ_b t l1) (count_occ_b t l2)) l1.

Definition sort_less (s : strategy) : info -> info -> bool :=
  match s with Each => each_less | Fill => fill_less | _ => drained_less end.

(* no adjacent inversion *)
Fixpoint sortedb (less : info -> info -> bool) (l : list info) : bool :=
  match l with
  | a :: ((b :: _) as t) => negb (less b a) && sortedb less t
  | _ => true
  end.

Definition names (l : list info) : list string := map name l.
Definition strlist_eqb := list_eqb String.eqb.

Definition is_sorting (s : strategy) : bool :=
  match s with Each | Fill | Drained => true | _ => false end.

Definition agree (c : case) : bool :=
  let '(r, after) := deploy_full (c_strat c) (c_need c) (c_limit c) (c_infos c) (c_total c) in
  if negb (is_sorting (c_strat c)) || Nat.leb (length (c_infos c)) 12 then
    res_eqb r (o_res c) && strlist_eqb (names after) (o_order c)
  else
    (* long slice: result class, projected plan, and the observed order must be a
       sorted permutation whenever the model says the slice was sorted *)
    res_class_eqb r (o_res c) &&
    match plan_of r, plan_of (o_res c) with
    | Some p, Some q =>
        multiset_eqb (map (proj (c_strat c) p) (c_infos c)) (map (proj (c_strat c) q) (c_infos c))
        && Nat.eqb (length p) (length q)
    | None, None => true
    | _, _ => false
    end &&
    match c_strat c with
    | Drained => strlist_eqb (names (c_infos c)) (o_order c)
    | _ =>
      if strlist_eqb (names after) (names (c_infos c)) && negb (sortedb (sort_less (c_strat c)) (c_infos c))
      then strlist_eqb (names after) (o_order c)      (* not sorted by the model => untouched *)
      else
        let obs := map (fun k => match find_info (c_infos c) k with Some x => x | None => dinfo end) (o_order c) in
        Nat.eqb (length obs) (length (c_infos c)) && nodupb (o_order c) &&
        forallb (fun k => existsb (String.eqb k) (names (c_infos c))) (o_order c) &&
        sortedb (sort_less (c_strat c)) obs
    end.

(* ======================================================================== *)
(* Boolean reflections of C01, C02, C03, evaluated on the implementation's   *)
(* output.  Outside the validated domain they are vacuously true.            *)
(* ======================================================================== *)
Definition valid_info (x : info) : bool :=
  (0 <=? cap x) && (cap x <=? max_int) && (0 <=? cnt x) && (cnt x <=? max_int) &&
  f_finite (usage x) && f_finite (rate x).
(* the domain on which no int64 operation of the code can overflow
   (Strategy/ProofsW.v: there the int64 twin equals this model) *)
Definition int64_domain (s : strategy) (need limit : Z) (infos : list info) : bool :=
  (0 <? need) && (need <=? max_int) && (0 <=? limit) && (limit <=? max_int) &&
  forallb (fun x => (0 <=? cap x) && (cap x <=? max_int) && (0 <=? cnt x) && (cnt x + need <=? max_int)) infos &&
  (* FILL accumulates toDeploy over the selected nodes *)
  (negb (strategy_eqb s Fill) || (need * Z.of_nat (length infos) <=? max_int)).

Definition valid_case (c : case) : bool :=
  nodupb (names (c_infos c)) && forallb valid_info (c_infos c) &&
  (0 <? c_need c) && (c_need c <=? max_int) && (0 <=? c_limit c) && (c_limit c <=? max_int) &&
  negb (strategy_eqb (c_strat c) Other) &&
  int64_domain (c_strat c) (c_need c) (c_limit c) (c_infos c).

Definition sumZ (l : list Z) : Z := fold_right Z.add 0 l.
Definition satsum (l : list Z) : Z := fold_left satadd l 0.
Definition plan_sum (p : plan) : Z := sumZ (map snd p).
Definition fin (p : plan) (x : info) : Z := cnt x + mget p (name x).

(* ---- C01 ---- *)
Definition C01_plan_ok (s : strategy) (need limit : Z) (infos : list info) (p : plan) : bool :=
  let limit' := each_limit infos limit in
  (* (a) only candidates, each at most once *)
  nodupb (map fst p) &&
  forallb (fun kv => existsb (String.eqb (fst kv)) (names infos)) p &&
  (* (b) 0 <= plan n <= cap n *)
  forallb (fun x => (0 <=? mget p (name x)) && (mget p (name x) <=? cap x)) infos &&
  (* (c) totals *)
  match s with
  | Auto | Global | Drained => plan_sum p =? need
  | Each => (Z.of_nat (length p) =? limit') && forallb (fun kv => snd kv =? need) p
  | Fill => (Z.of_nat (length p) =? limit') &&
            forallb (fun x => negb (mhas p (name x)) || (fin p x =? Z.max (cnt x) need)) infos
  | Other => false
  end &&
  (* (d) AUTO with a limit *)
  match s with
  | Auto => (limit =? 0) || forallb (fun x => (mget p (name x) <? 1) || (fin p x <=? limit)) infos
  | _ => true
  end.

Definition C01_ok (c : case) : bool :=
  if negb (valid_case c) then true else
  match o_res c with
  | Ok p => C01_plan_ok (c_strat c) (c_need c) (c_limit c) (c_infos c) p
  | AlreadyFilled p =>
      strategy_eqb (c_strat c) Fill && C01_plan_ok (c_strat c) (c_need c) (c_limit c) (c_infos c) p
      && (plan_sum p =? 0)
  | Err _ => true
  | Panic | OutOfFuel => false
  end.

(* ---- C02 ---- *)
Definition room (limit : Z) (x : info) : Z :=
  if limit >? 0 then Z.min (cap x) (Z.max 0 (limit - cnt x)) else cap x.
Definition countb {A} (f : A -> bool) (l : list A) : Z := Z.of_nat (length (filter f l)).

Definition feasible (s : strategy) (need limit : Z) (infos : list info) : bool :=
  let limit' := each_limit infos limit in
  match s with
  | Auto => need <=? sumZ (map (room limit) infos)
  | Global | Drained => need <=? sumZ (map cap infos)
  | Each => (limit' <=? Z.of_nat (length infos)) && (1 <=? limit') &&
            (limit' <=? countb (fun x => need <=? cap x) infos)
  | Fill => (limit' <=? Z.of_nat (length infos)) && (1 <=? limit') &&
            (limit' <=? countb (fun x => need <=? cnt x + cap x) infos)
  | Other => false
  end.

Definition C02_ok (c : case) : bool :=
  if negb (valid_case c && (c_total c =? satsum (map cap (c_infos c)))) then true else
  let f := feasible (c_strat c) (c_need c) (c_limit c) (c_infos c) in
  match o_res c with
  | Ok _ | AlreadyFilled _ => f
  | Err EInsufficientResource | Err EInsufficientCapacity => negb f
  | _ => false
  end.

(* ---- C03 ---- *)
Fixpoint iter_add (k : nat) (u r : f64) : f64 :=
  match k with O => u | S k' => iter_add k' (fstore (fadd u r)) r end.
Definition usage_fin (p : plan) (x : info) : f64 := iter_add (Z.to_nat (mget p (name x))) (usage x) (rate x).

Definition all_pairs (f : info -> info -> bool) (l : list info) : bool :=
  forallb (fun a => forallb (fun b => f a b) l) l.

Definition C03_pair (s : strategy) (need limit : Z) (p : plan) (a b : info) : bool :=
  let pa := mget p (name a) in
  let pb := mget p (name b) in
  match s with
  | Auto =>
      (* a received one, b could still have taken one => fin a <= fin b + 1 *)
      negb ((1 <=? pa) && (1 <=? cap b - pb) && ((limit =? 0) || (fin p b <? limit)))
      || (fin p a <=? fin p b + 1)
  | Global =>
      negb ((1 <=? pa) && (1 <=? cap b - pb))
      || fle (usage_fin p a) (fadd (usage_fin p b) (rate b))
  | Drained =>
      negb ((cap a <? cap b) && (1 <=? pb)) || (pa =? cap a)
  | Each =>
      negb (mhas p (name a) && negb (mhas p (name b))) || (cap b <=? cap a)
  | Fill =>
      (* selected a, unselected b that could have been filled => (cnt a, cap a) >=lex (cnt b, cap b) *)
      negb (mhas p (name a) && negb (mhas p (name b)) && (need <=? cnt b + cap b))
      || (cnt b <? cnt a) || ((cnt b =? cnt a) && (cap b <=? cap a))
  | Other => true
  end.

Definition nonneg_rates (infos : list info) : bool :=
  forallb (fun x => fle fzero (rate x)) infos.

Definition C03_ok (c : case) : bool :=
  if negb (valid_case c) then true else
  if strategy_eqb (c_strat c) Global && negb (nonneg_rates (c_infos c)) then true else
  match o_res c with
  | Ok p | AlreadyFilled p =>
      all_pairs (C03_pair (c_strat c) (c_need c) (c_limit c) p) (c_infos c)
  | Err _ => true
  | Panic | OutOfFuel => false
  end.
