package storeh

import (
	"context"
	"encoding/json"
	"fmt"
	"os"
	"sort"
	"strconv"
	"strings"
	"sync"
	"testing"
	"time"

	"github.com/alicebob/miniredis/v2"
	"github.com/alicebob/miniredis/v2/server"
	"github.com/cockroachdb/errors"
	clientv3 "go.etcd.io/etcd/client/v3"

	enginefactory "github.com/projecteru2/core/engine/factory"
	"github.com/projecteru2/core/store"
	"github.com/projecteru2/core/store/etcdv3"
	"github.com/projecteru2/core/store/etcdv3/embedded"
	redisstore "github.com/projecteru2/core/store/redis"
	"github.com/projecteru2/core/types"
	"github.com/projecteru2/core/utils"

	"verifharness/vh"
)

func init() {
	ParseName = func(name string) (string, string, bool) {
		a, e, _, err := utils.ParseWorkloadName(name)
		return a, e, err == nil
	}
}

// Backend is one real store under test.
type Backend struct {
	Name  string // "etcd" | "redis"
	S     store.Store
	mr    *miniredis.Miniredis
	cli   *clientv3.Client
	lease *leaseRec
	kv    *kvHook
	rhook func()
	rmu   sync.Mutex
	vnow  int64
	Real  bool // etcd only: real-time leases (thorough tier), Advance sleeps
}

// kvHook wraps the etcd KV client: when armed, the next Txn() first runs the
// injected call (another client's complete Store call), i.e. the injected call
// happens between the phases of a multi-phase method of the store.
type kvHook struct {
	clientv3.KV
	mu   sync.Mutex
	hook func()
}

func (k *kvHook) take() func() {
	k.mu.Lock()
	defer k.mu.Unlock()
	h := k.hook
	k.hook = nil
	return h
}

func (k *kvHook) Txn(ctx context.Context) clientv3.Txn {
	if h := k.take(); h != nil {
		h()
	}
	return k.KV.Txn(ctx)
}

// leaseRec wraps the etcd lease client: it records Grant/KeepAliveOnce so that
// the harness can expire leases in *virtual* time by revoking them (DESIGN §4.8).
type leaseRec struct {
	clientv3.Lease
	mu     sync.Mutex
	b      *Backend
	ttl    map[clientv3.LeaseID]int64
	expiry map[clientv3.LeaseID]int64
	virt   map[clientv3.LeaseID]bool
	Calls  []string
}

// virtualOffset: in virtual-time runs every lease is granted with this many
// extra real seconds, so that a slow (loaded) run can never let the etcd server
// expire a lease in real time; the recorder maps granted TTLs back, so the code
// under test sees exactly the TTL it asked for.
const virtualOffset = 1000000

func (l *leaseRec) off() int64 {
	if l.b.Real {
		return 0
	}
	return virtualOffset
}

func (l *leaseRec) TimeToLive(ctx context.Context, id clientv3.LeaseID, opts ...clientv3.LeaseOption) (*clientv3.LeaseTimeToLiveResponse, error) {
	r, err := l.Lease.TimeToLive(ctx, id, opts...)
	if err == nil && r != nil && r.GrantedTTL > 0 {
		l.mu.Lock()
		_, virt := l.virt[id]
		l.mu.Unlock()
		if virt {
			r.GrantedTTL -= virtualOffset
			if r.TTL > 0 {
				r.TTL -= virtualOffset
			}
		}
	}
	return r, err
}

func (l *leaseRec) Grant(ctx context.Context, ttl int64) (*clientv3.LeaseGrantResponse, error) {
	off := l.off()
	if ttl <= 0 {
		off = 0
	}
	r, err := l.Lease.Grant(ctx, ttl+off)
	if err == nil && off > 0 {
		r.TTL -= off
		l.mu.Lock()
		l.virt[r.ID] = true
		l.mu.Unlock()
	}
	if err == nil {
		l.mu.Lock()
		l.ttl[r.ID] = ttl
		l.expiry[r.ID] = l.b.vnow + ttl
		l.Calls = append(l.Calls, "grant")
		l.mu.Unlock()
	}
	return r, err
}

func (l *leaseRec) KeepAliveOnce(ctx context.Context, id clientv3.LeaseID) (*clientv3.LeaseKeepAliveResponse, error) {
	r, err := l.Lease.KeepAliveOnce(ctx, id)
	if err == nil && r != nil {
		l.mu.Lock()
		if l.virt[id] {
			r.TTL -= virtualOffset
		}
		l.mu.Unlock()
	}
	if err == nil {
		l.mu.Lock()
		if t, ok := l.ttl[id]; ok {
			l.expiry[id] = l.b.vnow + t
		}
		l.Calls = append(l.Calls, "keepalive")
		l.mu.Unlock()
	}
	return r, err
}

func (l *leaseRec) Revoke(ctx context.Context, id clientv3.LeaseID) (*clientv3.LeaseRevokeResponse, error) {
	r, err := l.Lease.Revoke(ctx, id)
	l.mu.Lock()
	delete(l.ttl, id)
	delete(l.expiry, id)
	l.Calls = append(l.Calls, "revoke")
	l.mu.Unlock()
	return r, err
}

func baseConfig() types.Config {
	config := types.Config{}
	config.LockTimeout = 10 * time.Second
	config.GlobalTimeout = 30 * time.Second
	config.ConnectionTimeout = 2 * time.Second
	config.MaxConcurrency = 1000
	return config
}

var engineOnce sync.Once

func initEngines(cfg types.Config) {
	engineOnce.Do(func() { enginefactory.InitEngineCache(context.Background(), cfg, nil) })
}

// NewEtcd starts (or reuses) the embedded etcd cluster of this test and the real etcd store on it.
func NewEtcd(t *testing.T) *Backend {
	cfg := baseConfig()
	cfg.Etcd = types.EtcdConfig{Machines: []string{"127.0.0.1:2379"}, Prefix: "/verif", LockPrefix: "/verif-lock"}
	initEngines(cfg)
	args := os.Args
	m, err := etcdv3.New(cfg, t)
	os.Args = args
	if err != nil {
		t.Fatalf("etcd store: %v", err)
	}
	b := &Backend{Name: "etcd", S: m}
	b.cli = embedded.NewCluster(t, cfg.Etcd.Prefix).RandClient()
	b.lease = &leaseRec{Lease: b.cli.Lease, b: b, ttl: map[clientv3.LeaseID]int64{}, expiry: map[clientv3.LeaseID]int64{}, virt: map[clientv3.LeaseID]bool{}}
	b.cli.Lease = b.lease
	b.kv = &kvHook{KV: b.cli.KV}
	b.cli.KV = b.kv
	return b
}

// NewRedis starts miniredis and the real Redis store on it.
func NewRedis(t *testing.T) *Backend {
	mr, err := miniredis.Run()
	if err != nil {
		t.Fatalf("miniredis: %v", err)
	}
	t.Cleanup(mr.Close)
	cfg := baseConfig()
	cfg.Redis = types.RedisConfig{Addr: mr.Addr(), DB: 0}
	initEngines(cfg)
	r, err := redisstore.New(cfg, nil)
	if err != nil {
		t.Fatalf("redis store: %v", err)
	}
	t.Cleanup(r.TerminateEmbededStorage)
	b := &Backend{Name: "redis", S: r, mr: mr}
	// when armed, the next MULTI first lets the injected call run to completion
	mr.Server().SetPreHook(func(_ *server.Peer, cmd string, _ ...string) bool {
		if cmd == "MULTI" {
			b.rmu.Lock()
			h := b.rhook
			b.rhook = nil
			b.rmu.Unlock()
			if h != nil {
				h()
			}
		}
		return false
	})
	return b
}

// ExecInjected runs outer with inner injected at outer's first transaction
// (etcd: first Txn, redis: first MULTI).  If outer never reaches a transaction
// inner is not executed (reported as not run).
func (b *Backend) ExecInjected(outer, inner Op) (ro, ri Res, ran bool) {
	var mu sync.Mutex
	h := func() {
		r := b.Exec(inner)
		mu.Lock()
		ri, ran = r, true
		mu.Unlock()
	}
	if b.kv != nil {
		b.kv.mu.Lock()
		b.kv.hook = h
		b.kv.mu.Unlock()
	} else {
		b.rmu.Lock()
		b.rhook = h
		b.rmu.Unlock()
	}
	ro = b.Exec(outer)
	if b.kv != nil {
		b.kv.take()
	} else {
		b.rmu.Lock()
		b.rhook = nil
		b.rmu.Unlock()
	}
	mu.Lock()
	defer mu.Unlock()
	return ro, ri, ran
}

// Reset empties the store.
func (b *Backend) Reset() {
	ctx := context.Background()
	b.vnow = 0
	if b.mr != nil {
		b.mr.FlushAll()
		return
	}
	if _, err := b.cli.Delete(ctx, "/", clientv3.WithPrefix()); err != nil {
		panic(err)
	}
	b.lease.mu.Lock()
	ids := make([]clientv3.LeaseID, 0, len(b.lease.ttl))
	for id := range b.lease.ttl {
		ids = append(ids, id)
	}
	b.lease.mu.Unlock()
	for _, id := range ids {
		_, _ = b.lease.Revoke(ctx, id)
	}
	b.lease.mu.Lock()
	b.lease.Calls = nil
	b.lease.mu.Unlock()
}

// Advance moves the backend's clock by d seconds.
func (b *Backend) Advance(d int64) {
	if d <= 0 {
		return
	}
	if b.mr != nil {
		b.mr.FastForward(time.Duration(d) * time.Second)
		return
	}
	if b.Real {
		// real seconds: the etcd server expires the leases itself; the harness
		// clock only serves the remaining-TTL column of the raw dump
		time.Sleep(time.Duration(d) * time.Second)
		b.vnow += d
		return
	}
	b.vnow += d
	b.lease.mu.Lock()
	var dead []clientv3.LeaseID
	for id, e := range b.lease.expiry {
		if e <= b.vnow {
			dead = append(dead, id)
		}
	}
	b.lease.mu.Unlock()
	for _, id := range dead {
		_, _ = b.lease.Revoke(context.Background(), id)
	}
}

// LeaseCalls returns and clears the recorded lease calls (etcd only).
func (b *Backend) LeaseCalls() []string {
	if b.lease == nil {
		return nil
	}
	b.lease.mu.Lock()
	defer b.lease.mu.Unlock()
	c := b.lease.Calls
	b.lease.Calls = nil
	return c
}

// ---- error classification ----

func classify(err error) (string, string) {
	if err == nil {
		return "", ""
	}
	txt := err.Error()
	switch {
	case errors.Is(err, types.ErrKeyExists), errors.Is(err, redisstore.ErrAlreadyExists):
		return "EExists", txt
	case errors.Is(err, types.ErrKeyNotExists), errors.Is(err, redisstore.ErrKeyNotExitsts):
		return "ENotExists", txt
	case errors.Is(err, types.ErrInvaildCount):
		return "ECount", txt
	case errors.Is(err, types.ErrPodHasNodes):
		return "EPodHasNodes", txt
	case errors.Is(err, types.ErrPodNotFound):
		return "EPodNotFound", txt
	case errors.Is(err, types.ErrInvaildNodeStatusTTL):
		return "ETTL", txt
	case errors.Is(err, types.ErrInvaildWorkloadStatus):
		return "EStatus", txt
	case errors.Is(err, types.ErrInvalidWorkloadName):
		return "EName", txt
	case errors.Is(err, types.ErrInvaildWorkloadMeta):
		return "EMeta", txt
	case strings.Contains(txt, "redis: nil"):
		return "ENil", txt
	}
	return "EOther", txt
}

// ---- conversions ----

func lbl(m map[string]string) Labels {
	if len(m) == 0 {
		return nil
	}
	return Labels(m)
}

func nodeOf(n NData, ca, cert, key string) *types.Node {
	return &types.Node{NodeMeta: types.NodeMeta{Name: n.Name, Endpoint: n.Ep, Podname: n.Pod, Labels: map[string]string(n.Labels), Ca: ca, Cert: cert, Key: key},
		Bypass: n.Bypass, Test: n.Test}
}

func viewOfNode(n *types.Node) NView {
	return NView{N: NData{Name: n.Name, Ep: n.Endpoint, Pod: n.Podname, Labels: lbl(n.Labels), Bypass: n.Bypass, Test: n.Test}, Avail: n.Available}
}

func workloadOf(w WData) *types.Workload {
	return &types.Workload{ID: w.ID, Name: w.Name, Nodename: w.Node, Labels: map[string]string(w.Labels)}
}

func viewOfWorkload(w *types.Workload) WView {
	v := WView{W: WData{ID: w.ID, Name: w.Name, Node: w.Nodename, Labels: lbl(w.Labels)}}
	if w.StatusMeta != nil {
		v.St = &WStat{ID: w.StatusMeta.ID, Running: w.StatusMeta.Running, Healthy: w.StatusMeta.Healthy}
	}
	return v
}

func nodesRes(ns []*types.Node) Res {
	items := make([]string, len(ns))
	for i, n := range ns {
		items[i] = CoqNView(viewOfNode(n))
	}
	return okRes("PNodes", "(PNodes "+sortedList(items)+")")
}

func workloadsRes(ws []*types.Workload) Res {
	items := make([]string, len(ws))
	for i, w := range ws {
		items[i] = CoqWView(viewOfWorkload(w))
	}
	return okRes("PWls", "(PWls "+sortedList(items)+")")
}

// Exec runs one operation on the real store and canonicalises the result.
func (b *Backend) Exec(o Op) (res Res) {
	defer func() {
		if r := recover(); r != nil {
			res = Res{Err: "PANIC", Text: fmt.Sprint(r)}
		}
	}()
	ctx, cancel := context.WithTimeout(context.Background(), 20*time.Second)
	defer cancel()
	s := b.S
	fail := func(err error) Res {
		c, txt := classify(err)
		return Res{Err: c, Text: txt}
	}
	unit := okRes("PUnit", "PUnit")
	switch o.Kind {
	case "AddPod":
		p, err := s.AddPod(ctx, o.P, o.D)
		if err != nil {
			return fail(err)
		}
		return okRes("PPod", vh.App("PPod", Str(p.Name), Str(p.Desc)))
	case "RemovePod":
		if err := s.RemovePod(ctx, o.P); err != nil {
			return fail(err)
		}
		return unit
	case "GetPod":
		p, err := s.GetPod(ctx, o.P)
		if err != nil {
			return fail(err)
		}
		return okRes("PPod", vh.App("PPod", Str(p.Name), Str(p.Desc)))
	case "GetAllPods":
		ps, err := s.GetAllPods(ctx)
		if err != nil {
			return fail(err)
		}
		items := make([]string, len(ps))
		for i, p := range ps {
			items[i] = vh.Pair(Str(p.Name), Str(p.Desc))
		}
		return okRes("PPods", "(PPods "+sortedList(items)+")")
	case "AddNode":
		a := o.Nodes[0]
		n, err := s.AddNode(ctx, &types.AddNodeOptions{Nodename: a.N.Name, Endpoint: a.N.Ep, Podname: a.N.Pod, Ca: a.Ca, Cert: a.Cert, Key: a.Key,
			Labels: map[string]string(a.N.Labels), Test: a.N.Test})
		if err != nil {
			return fail(err)
		}
		return okRes("PNode", "(PNode "+CoqNView(viewOfNode(n))+")")
	case "RemoveNode":
		if err := s.RemoveNode(ctx, &types.Node{NodeMeta: types.NodeMeta{Name: o.N, Podname: o.P}}); err != nil {
			return fail(err)
		}
		return unit
	case "GetNode":
		n, err := s.GetNode(ctx, o.N)
		if err != nil {
			return fail(err)
		}
		return okRes("PNode", "(PNode "+CoqNView(viewOfNode(n))+")")
	case "GetNodes":
		ns, err := s.GetNodes(ctx, o.Names)
		if err != nil {
			return fail(err)
		}
		return nodesRes(ns)
	case "GetNodesByPod":
		ns, err := s.GetNodesByPod(ctx, &types.NodeFilter{Podname: o.P, Labels: map[string]string(o.Lbl), All: o.All}, store.WithoutEngineOption())
		if err != nil {
			return fail(err)
		}
		return nodesRes(ns)
	case "UpdateNodes":
		ns := make([]*types.Node, len(o.Nodes))
		for i, a := range o.Nodes {
			ns[i] = nodeOf(a.N, a.Ca, a.Cert, a.Key)
		}
		if err := s.UpdateNodes(ctx, ns...); err != nil {
			return fail(err)
		}
		return unit
	case "SetNodeStatus":
		if err := s.SetNodeStatus(ctx, &types.Node{NodeMeta: types.NodeMeta{Name: o.N, Podname: o.P}}, o.TTL); err != nil {
			return fail(err)
		}
		return unit
	case "GetNodeStatus":
		st, err := s.GetNodeStatus(ctx, o.N)
		if err != nil {
			return fail(err)
		}
		return okRes("PNSt", vh.App("PNSt", Str(st.Nodename), Str(st.Podname), vh.Bool(st.Alive)))
	case "LoadNodeCert":
		n := &types.Node{NodeMeta: types.NodeMeta{Name: o.N}}
		if err := s.LoadNodeCert(ctx, n); err != nil {
			return fail(err)
		}
		return okRes("PCert", vh.App("PCert", Str(n.Ca), Str(n.Cert), Str(n.Key)))
	case "AddWorkload":
		var pr *types.Processing
		if o.Pr != nil {
			pr = &types.Processing{Appname: o.Pr.App, Entryname: o.Pr.Entry, Nodename: o.Pr.Node, Ident: o.Pr.Ident}
		}
		if err := s.AddWorkload(ctx, workloadOf(*o.W), pr); err != nil {
			return fail(err)
		}
		return unit
	case "UpdateWorkload":
		if err := s.UpdateWorkload(ctx, workloadOf(*o.W)); err != nil {
			return fail(err)
		}
		return unit
	case "RemoveWorkload":
		if err := s.RemoveWorkload(ctx, workloadOf(*o.W)); err != nil {
			return fail(err)
		}
		return unit
	case "GetWorkload":
		w, err := s.GetWorkload(ctx, o.N)
		if err != nil {
			return fail(err)
		}
		return okRes("PWl", "(PWl "+CoqWView(viewOfWorkload(w))+")")
	case "GetWorkloads":
		ws, err := s.GetWorkloads(ctx, o.Names)
		if err != nil {
			return fail(err)
		}
		return workloadsRes(ws)
	case "GetWorkloadStatus":
		st, err := s.GetWorkloadStatus(ctx, o.N)
		if err != nil {
			return fail(err)
		}
		if st == nil {
			return okRes("PWSt", "(PWSt None)")
		}
		return okRes("PWSt", "(PWSt "+vh.Some(CoqWS(WStat{ID: st.ID, Running: st.Running, Healthy: st.Healthy}))+")")
	case "SetWorkloadStatus":
		st := &types.StatusMeta{ID: o.St.ID, Running: o.St.Running, Healthy: o.St.Healthy, Appname: o.A, Entrypoint: o.E, Nodename: o.N}
		if err := s.SetWorkloadStatus(ctx, st, o.TTL); err != nil {
			return fail(err)
		}
		return unit
	case "ListWorkloads":
		ws, err := s.ListWorkloads(ctx, o.A, o.E, o.N, o.Limit, map[string]string(o.Lbl))
		if err != nil {
			return fail(err)
		}
		return workloadsRes(ws)
	case "ListNodeWorkloads":
		ws, err := s.ListNodeWorkloads(ctx, o.N, map[string]string(o.Lbl))
		if err != nil {
			return fail(err)
		}
		return workloadsRes(ws)
	case "GetDeployStatus":
		m, err := s.GetDeployStatus(ctx, o.A, o.E)
		if err != nil {
			return fail(err)
		}
		ks := vh.SortedKeys(m)
		items := make([]string, len(ks))
		for i, k := range ks {
			items[i] = vh.Pair(Str(k), vh.ZI(m[k]))
		}
		return okRes("PCounts", "(PCounts "+L(items)+")")
	case "CreateProcessing":
		if err := s.CreateProcessing(ctx, &types.Processing{Appname: o.Pr.App, Entryname: o.Pr.Entry, Nodename: o.Pr.Node, Ident: o.Pr.Ident}, int(o.Cnt)); err != nil {
			return fail(err)
		}
		return unit
	case "DeleteProcessing":
		if err := s.DeleteProcessing(ctx, &types.Processing{Appname: o.Pr.App, Entryname: o.Pr.Entry, Nodename: o.Pr.Node, Ident: o.Pr.Ident}); err != nil {
			return fail(err)
		}
		return unit
	case "Advance":
		b.Advance(o.TTL)
		return unit
	}
	panic("unknown op " + o.Kind)
}

// ---- raw dump of the backing key-value store ----

type DumpEntry struct {
	Key, Val string
	TTL      int64 // remaining seconds, -1 = none
}

// Dump reads every key of the backing store (not through the Store API).
func (b *Backend) Dump() []DumpEntry {
	var out []DumpEntry
	if b.mr != nil {
		for _, k := range b.mr.Keys() {
			v, err := b.mr.Get(k)
			if err != nil {
				v = "<" + err.Error() + ">"
			}
			ttl := int64(-1)
			if d := b.mr.TTL(k); d > 0 {
				ttl = int64((d + time.Second - 1) / time.Second)
			}
			out = append(out, DumpEntry{k, v, ttl})
		}
		return out
	}
	resp, err := b.cli.Get(context.Background(), "/", clientv3.WithPrefix())
	if err != nil {
		panic(err)
	}
	for _, kv := range resp.Kvs {
		ttl := int64(-1)
		if kv.Lease != 0 {
			b.lease.mu.Lock()
			if e, ok := b.lease.expiry[clientv3.LeaseID(kv.Lease)]; ok {
				ttl = e - b.vnow
			} else {
				ttl = -2 // a lease the recorder has never seen
			}
			b.lease.mu.Unlock()
		}
		out = append(out, DumpEntry{string(kv.Key), string(kv.Value), ttl})
	}
	return out
}

func coqKey(k string) string {
	s := Str
	parts := strings.Split(strings.TrimPrefix(k, "/"), "/")
	bad := vh.App("KOther", s(k))
	if !strings.HasPrefix(k, "/") {
		return bad
	}
	switch parts[0] {
	case "pod":
		if len(parts) == 3 && parts[1] == "info" {
			return vh.App("KPod", s(parts[2]))
		}
	case "node":
		if len(parts) == 2 {
			x := parts[1]
			switch {
			case strings.HasSuffix(x, ":ca"):
				return vh.App("KCa", s(strings.TrimSuffix(x, ":ca")))
			case strings.HasSuffix(x, ":cert"):
				return vh.App("KCert", s(strings.TrimSuffix(x, ":cert")))
			case strings.HasSuffix(x, ":key"):
				return vh.App("KKey", s(strings.TrimSuffix(x, ":key")))
			case !strings.Contains(x, ":"):
				return vh.App("KNode", s(x))
			}
		}
		if len(parts) == 3 {
			switch {
			case strings.HasSuffix(parts[1], ":pod"):
				return vh.App("KNodePod", s(strings.TrimSuffix(parts[1], ":pod")), s(parts[2]))
			case strings.HasSuffix(parts[1], ":workloads"):
				return vh.App("KNodeWl", s(strings.TrimSuffix(parts[1], ":workloads")), s(parts[2]))
			}
		}
	case "status:node":
		if len(parts) == 2 {
			return vh.App("KNStatus", s(parts[1]))
		}
	case "workloads":
		if len(parts) == 2 {
			return vh.App("KWl", s(parts[1]))
		}
	case "deploy", "status", "processing":
		if len(parts) == 5 {
			c := map[string]string{"deploy": "KDeploy", "status": "KStatus", "processing": "KProc"}[parts[0]]
			return vh.App(c, s(parts[1]), s(parts[2]), s(parts[3]), s(parts[4]))
		}
	}
	return bad
}

func coqVal(key, v string) string {
	bad := vh.App("VBad", Str(v))
	switch {
	case strings.HasPrefix(key, "/pod/info/"):
		var p types.Pod
		if json.Unmarshal([]byte(v), &p) != nil {
			return bad
		}
		return vh.App("VPod", Str(p.Name), Str(p.Desc))
	case strings.HasPrefix(key, "/node/") && (strings.HasSuffix(key, ":ca") || strings.HasSuffix(key, ":cert") || strings.HasSuffix(key, ":key")):
		return vh.App("VRaw", Str(v))
	case strings.HasPrefix(key, "/node/") && strings.Contains(key, ":workloads/"),
		strings.HasPrefix(key, "/workloads/"), strings.HasPrefix(key, "/deploy/"):
		var w types.Workload
		if json.Unmarshal([]byte(v), &w) != nil {
			return bad
		}
		return vh.App("VWl", CoqW(viewOfWorkload(&w).W))
	case strings.HasPrefix(key, "/node/"):
		var n types.Node
		if json.Unmarshal([]byte(v), &n) != nil {
			return bad
		}
		return vh.App("VNode", CoqN(viewOfNode(&n).N))
	case strings.HasPrefix(key, "/status:node/"):
		var st types.NodeStatus
		if json.Unmarshal([]byte(v), &st) != nil || !st.Alive {
			return bad
		}
		return vh.App("VNSt", Str(st.Nodename), Str(st.Podname))
	case strings.HasPrefix(key, "/status/"):
		var st types.StatusMeta
		if json.Unmarshal([]byte(v), &st) != nil {
			return bad
		}
		return vh.App("VWSt", CoqWS(WStat{ID: st.ID, Running: st.Running, Healthy: st.Healthy}))
	case strings.HasPrefix(key, "/processing/"):
		n, err := strconv.ParseInt(v, 10, 64)
		if err != nil {
			return bad
		}
		return vh.App("VCnt", vh.Z(n))
	}
	return bad
}

// CoqDump renders a dump as list (key * value * option Z), sorted by key.
func CoqDump(d []DumpEntry) string {
	sort.Slice(d, func(i, j int) bool { return d[i].Key < d[j].Key })
	items := make([]string, len(d))
	for i, e := range d {
		ttl := "None"
		if e.TTL != -1 {
			ttl = vh.Some(vh.Z(e.TTL))
		}
		items[i] = "(" + coqKey(e.Key) + ", " + coqVal(e.Key, e.Val) + ", " + ttl + ")"
	}
	return L(items)
}
