package storeh

import (
	"fmt"
	"math/rand"
)

// ---- the small name universe of the correspondence runs ----

var (
	Pods    = []string{"p0", "p1"}
	// several names are strict string prefixes of others (n1/n10, w1/w10, a0/a0x/a0_x,
	// e0/e0-t): prefix scans that lose their trailing separator show up as
	// cross-talk between such names
	NodesU  = []string{"n0", "n1", "n10"}
	WIDs    = []string{"w0", "w1", "w10", "w2"}
	Apps    = []string{"a0", "a0x"}
	Entries = []string{"e0", "e0-t"}
	Idents  = []string{"i0", "i1", "i2"}
	LabelVs = []string{"x", "y"}
)

func pick(r *rand.Rand, l []string) string { return l[r.Intn(len(l))] }

func genLabels(r *rand.Rand) Labels {
	switch r.Intn(4) {
	case 0:
		return nil
	case 1:
		return Labels{"l": pick(r, LabelVs), "m": "z"}
	}
	return Labels{"l": pick(r, LabelVs)}
}

func genFilter(r *rand.Rand) Labels {
	switch r.Intn(4) {
	case 0:
		return Labels{"l": pick(r, LabelVs)}
	case 1:
		if r.Intn(3) == 0 {
			return Labels{"m": "z"}
		}
	}
	return nil
}

// Shadow tracks which plain keys exist according to the atomic (etcd / spec)
// semantics.  It is used only to steer the generator towards valid operations
// and to compute the *input* tags "the history contains an operation on which
// the Redis store is known to diverge" (see known_findings.d/C23.json).
type Shadow struct {
	Keys map[string]bool
	// workload id -> data of the last successful add/update (generator convenience)
	W map[string]WData
	N map[string]NData
}

func NewShadow() *Shadow { return &Shadow{Keys: map[string]bool{}, W: map[string]WData{}, N: map[string]NData{}} }

func nodeKeys(n, p string, ca, cert, key bool) []string {
	ks := []string{"/node/" + n, "/node/" + p + ":pod/" + n}
	if ca {
		ks = append(ks, "/node/"+n+":ca")
	}
	if cert {
		ks = append(ks, "/node/"+n+":cert")
	}
	if key {
		ks = append(ks, "/node/"+n+":key")
	}
	return ks
}

func wlKeys(w WData) ([]string, bool) {
	a, e, ok := ParseName(w.Name)
	if !ok {
		return nil, false
	}
	return []string{"/workloads/" + w.ID, "/node/" + w.Node + ":workloads/" + w.ID, "/deploy/" + a + "/" + e + "/" + w.Node + "/" + w.ID}, true
}

func procKey(p Proc) string { return "/processing/" + p.App + "/" + p.Entry + "/" + p.Node + "/" + p.Ident }

func (s *Shadow) count(ks []string) int {
	c := 0
	for _, k := range ks {
		if s.Keys[k] {
			c++
		}
	}
	return c
}

func (s *Shadow) podHasNodes(p string) bool {
	pre := "/node/" + p + ":pod/"
	for k := range s.Keys {
		if len(k) > len(pre) && k[:len(pre)] == pre {
			return true
		}
	}
	return false
}

// MayFail predicts (atomic semantics) that the create operation o fails in the
// current state; the driver takes a read-back snapshot before such operations.
func (s *Shadow) MayFail(o Op) bool {
	switch o.Kind {
	case "AddPod":
		return s.Keys["/pod/info/"+o.P]
	case "AddNode":
		a := o.Nodes[0]
		return !s.Keys["/pod/info/"+a.N.Pod] || s.count(nodeKeys(a.N.Name, a.N.Pod, a.Ca != "", a.Cert != "", a.Key != "")) > 0
	case "AddWorkload":
		ks, ok := wlKeys(*o.W)
		if !ok {
			return true
		}
		if o.Pr != nil {
			return !s.Keys[procKey(*o.Pr)]
		}
		return s.count(ks) > 0
	case "CreateProcessing":
		return s.Keys[procKey(*o.Pr)]
	}
	return false
}

// Apply updates the shadow by op (atomic semantics) and returns the divergence
// kind of this op instance for the Redis store ("" = none known).
func (s *Shadow) Apply(o Op) string {
	div := ""
	switch o.Kind {
	case "AddPod":
		s.Keys["/pod/info/"+o.P] = true
	case "RemovePod":
		if !s.podHasNodes(o.P) {
			delete(s.Keys, "/pod/info/"+o.P)
		}
	case "AddNode":
		a := o.Nodes[0]
		if s.Keys["/pod/info/"+a.N.Pod] {
			ks := nodeKeys(a.N.Name, a.N.Pod, a.Ca != "", a.Cert != "", a.Key != "")
			c := s.count(ks)
			if c == 0 {
				for _, k := range ks {
					s.Keys[k] = true
				}
				s.N[a.N.Name] = a.N
			} else if c < len(ks) {
				div = "partial-create"
			}
		}
	case "RemoveNode":
		for _, k := range nodeKeys(o.N, o.P, true, true, true) {
			delete(s.Keys, k)
		}
	case "UpdateNodes":
		for _, a := range o.Nodes {
			for _, k := range nodeKeys(a.N.Name, a.N.Pod, a.Ca != "", a.Cert != "", a.Key != "") {
				s.Keys[k] = true
			}
			s.N[a.N.Name] = a.N
		}
	case "SetNodeStatus":
		if o.TTL > 0 && !s.Keys["/node/"+o.N] {
			div = "nodestatus-missing-node"
		}
	case "AddWorkload":
		ks, ok := wlKeys(*o.W)
		if !ok {
			break
		}
		if o.Pr != nil {
			if !s.Keys[procKey(*o.Pr)] {
				div = "decr-missing-processing"
			} else {
				if s.count(ks) > 0 {
					div = "decr-overwrite"
				}
				for _, k := range ks {
					s.Keys[k] = true
				}
				s.W[o.W.ID] = *o.W
			}
		} else {
			c := s.count(ks)
			if c == 0 {
				for _, k := range ks {
					s.Keys[k] = true
				}
				s.W[o.W.ID] = *o.W
			} else if c < len(ks) {
				div = "partial-create"
			}
		}
	case "UpdateWorkload":
		if ks, ok := wlKeys(*o.W); ok && s.count(ks) == len(ks) {
			s.W[o.W.ID] = *o.W
		}
	case "RemoveWorkload":
		if ks, ok := wlKeys(*o.W); ok {
			for _, k := range ks {
				delete(s.Keys, k)
			}
		}
	case "CreateProcessing":
		s.Keys[procKey(*o.Pr)] = true
	case "DeleteProcessing":
		delete(s.Keys, procKey(*o.Pr))
	}
	return div
}

// Gen is a history generator.
type Gen struct {
	R *rand.Rand
	S *Shadow
	// AvoidDiv: regenerate ops on which Redis is known to diverge
	AvoidDiv bool
	// StatusHeavy: C25-style histories
	StatusHeavy bool
	MaxTTL      int64
	// real-time runs: fixed advance step and a fixed TTL menu (see c25_test.go)
	AdvanceStep int64
	TTLs        []int64
	lastW       map[string]Op
	lastProc    *Proc
	lastN       map[string]Op
}

func (g *Gen) wname() string {
	switch g.R.Intn(12) {
	case 0:
		return "bad"
	case 1:
		return "a0_x_" + pick(g.R, Entries) + "_s"
	}
	return pick(g.R, Apps) + "_" + pick(g.R, Entries) + "_s"
}

func (g *Gen) workload(preferExisting bool) WData {
	id := pick(g.R, WIDs)
	if w, ok := g.S.W[id]; ok && preferExisting && g.R.Intn(5) != 0 {
		if g.R.Intn(3) == 0 {
			w.Labels = genLabels(g.R)
		}
		return w
	}
	return WData{ID: id, Name: g.wname(), Node: pick(g.R, NodesU), Labels: genLabels(g.R)}
}

func (g *Gen) proc() *Proc {
	// half of the draws stay on the (app, entry, node) of the previous one with a
	// fresh ident, so that several processing markers accumulate on one node
	if g.lastProc != nil && g.R.Intn(2) == 0 {
		p := *g.lastProc
		p.Ident = pick(g.R, Idents)
		return &p
	}
	p := &Proc{App: pick(g.R, Apps), Entry: pick(g.R, Entries), Node: pick(g.R, NodesU), Ident: pick(g.R, Idents)}
	g.lastProc = p
	return p
}

func (g *Gen) nodeArg() NodeArg {
	n := pick(g.R, NodesU)
	p := pick(g.R, Pods)
	if nd, ok := g.S.N[n]; ok && g.R.Intn(3) != 0 {
		p = nd.Pod
	}
	ep := "verif://" + n
	test := false
	switch g.R.Intn(4) {
	case 0:
		ep = "mock://" + n
	case 1:
		test = true
	}
	a := NodeArg{N: NData{Name: n, Ep: ep, Pod: p, Labels: genLabels(g.R), Test: test}}
	if g.R.Intn(3) == 0 {
		a.Ca = "ca-" + n
	}
	if g.R.Intn(3) == 0 {
		a.Cert = "cert-" + n
	}
	if g.R.Intn(4) == 0 {
		a.Key = "key-" + n
	}
	return a
}

func (g *Gen) names(u []string) []string {
	k := g.R.Intn(3) + 1
	perm := g.R.Perm(len(u))
	if k > len(u) {
		k = len(u)
	}
	out := make([]string, k)
	for i := 0; i < k; i++ {
		out[i] = u[perm[i]]
	}
	return out
}

func (g *Gen) ttl() int64 {
	if len(g.TTLs) > 0 {
		return g.TTLs[g.R.Intn(len(g.TTLs))]
	}
	m := g.MaxTTL
	if m <= 0 {
		m = 9
	}
	return int64(g.R.Intn(int(m))) + 1
}

// statusMix maps a draw to the op-kind ranges of one(): mostly status reports,
// reads and clock advances, some entity churn.
func statusMix(r *rand.Rand) int {
	y := r.Intn(100)
	switch {
	case y < 34:
		return 84 + r.Intn(8) // SetWorkloadStatus
	case y < 52:
		return 76 + r.Intn(6) // SetNodeStatus
	case y < 68:
		return 94 + r.Intn(6) // Advance
	case y < 75:
		return 82 + r.Intn(2) // GetNodeStatus
	case y < 83:
		return 92 + r.Intn(2) // GetWorkloadStatus
	case y < 86:
		return 62 + r.Intn(2) // GetWorkload
	case y < 90:
		return 58 + r.Intn(4) // RemoveWorkload
	case y < 93:
		return 42 + r.Intn(12) // AddWorkload
	case y < 95:
		return 54 + r.Intn(4) // UpdateWorkload
	case y < 97:
		return 24 + r.Intn(4) // RemoveNode
	case y < 99:
		return 13 + r.Intn(11) // AddNode
	}
	return 28 + r.Intn(2) // GetNode
}

func (g *Gen) one() Op {
	r := g.R
	x := r.Intn(100)
	if g.StatusHeavy {
		x = statusMix(r)
	}
	switch {
	case x < 7:
		return Op{Kind: "AddPod", P: pick(r, Pods), D: "d" + fmt.Sprint(r.Intn(2))}
	case x < 10:
		return Op{Kind: "RemovePod", P: pick(r, Pods)}
	case x < 12:
		return Op{Kind: "GetPod", P: pick(r, Pods)}
	case x < 13:
		return Op{Kind: "GetAllPods"}
	case x < 24:
		return Op{Kind: "AddNode", Nodes: []NodeArg{g.nodeArg()}}
	case x < 28:
		n := pick(r, NodesU)
		p := pick(r, Pods)
		if nd, ok := g.S.N[n]; ok && r.Intn(4) != 0 {
			p = nd.Pod
		}
		return Op{Kind: "RemoveNode", N: n, P: p}
	case x < 30:
		return Op{Kind: "GetNode", N: g.exNode()}
	case x < 32:
		return Op{Kind: "GetNodes", Names: g.names(NodesU)}
	case x < 36:
		p := ""
		if r.Intn(3) != 0 {
			p = pick(r, Pods)
		}
		return Op{Kind: "GetNodesByPod", P: p, Lbl: genFilter(r), All: r.Intn(2) == 0}
	case x < 40:
		k := r.Intn(2) + 1
		var l []NodeArg
		for i := 0; i < k; i++ {
			a := g.nodeArg()
			a.N.Bypass = r.Intn(4) == 0
			l = append(l, a)
		}
		return Op{Kind: "UpdateNodes", Nodes: l}
	case x < 41:
		return Op{Kind: "LoadNodeCert", N: g.exNode()}
	case x < 42:
		return g.listOp()
	case x < 54:
		w := g.workload(false)
		var pr *Proc
		if r.Intn(4) == 0 && !g.StatusHeavy {
			pr = g.proc()
			if r.Intn(3) != 0 {
				if a, e, ok := ParseName(w.Name); ok {
					pr.App, pr.Entry, pr.Node = a, e, w.Node
				}
			}
		}
		return Op{Kind: "AddWorkload", W: &w, Pr: pr}
	case x < 58:
		w := g.workload(true)
		return Op{Kind: "UpdateWorkload", W: &w}
	case x < 62:
		w := g.workload(true)
		return Op{Kind: "RemoveWorkload", W: &w}
	case x < 64:
		return Op{Kind: "GetWorkload", N: g.exWl()}
	case x < 66:
		return Op{Kind: "GetWorkloads", Names: g.names(WIDs)}
	case x < 68:
		return g.listOp()
	case x < 70:
		return Op{Kind: "ListNodeWorkloads", N: g.exNode(), Lbl: genFilter(r)}
	case x < 72:
		return Op{Kind: "GetDeployStatus", A: pick(r, Apps), E: pick(r, Entries)}
	case x < 75:
		return Op{Kind: "CreateProcessing", Pr: g.proc(), Cnt: int64(r.Intn(4))}
	case x < 76:
		return Op{Kind: "DeleteProcessing", Pr: g.proc()}
	case x < 82:
		n := g.exNode()
		p := pick(r, Pods)
		if nd, ok := g.S.N[n]; ok {
			p = nd.Pod
		}
		ttl := g.ttl()
		switch r.Intn(8) {
		case 0:
			ttl = 0
		case 1:
			ttl = -1
		}
		if prev, ok := g.lastN[n]; ok && g.StatusHeavy && r.Intn(2) == 0 {
			return prev // identical re-report (same value and ttl)
		}
		o := Op{Kind: "SetNodeStatus", N: n, P: p, TTL: ttl}
		if g.lastN == nil {
			g.lastN = map[string]Op{}
		}
		if ttl > 0 {
			g.lastN[n] = o
		}
		return o
	case x < 84:
		return Op{Kind: "GetNodeStatus", N: g.exNode()}
	case x < 92:
		id := g.exWl()
		if g.StatusHeavy && len(g.S.W) > 0 && r.Intn(4) != 0 {
			ids := make([]string, 0, len(g.S.W))
			for _, w := range WIDs {
				if _, ok := g.S.W[w]; ok && g.S.Keys["/workloads/"+w] {
					ids = append(ids, w)
				}
			}
			if len(ids) > 0 {
				id = pick(r, ids)
			}
		}
		a, e, n := pick(r, Apps), pick(r, Entries), pick(r, NodesU)
		if w, ok := g.S.W[id]; ok && r.Intn(6) != 0 {
			if pa, pe, ok := ParseName(w.Name); ok {
				a, e, n = pa, pe, w.Node
			}
		}
		if r.Intn(20) == 0 {
			e = ""
		}
		ttl := g.ttl()
		if r.Intn(5) == 0 {
			ttl = 0
		}
		if prev, ok := g.lastW[id]; ok && g.StatusHeavy {
			switch r.Intn(4) {
			case 0:
				return prev // identical re-report (same value and ttl)
			case 1:
				prev.TTL = ttl // same value, other ttl (possibly 0)
				return prev
			}
		}
		o := Op{Kind: "SetWorkloadStatus", St: &WStat{ID: id, Running: r.Intn(2) == 0, Healthy: r.Intn(3) == 0}, A: a, E: e, N: n, TTL: ttl}
		if g.lastW == nil {
			g.lastW = map[string]Op{}
		}
		g.lastW[id] = o
		return o
	case x < 94:
		return Op{Kind: "GetWorkloadStatus", N: g.exWl()}
	default:
		if g.AdvanceStep > 0 {
			return Op{Kind: "Advance", TTL: g.AdvanceStep}
		}
		return Op{Kind: "Advance", TTL: int64(r.Intn(6)) + 1}
	}
}

// exNode / exWl prefer entities that exist (2 of 3 draws).
func (g *Gen) exNode() string {
	var ex []string
	for _, n := range NodesU {
		if g.S.Keys["/node/"+n] {
			ex = append(ex, n)
		}
	}
	if len(ex) > 0 && g.R.Intn(3) != 0 {
		return pick(g.R, ex)
	}
	return pick(g.R, NodesU)
}

func (g *Gen) exWl() string {
	var ex []string
	for _, w := range WIDs {
		if g.S.Keys["/workloads/"+w] {
			ex = append(ex, w)
		}
	}
	if len(ex) > 0 && g.R.Intn(3) != 0 {
		return pick(g.R, ex)
	}
	return pick(g.R, WIDs)
}

func (g *Gen) listOp() Op {
	r := g.R
	a, e, n := pick(r, Apps), pick(r, Entries), pick(r, NodesU)
	switch r.Intn(6) {
	case 0, 1:
		a = ""
	case 2:
		e = ""
	case 3:
		n = ""
	}
	lim := int64(0)
	if r.Intn(3) != 0 {
		lim = int64(r.Intn(3) + 1)
	}
	return Op{Kind: "ListWorkloads", A: a, E: e, N: n, Limit: lim, Lbl: genFilter(r)}
}

// Next generates the next op, applies it to the shadow and returns its divergence tag.
func (g *Gen) Next() (Op, string) {
	for try := 0; ; try++ {
		o := g.one()
		if g.AvoidDiv && try < 50 {
			// dry run on a copy of the key set
			cp := &Shadow{Keys: map[string]bool{}, W: map[string]WData{}, N: map[string]NData{}}
			for k := range g.S.Keys {
				cp.Keys[k] = true
			}
			if cp.Apply(o) != "" {
				continue
			}
		}
		return o, g.S.Apply(o)
	}
}

// Probes is the fixed read-back snapshot through the Store API.
func Probes() []Op {
	var l []Op
	l = append(l, Op{Kind: "GetAllPods"})
	for _, p := range Pods {
		l = append(l, Op{Kind: "GetPod", P: p}, Op{Kind: "GetNodesByPod", P: p, All: true})
	}
	l = append(l, Op{Kind: "GetNodesByPod", P: "", All: false})
	for _, n := range NodesU {
		l = append(l, Op{Kind: "GetNode", N: n}, Op{Kind: "GetNodeStatus", N: n}, Op{Kind: "LoadNodeCert", N: n}, Op{Kind: "ListNodeWorkloads", N: n})
	}
	for _, w := range WIDs {
		l = append(l, Op{Kind: "GetWorkload", N: w})
	}
	l = append(l, Op{Kind: "ListWorkloads"}, Op{Kind: "ListWorkloads", Limit: 1}, Op{Kind: "ListWorkloads", A: "a0", Limit: 2})
	for _, a := range append(append([]string{}, Apps...), "a0_x") {
		for _, e := range Entries {
			l = append(l, Op{Kind: "GetDeployStatus", A: a, E: e})
		}
	}
	return l
}

// IsCreate tells whether op is one of the create operations of the Store API.
func IsCreate(o Op) bool {
	switch o.Kind {
	case "AddPod", "AddNode", "AddWorkload", "CreateProcessing":
		return true
	}
	return false
}
