// Package storeh is the shared driver of the metadata-store properties (C23,
// C25): an operation language over the store.Store API, executors for the real
// etcd store (embedded cluster) and the real Redis store (miniredis), result
// canonicalisation, raw key dumps and Coq term printers.
package storeh

import (
	"fmt"
	"sort"
	"strings"

	"verifharness/vh"
)

// ---- data ----

type Labels map[string]string

type NData struct {
	Name, Ep, Pod string
	Labels        Labels
	Bypass, Test  bool
}

type WData struct {
	ID, Name, Node string
	Labels         Labels
}

type WStat struct {
	ID               string
	Running, Healthy bool
}

type Proc struct{ App, Entry, Node, Ident string }

type NodeArg struct {
	N             NData
	Ca, Cert, Key string
}

// Op is one call of the store API (or a clock advance).
type Op struct {
	Kind  string   `json:"kind"`
	P     string   `json:"p,omitempty"`
	D     string   `json:"d,omitempty"`
	N     string   `json:"n,omitempty"`
	Names []string `json:"names,omitempty"`
	Nodes []NodeArg `json:"nodes,omitempty"`
	Lbl   Labels   `json:"labels,omitempty"`
	All   bool     `json:"all,omitempty"`
	TTL   int64    `json:"ttl,omitempty"`
	W     *WData   `json:"w,omitempty"`
	Pr    *Proc    `json:"proc,omitempty"`
	St    *WStat   `json:"st,omitempty"`
	A     string   `json:"a,omitempty"`
	E     string   `json:"e,omitempty"`
	Limit int64    `json:"limit,omitempty"`
	Cnt   int64    `json:"cnt,omitempty"`
}

// ---- results ----

type NView struct {
	N     NData
	Avail bool
}
type WView struct {
	W  WData
	St *WStat
}

type Res struct {
	Err   string `json:"err,omitempty"` // "" = ok, else enum name, or "PANIC"
	Text  string `json:"text,omitempty"`
	Kind  string `json:"pk,omitempty"` // payload constructor
	Coq   string `json:"-"`            // payload as Coq term
	Human string `json:"val,omitempty"`
}

func (r Res) Term() string {
	switch {
	case r.Err == "PANIC":
		return "RPanic"
	case r.Err != "":
		return "(RErr " + r.Err + ")"
	}
	return "(ROk " + r.Coq + ")"
}

// ---- Coq printers ----

// Str emits a Go string as a Coq string literal when it is printable ASCII
// (every name of the universe is), else as a byte list.
func Str(s string) string {
	for i := 0; i < len(s); i++ {
		if s[i] < 32 || s[i] > 126 {
			return vh.Str(s)
		}
	}
	return "\"" + strings.ReplaceAll(s, "\"", "\"\"") + "\""
}

func StrList(vs []string) string {
	items := make([]string, len(vs))
	for i, v := range vs {
		items[i] = Str(v)
	}
	return L(items)
}


func CoqLabels(l Labels) string {
	ks := vh.SortedKeys(l)
	items := make([]string, len(ks))
	for i, k := range ks {
		items[i] = vh.Pair(Str(k), Str(l[k]))
	}
	return L(items)
}

func CoqN(n NData) string {
	return fmt.Sprintf("(mkN %s %s %s %s %s %s)", Str(n.Name), Str(n.Ep), Str(n.Pod), CoqLabels(n.Labels), vh.Bool(n.Bypass), vh.Bool(n.Test))
}

func CoqW(w WData) string {
	parse := "None"
	if a, e, ok := ParseName(w.Name); ok {
		parse = vh.Some(vh.Pair(Str(a), Str(e)))
	}
	return fmt.Sprintf("(mkW %s %s %s %s %s)", Str(w.ID), Str(w.Name), parse, Str(w.Node), CoqLabels(w.Labels))
}

func CoqWS(s WStat) string {
	return fmt.Sprintf("(mkWS %s %s %s)", Str(s.ID), vh.Bool(s.Running), vh.Bool(s.Healthy))
}

func CoqProc(p Proc) string {
	return fmt.Sprintf("(mkP %s %s %s %s)", Str(p.App), Str(p.Entry), Str(p.Node), Str(p.Ident))
}

func CoqOp(o Op) string {
	s := Str
	switch o.Kind {
	case "AddPod":
		return vh.App("OAddPod", s(o.P), s(o.D))
	case "RemovePod":
		return vh.App("ORemovePod", s(o.P))
	case "GetPod":
		return vh.App("OGetPod", s(o.P))
	case "GetAllPods":
		return "OGetAllPods"
	case "AddNode":
		a := o.Nodes[0]
		return vh.App("OAddNode", CoqN(a.N), s(a.Ca), s(a.Cert), s(a.Key))
	case "RemoveNode":
		return vh.App("ORemoveNode", s(o.N), s(o.P))
	case "GetNode":
		return vh.App("OGetNode", s(o.N))
	case "GetNodes":
		return vh.App("OGetNodes", StrList(o.Names))
	case "GetNodesByPod":
		return vh.App("OGetNodesByPod", s(o.P), CoqLabels(o.Lbl), vh.Bool(o.All))
	case "UpdateNodes":
		items := make([]string, len(o.Nodes))
		for i, a := range o.Nodes {
			items[i] = "(" + CoqN(a.N) + ", " + s(a.Ca) + ", " + s(a.Cert) + ", " + s(a.Key) + ")"
		}
		return vh.App("OUpdateNodes", L(items))
	case "SetNodeStatus":
		return vh.App("OSetNodeStatus", s(o.N), s(o.P), vh.Z(o.TTL))
	case "GetNodeStatus":
		return vh.App("OGetNodeStatus", s(o.N))
	case "LoadNodeCert":
		return vh.App("OLoadNodeCert", s(o.N))
	case "AddWorkload":
		pr := "None"
		if o.Pr != nil {
			pr = vh.Some(CoqProc(*o.Pr))
		}
		return vh.App("OAddWorkload", CoqW(*o.W), pr)
	case "UpdateWorkload":
		return vh.App("OUpdateWorkload", CoqW(*o.W))
	case "RemoveWorkload":
		return vh.App("ORemoveWorkload", CoqW(*o.W))
	case "GetWorkload":
		return vh.App("OGetWorkload", s(o.N))
	case "GetWorkloads":
		return vh.App("OGetWorkloads", StrList(o.Names))
	case "GetWorkloadStatus":
		return vh.App("OGetWorkloadStatus", s(o.N))
	case "SetWorkloadStatus":
		return vh.App("OSetWorkloadStatus", CoqWS(*o.St), s(o.A), s(o.E), s(o.N), vh.Z(o.TTL))
	case "ListWorkloads":
		return vh.App("OListWorkloads", s(o.A), s(o.E), s(o.N), vh.Z(o.Limit), CoqLabels(o.Lbl))
	case "ListNodeWorkloads":
		return vh.App("OListNodeWorkloads", s(o.N), CoqLabels(o.Lbl))
	case "GetDeployStatus":
		return vh.App("OGetDeployStatus", s(o.A), s(o.E))
	case "CreateProcessing":
		return vh.App("OCreateProcessing", CoqProc(*o.Pr), vh.Z(o.Cnt))
	case "DeleteProcessing":
		return vh.App("ODeleteProcessing", CoqProc(*o.Pr))
	case "Advance":
		return vh.App("OAdvance", vh.Z(o.TTL))
	}
	panic("unknown op kind " + o.Kind)
}

func CoqNView(v NView) string { return "(mkNV " + CoqN(v.N) + " " + vh.Bool(v.Avail) + ")" }
func CoqWView(v WView) string {
	st := "None"
	if v.St != nil {
		st = vh.Some(CoqWS(*v.St))
	}
	return "(mkWV " + CoqW(v.W) + " " + st + ")"
}

// sorted rendering of lists so that equal multisets give equal text (the Coq
// side compares up to permutation anyway; this makes descriptions stable)
func sortedList(items []string) string {
	sort.Strings(items)
	return L(items)
}

func okRes(kind, coq string) Res { return Res{Kind: kind, Coq: coq, Human: shorten(coq)} }

func shorten(s string) string {
	if len(s) > 160 {
		return fmt.Sprintf("%s…(%d bytes)", s[:40], len(s))
	}
	return s
}

// ParseName mirrors the structure the harness hands to the model as w_parse.
// It is computed by the real utils.ParseWorkloadName (see run.go init).
var ParseName func(name string) (app, entry string, ok bool)

func joinNames(l []string) string { return strings.Join(l, ",") }

// L prints a Coq list with explicit constructors: long `[a; b; …]` literals
// are slow to elaborate.
func L(items []string) string {
	if len(items) == 0 {
		return "nil"
	}
	var b strings.Builder
	for _, it := range items {
		b.WriteString("(cons ")
		b.WriteString(it)
		b.WriteString(" ")
	}
	b.WriteString("nil")
	b.WriteString(strings.Repeat(")", len(items)))
	return b.String()
}
