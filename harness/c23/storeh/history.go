package storeh

import (
	"fmt"
	"os"
	"sort"
	"strings"
	"testing"

)

// UseFastTmp points TMPDIR at a tmpfs directory (when available) so that the
// embedded etcd member does not fsync to disk; returns a cleanup function.
func UseFastTmp(t *testing.T) {
	if st, err := os.Stat("/dev/shm"); err == nil && st.IsDir() {
		if d, err := os.MkdirTemp("/dev/shm", "verif-store-"); err == nil {
			old := os.Getenv("TMPDIR")
			os.Setenv("TMPDIR", d)
			t.Cleanup(func() { os.Setenv("TMPDIR", old); os.RemoveAll(d) })
		}
	}
}

// Snap is a read-back snapshot of both backends.
type Snap struct {
	Probes   []Op
	ERes     []Res
	RRes     []Res
	EDump    []DumpEntry
	RDump    []DumpEntry
}

func TakeSnap(e, r *Backend) Snap {
	ps := Probes()
	s := Snap{Probes: ps}
	for _, p := range ps {
		s.ERes = append(s.ERes, e.Exec(p))
		s.RRes = append(s.RRes, r.Exec(p))
	}
	s.EDump, s.RDump = e.Dump(), r.Dump()
	return s
}

func (s Snap) Term() string {
	items := make([]string, len(s.Probes))
	for i := range s.Probes {
		if s.ERes[i].Term() == "(RErr ECount)" && s.RRes[i].Term() == "(RErr ENil)" {
			items[i] = "nf"
		} else if s.ERes[i].Term() == s.RRes[i].Term() {
			items[i] = "(same " + s.ERes[i].Term() + ")"
		} else {
			items[i] = "(" + s.ERes[i].Term() + ", " + s.RRes[i].Term() + ")"
		}
	}
	de, dr := CoqDump(s.EDump), CoqDump(s.RDump)
	if de == dr {
		return "(ISnapD probe_ops " + L(items) + " " + de + ")"
	}
	return "(ISnap probe_ops " + L(items) + " " + de + " " + dr + ")"
}

// ProbeDef is the Coq definition of the probe list referenced by every snapshot.
func ProbeDef() string {
	ps := Probes()
	items := make([]string, len(ps))
	for i, p := range ps {
		items[i] = CoqOp(p)
	}
	return "Definition probe_ops : list op := " + L(items) + "."
}

// Step is one executed operation for the case description.
type Step struct {
	Op   Op     `json:"op"`
	E    Res    `json:"etcd"`
	R    Res    `json:"redis"`
	Div  string `json:"redis_divergence_kind,omitempty"`
	Snap string `json:"snapshot,omitempty"`
}

// RunHistory executes ops on both (freshly reset) backends and returns the Coq
// items and the step descriptions.  A snapshot is emitted before and after
// every create operation that is predicted to fail and fails on some backend, after every operation when
// dense is set, and at the end.
func RunHistory(e, r *Backend, ops []Op, divs []string, mayFail []bool, dense bool) (items []string, steps []Step) {
	e.Reset()
	r.Reset()
	for i, o := range ops {
		var before *Snap
		if IsCreate(o) && !dense && (i >= len(mayFail) || mayFail[i]) {
			s := TakeSnap(e, r)
			before = &s
		}
		re, rr := e.Exec(o), r.Exec(o)
		st := Step{Op: o, E: re, R: rr}
		if i < len(divs) {
			st.Div = divs[i]
		}
		failed := re.Err != "" || rr.Err != ""
		if before != nil && failed {
			items = append(items, before.Term())
			st.Snap = "before+after"
		}
		if re.Term() == rr.Term() {
			items = append(items, "(IOpS "+CoqOp(o)+" "+re.Term()+")")
		} else {
			items = append(items, "(IOp "+CoqOp(o)+" "+re.Term()+" "+rr.Term()+")")
		}
		if (before != nil && failed) || dense {
			items = append(items, TakeSnap(e, r).Term())
		}
		steps = append(steps, st)
	}
	if !dense {
		items = append(items, TakeSnap(e, r).Term())
	}
	items = append(items, "(IKeys "+rawKeys(e.Dump())+" "+rawKeys(r.Dump())+")")
	return
}

// CaseTerm builds the Coq term of a case from its items.  Snapshot items that
// occur more than once (typically the snapshots before and after a failed
// create) are bound once by a let, which keeps the case files small.
func CaseTerm(items []string) string {
	count := map[string]int{}
	for _, it := range items {
		if strings.HasPrefix(it, "(ISnap") {
			count[it]++
		}
	}
	names := map[string]string{}
	var lets strings.Builder
	out := make([]string, len(items))
	for i, it := range items {
		if count[it] > 1 {
			n, ok := names[it]
			if !ok {
				n = fmt.Sprintf("sn%d", len(names))
				names[it] = n
				lets.WriteString("let " + n + " := " + it + " in ")
			}
			out[i] = n
		} else {
			out[i] = it
		}
	}
	if lets.Len() == 0 {
		return L(out)
	}
	return "(" + lets.String() + L(out) + ")"
}

func rawKeys(d []DumpEntry) string {
	ks := make([]string, len(d))
	for i, e := range d {
		ks[i] = e.Key
	}
	sort.Strings(ks)
	return StrList2(ks)
}

// StrList2 prints a list of strings with explicit constructors.
func StrList2(vs []string) string {
	items := make([]string, len(vs))
	for i, v := range vs {
		items[i] = Str(v)
	}
	return L(items)
}
