package c23

import (
	"fmt"
	"testing"

	sh "verifharness/c23/storeh"
	"verifharness/vh"
)

func node(n, p string, lbl sh.Labels, ca string) sh.NodeArg {
	return sh.NodeArg{N: sh.NData{Name: n, Ep: "verif://" + n, Pod: p, Labels: lbl}, Ca: ca}
}
func wl(id, name, n string) *sh.WData { return &sh.WData{ID: id, Name: name, Node: n, Labels: sh.Labels{"l": "x"}} }

// corpus: boundary histories and the witnesses of the known findings
func corpus() [][]sh.Op {
	addPod := sh.Op{Kind: "AddPod", P: "p0", D: "d0"}
	addPod1 := sh.Op{Kind: "AddPod", P: "p1", D: "d1"}
	addN0 := sh.Op{Kind: "AddNode", Nodes: []sh.NodeArg{node("n0", "p0", sh.Labels{"l": "x"}, "")}}
	pr := &sh.Proc{App: "a0", Entry: "e0", Node: "n0", Ident: "i0"}
	return [][]sh.Op{
		// plain life cycle
		{addPod, addN0, {Kind: "AddWorkload", W: wl("w0", "a0_e0_s", "n0")}, {Kind: "GetWorkload", N: "w0"},
			{Kind: "SetWorkloadStatus", St: &sh.WStat{ID: "w0", Running: true}, A: "a0", E: "e0", N: "n0", TTL: 5},
			{Kind: "GetWorkloadStatus", N: "w0"}, {Kind: "SetNodeStatus", N: "n0", P: "p0", TTL: 3}, {Kind: "GetNode", N: "n0"},
			{Kind: "Advance", TTL: 3}, {Kind: "GetNode", N: "n0"}, {Kind: "GetWorkloadStatus", N: "w0"},
			{Kind: "RemoveWorkload", W: wl("w0", "a0_e0_s", "n0")}, {Kind: "RemoveNode", N: "n0", P: "p0"}, {Kind: "RemovePod", P: "p0"}},
		// duplicate creates that fail atomically on both backends
		{addPod, addPod, addN0, addN0, {Kind: "AddWorkload", W: wl("w0", "a0_e0_s", "n0")}, {Kind: "AddWorkload", W: wl("w0", "a0_e0_s", "n0")},
			{Kind: "CreateProcessing", Pr: pr, Cnt: 2}, {Kind: "CreateProcessing", Pr: pr, Cnt: 3}, {Kind: "GetDeployStatus", A: "a0", E: "e0"}},
		// processing: create, add with decrement, deploy status
		{addPod, addN0, {Kind: "CreateProcessing", Pr: pr, Cnt: 2}, {Kind: "AddWorkload", W: wl("w0", "a0_e0_s", "n0"), Pr: pr},
			{Kind: "GetDeployStatus", A: "a0", E: "e0"}, {Kind: "DeleteProcessing", Pr: pr}, {Kind: "GetDeployStatus", A: "a0", E: "e0"},
			{Kind: "ListWorkloads", A: "a0", E: "e0", N: "", Limit: 1}, {Kind: "ListNodeWorkloads", N: "n0", Lbl: sh.Labels{"l": "x"}}},
		// WITNESS partial-create: AddNode of an existing node name under another pod (Redis leaves /node/p1:pod/n0)
		{addPod, addPod1, addN0, {Kind: "AddNode", Nodes: []sh.NodeArg{node("n0", "p1", nil, "")}}, {Kind: "GetNodesByPod", P: "p1", All: true}},
		// WITNESS partial-create: AddNode of an existing node with a new certificate (Redis stores the certificate)
		{addPod, addN0, {Kind: "AddNode", Nodes: []sh.NodeArg{node("n0", "p0", nil, "ca-x")}}, {Kind: "LoadNodeCert", N: "n0"}},
		// WITNESS partial-create: AddWorkload of an existing id on another node
		{addPod, addN0, {Kind: "AddNode", Nodes: []sh.NodeArg{node("n1", "p0", nil, "")}}, {Kind: "AddWorkload", W: wl("w0", "a0_e0_s", "n0")},
			{Kind: "AddWorkload", W: wl("w0", "a0_e0_s", "n1")}, {Kind: "ListNodeWorkloads", N: "n1"}},
		// removing a missing pod (fixed: 319d79b)
		{{Kind: "RemovePod", P: "p0"}},
		// WITNESS decr-missing-processing
		{addPod, addN0, {Kind: "AddWorkload", W: wl("w0", "a0_e0_s", "n0"), Pr: pr}, {Kind: "GetWorkload", N: "w0"}},
		// WITNESS decr-overwrite: etcd overwrites the records, Redis keeps the old ones
		{addPod, addN0, {Kind: "CreateProcessing", Pr: pr, Cnt: 2}, {Kind: "AddWorkload", W: wl("w0", "a0_e0_s", "n0")},
			{Kind: "AddWorkload", W: &sh.WData{ID: "w0", Name: "a0_e0_s", Node: "n0", Labels: sh.Labels{"l": "y"}}, Pr: pr}, {Kind: "GetWorkload", N: "w0"}},
		// WITNESS nodestatus-missing-node
		{{Kind: "SetNodeStatus", N: "n0", P: "p0", TTL: 3}, {Kind: "GetNodeStatus", N: "n0"}},
		// status without ttl for a missing workload (fixed: 29ab9b1)
		{{Kind: "SetWorkloadStatus", St: &sh.WStat{ID: "w0"}, A: "a0", E: "e0", N: "n0", TTL: 0}},
		// stale index after RemoveNode with another pod name, UpdateNodes creating a node, bypass / availability
		{addPod, addPod1, addN0, {Kind: "RemoveNode", N: "n0", P: "p1"}, {Kind: "GetNodesByPod", P: "p0", All: true}, {Kind: "GetNode", N: "n0"},
			{Kind: "UpdateNodes", Nodes: []sh.NodeArg{{N: sh.NData{Name: "n1", Ep: "verif://n1", Pod: "p1", Bypass: true, Test: true}, Cert: "c"}}},
			{Kind: "GetNodesByPod", P: "", All: false}, {Kind: "GetNodesByPod", P: "", All: true, Lbl: sh.Labels{"l": "x"}}, {Kind: "RemovePod", P: "p1"}},
		// prefix-related names: in-flight processing of (a0, e0-t) and (a0x, e0) must not be counted for (a0, e0);
		// workloads of n10 / a0x are not listed under n1 / a0
		{addPod, addN0, {Kind: "AddNode", Nodes: []sh.NodeArg{node("n1", "p0", nil, "")}}, {Kind: "AddNode", Nodes: []sh.NodeArg{node("n10", "p0", nil, "")}},
			{Kind: "CreateProcessing", Pr: &sh.Proc{App: "a0", Entry: "e0", Node: "n0", Ident: "i0"}, Cnt: 2},
			{Kind: "CreateProcessing", Pr: &sh.Proc{App: "a0", Entry: "e0-t", Node: "n0", Ident: "i0"}, Cnt: 3},
			{Kind: "CreateProcessing", Pr: &sh.Proc{App: "a0x", Entry: "e0", Node: "n1", Ident: "i1"}, Cnt: 4},
			{Kind: "GetDeployStatus", A: "a0", E: "e0"}, {Kind: "GetDeployStatus", A: "a0x", E: "e0"}, {Kind: "GetDeployStatus", A: "a0", E: "e0-t"},
			{Kind: "AddWorkload", W: wl("w1", "a0_e0_s", "n1")}, {Kind: "AddWorkload", W: wl("w10", "a0x_e0-t_s", "n10")}, {Kind: "AddWorkload", W: wl("w2", "a0_e0-t_s", "n10")},
			{Kind: "ListNodeWorkloads", N: "n1"}, {Kind: "ListWorkloads", A: "a0", E: "e0", N: "n1"}, {Kind: "ListWorkloads", A: "a0"}, {Kind: "GetDeployStatus", A: "a0", E: "e0"},
			{Kind: "GetWorkloads", Names: []string{"w1", "w10"}}, {Kind: "GetNodes", Names: []string{"n1", "n10"}}},
		// several processing markers (distinct idents) on one (app, entry, node) are summed; decrement and deletion of one of them
		{addPod, addN0, {Kind: "CreateProcessing", Pr: &sh.Proc{App: "a0", Entry: "e0", Node: "n0", Ident: "i0"}, Cnt: 2},
			{Kind: "CreateProcessing", Pr: &sh.Proc{App: "a0", Entry: "e0", Node: "n0", Ident: "i1"}, Cnt: 3},
			{Kind: "CreateProcessing", Pr: &sh.Proc{App: "a0", Entry: "e0", Node: "n1", Ident: "i0"}, Cnt: 5},
			{Kind: "GetDeployStatus", A: "a0", E: "e0"}, {Kind: "AddWorkload", W: wl("w0", "a0_e0_s", "n0"), Pr: &sh.Proc{App: "a0", Entry: "e0", Node: "n0", Ident: "i1"}},
			{Kind: "GetDeployStatus", A: "a0", E: "e0"}, {Kind: "DeleteProcessing", Pr: &sh.Proc{App: "a0", Entry: "e0", Node: "n0", Ident: "i0"}},
			{Kind: "GetDeployStatus", A: "a0", E: "e0"}},
		// list limits: more matches than the limit
		{addPod, addN0, {Kind: "AddWorkload", W: wl("w0", "a0_e0_s", "n0")}, {Kind: "AddWorkload", W: wl("w1", "a0_e0_s", "n0")}, {Kind: "AddWorkload", W: wl("w2", "a0x_e0_s", "n0")},
			{Kind: "ListWorkloads", Limit: 1}, {Kind: "ListWorkloads", Limit: 2}, {Kind: "ListWorkloads", Limit: 3}, {Kind: "ListWorkloads", Limit: 4},
			{Kind: "ListWorkloads", A: "a0", E: "e0", N: "n0", Limit: 1}, {Kind: "ListWorkloads", A: "a0", Limit: 1, Lbl: sh.Labels{"l": "x"}}},
		// workload whose node is gone; invalid names; status of a missing entity
		{addPod, addN0, {Kind: "AddWorkload", W: wl("w0", "a0_e0_s", "n0")}, {Kind: "RemoveNode", N: "n0", P: "p0"}, {Kind: "GetWorkload", N: "w0"},
			{Kind: "ListWorkloads"}, {Kind: "AddWorkload", W: wl("w1", "bad", "n0")}, {Kind: "RemoveWorkload", W: wl("w1", "bad", "n0")},
			{Kind: "UpdateWorkload", W: wl("w2", "a0_e0_s", "n0")}, {Kind: "SetWorkloadStatus", St: &sh.WStat{ID: "w2"}, A: "a0", E: "e0", N: "n0", TTL: 4},
			{Kind: "SetWorkloadStatus", St: &sh.WStat{ID: "w0"}, A: "a0", E: "", N: "n0", TTL: 4}, {Kind: "SetNodeStatus", N: "n0", P: "p0", TTL: 0}},
	}
}

func TestC23(t *testing.T) {
	r := vh.New(t, "C23", "stores")
	r.Coq("From Verif Require Import Store.KVPrims Store.Ops Store.Case.", "Case.case", "Case.agree", "Case.ok23")
	r.Shard = 8
	r.Extra("Local Open Scope string_scope.")
	r.Extra(sh.ProbeDef())
	sh.UseFastTmp(t)
	e := sh.NewEtcd(t)
	rd := sh.NewRedis(t)

	emit := func(ops []sh.Op, src string, dense bool) {
		s := sh.NewShadow()
		divs := make([]string, len(ops))
		mayFail := make([]bool, len(ops))
		first, ndiv := "none", 0
		for i, o := range ops {
			mayFail[i] = s.MayFail(o)
			divs[i] = s.Apply(o)
			if divs[i] != "" {
				ndiv++
				if first == "none" {
					first = divs[i]
				}
			}
		}
		items, steps := sh.RunHistory(e, rd, ops, divs, mayFail, dense)
		nfail, ncreatefail := 0, 0
		for _, st := range steps {
			r.Count("op=" + st.Op.Kind)
			if st.E.Err != "" {
				nfail++
				r.Count("etcd_err=" + st.E.Err)
				if sh.IsCreate(st.Op) {
					ncreatefail++
				}
			}
			if st.R.Err != "" {
				r.Count("redis_err=" + st.R.Err)
			}
			if st.E.Err == "PANIC" || st.R.Err == "PANIC" {
				r.Count("panic")
			}
		}
		r.Count("first_div=" + first)
		r.Count(fmt.Sprintf("len=%d0s", len(ops)/10))
		r.Count("src=" + src)
		desc := map[string]any{"source": src, "steps": steps, "first_redis_divergence": first}
		tags := map[string]any{"first_div": first, "n_div": ndiv, "src": src}
		r.Add(sh.CaseTerm(items), desc, tags, ncreatefail > 0 || nfail >= 3)
	}

	for _, ops := range corpus() {
		emit(ops, "corpus", true)
	}
	// more than 125 operations in one batch: UpdateNodes of 126 nodes (260 puts, three doBatchOp commits),
	// GetNodes of all 126 names (two pieces of gets), then removal and a second, smaller batch
	{
		var big []sh.NodeArg
		var names []string
		for i := 0; i < 126; i++ {
			n := fmt.Sprintf("m%03d", i)
			a := node(n, "p0", nil, "")
			if i%16 == 0 {
				a.Cert = "cert-" + n
			}
			big = append(big, a)
			names = append(names, n)
		}
		emit([]sh.Op{{Kind: "AddPod", P: "p0", D: "d0"}, {Kind: "UpdateNodes", Nodes: big}, {Kind: "GetNodes", Names: append(append([]string{}, names...), "n0")},
			{Kind: "GetNodes", Names: names}, {Kind: "RemoveNode", N: "m003", P: "p0"}, {Kind: "UpdateNodes", Nodes: big[:64]}}, "corpus-big-batch", false)
	}
	n := r.N(40, 400)
	for i := 0; i < n; i++ {
		g := &sh.Gen{R: r.Rng, S: sh.NewShadow(), AvoidDiv: i%5 != 0}
		k := 20 + r.Rng.Intn(21)
		if r.Tier != "quick" {
			k = 20 + r.Rng.Intn(41)
		}
		ops := make([]sh.Op, 0, k+3)
		if i%2 == 0 { // half of the histories start from a populated store
			for _, o := range []sh.Op{{Kind: "AddPod", P: "p0", D: "d0"}, {Kind: "AddPod", P: "p1", D: "d1"},
				{Kind: "AddNode", Nodes: []sh.NodeArg{node(sh.NodesU[r.Rng.Intn(len(sh.NodesU))], "p0", sh.Labels{"l": "x"}, "")}}} {
				g.S.Apply(o)
				ops = append(ops, o)
			}
		}
		for j := 0; j < k; j++ {
			o, _ := g.Next()
			ops = append(ops, o)
		}
		src := "random"
		if g.AvoidDiv {
			src = "random-no-known-divergence"
		}
		emit(ops, src, false)
	}
	concurrent(t, e, rd)
	r.Finish("one operation history (20-60 Store calls over 2 pods, 3 nodes, 4 workloads, 2 apps x 2 entrypoints; duplicates and missing entities frequent) run on the real etcd store (embedded cluster) and the real Redis store (miniredis); 4 of 5 random histories avoid the operation instances on which Redis is known to diverge, 1 of 5 does not; non-trivial = a create failed or at least 3 calls failed")
}

// concurrent: one Store call with another complete Store call injected at the
// outer call's first transaction (etcd: Txn, redis: MULTI) -- between the two
// phases of the methods that are not atomic (etcd BatchCreateAndDecr, redis
// BatchUpdate), before the call for atomic methods.
func concurrent(t *testing.T, e, rd *sh.Backend) {
	r := vh.New(t, "C23", "concurrent")
	r.Coq("From Verif Require Import Store.KVPrims Store.Ops Store.Case Store.Concurrent.", "Concurrent.ccase", "Concurrent.cagree", "Concurrent.cok")
	r.Extra("Local Open Scope string_scope.")
	pr := &sh.Proc{App: "a0", Entry: "e0", Node: "n0", Ident: "i0"}
	base := []sh.Op{{Kind: "AddPod", P: "p0", D: "d"}, {Kind: "AddNode", Nodes: []sh.NodeArg{node("n0", "p0", nil, "")}},
		{Kind: "CreateProcessing", Pr: pr, Cnt: 3}, {Kind: "AddWorkload", W: wl("w0", "a0_e0_s", "n0")}, {Kind: "AddWorkload", W: wl("w2", "a0_e0_s", "n0")}}
	w0y := &sh.WData{ID: "w0", Name: "a0_e0_s", Node: "n0", Labels: sh.Labels{"l": "y"}}
	type scen struct {
		name, coq    string
		outer, inner sh.Op
	}
	scens := []scen{
		{"add-add", "ScAddAdd " + sh.CoqW(*wl("w1", "a0_e0_s", "n0")) + " " + sh.CoqW(*wl("w10", "a0_e0_s", "n0")) + " " + sh.CoqProc(*pr),
			sh.Op{Kind: "AddWorkload", W: wl("w1", "a0_e0_s", "n0"), Pr: pr}, sh.Op{Kind: "AddWorkload", W: wl("w10", "a0_e0_s", "n0"), Pr: pr}},
		{"add-delproc", "ScAddDelProc " + sh.CoqW(*wl("w1", "a0_e0_s", "n0")) + " " + sh.CoqProc(*pr),
			sh.Op{Kind: "AddWorkload", W: wl("w1", "a0_e0_s", "n0"), Pr: pr}, sh.Op{Kind: "DeleteProcessing", Pr: pr}},
		{"upd-remove-same", "ScUpdRemove " + sh.CoqW(*w0y) + " " + sh.CoqW(*wl("w0", "a0_e0_s", "n0")),
			sh.Op{Kind: "UpdateWorkload", W: w0y}, sh.Op{Kind: "RemoveWorkload", W: wl("w0", "a0_e0_s", "n0")}},
		{"upd-remove-other", "ScUpdRemove " + sh.CoqW(*w0y) + " " + sh.CoqW(*wl("w2", "a0_e0_s", "n0")),
			sh.Op{Kind: "UpdateWorkload", W: w0y}, sh.Op{Kind: "RemoveWorkload", W: wl("w2", "a0_e0_s", "n0")}},
	}
	for _, b := range []*sh.Backend{e, rd} {
		for _, sc := range scens {
			b.Reset()
			for _, o := range base {
				b.Exec(o)
			}
			ro, ri, ran := b.ExecInjected(sc.outer, sc.inner)
			if !ran {
				r.Count("not-injected=" + b.Name + "/" + sc.name)
				continue
			}
			setup := make([]string, len(base))
			for i, o := range base {
				setup[i] = sh.CoqOp(o)
			}
			term := fmt.Sprintf("(mkCC %s %s (%s) %s %s %s)", vh.Bool(b.Name == "etcd"), sh.L(setup), sc.coq, ro.Term(), ri.Term(), sh.CoqDump(b.Dump()))
			r.Count("outer=" + b.Name + "/" + sc.name + ":" + ro.Err)
			desc := map[string]any{"backend": b.Name, "scenario": sc.name, "setup": base, "outer": sc.outer, "inner_injected_at_first_txn": sc.inner,
				"outer_result": ro, "inner_result": ri}
			r.Add(term, desc, map[string]any{"conc": b.Name + "/" + sc.name}, true)
		}
	}
	r.Finish("one Store call with a second complete Store call injected at its first transaction (etcd Txn / redis MULTI), on both real stores: AddWorkload+processing with a concurrent AddWorkload on the same counter, with a concurrent DeleteProcessing, UpdateWorkload with a concurrent RemoveWorkload of the same / another workload; checked against the interleaving model and for linearizability against the specification")
}
