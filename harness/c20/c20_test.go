// Package c20: correspondence harness for C20 (global lock order).
//
// A real Calcium (package cw: embedded etcd or miniredis store, real cpumem
// plugin, fake engine) runs every lock-taking operation; a recording wrapper
// around store.CreateLock logs every Lock/Unlock with the calling goroutine.
// Each case = (store contents before the call, operation with its outcome
// oracles, optional failing lock key, observed events per goroutine).  Coq
// compares the multiset of lock episodes with the model (Calcium/Locks.v) and
// evaluates the order property on the observed goroutine sequences.
package c20

import (
	"context"
	"errors"
	"fmt"
	"reflect"
	"runtime"
	"sort"
	"strconv"
	"strings"
	"sync"
	"sync/atomic"
	"testing"
	"time"
	"unsafe"

	"github.com/panjf2000/ants/v2"

	"verifharness/cw"
	"verifharness/vh"

	"github.com/projecteru2/core/cluster/calcium"
	"github.com/projecteru2/core/lock"
	"github.com/projecteru2/core/log"
	"github.com/projecteru2/core/store"
	"github.com/projecteru2/core/types"
)

// ---------------------------------------------------------------- recording

type levt struct {
	Gid  uint64 `json:"gid"`
	Kind string `json:"kind"` // Acq | AcqFail | Rel
	Key  string `json:"key"`
}

type recorder struct {
	mu      sync.Mutex
	evs     []levt
	failKey string
	// called (once) when a node-operation lock is acquired
	onNodeOp func()
}

func (r *recorder) add(kind, key string) {
	g := goid()
	r.mu.Lock()
	r.evs = append(r.evs, levt{Gid: g, Kind: kind, Key: key})
	var hook func()
	if kind == "Acq" && strings.HasPrefix(key, "cnode_op_") && r.onNodeOp != nil {
		hook, r.onNodeOp = r.onNodeOp, nil
	}
	r.mu.Unlock()
	if hook != nil {
		hook()
	}
}
func (r *recorder) setOnNodeOp(f func()) { r.mu.Lock(); r.onNodeOp = f; r.mu.Unlock() }
func (r *recorder) reset(failKey string) {
	r.mu.Lock()
	r.evs = nil
	r.failKey = failKey
	r.mu.Unlock()
}
func (r *recorder) events() []levt {
	r.mu.Lock()
	defer r.mu.Unlock()
	return append([]levt(nil), r.evs...)
}
func (r *recorder) fails(key string) bool {
	r.mu.Lock()
	defer r.mu.Unlock()
	return r.failKey != "" && r.failKey == key
}

func goid() uint64 {
	var buf [64]byte
	n := runtime.Stack(buf[:], false)
	f := strings.Fields(string(buf[:n]))
	if len(f) < 2 {
		return 0
	}
	id, _ := strconv.ParseUint(f[1], 10, 64)
	return id
}

var errLockInjected = errors.New("verif: lock attempt fails")

type storeRec struct {
	store.Store
	r *recorder
}

func (s *storeRec) CreateLock(key string, ttl time.Duration) (lock.DistributedLock, error) {
	l, err := s.Store.CreateLock(key, ttl)
	if err != nil {
		return l, err
	}
	return &lockRec{DistributedLock: l, key: key, r: s.r}, nil
}

type lockRec struct {
	lock.DistributedLock
	key    string
	r      *recorder
	failed bool
}

func (l *lockRec) Lock(ctx context.Context) (context.Context, error) {
	if l.r.fails(l.key) {
		l.failed = true
		l.r.add("AcqFail", l.key)
		return nil, errLockInjected // like etcdlock: nil context on failure
	}
	c, err := l.DistributedLock.Lock(ctx)
	if err != nil {
		l.failed = true
		l.r.add("AcqFail", l.key)
		return c, err
	}
	l.failed = false
	l.r.add("Acq", l.key)
	return c, err
}

func (l *lockRec) Unlock(ctx context.Context) error {
	if l.failed {
		// doLock unlocks a lock whose Lock just failed: not a release
		return nil
	}
	l.r.add("Rel", l.key)
	return l.DistributedLock.Unlock(ctx)
}

// ---------------------------------------------------------------- world

type world struct {
	w       *cw.World
	rec     *recorder
	backend string
	pods    []string
	nodes   []string // every node name ever used
	podOf   map[string]string
}

func deployOpts(app, pod string, nf *types.NodeFilter, count int, cpu float64, mem int64) *types.DeployOptions {
	return &types.DeployOptions{
		Name: app, Entrypoint: &types.Entrypoint{Name: "web"}, Podname: pod, Image: "img",
		Count: count, DeployStrategy: "AUTO", NodeFilter: nf,
		Resources: cw.CPUMem(cpu, mem),
	}
}

func newWorld(t *testing.T, backend string, rng func(int) int) *world {
	w := cw.New(t, cw.Options{Backend: backend, NCPU: 8, Mem: 1 << 30})
	x := &world{w: w, rec: &recorder{}, backend: backend, podOf: map[string]string{}}
	w.C.VerifSetStore(&storeRec{Store: w.Store, r: x.rec})
	// pod names and node names are chosen so that node-name order and pod-key
	// order disagree in many ways
	x.pods = []string{"pa", "pb", "pc"}
	for _, p := range append(append([]string{}, x.pods...), "pz") {
		if err := w.AddPod(p); err != nil {
			t.Fatalf("addpod: %v", err)
		}
	}
	names := []string{"n1", "n2", "n3", "n4", "n5", "n6"}
	// every pod gets one node, the rest is random
	perm := make([]int, len(names))
	for i := range perm {
		perm[i] = i
	}
	for i := len(perm) - 1; i > 0; i-- {
		j := rng(i + 1)
		perm[i], perm[j] = perm[j], perm[i]
	}
	for k, idx := range perm {
		pod := x.pods[k%3]
		if k >= 3 {
			pod = x.pods[rng(3)]
		}
		if err := w.AddNode(names[idx], pod, 8, 1<<30); err != nil {
			t.Fatalf("addnode: %v", err)
		}
		x.podOf[names[idx]] = pod
		// labels: half of the nodes are in zone a, the others in zone b
		if node, err := w.RawStore.GetNode(w.Ctx, names[idx]); err == nil {
			node.Labels = map[string]string{"zone": []string{"a", "b"}[k%2], "disk": "ssd"}
			if err := w.RawStore.UpdateNodes(w.Ctx, node); err != nil {
				t.Fatalf("labels: %v", err)
			}
		}
	}
	x.nodes = names
	return x
}

// storeTerm reads the store contents relevant to locking through the
// unwrapped store and prints them as a Coq lstore.
func (x *world) storeTerm() (string, map[string]any, []string, map[string]string) {
	ctx := x.w.Ctx
	ns, err := x.w.RawStore.GetNodesByPod(ctx, &types.NodeFilter{All: true})
	if err != nil {
		x.w.T.Fatalf("snapshot nodes: %v", err)
	}
	sort.Slice(ns, func(i, j int) bool { return ns[i].Name < ns[j].Name })
	nodeTerms, nodeDesc := []string{}, []map[string]any{}
	wlTerms, wlDesc := []string{}, []map[string]any{}
	ids := []string{}
	nodeOf := map[string]string{}
	for _, n := range ns {
		nodeTerms = append(nodeTerms, fmt.Sprintf("(mkNode %s %s %s %s)", vh.Str(n.Name), vh.Str(n.Podname), vh.Bool(!n.IsDown()), labelsTerm(n.Labels)))
		nodeDesc = append(nodeDesc, map[string]any{"name": n.Name, "pod": n.Podname, "up": !n.IsDown()})
		wls, err := x.w.RawStore.ListNodeWorkloads(ctx, n.Name, nil)
		if err != nil {
			x.w.T.Fatalf("snapshot workloads: %v", err)
		}
		sort.Slice(wls, func(i, j int) bool { return wls[i].ID < wls[j].ID })
		for _, wl := range wls {
			wlTerms = append(wlTerms, fmt.Sprintf("(mkWl %s %s)", vh.Str(wl.ID), vh.Str(wl.Nodename)))
			wlDesc = append(wlDesc, map[string]any{"id": wl.ID, "node": wl.Nodename})
			ids = append(ids, wl.ID)
			nodeOf[wl.ID] = wl.Nodename
		}
	}
	return fmt.Sprintf("(mkStore %s %s)", vh.List(nodeTerms), vh.List(wlTerms)),
		map[string]any{"nodes": nodeDesc, "workloads": wlDesc}, ids, nodeOf
}

func labelsTerm(m map[string]string) string {
	ps := []string{}
	for _, k := range vh.SortedKeys(m) {
		ps = append(ps, vh.Pair(vh.Str(k), vh.Str(m[k])))
	}
	return vh.List(ps)
}

func filterTerm(nf *types.NodeFilter) string {
	return fmt.Sprintf("(mkFilter %s %s %s %s %s)", vh.Str(nf.Podname), vh.StrList(nf.Includes), vh.StrList(nf.Excludes), vh.Bool(nf.All), labelsTerm(nf.Labels))
}

func boolList(bs []bool) string {
	s := make([]string, len(bs))
	for i, b := range bs {
		s[i] = vh.Bool(b)
	}
	return vh.List(s)
}

// observed events grouped by goroutine, in order of first appearance
func groupByGid(evs []levt) [][]levt {
	idx := map[uint64]int{}
	out := [][]levt{}
	for _, e := range evs {
		i, ok := idx[e.Gid]
		if !ok {
			i = len(out)
			idx[e.Gid] = i
			out = append(out, nil)
		}
		out[i] = append(out[i], e)
	}
	return out
}

func obsTerm(groups [][]levt) string {
	ts := make([]string, len(groups))
	for i, g := range groups {
		es := make([]string, len(g))
		for j, e := range g {
			es[j] = fmt.Sprintf("(%s %s)", e.Kind, vh.Str(e.Key))
		}
		ts[i] = vh.List(es)
	}
	return vh.List(ts)
}

// wait until the expected number of remap goroutines showed up, every lock is
// released and no lock event arrived for a while (remap goroutines are asynchronous)
func (x *world) settle(expectRemaps int) {
	x.w.Quiesce()
	last, stable := -1, 0
	for i := 0; i < 600; i++ {
		evs := x.rec.events()
		held, remaps := 0, 0
		for _, e := range evs {
			switch e.Kind {
			case "Acq":
				held++
			case "Rel":
				held--
			}
			if e.Kind != "Rel" && strings.HasPrefix(e.Key, "cnode_op_") {
				remaps++
			}
		}
		if len(evs) == last && held == 0 && remaps >= expectRemaps {
			stable++
			if stable >= 4 {
				return
			}
		} else {
			stable = 0
		}
		last = len(evs)
		time.Sleep(5 * time.Millisecond)
	}
}

// ---------------------------------------------------------------- driver

type caseOut struct {
	opTerm string
	ids    []string
	desc   map[string]any
	tags   map[string]any
	kind   string
}

func TestC20(t *testing.T) {
	r := vh.New(t, "C20", "locks")
	r.Coq("From Verif Require Import Base.LockOrder Calcium.Locks.", "Locks.case", "Locks.agree", "Locks.ok")
	r.Shard = 100
	nOps := r.N(330, 3000)
	rng := func(n int) int { return r.Rng.Intn(n) }

	emitted := 0
	worldNo := 0
	for emitted < nOps {
		backend := "etcd"
		if worldNo%2 == 1 {
			backend = "redis"
		}
		worldNo++
		x := newWorld(t, backend, rng)
		emitted += runWorld(t, r, x, worldNo, nOps-emitted)
		x.w.Close()
	}
	r.Finish("one case per executed operation on a real Calcium (embedded etcd / miniredis): store contents before the call, the operation with outcome oracles, optional failing lock key, and the recorded Lock/Unlock calls per goroutine; corpus first (cross-pod include lists of the repaired defect, multi-id helper calls); non-trivial = at least two lock attempts observed")
}

func pick[T any](rng func(int) int, xs []T) T { return xs[rng(len(xs))] }

func randIncludes(rng func(int) int, nodes []string, missing bool) []string {
	n := 1 + rng(4)
	out := []string{}
	for i := 0; i < n; i++ {
		out = append(out, pick(rng, nodes))
	}
	if missing && rng(8) == 0 {
		out = append(out, "nope")
	}
	return out
}

func randIDs(rng func(int) int, ids []string, repeats, missing bool) []string {
	if len(ids) == 0 {
		return []string{"nope"}
	}
	n := 1 + rng(4)
	out := []string{}
	seen := map[string]bool{}
	for i := 0; i < n; i++ {
		id := pick(rng, ids)
		if !repeats && seen[id] {
			continue
		}
		seen[id] = true
		out = append(out, id)
	}
	if missing && rng(10) == 0 {
		out = append(out, "nope")
	}
	return out
}

// the remap pool of a Calcium (unexported field; read through reflection: test-only, nothing in /repo changes)
func calciumPool(c *calcium.Calcium) *ants.PoolWithFunc {
	f := reflect.ValueOf(c).Elem().FieldByName("pool")
	return reflect.NewAt(f.Type(), unsafe.Pointer(f.UnsafeAddr())).Elem().Interface().(*ants.PoolWithFunc)
}

// one operation: run it, gather oracles and observations, emit the case
func (x *world) run(t *testing.T, r *vh.Run, kind string, failKey string, tagsExtra map[string]any,
	do func() (opTerm string, ids []string, desc map[string]any)) {
	storeT, storeDesc, _, _ := x.storeTerm()
	x.w.IC.Reset()
	x.rec.reset(failKey)
	done := make(chan struct{})
	var opTerm string
	var ids []string
	var desc map[string]any
	go func() {
		defer close(done)
		defer func() {
			if p := recover(); p != nil {
				opTerm, desc = "", map[string]any{"panic": fmt.Sprint(p)}
			}
		}()
		opTerm, ids, desc = do()
	}()
	select {
	case <-done:
	case <-time.After(30 * time.Second):
		t.Fatalf("C20: operation %s did not return (deadlock?)", kind)
	}
	x.settle(expectedRemaps(desc))
	evs := x.rec.events()
	x.rec.reset("")
	// remove/dissociate: the store order oracle = order of workload lock attempts,
	// completed by the requested ids never attempted
	if strings.Contains(opTerm, "@REL@") {
		// release order of the workload locks (Go map order after a failing attempt): oracle of the model
		rel := []string{}
		for _, e := range evs {
			if e.Kind == "Rel" && strings.HasPrefix(e.Key, "clock_") {
				rel = append(rel, strings.TrimPrefix(e.Key, "clock_"))
			}
		}
		opTerm = strings.Replace(opTerm, "@REL@", vh.StrList(rel), 1)
		desc["release_order"] = rel
	}
	if strings.Contains(opTerm, "@ORDER@") {
		order := []string{}
		seen := map[string]bool{}
		for _, e := range evs {
			if e.Kind != "Rel" && strings.HasPrefix(e.Key, "clock_") {
				// every attempt counts: on etcd a repeated id is attempted again when the first attempt failed
				id := strings.TrimPrefix(e.Key, "clock_")
				seen[id] = true
				order = append(order, id)
			}
		}
		if desc["listed"] == true {
			for _, id := range ids {
				if !seen[id] {
					seen[id] = true
					order = append(order, id)
				}
			}
		}
		opTerm = strings.Replace(opTerm, "@ORDER@", vh.StrList(order), 1)
		desc["order"] = order
	}
	groups := groupByGid(evs)
	fk := "None"
	if failKey != "" {
		fk = vh.Some(vh.Str(failKey))
	}
	if opTerm == "" {
		// a panic: not representable, force a mismatch and a violation
		opTerm = "(ORemap (sb []))"
		groups = [][]levt{{{Kind: "Rel", Key: "panic"}}}
	}
	term := fmt.Sprintf("(mkCase %s %s %s %s %s)", storeT, opTerm, vh.StrList(ids), fk, obsTerm(groups))
	attempts := 0
	maxHeld, held := 0, map[uint64]int{}
	for _, e := range evs {
		switch e.Kind {
		case "Acq":
			attempts++
			held[e.Gid]++
			if held[e.Gid] > maxHeld {
				maxHeld = held[e.Gid]
			}
		case "AcqFail":
			attempts++
		case "Rel":
			held[e.Gid]--
		}
	}
	desc["store"] = storeDesc
	desc["kind"] = kind
	desc["backend"] = x.backend
	desc["fail_key"] = failKey
	desc["events"] = groups
	tags := map[string]any{"op": kind, "backend": x.backend, "fail": failKey != ""}
	for k, v := range tagsExtra {
		tags[k] = v
	}
	r.Count("op=" + kind)
	r.Count("backend=" + x.backend)
	r.Count(fmt.Sprintf("max_held=%d", maxHeld))
	r.Count(fmt.Sprintf("goroutines=%d", len(groups)))
	if failKey != "" {
		r.Count("with_failing_lock")
	}
	r.Add(term, desc, tags, attempts >= 2)
}

func expectedRemaps(desc map[string]any) int {
	if n, ok := desc["remaps"].(int); ok {
		return n
	}
	return 0
}

func drain[T any](ch chan T) []T {
	out := []T{}
	for m := range ch {
		out = append(out, m)
	}
	return out
}

func uniqStrs(xs []string) []string {
	seen := map[string]bool{}
	out := []string{}
	for _, s := range xs {
		if !seen[s] {
			seen[s] = true
			out = append(out, s)
		}
	}
	return out
}

func runWorld(t *testing.T, r *vh.Run, x *world, worldNo int, budget int) int {
	rng := func(n int) int { return r.Rng.Intn(n) }
	ctx := x.w.Ctx
	c := x.w.C
	count := 0
	app := "app"
	opNo := 0

	podNodes := func(p string) []string {
		out := []string{}
		for _, n := range x.nodes {
			if x.podOf[n] == p {
				out = append(out, n)
			}
		}
		return out
	}

	create := func(nf *types.NodeFilter, pod string, cnt int, cpu float64, failKey string, engineFaultNode string, tags map[string]any) {
		opNo++
		x.w.Hub.SetOpNorm(opNo, true)
		x.run(t, r, "create", failKey, tags, func() (string, []string, map[string]any) {
			if engineFaultNode != "" {
				x.w.IC.SetFault(&cw.Addr{Method: "VirtualizationCreate", Target: engineFaultNode, Ord: 0})
			}
			ch, err := c.CreateWorkload(ctx, deployOpts(app, pod, nf, cnt, cpu, 1<<20))
			if err != nil {
				return "", nil, map[string]any{"err": err.Error()}
			}
			msgs := drain(ch)
			condOK := true
			prepared, rollback := []string{}, []string{}
			for _, m := range msgs {
				if m.Nodename == "" && m.Error != nil {
					condOK = false
					continue
				}
				prepared = append(prepared, m.Nodename)
				if m.Error != nil {
					rollback = append(rollback, m.Nodename)
				}
			}
			prepared, rollback = uniqStrs(prepared), uniqStrs(rollback)
			return fmt.Sprintf("(OCreate %s %s %s %s)", filterTerm(nf), vh.Bool(condOK), vh.StrList(prepared), vh.StrList(rollback)), nil,
				map[string]any{"filter": nf, "cond_ok": condOK, "prepared": prepared, "rollback": rollback, "messages": len(msgs), "remaps": len(prepared)}
		})
		count++
	}
	helperNodes := func(nf *types.NodeFilter, nodeOp bool, failKey string, tags map[string]any) {
		x.run(t, r, "helper-nodes", failKey, tags, func() (string, []string, map[string]any) {
			err := c.VerifE2WithNodesLocked(ctx, nf, nodeOp)
			return fmt.Sprintf("(OHelperNodes %s %s)", filterTerm(nf), vh.Bool(nodeOp)), nil,
				map[string]any{"filter": nf, "node_op": nodeOp, "err": fmt.Sprint(err)}
		})
		count++
	}
	helperWls := func(ids []string, ign bool, failKey string, tags map[string]any) {
		x.run(t, r, "helper-workloads", failKey, tags, func() (string, []string, map[string]any) {
			arg := append([]string{}, ids...)
			err := c.VerifE2WithWorkloadsLocked(ctx, arg, ign)
			return fmt.Sprintf("(OHelperWorkloads %s %s @REL@)", vh.StrList(ids), vh.Bool(ign)), nil,
				map[string]any{"ids": ids, "ignore_lock": ign, "err": fmt.Sprint(err)}
		})
		count++
	}

	// ---- corpus: the witness of the cross-pod order defect -----------------
	// two nodes of different pods such that node-name order != pod-key order
	var lo, hi string // lo < hi by name, pod(lo) > pod(hi)
	for _, a := range x.nodes {
		for _, b := range x.nodes {
			if a < b && x.podOf[a] > x.podOf[b] && lo == "" {
				lo, hi = a, b
			}
		}
	}
	if lo != "" {
		create(&types.NodeFilter{Includes: []string{lo, hi}}, x.podOf[lo], 1, 0.1, "", "", map[string]any{"corpus": "cross-pod-includes"})
		create(&types.NodeFilter{Includes: []string{hi, lo, hi}}, x.podOf[hi], 2, 0.1, "", "", map[string]any{"corpus": "cross-pod-includes"})
		helperNodes(&types.NodeFilter{Includes: []string{hi, lo}}, false, "", map[string]any{"corpus": "cross-pod-includes"})
	}
	// populate: a few workloads in every pod
	for _, p := range x.pods {
		create(&types.NodeFilter{Podname: p}, p, 2+rng(2), 0.1, "", "", nil)
	}
	create(&types.NodeFilter{Includes: append([]string{}, x.nodes...)}, "pa", 4, 0.1, "", "", nil)
	{
		_, _, ids, _ := x.storeTerm()
		if len(ids) >= 3 {
			// corpus: multi-id helper call in descending order with a repeat
			sorted := append([]string{}, ids...)
			sort.Sort(sort.Reverse(sort.StringSlice(sorted)))
			arg := append([]string{}, sorted[:3]...)
			arg = append(arg, sorted[0])
			helperWls(arg, false, "", map[string]any{"corpus": "multi-id"})
			helperWls(append([]string{}, ids...), false, "", map[string]any{"corpus": "multi-id"})
		}
	}

	// ---- corpus: RemoveNode of an EMPTY node (the only remove-node that gets past the checks and reaches the
	// removal itself, under the pod lock), in every world ----------------------
	{
		_, _, _, nodeOf := x.storeTerm()
		busy := map[string]bool{}
		for _, n := range nodeOf {
			busy[n] = true
		}
		empty := ""
		ns, _ := x.w.RawStore.GetNodesByPod(ctx, &types.NodeFilter{All: true})
		for _, n := range ns {
			if !busy[n.Name] && empty == "" {
				empty = n.Name
			}
		}
		if empty == "" {
			empty = "n9"
			p := pick(rng, x.pods)
			if e := x.w.AddNode(empty, p, 8, 1<<30); e == nil {
				x.podOf[empty] = p
			} else {
				empty = ""
			}
		}
		if empty != "" {
			n := empty
			x.run(t, r, "remove-node", "", map[string]any{"corpus": "remove-empty-node"}, func() (string, []string, map[string]any) {
				err := c.RemoveNode(ctx, n)
				if err == nil {
					r.Count("remove-node:removed_empty_node")
					p := pick(rng, x.pods)
					if e := x.w.AddNode(n, p, 8, 1<<30); e == nil {
						x.podOf[n] = p
					}
				}
				return fmt.Sprintf("(ORemoveNode %s)", vh.Str(n)), nil, map[string]any{"node": n, "err": fmt.Sprint(err)}
			})
			count++
		}
	}

	// ---- random operations ---------------------------------------------------
	kinds := []string{"create", "create", "capacity", "remove-pod", "remove", "dissociate", "realloc", "replace",
		"control", "send", "raw-engine", "set-node", "remove-node", "node-resource", "pod-resource", "remap",
		"helper-nodes", "helper-workloads", "remove-saturated"}
	perWorld := 36
	for step := 0; step < perWorld && count < budget; step++ {
		kind := kinds[(step+worldNo)%len(kinds)]
		_, _, ids, nodeOf := x.storeTerm()
		liveNodes := []string{}
		{
			ns, _ := x.w.RawStore.GetNodesByPod(ctx, &types.NodeFilter{All: true})
			for _, n := range ns {
				liveNodes = append(liveNodes, n.Name)
			}
			sort.Strings(liveNodes)
		}
		if len(liveNodes) == 0 {
			break
		}
		failing := rng(6) == 0
		randFilter := func() *types.NodeFilter {
			switch rng(4) {
			case 0:
				nf := &types.NodeFilter{Podname: pick(rng, x.pods), All: rng(2) == 0}
				switch rng(4) {
				case 0:
					nf.Labels = map[string]string{"zone": pick(rng, []string{"a", "b"})}
				case 1:
					nf.Labels = map[string]string{"zone": "a", "disk": pick(rng, []string{"ssd", "hdd"})}
				}
				return nf
			case 1:
				p := pick(rng, x.pods)
				ex := []string{}
				if pn := podNodes(p); len(pn) > 0 {
					ex = append(ex, pick(rng, pn))
				}
				return &types.NodeFilter{Podname: p, Excludes: ex}
			default:
				return &types.NodeFilter{Includes: randIncludes(rng, liveNodes, true)}
			}
		}
		filterFailKey := func(nf *types.NodeFilter) string {
			if !failing {
				return ""
			}
			if len(nf.Includes) > 0 {
				n := pick(rng, nf.Includes)
				if p, ok := x.podOf[n]; ok {
					return "plock_" + p
				}
				return ""
			}
			return "plock_" + nf.Podname
		}
		switch kind {
		case "create":
			nf := randFilter()
			cpu := 0.1
			if rng(8) == 0 {
				cpu = 1000 // no capacity anywhere: the condition step fails after locking
			}
			faultNode := ""
			if rng(4) == 0 {
				faultNode = pick(rng, liveNodes)
			}
			pod := nf.Podname
			if pod == "" {
				pod = pick(rng, x.pods)
			}
			create(nf, pod, 1+rng(3), cpu, filterFailKey(nf), faultNode, nil)
		case "capacity":
			nf := randFilter()
			pod := nf.Podname
			if pod == "" {
				pod = pick(rng, x.pods)
			}
			x.run(t, r, kind, filterFailKey(nf), nil, func() (string, []string, map[string]any) {
				_, err := c.CalculateCapacity(ctx, deployOpts(app, pod, nf, 1, 0.1, 1<<20))
				return fmt.Sprintf("(OCapacity %s)", filterTerm(nf)), nil, map[string]any{"filter": nf, "err": fmt.Sprint(err)}
			})
			count++
		case "remove-pod":
			pod := pick(rng, []string{"pa", "pb", "pc", "pz", "pz"})
			fk := ""
			if failing {
				fk = "plock_" + pod
			}
			x.run(t, r, kind, fk, nil, func() (string, []string, map[string]any) {
				err := c.RemovePod(ctx, pod)
				if err == nil {
					_ = x.w.AddPod(pod) // keep the world usable
				}
				return fmt.Sprintf("(ORemovePod %s)", vh.Str(pod)), nil, map[string]any{"pod": pod, "err": fmt.Sprint(err)}
			})
			count++
		case "remove", "dissociate":
			arg := randIDs(rng, ids, true, true)
			fk := ""
			if failing && len(arg) > 0 {
				id := pick(rng, arg)
				if rng(2) == 0 {
					fk = "clock_" + id
				} else if n, ok := nodeOf[id]; ok {
					fk = "plock_" + x.podOf[n]
				}
			}
			x.run(t, r, kind, fk, nil, func() (string, []string, map[string]any) {
				listed := true
				var err error
				if kind == "remove" {
					var ch chan *types.RemoveWorkloadMessage
					ch, err = c.RemoveWorkload(ctx, append([]string{}, arg...), true)
					if err == nil {
						drain(ch)
					}
				} else {
					var ch chan *types.DissociateWorkloadMessage
					ch, err = c.DissociateWorkload(ctx, append([]string{}, arg...))
					if err == nil {
						drain(ch)
					}
				}
				if err != nil {
					listed = false
				}
				ctor := "ORemove"
				if kind == "dissociate" {
					ctor = "ODissociate"
				}
				remaps := 0
				if listed {
					seenNode := map[string]bool{}
					for _, id := range arg {
						n := nodeOf[id]
						if !seenNode[n] && fk != "plock_"+x.podOf[n] {
							seenNode[n] = true
							remaps++
						}
					}
				}
				return fmt.Sprintf("(%s @ORDER@)", ctor), arg, map[string]any{"ids": arg, "err": fmt.Sprint(err), "listed": listed, "remaps": remaps}
			})
			count++
		case "realloc":
			id := pick(rng, append(append([]string{}, ids...), "nope"))
			fk := ""
			if failing {
				if rng(2) == 0 {
					fk = "clock_" + id
				} else if n, ok := nodeOf[id]; ok {
					fk = "plock_" + x.podOf[n]
				}
			}
			x.run(t, r, kind, fk, nil, func() (string, []string, map[string]any) {
				cpu := 0.1
				if rng(4) == 0 {
					cpu = 1000 // cannot be satisfied: realloc fails under the locks
				}
				err := c.ReallocResource(ctx, &types.ReallocOptions{ID: id, Resources: cw.CPUMem(cpu, 1<<20)})
				remaps := 0
				if err == nil {
					remaps = 1
				}
				return fmt.Sprintf("(ORealloc %s %s)", vh.Str(id), vh.Bool(err == nil)), nil, map[string]any{"id": id, "err": fmt.Sprint(err), "remaps": remaps}
			})
			count++
		case "replace":
			arg := randIDs(rng, ids, false, true)
			fk := ""
			if failing {
				fk = "clock_" + pick(rng, arg)
			}
			opNo++
			x.w.Hub.SetOp(opNo)
			x.run(t, r, kind, fk, nil, func() (string, []string, map[string]any) {
				opts := &types.ReplaceOptions{DeployOptions: *deployOpts(app, "", nil, 1, 0.1, 1<<20), IDs: append([]string{}, arg...)}
				opts.DeployOptions.NodeFilter = &types.NodeFilter{}
				ch, err := c.ReplaceWorkload(ctx, opts)
				succ := make([]bool, len(arg))
				if err == nil {
					for _, m := range drain(ch) {
						if m.Error == nil && m.Remove != nil {
							for i, id := range arg {
								if id == m.Remove.WorkloadID {
									succ[i] = true
								}
							}
						}
					}
				}
				remaps := 0
				for _, b := range succ {
					if b {
						remaps++
					}
				}
				return fmt.Sprintf("(OReplace %s %s)", vh.StrList(arg), boolList(succ)), nil, map[string]any{"ids": arg, "succeeded": succ, "err": fmt.Sprint(err), "remaps": remaps}
			})
			count++
		case "control":
			arg := randIDs(rng, ids, true, true)
			fk := ""
			if failing {
				fk = "clock_" + pick(rng, arg)
			}
			typ := pick(rng, []string{"stop", "start", "restart"})
			x.run(t, r, kind, fk, nil, func() (string, []string, map[string]any) {
				ch, err := c.ControlWorkload(ctx, append([]string{}, arg...), typ, true)
				if err == nil {
					drain(ch)
				}
				return fmt.Sprintf("(OControl %s)", vh.StrList(arg)), nil, map[string]any{"ids": arg, "type": typ, "err": fmt.Sprint(err)}
			})
			count++
		case "send":
			arg := randIDs(rng, ids, true, true)
			fk := ""
			if failing {
				fk = "clock_" + pick(rng, arg)
			}
			x.run(t, r, kind, fk, nil, func() (string, []string, map[string]any) {
				ch, err := c.Send(ctx, &types.SendOptions{IDs: append([]string{}, arg...), Files: []types.LinuxFile{{Filename: "/f", Content: []byte("x"), Mode: 0644}}})
				if err == nil {
					drain(ch)
				}
				return fmt.Sprintf("(OSend %s)", vh.StrList(arg)), nil, map[string]any{"ids": arg, "err": fmt.Sprint(err)}
			})
			count++
		case "raw-engine":
			id := pick(rng, append(append([]string{}, ids...), "nope"))
			ign := rng(2) == 0
			fk := ""
			if failing {
				fk = "clock_" + id
			}
			x.run(t, r, kind, fk, nil, func() (string, []string, map[string]any) {
				_, err := c.RawEngine(ctx, &types.RawEngineOptions{ID: id, Op: "noop", IgnoreLock: ign})
				return fmt.Sprintf("(ORawEngine %s %s)", vh.Str(id), vh.Bool(ign)), nil, map[string]any{"id": id, "ignore_lock": ign, "err": fmt.Sprint(err)}
			})
			count++
		case "set-node":
			n := pick(rng, append(append([]string{}, liveNodes...), "nope"))
			fk := ""
			if failing {
				if p, ok := x.podOf[n]; ok {
					fk = "plock_" + p
				}
			}
			x.run(t, r, kind, fk, nil, func() (string, []string, map[string]any) {
				opts := &types.SetNodeOptions{Nodename: n, Labels: map[string]string{"k": fmt.Sprint(step)}}
				switch rng(4) {
				case 0:
					opts.Bypass = types.TriTrue
				case 1:
					opts.Bypass = types.TriFalse
				default:
					opts.Bypass = types.TriKeep
				}
				_, err := c.SetNode(ctx, opts)
				remaps := 0
				if err == nil {
					remaps = 1
				}
				return fmt.Sprintf("(OSetNode %s %s)", vh.Str(n), vh.Bool(err == nil)), nil, map[string]any{"node": n, "err": fmt.Sprint(err), "remaps": remaps}
			})
			count++
		case "remove-node":
			n := pick(rng, append(append([]string{}, liveNodes...), "nope"))
			fk := ""
			if failing {
				if p, ok := x.podOf[n]; ok {
					fk = "plock_" + p
				}
			}
			// prefer nodes without workloads: only those are really removed
			if rng(3) != 0 {
				busy := map[string]bool{}
				for _, nn := range nodeOf {
					busy[nn] = true
				}
				for _, nn := range liveNodes {
					if !busy[nn] {
						n = nn
						if _, ok := x.podOf[n]; ok && failing {
							fk = "plock_" + x.podOf[n]
						}
						break
					}
				}
			}
			x.run(t, r, kind, fk, nil, func() (string, []string, map[string]any) {
				err := c.RemoveNode(ctx, n)
				if err == nil {
					r.Count("remove-node:removed_empty_node")
					// put it back (possibly into another pod) so that the world stays populated
					p := pick(rng, x.pods)
					if e := x.w.AddNode(n, p, 8, 1<<30); e == nil {
						x.podOf[n] = p
					}
				}
				return fmt.Sprintf("(ORemoveNode %s)", vh.Str(n)), nil, map[string]any{"node": n, "err": fmt.Sprint(err)}
			})
			count++
		case "node-resource":
			n := pick(rng, append(append([]string{}, liveNodes...), "nope"))
			fk := ""
			if failing {
				if p, ok := x.podOf[n]; ok {
					fk = "plock_" + p
				}
			}
			x.run(t, r, kind, fk, nil, func() (string, []string, map[string]any) {
				_, err := c.NodeResource(ctx, n, rng(2) == 0)
				return fmt.Sprintf("(ONodeResource %s)", vh.Str(n)), nil, map[string]any{"node": n, "err": fmt.Sprint(err)}
			})
			count++
		case "pod-resource":
			pod := pick(rng, []string{"pa", "pb", "pc", "pz"})
			fk := ""
			if failing {
				fk = "plock_" + pod
			}
			x.run(t, r, kind, fk, nil, func() (string, []string, map[string]any) {
				ch, err := c.PodResource(ctx, pod)
				if err == nil {
					drain(ch)
				}
				return fmt.Sprintf("(OPodResource %s)", vh.Str(pod)), nil, map[string]any{"pod": pod, "err": fmt.Sprint(err)}
			})
			count++
		case "remove-saturated":
			// the remap pool (non-blocking ants pool) refuses the remap task of a remove: the remove must not
			// run the remap itself while it holds the pod lock.  The pool is shrunk to one worker and that
			// worker is kept busy; afterwards the refused remap is run the way the pool would have run it
			// (its own goroutine), so that the model's remove (main thread + one remap thread) is what happens
			if len(ids) == 0 {
				continue
			}
			id := pick(rng, ids)
			x.run(t, r, kind, "", map[string]any{"corpus": "saturated-remap-pool"}, func() (string, []string, map[string]any) {
				pool := calciumPool(c)
				pool.Tune(1)
				// occupy the one worker and every idle worker the pool still caches, until it refuses a task
				release := make(chan struct{})
				var perr error
				blockers := 0
				for ; blockers < 4000; blockers++ {
					started := make(chan struct{})
					if perr = pool.Invoke(func() { close(started); <-release }); perr != nil {
						break
					}
					<-started
				}
				// room for exactly the two tasks RemoveWorkload itself runs on the pool (the outer one and the one
				// per node); the third task - the remap - finds the pool full
				pool.Tune(pool.Running() + 2)
				// should a remap run nevertheless while the remove is in flight (i.e. inside the remove), give the pool
				// its size back at that moment: the remap's own pool task would otherwise never run
				var inline int32
				x.rec.setOnNodeOp(func() { atomic.StoreInt32(&inline, 1); pool.Tune(2000) })
				ch, err := c.RemoveWorkload(ctx, []string{id}, true)
				if err == nil {
					drain(ch)
				}
				x.rec.setOnNodeOp(nil)
				close(release)
				pool.Tune(2000)
				remaps := 0
				if err == nil && atomic.LoadInt32(&inline) == 0 {
					n := nodeOf[id]
					doneR := make(chan struct{})
					go func() {
						defer close(doneR)
						c.RemapResourceAndLog(ctx, log.WithFunc("verif.c20"), &types.Node{NodeMeta: types.NodeMeta{Name: n}})
					}()
					<-doneR
					remaps = 1
				}
				return "(ORemove @ORDER@)", []string{id}, map[string]any{"ids": []string{id}, "err": fmt.Sprint(err), "pool_saturated": perr != nil, "blockers": blockers, "remap_ran_inside_remove": atomic.LoadInt32(&inline) == 1, "remaps": remaps}
			})
			count++
		case "remap":
			n := pick(rng, append(append([]string{}, liveNodes...), "nope"))
			fk := ""
			if failing {
				if p, ok := x.podOf[n]; ok {
					fk = "cnode_op_" + p + "_" + n
				}
			}
			x.run(t, r, kind, fk, nil, func() (string, []string, map[string]any) {
				c.RemapResourceAndLog(ctx, log.WithFunc("verif.c20"), &types.Node{NodeMeta: types.NodeMeta{Name: n}})
				return fmt.Sprintf("(ORemap %s)", vh.Str(n)), nil, map[string]any{"node": n}
			})
			count++
		case "helper-nodes":
			nf := randFilter()
			nodeOp := rng(3) == 0
			fk := filterFailKey(nf)
			if nodeOp {
				fk = ""
			}
			helperNodes(nf, nodeOp, fk, nil)
		case "helper-workloads":
			arg := randIDs(rng, ids, true, true)
			fk := ""
			// with several ids a failing attempt makes doUnlockAll release the locks taken so far in
			// Go map order: the observed release order is passed to the model as its oracle
			if failing {
				fk = "clock_" + pick(rng, arg)
			}
			helperWls(arg, rng(5) == 0, fk, nil)
		}
	}
	return count
}
