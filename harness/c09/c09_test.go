// Package c09: correspondence driver for C09 (multi-plugin capacity
// aggregation) and for the cobalt half of C07 (saturating total).
//
// The real cobalt.Manager is loaded with 0..4 fake plugins whose
// GetNodesDeployCapacity answers are generated; every case is run several
// times (Go picks the iteration order of the answer map afresh each time, and
// the plugins are registered in a different order each time) and every
// observed result is emitted.
package c09

import (
	"context"
	"errors"
	"fmt"
	"math"
	"sort"
	"testing"
	"time"

	"verifharness/vh"

	"github.com/projecteru2/core/resource/cobalt"
	"github.com/projecteru2/core/resource/plugins"
	"github.com/projecteru2/core/resource/plugins/mocks"
	plugintypes "github.com/projecteru2/core/resource/plugins/types"
	resourcetypes "github.com/projecteru2/core/resource/types"
	coretypes "github.com/projecteru2/core/types"
)

type ndc = plugintypes.NodeDeployCapacity

// fake is a resource plugin that answers GetNodesDeployCapacity from a table.
// Every call returns a fresh copy (the manager may mutate what it is given).
type fake struct {
	*mocks.Plugin
	name string
	ans  map[string]ndc
	null bool // answer with a nil map
	// slow plugin: signals [entered], then waits for [release] before answering;
	// fail: answers with an error after the release (a plugin honouring its context)
	entered chan struct{}
	release chan struct{}
	fail    bool
}

var errSlow = errors.New("slow plugin gave up")

func (f *fake) Name() string { return f.name }
func (f *fake) GetNodesDeployCapacity(_ context.Context, _ []string, _ resourcetypes.RawParams) (*plugintypes.GetNodesDeployCapacityResponse, error) {
	if f.release != nil {
		close(f.entered)
		<-f.release
		if f.fail {
			return nil, errSlow
		}
	}
	if f.null {
		return &plugintypes.GetNodesDeployCapacityResponse{}, nil
	}
	m := map[string]*ndc{}
	for k, v := range f.ans {
		v := v
		m[k] = &v
	}
	return &plugintypes.GetNodesDeployCapacityResponse{NodeDeployCapacityMap: m}, nil
}

func coqNdc(v ndc) string {
	return fmt.Sprintf("(mkNdc %s %s %s %s)", vh.Z(int64(v.Capacity)), vh.F64(v.Usage), vh.F64(v.Rate), vh.F64(v.Weight))
}

func coqMap(m map[string]ndc) string {
	items := []string{}
	for _, k := range vh.SortedKeys(m) {
		items = append(items, vh.Pair(vh.Str(k), coqNdc(m[k])))
	}
	return vh.List(items)
}

type jsonNdc struct {
	Cap    int    `json:"cap"`
	Usage  string `json:"usage"`
	Rate   string `json:"rate"`
	Weight string `json:"weight"`
}

func descMap(m map[string]ndc) map[string]jsonNdc {
	r := map[string]jsonNdc{}
	for k, v := range m {
		r[k] = jsonNdc{v.Capacity, fmt.Sprint(v.Usage), fmt.Sprint(v.Rate), fmt.Sprint(v.Weight)}
	}
	return r
}

type obs struct {
	m     map[string]ndc
	total int
}

func runOnce(answers []map[string]ndc, order []int) obs {
	m, _ := cobalt.New(coretypes.Config{})
	ps := []plugins.Plugin{}
	for _, i := range order {
		ps = append(ps, &fake{name: fmt.Sprintf("p%d", i), ans: answers[i], null: answers[i] == nil})
	}
	m.AddPlugins(ps...)
	r, total, err := m.GetNodesDeployCapacity(context.Background(), []string{"n0", "n1", "n2", "n3", "n4"}, resourcetypes.Resources{})
	if err != nil {
		panic(err)
	}
	o := obs{m: map[string]ndc{}, total: total}
	for k, v := range r {
		o.m[k] = *v
	}
	return o
}

type gen struct{ r *vh.Run }

var nodeNames = []string{"n0", "n1", "n2", "n3", "n4"}

func (g gen) capacity() int {
	switch x := g.r.Rng.Intn(100); {
	case x < 60:
		return 1 + g.r.Rng.Intn(20)
	case x < 70:
		return 0
	case x < 85:
		return math.MaxInt64
	case x < 90:
		return math.MaxInt64 - 1 - g.r.Rng.Intn(5)
	case x < 95:
		return math.MaxInt64/2 + g.r.Rng.Intn(3)
	default:
		return 1 + g.r.Rng.Intn(1<<40)
	}
}

func (g gen) frac() float64 {
	switch x := g.r.Rng.Intn(100); {
	case x < 40:
		return float64(g.r.Rng.Intn(101)) / 100
	case x < 50:
		return 0
	case x < 60:
		return float64(g.r.Rng.Intn(9)) / 8 // dyadic
	case x < 70:
		return 1
	default:
		return g.r.Rng.Float64() * 1.5
	}
}

func (g gen) weight() float64 {
	switch x := g.r.Rng.Intn(100); {
	case x < 35:
		return 1
	case x < 60:
		return 100
	case x < 75:
		return float64(1 + g.r.Rng.Intn(10))
	case x < 85:
		return 0.5
	default:
		return g.r.Rng.Float64()*10 + 0.001
	}
}

func (g gen) answers(n int, sameWeightPerPlugin bool) []map[string]ndc {
	as := make([]map[string]ndc, n)
	nNodes := 1 + g.r.Rng.Intn(len(nodeNames))
	for i := range as {
		as[i] = map[string]ndc{}
		w := g.weight()
		dropP := 0
		if g.r.Rng.Intn(3) == 0 {
			dropP = 30
		}
		for _, nn := range nodeNames[:nNodes] {
			if g.r.Rng.Intn(100) < dropP {
				continue
			}
			if !sameWeightPerPlugin && g.r.Rng.Intn(4) == 0 {
				w = g.weight()
			}
			as[i][nn] = ndc{Capacity: g.capacity(), Usage: g.frac(), Rate: g.frac(), Weight: w}
		}
	}
	return as
}

func TestC09(t *testing.T) {
	prop := vh.PropEnv("C09")
	r := vh.New(t, prop, "merge")
	okFn := "Merge.ok"
	r.Coq("From Verif Require Import Base.GoFloat Cobalt.Merge.\nClose Scope Z_scope.", "Merge.case", "Merge.agree", okFn)
	g := gen{r}
	r.Shard = 90
	runs := 8

	emit := func(kind string, answers []map[string]ndc, malformed bool) {
		n := len(answers)
		var observed []obs
		for k := 0; k < runs; k++ {
			order := r.Rng.Perm(n)
			if k == 0 {
				for i := range order {
					order[i] = i
				}
			}
			observed = append(observed, runOnce(answers, order))
			if n == 0 {
				break
			}
		}
		// distinct observations only (the model side checks each)
		coqAns := []string{}
		descAns := []any{}
		unlimited, nearmax := false, false
		for _, a := range answers {
			coqAns = append(coqAns, coqMap(a))
			descAns = append(descAns, descMap(a))
			for _, v := range a {
				if v.Capacity == math.MaxInt64 {
					unlimited = true
				} else if v.Capacity > math.MaxInt64/4 {
					nearmax = true
				}
			}
		}
		seen := map[string]bool{}
		coqObs := []string{}
		descObs := []any{}
		offered := 0
		for _, o := range observed {
			s := vh.Pair(coqMap(o.m), vh.Z(int64(o.total)))
			if !seen[s] {
				seen[s] = true
				coqObs = append(coqObs, s)
				descObs = append(descObs, map[string]any{"map": descMap(o.m), "total": o.total})
			}
			offered = len(o.m)
		}
		term := fmt.Sprintf("(mkCase %s %s)", vh.List(coqAns), vh.List(coqObs))
		r.Count(fmt.Sprintf("plugins=%d", n))
		r.Count(fmt.Sprintf("distinct_results=%d", len(coqObs)))
		r.Count(fmt.Sprintf("offered=%d", offered))
		r.Count("kind=" + kind)
		if unlimited {
			r.Count("has_unlimited")
		}
		if nearmax {
			r.Count("has_near_max")
		}
		r.Add(term, map[string]any{"kind": kind, "answers": descAns, "observed": descObs},
			map[string]any{"plugins": n, "malformed": malformed, "kind": kind}, n >= 2 && offered > 0)
	}

	// ---- corpus ----
	emit("corpus", nil, false) // no plugin at all
	// the witnesses of the two repaired defects
	emit("corpus", []map[string]ndc{{"n1": {Capacity: 3, Usage: 0.5, Rate: 0.1, Weight: 100}}}, false)
	emit("corpus", []map[string]ndc{
		{"n1": {Capacity: math.MaxInt64, Usage: 0.5, Rate: 0.1, Weight: 100}, "n2": {Capacity: 7, Usage: 0.5, Rate: 0.1, Weight: 100}},
		{"n1": {Capacity: math.MaxInt64, Usage: 0.25, Rate: 0.2, Weight: 1}, "n2": {Capacity: 9, Usage: 0.25, Rate: 0.2, Weight: 1}}}, false)
	// finite capacities whose sum exceeds MaxInt64
	emit("corpus", []map[string]ndc{{"n0": {Capacity: math.MaxInt64 - 1, Usage: 0.5, Rate: 0.1, Weight: 1}, "n1": {Capacity: 5, Usage: 0.5, Rate: 0.1, Weight: 1}, "n2": {Capacity: math.MaxInt64/2 + 1, Usage: 0, Rate: 0, Weight: 1}}}, false)
	// one plugin answers with a nil map / an empty map
	emit("corpus", []map[string]ndc{nil, {"n0": {Capacity: 1, Usage: 0.5, Rate: 0.5, Weight: 1}}}, false)
	emit("corpus", []map[string]ndc{{}, {"n0": {Capacity: 1, Usage: 0.5, Rate: 0.5, Weight: 1}}}, false)
	// disjoint offers
	emit("corpus", []map[string]ndc{{"n0": {Capacity: 1, Usage: 0.5, Rate: 0.5, Weight: 1}}, {"n1": {Capacity: 1, Usage: 0.5, Rate: 0.5, Weight: 1}}}, false)
	// three plugins whose float sum depends on the association
	emit("corpus", []map[string]ndc{
		{"n0": {Capacity: 4, Usage: 0.1, Rate: 0.1, Weight: 1}},
		{"n0": {Capacity: 2, Usage: 0.2, Rate: 0.7, Weight: 1}},
		{"n0": {Capacity: 3, Usage: 0.3, Rate: 0.3, Weight: 1}}}, false)
	// zero-capacity entries are not filtered by the manager (plugins do that)
	emit("corpus", []map[string]ndc{{"n0": {Capacity: 0, Usage: 0.5, Rate: 0.5, Weight: 1}, "n1": {Capacity: 2, Usage: 0.5, Rate: 0.5, Weight: 1}}}, false)

	// ---- structured random cases ----
	n := r.N(240, 3000)
	for i := 0; i < n; i++ {
		var np int
		switch x := r.Rng.Intn(100); {
		case x < 12:
			np = 1
		case x < 55:
			np = 2
		case x < 93:
			np = 3
		default:
			np = 4
		}
		emit("random", g.answers(np, r.Rng.Intn(3) > 0), false)
	}

	// ---- malformed stream: zero / negative weights, non-finite values, negative capacity (single node) ----
	nm := r.N(30, 400)
	for i := 0; i < nm; i++ {
		np := 1 + r.Rng.Intn(3)
		as := g.answers(np, true)
		kind := r.Rng.Intn(4)
		for _, a := range as {
			keys := make([]string, 0, len(a))
			for k := range a {
				keys = append(keys, k)
			}
			sort.Strings(keys)
			for _, k := range keys {
				v := a[k]
				switch kind {
				case 0:
					if r.Rng.Intn(2) == 0 {
						v.Weight = 0
					}
				case 1:
					if r.Rng.Intn(2) == 0 {
						v.Weight = -v.Weight
					}
				case 2:
					switch r.Rng.Intn(4) {
					case 0:
						v.Usage = math.Inf(1)
					case 1:
						v.Rate = math.NaN()
					case 2:
						v.Usage = -v.Usage
					}
				case 3:
					v.Capacity = -1 - r.Rng.Intn(5)
				}
				a[k] = v
			}
		}
		if kind == 3 { // keep a single node so that the totalling order cannot matter
			for _, a := range as {
				for k := range a {
					if k != "n0" {
						delete(a, k)
					}
				}
			}
		}
		emit("malformed", as, true)
	}
	r.Finish("corpus (defect witnesses, nil/empty/disjoint answers, overflowing finite sums), then random answer sets of 1-4 plugins over up to 5 nodes (capacities small / 0 / MaxInt64 / near MaxInt64; usage, rate on the 1/100 grid, dyadic or random; weights 1, 100, small integers, 0.5, random), each run 8 times with shuffled plugin registration; then malformed answers (zero or negative weight, Inf/NaN/negative usage, negative capacity). non-trivial = at least two plugins and at least one node offered")

	// ---- fan-out (cobalt/call.go): one plugin is still answering when the caller's context ends ----
	rc := vh.New(t, prop, "call")
	rc.Coq("From Verif Require Import Base.GoFloat Cobalt.Merge.\nClose Scope Z_scope.", "Merge.ccase", "Merge.agree_call", "Merge.ok_call")
	gc := gen{rc}
	emitSlow := func(kind string, answers []map[string]ndc, slow int, fail bool, how string) {
		m, _ := cobalt.New(coretypes.Config{})
		entered, release := make(chan struct{}), make(chan struct{})
		ps := []plugins.Plugin{}
		for i := range answers {
			f := &fake{name: fmt.Sprintf("p%d", i), ans: answers[i]}
			if i == slow {
				f.entered, f.release, f.fail = entered, release, fail
			}
			ps = append(ps, f)
		}
		m.AddPlugins(ps...)
		ctx, cancel := context.WithCancel(context.Background())
		if how == "deadline" {
			ctx, cancel = context.WithTimeout(context.Background(), 30*time.Millisecond)
		}
		defer cancel()
		type out struct {
			m     map[string]*ndc
			total int
			err   error
		}
		done := make(chan out, 1)
		go func() {
			res, total, err := m.GetNodesDeployCapacity(ctx, []string{"n0", "n1", "n2", "n3", "n4"}, resourcetypes.Resources{})
			done <- out{res, total, err}
		}()
		<-entered // the slow plugin is inside its call; the others answer at once
		time.Sleep(20 * time.Millisecond)
		if how == "cancel" {
			cancel()
		} else {
			<-ctx.Done()
		}
		early := false
		var o out
		select {
		case o = <-done: // the manager returned although one plugin has not answered yet
			early = true
			close(release)
		case <-time.After(250 * time.Millisecond):
			close(release)
			o = <-done
		}
		coqAns := []string{}
		descAns := []any{}
		for i, a := range answers {
			if i == slow && fail {
				coqAns = append(coqAns, "None")
				descAns = append(descAns, "error")
			} else {
				coqAns = append(coqAns, vh.Some(coqMap(a)))
				descAns = append(descAns, descMap(a))
			}
		}
		obsTerm := "None"
		var obsDesc any = "error"
		if o.err == nil {
			res := map[string]ndc{}
			for k, v := range o.m {
				res[k] = *v
			}
			obsTerm = vh.Some(vh.Pair(coqMap(res), vh.Z(int64(o.total))))
			obsDesc = map[string]any{"map": descMap(res), "total": o.total}
		}
		rc.Count("kind=" + kind)
		rc.Count("context=" + how)
		rc.Count(fmt.Sprintf("slow_fails=%v", fail))
		rc.Count(fmt.Sprintf("returned_early=%v", early))
		rc.Count(fmt.Sprintf("plugins=%d", len(answers)))
		rc.Add(fmt.Sprintf("(mkCCase %s %s %s)", vh.List(coqAns), vh.Bool(early), obsTerm),
			map[string]any{"answers": descAns, "slow": slow, "slow_fails": fail, "context": how, "returned_early": early, "observed": obsDesc},
			map[string]any{"kind": kind, "plugins": len(answers), "slow_fails": fail}, !fail)
	}
	two := []map[string]ndc{
		{"n1": {Capacity: 5, Usage: 0.5, Rate: 0.1, Weight: 100}, "n2": {Capacity: 7, Usage: 0.5, Rate: 0.1, Weight: 100}},
		{"n1": {Capacity: 2, Usage: 0.25, Rate: 0.2, Weight: 1}}}
	emitSlow("corpus", two, 1, false, "cancel") // the slow plugin would lower n1 to 2 and drop n2
	emitSlow("corpus", two, 1, false, "deadline")
	emitSlow("corpus", two, 0, false, "cancel")
	emitSlow("corpus", two, 1, true, "cancel") // the slow plugin gives up with an error: the whole call must fail
	nc := rc.N(12, 120)
	for i := 0; i < nc; i++ {
		np := 2 + gc.r.Rng.Intn(3)
		emitSlow("random", gc.answers(np, true), gc.r.Rng.Intn(np), (gc.r.Rng.Float64() < 0.3), []string{"cancel", "deadline"}[gc.r.Rng.Intn(2)])
	}
	rc.Finish("2-4 fake plugins; one of them blocks inside GetNodesDeployCapacity on a channel the harness controls; the caller's context is cancelled (or its 30 ms deadline passes) while it is blocked; the harness waits 250 ms for an early return, then releases the plugin (which answers, or fails in 30% of the cases). non-trivial = the slow plugin answers")
}
