package c08

// C32 end to end: calcium's engine push of the remapped cpu maps
// (cluster/calcium/remap.go:doRemapResource) in the "calcium world"
// (harness/cw: real Calcium, embedded etcd, real cpumem plugin, stateful fake
// engine).  A node is filled with unbound and bound workloads through
// Calcium.CreateWorkload; then an operation that changes cpu binding (create /
// remove of a bound workload) triggers calcium's asynchronous remap, optionally
// with the engine update of one unbound workload made to fail.  The cpu maps on
// the fake engine's containers are read before and after.

import (
	"encoding/json"
	"fmt"
	"sort"
	"testing"

	"verifharness/cw"
	"verifharness/vh"

	ctypes "github.com/projecteru2/core/resource/plugins/cpumem/types"
	resourcetypes "github.com/projecteru2/core/resource/types"
	coretypes "github.com/projecteru2/core/types"
)

func cwDeploy(pod string, count int, res resourcetypes.RawParams) *coretypes.DeployOptions {
	return &coretypes.DeployOptions{
		Name: "app", Entrypoint: &coretypes.Entrypoint{Name: "web"}, Podname: pod, Image: "img",
		Count: count, DeployStrategy: "AUTO", NodeFilter: &coretypes.NodeFilter{Podname: pod},
		Resources: resourcetypes.Resources{pluginName: res},
	}
}

func cwCreate(w *cw.World, opts *coretypes.DeployOptions) ([]string, error) {
	ch, err := w.C.CreateWorkload(w.Ctx, opts)
	if err != nil {
		return nil, err
	}
	ids := []string{}
	var first error
	for m := range ch {
		if m.Error != nil {
			if first == nil {
				first = m.Error
			}
			continue
		}
		ids = append(ids, m.WorkloadID)
	}
	return ids, first
}

// cpu maps currently set on the containers, by workload id
func engineMaps(w *cw.World) map[string]map[string]int {
	out := map[string]map[string]int{}
	for _, c := range w.Hub.Containers() {
		ep := &ctypes.EngineParams{}
		b, _ := json.Marshal(c.Params[pluginName])
		_ = json.Unmarshal(b, ep)
		out[c.ID] = map[string]int(ep.CPUMap)
	}
	return out
}

func coqEngine(ids []string, m map[string]map[string]int) string {
	items := []string{}
	for i, id := range ids {
		if cm, ok := m[id]; ok {
			items = append(items, vh.Pair(vh.Nat(i), zmap(cm)))
		}
	}
	return vh.List(items)
}

func TestC32E(t *testing.T) {
	r := vh.New(t, vh.PropEnv("C32"), "push")
	r.Coq("From Verif Require Import Base.GoFloat Cpumem.Types Cpumem.Node Cobalt.RemapPush.\nClose Scope Z_scope.", "RemapPush.pushcase", "RemapPush.agree_push", "RemapPush.ok_push")
	g := gen{r}

	emit := func(kind string, ncpu int, nUnbound, nBound int, trigger string, fault bool) {
		guarded(r, func() {
			w := cw.New(t, cw.Options{})
			if err := w.AddPod("p1"); err != nil {
				checkInfra(err)
				t.Fatalf("AddPod: %v", err)
			}
			if err := w.AddNode("n1", "p1", ncpu, 100000); err != nil {
				checkInfra(err)
				t.Fatalf("AddNode: %v", err)
			}
			unbound := resourcetypes.RawParams{"cpu-request": 0.5, "cpu-limit": 0.5, "memory-request": int64(100), "memory-limit": int64(100)}
			bound := func(cpu float64) resourcetypes.RawParams {
				return resourcetypes.RawParams{"cpu-bind": true, "cpu-request": cpu, "cpu-limit": cpu, "memory-request": int64(100), "memory-limit": int64(100)}
			}
			w.Hub.SetOp(1)
			if _, err := cwCreate(w, cwDeploy("p1", nUnbound, unbound)); err != nil {
				checkInfra(err)
				t.Fatalf("create unbound: %v", err)
			}
			w.Quiesce()
			var boundIDs []string
			if nBound > 0 {
				w.Hub.SetOp(2)
				ids, err := cwCreate(w, cwDeploy("p1", nBound, bound(1)))
				checkInfra(err)
				boundIDs = ids
				w.Quiesce()
			}
			before := engineMaps(w)
			// the unbound workloads, to pick the one whose engine update fails
			unboundIDs := []string{}
			for _, c := range w.Hub.Containers() {
				if c.Op == 1 {
					unboundIDs = append(unboundIDs, c.ID)
				}
			}
			w.IC.Reset()
			failed := ""
			if fault && len(unboundIDs) > 0 {
				failed = unboundIDs[g.intn(len(unboundIDs))]
				w.IC.FaultBackground = true
				w.IC.SetFault(&cw.Addr{Method: "VirtualizationUpdateResource", Target: failed, Ord: 0})
			}
			// the operation that changes cpu binding
			w.Hub.SetOp(3)
			switch trigger {
			case "create-bound":
				_, err := cwCreate(w, cwDeploy("p1", 1, bound(1)))
				checkInfra(err)
			case "remove-bound":
				if len(boundIDs) > 0 {
					ch, err := w.C.RemoveWorkload(w.Ctx, boundIDs[:1], true)
					checkInfra(err)
					if err == nil {
						for range ch {
						}
					}
				}
			case "create-fraction":
				_, err := cwCreate(w, cwDeploy("p1", 1, bound(0.5)))
				checkInfra(err)
			}
			w.Quiesce()
			w.IC.FaultBackground = false
			if failed != "" {
				if _, hit := w.IC.FaultHit(); !hit {
					failed = "" // the remap did not touch it (no remap ran): nothing failed
				}
			}
			after := engineMaps(w)
			// containers created by the triggering operation itself (bound workloads): their cpu map
			// before the remap is the one they were created with
			for id, cm := range after {
				if _, ok := before[id]; !ok {
					before[id] = cm
				}
			}
			// recorded workloads and the plugin's record
			wls, err := w.RawStore.ListNodeWorkloads(w.Ctx, "n1", nil)
			if err != nil {
				checkInfra(err)
				t.Fatalf("ListNodeWorkloads: %v", err)
			}
			sort.Slice(wls, func(i, j int) bool { return wls[i].ID < wls[j].ID })
			ids := make([]string, len(wls))
			wsTerms := make([]string, len(wls))
			wsDesc := []any{}
			failedPos := []int{}
			for i, wl := range wls {
				ids[i] = wl.ID
				wr := parseWR(wl.Resources[pluginName])
				wsTerms[i] = vh.Pair(vh.Nat(i), coqWR(wr))
				wsDesc = append(wsDesc, map[string]any{"pos": i, "id": w.Hub.CanonSeq, "resource": wr})
				if wl.ID == failed {
					failedPos = append(failedPos, i)
				}
			}
			capR, usageR, _, err := w.RawRmgr.GetNodeResourceInfo(w.Ctx, "n1", wls, false)
			if err != nil {
				checkInfra(err)
				t.Fatalf("GetNodeResourceInfo: %v", err)
			}
			capacity, usage := &ctypes.NodeResource{}, &ctypes.NodeResource{}
			if err := capacity.Parse(capR[pluginName]); err != nil {
				panic(err)
			}
			if err := usage.Parse(usageR[pluginName]); err != nil {
				panic(err)
			}
			term := fmt.Sprintf("(mkPushCase %s (mkNI %s %s) %s %s %s %s)", vh.Z(int64(w.Cfg.Scheduler.ShareBase)), coqNR(capacity), coqNR(usage),
				vh.List(wsTerms), coqEngine(ids, before), natList(failedPos), coqEngine(ids, after))
			for i := range wsDesc {
				wsDesc[i].(map[string]any)["id"] = ids[i]
			}
			r.Count("kind=" + kind)
			r.Count("trigger=" + trigger)
			r.Count(fmt.Sprintf("engine_fault=%v", len(failedPos) > 0))
			r.Add(term, map[string]any{"cores": ncpu, "unbound": nUnbound, "bound": nBound, "trigger": trigger, "failed": failed,
				"workloads": wsDesc, "engine_before": before, "engine_after": after, "usage": usage},
				map[string]any{"kind": kind, "engine_fault": len(failedPos) > 0, "trigger": trigger}, len(wls) >= 2)
		})
	}

	// corpus: a bound workload arrives and takes a core away from the unbound ones; the same with one
	// engine update failing (three times: the failing workload must not always be the last one iterated)
	emit("corpus", 4, 3, 0, "create-bound", false)
	for i := 0; i < 3; i++ {
		emit("corpus", 4, 4, 1, "create-bound", true)
	}
	emit("corpus", 4, 3, 2, "remove-bound", false)
	emit("corpus", 2, 2, 1, "create-bound", false) // the node becomes full of bound workloads: all cores shared again
	n := r.N(10, 150)
	for i := 0; i < n; i++ {
		ncpu := 2 + g.intn(5)
		trig := []string{"create-bound", "remove-bound", "create-fraction"}[g.intn(3)]
		emit("random", ncpu, 2+g.intn(4), g.intn(ncpu), trig, g.chance(0.5))
	}
	r.Finish("calcium world: one node of 2-6 cores with 2-5 unbound and 0..cores-1 bound workloads created through Calcium.CreateWorkload; trigger = create of a bound workload (1 or 0.5 cpu) or removal of a bound workload; in half of the cases the engine update of one unbound workload is made to fail; cpu maps of the containers read before and after calcium's asynchronous remap. non-trivial = at least two recorded workloads")
}
