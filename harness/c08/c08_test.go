// Package c08: history driver for the cpumem bookkeeping properties.
//
// Histories of alloc / rollback-alloc / realloc / rollback-realloc / release run
// through the real cobalt.Manager with the real cpumem plugin on an embedded
// etcd.  After every operation the harness reads the node back with
// Manager.GetNodeResourceInfo (usage + diffs against the live workloads) and
// asks Manager.Remap for the cpu maps of the live workloads.  The same driver
// decides C08 (bookkeeping), C32 (remap) and C33 (keep-bind realloc); VERIF_PROP
// selects the Coq agree/ok functions.
package c08

import (
	"context"
	"encoding/json"
	"errors"
	"fmt"
	"sort"
	"strings"
	"testing"
	"time"

	"verifharness/vh"

	enginetypes "github.com/projecteru2/core/engine/types"
	"github.com/projecteru2/core/resource/cobalt"
	"github.com/projecteru2/core/resource/plugins"
	"github.com/projecteru2/core/resource/plugins/cpumem"
	ctypes "github.com/projecteru2/core/resource/plugins/cpumem/types"
	"github.com/projecteru2/core/resource/plugins/mocks"
	plugintypes "github.com/projecteru2/core/resource/plugins/types"
	resourcetypes "github.com/projecteru2/core/resource/types"
	coretypes "github.com/projecteru2/core/types"
)

const pluginName = "cpumem"

// ---------- Coq printers ----------
func str(x string) string {
	for i := 0; i < len(x); i++ {
		c := x[i]
		if !(c >= '0' && c <= '9' || c >= 'a' && c <= 'z' || c >= 'A' && c <= 'Z' || c == '_' || c == '-') {
			return vh.Str(x)
		}
	}
	return "\"" + x + "\"%string"
}
func zmap(m map[string]int) string {
	ks := vh.SortedKeys(m)
	it := make([]string, len(ks))
	for i, k := range ks {
		it[i] = vh.Pair(str(k), vh.Z(int64(m[k])))
	}
	return vh.List(it)
}
func zmap64(m map[string]int64) string {
	ks := vh.SortedKeys(m)
	it := make([]string, len(ks))
	for i, k := range ks {
		it[i] = vh.Pair(str(k), vh.Z(m[k]))
	}
	return vh.List(it)
}
func smap(m map[string]string) string {
	ks := vh.SortedKeys(m)
	it := make([]string, len(ks))
	for i, k := range ks {
		it[i] = vh.Pair(str(k), str(m[k]))
	}
	return vh.List(it)
}
func coqNR(r *ctypes.NodeResource) string {
	return fmt.Sprintf("(mkNR %s %s %s %s %s)", vh.F64(r.CPU), zmap(r.CPUMap), vh.Z(r.Memory), zmap64(r.NUMAMemory), smap(r.NUMA))
}
func coqWR(w *ctypes.WorkloadResource) string {
	return fmt.Sprintf("(mkWR %s %s %s %s %s %s %s)", vh.F64(w.CPURequest), vh.F64(w.CPULimit), vh.Z(w.MemoryRequest), vh.Z(w.MemoryLimit),
		zmap(w.CPUMap), zmap64(w.NUMAMemory), str(w.NUMANode))
}
func coqReq(r *ctypes.WorkloadResourceRequest) string {
	return fmt.Sprintf("(mkReq %s %s %s %s %s %s)", vh.Bool(r.CPUBind), vh.Bool(r.KeepCPUBind), vh.F64(r.CPURequest), vh.F64(r.CPULimit), vh.Z(r.MemRequest), vh.Z(r.MemLimit))
}
func natList(xs []int) string {
	it := make([]string, len(xs))
	for i, x := range xs {
		it[i] = vh.Nat(x)
	}
	return vh.List(it)
}

// ---------- a second plugin that can be told to fail ----------
// faulty answers every call with an empty response; the harness can make its
// next CalculateDeploy / CalculateRealloc (failCalc) or SetNodeResourceUsage
// (failCommit) return an error, which exercises the manager's error paths.
type faulty struct {
	*mocks.Plugin
	failCalc   bool
	failCommit bool
	commits    int
}

var errInjected = errors.New("injected plugin failure")

func (f *faulty) Name() string { return "faulty" }
func (f *faulty) AddNode(context.Context, string, resourcetypes.RawParams, *enginetypes.Info) (*plugintypes.AddNodeResponse, error) {
	return &plugintypes.AddNodeResponse{}, nil
}
func (f *faulty) RemoveNode(context.Context, string) (*plugintypes.RemoveNodeResponse, error) {
	return &plugintypes.RemoveNodeResponse{}, nil
}
func (f *faulty) CalculateDeploy(_ context.Context, _ string, count int, _ resourcetypes.RawParams) (*plugintypes.CalculateDeployResponse, error) {
	if f.failCalc {
		return nil, errInjected
	}
	r := &plugintypes.CalculateDeployResponse{}
	for i := 0; i < count; i++ {
		r.EnginesParams = append(r.EnginesParams, resourcetypes.RawParams{})
		r.WorkloadsResource = append(r.WorkloadsResource, resourcetypes.RawParams{})
	}
	return r, nil
}
func (f *faulty) CalculateRealloc(context.Context, string, resourcetypes.RawParams, resourcetypes.RawParams) (*plugintypes.CalculateReallocResponse, error) {
	if f.failCalc {
		return nil, errInjected
	}
	return &plugintypes.CalculateReallocResponse{EngineParams: resourcetypes.RawParams{}, DeltaResource: resourcetypes.RawParams{}, WorkloadResource: resourcetypes.RawParams{}}, nil
}

// CalculateRemap: engine params of its own for every workload it is asked about
func (f *faulty) CalculateRemap(_ context.Context, _ string, ws map[string]resourcetypes.RawParams) (*plugintypes.CalculateRemapResponse, error) {
	m := map[string]resourcetypes.RawParams{}
	for id := range ws {
		m[id] = resourcetypes.RawParams{"faulty-tag": id}
	}
	return &plugintypes.CalculateRemapResponse{EngineParamsMap: m}, nil
}
func (f *faulty) SetNodeResourceUsage(context.Context, string, resourcetypes.RawParams, resourcetypes.RawParams, []resourcetypes.RawParams, bool, bool) (*plugintypes.SetNodeResourceUsageResponse, error) {
	f.commits++
	if f.failCommit {
		return nil, errInjected
	}
	return &plugintypes.SetNodeResourceUsageResponse{}, nil
}
func (f *faulty) GetNodeResourceInfo(context.Context, string, []resourcetypes.RawParams) (*plugintypes.GetNodeResourceInfoResponse, error) {
	return &plugintypes.GetNodeResourceInfoResponse{}, nil
}
func (f *faulty) FixNodeResource(context.Context, string, []resourcetypes.RawParams) (*plugintypes.GetNodeResourceInfoResponse, error) {
	return &plugintypes.GetNodeResourceInfoResponse{}, nil
}

// ---------- infrastructure flakes ----------
// The embedded etcd can time out when the machine is overloaded.  Such an error
// says nothing about the code under test: the current case is abandoned (not
// emitted) instead of being recorded as an outcome.
type infraErr struct{ err error }

func isInfra(err error) bool {
	if err == nil {
		return false
	}
	m := err.Error()
	return strings.Contains(m, "request timed out") || strings.Contains(m, "context deadline exceeded") ||
		strings.Contains(m, "too many requests") || strings.Contains(m, "leader changed")
}

func checkInfra(err error) {
	if isInfra(err) {
		panic(infraErr{err})
	}
}

// guarded runs one case; an infrastructure flake abandons it
func guarded(r *vh.Run, f func()) {
	defer func() {
		if x := recover(); x != nil {
			if _, ok := x.(infraErr); ok {
				r.Count("abandoned=infrastructure")
				return
			}
			panic(x)
		}
	}()
	f()
}

// ---------- the world ----------
type world struct {
	t     *testing.T
	ctx   context.Context
	mgr   *cobalt.Manager
	pl    *cpumem.Plugin
	fault *faulty // nil unless created with newFaultyWorld
	base  int
	seq   int
}

// newFaultyWorld: the manager has the real cpumem plugin and the scriptable faulty plugin
func newFaultyWorld(t *testing.T, base, maxShare int) *world {
	w := newWorld(t, base, maxShare)
	w.fault = &faulty{}
	w.mgr.AddPlugins(w.fault)
	return w
}

func newWorld(t *testing.T, base, maxShare int) *world {
	ctx := context.Background()
	cfg := coretypes.Config{
		Etcd:          coretypes.EtcdConfig{Prefix: "/verif-c08"},
		Scheduler:     coretypes.SchedulerConfig{MaxShare: maxShare, ShareBase: base},
		GlobalTimeout: 30 * time.Second,
	}
	pl, err := cpumem.NewPlugin(ctx, cfg, t)
	if err != nil {
		t.Fatalf("NewPlugin: %v", err)
	}
	mgr, _ := cobalt.New(cfg)
	mgr.AddPlugins(pl)
	return &world{t: t, ctx: ctx, mgr: mgr, pl: pl, base: base}
}

// live workload as the caller (calcium's store) keeps it
type workload struct {
	id  string
	res resourcetypes.Resources // {"cpumem": raw workload resource}
}

// roundTrip sends the resources through JSON as calcium's store does
func roundTrip(r resourcetypes.Resources) resourcetypes.Resources {
	b, err := json.Marshal(r)
	if err != nil {
		panic(err)
	}
	out := resourcetypes.Resources{}
	if err := json.Unmarshal(b, &out); err != nil {
		panic(err)
	}
	return out
}

func parseWR(raw resourcetypes.RawParams) *ctypes.WorkloadResource {
	w := &ctypes.WorkloadResource{}
	if err := w.Parse(raw); err != nil {
		panic(err)
	}
	return w
}

type nodeSpec struct {
	cores    int
	share    int
	memory   int64
	numa     [][]string // cpu ids per NUMA node
	numaMem  []int64
	describe string
}

func (w *world) addNode(spec nodeSpec) string {
	w.seq++
	name := fmt.Sprintf("node%d", w.seq)
	req := resourcetypes.RawParams{"cpu": spec.cores, "share": spec.share, "memory": spec.memory}
	if len(spec.numa) > 0 {
		cpus := []string{}
		mems := []string{}
		for i, l := range spec.numa {
			cpus = append(cpus, strings.Join(l, ","))
			mems = append(mems, fmt.Sprint(spec.numaMem[i]))
		}
		req["numa-cpu"] = cpus
		req["numa-memory"] = mems
	}
	if _, err := w.mgr.AddNode(w.ctx, name, resourcetypes.Resources{pluginName: req}, nil); err != nil {
		checkInfra(err)
		w.t.Fatalf("AddNode: %v", err)
	}
	return name
}

type diffs struct {
	cpu   bool
	cores []string
	numa  []string
	mem   bool
	other int
}

func (d diffs) coq() string {
	return fmt.Sprintf("(mkDiffs %s %s %s %s)", vh.Bool(d.cpu), strs(d.cores), strs(d.numa), vh.Bool(d.mem))
}
func strs(xs []string) string {
	it := make([]string, len(xs))
	for i, x := range xs {
		it[i] = str(x)
	}
	return vh.List(it)
}

func between(s, a, b string) string {
	i := strings.Index(s, a)
	if i < 0 {
		return ""
	}
	s = s[i+len(a):]
	j := strings.Index(s, b)
	if j < 0 {
		return ""
	}
	return s[:j]
}

func classify(lines []string) diffs {
	d := diffs{}
	for _, l := range lines {
		switch {
		case strings.HasPrefix(l, "node.CPUUsed"):
			d.cpu = true
		case strings.HasPrefix(l, "node.CPUMap["):
			d.cores = append(d.cores, between(l, "node.CPUMap[", "]"))
		case strings.HasPrefix(l, "node.NUMAMemory["):
			d.numa = append(d.numa, between(l, "node.NUMAMemory[", "]"))
		case strings.HasPrefix(l, "node.MemoryUsed"):
			d.mem = true
		default:
			d.other++
		}
	}
	sort.Strings(d.cores)
	sort.Strings(d.numa)
	return d
}

func (w *world) coreWorkloads(live []*workload) []*coretypes.Workload {
	ws := make([]*coretypes.Workload, len(live))
	for i, l := range live {
		ws[i] = &coretypes.Workload{ID: l.id, Resources: l.res}
	}
	return ws
}

// read the node back: capacity, usage, diffs against the live set
func (w *world) read(node string, live []*workload) (*ctypes.NodeResource, *ctypes.NodeResource, diffs) {
	before := make([]string, len(live))
	for i, l := range live {
		before[i] = coqWR(parseWR(l.res[pluginName]))
	}
	capR, usageR, lines, err := w.mgr.GetNodeResourceInfo(w.ctx, node, w.coreWorkloads(live), false)
	if err != nil {
		checkInfra(err)
		w.t.Fatalf("GetNodeResourceInfo: %v", err)
	}
	capacity, usage := &ctypes.NodeResource{}, &ctypes.NodeResource{}
	if err := capacity.Parse(capR[pluginName]); err != nil {
		panic(err)
	}
	if err := usage.Parse(usageR[pluginName]); err != nil {
		panic(err)
	}
	d := classify(lines)
	// the caller's workloads must not be mutated by the check (WorkloadResource.Add aliases NUMAMemory)
	for i, l := range live {
		if coqWR(parseWR(l.res[pluginName])) != before[i] {
			d.other += 1000
		}
	}
	return capacity, usage, d
}

// cpu maps handed out by Manager.Remap, by position in the live list
func (w *world) remap(node string, live []*workload) (string, []map[string]any, bool) {
	r, err := w.mgr.Remap(w.ctx, node, w.coreWorkloads(live))
	if err != nil {
		checkInfra(err)
		w.t.Fatalf("Remap: %v", err)
	}
	items := []string{}
	desc := []map[string]any{}
	bad := false
	expected := 0
	for i, l := range live {
		res, ok := r[l.id]
		if w.fault != nil {
			// the second plugin answers for every workload: its entry must survive the merge
			if !ok || res["faulty"] == nil || res["faulty"]["faulty-tag"] != l.id {
				bad = true
			}
		}
		if !ok || res[pluginName] == nil {
			continue // no cpumem engine params for this workload: not remapped
		}
		expected++
		ep := &ctypes.EngineParams{}
		raw := res[pluginName]
		b, _ := json.Marshal(raw)
		if err := json.Unmarshal(b, ep); err != nil {
			panic(err)
		}
		orig := parseWR(l.res[pluginName])
		if !ep.Remap || ep.CPU != orig.CPULimit || ep.Memory != orig.MemoryLimit || ep.NUMANode != orig.NUMANode {
			bad = true
		}
		items = append(items, vh.Pair(vh.Nat(i), zmap(ep.CPUMap)))
		desc = append(desc, map[string]any{"pos": i, "cpu_map": ep.CPUMap})
	}
	if w.fault == nil && len(r) != expected {
		bad = true
	}
	if len(r) > len(live) {
		bad = true
	}
	return vh.List(items), desc, bad
}

// ---------- generators ----------
type gen struct{ r *vh.Run }

func (g gen) intn(n int) int        { return g.r.Rng.Intn(n) }
func (g gen) chance(p float64) bool { return g.r.Rng.Float64() < p }

func (g gen) nodeSpec(base int, wholeOnly bool) nodeSpec {
	s := nodeSpec{cores: 1 + g.intn(8), share: base, memory: int64(1000 * (1 + g.intn(20)))}
	if !wholeOnly && g.chance(0.4) {
		s.share = []int{base / 2, base * 2, base + base/2, base}[g.intn(4)]
	}
	s.describe = "plain"
	if s.cores >= 2 && g.chance(0.45) {
		nn := 2
		if s.cores >= 6 && g.chance(0.3) {
			nn = 3
		}
		s.numa = make([][]string, nn)
		for c := 0; c < s.cores; c++ {
			s.numa[c%nn] = append(s.numa[c%nn], fmt.Sprint(c))
		}
		s.numaMem = make([]int64, nn)
		for i := range s.numaMem {
			switch g.intn(3) {
			case 0:
				s.numaMem[i] = s.memory / int64(nn)
			case 1:
				s.numaMem[i] = s.memory / int64(nn) / 2
			default:
				s.numaMem[i] = int64(200 * (1 + g.intn(10)))
			}
		}
		s.describe = fmt.Sprintf("numa%d", nn)
	}
	return s
}

var cpuChoicesWhole = []float64{1, 1, 2, 3}
var cpuChoicesFrac = []float64{0.5, 0.3, 1.5, 0.25, 1.2, 2.5, 0.1, 0.7}

func (g gen) allocOpts(whole bool) (resourcetypes.RawParams, string) {
	mem := int64(0)
	switch g.intn(4) {
	case 0:
		mem = 0
	default:
		mem = int64(50 * (1 + g.intn(12)))
	}
	if g.chance(0.6) { // bound
		cpu := cpuChoicesWhole[g.intn(len(cpuChoicesWhole))]
		if !whole && g.chance(0.5) {
			cpu = cpuChoicesFrac[g.intn(len(cpuChoicesFrac))]
		}
		return resourcetypes.RawParams{"cpu-bind": true, "cpu-request": cpu, "cpu-limit": cpu, "memory-request": mem, "memory-limit": mem}, "bound"
	}
	cpu := []float64{0, 0.5, 1, 0.3, 2, 0.123456789}[g.intn(6)]
	return resourcetypes.RawParams{"cpu-request": cpu, "cpu-limit": cpu, "memory-request": mem, "memory-limit": mem}, "unbound"
}

func (g gen) reallocOpts(whole bool) (resourcetypes.RawParams, string) {
	memDelta := int64(0)
	switch g.intn(4) {
	case 0:
	case 1:
		memDelta = -int64(50 * (1 + g.intn(4)))
	default:
		memDelta = int64(50 * (1 + g.intn(6)))
	}
	cpuDelta := 0.0
	if g.chance(0.5) {
		ch := []float64{1, -1, 2, 0.5, -0.5, 0.2, -0.3}
		if whole {
			ch = []float64{1, -1, 2}
		}
		cpuDelta = ch[g.intn(len(ch))]
	}
	o := resourcetypes.RawParams{"cpu-request": cpuDelta, "cpu-limit": cpuDelta, "memory-request": memDelta, "memory-limit": memDelta}
	kind := ""
	switch x := g.intn(10); {
	case x < 6:
		o["keep-cpu-bind"] = true
		kind = "keep"
	case x < 8:
		o["cpu-bind"] = true
		kind = "bind"
	default:
		kind = "unbind"
	}
	if cpuDelta == 0 {
		kind += "-samecpu"
	} else if cpuDelta > 0 {
		kind += "-grow"
	} else {
		kind += "-shrink"
	}
	return o, kind
}

func parseReq(raw resourcetypes.RawParams) *ctypes.WorkloadResourceRequest {
	r := &ctypes.WorkloadResourceRequest{}
	_ = r.Parse(raw)
	return r
}

// scripted operation of a corpus history (opts nil = generated)
type sop struct {
	kind  string
	opts  resourcetypes.RawParams
	label string
	count int    // alloc: deploy count; realloc: live position
	scope string // realloc: "", "other-only" or "none": which plugins the request names
	fault string // "", "commit" or "calc": scripted failure of the second plugin during this operation
}

type stepRec struct {
	Op     string `json:"op"`
	Detail any    `json:"detail,omitempty"`
	Err    string `json:"err,omitempty"`
	Usage  any    `json:"usage"`
	Diffs  any    `json:"diffs,omitempty"`
	Remap  any    `json:"remap,omitempty"`
}

func errStr(err error) string {
	if err == nil {
		return ""
	}
	return err.Error()
}

// history runs one generated history and returns the Coq case and its description
func (g gen) history(w *world, spec nodeSpec, nops int, whole bool, jsonTrip bool, script []sop) (string, map[string]any, map[string]any, bool) {
	node := w.addNode(spec)
	defer w.mgr.RemoveNode(w.ctx, node) //nolint
	capacity, usage0, _ := w.read(node, nil)
	init := fmt.Sprintf("(mkNI %s %s)", coqNR(capacity), coqNR(usage0))

	var live []*workload
	var steps []string
	var recs []stepRec
	nextID := 0
	tags := map[string]any{"numa": len(spec.numa) > 0, "whole_share": spec.share == w.base, "node": spec.describe}
	counts := map[string]int{}
	remapBad := false
	otherDiff := false
	keepBindCases := 0

	type lastOp struct {
		kind   string // "alloc" / "realloc"
		n      int
		idx    int
		origin *workload
		delta  resourcetypes.Resources
	}
	var last *lastOp

	observe := func(opTerm, opName string, detail any, err error, delta *ctypes.WorkloadResource) {
		checkInfra(err)
		if w.fault != nil {
			w.fault.failCommit, w.fault.failCalc = false, false
		}
		_, usage, d := w.read(node, live)
		remapTerm, remapDesc, bad := w.remap(node, live)
		if bad {
			remapBad = true
		}
		if d.other > 0 {
			otherDiff = true
		}
		dl := "None"
		if delta != nil {
			dl = vh.Some(coqWR(delta))
		}
		ob := fmt.Sprintf("(mkObs %s %s %s %s %s)", vh.Bool(err != nil), dl, coqNR(usage), d.coq(), remapTerm)
		steps = append(steps, vh.Pair(opTerm, ob))
		recs = append(recs, stepRec{Op: opName, Detail: detail, Err: errStr(err), Usage: usage, Diffs: d, Remap: remapDesc})
		counts[opName]++
		if err != nil {
			counts[opName+"-err"]++
		}
	}

	for k := 0; k < nops; k++ {
		choice := ""
		var forced *sop
		if k < len(script) {
			choice = script[k].kind
			forced = &script[k]
		} else {
			switch x := g.intn(100); {
			case last != nil && last.kind == "alloc" && x < 15:
				choice = "rollback-alloc"
			case last != nil && last.kind == "realloc" && x < 25:
				choice = "rollback-realloc"
			case len(live) == 0 || x < 42:
				choice = "alloc"
			case x < 55:
				choice = "release"
			case x < 63:
				choice = "readd"
			default:
				choice = "realloc"
			}
		}
		// fault injection: the second plugin fails in the commit step (or in the calculation) of this operation
		failCommit, failCalc := false, false
		if w.fault != nil && (forced == nil || forced.fault != "") {
			if forced != nil {
				failCommit, failCalc = forced.fault == "commit", forced.fault == "calc"
			} else if x := g.intn(100); x < 12 {
				failCommit = true
			} else if x < 16 {
				failCalc = true
			}
			w.fault.failCommit, w.fault.failCalc = failCommit, failCalc
		}
		wrap := func(opTerm string) string {
			if failCommit {
				return "(OpFailedCommit " + opTerm + ")"
			}
			return opTerm
		}
		tagName := func(n string) string {
			if failCommit {
				return n + "+commit-fault"
			}
			if failCalc {
				return n + "+calc-fault"
			}
			return n
		}
		switch choice {
		case "alloc":
			opts, kind := g.allocOpts(whole)
			count := 1 + g.intn(3)
			if forced != nil && forced.opts != nil {
				opts, kind, count = forced.opts, forced.label, forced.count
			}
			ws, _, err := w.mgr.Alloc(w.ctx, node, count, resourcetypes.Resources{pluginName: opts})
			calcOK := len(ws) > 0 && ws[0][pluginName] != nil
			if err != nil && !calcOK {
				observe("OpAllocFail", tagName("alloc-"+kind), map[string]any{"count": count, "opts": opts}, err, nil)
				last = nil
				continue
			}
			terms := []string{}
			added := []*workload{}
			for _, r := range ws {
				res := r
				if jsonTrip {
					res = roundTrip(r)
				}
				nextID++
				added = append(added, &workload{id: fmt.Sprintf("w%d", nextID), res: res})
				terms = append(terms, coqWR(parseWR(res[pluginName])))
			}
			if err == nil {
				live = append(live, added...)
				last = &lastOp{kind: "alloc", n: len(added)}
			} else {
				last = nil
			}
			observe(wrap("(OpAlloc "+vh.List(terms)+")"), tagName("alloc-"+kind), map[string]any{"count": count, "opts": opts}, err, nil)
		case "readd":
			// a stale / duplicate rollback: the resources of a live workload are added once more
			// (refused by the plugin when its cores are taken)
			if len(live) == 0 {
				continue
			}
			i := g.intn(len(live))
			_, _, err := w.mgr.SetNodeResourceUsage(w.ctx, node, nil, nil, []resourcetypes.Resources{live[i].res}, true, plugins.Incr)
			term := "(OpAlloc " + vh.List([]string{coqWR(parseWR(live[i].res[pluginName]))}) + ")"
			if err == nil {
				nextID++
				live = append(live, &workload{id: fmt.Sprintf("w%d", nextID), res: live[i].res})
			}
			last = nil
			observe(wrap(term), tagName("readd"), map[string]any{"idx": i}, err, nil)
		case "rollback-alloc":
			if last == nil || last.kind != "alloc" {
				continue
			}
			n := last.n
			idxs := []int{}
			params := []resourcetypes.Resources{}
			for i := len(live) - n; i < len(live); i++ {
				idxs = append(idxs, i)
				params = append(params, live[i].res)
			}
			err := w.mgr.RollbackAlloc(w.ctx, node, params)
			if err == nil {
				live = live[:len(live)-n]
			}
			last = nil
			observe(wrap("(OpRelease "+natList(idxs)+")"), tagName("rollback-alloc"), map[string]any{"idxs": idxs}, err, nil)
		case "release":
			if len(live) == 0 {
				continue
			}
			i := g.intn(len(live))
			_, _, err := w.mgr.SetNodeResourceUsage(w.ctx, node, nil, nil, []resourcetypes.Resources{live[i].res}, true, plugins.Decr)
			if err == nil {
				live = append(live[:i:i], live[i+1:]...)
			}
			last = nil
			observe(wrap("(OpRelease "+natList([]int{i})+")"), tagName("release"), map[string]any{"idx": i}, err, nil)
		case "realloc":
			if len(live) == 0 {
				continue
			}
			i := g.intn(len(live))
			opts, kind := g.reallocOpts(whole)
			if forced != nil && forced.opts != nil {
				opts, kind, i = forced.opts, forced.label, forced.count
			} else if forced != nil && forced.scope != "" && forced.count < len(live) {
				i = forced.count
			}
			origin := live[i]
			originWR := parseWR(origin.res[pluginName])
			// which plugins the realloc request names: both (default), only the second plugin, or none;
			// a plugin that is not named is still asked (with an empty request) and keeps its entry
			scope := "both"
			if forced != nil && forced.scope != "" {
				scope = forced.scope
			} else if w.fault != nil && forced == nil {
				if x := g.intn(100); x < 12 {
					scope = "other-only"
				} else if x < 18 {
					scope = "none"
				}
			}
			reqRes := resourcetypes.Resources{pluginName: opts}
			switch scope {
			case "other-only":
				reqRes, opts, kind = resourcetypes.Resources{"faulty": resourcetypes.RawParams{"anything": 1}}, nil, "unnamed-other-only"
			case "none":
				reqRes, opts, kind = resourcetypes.Resources{}, nil, "unnamed-none"
			}
			_, deltaR, newR, err := w.mgr.Realloc(w.ctx, node, origin.res, reqRes)
			detail := map[string]any{"idx": i, "opts": opts, "scope": scope, "origin": originWR}
			if newR[pluginName] == nil && err != nil { // CalculateRealloc refused
				observe(fmt.Sprintf("(OpReallocFail %d)", i), tagName("realloc-"+kind), detail, err, nil)
				last = nil
				continue
			}
			// (granted without a cpumem entry in the returned resources: the caller stores what it was given;
			// it parses as the zero resource and the bookkeeping check below decides)
			if jsonTrip {
				newR = roundTrip(newR)
			}
			newWR := parseWR(newR[pluginName])
			deltaWR := parseWR(deltaR[pluginName])
			detail["new"] = newWR
			if err == nil {
				live[i] = &workload{id: origin.id, res: newR}
				last = &lastOp{kind: "realloc", idx: i, origin: origin, delta: deltaR}
			} else {
				last = nil
			}
			if strings.HasPrefix(kind, "keep-samecpu") && len(originWR.CPUMap) > 0 {
				keepBindCases++
			}
			observe(wrap(fmt.Sprintf("(OpRealloc %d %s %s)", i, coqReq(parseReq(opts)), coqWR(newWR))), tagName("realloc-"+kind), detail, err, deltaWR)
		case "rollback-realloc":
			if last == nil || last.kind != "realloc" {
				continue
			}
			err := w.mgr.RollbackRealloc(w.ctx, node, last.delta)
			i := last.idx
			originWR := parseWR(last.origin.res[pluginName])
			deltaWR := parseWR(last.delta[pluginName])
			if err == nil {
				live[i] = last.origin
			}
			last = nil
			observe(wrap(fmt.Sprintf("(OpRollbackRealloc %d %s)", i, coqWR(originWR))), tagName("rollback-realloc"), map[string]any{"idx": i}, err, deltaWR)
		}
	}
	for k, v := range counts {
		for i := 0; i < v; i++ {
			g.r.Count("op=" + k)
		}
	}
	if remapBad || otherDiff {
		// not representable: force a mismatch (an engine-params field other than the cpu map is wrong,
		// or the check produced an unknown diff line / mutated the caller's workloads)
		steps = append(steps, "(OpAllocFail, mkObs false None (mkNR (fb 0%Z) [] (-1)%Z [] []) (mkDiffs true [] [] true) [])")
	}
	term := fmt.Sprintf("(mkCase %s %s %s)", vh.Z(int64(w.base)), init, vh.List(steps))
	desc := map[string]any{"node": spec, "json_round_trip": jsonTrip, "steps": recs}
	tags["keep_bind_reallocs"] = keepBindCases
	nontrivial := counts["rollback-alloc"]+counts["rollback-realloc"] > 0 || len(recs) >= 5
	return term, desc, tags, nontrivial
}

func TestC08(t *testing.T) {
	prop := vh.PropEnv("C08")
	r := vh.New(t, prop, "history")
	agreeFn, okFn := "Node.agree", "Node.ok"
	switch prop {
	case "C32":
		agreeFn, okFn = "Node.agree_remap", "Node.ok_remap"
	}
	r.Coq("From Verif Require Import Base.GoFloat Cpumem.Types Cpumem.Node.\nClose Scope Z_scope.", "Node.case", agreeFn, okFn)
	r.Shard = 20
	g := gen{r}
	w := newFaultyWorld(t, 100, -1)

	emit := func(kind string, spec nodeSpec, nops int, whole, jsonTrip bool, script []sop) {
		guarded(r, func() {
			if w.fault != nil {
				w.fault.failCommit, w.fault.failCalc = false, false
			}
			term, desc, tags, nontrivial := g.history(w, spec, nops, whole, jsonTrip, script)
			tags["kind"] = kind
			r.Count("kind=" + kind)
			r.Count("node=" + spec.describe)
			r.Count(fmt.Sprintf("json_round_trip=%v", jsonTrip))
			r.Add(term, desc, tags, nontrivial)
		})
	}

	// ---- corpus ----
	numa2 := nodeSpec{cores: 4, share: 100, memory: 4000, numa: [][]string{{"0", "2"}, {"1", "3"}}, numaMem: []int64{2000, 2000}, describe: "numa2"}
	plain := nodeSpec{cores: 4, share: 100, memory: 4000, describe: "plain"}
	boundAlloc := func(cpu float64, mem int64, count int) sop {
		return sop{"alloc", resourcetypes.RawParams{"cpu-bind": true, "cpu-request": cpu, "cpu-limit": cpu, "memory-request": mem, "memory-limit": mem}, "bound", count, "", ""}
	}
	unboundAlloc := func(cpu float64, mem int64, count int) sop {
		return sop{"alloc", resourcetypes.RawParams{"cpu-request": cpu, "cpu-limit": cpu, "memory-request": mem, "memory-limit": mem}, "unbound", count, "", ""}
	}
	keepRealloc := func(pos int, cpu float64, mem int64, label string) sop {
		return sop{"realloc", resourcetypes.RawParams{"keep-cpu-bind": true, "cpu-request": cpu, "cpu-limit": cpu, "memory-request": mem, "memory-limit": mem}, label, pos, "", ""}
	}
	plainOp := func(kind string) sop { return sop{kind: kind} }
	withFault := func(o sop, f string) sop { o.fault = f; return o }
	// witness of the repaired DeepCopy defect: NUMA-bound alloc, then realloc with no change / more memory
	emit("corpus", numa2, 3, true, false, []sop{boundAlloc(1, 100, 1), keepRealloc(0, 0, 0, "keep-samecpu"), keepRealloc(0, 0, 50, "keep-samecpu")})
	emit("corpus", numa2, 4, true, true, []sop{boundAlloc(1, 100, 2), keepRealloc(1, 0, 50, "keep-samecpu"), plainOp("rollback-realloc"), plainOp("release")})
	emit("corpus", numa2, 5, true, true, []sop{unboundAlloc(0.5, 100, 2), boundAlloc(2, 100, 1), keepRealloc(2, 1, 0, "keep-grow"), sop{"realloc", resourcetypes.RawParams{"cpu-bind": true, "cpu-request": 1.0, "cpu-limit": 1.0}, "bind-grow", 0, "", ""}, plainOp("rollback-realloc")})
	emit("corpus", plain, 4, true, false, []sop{boundAlloc(1, 100, 2), plainOp("rollback-alloc"), boundAlloc(2, 0, 1), keepRealloc(0, -1, 0, "keep-shrink")})
	emit("corpus", plain, 6, false, true, []sop{boundAlloc(1.5, 100, 1), unboundAlloc(0.3, 0, 3), keepRealloc(0, 0.2, 100, "keep-grow"), plainOp("rollback-realloc"), plainOp("release"), plainOp("release")})
	// failure paths: a refused re-add (duplicate rollback of a bound workload), and the second plugin failing
	// in the commit step of an alloc / a release / a realloc, and in the calculation
	emit("corpus", plain, 3, true, false, []sop{boundAlloc(2, 100, 1), plainOp("readd"), plainOp("release")})
	emit("corpus", numa2, 6, true, true, []sop{boundAlloc(1, 100, 2), withFault(boundAlloc(1, 100, 1), "commit"), withFault(plainOp("release"), "commit"),
		withFault(keepRealloc(0, 0, 50, "keep-samecpu"), "commit"), withFault(boundAlloc(1, 0, 1), "calc"), plainOp("release")})

	// a realloc request that names only the second plugin / no plugin at all: cpumem is still asked and its
	// entry must stay in the returned resources; then release
	emit("corpus", plain, 3, true, true, []sop{boundAlloc(1, 100, 1), sop{kind: "realloc", label: "unnamed", count: 0, scope: "other-only"}, plainOp("release")})
	emit("corpus", numa2, 4, true, false, []sop{boundAlloc(1, 100, 2), sop{kind: "realloc", label: "unnamed", count: 1, scope: "none"}, plainOp("release"), plainOp("release")})

	// ---- random histories ----
	n := r.N(80, 1500)
	for i := 0; i < n; i++ {
		whole := g.chance(0.5)
		spec := g.nodeSpec(100, whole)
		emit("random", spec, 1+g.intn(22), whole, g.chance(0.5), nil)
	}
	r.Finish("corpus (NUMA-bound alloc + realloc: the repaired DeepCopy defect; rollbacks), then random histories of 1-25 operations (alloc of 1-3 bound/unbound workloads, rollback of the last alloc, release, realloc with keep-bind/bind/unbind x cpu grow/shrink/same x memory grow/shrink/same, rollback of the last realloc) on nodes with 1-8 cores, whole or odd shares, 0/2/3 NUMA nodes; workload resources optionally sent through JSON like calcium's store does. non-trivial = history contains a rollback or at least 5 operations")
}
