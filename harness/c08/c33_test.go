package c08

// C33: re-allocating a bound workload with keep-cpu-bind and no cpu change.
// Nodes are filled by real allocations, a bound live workload is picked and
// Plugin.CalculateRealloc (a pure calculation) is called 8 times; every
// distinct answer is emitted (Go picks the NUMA iteration order afresh).

import (
	"fmt"
	"testing"

	"verifharness/vh"

	ctypes "github.com/projecteru2/core/resource/plugins/cpumem/types"
	resourcetypes "github.com/projecteru2/core/resource/types"
)

func TestC33(t *testing.T) {
	r := vh.New(t, "C33", "realloc")
	r.Coq("From Verif Require Import Base.GoFloat Cpumem.Types Cobalt.Realloc.\nClose Scope Z_scope.", "Realloc.rcase", "Realloc.agree", "Realloc.ok")
	r.Shard = 40
	g := gen{r}
	w := newWorld(t, 100, -1)
	base := 100

	type script struct {
		allocs []resourcetypes.RawParams
		counts []int
		pick   int // live position to re-allocate
		opts   resourcetypes.RawParams
		// direct placement (deterministic corpus): the node record is written with the origin on exactly
		// these whole cores (plus [used] pieces on other cores) and the origin resource is fabricated
		cores []string
		used  map[string]int
		numa  string
	}

	emit := func(kind string, spec nodeSpec, sc *script) {
		guarded(r, func() {
			node := w.addNode(spec)
			defer w.mgr.RemoveNode(w.ctx, node) //nolint
			var live []*workload
			id := 0
			nAllocs := 1 + g.intn(4)
			if sc != nil {
				nAllocs = len(sc.allocs)
			}
			if sc != nil && sc.cores != nil {
				nAllocs = 0
				capacity, usage, _ := w.read(node, nil)
				mem := int64(100)
				cm := map[string]int{}
				for _, c := range sc.cores {
					usage.CPUMap[c] = base
					cm[c] = base
				}
				for c, v := range sc.used {
					usage.CPUMap[c] = v
				}
				total := 0
				for _, v := range usage.CPUMap {
					total += v
				}
				usage.CPU = float64(total) / float64(base)
				usage.Memory = mem
				raw := resourcetypes.RawParams{"cpu_request": float64(len(sc.cores)), "cpu_limit": float64(len(sc.cores)), "memory_request": mem, "memory_limit": mem,
					"cpu_map": cm, "numa_node": sc.numa}
				if sc.numa != "" {
					usage.NUMAMemory[sc.numa] = mem
					raw["numa_memory"] = map[string]int64{sc.numa: mem}
				}
				if _, err := w.pl.SetNodeResourceInfo(w.ctx, node, nrToRaw(capacity), nrToRaw(usage)); err != nil {
					checkInfra(err)
					t.Fatalf("SetNodeResourceInfo: %v", err)
				}
				live = append(live, &workload{id: "w1", res: roundTrip(resourcetypes.Resources{pluginName: raw})})
				r.Count("corpus:multi_core_placed")
			}
			for i := 0; i < nAllocs; i++ {
				var opts resourcetypes.RawParams
				count := 1 + g.intn(2)
				if sc != nil {
					opts, count = sc.allocs[i], sc.counts[i]
				} else if g.chance(0.75) {
					cpu := cpuChoicesWhole[g.intn(len(cpuChoicesWhole))]
					if g.chance(0.3) {
						cpu = cpuChoicesFrac[g.intn(len(cpuChoicesFrac))]
					}
					mem := int64(50 * g.intn(8))
					opts = resourcetypes.RawParams{"cpu-bind": true, "cpu-request": cpu, "cpu-limit": cpu, "memory-request": mem, "memory-limit": mem}
				} else {
					opts, _ = g.allocOpts(false)
				}
				ws, _, err := w.mgr.Alloc(w.ctx, node, count, resourcetypes.Resources{pluginName: opts})
				if err != nil {
					continue
				}
				for _, res := range ws {
					id++
					live = append(live, &workload{id: fmt.Sprintf("w%d", id), res: roundTrip(res)})
				}
			}
			// pick a workload: bound ones preferred
			bound := []int{}
			for i, l := range live {
				if len(parseWR(l.res[pluginName]).CPUMap) > 0 {
					bound = append(bound, i)
				}
			}
			if len(live) == 0 {
				return
			}
			pick := g.intn(len(live))
			if len(bound) > 0 && g.chance(0.9) {
				pick = bound[g.intn(len(bound))]
			}
			if sc != nil {
				pick = sc.pick
			}
			origin := parseWR(live[pick].res[pluginName])
			capacity, usage, _ := w.read(node, nil)
			// the request: mostly keep-bind with no cpu change and any memory delta
			var opts resourcetypes.RawParams
			reqKind := ""
			if sc != nil {
				opts, reqKind = sc.opts, "keep-samecpu"
			} else if g.chance(0.8) {
				mem := int64(0)
				switch g.intn(6) {
				case 1:
					mem = -int64(50 * (1 + g.intn(3)))
				case 2, 3:
					mem = int64(50 * (1 + g.intn(10)))
				case 4, 5:
					// boundary: grow to exactly (or one off) the free memory of the workload's NUMA node / of the node
					free := capacity.Memory - usage.Memory
					if origin.NUMANode != "" {
						free = capacity.NUMAMemory[origin.NUMANode] - usage.NUMAMemory[origin.NUMANode]
					}
					mem = free + int64(g.intn(3)-1)
				}
				opts = resourcetypes.RawParams{"keep-cpu-bind": true, "cpu-request": 0.0, "cpu-limit": 0.0, "memory-request": mem, "memory-limit": mem}
				reqKind = "keep-samecpu"
			} else {
				opts, reqKind = g.reallocOpts(false)
			}
			whole := true
			for _, v := range capacity.CPUMap {
				if v != base {
					whole = false
				}
			}
			fractional := false
			for _, v := range origin.CPUMap {
				if v%base != 0 {
					fractional = true
				}
			}
			// another NUMA node with enough fully free cores to host the workload (after the origin is put back)
			numaAlt := false
			if len(capacity.NUMA) > 0 {
				free := map[string]int{}
				for c, nid := range capacity.NUMA {
					used := usage.CPUMap[c] - origin.CPUMap[c]
					if used == 0 && capacity.CPUMap[c] >= base {
						free[nid]++
					}
				}
				for nid, n := range free {
					if nid != origin.NUMANode && n >= len(origin.CPUMap) && len(origin.CPUMap) > 0 {
						numaAlt = true
					}
				}
			}
			newMem := origin.MemoryRequest + opts.Int64("memory-request")
			numaMemTight := false
			if origin.NUMANode != "" {
				freeNUMA := capacity.NUMAMemory[origin.NUMANode] - usage.NUMAMemory[origin.NUMANode] + origin.NUMAMemory[origin.NUMANode]
				numaMemTight = newMem > freeNUMA
			}

			seen := map[string]bool{}
			obs := []string{}
			obsDesc := []any{}
			granted := false
			for k := 0; k < 8; k++ {
				resp, err := w.pl.CalculateRealloc(w.ctx, node, live[pick].res[pluginName], opts)
				checkInfra(err)
				s := "None"
				var d any = errStr(err)
				if err == nil {
					nw, dl := &ctypes.WorkloadResource{}, &ctypes.WorkloadResource{}
					if e := nw.Parse(resp.WorkloadResource); e != nil {
						panic(e)
					}
					if e := dl.Parse(resp.DeltaResource); e != nil {
						panic(e)
					}
					s = vh.Some(vh.Pair(coqWR(nw), coqWR(dl)))
					d = map[string]any{"new": nw, "delta": dl}
					granted = true
				}
				if !seen[s] {
					seen[s] = true
					obs = append(obs, s)
					obsDesc = append(obsDesc, d)
				}
			}
			info := fmt.Sprintf("(mkNI %s %s)", coqNR(capacity), coqNR(usage))
			term := fmt.Sprintf("(mkRCase %s %s %s %s %s %s %s)", vh.Z(int64(base)), vh.Z(-1), vh.Bool(whole), info, coqWR(origin), coqReq(parseReq(opts)), vh.List(obs))
			inScope := whole && reqKind == "keep-samecpu" && len(origin.CPUMap) > 0
			r.Count("kind=" + kind)
			r.Count("node=" + spec.describe)
			r.Count("request=" + reqKind)
			r.Count(fmt.Sprintf("in_scope=%v", inScope))
			r.Count(fmt.Sprintf("distinct_answers=%d", len(obs)))
			r.Count(fmt.Sprintf("granted=%v", granted))
			if inScope {
				r.Count(fmt.Sprintf("scope:numa=%v,fractional=%v", len(capacity.NUMA) > 0, fractional))
			}
			r.Add(term, map[string]any{"node": spec, "capacity": capacity, "usage": usage, "origin": origin, "request": opts, "answers": obsDesc},
				map[string]any{"kind": kind, "numa": len(capacity.NUMA) > 0, "numa_alt": numaAlt, "numa_mem_tight": numaMemTight, "fractional": fractional, "in_scope": inScope},
				inScope && granted)
		})
	}

	bind := func(cpu float64, mem int64) resourcetypes.RawParams {
		return resourcetypes.RawParams{"cpu-bind": true, "cpu-request": cpu, "cpu-limit": cpu, "memory-request": mem, "memory-limit": mem}
	}
	keep := func(mem int64) resourcetypes.RawParams {
		return resourcetypes.RawParams{"keep-cpu-bind": true, "cpu-request": 0.0, "cpu-limit": 0.0, "memory-request": mem, "memory-limit": mem}
	}
	plain := nodeSpec{cores: 4, share: 100, memory: 4000, describe: "plain"}
	numa2 := nodeSpec{cores: 4, share: 100, memory: 4000, numa: [][]string{{"0", "2"}, {"1", "3"}}, numaMem: []int64{2000, 2000}, describe: "numa2"}
	// corpus: the theorem's case; the two refutation witnesses
	emit("corpus", plain, &script{[]resourcetypes.RawParams{bind(1, 100), bind(2, 100)}, []int{1, 1}, 1, keep(50), nil, nil, ""})
	emit("corpus", plain, &script{[]resourcetypes.RawParams{bind(2, 0)}, []int{2}, 1, keep(0), nil, nil, ""})
	emit("corpus", numa2, &script{[]resourcetypes.RawParams{bind(1, 100)}, []int{1}, 0, keep(0), nil, nil, ""})                   // NUMA: another node can host it
	emit("corpus", numa2, &script{[]resourcetypes.RawParams{bind(1, 100), bind(1, 100)}, []int{1, 1}, 1, keep(50), nil, nil, ""}) // NUMA, both nodes in use
	// NUMA boundary: the workload grows to exactly the free memory of its NUMA node; the other node's cores are taken
	emit("corpus", numa2, &script{[]resourcetypes.RawParams{bind(1, 100), bind(1, 100), bind(1, 100), bind(1, 100)}, []int{1, 1, 1, 1}, 0, keep(1800), nil, nil, ""})
	emit("corpus", numa2, &script{[]resourcetypes.RawParams{bind(2, 2000), bind(2, 100)}, []int{1, 1}, 0, keep(0), nil, nil, ""})
	emit("corpus", plain, &script{[]resourcetypes.RawParams{bind(1.5, 0)}, []int{1}, 0, keep(0), nil, nil, ""})                  // fractional
	emit("corpus", plain, &script{[]resourcetypes.RawParams{bind(0.5, 0), bind(1.5, 0)}, []int{1, 1}, 1, keep(0), nil, nil, ""}) // fractional, shared core

	// deterministic placements of multi-core whole-core workloads whose cores are NOT one of the planner's
	// default groups (seeded/C33-affinity-only-with-fragment): keep-bind, no cpu change, must stay put
	plain8 := nodeSpec{cores: 8, share: 100, memory: 8000, describe: "plain"}
	numa8 := nodeSpec{cores: 8, share: 100, memory: 8000, numa: [][]string{{"0", "2", "4", "6"}, {"1", "3", "5", "7"}}, numaMem: []int64{4000, 4000}, describe: "numa2"}
	direct := func(cores []string, used map[string]int, numa string, mem int64) *script {
		return &script{cores: cores, used: used, numa: numa, pick: 0, opts: keep(mem)}
	}
	emit("corpus", plain8, direct([]string{"1", "2"}, nil, "", 0))
	emit("corpus", plain8, direct([]string{"0", "2"}, nil, "", 50))
	emit("corpus", plain8, direct([]string{"1", "3"}, map[string]int{"0": 100}, "", 0))
	emit("corpus", plain8, direct([]string{"2", "5", "6"}, nil, "", 0))
	emit("corpus", plain8, direct([]string{"2", "5", "6"}, map[string]int{"0": 50, "7": 100}, "", -50))
	emit("corpus", plain8, direct([]string{"6", "7"}, map[string]int{"0": 100, "1": 30}, "", 0))
	// the same on a NUMA node: the origin's node ("0": cores 0,2,4,6) has spare cores
	emit("corpus", numa8, direct([]string{"2", "4"}, nil, "0", 0))
	emit("corpus", numa8, direct([]string{"4", "6"}, map[string]int{"1": 100, "3": 100, "5": 100, "7": 100}, "0", 50))
	emit("corpus", numa8, direct([]string{"3", "7"}, map[string]int{"0": 100}, "1", 0))

	n := r.N(150, 1500)
	for i := 0; i < n; i++ {
		emit("random", g.nodeSpec(100, g.chance(0.8)), nil)
	}
	r.Finish("corpus (no-NUMA whole-core keep-bind; the NUMA and fractional refutation witnesses), then random nodes (1-8 cores, mostly whole-core shares, 0/2/3 NUMA nodes) filled by 1-4 real allocations; a (mostly bound) live workload is re-allocated with keep-cpu-bind, zero cpu delta and a memory delta in -150..+500 (80%) or a random other realloc request (20%); Plugin.CalculateRealloc called 8 times, distinct answers kept. non-trivial = in scope of the property and granted")
}
