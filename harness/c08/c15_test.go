package c08

// C15: resource repair.  A node is filled by real allocations (so the recorded
// workloads fit the capacity), its usage is then overwritten with a drifted
// value through Plugin.SetNodeResourceInfo, the repair is run through
// Manager.GetNodeResourceInfo(fix=true) and the check is run again without
// repair.

import (
	"fmt"
	"testing"

	"verifharness/vh"

	ctypes "github.com/projecteru2/core/resource/plugins/cpumem/types"
	resourcetypes "github.com/projecteru2/core/resource/types"
)

func nrToRaw(r *ctypes.NodeResource) resourcetypes.RawParams {
	return resourcetypes.RawParams{"cpu": r.CPU, "cpu_map": map[string]int(r.CPUMap), "memory": r.Memory,
		"numa_memory": map[string]int64(r.NUMAMemory), "numa": map[string]string(r.NUMA)}
}

func copyNR(r *ctypes.NodeResource) *ctypes.NodeResource { return r.DeepCopy() }

// drift overwrites parts of the usage; the result must still pass Validate (all
// writes of the plugin go through it), so cores stay within the capacity.
func (g gen) drift(capacity, usage *ctypes.NodeResource) (*ctypes.NodeResource, string) {
	u := copyNR(usage)
	cores := vh.SortedKeys(capacity.CPUMap)
	numas := vh.SortedKeys(capacity.NUMAMemory)
	kind := ""
	pickCore := func() string { return cores[g.intn(len(cores))] }
	for n := 1 + g.intn(3); n > 0; n-- {
		switch g.intn(9) {
		case 0: // extra pieces on a core
			c := pickCore()
			u.CPUMap[c] = g.intn(capacity.CPUMap[c] + 1)
			kind += "core-set,"
		case 1: // missing core entry
			c := pickCore()
			delete(u.CPUMap, c)
			kind += "core-missing,"
		case 2: // negative pieces (accepted by Validate)
			u.CPUMap[pickCore()] = -g.intn(50)
			kind += "core-negative,"
		case 3:
			u.Memory += int64(g.intn(2000)) - 1000
			kind += "memory,"
		case 4:
			if len(numas) > 0 {
				n := numas[g.intn(len(numas))]
				u.NUMAMemory[n] = int64(g.intn(int(capacity.NUMAMemory[n]) + 1))
				kind += "numa-set,"
			}
		case 5:
			if len(numas) > 0 {
				delete(u.NUMAMemory, numas[g.intn(len(numas))])
				kind += "numa-missing,"
			}
		case 6:
			u.CPU += []float64{1, -1, 0.5, 0.000000001, 123.456, -0.3}[g.intn(6)]
			kind += "cpu,"
		case 7: // everything zero
			u = &ctypes.NodeResource{CPUMap: ctypes.CPUMap{}, NUMAMemory: ctypes.NUMAMemory{}, NUMA: ctypes.NUMA{}}
			for _, c := range cores {
				u.CPUMap[c] = 0
			}
			kind += "zeroed,"
		case 8: // tiny cpu difference below the rounding step
			u.CPU += 0.0000000001
			kind += "cpu-subround,"
		}
	}
	return u, kind
}

func TestC15(t *testing.T) {
	r := vh.New(t, "C15", "fix")
	r.Coq("From Verif Require Import Base.GoFloat Cpumem.Types Cpumem.Node.\nClose Scope Z_scope.", "Node.fixcase", "Node.agree_fix", "Node.ok_fix")
	r.Shard = 60
	g := gen{r}
	w := newWorld(t, 100, -1)

	emit := func(kind string, spec nodeSpec, nAllocs int, forget int, doDrift bool, oversize bool) {
		guarded(r, func() {
			node := w.addNode(spec)
			defer w.mgr.RemoveNode(w.ctx, node) //nolint
			var live []*workload
			id := 0
			for i := 0; i < nAllocs; i++ {
				opts, _ := g.allocOpts(false)
				ws, _, err := w.mgr.Alloc(w.ctx, node, 1+g.intn(2), resourcetypes.Resources{pluginName: opts})
				if err != nil {
					continue
				}
				for _, res := range ws {
					id++
					if g.chance(0.5) {
						res = roundTrip(res)
					}
					live = append(live, &workload{id: fmt.Sprintf("w%d", id), res: res})
				}
			}
			// the store may have lost / gained records relative to the plugin's usage
			for i := 0; i < forget && len(live) > 0; i++ {
				k := g.intn(len(live))
				live = append(live[:k:k], live[k+1:]...)
			}
			fits := true
			if oversize && len(live) > 0 { // a recorded workload that cannot fit: the repair must refuse to store
				k := g.intn(len(live))
				wr := parseWR(live[k].res[pluginName])
				raw := resourcetypes.RawParams{"cpu_request": wr.CPURequest, "cpu_limit": wr.CPULimit, "memory_request": wr.MemoryRequest,
					"memory_limit": wr.MemoryLimit, "cpu_map": map[string]int{"0": 100000}, "numa_memory": map[string]int64(wr.NUMAMemory), "numa_node": wr.NUMANode}
				live[k] = &workload{id: live[k].id, res: resourcetypes.Resources{pluginName: raw}}
				fits = false
			}
			capacity, usage, _ := w.read(node, nil)
			driftKind := "none"
			if doDrift {
				du, k := g.drift(capacity, usage)
				if _, err := w.pl.SetNodeResourceInfo(w.ctx, node, nrToRaw(capacity), nrToRaw(du)); err == nil {
					driftKind = k
				} else {
					checkInfra(err)
					driftKind = "rejected"
				}
			}
			_, stored, _ := w.read(node, nil)
			info := fmt.Sprintf("(mkNI %s %s)", coqNR(capacity), coqNR(stored))
			wsTerms := []string{}
			wsDesc := []any{}
			for _, l := range live {
				wr := parseWR(l.res[pluginName])
				wsTerms = append(wsTerms, coqWR(wr))
				wsDesc = append(wsDesc, wr)
			}
			// repair
			_, usage1R, lines1, err := w.mgr.GetNodeResourceInfo(w.ctx, node, w.coreWorkloads(live), true)
			if err != nil {
				checkInfra(err)
				t.Fatalf("fix: %v", err)
			}
			usage1 := &ctypes.NodeResource{}
			if err := usage1.Parse(usage1R[pluginName]); err != nil {
				panic(err)
			}
			d1 := classify(lines1)
			// check again
			_, usage2, d2 := w.read(node, live)
			failed := d1.other > 0
			if d1.other > 1 || d2.other > 0 {
				wsTerms = append(wsTerms, "(mkWR (fb 0%Z) (fb 0%Z) (-12345)%Z 0%Z [] [] \"\"%string)") // unknown diff lines: force a mismatch
			}
			term := fmt.Sprintf("(mkFixCase %s %s %s %s %s %s %s %s)", info, vh.List(wsTerms), vh.Bool(fits),
				coqNR(usage1), d1.coq(), vh.Bool(failed), coqNR(usage2), d2.coq())
			desc := map[string]any{"node": spec, "drift": driftKind, "capacity": capacity, "stored_usage": stored, "workloads": wsDesc,
				"fix": map[string]any{"usage": usage1, "diffs": lines1}, "recheck": map[string]any{"usage": usage2, "diffs": d2}}
			r.Count("kind=" + kind)
			r.Count("node=" + spec.describe)
			r.Count(fmt.Sprintf("diffs_before=%v", len(lines1) > 0))
			r.Count(fmt.Sprintf("fits=%v", fits))
			if failed {
				r.Count("store_refused")
			}
			r.Add(term, desc, map[string]any{"kind": kind, "fits": fits, "numa": len(spec.numa) > 0}, len(lines1) > 0)
		})
	}

	numa2 := nodeSpec{cores: 4, share: 100, memory: 4000, numa: [][]string{{"0", "2"}, {"1", "3"}}, numaMem: []int64{2000, 2000}, describe: "numa2"}
	plain := nodeSpec{cores: 4, share: 100, memory: 4000, describe: "plain"}
	// corpus: no drift; drift with all workloads; lost records; no workloads at all
	emit("corpus", plain, 3, 0, false, false)
	emit("corpus", plain, 3, 0, true, false)
	emit("corpus", numa2, 4, 0, true, false)
	emit("corpus", numa2, 4, 2, true, false)
	emit("corpus", plain, 0, 0, true, false)
	emit("corpus", numa2, 3, 0, true, true)

	n := r.N(180, 2500)
	for i := 0; i < n; i++ {
		spec := g.nodeSpec(100, g.chance(0.5))
		forget := 0
		if g.chance(0.3) {
			forget = 1 + g.intn(2)
		}
		emit("random", spec, g.intn(6), forget, g.chance(0.85), false)
	}
	nm := r.N(20, 300)
	for i := 0; i < nm; i++ {
		emit("malformed", g.nodeSpec(100, true), 1+g.intn(4), 0, g.chance(0.5), true)
	}
	r.Finish("nodes of 1-8 cores (0/2/3 NUMA nodes) filled by 0-5 real allocations through the manager (bound, unbound, NUMA-bound), records optionally forgotten, usage then overwritten with a drifted value (per-core set / missing / negative, memory, NUMA memory set / missing, cpu float, zeroed, sub-rounding cpu noise), repair through Manager.GetNodeResourceInfo(fix=true) and a second check; malformed stream: a recorded workload that cannot fit, so the repair cannot be stored. non-trivial = the first check reported differences")
}
