package c08

// C15 end to end in the calcium world (harness/cw):
//   stream "fixe": workloads created through Calcium.CreateWorkload, the plugin's
//     usage overwritten with a drifted value, Calcium.NodeResource(fix=true),
//     then Calcium.NodeResource(fix=false);
//   stream "lock": Calcium.ReallocResource is stopped between rmgr.Realloc and
//     store.UpdateWorkload (interception gate), Calcium.NodeResource(fix=true) is
//     started meanwhile and given time; then everything runs to completion and
//     the node is checked again.  Both operations take the pod lock, so the
//     repair must not get in between.

import (
	"fmt"
	"sort"
	"sync"
	"testing"
	"time"

	"verifharness/cw"
	"verifharness/vh"

	ctypes "github.com/projecteru2/core/resource/plugins/cpumem/types"
	resourcetypes "github.com/projecteru2/core/resource/types"
	coretypes "github.com/projecteru2/core/types"
)

func parseNR(raw resourcetypes.RawParams) *ctypes.NodeResource {
	n := &ctypes.NodeResource{}
	if err := n.Parse(raw); err != nil {
		panic(err)
	}
	return n
}

func recorded(w *cw.World, node string) []*coretypes.Workload {
	wls, err := w.RawStore.ListNodeWorkloads(w.Ctx, node, nil)
	if err != nil {
		checkInfra(err)
		w.T.Fatalf("ListNodeWorkloads: %v", err)
	}
	sort.Slice(wls, func(i, j int) bool { return wls[i].ID < wls[j].ID })
	return wls
}

func TestC15E(t *testing.T) {
	rf := vh.New(t, "C15", "fixe")
	rf.Coq("From Verif Require Import Base.GoFloat Cpumem.Types Cpumem.Node.\nClose Scope Z_scope.", "Node.fixcase", "Node.agree_fix", "Node.ok_fix")
	rl := vh.New(t, "C15", "lock")
	rl.Coq("From Verif Require Import Base.GoFloat Cpumem.Types Cpumem.Node Cobalt.RepairLock.\nClose Scope Z_scope.", "RepairLock.lockcase", "RepairLock.agree_lock", "RepairLock.ok_lock")
	g := gen{rf}

	setup := func(ncpu int, nAllocs int) (*cw.World, []string) {
		w := cw.New(t, cw.Options{})
		if err := w.AddPod("p1"); err != nil {
			checkInfra(err)
			t.Fatalf("AddPod: %v", err)
		}
		if err := w.AddNode("n1", "p1", ncpu, 100000); err != nil {
			checkInfra(err)
			t.Fatalf("AddNode: %v", err)
		}
		ids := []string{}
		for i := 0; i < nAllocs; i++ {
			var res resourcetypes.RawParams
			mem := int64(100 * (1 + g.intn(5)))
			if g.chance(0.5) {
				cpu := []float64{1, 0.5, 1.5}[g.intn(3)]
				res = resourcetypes.RawParams{"cpu-bind": true, "cpu-request": cpu, "cpu-limit": cpu, "memory-request": mem, "memory-limit": mem}
			} else {
				cpu := []float64{0, 0.5, 0.3}[g.intn(3)]
				res = resourcetypes.RawParams{"cpu-request": cpu, "cpu-limit": cpu, "memory-request": mem, "memory-limit": mem}
			}
			w.Hub.SetOp(i + 1)
			got, err := cwCreate(w, cwDeploy("p1", 1+g.intn(2), res))
			checkInfra(err)
			ids = append(ids, got...)
			w.Quiesce()
		}
		return w, ids
	}

	// ---- sequential repair through Calcium.NodeResource ----
	emitFix := func(kind string, ncpu, nAllocs int, doDrift bool) {
		guarded(rf, func() {
			w, _ := setup(ncpu, nAllocs)
			wls := recorded(w, "n1")
			capR, usageR, _, err := w.RawRmgr.GetNodeResourceInfo(w.Ctx, "n1", wls, false)
			if err != nil {
				checkInfra(err)
				t.Fatalf("GetNodeResourceInfo: %v", err)
			}
			capacity, usage := parseNR(capR[pluginName]), parseNR(usageR[pluginName])
			driftKind := "none"
			if doDrift {
				du, k := g.drift(capacity, usage)
				// absolute write of the usage (delta=false)
				if _, _, err := w.RawRmgr.SetNodeResourceUsage(w.Ctx, "n1", resourcetypes.Resources{pluginName: nrToRaw(du)}, nil, nil, false, true); err == nil {
					driftKind = k
				} else {
					checkInfra(err)
					driftKind = "rejected"
				}
			}
			_, storedR, _, err := w.RawRmgr.GetNodeResourceInfo(w.Ctx, "n1", nil, false)
			if err != nil {
				checkInfra(err)
				t.Fatalf("GetNodeResourceInfo: %v", err)
			}
			stored := parseNR(storedR[pluginName])
			nr1, err := w.C.NodeResource(w.Ctx, "n1", true)
			if err != nil {
				checkInfra(err)
				t.Fatalf("NodeResource(fix): %v", err)
			}
			nr2, err := w.C.NodeResource(w.Ctx, "n1", false)
			if err != nil {
				checkInfra(err)
				t.Fatalf("NodeResource: %v", err)
			}
			d1, d2 := classify(nr1.Diffs), classify(nr2.Diffs)
			wsTerms := []string{}
			for _, wl := range wls {
				wsTerms = append(wsTerms, coqWR(parseWR(wl.Resources[pluginName])))
			}
			if d1.other > 0 || d2.other > 0 {
				wsTerms = append(wsTerms, "(mkWR (fb 0%Z) (fb 0%Z) (-12345)%Z 0%Z [] [] \"\"%string)")
			}
			term := fmt.Sprintf("(mkFixCase (mkNI %s %s) %s true %s %s false %s %s)", coqNR(capacity), coqNR(stored), vh.List(wsTerms),
				coqNR(parseNR(nr1.Usage[pluginName])), d1.coq(), coqNR(parseNR(nr2.Usage[pluginName])), d2.coq())
			rf.Count("kind=" + kind)
			rf.Count(fmt.Sprintf("diffs_before=%v", len(nr1.Diffs) > 0))
			rf.Add(term, map[string]any{"cores": ncpu, "drift": driftKind, "stored_usage": stored, "workloads": len(wls), "fix_diffs": nr1.Diffs, "recheck_diffs": nr2.Diffs},
				map[string]any{"kind": kind, "fits": true, "calcium": true}, len(nr1.Diffs) > 0)
		})
	}
	emitFix("corpus", 4, 3, true)
	emitFix("corpus", 4, 2, false)
	nf := rf.N(10, 150)
	for i := 0; i < nf; i++ {
		emitFix("random", 2+g.intn(5), 1+g.intn(4), g.chance(0.85))
	}
	rf.Finish("calcium world: one node of 2-6 cores, 1-4 CreateWorkload calls (bound 0.5/1/1.5 cpu or unbound), the plugin's usage overwritten with a drifted value through the resource manager (absolute write), Calcium.NodeResource(fix=true) then Calcium.NodeResource(fix=false). non-trivial = the repair found differences")

	// ---- repair started while a re-allocation is between its two writes ----
	emitLock := func(kind string, ncpu, nAllocs int, memDelta int64) {
		guarded(rl, func() {
			w, ids := setup(ncpu, nAllocs)
			if len(ids) == 0 {
				return
			}
			target := ids[g.intn(len(ids))]
			reached := make(chan struct{})
			release := make(chan struct{})
			var once sync.Once
			w.IC.Reset()
			w.IC.Gate = func(c cw.Call) {
				if c.Party == "store" && c.Method == "UpdateWorkload" && c.Target == target {
					first := false
					once.Do(func() { first = true })
					if first {
						close(reached)
						<-release
					}
				}
			}
			var reallocErr, repairErr error
			aDone, bDone := make(chan struct{}), make(chan struct{})
			go func() {
				defer close(aDone)
				reallocErr = w.C.ReallocResource(w.Ctx, &coretypes.ReallocOptions{ID: target,
					Resources: resourcetypes.Resources{pluginName: resourcetypes.RawParams{"keep-cpu-bind": true, "memory-request": memDelta, "memory-limit": memDelta}}})
			}()
			inside := false
			select {
			case <-reached:
				go func() {
					defer close(bDone)
					_, repairErr = w.C.NodeResource(w.Ctx, "n1", true)
				}()
				select {
				case <-bDone:
					inside = true // the repair completed while the realloc was stopped between its two writes
				case <-time.After(400 * time.Millisecond):
				}
				close(release)
				<-aDone
				<-bDone
			case <-aDone: // the realloc never reached UpdateWorkload (refused): nothing to interleave
				close(bDone)
				close(release)
			}
			w.IC.Gate = nil
			w.Quiesce()
			checkInfra(reallocErr)
			checkInfra(repairErr)
			wls := recorded(w, "n1")
			nr, err := w.C.NodeResource(w.Ctx, "n1", false)
			if err != nil {
				checkInfra(err)
				t.Fatalf("NodeResource: %v", err)
			}
			d := classify(nr.Diffs)
			wsTerms := []string{}
			for _, wl := range wls {
				wsTerms = append(wsTerms, coqWR(parseWR(wl.Resources[pluginName])))
			}
			if d.other > 0 {
				wsTerms = append(wsTerms, "(mkWR (fb 0%Z) (fb 0%Z) (-12345)%Z 0%Z [] [] \"\"%string)")
			}
			term := fmt.Sprintf("(mkLockCase %s %s %s %s)", vh.Bool(inside), coqNR(parseNR(nr.Usage[pluginName])), vh.List(wsTerms), d.coq())
			rl.Count("kind=" + kind)
			rl.Count(fmt.Sprintf("realloc_ok=%v", reallocErr == nil))
			rl.Count(fmt.Sprintf("repair_inside=%v", inside))
			rl.Add(term, map[string]any{"cores": ncpu, "target": target, "mem_delta": memDelta, "realloc_err": errStr(reallocErr), "repair_inside": inside, "final_diffs": nr.Diffs},
				map[string]any{"kind": kind}, reallocErr == nil)
		})
	}
	emitLock("corpus", 4, 2, 100)
	emitLock("corpus", 4, 3, -50)
	nl := rl.N(4, 60)
	for i := 0; i < nl; i++ {
		emitLock("random", 2+g.intn(5), 1+g.intn(3), int64(50*(g.intn(7)-2)))
	}
	rl.Finish("calcium world: Calcium.ReallocResource (memory delta -100..+200, keep-cpu-bind) stopped by the interception gate between rmgr.Realloc and store.UpdateWorkload; Calcium.NodeResource(fix=true) started meanwhile and given 400 ms; then both run to completion and Calcium.NodeResource(fix=false) is read. non-trivial = the realloc succeeded")
}
