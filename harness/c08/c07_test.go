package c08

// C07: the deploy capacity the manager reports against what allocation accepts.
// 1-3 nodes are filled by real allocations, Manager.GetNodesDeployCapacity is
// asked for a generated request, and Manager.Alloc is probed on every node with
// counts around the reported capacity (every accepted probe is rolled back).
// For memory-only requests k instances are then really committed and the
// capacity is read again.

import (
	"context"
	"fmt"
	"math"
	"strings"
	"testing"

	"verifharness/vh"

	"github.com/projecteru2/core/resource/plugins"
	plugintypes "github.com/projecteru2/core/resource/plugins/types"
	resourcetypes "github.com/projecteru2/core/resource/types"
)

// capFake is a second resource plugin answering from a table: it reports the
// entries of [answer] for the requested nodes, and its CalculateDeploy admits a
// count iff it is at most admit[node] (0 when absent).  A well-behaved plugin
// has answer = the nodes with admit > 0; the harness also builds ill-behaved
// ones (an entry with capacity 0).
type capFake struct {
	*faulty
	answer map[string]plugintypes.NodeDeployCapacity
	admit  map[string]int
}

func (f *capFake) Name() string { return "capfake" }
func (f *capFake) GetNodesDeployCapacity(_ context.Context, nodes []string, _ resourcetypes.RawParams) (*plugintypes.GetNodesDeployCapacityResponse, error) {
	m := map[string]*plugintypes.NodeDeployCapacity{}
	for _, n := range nodes {
		if v, ok := f.answer[n]; ok {
			v := v
			m[n] = &v
		}
	}
	return &plugintypes.GetNodesDeployCapacityResponse{NodeDeployCapacityMap: m}, nil
}
func (f *capFake) CalculateDeploy(ctx context.Context, node string, count int, raw resourcetypes.RawParams) (*plugintypes.CalculateDeployResponse, error) {
	if count > f.admit[node] {
		return nil, errInjected
	}
	return f.faulty.CalculateDeploy(ctx, node, count, raw)
}

func coqFNdc(v *plugintypes.NodeDeployCapacity) string {
	return fmt.Sprintf("(mkNdc %s %s %s %s)", vh.Z(int64(v.Capacity)), vh.F64(v.Usage), vh.F64(v.Rate), vh.F64(v.Weight))
}

func (g gen) capRequest() (resourcetypes.RawParams, string) {
	if g.chance(0.5) { // bound
		cpu := []float64{1, 2, 0.5, 1.5, 0.3, 3, 0.25, 1.2, 9}[g.intn(9)]
		mem := []int64{0, 0, 100, 250, 1000, 3000}[g.intn(6)]
		return resourcetypes.RawParams{"cpu-bind": true, "cpu-request": cpu, "cpu-limit": cpu, "memory-request": mem, "memory-limit": mem}, "bound"
	}
	cpu := []float64{0, 0.5, 1, 2, 9, 0.3}[g.intn(6)]
	mem := []int64{0, 1, 100, 250, 333, 1000, 5000, 100000}[g.intn(8)]
	kind := "memory"
	if mem == 0 {
		kind = "unlimited"
	}
	return resourcetypes.RawParams{"cpu-request": cpu, "cpu-limit": cpu, "memory-request": mem, "memory-limit": mem}, kind
}

func TestC07(t *testing.T) {
	r := vh.New(t, "C07", "capacity")
	r.Coq("From Verif Require Import Base.GoFloat Cpumem.Types Cobalt.Merge Cobalt.Capacity.\nClose Scope Z_scope.", "Capacity.capcase", "Capacity.agree", "Capacity.ok")
	r.Shard = 40
	g := gen{r}
	w := newWorld(t, 100, -1)

	emit := func(kind string, specs []nodeSpec, prior int, fill int, opts resourcetypes.RawParams, reqKind string) {
		guarded(r, func() {
			names := []string{}
			for _, s := range specs {
				n := w.addNode(s)
				names = append(names, n)
				defer w.mgr.RemoveNode(w.ctx, n) //nolint
				for i := 0; i < prior; i++ {
					o, _ := g.allocOpts(false)
					w.mgr.Alloc(w.ctx, n, 1+g.intn(2), resourcetypes.Resources{pluginName: o}) //nolint
				}
			}
			// boundary states: fill a node's memory exactly (free memory 0), or over-commit it
			fillKind := "none"
			if fill > 0 {
				n0 := names[g.intn(len(names))]
				capacity, usage, _ := w.read(n0, nil)
				free := capacity.Memory - usage.Memory
				if free > 0 {
					full := resourcetypes.RawParams{"memory-request": free, "memory-limit": free}
					ws, _, err := w.mgr.Alloc(w.ctx, n0, 1, resourcetypes.Resources{pluginName: full})
					if err == nil {
						fillKind = "exact"
						if fill > 1 { // memory is not validated: a duplicate commit over-commits it
							if _, _, err := w.mgr.SetNodeResourceUsage(w.ctx, n0, nil, nil, ws, true, plugins.Incr); err == nil {
								fillKind = "overcommitted"
							}
						}
					}
				}
			}
			if opts == nil { // boundary-aware request, relative to the first node
				capacity, usage, _ := w.read(names[0], nil)
				cores := float64(len(capacity.CPUMap))
				free := capacity.Memory - usage.Memory
				cpu := []float64{cores, cores + 0.5, cores + 1, cores - 0.5, cores + 0.000000001, 0}[g.intn(6)]
				mem := []int64{0, free, free + 1, free / 2, free/2 + 1, free / 3, 1}[g.intn(7)]
				if mem < 0 {
					mem = 0
				}
				if g.chance(0.25) {
					opts, reqKind = resourcetypes.RawParams{"cpu-bind": true, "cpu-request": cpu, "cpu-limit": cpu, "memory-request": mem, "memory-limit": mem}, "bound"
				} else {
					opts, reqKind = resourcetypes.RawParams{"cpu-request": cpu, "cpu-limit": cpu, "memory-request": mem, "memory-limit": mem}, "memory"
					if mem == 0 {
						reqKind = "unlimited"
					}
				}
				reqKind += "-boundary"
			}
			r.Count("fill=" + fillKind)
			req := resourcetypes.Resources{pluginName: opts}
			res, total, err := w.mgr.GetNodesDeployCapacity(w.ctx, names, req)
			if err != nil {
				checkInfra(err)
				return // invalid request: not a case of this stream
			}
			nodeTerms := []string{}
			nodeDesc := []any{}
			anyOffered, anyUnlimited := false, false
			for i, n := range names {
				capacity, usage, _ := w.read(n, nil)
				info := fmt.Sprintf("(mkNI %s %s)", coqNR(capacity), coqNR(usage))
				obs := "None"
				c := 0
				if v, ok := res[n]; ok {
					obs = vh.Some(coqFNdc(v))
					c = v.Capacity
					anyOffered = true
				}
				// probes
				counts := []int{}
				if c == math.MaxInt64 {
					counts = []int{1, 7}
					anyUnlimited = true
				} else {
					for _, k := range []int{c - 1, c, c + 1, 1} {
						if k >= 1 && k <= 400 {
							counts = append(counts, k)
						}
					}
				}
				probes := []string{}
				probeDesc := []any{}
				for _, k := range counts {
					ws, _, err := w.mgr.Alloc(w.ctx, n, k, req)
					checkInfra(err)
					if err == nil {
						if rerr := w.mgr.RollbackAlloc(w.ctx, n, ws); rerr != nil {
							checkInfra(rerr)
							t.Fatalf("rollback: %v", rerr)
						}
					}
					probes = append(probes, vh.Pair(vh.Z(int64(k)), vh.Bool(err == nil)))
					probeDesc = append(probeDesc, map[string]any{"count": k, "accepted": err == nil})
				}
				// memory-only: really commit k and read the capacity again
				after := []string{}
				if !strings.HasPrefix(reqKind, "bound") && c >= 1 {
					k := 1 + g.intn(3)
					if k > c {
						k = c
					}
					ws, _, err := w.mgr.Alloc(w.ctx, n, k, req)
					checkInfra(err)
					if err == nil {
						res2, _, err2 := w.mgr.GetNodesDeployCapacity(w.ctx, []string{n}, req)
						if err2 != nil {
							checkInfra(err2)
							t.Fatalf("capacity after commit: %v", err2)
						}
						c2 := 0
						if v, ok := res2[n]; ok {
							c2 = v.Capacity
						}
						after = append(after, vh.Pair(vh.Z(int64(k)), vh.Z(int64(c2))))
						if rerr := w.mgr.RollbackAlloc(w.ctx, n, ws); rerr != nil {
							checkInfra(rerr)
							t.Fatalf("rollback: %v", rerr)
						}
					}
				}
				nodeTerms = append(nodeTerms, fmt.Sprintf("(mkCapNode %s %s %s %s %s)", str(n), info, obs, vh.List(probes), vh.List(after)))
				nodeDesc = append(nodeDesc, map[string]any{"node": specs[i], "capacity": capacity, "usage": usage, "reported": res[n], "probes": probeDesc})
			}
			term := fmt.Sprintf("(mkCapCase %s %s %s %s %s)", vh.Z(100), vh.Z(-1), coqReq(parseReq(opts)), vh.List(nodeTerms), vh.Z(int64(total)))
			r.Count("kind=" + kind)
			r.Count("request=" + reqKind)
			r.Count(fmt.Sprintf("nodes=%d", len(names)))
			r.Count(fmt.Sprintf("offered=%v", anyOffered))
			if anyUnlimited {
				r.Count("unlimited")
			}
			r.Add(term, map[string]any{"request": opts, "nodes": nodeDesc, "total": total},
				map[string]any{"kind": kind, "request": reqKind, "nodes": len(names)}, anyOffered)
		})
	}

	plain := nodeSpec{cores: 4, share: 100, memory: 4000, describe: "plain"}
	numa2 := nodeSpec{cores: 4, share: 100, memory: 4000, numa: [][]string{{"0", "2"}, {"1", "3"}}, numaMem: []int64{2000, 2000}, describe: "numa2"}
	small := nodeSpec{cores: 1, share: 100, memory: 1000, describe: "plain"}
	// corpus: unlimited + finite (the saturating total), zero capacity, bound with/without NUMA
	emit("corpus", []nodeSpec{plain, small}, 0, 0, resourcetypes.RawParams{"cpu-request": 0.5, "cpu-limit": 0.5}, "unlimited")
	emit("corpus", []nodeSpec{plain, small, numa2}, 1, 0, resourcetypes.RawParams{"memory-request": int64(300), "memory-limit": int64(300)}, "memory")
	emit("corpus", []nodeSpec{small, plain}, 0, 0, resourcetypes.RawParams{"cpu-request": 2.0, "cpu-limit": 2.0, "memory-request": int64(100), "memory-limit": int64(100)}, "memory")
	emit("corpus", []nodeSpec{plain, numa2}, 1, 0, resourcetypes.RawParams{"cpu-bind": true, "cpu-request": 1.0, "cpu-limit": 1.0, "memory-request": int64(500), "memory-limit": int64(500)}, "bound")
	emit("corpus", []nodeSpec{small}, 0, 0, resourcetypes.RawParams{"cpu-bind": true, "cpu-request": 2.0, "cpu-limit": 2.0}, "bound")

	// boundaries: a fractional cpu request just above the core count (memory-only and unlimited);
	// a node whose memory is exactly used up / over-committed asked for an unlimited request
	emit("corpus", []nodeSpec{plain}, 0, 0, resourcetypes.RawParams{"cpu-request": 4.5, "cpu-limit": 4.5, "memory-request": int64(100), "memory-limit": int64(100)}, "memory")
	emit("corpus", []nodeSpec{plain}, 0, 0, resourcetypes.RawParams{"cpu-request": 4.5, "cpu-limit": 4.5}, "unlimited")
	emit("corpus", []nodeSpec{plain}, 0, 0, resourcetypes.RawParams{"cpu-request": 4.0, "cpu-limit": 4.0, "memory-request": int64(100), "memory-limit": int64(100)}, "memory")
	emit("corpus", []nodeSpec{plain}, 1, 1, resourcetypes.RawParams{"cpu-request": 0.5, "cpu-limit": 0.5}, "unlimited")
	emit("corpus", []nodeSpec{plain, small}, 1, 2, resourcetypes.RawParams{"cpu-request": 0.5, "cpu-limit": 0.5}, "unlimited")
	emit("corpus", []nodeSpec{plain}, 0, 1, resourcetypes.RawParams{"memory-request": int64(1), "memory-limit": int64(1)}, "memory")

	n := r.N(110, 1500)
	for i := 0; i < n; i++ {
		specs := []nodeSpec{}
		for k := 1 + g.intn(3); k > 0; k-- {
			specs = append(specs, g.nodeSpec(100, g.chance(0.6)))
		}
		fill := 0
		if g.chance(0.25) {
			fill = 1 + g.intn(2)
		}
		if g.chance(0.35) {
			emit("random", specs, g.intn(4), fill, nil, "")
		} else {
			opts, kind := g.capRequest()
			emit("random", specs, g.intn(4), fill, opts, kind)
		}
	}
	r.Finish("1-3 nodes (1-8 cores, whole or odd shares, 0/2/3 NUMA nodes) with 0-3 prior allocations each; request bound (cpu 0.25-9, memory 0-3000) or memory-only (memory 0 = unlimited, 1-100000; cpu up to more than the node has); Manager.Alloc probed with capacity-1, capacity, capacity+1 and 1 (each accepted probe rolled back); for memory-only requests k<=3 instances are committed and the capacity re-read. non-trivial = at least one node offered")

	// ---- second stream: the manager with cpumem AND a second plugin answering from a table ----
	r2 := vh.New(t, "C07", "capacity2")
	r2.Coq("From Verif Require Import Base.GoFloat Cpumem.Types Cobalt.Merge Cobalt.Capacity.\nClose Scope Z_scope.", "Capacity.capcase2", "Capacity.agree2", "Capacity.ok2")
	r2.Shard = 40
	g2 := gen{r2}
	w2 := newWorld(t, 100, -1)
	fake := &capFake{faulty: &faulty{}}
	w2.mgr.AddPlugins(fake)

	emit2 := func(kind string, specs []nodeSpec, prior int, opts resourcetypes.RawParams, reqKind string, otherKind string) {
		guarded(r2, func() {
			fake.answer, fake.admit = map[string]plugintypes.NodeDeployCapacity{}, map[string]int{}
			names := []string{}
			for _, s := range specs {
				n := w2.addNode(s)
				names = append(names, n)
				defer w2.mgr.RemoveNode(w2.ctx, n) //nolint
				// while the node is being filled the second plugin admits everything
				fake.admit[n] = math.MaxInt64
				for i := 0; i < prior; i++ {
					o, _ := g2.allocOpts(false)
					w2.mgr.Alloc(w2.ctx, n, 1+g2.intn(2), resourcetypes.Resources{pluginName: o}) //nolint
				}
			}
			// the second plugin's table
			unfilteredZero := false
			fake.admit = map[string]int{}
			for _, n := range names {
				c := 0
				switch otherKind {
				case "empty": // no capacity on any node
				case "all":
					c = []int{1, 2, 3, 5, 50, math.MaxInt64}[g2.intn(6)]
				case "some":
					if g2.chance(0.5) {
						c = []int{1, 2, 3, 5, 50, math.MaxInt64}[g2.intn(6)]
					}
				case "unfiltered-zero": // ill-behaved: reports an entry with capacity 0
					c = []int{0, 0, 2, 5}[g2.intn(4)]
				}
				fake.admit[n] = c
				if c > 0 || otherKind == "unfiltered-zero" {
					fake.answer[n] = plugintypes.NodeDeployCapacity{Capacity: c, Usage: float64(g2.intn(101)) / 100, Rate: float64(g2.intn(101)) / 100, Weight: []float64{1, 2, 100}[g2.intn(3)]}
					if c == 0 {
						unfilteredZero = true
					}
				}
			}
			req := resourcetypes.Resources{pluginName: opts}
			// several calls: the merge order is the iteration order of a Go map
			type answer struct {
				res   map[string]*plugintypes.NodeDeployCapacity
				total int
			}
			var answers []answer
			distinct := map[string]bool{}
			for k := 0; k < 8; k++ {
				res, total, err := w2.mgr.GetNodesDeployCapacity(w2.ctx, names, req)
				if err != nil {
					checkInfra(err)
					return // invalid request
				}
				key := fmt.Sprint(total)
				for _, n := range names {
					if v, ok := res[n]; ok {
						key += "|" + n + coqFNdc(v)
					}
				}
				if !distinct[key] {
					distinct[key] = true
					answers = append(answers, answer{res, total})
				}
			}
			otherTerms, admitTerms := []string{}, []string{}
			for _, n := range names {
				if v, ok := fake.answer[n]; ok {
					v := v
					otherTerms = append(otherTerms, vh.Pair(str(n), coqFNdc(&v)))
				}
				admitTerms = append(admitTerms, vh.Pair(str(n), vh.Z(int64(fake.admit[n]))))
			}
			// one case per distinct answer of the manager; the probes are shared
			infos := map[string]string{}
			for _, n := range names {
				capacity, usage, _ := w2.read(n, nil)
				infos[n] = fmt.Sprintf("(mkNI %s %s)", coqNR(capacity), coqNR(usage))
			}
			for _, a := range answers {
				nodeTerms := []string{}
				nodeDesc := []any{}
				offered := false
				for _, n := range names {
					obs := "None"
					c := 0
					if v, ok := a.res[n]; ok {
						obs = vh.Some(coqFNdc(v))
						c = v.Capacity
						offered = true
					}
					counts := []int{}
					if c == math.MaxInt64 {
						counts = []int{1, 7}
					} else {
						for _, k := range []int{c - 1, c, c + 1, 1} {
							if k >= 1 && k <= 400 {
								counts = append(counts, k)
							}
						}
					}
					probes := []string{}
					probeDesc := []any{}
					for _, k := range counts {
						ws, _, err := w2.mgr.Alloc(w2.ctx, n, k, req)
						checkInfra(err)
						if err == nil {
							if rerr := w2.mgr.RollbackAlloc(w2.ctx, n, ws); rerr != nil {
								checkInfra(rerr)
								t.Fatalf("rollback: %v", rerr)
							}
						}
						probes = append(probes, vh.Pair(vh.Z(int64(k)), vh.Bool(err == nil)))
						probeDesc = append(probeDesc, map[string]any{"count": k, "accepted": err == nil})
					}
					nodeTerms = append(nodeTerms, fmt.Sprintf("(mkCapNode %s %s %s %s [])", str(n), infos[n], obs, vh.List(probes)))
					nodeDesc = append(nodeDesc, map[string]any{"node": n, "reported": a.res[n], "other_admits": fake.admit[n], "probes": probeDesc})
				}
				term := fmt.Sprintf("(mkCapCase2 %s %s %s %s %s %s %s)", vh.Z(100), vh.Z(-1), coqReq(parseReq(opts)), vh.List(otherTerms), vh.List(admitTerms), vh.List(nodeTerms), vh.Z(int64(a.total)))
				r2.Count("kind=" + kind)
				r2.Count("request=" + reqKind)
				r2.Count("other=" + otherKind)
				r2.Count(fmt.Sprintf("distinct_answers=%d", len(answers)))
				r2.Count(fmt.Sprintf("offered=%v", offered))
				r2.Add(term, map[string]any{"request": opts, "other_plugin": otherKind, "nodes": nodeDesc, "total": a.total},
					map[string]any{"kind": kind, "request": reqKind, "other": otherKind, "unfiltered_zero": unfilteredZero}, offered || otherKind == "empty")
			}
		})
	}
	mem300 := resourcetypes.RawParams{"memory-request": int64(300), "memory-limit": int64(300)}
	// corpus: the second plugin has no capacity anywhere (the witness of seeded/C07-cobalt-merge-empty-first-answer),
	// offers everything, offers a subset; a bound request; the ill-behaved zero entry
	emit2("corpus", []nodeSpec{plain, small}, 0, mem300, "memory", "empty")
	emit2("corpus", []nodeSpec{plain}, 1, mem300, "memory", "empty")
	emit2("corpus", []nodeSpec{plain, small}, 0, mem300, "memory", "all")
	emit2("corpus", []nodeSpec{plain, small, numa2}, 1, mem300, "memory", "some")
	emit2("corpus", []nodeSpec{plain, numa2}, 1, resourcetypes.RawParams{"cpu-bind": true, "cpu-request": 1.0, "cpu-limit": 1.0, "memory-request": int64(100), "memory-limit": int64(100)}, "bound", "some")
	emit2("corpus", []nodeSpec{plain, small}, 0, resourcetypes.RawParams{"cpu-request": 0.5, "cpu-limit": 0.5}, "unlimited", "all")
	emit2("corpus", []nodeSpec{plain, small}, 0, mem300, "memory", "unfiltered-zero")
	n2 := r2.N(40, 600)
	for i := 0; i < n2; i++ {
		specs := []nodeSpec{}
		for k := 1 + g2.intn(3); k > 0; k-- {
			specs = append(specs, g2.nodeSpec(100, g2.chance(0.6)))
		}
		opts, kind := g2.capRequest()
		other := []string{"empty", "empty", "all", "all", "some", "some", "some", "unfiltered-zero"}[g2.intn(8)]
		emit2("random", specs, g2.intn(3), opts, kind, other)
	}
	r2.Finish("the manager with cpumem and a second plugin answering from a table: no capacity on any node (empty answer), capacity on every node, on a random subset, or (ill-behaved) an entry with capacity 0; the capacity map is asked 8 times (merge order = Go map order), one case per distinct answer; Manager.Alloc probed with capacity-1, capacity, capacity+1 and 1 on every node (the second plugin admits a count iff it is within its capacity). non-trivial = a node is offered or the second plugin's answer is empty")

	// ---- third stream: the plugin's own Total when the requested node names contain repeats ----
	r3 := vh.New(t, "C07", "ptotal")
	r3.Coq("From Verif Require Import Base.GoFloat Cpumem.Types Cobalt.Merge Cobalt.Capacity.\nClose Scope Z_scope.", "Capacity.ptcase", "Capacity.agree_pt", "Capacity.ok_pt")
	g3 := gen{r3}
	emit3 := func(kind string, specs []nodeSpec, pattern []int, opts resourcetypes.RawParams) {
		guarded(r3, func() {
			names := []string{}
			for _, s := range specs {
				n := w.addNode(s)
				names = append(names, n)
				defer w.mgr.RemoveNode(w.ctx, n) //nolint
			}
			asked := []string{}
			for _, k := range pattern {
				asked = append(asked, names[k%len(names)])
			}
			resp, err := w.pl.GetNodesDeployCapacity(w.ctx, asked, opts)
			if err != nil {
				checkInfra(err)
				return
			}
			caps := []int64{}
			for _, n := range names {
				if v, ok := resp.NodeDeployCapacityMap[n]; ok {
					caps = append(caps, int64(v.Capacity))
				}
			}
			repeats := len(asked) - len(map[string]bool{})
			seen := map[string]bool{}
			for _, a := range asked {
				seen[a] = true
			}
			repeats = len(asked) - len(seen)
			r3.Count("kind=" + kind)
			r3.Count(fmt.Sprintf("repeats=%d", repeats))
			r3.Add(fmt.Sprintf("(mkPtCase %s %s)", vh.ZList(caps), vh.Z(int64(resp.Total))),
				map[string]any{"asked": asked, "capacities": caps, "total": resp.Total, "request": opts},
				map[string]any{"kind": kind, "repeats": repeats}, repeats > 0 && len(caps) > 0)
		})
	}
	mem1000 := resourcetypes.RawParams{"memory-request": int64(1000), "memory-limit": int64(1000)}
	emit3("corpus", []nodeSpec{plain, plain}, []int{0, 1, 0}, mem1000) // [a, b, a]: 4 + 4, not 12
	emit3("corpus", []nodeSpec{plain}, []int{0, 0, 0}, mem1000)
	emit3("corpus", []nodeSpec{plain, small}, []int{0, 1}, mem1000)
	emit3("corpus", []nodeSpec{plain, small}, []int{1, 0, 1, 0}, resourcetypes.RawParams{"cpu-request": 0.5, "cpu-limit": 0.5}) // unlimited, repeated
	n3 := r3.N(20, 300)
	for i := 0; i < n3; i++ {
		specs := []nodeSpec{}
		for k := 1 + g3.intn(3); k > 0; k-- {
			specs = append(specs, g3.nodeSpec(100, g3.chance(0.6)))
		}
		pattern := []int{}
		for k := 1 + g3.intn(5); k > 0; k-- {
			pattern = append(pattern, g3.intn(3))
		}
		opts, _ := g3.capRequest()
		emit3("random", specs, pattern, opts)
	}
	r3.Finish("Plugin.GetNodesDeployCapacity of cpumem called with lists of 1-5 node names over 1-3 nodes, with repeats ([a,b,a], [a,a,a], ...): capacities of the returned map and the returned Total. non-trivial = a name is repeated and a node is offered")
}
