// Package c30: run-and-wait (lambda) runs on the REAL Calcium (harness/cw) with
// scripted engine outcomes and an optional single injected fault; same case type
// and model as C10 (Calcium/Run.v), property reflection Run.ok_c30.
package c30

import (
	"testing"

	"verifharness/c10"
	"verifharness/cw"
	"verifharness/vh"
)

func TestC30(t *testing.T) {
	r := vh.New(t, "C30", "lambda")
	r.Shard = 5
	r.Coq("From Verif Require Import Base.Effects Calcium.World Calcium.Ops Calcium.Run.", "Run.case", "Run.agree", "Run.ok_c30")

	type scen struct {
		name   string
		op     c10.Op
		fault  *c10.FaultSpec
		before int // live workloads to create first
		strict bool // the engine refuses to remove a running container without force (as docker does)
	}
	ok := cw.LambdaScript{ExitCode: 7}
	corpus := []scen{
		{"plain-exit7", c10.Op{Kind: "lambda", Pod: 0, Count: 2, CPU: 50, Mem: 100, Lines: 2, Script: ok}, nil, 1, false},
		{"wal-log-lambda-fails", c10.Op{Kind: "lambda", Pod: 0, Count: 1, CPU: 50, Mem: 100, Lines: 1, Script: ok}, &c10.FaultSpec{Method: "Log", Target: "create-lambda", Ord: 0}, 0, false},
		{"logs-fail", c10.Op{Kind: "lambda", Pod: 1, Count: 2, CPU: 50, Mem: 100, Lines: 1, Script: cw.LambdaScript{LogsErr: true}}, nil, 0, false},
		{"wait-fails", c10.Op{Kind: "lambda", Pod: 0, Count: 1, CPU: 50, Mem: 100, Lines: 1, Script: cw.LambdaScript{WaitErr: true}}, nil, 0, false},
		{"stdin-attach-fails", c10.Op{Kind: "lambda", Pod: 0, Count: 1, CPU: 50, Mem: 100, Stdin: true, Script: cw.LambdaScript{AttachErr: true}}, nil, 0, false},
		{"stdin-count-2-rejected", c10.Op{Kind: "lambda", Pod: 0, Count: 2, CPU: 50, Mem: 100, Stdin: true, Script: ok}, nil, 0, false},
		{"create-fails-start", c10.Op{Kind: "lambda", Pod: 0, Count: 3, CPU: 50, Mem: 100, Lines: 1, Script: ok}, &c10.FaultSpec{Method: "VirtualizationStart", Target: "*", Ord: 1}, 0, false},
		{"remove-engine-fails", c10.Op{Kind: "lambda", Pod: 0, Count: 1, CPU: 50, Mem: 100, Lines: 1, Script: ok}, &c10.FaultSpec{Method: "VirtualizationRemove", Target: "*", Ord: 0}, 0, false},
		{"alloc-insufficient", c10.Op{Kind: "lambda", Pod: 0, Count: 3, CPU: 50, Mem: 5000, Script: ok}, nil, 0, false},
		{"caller-cancels-before-wait", c10.Op{Kind: "lambda", Pod: 0, Count: 1, CPU: 50, Mem: 100, Lines: 2, Script: ok, CancelAt: "VirtualizationWait"}, nil, 1, false},
		{"caller-cancels-before-logs", c10.Op{Kind: "lambda", Pod: 1, Count: 1, CPU: 50, Mem: 100, Lines: 1, Script: ok, CancelAt: "VirtualizationLogs"}, nil, 0, false},
		{"rpc-plain", c10.Op{Kind: "lambda", Pod: 0, Count: 2, CPU: 50, Mem: 100, Lines: 1, Script: ok, RPC: true}, nil, 0, false},
		{"rpc-send-fails-from-first", c10.Op{Kind: "lambda", Pod: 0, Count: 1, CPU: 50, Mem: 100, Lines: 2, Script: ok, RPC: true, RPCSendFailFrom: 1}, nil, 1, false},
		{"rpc-send-fails-mid-stream", c10.Op{Kind: "lambda", Pod: 0, Count: 2, CPU: 50, Mem: 100, Lines: 2, Script: ok, RPC: true, RPCSendFailFrom: 3}, nil, 0, false},
		{"rpc-stdin-rejected", c10.Op{Kind: "lambda", Pod: 0, Count: 2, CPU: 50, Mem: 100, Stdin: true, Script: ok, RPC: true}, nil, 0, false},
		// engine failures with the container still RUNNING, on an engine that refuses unforced removal of a running container:
		// the clean-up has to remove with force
		{"strict-logs-fail", c10.Op{Kind: "lambda", Pod: 0, Count: 1, CPU: 50, Mem: 100, Lines: 1, Script: cw.LambdaScript{LogsErr: true}}, nil, 1, true},
		{"strict-wait-fails", c10.Op{Kind: "lambda", Pod: 1, Count: 2, CPU: 50, Mem: 100, Lines: 1, Script: cw.LambdaScript{WaitErr: true}}, nil, 0, true},
		{"strict-stdin-attach-fails", c10.Op{Kind: "lambda", Pod: 0, Count: 1, CPU: 50, Mem: 100, Stdin: true, Script: cw.LambdaScript{AttachErr: true}}, nil, 0, true},
		{"strict-wait-call-fails", c10.Op{Kind: "lambda", Pod: 0, Count: 1, CPU: 50, Mem: 100, Lines: 1, Script: ok}, &c10.FaultSpec{Method: "VirtualizationWait", Target: "*", Ord: 0}, 0, true},
		{"strict-plain", c10.Op{Kind: "lambda", Pod: 0, Count: 2, CPU: 50, Mem: 100, Lines: 1, Script: ok}, nil, 0, true},
		// stdin run-and-wait whose caller keeps its input channel open (the driver passes a channel it never closes) until
		// after the workload's output has ended: the exit code must still be reported, the workload removed, the stream closed
		{"stdin-input-kept-open", c10.Op{Kind: "lambda", Pod: 0, Count: 1, CPU: 50, Mem: 100, Stdin: true, Lines: 2, Script: ok}, nil, 0, false},
		{"strict-stdin-input-kept-open", c10.Op{Kind: "lambda", Pod: 1, Count: 1, CPU: 50, Mem: 100, Stdin: true, Lines: 1, Script: cw.LambdaScript{ExitCode: 0}}, nil, 1, true},
		{"wait-call-fails", c10.Op{Kind: "lambda", Pod: 0, Count: 1, CPU: 50, Mem: 100, Lines: 1, Script: ok}, &c10.FaultSpec{Method: "VirtualizationWait", Target: "*", Ord: 0}, 0, false},
	}
	run := func(s scen, tag string) {
		d := c10.NewDriver(t, r.Rng, s.strict)
		h := &c10.History{Strict: s.strict}
		d.Setup(h, 2, 3, 1000)
		if s.before > 0 {
			h.Steps = append(h.Steps, d.Run(c10.Op{Kind: "create", Opi: d.NextOpi(), Pod: 0, Count: s.before, CPU: 50, Mem: 100}, nil))
		}
		o := s.op
		o.Opi = d.NextOpi()
		st := d.Run(o, s.fault)
		if st.Hit == "" {
			st.Fault = nil
		}
		h.Steps = append(h.Steps, st)
		r.Count("count=" + vh.Nat(o.Count))
		if o.Stdin {
			r.Count("stdin")
			if o.Count == 1 && !o.Script.AttachErr && !o.Script.LogsErr && st.Err == 0 {
				r.Count("stdin-input-kept-open") // the run got as far as the input pump; the caller never closes its input
			}
		}
		if o.Script.LogsErr || o.Script.AttachErr || o.Script.WaitErr {
			r.Count("engine-outcome-error")
		}
		extra := map[string]any{}
		if tag != "" {
			extra["corpus"] = tag
		}
		c10.Emit(r, h, extra)
		d.Close()
	}
	for _, s := range corpus {
		run(s, s.name)
	}
	n := r.N(12, 600)
	for i := 0; i < n; i++ {
		d0 := c10.NewDriver(t, r.Rng, false)
		o, _ := d0.RandomOp([]string{"lambda"})
		var f *c10.FaultSpec
		if r.Rng.Intn(10) < 6 {
			f = d0.ArmFor(o)
			// lock-party faults are schedule-dependent when several lambdas remove concurrently
			if o.Count > 1 && (f.Method == "CreateLock" || f.Method == "Lock" || f.Method == "GetNode") {
				f = nil
			}
		}
		d0.Close()
		switch r.Rng.Intn(5) {
		case 0:
			if o.Count == 1 && f == nil {
				o.CancelAt = []string{"VirtualizationWait", "VirtualizationLogs"}[r.Rng.Intn(2)]
				r.Count("caller-cancel")
			}
		case 1, 2:
			o.RPC = true
			o.RPCSendFailFrom = []int{0, 1, 2, 4}[r.Rng.Intn(4)]
			r.Count("rpc")
		}
		run(scen{op: o, fault: f, before: r.Rng.Intn(3), strict: r.Rng.Intn(2) == 0}, "")
	}
	r.Finish("run-and-wait calls (count 1-3, stdin on/off, scripted logs/attach/wait outcomes, exit code 0 or 7) on 2 pods x 3 nodes of the real Calcium with an optional single injected fault; corpus of fixed scenarios first; non-trivial = a fault was hit or the call returned an error")
}
