// C18 correspondence harness: N contenders (goroutines, one lock object each,
// created by the real store.CreateLock) race for one distributed lock on the
// real etcd-backed and redis-backed implementations; the client-visible event
// log (and, for etcd, the watch history of the lock prefix) is emitted as a Coq
// term and replayed through the models' trace acceptors (agree) and the
// boolean reflection of the property (ok18).
package c18

import (
	"context"
	"fmt"
	"os"
	"sync"
	"testing"
	"time"

	"verifharness/locklog"
	"verifharness/vh"

	"github.com/alicebob/miniredis/v2"
	"github.com/projecteru2/core/cluster/calcium"
	"github.com/projecteru2/core/lock"
	clientv3 "go.etcd.io/etcd/client/v3"
)

type cplan struct {
	Op      string `json:"op"`
	DelayMs int    `json:"delay_ms"`
	HoldMs  int    `json:"hold_ms"`
	TmoMs   int    `json:"timeout_ms"` // the lock's wait time-out (CreateLock / doLock argument)
	// the caller's context: "background" (no deadline), "longer" / "shorter" (own
	// deadline CallerMs after the call, later / earlier than the lock's
	// time-out), "cancelled" (already cancelled when the call is made)
	Ctx      string `json:"ctx"`
	CallerMs int    `json:"caller_deadline_ms,omitempty"`
	// effective wait time-out = min(lock time-out, caller deadline); 0 when cancelled
	EffMs int `json:"effective_timeout_ms"`
}

const (
	ctxBackground = "background"
	ctxLonger     = "longer"
	ctxShorter    = "shorter"
	ctxCancelled  = "cancelled"
)

// with sets the caller-context kind of a contender.
func (c cplan) with(kind string, callerMs int) cplan {
	c.Ctx, c.CallerMs = kind, callerMs
	return c.fin()
}

func (c cplan) fin() cplan {
	if c.Ctx == "" {
		c.Ctx = ctxBackground
	}
	switch c.Ctx {
	case ctxShorter:
		c.EffMs = c.CallerMs
	case ctxCancelled:
		c.EffMs = 0
	default:
		c.EffMs = c.TmoMs
	}
	return c
}

func (p plan) fin() plan {
	for i := range p.C {
		p.C[i] = p.C[i].fin()
	}
	return p
}

// callerCtx makes the context a contender calls with (at call time).
func callerCtx(parent context.Context, c cplan) (context.Context, context.CancelFunc) {
	switch c.Ctx {
	case ctxLonger, ctxShorter:
		return context.WithTimeout(parent, time.Duration(c.CallerMs)*time.Millisecond)
	case ctxCancelled:
		ctx, cancel := context.WithCancel(parent)
		cancel()
		return ctx, cancel
	}
	return parent, func() {}
}

// drawCtx draws the caller-context kind of a random contender: 40% background,
// 30% longer (lock time-out + 1500..3000 ms), 20% shorter (40..80% of the lock
// time-out, at least minShort), 10% cancelled; try-locks only background / longer.
func drawCtx(r *vh.Run, c cplan, minShort int) cplan {
	x := r.Rng.Intn(100)
	if c.Op == locklog.OpTry {
		if x < 57 {
			return c.with(ctxBackground, 0)
		}
		return c.with(ctxLonger, c.TmoMs+1500+r.Rng.Intn(1501))
	}
	switch {
	case x < 40:
		return c.with(ctxBackground, 0)
	case x < 70:
		return c.with(ctxLonger, c.TmoMs+1500+r.Rng.Intn(1501))
	case x < 90:
		d := c.TmoMs * (40 + r.Rng.Intn(41)) / 100
		if d < minShort {
			d = minShort
		}
		if d >= c.TmoMs {
			return c.with(ctxBackground, 0)
		}
		return c.with(ctxShorter, d)
	}
	return c.with(ctxCancelled, 0)
}

type plan struct {
	Name string  `json:"name"`
	C    []cplan `json:"contenders"`
	// Via: "store" = lock objects from store.CreateLock, Lock/TryLock/Unlock
	// called on them; "calcium" = the cluster-level cluster/calcium/lock.go:
	// doLock (CreateLock + Lock, own rollback Unlock on failure) and doUnlock
	Via string `json:"via"`
}

type result struct {
	evs        []locklog.Ev
	muts       []locklog.Mut
	infra      string // non-empty: the infrastructure of the run failed
	unlockErrs int
	hbMs       int64 // etcd: largest heartbeat write latency during the run
	gapMs      int64 // largest scheduling gap of the in-process probe during the run
	pingMs     int64 // redis: largest PING latency against the run's miniredis
	attempts   int
	errs       []string // texts of errors canonicalised to FOther (diagnosis only)
	rank       []int    // calcium/etcd: provisional contender id -> emitted index (rank of its lease)
}

func lk(delay, hold, tmo int) cplan {
	return cplan{Op: locklog.OpLock, DelayMs: delay, HoldMs: hold, TmoMs: tmo}.fin()
}
func try(delay, hold, tmo int) cplan {
	return cplan{Op: locklog.OpTry, DelayMs: delay, HoldMs: hold, TmoMs: tmo}.fin()
}

// corpus: fixed plans; long = the largest admissible wait time-out of the backend
func corpus(backend string) []plan {
	long := 999
	if backend == "redis" {
		long = 1200
	}
	ps := []plan{
		{Name: "a-second-waits-for-first", C: []cplan{lk(0, 80, long), lk(30, 10, long)}},
		{Name: "b-trylock-busy", C: []cplan{lk(0, 600, long), try(100, 10, long)}},
		{Name: "c-wait-timeout", C: []cplan{lk(0, 400, long), lk(50, 10, 150)}}, // etcd: replaced below
		{Name: "d-six-lockers", C: []cplan{lk(0, 10, long), lk(0, 10, long), lk(0, 10, long), lk(0, 10, long), lk(0, 10, long), lk(0, 10, long)}},
		{Name: "e-single-lock", C: []cplan{lk(0, 20, long)}},
		{Name: "e-single-trylock", C: []cplan{try(0, 20, long)}},
	}
	if backend == "redis" {
		ps = append(ps, plan{Name: "f-acquire-on-retry", C: []cplan{lk(0, 200, 1200), lk(50, 10, 1200)}})
		// a try-lock on a lock that stays held well beyond the try-lock bound, and one
		// started 100 ms before the holder leaves (a retrying try-lock would get in)
		ps = append(ps, plan{Name: "g-trylock-long-hold", C: []cplan{lk(0, 900, 1200), try(50, 10, 1200)}})
		ps = append(ps, plan{Name: "h-trylock-before-exit", C: []cplan{lk(0, 400, 1200), try(300, 10, 1200)}})
	} else {
		// etcd wait time-outs are >= 300 ms (see stalled below)
		ps[2] = plan{Name: "c-wait-timeout", C: []cplan{lk(0, 700, long), lk(50, 10, 300)}}
	}
	// the caller's own context: a waiter whose context carries a LATER deadline
	// than the lock's wait time-out must still fail at the time-out (the holder
	// releases before the caller's deadline); a waiter with an EARLIER deadline
	// fails at that deadline; a Lock called with a cancelled context fails at once
	ps = append(ps,
		plan{Name: "i-longer-caller-deadline", C: []cplan{lk(0, 900, long), lk(50, 10, 400).with(ctxLonger, 3000)}},
		plan{Name: "j-shorter-caller-deadline", C: []cplan{lk(0, 900, long), lk(50, 10, 900).with(ctxShorter, 300)}},
		plan{Name: "k-cancelled-on-free-lock", C: []cplan{lk(0, 10, long).with(ctxCancelled, 0)}},
		plan{Name: "l-cancelled-while-held", C: []cplan{lk(0, 300, long), lk(50, 10, long).with(ctxCancelled, 0)}})
	for i := range ps {
		ps[i] = ps[i].fin()
	}
	return ps
}

func randomPlan(r *vh.Run, backend string, k int) plan {
	n := 2 + r.Rng.Intn(5)
	p := plan{Name: fmt.Sprintf("random-%d", k)}
	minTmo, minShort := 300, 200 // etcd: see notValidated
	if backend == "redis" {
		minTmo, minShort = 150, 100
	}
	if r.Rng.Intn(100) < 35 {
		// a holder that outlasts the lock time-out of the waiters but releases
		// before their own (later) deadlines: every waiter must fail at its
		// time-out, none may acquire late
		p.Name = fmt.Sprintf("random-outlast-%d", k)
		hold := 800 + r.Rng.Intn(301)
		long := 999
		if backend == "redis" {
			long = 1200
		}
		p.C = append(p.C, cplan{Op: locklog.OpLock, DelayMs: 0, HoldMs: hold, TmoMs: long}.with(ctxBackground, 0))
		for i := 1; i < n; i++ {
			tmo := minTmo + r.Rng.Intn(hold-450-minTmo+1)
			c := cplan{Op: locklog.OpLock, DelayMs: 20 + r.Rng.Intn(81), HoldMs: 5 + r.Rng.Intn(46), TmoMs: tmo}
			p.C = append(p.C, c.with(ctxLonger, tmo+1500+r.Rng.Intn(1501)))
		}
		return p
	}
	if backend == "redis" && r.Rng.Intn(10) < 3 {
		// one long holder; the others start inside its hold, half of them with
		// TryLock; time-outs above the 500 ms retry period
		p.Name = fmt.Sprintf("random-holder-%d", k)
		hold := 400 + r.Rng.Intn(501)
		p.C = append(p.C, cplan{Op: locklog.OpLock, DelayMs: 0, HoldMs: hold, TmoMs: 600 + r.Rng.Intn(601)})
		for i := 1; i < n; i++ {
			c := cplan{Op: locklog.OpLock, DelayMs: 20 + r.Rng.Intn(hold-70), HoldMs: 5 + r.Rng.Intn(46), TmoMs: 600 + r.Rng.Intn(601)}
			if r.Rng.Intn(2) == 0 {
				c.Op = locklog.OpTry
			}
			p.C = append(p.C, drawCtx(r, c, minShort))
		}
		return p.fin()
	}
	// a third of the plans have long critical sections, so that waiting Locks
	// also run into their time-out
	slow := r.Rng.Intn(3) == 0
	if slow {
		p.Name = fmt.Sprintf("random-slow-%d", k)
	}
	for i := 0; i < n; i++ {
		c := cplan{Op: locklog.OpLock, DelayMs: r.Rng.Intn(61), HoldMs: 5 + r.Rng.Intn(46)}
		if slow {
			c.HoldMs = 100 + r.Rng.Intn(251)
		}
		if r.Rng.Intn(10) >= 7 {
			c.Op = locklog.OpTry
		}
		if backend == "redis" {
			c.TmoMs = 100 + r.Rng.Intn(1101) // below and above the fixed 500 ms retry period
		} else {
			c.TmoMs = 300 + r.Rng.Intn(700) // < 1000: session TTL stays the default 60 s
		}
		p.C = append(p.C, drawCtx(r, c, minShort))
	}
	return p
}

func ttls(p plan) []time.Duration {
	d := make([]time.Duration, len(p.C))
	for i, c := range p.C {
		d[i] = time.Duration(c.TmoMs) * time.Millisecond
	}
	return d
}

// runContenders starts one goroutine per contender and returns the event log.
func runContenders(locks []lock.DistributedLock, p plan, res *result) {
	ctx, cancel := context.WithTimeout(context.Background(), 15*time.Second)
	defer cancel()
	var wg sync.WaitGroup
	var mu sync.Mutex
	L := locklog.NewLog()
	for i := range p.C {
		wg.Add(1)
		go func(i int) {
			defer wg.Done()
			c := p.C[i]
			time.Sleep(time.Duration(c.DelayMs) * time.Millisecond)
			cctx, ccancel := callerCtx(ctx, c) // the caller's own context, made at call time
			defer ccancel()
			L.Call(i, c.Op)
			_, err, panicked := locklog.Acquire(cctx, locks[i], c.Op)
			if err != nil || panicked {
				f := locklog.ClassifyFail(c.Op, err, panicked)
				L.Fail(i, f)
				if f == "FOther" {
					mu.Lock()
					res.errs = append(res.errs, fmt.Sprintf("%d: %v", i, err))
					mu.Unlock()
				}
				_ = locklog.Unlock(ctx, locks[i]) // cleanup (closes the etcd session); not logged
				return
			}
			L.Enter(i)
			time.Sleep(time.Duration(c.HoldMs) * time.Millisecond)
			L.Exit(i)
			uerr := locklog.Unlock(ctx, locks[i])
			L.URet(i)
			if uerr != nil {
				mu.Lock()
				res.unlockErrs++
				mu.Unlock()
			}
		}(i)
	}
	wg.Wait()
	res.evs = L.Events()
}

// corpus and random plans of the cluster-level runs: only Lock exists there
func calciumPlans(r *vh.Run, backend string) []plan {
	long := 999
	if backend == "redis" {
		long = 1200
	}
	ps := []plan{
		{Name: "calcium-hand-over", C: []cplan{lk(0, 80, long), lk(30, 10, long)}},
		{Name: "calcium-wait-timeout", C: []cplan{lk(0, 400, long), lk(50, 10, 150)}},
		{Name: "calcium-six-lockers", C: []cplan{lk(0, 10, long), lk(0, 10, long), lk(0, 10, long), lk(0, 10, long), lk(0, 10, long), lk(0, 10, long)}},
	}
	if backend == "etcd" {
		ps[1] = plan{Name: "calcium-wait-timeout", C: []cplan{lk(0, 700, long), lk(50, 10, 300)}}
	}
	ps = append(ps,
		plan{Name: "calcium-longer-caller-deadline", C: []cplan{lk(0, 900, long), lk(50, 10, 400).with(ctxLonger, 3000)}},
		plan{Name: "calcium-shorter-and-cancelled", C: []cplan{lk(0, 600, long), lk(50, 10, 900).with(ctxShorter, 300), lk(80, 10, long).with(ctxCancelled, 0)}})
	for k, n := 0, r.N(8, 100); k < n; k++ {
		p := randomPlan(r, backend, k)
		p.Name = "calcium-" + p.Name
		for i := range p.C {
			p.C[i].Op = locklog.OpLock
		}
		ps = append(ps, p)
	}
	for i := range ps {
		ps[i].Via = "calcium"
		ps[i] = ps[i].fin()
	}
	return ps
}

// runCalciumContenders: one goroutine per contender through the real
// Calcium.doLock / doUnlock (hook file cluster/calcium/export_f_verif.go).  The
// lock objects are created inside doLock; they are returned in locks (doLock
// returns the object also when Lock failed).
func runCalciumContenders(c *calcium.Calcium, key string, p plan, res *result) (locks []lock.DistributedLock) {
	ctx, cancel := context.WithTimeout(context.Background(), 15*time.Second)
	defer cancel()
	var wg sync.WaitGroup
	var mu sync.Mutex
	locks = make([]lock.DistributedLock, len(p.C))
	L := locklog.NewLog()
	for i := range p.C {
		wg.Add(1)
		go func(i int) {
			defer wg.Done()
			cp := p.C[i]
			time.Sleep(time.Duration(cp.DelayMs) * time.Millisecond)
			cctx, ccancel := callerCtx(ctx, cp) // the caller's own context, made at call time
			defer ccancel()
			L.Call(i, locklog.OpLock)
			var l lock.DistributedLock
			var err error
			panicked := false
			func() {
				defer func() {
					if pv := recover(); pv != nil {
						err, panicked = fmt.Errorf("panic: %v", pv), true
					}
				}()
				l, _, err = c.VerifFDoLock(cctx, key, time.Duration(cp.TmoMs)*time.Millisecond)
			}()
			mu.Lock()
			locks[i] = l
			mu.Unlock()
			if err != nil || panicked {
				// no Unlock here: doLock has already rolled back
				f := locklog.ClassifyFail(locklog.OpLock, err, panicked)
				L.Fail(i, f)
				if f == "FOther" {
					mu.Lock()
					res.errs = append(res.errs, fmt.Sprintf("%d: %v", i, err))
					mu.Unlock()
				}
				return
			}
			L.Enter(i)
			time.Sleep(time.Duration(cp.HoldMs) * time.Millisecond)
			L.Exit(i)
			var uerr error
			func() {
				defer func() {
					if pv := recover(); pv != nil {
						uerr = fmt.Errorf("panic: %v", pv)
					}
				}()
				uerr = c.VerifFDoUnlock(ctx, l, "")
			}()
			L.URet(i)
			if uerr != nil {
				mu.Lock()
				res.unlockErrs++
				mu.Unlock()
			}
		}(i)
	}
	wg.Wait()
	res.evs = L.Events()
	return locks
}

// runEtcdCalcium: the watch is started first; the contender <-> lease mapping
// comes from the lock objects afterwards, and contenders are renumbered by the
// rank of their lease (the model creates its contenders in lease-grant order).
func runEtcdCalcium(env *locklog.Etcd, c *calcium.Calcium, key string, p plan) (res result) {
	t0 := time.Now() // the heartbeat window includes the creation of the lock objects (their leases)
	run, err := env.NewRun(key, nil)
	if err != nil {
		if run != nil {
			run.Close()
		}
		return result{evs: locklog.Unacceptable(), infra: "setup: " + err.Error()}
	}
	probe := locklog.StartProbe("")
	locks := runCalciumContenders(c, key, p, &res)
	res.gapMs, _ = probe.Stop()
	res.hbMs = env.MaxLatency(t0, time.Now()).Milliseconds()
	leases := make([]clientv3.LeaseID, len(locks))
	for i, l := range locks {
		id, ok := locklog.EtcdLease(l)
		if !ok {
			run.Close()
			res.infra = fmt.Sprintf("contender %d: no lock object / session lease", i)
			return res
		}
		leases[i] = id
	}
	res.rank, run.Leases = locklog.RankByLease(leases)
	res.evs = locklog.Renumber(res.evs, res.rank)
	muts, err := run.Finish()
	if err != nil {
		res.infra = "watch: " + err.Error() // empty muts: the log cannot be accepted
		return res
	}
	res.muts = muts
	return res
}

func runEtcd(env *locklog.Etcd, key string, p plan) (res result) {
	if p.Via == "calcium" {
		return runEtcdCalcium(env, env.C, key, p)
	}
	t0 := time.Now() // the heartbeat window includes the creation of the lock objects (their leases)
	run, err := env.NewRun(key, ttls(p))
	if err != nil {
		if run != nil {
			for _, l := range run.Locks {
				_ = locklog.Unlock(context.Background(), l)
			}
			run.Close()
		}
		return result{evs: locklog.Unacceptable(), infra: "setup: " + err.Error()}
	}
	probe := locklog.StartProbe("")
	runContenders(run.Locks, p, &res)
	res.gapMs, _ = probe.Stop()
	res.hbMs = env.MaxLatency(t0, time.Now()).Milliseconds()
	muts, err := run.Finish()
	if err != nil {
		res.infra = "watch: " + err.Error() // empty muts: the log cannot be accepted
		return res
	}
	res.muts = muts
	return res
}

// notValidated: the timing of the run could not be validated, so it must not
// be emitted (it is repeated, then dropped and counted).  Decided from the
// independent probes only, never from what the contenders saw.
//   - every run: the in-process scheduling probe saw a gap of 100 ms or more
//     (the wall-clock bounds of ok18 — a try-lock returns within 300 ms — would
//     measure this process, not the lock);
//   - etcd: some heartbeat write to the embedded cluster took 100 ms or more (a
//     try-lock is two RPCs against its 300 ms bound, a timed-out Lock is followed
//     by up to three before it returns, against the 300 ms slack), or at least
//     half the smallest effective wait time-out;
//   - redis: a PING against the run's miniredis took 100 ms or more.
const probeLimitMs = 100

func notValidated(backend string, p plan, res result) bool {
	if res.gapMs >= probeLimitMs {
		return true
	}
	if backend == "redis" {
		return res.pingMs >= probeLimitMs
	}
	// smallest effective wait time-out that can fire (cancelled callers: none)
	min := 0
	for _, c := range p.C {
		if c.EffMs > 0 && (min == 0 || c.EffMs < min) {
			min = c.EffMs
		}
	}
	return res.hbMs >= probeLimitMs || (min > 0 && res.hbMs*2 >= int64(min))
}

// runEtcdRetry repeats a not validated (or infrastructure-failed) run on a
// fresh key, at most four attempts; a run that is still not validated after the
// last attempt is dropped by the caller (counted in the evidence), never emitted.
func runEtcdRetry(env *locklog.Etcd, k int, p plan) (res result) {
	for a := 1; ; a++ {
		res = runEtcd(env, fmt.Sprintf("k%d-%d", k, a), p)
		res.attempts = a
		if a == 4 || (res.infra == "" && !notValidated("etcd", p, res)) {
			return res
		}
	}
}

// redisEnv: the Calcium (and its miniredis) of the cluster-level redis runs
type redisEnv struct {
	cal *calcium.Calcium
	mr  *miniredis.Miniredis
}

func runRedis(e *redisEnv, key string, p plan) (res result) {
	if p.Via == "calcium" {
		// one Calcium on one miniredis for all cluster-level runs (distinct keys;
		// miniredis time never advances in C18)
		probe := locklog.StartProbe(e.mr.Addr())
		runCalciumContenders(e.cal, "c"+key, p, &res)
		res.gapMs, res.pingMs = probe.Stop()
		return res
	}
	run, err := locklog.NewRedisRun(key, ttls(p))
	if err != nil {
		return result{evs: locklog.Unacceptable(), infra: "setup: " + err.Error()}
	}
	defer run.Close()
	probe := locklog.StartProbe(run.S.Addr())
	runContenders(run.Locks, p, &res)
	res.gapMs, res.pingMs = probe.Stop()
	return res
}

func runRedisRetry(e *redisEnv, k int, p plan) (res result) {
	for a := 1; ; a++ {
		res = runRedis(e, fmt.Sprintf("k%d-%d", k, a), p)
		res.attempts = a
		if a == 4 || (res.infra == "" && !notValidated("redis", p, res)) {
			return res
		}
	}
}

func stream(t *testing.T, backend string, exec func(k int, p plan) result) {
	var r *vh.Run
	if backend == "etcd" {
		r = vh.New(t, "C18", "etcd")
		r.Coq("From Verif Require Import Locks.LockLog Locks.EtcdLock.", "EtcdLock.case", "EtcdLock.agree", "EtcdLock.ok18")
	} else {
		r = vh.New(t, "C18", "redis")
		r.Coq("From Verif Require Import Locks.LockLog Locks.RedisLock.", "RedisLock.rcase", "RedisLock.ragree", "RedisLock.rok18")
	}
	// the whole plan is drawn before anything runs: deterministic given the seed
	plans := corpus(backend)
	n := r.N(20, 500)
	for k := 0; k < n; k++ {
		plans = append(plans, randomPlan(r, backend, k))
	}
	for i := range plans {
		plans[i].Via = "store"
	}
	// then the cluster-level runs (Calcium.doLock / doUnlock)
	plans = append(plans, calciumPlans(r, backend)...)
	results := make([]result, len(plans))
	locklog.Pool(len(plans), 6, func(k int) { results[k] = exec(k, plans[k]) })

	dropped := 0
	for k, p := range plans {
		res := results[k]
		if res.infra == "" && notValidated(backend, p, res) {
			// the environment, not the code under test, decided this run (see notValidated)
			r.Count("runs_dropped_timing_not_validated")
			dropped++
			continue
		}
		tmo := make([]int64, len(p.C))
		ttl := make([]int64, len(p.C))
		for i, c := range p.C {
			j := i
			if res.rank != nil {
				j = res.rank[i] // contenders renumbered by lease rank
			}
			tmo[j] = int64(c.EffMs) // the EFFECTIVE wait time-out: min(lock time-out, caller deadline)
			ttl[i] = 60
		}
		var term string
		if backend == "etcd" {
			term = fmt.Sprintf("(mkCase %s %s %s %s %s)", vh.ZList(ttl), vh.ZList(tmo), locklog.CoqMuts(res.muts), locklog.CoqLog(res.evs), vh.Z(0))
		} else {
			term = fmt.Sprintf("(mkRCase %s %s %s)", vh.ZList(tmo), locklog.CoqLog(res.evs), vh.Z(0))
		}
		// contenders called with a cancelled context fail by themselves: they do
		// not make a run contended
		skip := map[int]bool{}
		for i, c := range p.C {
			if c.Ctx == ctxCancelled {
				j := i
				if res.rank != nil {
					j = res.rank[i]
				}
				skip[j] = true
			}
		}
		contention := locklog.ContentionExcept(res.evs, skip)
		desc := map[string]any{"backend": backend, "plan": p, "log": res.evs}
		if backend == "etcd" {
			desc["muts"] = res.muts
		}
		if res.rank != nil {
			desc["contender_index_of_plan_entry"] = res.rank
		}
		if len(res.errs) > 0 {
			desc["other_errors"] = res.errs
		}
		if res.infra != "" {
			desc["infrastructure_failure"] = res.infra
			r.Count("infrastructure_failure")
			t.Logf("C18 %s run %d (%s): %s", backend, k, p.Name, res.infra)
		}
		if backend == "etcd" {
			desc["etcd_max_write_latency_ms"] = res.hbMs
		} else {
			desc["redis_max_ping_latency_ms"] = res.pingMs
		}
		desc["max_scheduling_gap_ms"] = res.gapMs
		desc["attempts"] = res.attempts
		if res.attempts > 1 {
			r.Count(fmt.Sprintf("runs_repeated_timing_not_validated=%d", res.attempts-1))
		}
		r.Count("backend=" + backend)
		r.Count("via=" + p.Via)
		r.Count(fmt.Sprintf("n=%d", len(p.C)))
		for i, c := range p.C {
			r.Count("op=" + c.Op)
			r.Count("ctx=" + c.Ctx)
			j := i
			if res.rank != nil {
				j = res.rank[i]
			}
			r.Count("outcome[" + p.Via + "]=" + locklog.Outcome(res.evs, j))
			if c.Op == locklog.OpLock {
				r.Count("lock_outcome[ctx=" + c.Ctx + "]=" + locklog.Outcome(res.evs, j))
			}
		}
		if contention {
			r.Count("runs_with_contention")
		}
		if res.unlockErrs > 0 {
			r.Count("runs_with_unlock_error")
		}
		r.Add(term, desc, map[string]any{"backend": backend, "n": len(p.C), "via": p.Via}, contention)
	}
	if dropped > 0 {
		// never a failure: the evidence says how many runs could not be validated
		t.Logf("C18 %s: %d of %d runs dropped (timing not validated)", backend, dropped, len(plans))
	}
	r.Finish("corpus of fixed plans (hand-over, busy try-lock, wait time-out, six lockers, uncontended lock / try-lock" +
		", redis: acquisition on the 500 ms retry, a try-lock 50 ms into a 900 ms hold, a try-lock 100 ms before the end of a 400 ms hold;" +
		" caller contexts: a waiter with lock time-out 400 ms and a 3 s caller deadline behind a 900 ms hold, a waiter with a 300 ms caller deadline and lock time-out 900 ms," +
		" a Lock with a cancelled context on a free lock and on a held lock) then random plans: 2..6 contenders, Lock (70%) or TryLock, start delay 0..60 ms," +
		" hold 5..50 ms (a third of the plans: 100..350 ms), wait time-out 300..999 ms (etcd) / 100..1200 ms (redis); redis, 30% of the random plans: one holder for 400..900 ms, the others start inside its hold, half of them with TryLock, time-outs 600..1200 ms; 35% of the random plans: a holder for 800..1100 ms and waiters whose lock time-out ends at least 450 ms before the holder leaves" +
		" while their own caller deadline is 1500..3000 ms later; every contender calls with its own context (40% background, 30% longer deadline than the lock time-out," +
		" 20% shorter, 10% already cancelled; try-locks background / longer) and the case carries the effective time-out min(lock time-out, caller deadline); one goroutine and one lock object" +
		" (real store.CreateLock) per contender on the real " + backend + " backend; timing validation, independent of what the contenders observed: a run is repeated (at most three times) on a fresh key and then dropped and counted, never emitted," +
		" when the in-process scheduling probe (5 ms sleeps) saw a gap of 100 ms or more, when (etcd) a heartbeat write" +
		" to the embedded cluster took 100 ms or more or at least half the smallest effective wait time-out, or when (redis) a PING against the run's miniredis took 100 ms or more; then the same kind of plans (3 fixed: hand-over, wait time-out, six lockers; 8 quick / 100 thorough random, Lock only)" +
		" through the cluster-level cluster/calcium/lock.go (tag via=calcium): each contender calls the real Calcium.doLock (CreateLock + Lock, own rollback Unlock on failure)" +
		" and doUnlock through the verif hook file; etcd: contenders are identified by the session lease read from the returned lock object and renumbered by lease rank;" +
		" non-trivial = some contender" +
		" issued its call while another one was active")
}

func TestC18(t *testing.T) {
	if os.Getenv("VERIF_OUT") == "" {
		t.Skip("VERIF_OUT not set; run through /verif/check")
	}
	// one embedded cluster for the whole test, a distinct lock key per run
	env, err := locklog.NewEtcd(t)
	if err != nil {
		t.Fatalf("embedded etcd: %v", err)
	}
	// a real Calcium per backend for the cluster-level runs
	if env.C, _, err = locklog.NewCalcium(t, "etcd", 2*time.Second); err != nil {
		t.Fatalf("calcium/etcd: %v", err)
	}
	renv := &redisEnv{}
	if renv.cal, renv.mr, err = locklog.NewCalcium(t, "redis", 2*time.Second); err != nil {
		t.Fatalf("calcium/redis: %v", err)
	}
	stream(t, "etcd", func(k int, p plan) result { return runEtcdRetry(env, k, p) })
	stream(t, "redis", func(k int, p plan) result { return runRedisRetry(renv, k, p) })
}
