// C18 correspondence harness: N contenders (goroutines, one lock object each,
// created by the real store.CreateLock) race for one distributed lock on the
// real etcd-backed and redis-backed implementations; the client-visible event
// log (and, for etcd, the watch history of the lock prefix) is emitted as a Coq
// term and replayed through the models' trace acceptors (agree) and the
// boolean reflection of the property (ok18).
package c18

import (
	"context"
	"fmt"
	"os"
	"sync"
	"testing"
	"time"

	"verifharness/locklog"
	"verifharness/vh"

	"github.com/projecteru2/core/cluster/calcium"
	"github.com/projecteru2/core/lock"
	clientv3 "go.etcd.io/etcd/client/v3"
)

type cplan struct {
	Op      string `json:"op"`
	DelayMs int    `json:"delay_ms"`
	HoldMs  int    `json:"hold_ms"`
	TmoMs   int    `json:"timeout_ms"`
}

type plan struct {
	Name string  `json:"name"`
	C    []cplan `json:"contenders"`
	// Via: "store" = lock objects from store.CreateLock, Lock/TryLock/Unlock
	// called on them; "calcium" = the cluster-level cluster/calcium/lock.go:
	// doLock (CreateLock + Lock, own rollback Unlock on failure) and doUnlock
	Via string `json:"via"`
}

type result struct {
	evs        []locklog.Ev
	muts       []locklog.Mut
	infra      string // non-empty: the infrastructure of the run failed
	unlockErrs int
	hbMs       int64 // etcd: largest heartbeat write latency during the run
	attempts   int
	errs       []string // texts of errors canonicalised to FOther (diagnosis only)
	rank       []int    // calcium/etcd: provisional contender id -> emitted index (rank of its lease)
}

func lk(delay, hold, tmo int) cplan  { return cplan{locklog.OpLock, delay, hold, tmo} }
func try(delay, hold, tmo int) cplan { return cplan{locklog.OpTry, delay, hold, tmo} }

// corpus: fixed plans; long = the largest admissible wait time-out of the backend
func corpus(backend string) []plan {
	long := 999
	if backend == "redis" {
		long = 1200
	}
	ps := []plan{
		{Name: "a-second-waits-for-first", C: []cplan{lk(0, 80, long), lk(30, 10, long)}},
		{Name: "b-trylock-busy", C: []cplan{lk(0, 600, long), try(100, 10, long)}},
		{Name: "c-wait-timeout", C: []cplan{lk(0, 400, long), lk(50, 10, 150)}}, // etcd: replaced below
		{Name: "d-six-lockers", C: []cplan{lk(0, 10, long), lk(0, 10, long), lk(0, 10, long), lk(0, 10, long), lk(0, 10, long), lk(0, 10, long)}},
		{Name: "e-single-lock", C: []cplan{lk(0, 20, long)}},
		{Name: "e-single-trylock", C: []cplan{try(0, 20, long)}},
	}
	if backend == "redis" {
		ps = append(ps, plan{Name: "f-acquire-on-retry", C: []cplan{lk(0, 200, 1200), lk(50, 10, 1200)}})
	} else {
		// etcd wait time-outs are >= 300 ms (see stalled below)
		ps[2] = plan{Name: "c-wait-timeout", C: []cplan{lk(0, 700, long), lk(50, 10, 300)}}
	}
	return ps
}

func randomPlan(r *vh.Run, backend string, k int) plan {
	n := 2 + r.Rng.Intn(5)
	p := plan{Name: fmt.Sprintf("random-%d", k)}
	// a third of the plans have long critical sections, so that waiting Locks
	// also run into their time-out
	slow := r.Rng.Intn(3) == 0
	if slow {
		p.Name = fmt.Sprintf("random-slow-%d", k)
	}
	for i := 0; i < n; i++ {
		c := cplan{Op: locklog.OpLock, DelayMs: r.Rng.Intn(61), HoldMs: 5 + r.Rng.Intn(46)}
		if slow {
			c.HoldMs = 100 + r.Rng.Intn(251)
		}
		if r.Rng.Intn(10) >= 7 {
			c.Op = locklog.OpTry
		}
		if backend == "redis" {
			c.TmoMs = 100 + r.Rng.Intn(1101) // below and above the fixed 500 ms retry period
		} else {
			c.TmoMs = 300 + r.Rng.Intn(700) // < 1000: session TTL stays the default 60 s
		}
		p.C = append(p.C, c)
	}
	return p
}

func ttls(p plan) []time.Duration {
	d := make([]time.Duration, len(p.C))
	for i, c := range p.C {
		d[i] = time.Duration(c.TmoMs) * time.Millisecond
	}
	return d
}

// runContenders starts one goroutine per contender and returns the event log.
func runContenders(locks []lock.DistributedLock, p plan, res *result) {
	ctx, cancel := context.WithTimeout(context.Background(), 15*time.Second)
	defer cancel()
	var wg sync.WaitGroup
	var mu sync.Mutex
	L := locklog.NewLog()
	for i := range p.C {
		wg.Add(1)
		go func(i int) {
			defer wg.Done()
			c := p.C[i]
			time.Sleep(time.Duration(c.DelayMs) * time.Millisecond)
			L.Call(i, c.Op)
			_, err, panicked := locklog.Acquire(ctx, locks[i], c.Op)
			if err != nil || panicked {
				f := locklog.ClassifyFail(c.Op, err, panicked)
				L.Fail(i, f)
				if f == "FOther" {
					mu.Lock()
					res.errs = append(res.errs, fmt.Sprintf("%d: %v", i, err))
					mu.Unlock()
				}
				_ = locklog.Unlock(ctx, locks[i]) // cleanup (closes the etcd session); not logged
				return
			}
			L.Enter(i)
			time.Sleep(time.Duration(c.HoldMs) * time.Millisecond)
			L.Exit(i)
			uerr := locklog.Unlock(ctx, locks[i])
			L.URet(i)
			if uerr != nil {
				mu.Lock()
				res.unlockErrs++
				mu.Unlock()
			}
		}(i)
	}
	wg.Wait()
	res.evs = L.Events()
}

// corpus and random plans of the cluster-level runs: only Lock exists there
func calciumPlans(r *vh.Run, backend string) []plan {
	long := 999
	if backend == "redis" {
		long = 1200
	}
	ps := []plan{
		{Name: "calcium-hand-over", C: []cplan{lk(0, 80, long), lk(30, 10, long)}},
		{Name: "calcium-wait-timeout", C: []cplan{lk(0, 400, long), lk(50, 10, 150)}},
		{Name: "calcium-six-lockers", C: []cplan{lk(0, 10, long), lk(0, 10, long), lk(0, 10, long), lk(0, 10, long), lk(0, 10, long), lk(0, 10, long)}},
	}
	if backend == "etcd" {
		ps[1] = plan{Name: "calcium-wait-timeout", C: []cplan{lk(0, 700, long), lk(50, 10, 300)}}
	}
	for k, n := 0, r.N(8, 100); k < n; k++ {
		p := randomPlan(r, backend, k)
		p.Name = "calcium-" + p.Name
		for i := range p.C {
			p.C[i].Op = locklog.OpLock
		}
		ps = append(ps, p)
	}
	for i := range ps {
		ps[i].Via = "calcium"
	}
	return ps
}

// runCalciumContenders: one goroutine per contender through the real
// Calcium.doLock / doUnlock (hook file cluster/calcium/export_f_verif.go).  The
// lock objects are created inside doLock; they are returned in locks (doLock
// returns the object also when Lock failed).
func runCalciumContenders(c *calcium.Calcium, key string, p plan, res *result) (locks []lock.DistributedLock) {
	ctx, cancel := context.WithTimeout(context.Background(), 15*time.Second)
	defer cancel()
	var wg sync.WaitGroup
	var mu sync.Mutex
	locks = make([]lock.DistributedLock, len(p.C))
	L := locklog.NewLog()
	for i := range p.C {
		wg.Add(1)
		go func(i int) {
			defer wg.Done()
			cp := p.C[i]
			time.Sleep(time.Duration(cp.DelayMs) * time.Millisecond)
			L.Call(i, locklog.OpLock)
			var l lock.DistributedLock
			var err error
			panicked := false
			func() {
				defer func() {
					if pv := recover(); pv != nil {
						err, panicked = fmt.Errorf("panic: %v", pv), true
					}
				}()
				l, _, err = c.VerifFDoLock(ctx, key, time.Duration(cp.TmoMs)*time.Millisecond)
			}()
			mu.Lock()
			locks[i] = l
			mu.Unlock()
			if err != nil || panicked {
				// no Unlock here: doLock has already rolled back
				f := locklog.ClassifyFail(locklog.OpLock, err, panicked)
				L.Fail(i, f)
				if f == "FOther" {
					mu.Lock()
					res.errs = append(res.errs, fmt.Sprintf("%d: %v", i, err))
					mu.Unlock()
				}
				return
			}
			L.Enter(i)
			time.Sleep(time.Duration(cp.HoldMs) * time.Millisecond)
			L.Exit(i)
			var uerr error
			func() {
				defer func() {
					if pv := recover(); pv != nil {
						uerr = fmt.Errorf("panic: %v", pv)
					}
				}()
				uerr = c.VerifFDoUnlock(ctx, l, "")
			}()
			L.URet(i)
			if uerr != nil {
				mu.Lock()
				res.unlockErrs++
				mu.Unlock()
			}
		}(i)
	}
	wg.Wait()
	res.evs = L.Events()
	return locks
}

// runEtcdCalcium: the watch is started first; the contender <-> lease mapping
// comes from the lock objects afterwards, and contenders are renumbered by the
// rank of their lease (the model creates its contenders in lease-grant order).
func runEtcdCalcium(env *locklog.Etcd, c *calcium.Calcium, key string, p plan) (res result) {
	t0 := time.Now() // the heartbeat window includes the creation of the lock objects (their leases)
	run, err := env.NewRun(key, nil)
	if err != nil {
		if run != nil {
			run.Close()
		}
		return result{evs: locklog.Unacceptable(), infra: "setup: " + err.Error()}
	}
	locks := runCalciumContenders(c, key, p, &res)
	res.hbMs = env.MaxLatency(t0, time.Now()).Milliseconds()
	leases := make([]clientv3.LeaseID, len(locks))
	for i, l := range locks {
		id, ok := locklog.EtcdLease(l)
		if !ok {
			run.Close()
			res.infra = fmt.Sprintf("contender %d: no lock object / session lease", i)
			return res
		}
		leases[i] = id
	}
	res.rank, run.Leases = locklog.RankByLease(leases)
	res.evs = locklog.Renumber(res.evs, res.rank)
	muts, err := run.Finish()
	if err != nil {
		res.infra = "watch: " + err.Error() // empty muts: the log cannot be accepted
		return res
	}
	res.muts = muts
	return res
}

func runEtcd(env *locklog.Etcd, key string, p plan) (res result) {
	if p.Via == "calcium" {
		return runEtcdCalcium(env, env.C, key, p)
	}
	t0 := time.Now() // the heartbeat window includes the creation of the lock objects (their leases)
	run, err := env.NewRun(key, ttls(p))
	if err != nil {
		if run != nil {
			for _, l := range run.Locks {
				_ = locklog.Unlock(context.Background(), l)
			}
			run.Close()
		}
		return result{evs: locklog.Unacceptable(), infra: "setup: " + err.Error()}
	}
	runContenders(run.Locks, p, &res)
	res.hbMs = env.MaxLatency(t0, time.Now()).Milliseconds()
	muts, err := run.Finish()
	if err != nil {
		res.infra = "watch: " + err.Error() // empty muts: the log cannot be accepted
		return res
	}
	res.muts = muts
	return res
}

// stalled: the embedded cluster was too slow during the run for the run to be
// meaningful — some heartbeat write took at least half the smallest wait
// time-out, so a time-out may have fired inside an RPC (which the model leaves
// out).  Decided from the heartbeat only, never from what the contenders saw.
func stalled(p plan, res result) bool {
	min := p.C[0].TmoMs
	for _, c := range p.C {
		if c.TmoMs < min {
			min = c.TmoMs
		}
	}
	return res.hbMs*2 >= int64(min)
}

// runEtcdRetry repeats a stalled (or infrastructure-failed) run on a fresh key,
// at most four attempts; a run that is still stalled after the last attempt is
// dropped by the caller (counted in the evidence), never emitted.
func runEtcdRetry(env *locklog.Etcd, k int, p plan) (res result) {
	for a := 1; ; a++ {
		res = runEtcd(env, fmt.Sprintf("k%d-%d", k, a), p)
		res.attempts = a
		if a == 4 || (res.infra == "" && !stalled(p, res)) {
			return res
		}
	}
}

func runRedis(cal *calcium.Calcium, key string, p plan) (res result) {
	if p.Via == "calcium" {
		// one Calcium on one miniredis for all cluster-level runs (distinct keys;
		// miniredis time never advances in C18)
		runCalciumContenders(cal, "c"+key, p, &res)
		return res
	}
	run, err := locklog.NewRedisRun(key, ttls(p))
	if err != nil {
		return result{evs: locklog.Unacceptable(), infra: "setup: " + err.Error()}
	}
	defer run.Close()
	runContenders(run.Locks, p, &res)
	return res
}

func stream(t *testing.T, backend string, exec func(k int, p plan) result) {
	var r *vh.Run
	if backend == "etcd" {
		r = vh.New(t, "C18", "etcd")
		r.Coq("From Verif Require Import Locks.LockLog Locks.EtcdLock.", "EtcdLock.case", "EtcdLock.agree", "EtcdLock.ok18")
	} else {
		r = vh.New(t, "C18", "redis")
		r.Coq("From Verif Require Import Locks.LockLog Locks.RedisLock.", "RedisLock.rcase", "RedisLock.ragree", "RedisLock.rok18")
	}
	// the whole plan is drawn before anything runs: deterministic given the seed
	plans := corpus(backend)
	n := r.N(20, 500)
	for k := 0; k < n; k++ {
		plans = append(plans, randomPlan(r, backend, k))
	}
	for i := range plans {
		plans[i].Via = "store"
	}
	// then the cluster-level runs (Calcium.doLock / doUnlock)
	plans = append(plans, calciumPlans(r, backend)...)
	results := make([]result, len(plans))
	locklog.Pool(len(plans), 6, func(k int) { results[k] = exec(k, plans[k]) })

	dropped := 0
	for k, p := range plans {
		res := results[k]
		if backend == "etcd" && res.infra == "" && stalled(p, res) {
			// the environment, not the code under test, decided this run (see stalled)
			r.Count("runs_dropped_etcd_stalled")
			dropped++
			continue
		}
		tmo := make([]int64, len(p.C))
		ttl := make([]int64, len(p.C))
		for i, c := range p.C {
			j := i
			if res.rank != nil {
				j = res.rank[i] // contenders renumbered by lease rank
			}
			tmo[j] = int64(c.TmoMs)
			ttl[i] = 60
		}
		var term string
		if backend == "etcd" {
			term = fmt.Sprintf("(mkCase %s %s %s %s %s)", vh.ZList(ttl), vh.ZList(tmo), locklog.CoqMuts(res.muts), locklog.CoqLog(res.evs), vh.Z(0))
		} else {
			term = fmt.Sprintf("(mkRCase %s %s %s)", vh.ZList(tmo), locklog.CoqLog(res.evs), vh.Z(0))
		}
		contention := locklog.Contention(res.evs)
		desc := map[string]any{"backend": backend, "plan": p, "log": res.evs}
		if backend == "etcd" {
			desc["muts"] = res.muts
		}
		if res.rank != nil {
			desc["contender_index_of_plan_entry"] = res.rank
		}
		if len(res.errs) > 0 {
			desc["other_errors"] = res.errs
		}
		if res.infra != "" {
			desc["infrastructure_failure"] = res.infra
			r.Count("infrastructure_failure")
			t.Logf("C18 %s run %d (%s): %s", backend, k, p.Name, res.infra)
		}
		if backend == "etcd" {
			desc["etcd_max_write_latency_ms"] = res.hbMs
			desc["attempts"] = res.attempts
			if res.attempts > 1 {
				r.Count(fmt.Sprintf("runs_repeated_after_etcd_stall=%d", res.attempts-1))
			}
		}
		r.Count("backend=" + backend)
		r.Count("via=" + p.Via)
		r.Count(fmt.Sprintf("n=%d", len(p.C)))
		for i, c := range p.C {
			r.Count("op=" + c.Op)
			r.Count("outcome[" + p.Via + "]=" + locklog.Outcome(res.evs, i))
		}
		if contention {
			r.Count("runs_with_contention")
		}
		if res.unlockErrs > 0 {
			r.Count("runs_with_unlock_error")
		}
		r.Add(term, desc, map[string]any{"backend": backend, "n": len(p.C), "via": p.Via}, contention)
	}
	if dropped*2 > len(plans) {
		t.Fatalf("more than half of the etcd runs were dropped because the embedded cluster stalled (%d of %d)", dropped, len(plans))
	}
	r.Finish("corpus of fixed plans (hand-over, busy try-lock, wait time-out, six lockers, uncontended lock / try-lock" +
		", redis: acquisition on the 500 ms retry) then random plans: 2..6 contenders, Lock (70%) or TryLock, start delay 0..60 ms," +
		" hold 5..50 ms (a third of the plans: 100..350 ms), wait time-out 300..999 ms (etcd) / 100..1200 ms (redis); one goroutine and one lock object" +
		" (real store.CreateLock) per contender on the real " + backend + " backend; etcd: a run during which a heartbeat write" +
		" to the embedded cluster took at least half the smallest wait time-out is repeated (at most twice) on a fresh key," +
		" independently of what the contenders observed; then the same kind of plans (3 fixed: hand-over, wait time-out, six lockers; 8 quick / 100 thorough random, Lock only)" +
		" through the cluster-level cluster/calcium/lock.go (tag via=calcium): each contender calls the real Calcium.doLock (CreateLock + Lock, own rollback Unlock on failure)" +
		" and doUnlock through the verif hook file; etcd: contenders are identified by the session lease read from the returned lock object and renumbered by lease rank;" +
		" non-trivial = some contender" +
		" issued its call while another one was active")
}

func TestC18(t *testing.T) {
	if os.Getenv("VERIF_OUT") == "" {
		t.Skip("VERIF_OUT not set; run through /verif/check")
	}
	// one embedded cluster for the whole test, a distinct lock key per run
	env, err := locklog.NewEtcd(t)
	if err != nil {
		t.Fatalf("embedded etcd: %v", err)
	}
	// a real Calcium per backend for the cluster-level runs
	if env.C, _, err = locklog.NewCalcium(t, "etcd", 2*time.Second); err != nil {
		t.Fatalf("calcium/etcd: %v", err)
	}
	rcal, _, err := locklog.NewCalcium(t, "redis", 2*time.Second)
	if err != nil {
		t.Fatalf("calcium/redis: %v", err)
	}
	stream(t, "etcd", func(k int, p plan) result { return runEtcdRetry(env, k, p) })
	stream(t, "redis", func(k int, p plan) result { return runRedis(rcal, fmt.Sprintf("k%d", k), p) })
}
