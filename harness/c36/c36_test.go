// Package c36: correspondence harness for C36 (client watch-stream retry).
//
// A real grpc.Server on bufconn implements three server-streaming methods of
// the real CoreRPC service with *scripted* streams: the i-th stream opened on
// the server (over all methods of the case) sends the messages of the i-th
// script entry and then ends with an error status, a clean end (io.EOF on the
// client) or hangs until its context ends.  Streams opened after the script is
// exhausted fail at once.  The client is a real grpc.ClientConn with
// interceptor.NewStreamRetry / NewUnaryRetry installed exactly like
// client.dial does (with the budget of the case instead of the constant 0).
//
// Observables: the messages the caller received (in order), the class of the
// error that ended the caller's loop, and, from the server, the number of
// streams opened and whether each carried the original request.
package c36

import (
	"context"
	"errors"
	"fmt"
	"io"
	"net"
	"sync"
	"sync/atomic"
	"testing"
	"time"

	"verifharness/vh"

	"github.com/projecteru2/core/client/interceptor"
	pb "github.com/projecteru2/core/rpc/gen"

	"google.golang.org/grpc"
	"google.golang.org/grpc/codes"
	"google.golang.org/grpc/credentials/insecure"
	"google.golang.org/grpc/status"
	"google.golang.org/grpc/test/bufconn"
	"google.golang.org/protobuf/proto"
)

type ending int

const (
	endErr ending = iota
	endEOF
	endHang
)

func (e ending) coq() string { return [...]string{"EErr", "EEOF", "EHang"}[e] }

type streamScript struct {
	Msgs int    `json:"msgs"`
	End  ending `json:"end"`
}

type method int

const (
	mWorkloadStatus method = iota // in RPCNeedRetry, request with fields
	mWatchService                 // in RPCNeedRetry, empty request
	mNodeStatus                   // server stream NOT in RPCNeedRetry
	mUnaryInfo                    // unary call (NewUnaryRetry)
)

func (m method) coq() string {
	return [...]string{"MWorkloadStatus", "MWatchService", "MNodeStatus", "MUnary"}[m]
}

// cancel plans
const (
	cancelNever   = 0
	cancelOnHang  = 1 // caller cancels while blocked in Recv on a hanging stream
	cancelBackoff = 2 // caller cancels while the interceptor sleeps after the failed stream #CancelAt
)

type scenario struct {
	Method   method         `json:"method"`
	Max      int            `json:"max"`
	Script   []streamScript `json:"script"`
	Cancel   int            `json:"cancel"`
	CancelAt int            `json:"cancel_at"`
}

type observed struct {
	Delivered []int64 `json:"delivered"` // message ids: stream*1000+index
	Final     string  `json:"final"`
	Opened    int     `json:"server_streams"`
	ReqOK     []bool  `json:"request_ok"`
	Timeout   bool    `json:"timeout"`
}

type server struct {
	pb.UnimplementedCoreRPCServer
	mu      sync.Mutex
	script  []streamScript
	opened  int
	reqOK   []bool
	wantReq proto.Message
	// events
	hanging chan int // stream index that reached its hang
	ended   chan int // stream index whose handler returned (err / eof)
	unaryN  int
}

func (s *server) next(req proto.Message) (int, streamScript) {
	s.mu.Lock()
	defer s.mu.Unlock()
	i := s.opened
	s.opened++
	s.reqOK = append(s.reqOK, proto.Equal(req, s.wantReq))
	if i < len(s.script) {
		return i, s.script[i]
	}
	return i, streamScript{0, endErr}
}

func (s *server) finish(ctx context.Context, i int, sc streamScript) error {
	switch sc.End {
	case endErr:
		s.ended <- i
		return status.Error(codes.Unavailable, "scripted break")
	case endEOF:
		s.ended <- i
		return nil
	default:
		s.hanging <- i
		<-ctx.Done()
		return ctx.Err()
	}
}

func msgID(stream, j int) int64 { return int64(stream)*1000 + int64(j) }

func (s *server) WorkloadStatusStream(req *pb.WorkloadStatusStreamOptions, st pb.CoreRPC_WorkloadStatusStreamServer) error {
	i, sc := s.next(req)
	for j := 0; j < sc.Msgs; j++ {
		if err := st.Send(&pb.WorkloadStatusStreamMessage{Id: fmt.Sprint(msgID(i, j))}); err != nil {
			return err
		}
	}
	return s.finish(st.Context(), i, sc)
}

func (s *server) WatchServiceStatus(req *pb.Empty, st pb.CoreRPC_WatchServiceStatusServer) error {
	i, sc := s.next(req)
	for j := 0; j < sc.Msgs; j++ {
		if err := st.Send(&pb.ServiceStatus{Addresses: []string{fmt.Sprint(msgID(i, j))}}); err != nil {
			return err
		}
	}
	return s.finish(st.Context(), i, sc)
}

func (s *server) NodeStatusStream(req *pb.Empty, st pb.CoreRPC_NodeStatusStreamServer) error {
	i, sc := s.next(req)
	for j := 0; j < sc.Msgs; j++ {
		if err := st.Send(&pb.NodeStatusStreamMessage{Nodename: fmt.Sprint(msgID(i, j))}); err != nil {
			return err
		}
	}
	return s.finish(st.Context(), i, sc)
}

// unary: the i-th invocation succeeds iff its script entry has Msgs > 0
func (s *server) Info(_ context.Context, req *pb.Empty) (*pb.CoreInfo, error) {
	i, sc := s.next(req)
	if sc.Msgs > 0 {
		return &pb.CoreInfo{Version: fmt.Sprint(msgID(i, 0))}, nil
	}
	select {
	case s.ended <- i:
	default:
	}
	return nil, status.Error(codes.Unavailable, "scripted failure")
}

func classify(err error) string {
	switch {
	case err == nil:
		return "FNone"
	case err == io.EOF:
		return "FEOF"
	case errors.Is(err, context.Canceled):
		return "FCtxCanceled"
	}
	if st, ok := status.FromError(err); ok {
		switch st.Code() {
		case codes.Unavailable:
			return "FBreak"
		case codes.Canceled:
			return "FStatusCanceled"
		}
	}
	return "FOther"
}

func run(sc scenario, deadline time.Duration) (o observed, detail string) {
	lis := bufconn.Listen(1 << 16)
	srv := &server{script: sc.Script, hanging: make(chan int, 64), ended: make(chan int, 1024)}
	wreq := &pb.WorkloadStatusStreamOptions{Appname: "app", Entrypoint: "entry", Nodename: "node-7", Labels: map[string]string{"k": "v"}}
	if sc.Method == mWorkloadStatus {
		srv.wantReq = wreq
	} else {
		srv.wantReq = &pb.Empty{}
	}
	gs := grpc.NewServer()
	pb.RegisterCoreRPCServer(gs, srv)
	done := make(chan struct{})
	go func() { _ = gs.Serve(lis); close(done) }()
	defer func() { gs.Stop(); <-done }()

	// client/client.go dial(), with the case's budget
	conn, err := grpc.DialContext(context.Background(), "passthrough:///bufnet",
		grpc.WithTransportCredentials(insecure.NewCredentials()),
		grpc.WithContextDialer(func(ctx context.Context, _ string) (net.Conn, error) { return lis.DialContext(ctx) }),
		grpc.WithUnaryInterceptor(interceptor.NewUnaryRetry(interceptor.RetryOptions{Max: sc.Max})),
		grpc.WithStreamInterceptor(interceptor.NewStreamRetry(interceptor.RetryOptions{Max: sc.Max})),
	)
	if err != nil {
		return observed{Final: "FOther"}, "dial: " + err.Error()
	}
	defer conn.Close()
	cli := pb.NewCoreRPCClient(conn)
	ctx, cancel := context.WithCancel(context.Background())
	defer cancel()

	// cancellation driver
	stopDrv := make(chan struct{})
	defer close(stopDrv)
	var nDelivered atomic.Int64
	go func() {
		for {
			select {
			case <-stopDrv:
				return
			case i := <-srv.hanging:
				if sc.Cancel == cancelOnHang {
					// wait until the caller has drained every message sent so far and is (about to be) blocked in Recv
					want := int64(0)
					for k := 0; k <= i && k < len(sc.Script); k++ {
						want += int64(sc.Script[k].Msgs)
					}
					for w := 0; w < 2000 && nDelivered.Load() < want; w++ {
						time.Sleep(time.Millisecond)
					}
					time.Sleep(20 * time.Millisecond)
					cancel()
				}
			case i := <-srv.ended:
				if sc.Cancel == cancelBackoff && i == sc.CancelAt {
					time.Sleep(15 * time.Millisecond) // the first backoff interval is >= 250ms
					cancel()
				}
			}
		}
	}()

	type res struct {
		delivered []int64
		err       error
	}
	out := make(chan res, 1)
	go func() {
		var r res
		defer func() { out <- r }()
		parse := func(s string) int64 { var v int64; fmt.Sscan(s, &v); return v }
		switch sc.Method {
		case mWorkloadStatus:
			st, err := cli.WorkloadStatusStream(ctx, wreq)
			if err != nil {
				r.err = err
				return
			}
			for {
				m, err := st.Recv()
				if err != nil {
					r.err = err
					return
				}
				r.delivered = append(r.delivered, parse(m.Id))
				nDelivered.Add(1)
			}
		case mWatchService:
			st, err := cli.WatchServiceStatus(ctx, &pb.Empty{})
			if err != nil {
				r.err = err
				return
			}
			for {
				m, err := st.Recv()
				if err != nil {
					r.err = err
					return
				}
				r.delivered = append(r.delivered, parse(m.Addresses[0]))
				nDelivered.Add(1)
			}
		case mNodeStatus:
			st, err := cli.NodeStatusStream(ctx, &pb.Empty{})
			if err != nil {
				r.err = err
				return
			}
			for {
				m, err := st.Recv()
				if err != nil {
					r.err = err
					return
				}
				r.delivered = append(r.delivered, parse(m.Nodename))
				nDelivered.Add(1)
			}
		case mUnaryInfo:
			m, err := cli.Info(ctx, &pb.Empty{})
			if err != nil {
				r.err = err
				return
			}
			r.delivered = append(r.delivered, parse(m.Version))
		}
	}()

	select {
	case r := <-out:
		o.Delivered, o.Final = r.delivered, classify(r.err)
		if r.err != nil {
			detail = r.err.Error()
		}
	case <-time.After(deadline):
		o.Timeout, o.Final = true, "FTimeout"
		cancel()
		select {
		case r := <-out: // what had been delivered when the deadline struck
			o.Delivered = r.delivered
		case <-time.After(5 * time.Second):
		}
	}
	time.Sleep(40 * time.Millisecond) // let a stream opened with a dead context reach (or not reach) the server
	srv.mu.Lock()
	o.Opened = srv.opened
	o.ReqOK = append([]bool(nil), srv.reqOK...)
	srv.mu.Unlock()
	return o, detail
}


func coqScript(sc []streamScript) string {
	items := make([]string, len(sc))
	for i, x := range sc {
		items[i] = fmt.Sprintf("(mkS %d %s)", x.Msgs, x.End.coq())
	}
	return vh.List(items)
}

func coqPlan(sc scenario) string {
	switch sc.Cancel {
	case cancelOnHang:
		return "(mkPlan true None)"
	case cancelBackoff:
		return fmt.Sprintf("(mkPlan false (Some %d))", sc.CancelAt)
	}
	return "(mkPlan false None)"
}

func hasHang(sc []streamScript) bool {
	for _, x := range sc {
		if x.End == endHang {
			return true
		}
	}
	return false
}

func TestC36(t *testing.T) {
	t.Run("retry", testRetry)
	t.Run("concurrent", testConcurrent)
}

// ---------------------------------------------------------------- concurrent streams

// cserver: several LOGICAL watch streams (told apart by the Appname of the request), each with
// its own script; the i-th server stream opened for logical stream k behaves as scripts[k][i].
type cserver struct {
	pb.UnimplementedCoreRPCServer
	mu      sync.Mutex
	scripts [][]streamScript
	opened  []int
	reqOK   [][]bool
	// all logical streams end their FIRST server stream at the same moment
	barrier chan struct{}
	arrived int
}

func (s *cserver) WorkloadStatusStream(req *pb.WorkloadStatusStreamOptions, st pb.CoreRPC_WorkloadStatusStreamServer) error {
	var k int
	if _, err := fmt.Sscanf(req.Appname, "s%d", &k); err != nil || k < 0 || k >= len(s.scripts) {
		return status.Error(codes.InvalidArgument, "unknown logical stream")
	}
	s.mu.Lock()
	i := s.opened[k]
	s.opened[k]++
	want := &pb.WorkloadStatusStreamOptions{Appname: fmt.Sprintf("s%d", k), Entrypoint: "entry", Nodename: fmt.Sprintf("node-%d", k), Labels: map[string]string{"k": "v"}}
	s.reqOK[k] = append(s.reqOK[k], proto.Equal(req, want))
	sc := streamScript{0, endErr}
	if i < len(s.scripts[k]) {
		sc = s.scripts[k][i]
	}
	s.mu.Unlock()
	for j := 0; j < sc.Msgs; j++ {
		if err := st.Send(&pb.WorkloadStatusStreamMessage{Id: fmt.Sprint(msgID(i, j))}); err != nil {
			return err
		}
	}
	if i == 0 { // break together
		s.mu.Lock()
		s.arrived++
		if s.arrived == len(s.scripts) {
			close(s.barrier)
		}
		s.mu.Unlock()
		select {
		case <-s.barrier:
		case <-time.After(2 * time.Second):
		}
	}
	if sc.End == endEOF {
		return nil
	}
	return status.Error(codes.Unavailable, "scripted break")
}

func runConcurrent(max int, scripts [][]streamScript) []observed {
	lis := bufconn.Listen(1 << 16)
	srv := &cserver{scripts: scripts, opened: make([]int, len(scripts)), reqOK: make([][]bool, len(scripts)), barrier: make(chan struct{})}
	gs := grpc.NewServer()
	pb.RegisterCoreRPCServer(gs, srv)
	done := make(chan struct{})
	go func() { _ = gs.Serve(lis); close(done) }()
	defer func() { gs.Stop(); <-done }()
	// ONE connection, ONE interceptor for all streams (client/client.go dial)
	conn, err := grpc.DialContext(context.Background(), "passthrough:///bufnet",
		grpc.WithTransportCredentials(insecure.NewCredentials()),
		grpc.WithContextDialer(func(ctx context.Context, _ string) (net.Conn, error) { return lis.DialContext(ctx) }),
		grpc.WithUnaryInterceptor(interceptor.NewUnaryRetry(interceptor.RetryOptions{Max: max})),
		grpc.WithStreamInterceptor(interceptor.NewStreamRetry(interceptor.RetryOptions{Max: max})),
	)
	out := make([]observed, len(scripts))
	if err != nil {
		for k := range out {
			out[k].Final = "FOther"
		}
		return out
	}
	defer conn.Close()
	cli := pb.NewCoreRPCClient(conn)
	ctx, cancel := context.WithTimeout(context.Background(), 60*time.Second)
	defer cancel()
	var wg sync.WaitGroup
	for k := range scripts {
		wg.Add(1)
		go func(k int) {
			defer wg.Done()
			req := &pb.WorkloadStatusStreamOptions{Appname: fmt.Sprintf("s%d", k), Entrypoint: "entry", Nodename: fmt.Sprintf("node-%d", k), Labels: map[string]string{"k": "v"}}
			st, err := cli.WorkloadStatusStream(ctx, req)
			if err != nil {
				out[k].Final = classify(err)
				return
			}
			for {
				m, err := st.Recv()
				if err != nil {
					out[k].Final = classify(err)
					return
				}
				var v int64
				fmt.Sscan(m.Id, &v)
				out[k].Delivered = append(out[k].Delivered, v)
			}
		}(k)
	}
	wg.Wait()
	time.Sleep(40 * time.Millisecond)
	srv.mu.Lock()
	for k := range scripts {
		out[k].Opened = srv.opened[k]
		out[k].ReqOK = append([]bool(nil), srv.reqOK[k]...)
	}
	srv.mu.Unlock()
	return out
}

func caseTerm(m string, max int, sc []streamScript, o observed) string {
	del := make([]string, len(o.Delivered))
	for k, id := range o.Delivered {
		del[k] = vh.Pair(vh.Nat(int(id/1000)), vh.Nat(int(id%1000)))
	}
	rq := make([]string, len(o.ReqOK))
	for k, b := range o.ReqOK {
		rq[k] = vh.Bool(b)
	}
	return fmt.Sprintf("(mkCase %s %d %s (mkPlan false None) %s %s %d %s)", m, max, coqScript(sc), vh.List(del), o.Final, o.Opened, vh.List(rq))
}

func testConcurrent(t *testing.T) {
	r := vh.New(t, "C36", "concurrent")
	r.Coq("From Verif Require Import Rpc.Retry.", "Retry.ccase", "Retry.cagree", "Retry.cok")
	rng := r.Rng
	E, F := endErr, endEOF
	type cc struct {
		max     int
		scripts [][]streamScript
	}
	var cs []cc
	var kinds []string
	ss := func(x ...streamScript) []streamScript { return x }
	// corpus: streams that break at the same moment and need several reopen attempts
	cs = append(cs, cc{2, [][]streamScript{
		ss(streamScript{1, E}, streamScript{0, E}, streamScript{0, E}, streamScript{1, E}),
		ss(streamScript{1, E}, streamScript{0, E}, streamScript{0, E}, streamScript{1, E})}})
	cs = append(cs, cc{1, [][]streamScript{
		ss(streamScript{2, E}, streamScript{0, E}, streamScript{1, F}),
		ss(streamScript{1, F}, streamScript{0, F}, streamScript{2, E}),
		ss(streamScript{0, E}, streamScript{0, E}, streamScript{3, E})}})
	cs = append(cs, cc{0, [][]streamScript{ss(streamScript{1, E}, streamScript{1, E}), ss(streamScript{2, F})}})
	cs = append(cs, cc{2, [][]streamScript{
		ss(streamScript{1, E}, streamScript{0, E}, streamScript{1, E}),   // needs two attempts
		ss(streamScript{1, E}, streamScript{0, F}, streamScript{0, E}, streamScript{0, E})}}) // exhausts its own budget
	kinds = append(kinds, "corpus", "corpus", "corpus", "corpus")
	n := r.N(8, 80)
	for i := 0; i < n; i++ {
		c := cc{max: 1 + rng.Intn(2)}
		k := 2 + rng.Intn(2)
		for j := 0; j < k; j++ {
			var sc []streamScript
			sc = append(sc, streamScript{rng.Intn(3), ending(rng.Intn(2))})
			fails := rng.Intn(c.max + 1) // failing reopen attempts within the budget ...
			if rng.Intn(4) == 0 {
				fails = c.max + 1 // ... or one too many
			}
			for f := 0; f < fails; f++ {
				sc = append(sc, streamScript{0, ending(rng.Intn(2))})
			}
			sc = append(sc, streamScript{1 + rng.Intn(2), ending(rng.Intn(2))})
			c.scripts = append(c.scripts, sc)
		}
		cs = append(cs, c)
		kinds = append(kinds, "random")
	}
	outs := make([][]observed, len(cs))
	sem := make(chan struct{}, 6)
	var wg sync.WaitGroup
	for i := range cs {
		if r.Only >= 0 && i != r.Only {
			continue
		}
		wg.Add(1)
		sem <- struct{}{}
		go func(i int) {
			defer wg.Done()
			defer func() { <-sem }()
			outs[i] = runConcurrent(cs[i].max, cs[i].scripts)
		}(i)
	}
	wg.Wait()
	for i, c := range cs {
		if outs[i] == nil {
			outs[i] = make([]observed, len(c.scripts))
		}
		terms := make([]string, len(c.scripts))
		for k := range c.scripts {
			terms[k] = caseTerm("MWorkloadStatus", c.max, c.scripts[k], outs[i][k])
		}
		desc := map[string]any{"kind": kinds[i], "max": c.max, "scripts": c.scripts, "observed": outs[i]}
		r.Count("kind=" + kinds[i])
		r.Count(fmt.Sprintf("streams=%d", len(c.scripts)))
		r.Count(fmt.Sprintf("max=%d", c.max))
		for k := range c.scripts {
			r.Count("final=" + outs[i][k].Final)
		}
		r.Add(vh.List(terms), desc, map[string]any{"stream": "concurrent", "streams": len(c.scripts), "max": c.max}, true)
	}
	r.Finish("2-3 watch streams (WorkloadStatusStream with distinct requests) opened at the same time through ONE connection and ONE NewStreamRetry interceptor; every logical stream has its own server script, all end their first server stream at the same moment (barrier) and then need 0..Max (sometimes Max+1) failing reopen attempts before a stream that delivers again; each stream's delivered messages, final error, server streams and re-sent requests are compared with the single-stream model (independence)")
}

func testRetry(t *testing.T) {
	r := vh.New(t, "C36", "retry")
	r.Coq("From Verif Require Import Rpc.Retry.", "Retry.case", "Retry.agree", "Retry.ok")
	rng := r.Rng

	var scs []scenario
	kinds := []string{}
	add := func(kind string, sc scenario) { scs = append(scs, sc); kinds = append(kinds, kind) }

	// ---- corpus ----
	E, F, H := endErr, endEOF, endHang
	ss := func(x ...streamScript) []streamScript { return x }
	add("corpus", scenario{mWorkloadStatus, 0, ss(streamScript{2, E}, streamScript{1, F}, streamScript{0, E}), 0, 0})
	add("corpus", scenario{mWorkloadStatus, 0, ss(streamScript{0, E}), 0, 0})                        // breaks before any message
	add("corpus", scenario{mWatchService, 0, ss(streamScript{3, F}), 0, 0})                          // clean end is re-opened too
	add("corpus", scenario{mWatchService, 0, ss(streamScript{1, E}, streamScript{0, F}), 0, 0})      // exhausted budget surfaces io.EOF
	add("corpus", scenario{mWorkloadStatus, 1, ss(streamScript{2, E}, streamScript{0, E}, streamScript{1, F}, streamScript{0, F}, streamScript{0, E}), 0, 0})
	add("corpus", scenario{mWorkloadStatus, 2, ss(streamScript{1, E}, streamScript{0, E}, streamScript{0, F}, streamScript{2, E}), 0, 0})
	add("corpus", scenario{mWatchService, 1, ss(streamScript{1, E}, streamScript{0, E}, streamScript{0, E}, streamScript{5, E}), 0, 0}) // stream 3 never opened
	add("corpus", scenario{mWatchService, 0, ss(streamScript{2, H}), cancelOnHang, 0})
	add("corpus", scenario{mWorkloadStatus, 2, ss(streamScript{1, E}, streamScript{2, H}, streamScript{1, E}), cancelOnHang, 0})
	add("corpus", scenario{mWorkloadStatus, 1, ss(streamScript{1, E}, streamScript{0, H}), cancelOnHang, 0}) // cancelled while blocked inside a retry attempt
	add("corpus", scenario{mWatchService, 2, ss(streamScript{1, E}, streamScript{0, E}, streamScript{3, E}), cancelBackoff, 1})
	add("corpus", scenario{mWorkloadStatus, 1, ss(streamScript{2, F}, streamScript{1, E}, streamScript{0, F}, streamScript{1, E}), cancelBackoff, 2})
	add("corpus", scenario{mNodeStatus, 3, ss(streamScript{2, E}, streamScript{1, F}), 0, 0}) // not in the allow-list
	add("corpus", scenario{mNodeStatus, 0, ss(streamScript{0, F}, streamScript{1, F}), 0, 0})
	add("corpus", scenario{mNodeStatus, 2, ss(streamScript{1, H}), cancelOnHang, 0})
	add("corpus", scenario{mUnaryInfo, 0, ss(streamScript{0, E}, streamScript{1, E}), 0, 0})
	add("corpus", scenario{mUnaryInfo, 0, ss(streamScript{1, E}), 0, 0})
	add("corpus", scenario{mUnaryInfo, 2, ss(streamScript{0, E}, streamScript{1, E}), 0, 0})
	add("corpus", scenario{mUnaryInfo, 1, ss(streamScript{0, E}, streamScript{0, E}, streamScript{1, E}), 0, 0})
	add("corpus", scenario{mWatchService, 1, ss(streamScript{1, E}, streamScript{1, H}), cancelNever, 0}) // blocks for ever: deadline

	// ---- structured random scripts ----
	n := r.N(100, 1500)
	maxMax := 2
	if r.Tier != "quick" {
		maxMax = 3
	}
	randStream := func() streamScript {
		m := 0
		if rng.Intn(100) >= 40 {
			m = 1 + rng.Intn(3)
		}
		return streamScript{m, ending(rng.Intn(2))}
	}
	for i := 0; i < n; i++ {
		var sc scenario
		sc.Max = rng.Intn(maxMax + 1)
		if rng.Intn(3) == 0 {
			sc.Max = 0 // the budget client.dial configures
		}
		ln := 1 + rng.Intn(6)
		for k := 0; k < ln; k++ {
			sc.Script = append(sc.Script, randStream())
		}
		kind := "retry"
		switch x := rng.Intn(100); {
		case x < 55:
			sc.Method = method(rng.Intn(2))
		case x < 70: // cancelled while blocked in Recv
			sc.Method = method(rng.Intn(2))
			h := rng.Intn(len(sc.Script))
			sc.Script[h].End = endHang
			sc.Cancel = cancelOnHang
			kind = "cancel-on-hang"
		case x < 82: // cancelled during backoff: stream j is the first re-open after a non-empty stream and fails empty
			sc.Method = method(rng.Intn(2))
			if sc.Max == 0 {
				sc.Max = 1 + rng.Intn(maxMax)
			}
			j := 1 + rng.Intn(3)
			pre := make([]streamScript, 0, j+1)
			for k := 0; k < j; k++ {
				pre = append(pre, streamScript{1 + rng.Intn(3), ending(rng.Intn(2))})
			}
			pre = append(pre, streamScript{0, ending(rng.Intn(2))})
			sc.Script = append(pre, sc.Script...)
			sc.Cancel, sc.CancelAt = cancelBackoff, j
			kind = "cancel-in-backoff"
		case x < 92:
			sc.Method = mNodeStatus
			kind = "pass-through"
		default:
			sc.Method = mUnaryInfo
			kind = "unary"
		}
		add(kind, sc)
	}

	// ---- run (in parallel: the backoff sleeps are real time) ----
	type outT struct {
		o observed
		d string
	}
	outs := make([]outT, len(scs))
	sem := make(chan struct{}, 12)
	var wg sync.WaitGroup
	for i := range scs {
		if r.Only >= 0 && i != r.Only {
			continue
		}
		wg.Add(1)
		sem <- struct{}{}
		go func(i int) {
			defer wg.Done()
			defer func() { <-sem }()
			dl := 40 * time.Second
			if hasHang(scs[i].Script) && scs[i].Cancel != cancelOnHang {
				dl = 4 * time.Second
			}
			o, d := run(scs[i], dl)
			outs[i] = outT{o, d}
		}(i)
	}
	wg.Wait()

	for i, sc := range scs {
		o := outs[i].o
		del := make([]string, len(o.Delivered))
		for k, id := range o.Delivered {
			del[k] = vh.Pair(vh.Nat(int(id/1000)), vh.Nat(int(id%1000)))
		}
		rq := make([]string, len(o.ReqOK))
		for k, b := range o.ReqOK {
			rq[k] = vh.Bool(b)
		}
		term := fmt.Sprintf("(mkCase %s %d %s %s %s %s %d %s)", sc.Method.coq(), sc.Max, coqScript(sc.Script), coqPlan(sc),
			vh.List(del), o.Final, o.Opened, vh.List(rq))
		desc := map[string]any{"kind": kinds[i], "scenario": sc, "observed": o, "detail": outs[i].d}
		tags := map[string]any{"kind": kinds[i], "method": sc.Method.coq(), "max": sc.Max, "cancel": sc.Cancel}
		r.Count("kind=" + kinds[i])
		r.Count("method=" + sc.Method.coq())
		r.Count(fmt.Sprintf("max=%d", sc.Max))
		r.Count("final=" + o.Final)
		r.Count(fmt.Sprintf("server_streams=%d", o.Opened))
		r.Add(term, desc, tags, o.Opened > 1)
	}
	r.Finish("corpus of 20 scripts (break before any message, clean end, exhausted budget surfacing io.EOF, cancel while blocked / during backoff, pass-through, unary, blocked for ever), then random scripts of 1-9 streams (0-3 messages each, 40% empty, error or clean end) with budget 0-2 (0-3 thorough): 55% watch streams, 15% cancelled on a hanging stream, 12% cancelled during backoff, 10% non-watch stream, 8% unary; each script = one real grpc server + client over bufconn with the repository's interceptors; non-trivial = more than one stream reached the server")
}
