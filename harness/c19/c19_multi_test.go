// C19, stream "multi": the multi-lock helpers of cluster/calcium/lock.go
// (withWorkloadsLocked, withNodesPodLocked) hold K = 2..3 locks at once; each
// doLock runs on the context the previous one returned, and the critical section
// runs under the last one, so the contexts are chained (coq/Locks/MultiLock.v).
// One run = one helper call on the real Calcium (etcd backend): the harness
// records the context EACH Lock returned (store wrapper installed with
// VerifSetStore), makes the helper lose one of the locks (first / middle / last)
// and observes every recorded context and the critical section's context.
package c19

import (
	"context"
	"fmt"
	"sort"
	"sync"
	"testing"
	"time"

	"verifharness/locklog"
	"verifharness/vh"

	"github.com/projecteru2/core/cluster"
	"github.com/projecteru2/core/cluster/calcium"
	"github.com/projecteru2/core/lock"
	"github.com/projecteru2/core/store"
	"github.com/projecteru2/core/types"
)

// ---- store wrapper: records, per lock key, the context Lock returned ----

type lockRec struct {
	key  string
	real lock.DistributedLock
	ctx  context.Context // returned by Lock (nil until it returns nil error)
	seq  int             // global order of the successful Lock returns
}

type spyStore struct {
	store.Store
	mu   sync.Mutex
	recs map[string]*lockRec
	seq  int
}

type spyLock struct {
	lock.DistributedLock
	s   *spyStore
	rec *lockRec
}

func newSpyStore(s store.Store) *spyStore { return &spyStore{Store: s, recs: map[string]*lockRec{}} }

func (s *spyStore) CreateLock(key string, ttl time.Duration) (lock.DistributedLock, error) {
	real, err := s.Store.CreateLock(key, ttl)
	if err != nil {
		return real, err
	}
	rec := &lockRec{key: key, real: real}
	s.mu.Lock()
	s.recs[key] = rec // the latest lock object made for this key
	s.mu.Unlock()
	return &spyLock{DistributedLock: real, s: s, rec: rec}, nil
}

func (l *spyLock) Lock(ctx context.Context) (context.Context, error) {
	rctx, err := l.DistributedLock.Lock(ctx)
	if err == nil {
		l.s.mu.Lock()
		l.s.seq++
		l.rec.ctx, l.rec.seq = rctx, l.s.seq
		l.s.mu.Unlock()
	}
	return rctx, err
}

func (s *spyStore) forget(keys []string) {
	s.mu.Lock()
	for _, k := range keys {
		delete(s.recs, k)
	}
	s.mu.Unlock()
}

// taken returns the records of the given keys in the order their Lock returned.
func (s *spyStore) taken(keys []string) []*lockRec {
	s.mu.Lock()
	defer s.mu.Unlock()
	var out []*lockRec
	for _, k := range keys {
		if r := s.recs[k]; r != nil && r.ctx != nil {
			out = append(out, r)
		}
	}
	sort.Slice(out, func(a, b int) bool { return out[a].seq < out[b].seq })
	return out
}

// ---- plans / results ----

type mplan struct {
	Helper  string `json:"helper"` // workloads | nodes
	K       int    `json:"k"`
	LostPos int    `json:"lost_pos"` // position (lock order) of the lock to lose; -1 = no-loss run
	SleepMs int    `json:"sleep_ms"`
}

type mkeyRes struct {
	Key  string        `json:"key"`
	Muts []locklog.Mut `json:"muts"`
	Log  []locklog.Ev  `json:"log"`
	Pre  int           `json:"pre"`
	Obs  string        `json:"obs"`
}

type mresult struct {
	keys     []mkeyRes
	mf       string
	delay    int64
	infra    string
	notes    []string
	hbMs     int64
	attempts int
}

// runMulti: one helper call.  key makes every name of the run unique.
func runMulti(env *locklog.Etcd, c *calcium.Calcium, spy *spyStore, key string, p mplan) (res mresult) {
	fail := func(f string, a ...any) mresult {
		res.infra = fmt.Sprintf(f, a...)
		return res
	}
	t0 := time.Now() // heartbeat window: everything, the set-up included
	sctx, scancel := context.WithTimeout(context.Background(), 30*time.Second)
	defer scancel()

	// ---- set-up: the objects the helper looks up, then the lock keys ----
	var lockKeys []string
	var call func(ctx context.Context, f func(context.Context) error) error
	switch p.Helper {
	case "workloads":
		pod, node := "mp-"+key, "mn-"+key
		if err := locklog.AddPodNode(c, pod, node); err != nil {
			return fail("setup: %v", err)
		}
		ids := make([]string, p.K)
		for j := range ids {
			ids[j] = fmt.Sprintf("mw-%s-%02d", key, j)
			w := &types.Workload{ID: ids[j], Name: fmt.Sprintf("app%d_entry_%s", j, "abcdef"), Podname: pod, Nodename: node}
			if err := c.VerifStore().AddWorkload(sctx, w, nil); err != nil {
				return fail("setup: AddWorkload: %v", err)
			}
			lockKeys = append(lockKeys, fmt.Sprintf(cluster.WorkloadLock, ids[j]))
		}
		// handed over in descending order: the helper sorts
		rev := append([]string(nil), ids...)
		sort.Sort(sort.Reverse(sort.StringSlice(rev)))
		call = func(ctx context.Context, f func(context.Context) error) error {
			return c.VerifFWithWorkloadsLocked(ctx, rev, func(fctx context.Context, _ map[string]*types.Workload) error { return f(fctx) })
		}
	case "nodes":
		var nodes []string
		for j := 0; j < p.K; j++ {
			pod, node := fmt.Sprintf("mp-%s-%02d", key, j), fmt.Sprintf("mn-%s-%02d", key, j)
			if err := locklog.AddPodNode(c, pod, node); err != nil {
				return fail("setup: %v", err)
			}
			nodes = append(nodes, node)
			lockKeys = append(lockKeys, fmt.Sprintf(cluster.PodLock, pod))
		}
		nf := &types.NodeFilter{Includes: nodes, All: true}
		call = func(ctx context.Context, f func(context.Context) error) error {
			return c.VerifFWithNodesPodLocked(ctx, nf, func(fctx context.Context, _ map[string]*types.Node) error { return f(fctx) })
		}
	default:
		return fail("unknown helper %q", p.Helper)
	}
	spy.forget(lockKeys) // AddNode took pod locks of its own during the set-up

	// one watch per key (each key has its own prefix), started after the set-up
	runs := map[string]*locklog.EtcdRun{}
	defer func() {
		for _, r := range runs {
			r.Close()
		}
	}()
	for _, k := range lockKeys {
		r, err := env.NewRun(k, nil)
		if err != nil {
			if r != nil {
				r.Close()
			}
			return fail("setup: watch %s: %v", k, err)
		}
		r.Single = true
		runs[k] = r
	}

	// ---- the scenario ----
	ctx, cancel := context.WithTimeout(context.Background(), 30*time.Second)
	defer cancel()
	start := time.Now()
	ms := func() int64 { return time.Since(start).Milliseconds() }
	type inspectReq struct {
		wait time.Duration
		lost time.Time // zero in no-loss runs
	}
	type inspectRes struct {
		mf    string
		obs   []string // per key, lock order
		delay int64
	}
	var tEnter, tExit int64
	var order []*lockRec
	entered := make(chan struct{})
	inspect := make(chan inspectReq, 1)
	inspected := make(chan inspectRes, 1)
	done := make(chan error, 1)
	tCall := ms()
	go func() {
		var err error
		defer func() {
			if pv := recover(); pv != nil {
				err = fmt.Errorf("panic: %v", pv)
			}
			done <- err
		}()
		err = call(ctx, func(fctx context.Context) error {
			tEnter = ms()
			order = spy.taken(lockKeys)
			close(entered)
			req := <-inspect
			var ir inspectRes
			var at time.Time
			ir.mf, at = locklog.CtxStateAt(fctx, req.wait)
			switch {
			case req.lost.IsZero():
				ir.delay = 0
			case at.IsZero():
				ir.delay = req.wait.Milliseconds()
			default:
				ir.delay = at.Sub(req.lost).Milliseconds()
			}
			// the contexts the individual Locks returned: a parent's cancellation
			// propagates synchronously, no waiting
			for _, r := range order {
				ir.obs = append(ir.obs, locklog.CtxState(r.ctx, 0))
			}
			tExit = ms()
			inspected <- ir
			return nil
		})
	}()
	select {
	case <-entered:
	case err := <-done:
		return fail("helper returned without entering: %v", err)
	case <-time.After(15 * time.Second):
		return fail("helper did not enter")
	}
	if len(order) != p.K {
		inspect <- inspectReq{}
		<-done
		return fail("%d of %d locks recorded", len(order), p.K)
	}
	time.Sleep(time.Duration(p.SleepMs) * time.Millisecond)
	var tLose, tLost int64
	lost := p.LostPos >= 0
	if lost {
		lease, ok := locklog.EtcdLease(order[p.LostPos].real)
		if !ok {
			inspect <- inspectReq{}
			<-done
			return fail("no session lease for %s", order[p.LostPos].key)
		}
		tLose = ms()
		if _, err := env.Cli.Revoke(ctx, lease); err != nil {
			res.notes = append(res.notes, fmt.Sprintf("revoke: %v", err))
		}
		tLost = ms()
		inspect <- inspectReq{wait: obsEtcdMs * time.Millisecond, lost: time.Now()}
	} else {
		time.Sleep(50 * time.Millisecond)
		inspect <- inspectReq{}
	}
	ir := <-inspected
	select {
	case err := <-done:
		if err != nil {
			res.notes = append(res.notes, fmt.Sprintf("helper: %v", err))
		}
	case <-time.After(15 * time.Second):
		return fail("helper did not return")
	}
	tURet := ms()
	res.hbMs = env.MaxLatency(t0, time.Now()).Milliseconds()
	res.mf, res.delay = ir.mf, ir.delay

	// ---- per key: its own log, its watch history ----
	firstPut := make([]int64, p.K)
	for i, r := range order {
		ev := func(t int64, kind, arg string) locklog.Ev { return locklog.Ev{Ms: t, Kind: kind, I: 0, Arg: arg} }
		lg := []locklog.Ev{ev(tCall, "ECall", locklog.OpLock), ev(tEnter, "EEnter", "")}
		pre := 1
		if lost && i == p.LostPos {
			lg = append(lg, ev(tLose, "ELose", ""), ev(tLost, "ELost", ""))
			pre = 2 // the PUT, and the DELETE caused by the revocation
		}
		lg = append(lg, ev(tExit, "EExit", ""), ev(tURet, "EURet", ""))
		muts, err := runs[r.key].Finish()
		if err != nil {
			return fail("watch %s: %v", r.key, err)
		}
		for _, m := range muts {
			if m.Put && firstPut[i] == 0 {
				firstPut[i] = m.Rev
			}
		}
		res.keys = append(res.keys, mkeyRes{Key: r.key, Muts: muts, Log: lg, Pre: pre, Obs: ir.obs[i]})
	}
	// cross-check: the order of the Lock returns is the order of the PUT revisions
	for i := 1; i < p.K; i++ {
		if firstPut[i-1] == 0 || firstPut[i] <= firstPut[i-1] {
			return fail("lock order %v disagrees with the PUT revisions %v", keysOf(order), firstPut)
		}
	}
	return res
}

func keysOf(rs []*lockRec) []string {
	out := make([]string, len(rs))
	for i, r := range rs {
		out[i] = r.key
	}
	return out
}

func runMultiRetry(env *locklog.Etcd, c *calcium.Calcium, spy *spyStore, k int, p mplan) (res mresult) {
	for a := 1; ; a++ {
		res = runMulti(env, c, spy, fmt.Sprintf("k%d-%d", k, a), p)
		res.attempts = a
		if a == 4 || (res.infra == "" && res.hbMs < stallMs) {
			return res
		}
	}
}

func multiStream(t *testing.T, env *locklog.Etcd, c *calcium.Calcium, spy *spyStore) {
	r := vh.New(t, "C19", "multi")
	r.Coq("From Verif Require Import Locks.LockLog Locks.EtcdLock Locks.MultiLock.", "MultiLock.mcase", "MultiLock.magree", "MultiLock.mok19")
	sleep := func() int { return 30 + r.Rng.Intn(71) }
	// quick: the six fixed runs; thorough: cycle over every helper / K / position
	plans := []mplan{
		{"workloads", 2, 0, sleep()}, {"workloads", 2, 1, sleep()}, {"workloads", 3, 1, sleep()}, {"workloads", 2, -1, sleep()},
		{"nodes", 2, 0, sleep()}, {"nodes", 2, -1, sleep()},
	}
	var all []mplan
	for _, h := range []string{"workloads", "nodes"} {
		for _, k := range []int{2, 3} {
			for pos := -1; pos < k; pos++ {
				all = append(all, mplan{Helper: h, K: k, LostPos: pos})
			}
		}
	}
	for i, n := 0, r.N(6, 30); len(plans) < n; i++ {
		p := all[i%len(all)]
		p.SleepMs = sleep()
		plans = append(plans, p)
	}
	results := make([]mresult, len(plans))
	locklog.Pool(len(plans), 6, func(k int) { results[k] = runMultiRetry(env, c, spy, k, plans[k]) })

	dropped := 0
	for k, p := range plans {
		res := results[k]
		if res.infra == "" && res.hbMs >= stallMs {
			r.Count("runs_dropped_etcd_stalled")
			dropped++
			continue
		}
		lost := p.LostPos >= 0
		fault := "none"
		if lost {
			fault = "lease_revoked"
		}
		var term string
		if res.infra != "" {
			// the infrastructure failed: a case that cannot be accepted
			term = fmt.Sprintf("(mkMCase [] CtxOther %s %s %s)", vh.Bool(lost), vh.Z(0), vh.Z(boundMs))
			r.Count("infrastructure_failure")
			t.Logf("C19 multi run %d: %s", k, res.infra)
		} else {
			ks := make([]string, len(res.keys))
			for i, kr := range res.keys {
				kc := fmt.Sprintf("(mkCase %s %s %s %s %s)", vh.ZList([]int64{ttlMs / 1000}), vh.ZList([]int64{ttlMs}),
					locklog.CoqMuts(kr.Muts), locklog.CoqLog(kr.Log), vh.Z(boundMs))
				ks[i] = fmt.Sprintf("(mkMKey %s %s %s)", kc, vh.Nat(kr.Pre), kr.Obs)
			}
			term = fmt.Sprintf("(mkMCase %s %s %s %s %s)", vh.List(ks), res.mf, vh.Bool(lost), vh.Z(res.delay), vh.Z(boundMs))
		}
		desc := map[string]any{"plan": p, "keys": res.keys, "critical_section_ctx": res.mf, "delay_ms": res.delay,
			"etcd_max_write_latency_ms": res.hbMs, "attempts": res.attempts}
		if len(res.notes) > 0 {
			desc["notes"] = res.notes
		}
		if res.infra != "" {
			desc["infrastructure_failure"] = res.infra
		}
		if res.attempts > 1 {
			r.Count(fmt.Sprintf("runs_repeated_after_etcd_stall=%d", res.attempts-1))
		}
		r.Count("helper=" + p.Helper)
		r.Count(fmt.Sprintf("k=%d", p.K))
		r.Count("fault=" + fault)
		r.Count(fmt.Sprintf("lost_pos=%d", p.LostPos))
		r.Count(fmt.Sprintf("ctx[%s,critical_section]=%s", fault, res.mf))
		for i, kr := range res.keys {
			rel := "not_lost"
			switch {
			case lost && i < p.LostPos:
				rel = "before_lost"
			case lost && i == p.LostPos:
				rel = "lost"
			case lost:
				rel = "after_lost"
			}
			r.Count(fmt.Sprintf("ctx[key %s]=%s", rel, kr.Obs))
		}
		r.Add(term, desc, map[string]any{"backend": "etcd", "via": "calcium-multi", "helper": p.Helper, "fault": fault,
			"lost_pos": p.LostPos, "k": p.K}, lost)
	}
	if dropped > 0 {
		t.Logf("C19 multi: %d of %d runs dropped (embedded cluster stalled)", dropped, len(plans))
	}
	r.Finish("one call of a multi-lock helper of the real Calcium (cluster/calcium/lock.go, verif hooks) on the embedded etcd, LockTimeout 2 s:" +
		" helper=workloads: withWorkloadsLocked over K = 2..3 workloads added straight to the store (ids handed over in descending order);" +
		" helper=nodes: withNodesPodLocked over K nodes living in K different pods; a store wrapper (VerifSetStore) records the context each Lock returned;" +
		" after 30..100 ms inside the critical section the lease of ONE of the K locks (position first / middle / last in lock order) is revoked through" +
		" the cluster client, the critical section's context is waited for (at most 2500 ms) and it and every recorded per-key context are classified;" +
		" no-loss runs inspect after 50 ms; per key: its own watch history and log; quick: W K=2 lose first, W K=2 lose last, W K=3 lose middle, W no-loss," +
		" N K=2 lose first, N no-loss; thorough: 30 runs cycling over helper x K x position; a run during which a heartbeat write took 500 ms or more is" +
		" repeated (at most three times) and then dropped; non-trivial = a lock is lost")
}
