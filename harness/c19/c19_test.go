// C19 correspondence harness: a scripted scenario on the real etcd-backed and
// redis-backed distributed locks.  Contender 0 holds the lock, contender 1
// waits in Lock (own goroutine), optionally contender 2 try-locks (busy); then
// in "lose" runs the harness makes the holder lose its lock behind its back
// (etcd: the session lease is revoked through the cluster client; redis: the
// key's TTL elapses, miniredis FastForward) and observes the context that Lock
// returned to the holder.  The event log (and the etcd watch history) is
// emitted as a Coq term for the models' trace acceptors (agree) and the boolean
// reflection of the property (ok19).
package c19

import (
	"context"
	"fmt"
	"os"
	"strings"
	"sync"
	"testing"
	"time"

	"verifharness/locklog"
	"verifharness/vh"

	"github.com/alicebob/miniredis/v2"
	"github.com/projecteru2/core/cluster"
	"github.com/projecteru2/core/cluster/calcium"
	"github.com/projecteru2/core/lock"
	"github.com/projecteru2/core/lock/etcdlock"
	"github.com/projecteru2/core/types"
)

const (
	ttlMs      = 2000 // etcd: session TTL 2 s = wait time-out; redis: lock TTL = wait time-out
	boundMs    = 2000 // notification bound handed to ok19
	obsEtcdMs  = 2500 // observation window for the holder's context after the loss
	obsRedisMs = 300

	boundPartitionMs = 8000 // partition runs: notification bound = observation window
	obsPartitionMs   = 8000
)

type plan struct {
	N         int  `json:"n"`
	Lose      bool `json:"lose"`
	SleepMs   int  `json:"sleep_ms"`
	HolderTry bool `json:"holder_trylock"` // contender 0 acquires with TryLock (uncontended) instead of Lock
	Partition bool `json:"partition,omitempty"`
	// Calcium: cluster level — the critical section of the real
	// Calcium.withNodePodLocked (cluster/calcium/lock.go) is the contender
	Calcium bool `json:"via_calcium,omitempty"`
}

func (p plan) via() string {
	if p.Calcium {
		return "calcium"
	}
	return "store"
}

func (p plan) holderOp() string {
	if p.HolderTry {
		return locklog.OpTry
	}
	return locklog.OpLock
}

type result struct {
	evs      []locklog.Ev
	muts     []locklog.Mut
	infra    string
	notes    []string
	hbMs     int64 // etcd: largest heartbeat write latency during the run
	attempts int
}

// An etcd run during which a heartbeat write to the embedded cluster took this
// long is repeated (the 2 s session TTL / 667 ms keepalive interval and the
// 2000 ms notification bound are wall-clock quantities); decided from the
// heartbeat only, never from what the contenders saw.
const stallMs = 500

type backend interface {
	locks() []lock.DistributedLock
	// lose makes contender 0 lose its lock; returns the virtual milliseconds (ELose argument)
	loseArg() int64
	lose(ctx context.Context) error
	obsWindow() time.Duration
}

type etcdB struct{ run *locklog.EtcdRun }

func (b etcdB) locks() []lock.DistributedLock  { return b.run.Locks }
func (b etcdB) loseArg() int64                 { return 0 }
func (b etcdB) lose(ctx context.Context) error { return b.run.Revoke(ctx, 0) }
func (b etcdB) obsWindow() time.Duration       { return obsEtcdMs * time.Millisecond }

type redisB struct{ run *locklog.RedisRun }

func (b redisB) locks() []lock.DistributedLock { return b.run.Locks }
func (b redisB) loseArg() int64                { return ttlMs + 1 }
func (b redisB) lose(context.Context) error {
	b.run.S.FastForward((ttlMs + 1) * time.Millisecond)
	return nil
}
func (b redisB) obsWindow() time.Duration { return obsRedisMs * time.Millisecond }

// scenario is the driver: sequentially scripted, only contender 1's Lock runs
// in its own goroutine (it logs its own EEnter / EFail when Lock returns).
func scenario(b backend, p plan, res *result) {
	ctx, cancel := context.WithTimeout(context.Background(), 30*time.Second)
	defer cancel() // also releases the etcd watcher goroutines of the returned contexts
	locks := b.locks()
	L := locklog.NewLog()
	defer func() { res.evs = L.Events() }()
	note := func(f string, a ...any) { res.notes = append(res.notes, fmt.Sprintf(f, a...)) }

	// finish: a contender that is inside leaves
	leave := func(i int) {
		L.Exit(i)
		if err := locklog.Unlock(ctx, locks[i]); err != nil {
			note("unlock %d: %v", i, err)
		}
		L.URet(i)
	}

	// A = 0 takes the lock (Lock or, uncontended, TryLock)
	L.Call(0, p.holderOp())
	ctxA, err, panicked := locklog.Acquire(ctx, locks[0], p.holderOp())
	if err != nil || panicked {
		L.Fail(0, locklog.ClassifyFail(p.holderOp(), err, panicked))
		note("acquire 0: %v", err)
		for _, l := range locks {
			_ = locklog.Unlock(ctx, l)
		}
		return
	}
	L.Enter(0)

	// B = 1 starts Lock and waits
	type bret struct {
		ctx context.Context
		ok  bool
	}
	bch := make(chan bret, 1)
	L.Call(1, locklog.OpLock)
	go func() {
		c, err, panicked := locklog.Acquire(ctx, locks[1], locklog.OpLock)
		if err != nil || panicked {
			L.Fail(1, locklog.ClassifyFail(locklog.OpLock, err, panicked))
			_ = locklog.Unlock(ctx, locks[1])
			bch <- bret{nil, false}
			return
		}
		L.Enter(1)
		bch <- bret{c, true}
	}()

	// optional third contender: TryLock while A holds
	if p.N == 3 {
		L.Call(2, locklog.OpTry)
		_, err, panicked := locklog.Acquire(ctx, locks[2], locklog.OpTry)
		if err != nil || panicked {
			L.Fail(2, locklog.ClassifyFail(locklog.OpTry, err, panicked))
			_ = locklog.Unlock(ctx, locks[2])
		} else {
			L.Enter(2) // mutual exclusion broken: ok19 / agree will say so
			leave(2)
		}
	}

	time.Sleep(time.Duration(p.SleepMs) * time.Millisecond)

	waitB := func() bret {
		select {
		case r := <-bch:
			return r
		case <-time.After(6 * time.Second):
			note("contender 1 did not return")
			return bret{nil, false}
		}
	}

	var rb bret
	if p.Lose {
		L.Lose(0, b.loseArg())
		if err := b.lose(ctx); err != nil {
			note("lose: %v", err)
		}
		L.Lost(0)
		rb = waitB()
		L.Ctx(0, locklog.CtxState(ctxA, b.obsWindow()))
		leave(0)
	} else {
		time.Sleep(50 * time.Millisecond)
		L.Ctx(0, locklog.CtxState(ctxA, 0))
		leave(0)
		rb = waitB()
	}
	if rb.ok {
		L.Ctx(1, locklog.CtxState(rb.ctx, 0))
		leave(1)
	}
}

// calciumScenario: a single contender whose critical section is the function
// handed to the real Calcium.withNodePodLocked (through the verif hook): it must
// run under the context returned by the lock.  ECall is logged before the call,
// EEnter inside the critical section, ECtx/EEXit when the driver says so, EURet
// after withNodePodLocked returned (it unlocks itself).  lose makes the holder
// lose the pod lock behind its back; d is the ELose argument.
func calciumScenario(c *calcium.Calcium, node string, p plan, d int64, lose func(context.Context) error, obs time.Duration, res *result) {
	ctx, cancel := context.WithTimeout(context.Background(), 30*time.Second)
	defer cancel()
	L := locklog.NewLog()
	defer func() { res.evs = L.Events() }()
	note := func(f string, a ...any) { res.notes = append(res.notes, fmt.Sprintf(f, a...)) }

	entered := make(chan struct{})
	inspect := make(chan time.Duration, 1)
	done := make(chan error, 1)
	L.Call(0, locklog.OpLock)
	go func() {
		var err error
		defer func() {
			if pv := recover(); pv != nil {
				err = fmt.Errorf("panic: %v", pv)
			}
			done <- err
		}()
		err = c.VerifFWithNodePodLocked(ctx, node, func(fctx context.Context, _ *types.Node) error {
			L.Enter(0)
			close(entered)
			w := <-inspect
			L.Ctx(0, locklog.CtxState(fctx, w))
			L.Exit(0)
			return nil
		})
	}()
	select {
	case <-entered:
	case err := <-done:
		// never entered: the lock (or the node lookup) failed
		L.Fail(0, locklog.ClassifyFail(locklog.OpLock, err, err != nil && strings.HasPrefix(err.Error(), "panic: ")))
		note("withNodePodLocked: %v", err)
		return
	case <-time.After(10 * time.Second):
		note("withNodePodLocked did not enter")
		return
	}
	time.Sleep(time.Duration(p.SleepMs) * time.Millisecond)
	if p.Lose {
		L.Lose(0, d)
		if err := lose(ctx); err != nil {
			note("lose: %v", err)
		}
		L.Lost(0)
		inspect <- obs
	} else {
		time.Sleep(50 * time.Millisecond)
		inspect <- 0
	}
	select {
	case err := <-done:
		if err != nil {
			note("withNodePodLocked: %v", err)
		}
		L.URet(0)
	case <-time.After(15 * time.Second):
		note("withNodePodLocked did not return")
	}
}

func runEtcdCalcium(env *locklog.Etcd, key string, p plan) (res result) {
	pod, node := "vp-"+key, "vn-"+key
	// the pod and its node first (AddNode takes locks of its own), then the watch
	if err := locklog.AddPodNode(env.C, pod, node); err != nil {
		return result{evs: locklog.Unacceptable(), infra: "setup: " + err.Error()}
	}
	t0 := time.Now() // the heartbeat window includes the creation of the lock objects (their leases)
	run, err := env.NewRun(fmt.Sprintf(cluster.PodLock, pod), nil)
	if err != nil {
		if run != nil {
			run.Close()
		}
		return result{evs: locklog.Unacceptable(), infra: "setup: " + err.Error()}
	}
	run.Single = true
	lose := func(ctx context.Context) error {
		lease, err := env.LeaseUnder(ctx, run.Pfx())
		if err != nil {
			return err
		}
		_, err = env.Cli.Revoke(ctx, lease)
		return err
	}
	calciumScenario(env.C, node, p, 0, lose, obsEtcdMs*time.Millisecond, &res)
	res.hbMs = env.MaxLatency(t0, time.Now()).Milliseconds()
	muts, err := run.Finish()
	if err != nil {
		res.infra = "watch: " + err.Error() // empty muts: the log cannot be accepted
		return res
	}
	res.muts = muts
	return res
}

// redisCal: one Calcium on one miniredis for all cluster-level redis runs; they
// are serialised because FastForward moves the clock of the whole miniredis.
type redisCal struct {
	mu sync.Mutex
	c  *calcium.Calcium
	s  *miniredis.Miniredis
}

func (rc *redisCal) run(key string, p plan) (res result) {
	rc.mu.Lock()
	defer rc.mu.Unlock()
	pod, node := "vp-"+key, "vn-"+key
	if err := locklog.AddPodNode(rc.c, pod, node); err != nil {
		return result{evs: locklog.Unacceptable(), infra: "setup: " + err.Error()}
	}
	lose := func(context.Context) error {
		rc.s.FastForward((ttlMs + 1) * time.Millisecond)
		return nil
	}
	calciumScenario(rc.c, node, p, ttlMs+1, lose, obsRedisMs*time.Millisecond, &res)
	return res
}

func runEtcd(env *locklog.Etcd, key string, p plan) (res result) {
	if p.Calcium {
		return runEtcdCalcium(env, key, p)
	}
	ttls := make([]time.Duration, p.N)
	for i := range ttls {
		ttls[i] = ttlMs * time.Millisecond
	}
	t0 := time.Now() // the heartbeat window includes the creation of the lock objects (their leases)
	run, err := env.NewRun(key, ttls)
	if err != nil {
		if run != nil {
			for _, l := range run.Locks {
				_ = locklog.Unlock(context.Background(), l)
			}
			run.Close()
		}
		return result{evs: locklog.Unacceptable(), infra: "setup: " + err.Error()}
	}
	scenario(etcdB{run}, p, &res)
	res.hbMs = env.MaxLatency(t0, time.Now()).Milliseconds()
	muts, err := run.Finish()
	if err != nil {
		res.infra = "watch: " + err.Error() // empty muts: the log cannot be accepted
		return res
	}
	res.muts = muts
	return res
}

// runEtcdRetry repeats a stalled (or infrastructure-failed) run on a fresh key,
// at most four attempts; a run that is still stalled after the last attempt is
// dropped by the caller (counted in the evidence), never emitted.
func runEtcdRetry(env *locklog.Etcd, k int, p plan) (res result) {
	for a := 1; ; a++ {
		res = runEtcd(env, fmt.Sprintf("k%d-%d", k, a), p)
		res.attempts = a
		if a == 4 || (res.infra == "" && res.hbMs < stallMs) {
			return res
		}
	}
}

// runPartition: one contender on the bridged cluster.  The lock object is made
// by the public etcdlock.New on the cluster's client (store.CreateLock only
// formats the key and calls it).  The holder acquires, then all traffic between
// client and server is black-holed: keepalives stop, the lease runs out on the
// server, and the holder's context must be cancelled.  The mutation history is
// read back through a watch from the start revision after the heal.
func runPartition(b *locklog.Bridged, k int, p plan) (res result) {
	key := fmt.Sprintf("/%s/p%d", "__lock__", k)
	pfx := key + "/"
	startRev, err := b.Revision(pfx)
	if err != nil {
		return result{evs: locklog.Unacceptable(), infra: "setup: " + err.Error()}
	}
	lk, err := etcdlock.New(b.Cli, key, ttlMs*time.Millisecond)
	if err != nil {
		return result{evs: locklog.Unacceptable(), infra: "setup: " + err.Error()}
	}
	ctx, cancel := context.WithTimeout(context.Background(), 60*time.Second)
	defer cancel()
	unlock := func() error {
		uctx, ucancel := context.WithTimeout(context.Background(), 10*time.Second)
		defer ucancel()
		return locklog.Unlock(uctx, lk)
	}
	L := locklog.NewLog()
	L.Call(0, p.holderOp())
	ctxA, err, panicked := locklog.Acquire(ctx, lk, p.holderOp())
	if err != nil || panicked {
		L.Fail(0, locklog.ClassifyFail(p.holderOp(), err, panicked))
		_ = unlock()
	} else {
		L.Enter(0)
		time.Sleep(time.Duration(p.SleepMs) * time.Millisecond)
		L.Lose(0, 0)
		b.Blackhole()
		L.Lost(0)
		L.Ctx(0, locklog.CtxState(ctxA, obsPartitionMs*time.Millisecond))
		b.Unblackhole()
		L.Exit(0)
		if uerr := unlock(); uerr != nil {
			res.notes = append(res.notes, fmt.Sprintf("unlock 0: %v", uerr))
		}
		L.URet(0)
	}
	res.evs = L.Events()
	muts, err := b.History(pfx, startRev)
	if err != nil {
		res.infra = "watch: " + err.Error() // empty muts: the log cannot be accepted
		return res
	}
	res.muts = muts
	return res
}

func runRedis(key string, p plan) (res result) {
	ttls := make([]time.Duration, p.N)
	for i := range ttls {
		ttls[i] = ttlMs * time.Millisecond
	}
	run, err := locklog.NewRedisRun(key, ttls)
	if err != nil {
		return result{evs: locklog.Unacceptable(), infra: "setup: " + err.Error()}
	}
	defer run.Close()
	scenario(redisB{run}, p, &res)
	return res
}

func stream(t *testing.T, bk string, exec func(k int, p plan) result, part *locklog.Bridged) {
	var r *vh.Run
	if bk == "etcd" {
		r = vh.New(t, "C19", "etcd")
		r.Coq("From Verif Require Import Locks.LockLog Locks.EtcdLock.", "EtcdLock.case", "EtcdLock.agree", "EtcdLock.ok19")
	} else {
		r = vh.New(t, "C19", "redis")
		r.Coq("From Verif Require Import Locks.LockLog Locks.RedisLock.", "RedisLock.rcase", "RedisLock.ragree", "RedisLock.rok19")
	}
	// corpus: one lose run and one no-loss run of each size, and one of each
	// with a TryLock-acquired holder; then random plans; then (etcd) the
	// partition runs.  Everything is drawn before anything runs: deterministic
	// given the seed.
	plans := []plan{
		{N: 2, Lose: true, SleepMs: 50}, {N: 3, Lose: true, SleepMs: 50},
		{N: 2, Lose: false, SleepMs: 50}, {N: 3, Lose: false, SleepMs: 50},
		{N: 2, Lose: true, SleepMs: 50, HolderTry: true}, {N: 2, Lose: false, SleepMs: 50, HolderTry: true},
	}
	n := r.N(10, 100)
	for k := 0; k < n; k++ {
		plans = append(plans, plan{N: 2 + r.Rng.Intn(2), Lose: r.Rng.Intn(10) < 7, SleepMs: 30 + r.Rng.Intn(71), HolderTry: r.Rng.Intn(2) == 0})
	}
	// cluster-level runs (both backends): two lose runs, one no-loss run, then random
	for k, nc := 0, r.N(3, 20); k < nc; k++ {
		lose := k < 2 || (k >= 3 && r.Rng.Intn(10) < 7)
		plans = append(plans, plan{N: 1, Lose: lose, SleepMs: 30 + r.Rng.Intn(71), Calcium: true})
	}
	nPlain := len(plans)
	if part != nil {
		for k, np := 0, r.N(2, 10); k < np; k++ {
			// the first two: one Lock holder, one TryLock holder
			try := k == 1 || (k >= 2 && r.Rng.Intn(2) == 0)
			plans = append(plans, plan{N: 1, Lose: true, SleepMs: 30 + r.Rng.Intn(71), HolderTry: try, Partition: true})
		}
	}
	results := make([]result, len(plans))
	partDone := make(chan struct{})
	go func() {
		// sequentially (a black hole cuts the whole member), on their own
		// cluster, concurrently with the other runs
		defer close(partDone)
		for k := nPlain; k < len(plans); k++ {
			if k > nPlain {
				// the heal closes every connection: let the client (its lease
				// keepalive stream retries every 500 ms) settle before the next
				// lease is granted, or the next holder's first keepalive falls
				// under the client's 6 s first-keepalive time-out
				time.Sleep(time.Second)
			}
			results[k] = runPartition(part, k, plans[k])
		}
	}()
	locklog.Pool(nPlain, 6, func(k int) { results[k] = exec(k, plans[k]) })
	<-partDone

	dropped := 0
	for k, p := range plans {
		res := results[k]
		if bk == "etcd" && !p.Partition && res.infra == "" && res.hbMs >= stallMs {
			r.Count("runs_dropped_etcd_stalled")
			dropped++
			continue
		}
		ttl := make([]int64, p.N)
		tmo := make([]int64, p.N)
		for i := range ttl {
			ttl[i], tmo[i] = ttlMs/1000, ttlMs
		}
		var term string
		fault := "none"
		if bk == "etcd" {
			bound := int64(boundMs)
			if p.Lose {
				fault = "lease_revoked"
			}
			if p.Partition {
				fault, bound = "partition", boundPartitionMs
			}
			term = fmt.Sprintf("(mkCase %s %s %s %s %s)", vh.ZList(ttl), vh.ZList(tmo), locklog.CoqMuts(res.muts), locklog.CoqLog(res.evs), vh.Z(bound))
		} else {
			term = fmt.Sprintf("(mkRCase %s %s %s)", vh.ZList(tmo), locklog.CoqLog(res.evs), vh.Z(boundMs))
			if p.Lose {
				fault = "ttl_elapsed"
			}
		}
		desc := map[string]any{"backend": bk, "plan": p, "log": res.evs}
		if bk == "etcd" {
			desc["muts"] = res.muts
		}
		if bk == "etcd" && !p.Partition {
			desc["etcd_max_write_latency_ms"] = res.hbMs
			desc["attempts"] = res.attempts
			if res.attempts > 1 {
				r.Count(fmt.Sprintf("runs_repeated_after_etcd_stall=%d", res.attempts-1))
			}
		}
		if len(res.notes) > 0 {
			desc["notes"] = res.notes
		}
		if res.infra != "" {
			desc["infrastructure_failure"] = res.infra
			r.Count("infrastructure_failure")
			t.Logf("C19 %s run %d: %s", bk, k, res.infra)
		}
		r.Count("backend=" + bk)
		r.Count(fmt.Sprintf("n=%d", p.N))
		r.Count("fault=" + fault)
		r.Count("holder_op=" + p.holderOp())
		r.Count("via=" + p.via())
		for _, e := range res.evs {
			if e.Kind == "ECtx" {
				r.Count(fmt.Sprintf("ctx[%s,%s]=%s", fault, map[bool]string{true: "holder", false: "successor"}[e.I == 0], e.Arg))
			}
		}
		r.Add(term, desc, map[string]any{"backend": bk, "fault": fault, "holder_op": p.holderOp(), "via": p.via()}, p.Lose)
	}
	if dropped > 0 {
		// never a failure: the evidence says how many runs could not be validated
		t.Logf("C19 %s: %d of %d runs dropped (embedded cluster stalled)", bk, dropped, len(plans))
	}
	r.Finish("scripted scenario on the real " + bk + " backend (real store.CreateLock, one lock object per contender):" +
		" contender 0 takes the lock (Lock, or in ~half of the runs an uncontended TryLock) and holds, contender 1 waits in Lock," +
		" optionally (n=3) contender 2 try-locks; after 30..100 ms in ~70% of" +
		" the runs the holder loses its lock behind its back (etcd: session lease revoked through the cluster client;" +
		" redis: TTL elapses, miniredis FastForward), the context returned to the holder is observed (Done() and Err()) for at most" +
		" 2500 ms (etcd) / 300 ms (redis); in the other runs the holder's context is inspected before a normal unlock;" +
		" the successor's context is inspected too; corpus = one lose and one no-loss run for n=2,3 and for a TryLock holder;" +
		" etcd: a run during which a heartbeat write to the embedded cluster took 500 ms or more is repeated (at most three times, then dropped);" +
		" etcd partition runs (2 quick / 10 thorough, sequential, on a second integration cluster behind a bridge, lock object from etcdlock.New," +
		" exempt from the stall rule): a single holder (Lock / TryLock), then all client-server traffic is black-holed, the holder's context" +
		" is observed for at most 8000 ms, the partition is healed, Unlock; the mutation history is read back by a watch from the start revision;" +
		" cluster-level runs (tag via=calcium; 3 quick / 20 thorough per backend, the first two lose runs, the third a no-loss run, then ~70% lose):" +
		" a single contender whose critical section is the function handed to the real Calcium.withNodePodLocked (verif hook; a pod with one mock-engine node" +
		" per run, LockTimeout 2 s); the context handed to the critical section is the one observed; the loss is injected as above" +
		" (etcd: the lease of the key found under the pod-lock prefix is revoked; redis: FastForward, runs serialised on one miniredis);" +
		" non-trivial = the holder loses its lock")
}

func TestC19(t *testing.T) {
	if os.Getenv("VERIF_OUT") == "" {
		t.Skip("VERIF_OUT not set; run through /verif/check")
	}
	env, err := locklog.NewEtcd(t)
	if err != nil {
		t.Fatalf("embedded etcd: %v", err)
	}
	// a real Calcium per backend for the cluster-level runs
	if env.C, _, err = locklog.NewCalcium(t, "etcd", ttlMs*time.Millisecond); err != nil {
		t.Fatalf("calcium/etcd: %v", err)
	}
	// its store is wrapped so that the context every Lock returns is recorded
	// (stream "multi"); everything else is delegated
	spy := newSpyStore(env.C.VerifStore())
	env.C.VerifSetStore(spy)
	rc := &redisCal{}
	if rc.c, rc.s, err = locklog.NewCalcium(t, "redis", ttlMs*time.Millisecond); err != nil {
		t.Fatalf("calcium/redis: %v", err)
	}
	// second cluster, behind a bridge, for the partition runs (NewEtcd already
	// put the test into etcd's integration test context)
	part, err := locklog.NewBridged(t)
	if err != nil {
		t.Fatalf("bridged etcd: %v", err)
	}
	stream(t, "etcd", func(k int, p plan) result { return runEtcdRetry(env, k, p) }, part)
	stream(t, "redis", func(k int, p plan) result {
		if p.Calcium {
			return rc.run(fmt.Sprintf("k%d", k), p)
		}
		return runRedis(fmt.Sprintf("k%d", k), p)
	}, nil)
	multiStream(t, env, env.C, spy)
}
