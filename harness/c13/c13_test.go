// Package c13: correspondence harness for C13 (deploy-status counts and
// in-progress markers).
//
// Stream "store": the four store calls of a deployment (CreateProcessing,
// AddWorkload with decrement, RemoveWorkload, DeleteProcessing) are issued
// against the REAL metadata store (embedded etcd / redis on miniredis, built by
// package cw) in the order create.go issues them, with random plans, instance
// outcomes, interleavings of the instance goroutines and injected failures;
// GetDeployStatus, the recorded workloads per node and the processing keys are
// probed before the first and after every call.
// Stream "deploy": a REAL Calcium.CreateWorkload runs with a probing wrapper
// around the store (the four calls are serialised and probed right after each
// of them) and engine/store faults at instance level.
// Coq (Calcium/DeployStatus.v) accepts the call sequence, recomputes every
// probe and evaluates the bounds on what the implementation reported.
package c13

import (
	"context"
	"errors"
	"fmt"
	"sort"
	"strconv"
	"strings"
	"sync"
	"sync/atomic"
	"testing"
	"time"

	"github.com/alicebob/miniredis/v2/server"

	"verifharness/cw"
	"verifharness/vh"

	clientv3 "go.etcd.io/etcd/client/v3"

	"github.com/projecteru2/core/store"
	"github.com/projecteru2/core/store/etcdv3"
	"github.com/projecteru2/core/store/etcdv3/meta"
	"github.com/projecteru2/core/types"
)

const (
	app   = "app"
	entry = "web"
)

type call struct {
	Kind  string `json:"kind"` // CCreateProc | CAdd | CRemove | CDelProc
	Node  string `json:"node"`
	ID    string `json:"id,omitempty"`
	Count int    `json:"count,omitempty"`
	Inj   bool   `json:"injected"`
	OK    bool   `json:"ok"`
	Ident string `json:"ident,omitempty"`
	Err   string `json:"err,omitempty"`
}

func (c call) mterm() string {
	switch c.Kind {
	case "CCreateProc":
		return fmt.Sprintf("(MCreateProc %s %s %s %s)", vh.Str(c.Ident), vh.Str(c.Node), vh.ZI(c.Count), vh.Bool(c.Inj))
	case "CAdd":
		return fmt.Sprintf("(MAdd %s %s %s %s)", vh.Str(c.Ident), vh.Str(c.Node), vh.Str(c.ID), vh.Bool(c.Inj))
	case "CRemove":
		return fmt.Sprintf("(MRemove %s %s %s)", vh.Str(c.Node), vh.Str(c.ID), vh.Bool(c.Inj))
	}
	return fmt.Sprintf("(MDelProc %s %s %s)", vh.Str(c.Ident), vh.Str(c.Node), vh.Bool(c.Inj))
}

func (c call) term() string {
	switch c.Kind {
	case "CCreateProc":
		return fmt.Sprintf("(CCreateProc %s %s %s)", vh.Str(c.Node), vh.ZI(c.Count), vh.Bool(c.Inj))
	case "CAdd", "CRemove":
		return fmt.Sprintf("(%s %s %s %s)", c.Kind, vh.Str(c.Node), vh.Str(c.ID), vh.Bool(c.Inj))
	}
	return fmt.Sprintf("(CDelProc %s %s)", vh.Str(c.Node), vh.Bool(c.Inj))
}

type probe struct {
	Status   []int `json:"status"`
	Recorded []int `json:"recorded"`
}

type prober struct {
	w     *cw.World
	nodes []string
}

func (p *prober) take() probe {
	out, err := p.tryTake()
	if err != nil {
		p.w.T.Fatalf("probe: %v", err)
	}
	return out
}

func (p *prober) tryTake() (probe, error) {
	ctx := p.w.Ctx
	out := probe{}
	st, err := p.w.RawStore.GetDeployStatus(ctx, app, entry)
	if err != nil {
		return out, err
	}
	for _, n := range p.nodes {
		out.Status = append(out.Status, st[n])
		wls, err := p.w.RawStore.ListWorkloads(ctx, app, entry, n, 0, nil)
		if err != nil {
			return out, err
		}
		out.Recorded = append(out.Recorded, len(wls))
	}
	return out, nil
}

// lightTake: GetDeployStatus through the store, the recorded workloads by looking at
// the deploy keys of miniredis directly (no redis commands: it runs inside the server's
// command hook and must be quick)
func (p *prober) lightTake() (probe, error) {
	out := probe{}
	st, err := p.w.RawStore.GetDeployStatus(p.w.Ctx, app, entry)
	if err != nil {
		return out, err
	}
	keys := p.w.Redis.Keys()
	for _, n := range p.nodes {
		out.Status = append(out.Status, st[n])
		prefix := fmt.Sprintf("/deploy/%s/%s/%s/", app, entry, n)
		cnt := 0
		for _, k := range keys {
			if strings.HasPrefix(k, prefix) {
				cnt++
			}
		}
		out.Recorded = append(out.Recorded, cnt)
	}
	return out, nil
}

// cmdProbe probes the deploy status before every command redis receives while a
// store call of the deployment is in flight (redis backend; miniredis pre-hook).
type cmdProbe struct {
	torn    *tornReader
	mu      sync.Mutex
	armed   bool
	match   []string // only commands mentioning one of these (workload id, marker key) belong to the call in flight
	probing int32
	probes  []probe
	pr      *prober
}

func (c *cmdProbe) install(w *cw.World) {
	if w.Redis == nil {
		return
	}
	w.Redis.Server().SetPreHook(func(_ *server.Peer, _ string, args ...string) bool {
		if c.torn != nil {
			c.torn.request()
		}
		c.mu.Lock()
		armed := c.armed
		mine := false
		for _, a := range args {
			for _, m := range c.match {
				if strings.Contains(a, m) {
					mine = true
				}
			}
		}
		c.mu.Unlock()
		// commands of other goroutines (reads of other instances, remap) do not stop the call in flight: skip them
		if !armed || !mine || !atomic.CompareAndSwapInt32(&c.probing, 0, 1) {
			return false
		}
		p, err := c.pr.lightTake()
		atomic.StoreInt32(&c.probing, 0)
		if err == nil {
			c.mu.Lock()
			c.probes = append(c.probes, p)
			c.mu.Unlock()
		}
		return false
	})
}
func (c *cmdProbe) arm(match ...string) {
	c.mu.Lock()
	c.armed, c.probes, c.match = true, nil, match
	c.mu.Unlock()
}
func (c *cmdProbe) disarm() []probe {
	c.mu.Lock()
	defer c.mu.Unlock()
	c.armed = false
	out := c.probes
	c.probes = nil
	return out
}

// tornReader splits one GetDeployStatus call of a reader goroutine in two: the
// reader is stopped before its splitAt-th request to the backend (redis command /
// etcd Get), the driver then runs one complete store call, the reader goes on.
type tornReader struct {
	mu      sync.Mutex
	active  bool
	splitAt int
	count   int
	paused  chan struct{}
	resume  chan struct{}
}

// request is called by the backend hook for every request; it blocks the reader at its split point
func (t *tornReader) request() {
	t.mu.Lock()
	if !t.active {
		t.mu.Unlock()
		return
	}
	t.count++
	if t.count != t.splitAt {
		t.mu.Unlock()
		return
	}
	t.active = false
	paused, resume := t.paused, t.resume
	t.mu.Unlock()
	close(paused)
	<-resume
}

// around runs f while a reader is stopped before its splitAt-th request; returns what the reader
// got and whether it was really split (false: it finished before reaching the split point, f ran afterwards)
func (t *tornReader) around(w *cw.World, nodes []string, splitAt int, f func()) (row []int, split bool) {
	t.mu.Lock()
	t.active, t.splitAt, t.count = true, splitAt, 0
	t.paused, t.resume = make(chan struct{}), make(chan struct{})
	paused, resume := t.paused, t.resume
	t.mu.Unlock()
	type res struct {
		st  map[string]int
		err error
	}
	done := make(chan res, 1)
	go func() {
		st, err := w.RawStore.GetDeployStatus(w.Ctx, app, entry)
		done <- res{st, err}
	}()
	var out res
	select {
	case <-paused:
		split = true
		f()
		close(resume)
		out = <-done
	case out = <-done:
		t.mu.Lock()
		t.active = false
		t.mu.Unlock()
		f()
	}
	if out.err != nil {
		w.T.Fatalf("torn reader: %v", out.err)
	}
	for _, n := range nodes {
		row = append(row, out.st[n])
	}
	return row, split
}

// etcd: the reader's requests are the Gets of the store's KV
type kvTorn struct {
	meta.KV
	t *tornReader
}

func (k *kvTorn) Get(ctx context.Context, key string, opts ...clientv3.OpOption) (*clientv3.GetResponse, error) {
	k.t.request()
	return k.KV.Get(ctx, key, opts...)
}

func (t *tornReader) installEtcd(w *cw.World) {
	if m, ok := w.RawStore.(*etcdv3.Mercury); ok {
		m.KV = &kvTorn{KV: m.KV, t: t}
	}
}

// sibling applications / entrypoints whose names share a prefix with (app, web):
// their records and markers must never count for (app, web)
var siblings = [][2]string{{"app", "web2"}, {"app", "web-canary"}, {"app2", "web"}, {"ap", "web"}, {"app", "we"}}

func addSiblings(w *cw.World, nodes []string, rng func(int) int, tag string) {
	for i, sb := range siblings {
		n := 1 + rng(2)
		for j := 0; j < n; j++ {
			node := nodes[rng(len(nodes))]
			id := fmt.Sprintf("sib-%s-%d-%d", tag, i, j)
			wl := &types.Workload{ID: id, Name: fmt.Sprintf("%s_%s_%s", sb[0], sb[1], id), Nodename: node, Podname: "p1"}
			if err := w.RawStore.AddWorkload(w.Ctx, wl, nil); err != nil {
				w.T.Fatalf("sibling workload: %v", err)
			}
		}
		if rng(2) == 0 {
			_ = w.RawStore.CreateProcessing(w.Ctx, &types.Processing{Appname: sb[0], Entryname: sb[1], Nodename: nodes[rng(len(nodes))], Ident: "sib" + tag}, 1+rng(3))
		}
	}
}

type marker struct {
	Node  string `json:"node"`
	Ident string `json:"ident"`
	Value int    `json:"value"`
}

// markers of (app, entry) currently in the store
func (p *prober) markers() []marker {
	out := []marker{}
	for _, kv := range p.w.Processing() {
		parts := strings.Split(strings.TrimPrefix(kv.Key, "/"), "/")
		// processing/app/entry/node/ident
		if len(parts) != 5 || parts[1] != app || parts[2] != entry {
			continue
		}
		v, _ := strconv.Atoi(kv.Value)
		out = append(out, marker{Node: parts[3], Ident: parts[4], Value: v})
	}
	sort.Slice(out, func(i, j int) bool {
		if out[i].Node != out[j].Node {
			return out[i].Node < out[j].Node
		}
		return out[i].Ident < out[j].Ident
	})
	return out
}

type dkey struct {
	Node string `json:"node"`
	ID   string `json:"id"`
}

func (p *prober) deployed() []dkey {
	out := []dkey{}
	for _, n := range p.nodes {
		wls, err := p.w.RawStore.ListWorkloads(p.w.Ctx, app, entry, n, 0, nil)
		if err != nil {
			p.w.T.Fatalf("ListWorkloads: %v", err)
		}
		for _, wl := range wls {
			out = append(out, dkey{Node: n, ID: wl.ID})
		}
	}
	sort.Slice(out, func(i, j int) bool {
		if out[i].Node != out[j].Node {
			return out[i].Node < out[j].Node
		}
		return out[i].ID < out[j].ID
	})
	return out
}

func initTerm(d []dkey, ms []marker) string {
	ds := make([]string, len(d))
	for i, k := range d {
		ds[i] = vh.Pair(vh.Str(k.Node), vh.Str(k.ID))
	}
	mt := make([]string, len(ms))
	for i, m := range ms {
		mt[i] = vh.Pair(vh.Pair(vh.Str(m.Node), vh.Str(m.Ident)), vh.ZI(m.Value))
	}
	return fmt.Sprintf("(mkD %s %s)", vh.List(ds), vh.List(mt))
}

type planEntry struct {
	Node  string `json:"node"`
	Count int    `json:"count"`
}

func emit(r *vh.Run, backend, stream, ident string, nodes []string, plan []planEntry, d0 []dkey, m0 []marker,
	calls []call, probes []probe, intra [][]probe, torn [][][]int, left []marker, returned bool, extra map[string]any) {
	b := "Etcd"
	if backend == "redis" {
		b = "Redis"
	}
	pl := make([]string, len(plan))
	for i, e := range plan {
		pl[i] = vh.Pair(vh.Str(e.Node), vh.ZI(e.Count))
	}
	ct, res := make([]string, len(calls)), make([]string, len(calls))
	for i, c := range calls {
		ct[i] = c.term()
		res[i] = vh.Bool(c.OK)
	}
	pt := make([]string, len(probes))
	for i, p := range probes {
		row := make([]string, len(nodes))
		for j := range nodes {
			row[j] = vh.Pair(vh.ZI(p.Status[j]), vh.ZI(p.Recorded[j]))
		}
		pt[i] = vh.List(row)
	}
	markersLeft := false
	for _, m := range left {
		if m.Ident == ident {
			markersLeft = true
		}
	}
	it := make([]string, len(calls))
	nIntra := 0
	for i := range calls {
		rows := []string{}
		if i < len(intra) {
			for _, p := range intra[i] {
				row := make([]string, len(nodes))
				for j := range nodes {
					row[j] = vh.Pair(vh.ZI(p.Status[j]), vh.ZI(p.Recorded[j]))
				}
				rows = append(rows, vh.List(row))
				nIntra++
			}
		}
		it[i] = vh.List(rows)
	}
	r.Count(fmt.Sprintf("intra_probes>0=%v", nIntra > 0))
	tt := make([]string, len(calls))
	nTorn := 0
	for i := range calls {
		rows := []string{}
		if i < len(torn) {
			for _, row := range torn[i] {
				cells := make([]string, len(row))
				for j, x := range row {
					cells[j] = vh.ZI(x)
				}
				rows = append(rows, vh.List(cells))
				nTorn++
			}
		}
		tt[i] = vh.List(rows)
	}
	r.Count(fmt.Sprintf("straddling_readers>0=%v", nTorn > 0))
	term := fmt.Sprintf("(mkCase %s %s %s %s %s %s %s %s %s %s %s %s)", b, vh.Str(ident), vh.StrList(nodes), vh.List(pl),
		initTerm(d0, m0), vh.List(ct), vh.List(res), vh.List(pt), vh.List(it), vh.List(tt), vh.Bool(markersLeft), vh.Bool(returned))
	zero := false
	for _, e := range plan {
		if e.Count == 0 {
			zero = true
		}
	}
	r.Count(fmt.Sprintf("%s:plan_with_zero_count_node=%v", stream, zero))
	injected, removes, adds := 0, 0, 0
	for _, c := range calls {
		if c.Inj {
			injected++
		}
		if c.Kind == "CRemove" {
			removes++
		}
		if c.Kind == "CAdd" {
			adds++
		}
	}
	desc := map[string]any{"backend": backend, "stream": stream, "ident": ident, "nodes": nodes, "plan": plan,
		"deployed_before": d0, "markers_before": m0, "calls": calls, "probes": probes, "markers_after": left}
	for k, v := range extra {
		desc[k] = v
	}
	r.Count("backend=" + backend)
	r.Count(fmt.Sprintf("plan_nodes=%d", len(plan)))
	r.Count(fmt.Sprintf("injected=%d", injected))
	if removes > 0 {
		r.Count("with_instance_rollback")
	}
	if len(m0) > 0 {
		r.Count("with_other_markers")
	}
	if markersLeft {
		r.Count("markers_left")
	}
	r.Add(term, desc, map[string]any{"backend": backend, "stream": stream, "injected": injected}, adds >= 1)
}

func newWorld(t *testing.T, backend string) (*cw.World, []string) {
	w := cw.New(t, cw.Options{Backend: backend, NCPU: 8, Mem: 1 << 30})
	if err := w.AddPod("p1"); err != nil {
		t.Fatalf("addpod: %v", err)
	}
	nodes := []string{"n1", "n2", "n3"}
	for _, n := range nodes {
		if err := w.AddNode(n, "p1", 8, 1<<30); err != nil {
			t.Fatalf("addnode: %v", err)
		}
	}
	return w, nodes
}

// ---------------------------------------------------------------- stream "store"

func storeStream(t *testing.T) {
	r := vh.New(t, "C13", "store")
	r.Coq("From Verif Require Import Calcium.DeployStatus.", "DeployStatus.case", "DeployStatus.agree", "DeployStatus.ok")
	r.Shard = 40
	total := r.N(60, 700)
	rng := r.Rng
	uniq := 0
	done := 0
	for wno := 0; done < total; wno++ {
		backend := "etcd"
		if wno%2 == 1 {
			backend = "redis"
		}
		w, nodes := newWorld(t, backend)
		pr := &prober{w: w, nodes: nodes}
		addSiblings(w, nodes, rng.Intn, fmt.Sprintf("s%d", wno))
		tornR := &tornReader{}
		tornR.installEtcd(w)
		cp := &cmdProbe{pr: pr, torn: tornR}
		cp.install(w)
		ctx := w.Ctx
		st := w.RawStore
		mkWl := func(node, id string) *types.Workload {
			return &types.Workload{ID: id, Name: fmt.Sprintf("%s_%s_%s", app, entry, id), Nodename: node, Podname: "p1"}
		}
		for dep := 0; dep < 10 && done < total; dep++ {
			uniq++
			ident := fmt.Sprintf("ident%04d", uniq)
			// sometimes another deployment's marker is around
			if rng.Intn(4) == 0 {
				_ = st.CreateProcessing(ctx, &types.Processing{Appname: app, Entryname: entry, Nodename: nodes[rng.Intn(len(nodes))], Ident: fmt.Sprintf("other%04d", uniq)}, 1+rng.Intn(3))
			}
			// plan
			perm := rng.Perm(len(nodes))
			plan := []planEntry{}
			for _, i := range perm[:1+rng.Intn(len(nodes))] {
				plan = append(plan, planEntry{Node: nodes[i], Count: rng.Intn(4)}) // 0: a node selected by FILL that is already filled
			}
			d0, m0 := pr.deployed(), pr.markers()
			calls := []call{}
			probes := []probe{pr.take()}
			intra := [][]probe{}
			torn := [][][]int{}
			do := func(c call) bool {
				var err error
				run := func() {
					if c.Kind == "CAdd" {
						cp.arm(c.ID, fmt.Sprintf("/processing/%s/%s/%s/%s", app, entry, c.Node, ident))
					}
					if c.Inj {
						err = errors.New("injected")
						return
					}
					p := &types.Processing{Appname: app, Entryname: entry, Nodename: c.Node, Ident: ident}
					switch c.Kind {
					case "CCreateProc":
						err = st.CreateProcessing(ctx, p, c.Count)
					case "CAdd":
						err = st.AddWorkload(ctx, mkWl(c.Node, c.ID), p)
					case "CRemove":
						err = st.RemoveWorkload(ctx, mkWl(c.Node, c.ID))
					case "CDelProc":
						err = st.DeleteProcessing(ctx, p)
					}
				}
				// a reader whose own two reads straddle this call: on redis around AddWorkload (its reads are
				// several commands each: any command boundary), on etcd (two Gets: one boundary) around any call
				rows := [][]int{}
				straddle := !c.Inj && ((c.Kind == "CAdd" && rng.Intn(2) == 0) || (backend == "etcd" && rng.Intn(4) == 0))
				if straddle {
					splitAt := 2
					if backend == "redis" {
						splitAt = 2 + rng.Intn(4)
					}
					row, split := tornR.around(w, nodes, splitAt, run)
					if split {
						rows = append(rows, row)
						r.Count("straddling_reader:" + c.Kind)
						before := probes[len(probes)-1]
						for j := range nodes {
							if row[j] < before.Status[j] && c.Kind == "CAdd" {
								r.Count("straddling_reader_saw_torn_value")
							}
						}
					}
				} else {
					run()
				}
				torn = append(torn, rows)
				intra = append(intra, cp.disarm())
				c.OK = err == nil
				calls = append(calls, c)
				probes = append(probes, pr.take())
				return c.OK
			}
			// condition step
			condOK := true
			stopAfter := -1
			if rng.Intn(6) == 0 {
				stopAfter = rng.Intn(len(plan) + 1) // the condition step fails for another reason after that many markers
			}
			for i, e := range plan {
				if i == stopAfter {
					condOK = false
					break
				}
				if !do(call{Kind: "CCreateProc", Node: e.Node, Count: e.Count, Inj: rng.Intn(12) == 0}) {
					condOK = false
					break
				}
			}
			if stopAfter == len(plan) {
				condOK = false
			}
			// instances
			if condOK {
				threads := [][]call{}
				for _, e := range plan {
					for i := 0; i < e.Count; i++ {
						uniq++
						id := fmt.Sprintf("w%05d", uniq)
						switch rng.Intn(8) {
						case 0: // engine create failed: no store call
						case 1: // AddWorkload fails, rollback removes nothing
							threads = append(threads, []call{{Kind: "CAdd", Node: e.Node, ID: id, Inj: true}, {Kind: "CRemove", Node: e.Node, ID: id}})
						case 2, 3: // recorded, a later step fails, rollback removes the record
							threads = append(threads, []call{{Kind: "CAdd", Node: e.Node, ID: id}, {Kind: "CRemove", Node: e.Node, ID: id}})
						case 4: // ... and the removal fails too
							threads = append(threads, []call{{Kind: "CAdd", Node: e.Node, ID: id}, {Kind: "CRemove", Node: e.Node, ID: id, Inj: true}})
						default:
							threads = append(threads, []call{{Kind: "CAdd", Node: e.Node, ID: id}})
						}
					}
				}
				for len(threads) > 0 {
					i := rng.Intn(len(threads))
					do(threads[i][0])
					threads[i] = threads[i][1:]
					if len(threads[i]) == 0 {
						threads = append(threads[:i], threads[i+1:]...)
					}
				}
			}
			// cleanup (sometimes cut short, sometimes with a failing deletion)
			cut := -1
			if rng.Intn(10) == 0 {
				cut = rng.Intn(len(plan))
			}
			for i, pi := range rng.Perm(len(plan)) {
				if i == cut {
					break
				}
				do(call{Kind: "CDelProc", Node: plan[pi].Node, Inj: rng.Intn(15) == 0})
			}
			emit(r, backend, "store", ident, nodes, plan, d0, m0, calls, probes, intra, torn, pr.markers(), cut == -1, nil)
			done++
			// remove what this deployment left so that the next one starts clean of its ident
			for _, m := range pr.markers() {
				if m.Ident == ident {
					_ = st.DeleteProcessing(ctx, &types.Processing{Appname: app, Entryname: entry, Nodename: m.Node, Ident: ident})
				}
			}
		}
		w.Close()
	}
	r.Finish("store level: one case per deployment-shaped call sequence against the real store (both backends): random plan over 3 nodes, instance outcomes (no store call / add fails / recorded / recorded then removed / removal fails), random interleaving, injected failures of any call, occasional foreign marker, occasional truncated clean-up; probes before and after every call; non-trivial = at least one AddWorkload")
}

// ---------------------------------------------------------------- stream "deploy"

// probeStore serialises the four deployment calls of the store, injects
// failures into them and probes right after each call.
type probeStore struct {
	store.Store
	mu      sync.Mutex
	pr      *prober
	cp      *cmdProbe
	on      bool
	calls   []call
	probes  []probe
	intra   [][]probe
	ident   string
	injKind string
	injOrd  int
	seen    map[string]int
	// cancel the CALLER's context right after the cancelOrd-th call of kind cancelKind returned
	cancel     context.CancelFunc
	cancelKind string
	cancelOrd  int
}

var errInjected = errors.New("verif: injected store failure")

func (s *probeStore) rec(ctx context.Context, kind, node, id string, count int, ident string, f func() error) error {
	s.mu.Lock()
	defer s.mu.Unlock()
	if !s.on {
		return f()
	}
	if ident != "" {
		s.ident = ident
	}
	c := call{Kind: kind, Node: node, ID: id, Count: count, Ident: ident}
	ord := s.seen[kind]
	s.seen[kind] = ord + 1
	var err error
	if kind == "CAdd" {
		s.cp.arm(id, fmt.Sprintf("/processing/%s/%s/%s/%s", app, entry, node, ident))
	}
	switch {
	case s.injKind == kind && s.injOrd == ord:
		c.Inj = true
		err = errInjected
	case ctx.Err() != nil && kind != "CDelProc":
		// the caller's context is already cancelled: the call fails before it executes (fail-before, like an
		// injected failure).  NOT for DeleteProcessing: the clean-up must not depend on the caller's context,
		// a deletion issued with a dead context goes to the real store and its failure is not excused
		c.Inj = true
		err = ctx.Err()
	default:
		err = f()
	}
	s.intra = append(s.intra, s.cp.disarm())
	c.OK = err == nil
	if err != nil {
		c.Err = err.Error()
	}
	s.calls = append(s.calls, c)
	s.probes = append(s.probes, s.pr.take())
	if s.cancel != nil && s.cancelKind == kind && s.cancelOrd == ord {
		s.cancel()
	}
	return err
}

func (s *probeStore) CreateProcessing(ctx context.Context, p *types.Processing, count int) error {
	return s.rec(ctx, "CCreateProc", p.Nodename, "", count, p.Ident, func() error { return s.Store.CreateProcessing(ctx, p, count) })
}
func (s *probeStore) DeleteProcessing(ctx context.Context, p *types.Processing) error {
	return s.rec(ctx, "CDelProc", p.Nodename, "", 0, p.Ident, func() error { return s.Store.DeleteProcessing(ctx, p) })
}
func (s *probeStore) AddWorkload(ctx context.Context, wl *types.Workload, p *types.Processing) error {
	if p == nil {
		return s.Store.AddWorkload(ctx, wl, p)
	}
	return s.rec(ctx, "CAdd", wl.Nodename, wl.ID, 0, p.Ident, func() error { return s.Store.AddWorkload(ctx, wl, p) })
}
func (s *probeStore) RemoveWorkload(ctx context.Context, wl *types.Workload) error {
	return s.rec(ctx, "CRemove", wl.Nodename, wl.ID, 0, "", func() error { return s.Store.RemoveWorkload(ctx, wl) })
}

func deployStream(t *testing.T) {
	r := vh.New(t, "C13", "deploy")
	r.Coq("From Verif Require Import Calcium.DeployStatus.", "DeployStatus.case", "DeployStatus.agree", "DeployStatus.ok")
	r.Shard = 40
	total := r.N(40, 350)
	rng := r.Rng
	done := 0
	opNo := 0
	for wno := 0; done < total; wno++ {
		backend := "etcd"
		if wno%2 == 1 {
			backend = "redis"
		}
		w, nodes := newWorld(t, backend)
		pr := &prober{w: w, nodes: nodes}
		addSiblings(w, nodes, rng.Intn, fmt.Sprintf("d%d", wno))
		cp := &cmdProbe{pr: pr}
		cp.install(w)
		ps := &probeStore{Store: w.Store, pr: pr, cp: cp, seen: map[string]int{}}
		w.C.VerifSetStore(ps)
		for dep := 0; dep < 8 && done < total; dep++ {
			if rng.Intn(4) == 0 {
				_ = w.RawStore.CreateProcessing(w.Ctx, &types.Processing{Appname: app, Entryname: entry, Nodename: nodes[rng.Intn(len(nodes))], Ident: fmt.Sprintf("other%d-%d", wno, dep)}, 1+rng.Intn(2))
			}
			d0, m0 := pr.deployed(), pr.markers()
			w.IC.Reset()
			ps.mu.Lock()
			ps.on, ps.calls, ps.probes, ps.intra, ps.ident, ps.seen = true, nil, []probe{pr.take()}, nil, "", map[string]int{}
			ps.injKind, ps.injOrd = "", 0
			fault := "none"
			// the first two deployments of every world: FILL 1 instance on one node, then FILL 1 instance on two
			// nodes: the node filled before is selected again with 0 instances to deploy (a zero-count plan entry)
			fillCorpus := dep < 2
			faultKind := rng.Intn(11)
			callerCtx, callerCancel := context.WithCancel(w.Ctx)
			ps.cancel, ps.cancelKind, ps.cancelOrd = nil, "", 0
			if fillCorpus {
				faultKind = 8
			}
			switch faultKind {
			case 0:
				ps.injKind, ps.injOrd, fault = "CAdd", rng.Intn(3), "AddWorkload"
			case 1:
				ps.injKind, ps.injOrd, fault = "CCreateProc", rng.Intn(2), "CreateProcessing"
			case 2:
				ps.injKind, ps.injOrd, fault = "CDelProc", rng.Intn(2), "DeleteProcessing"
			case 3, 4:
				w.IC.SetFault(&cw.Addr{Method: "VirtualizationStart", Target: "*", Ord: rng.Intn(3)})
				fault = "VirtualizationStart"
			case 5:
				w.IC.SetFault(&cw.Addr{Method: "VirtualizationCreate", Target: "*", Ord: rng.Intn(3)})
				fault = "VirtualizationCreate"
			case 6:
				w.IC.SetFault(&cw.Addr{Method: "VirtualizationStart", Target: "*", Ord: rng.Intn(2)})
				ps.injKind, ps.injOrd, fault = "CRemove", 0, "VirtualizationStart+RemoveWorkload"
			case 9, 10:
				// the caller goes away mid-deployment: its context is cancelled right after one of the deployment's store calls
				ps.cancel = callerCancel
				if rng.Intn(2) == 0 {
					ps.cancelKind, ps.cancelOrd = "CCreateProc", rng.Intn(2)
				} else {
					ps.cancelKind, ps.cancelOrd = "CAdd", rng.Intn(2)
				}
				fault = "caller-cancelled-after-" + ps.cancelKind
			}
			ps.mu.Unlock()
			opNo++
			w.Hub.SetOpNorm(opNo, true)
			count := 1 + rng.Intn(5)
			strategy := []string{"AUTO", "FILL", "EACH"}[rng.Intn(3)]
			opts := &types.DeployOptions{
				Name: app, Entrypoint: &types.Entrypoint{Name: entry}, Podname: "p1", Image: "img",
				Count: count, DeployStrategy: strategy, NodeFilter: &types.NodeFilter{Podname: "p1"},
				Resources: cw.CPUMem(0.1, 1<<20),
			}
			if strategy == "EACH" {
				opts.Count = 1 + rng.Intn(2)
			}
			if strategy == "FILL" {
				opts.Count = 1 + rng.Intn(3)
				opts.NodesLimit = rng.Intn(4) // 0 = every node
			}
			if fillCorpus {
				strategy = "FILL"
				opts.DeployStrategy, opts.Count, opts.NodesLimit = "FILL", 1, dep+1
			}
			ch, err := w.C.CreateWorkload(callerCtx, opts)
			msgs, failed := 0, 0
			if err == nil {
				deadline := time.After(30 * time.Second)
			loop:
				for {
					select {
					case m, ok := <-ch:
						if !ok {
							break loop
						}
						msgs++
						if m.Error != nil {
							failed++
						}
					case <-deadline:
						t.Fatalf("C13: create did not finish")
					}
				}
			}
			w.Quiesce()
			callerCancel()
			ps.mu.Lock()
			ps.on = false
			calls, probes, intra, ident := append([]call{}, ps.calls...), append([]probe{}, ps.probes...), append([][]probe{}, ps.intra...), ps.ident
			ps.mu.Unlock()
			w.IC.SetFault(nil)
			// the plan: counts from the CreateProcessing calls; planned nodes that
			// never got that far only appear in the deletions (count irrelevant: 0)
			plan := []planEntry{}
			seen := map[string]bool{}
			for _, c := range calls {
				if c.Kind == "CCreateProc" && !seen[c.Node] {
					seen[c.Node] = true
					plan = append(plan, planEntry{Node: c.Node, Count: c.Count})
				}
			}
			for _, c := range calls {
				if c.Kind == "CDelProc" && !seen[c.Node] {
					seen[c.Node] = true
					plan = append(plan, planEntry{Node: c.Node, Count: 0})
				}
			}
			if ident == "" {
				ident = "none"
			}
			emit(r, backend, "deploy", ident, nodes, plan, d0, m0, calls, probes, intra, nil, pr.markers(), true,
				map[string]any{"fault": fault, "strategy": strategy, "count": opts.Count, "nodes_limit": opts.NodesLimit, "messages": msgs, "failed_messages": failed, "fill_corpus": fillCorpus})
			r.Count("fault=" + fault)
			done++
			for _, m := range pr.markers() {
				if m.Ident == ident {
					_ = w.RawStore.DeleteProcessing(w.Ctx, &types.Processing{Appname: app, Entryname: entry, Nodename: m.Node, Ident: ident})
				}
			}
		}
		w.Close()
	}
	r.Finish("real Calcium.CreateWorkload (AUTO/FILL/EACH over 3 nodes, 1-5 instances) with a probing store wrapper: the deployment's CreateProcessing / AddWorkload / RemoveWorkload / DeleteProcessing calls are serialised, optionally failed (one injected store or engine fault per deployment) and probed right after each call; the model must accept the call sequence create.go produced and reproduce every probe; non-trivial = at least one AddWorkload")
}

// ---------------------------------------------------------------- stream "race"

// n goroutines call AddWorkload (record + decrement) on one marker of the real
// etcd store at the same time: the compare-value retry loop must neither lose
// nor duplicate a decrement (model: Calcium/DecrLoop.v).
func raceStream(t *testing.T) {
	r := vh.New(t, "C13", "race")
	r.Coq("From Verif Require Import Calcium.DecrLoop.", "DecrLoop.case", "DecrLoop.agree", "DecrLoop.ok")
	total := r.N(12, 200)
	w, nodes := newWorld(t, "etcd")
	defer w.Close()
	pr := &prober{w: w, nodes: nodes}
	st := w.RawStore
	uniq := 0
	for i := 0; i < total; i++ {
		n := 2 + r.Rng.Intn(7)
		k := n + r.Rng.Intn(3)
		ident := fmt.Sprintf("race%04d", i)
		node := nodes[r.Rng.Intn(len(nodes))]
		p := &types.Processing{Appname: app, Entryname: entry, Nodename: node, Ident: ident}
		if err := st.CreateProcessing(w.Ctx, p, k); err != nil {
			t.Fatalf("race: CreateProcessing: %v", err)
		}
		before := len(pr.deployed())
		var wg sync.WaitGroup
		start := make(chan struct{})
		errs := make([]error, n)
		for j := 0; j < n; j++ {
			uniq++
			id := fmt.Sprintf("r%05d", uniq)
			wg.Add(1)
			go func(j int) {
				defer wg.Done()
				<-start
				errs[j] = st.AddWorkload(w.Ctx, &types.Workload{ID: id, Name: fmt.Sprintf("%s_%s_%s", app, entry, id), Nodename: node, Podname: "p1"}, p)
			}(j)
		}
		close(start)
		wg.Wait()
		for _, e := range errs {
			if e != nil {
				t.Fatalf("race: AddWorkload: %v", e)
			}
		}
		markerAfter := 0
		for _, m := range pr.markers() {
			if m.Ident == ident {
				markerAfter = m.Value
			}
		}
		recorded := len(pr.deployed()) - before
		term := fmt.Sprintf("(mkCase %s %s %s %s)", vh.ZI(k), vh.Nat(n), vh.ZI(markerAfter), vh.ZI(recorded))
		r.Count(fmt.Sprintf("callers=%d", n))
		r.Add(term, map[string]any{"k": k, "callers": n, "marker_after": markerAfter, "recorded": recorded}, map[string]any{"stream": "race"}, true)
		_ = st.DeleteProcessing(w.Ctx, p)
	}
	r.Finish("n = 2..8 goroutines call AddWorkload with the same processing marker (value k >= n) on the real etcd store at the same moment; observed: marker value and number of new records afterwards")
}

// ---------------------------------------------------------------- stream "concurrent"

// several real CreateWorkload calls of the same (app, entrypoint) run at the
// same time (both backends); the four deployment calls of all of them are
// serialised and probed by the probing store wrapper; model: Calcium/DeployMulti.v.
func concurrentStream(t *testing.T) {
	r := vh.New(t, "C13", "concurrent")
	r.Coq("From Verif Require Import Calcium.DeployStatus Calcium.DeployMulti.", "DeployMulti.case", "DeployMulti.agree", "DeployMulti.ok")
	r.Shard = 30
	total := r.N(16, 300)
	rng := r.Rng
	done := 0
	opNo := 100
	for wno := 0; done < total; wno++ {
		backend := "redis"
		if wno%3 == 2 {
			backend = "etcd"
		}
		w, nodes := newWorld(t, backend)
		pr := &prober{w: w, nodes: nodes}
		addSiblings(w, nodes, rng.Intn, fmt.Sprintf("c%d", wno))
		cp := &cmdProbe{pr: pr}
		cp.install(w)
		ps := &probeStore{Store: w.Store, pr: pr, cp: cp, seen: map[string]int{}}
		w.C.VerifSetStore(ps)
		for round := 0; round < 5 && done < total; round++ {
			d0, m0 := pr.deployed(), pr.markers()
			w.IC.Reset()
			if rng.Intn(3) == 0 {
				w.IC.SetFault(&cw.Addr{Method: "VirtualizationStart", Target: "*", Ord: rng.Intn(3)})
			}
			ps.mu.Lock()
			ps.on, ps.calls, ps.probes, ps.intra, ps.ident, ps.seen = true, nil, []probe{pr.take()}, nil, "", map[string]int{}
			ps.injKind, ps.injOrd = "", 0
			ps.mu.Unlock()
			k := 2 + rng.Intn(2)
			var wg sync.WaitGroup
			start := make(chan struct{})
			for j := 0; j < k; j++ {
				opNo++
				opts := &types.DeployOptions{
					Name: app, Entrypoint: &types.Entrypoint{Name: entry}, Podname: "p1", Image: "img",
					Count: 1 + rng.Intn(3), DeployStrategy: []string{"AUTO", "FILL"}[rng.Intn(2)], NodeFilter: &types.NodeFilter{Podname: "p1"},
					Resources: cw.CPUMem(0.1, 1<<20),
				}
				wg.Add(1)
				go func() {
					defer wg.Done()
					<-start
					ch, err := w.C.CreateWorkload(w.Ctx, opts)
					if err != nil {
						return
					}
					deadline := time.After(40 * time.Second)
					for {
						select {
						case _, ok := <-ch:
							if !ok {
								return
							}
						case <-deadline:
							return
						}
					}
				}()
			}
			w.Hub.SetOp(opNo)
			close(start)
			wg.Wait()
			w.Quiesce()
			ps.mu.Lock()
			ps.on = false
			calls, probes, intra := append([]call{}, ps.calls...), append([]probe{}, ps.probes...), append([][]probe{}, ps.intra...)
			ps.mu.Unlock()
			w.IC.SetFault(nil)
			// the union of all deployments' plans: one entry per slot = (node, ident)
			type slotKey struct{ node, ident string }
			seenSlot := map[slotKey]bool{}
			idents := map[string]bool{}
			planT := []string{}
			for _, c := range calls {
				if c.Kind != "CCreateProc" && c.Kind != "CDelProc" {
					continue
				}
				sk := slotKey{c.Node, c.Ident}
				if seenSlot[sk] {
					continue
				}
				seenSlot[sk] = true
				idents[c.Ident] = true
				cnt := 0
				if c.Kind == "CCreateProc" {
					cnt = c.Count
				}
				planT = append(planT, vh.Pair(vh.Pair(vh.Str(c.Node), vh.Str(c.Ident)), vh.ZI(cnt)))
			}
			left := pr.markers()
			markersLeft := false
			for _, m := range left {
				if idents[m.Ident] {
					markersLeft = true
				}
			}
			b := "Etcd"
			if backend == "redis" {
				b = "Redis"
			}
			ct, res := make([]string, len(calls)), make([]string, len(calls))
			for i, c := range calls {
				ct[i], res[i] = c.mterm(), vh.Bool(c.OK)
			}
			row := func(p probe) string {
				cells := make([]string, len(nodes))
				for j := range nodes {
					cells[j] = vh.Pair(vh.ZI(p.Status[j]), vh.ZI(p.Recorded[j]))
				}
				return vh.List(cells)
			}
			pt := make([]string, len(probes))
			for i, p := range probes {
				pt[i] = row(p)
			}
			it := make([]string, len(calls))
			for i := range calls {
				rows := []string{}
				if i < len(intra) {
					for _, p := range intra[i] {
						rows = append(rows, row(p))
					}
				}
				it[i] = vh.List(rows)
			}
			term := fmt.Sprintf("(mkCase %s %s %s %s %s %s %s %s %s)", b, vh.StrList(nodes), vh.List(planT), initTerm(d0, m0),
				vh.List(ct), vh.List(res), vh.List(pt), vh.List(it), vh.Bool(markersLeft))
			r.Count("backend=" + backend)
			r.Count(fmt.Sprintf("deployments=%d", k))
			r.Add(term, map[string]any{"backend": backend, "deployments": k, "calls": calls, "probes": probes, "markers_before": m0, "markers_after": left},
				map[string]any{"backend": backend, "stream": "concurrent"}, len(calls) > 0)
			done++
		}
		w.Close()
	}
	r.Finish("2-3 real CreateWorkload calls of the same (app, entrypoint) started at the same moment on one Calcium (redis two thirds, etcd one third), optional engine start failure; the deployments' store calls are serialised, attributed to their ident and probed after each call (and before every redis command inside a call)")
}

func TestC13(t *testing.T) {
	storeStream(t)
	deployStream(t)
	raceStream(t)
	concurrentStream(t)
}
