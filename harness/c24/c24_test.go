package c24

import (
	"context"
	"errors"
	"fmt"
	"path/filepath"
	"sort"
	"strings"
	"testing"
	"time"

	"verifharness/vh"

	"github.com/alicebob/miniredis/v2"
	enginefactory "github.com/projecteru2/core/engine/factory"
	"github.com/projecteru2/core/store"
	"github.com/projecteru2/core/store/etcdv3"
	"github.com/projecteru2/core/store/redis"
	"github.com/projecteru2/core/types"
	"github.com/projecteru2/core/utils"
	clientv3 "go.etcd.io/etcd/client/v3"
)

// cstr emits a Go string as a Coq string: a literal when it is printable ASCII
// (cheap to parse), the byte-list form of vh.Str otherwise.
func cstr(s string) string {
	for i := 0; i < len(s); i++ {
		if s[i] < 0x20 || s[i] > 0x7e || s[i] == '"' {
			return vh.Str(s)
		}
	}
	return "\"" + s + "\"%string"
}

func cstrList(vs []string) string {
	s := make([]string, len(vs))
	for i, v := range vs {
		s[i] = cstr(v)
	}
	return vh.List(s)
}

// ---- validation through the real Validate functions -------------------------

func errCode(err error) int {
	switch {
	case err == nil:
		return 0
	case errors.Is(err, types.ErrEmptyAppName), errors.Is(err, types.ErrEmptyEntrypointName), errors.Is(err, types.ErrEmptyNodeName):
		return 1
	case errors.Is(err, types.ErrUnderlineInEntrypointName):
		return 2
	case errors.Is(err, types.ErrInvalidAppName), errors.Is(err, types.ErrInvalidEntrypointName), errors.Is(err, types.ErrInvalidNodeName):
		return 3
	}
	return 9
}

func validateDeploy(app, entry string) int {
	o := &types.DeployOptions{Name: app, Podname: "p", Image: "img", Count: 1, Entrypoint: &types.Entrypoint{Name: entry}}
	a := errCode(o.Validate())
	ro := &types.ReplaceOptions{DeployOptions: *o}
	if b := errCode(ro.Validate()); a != b {
		return 8 // DeployOptions and ReplaceOptions disagree: not representable, forces a mismatch
	}
	return a
}
func validateEntry(entry string) int { return errCode((&types.Entrypoint{Name: entry}).Validate()) }
func validateNode(node string) int {
	return errCode((&types.AddNodeOptions{Nodename: node, Podname: "p", Endpoint: "mock://x"}).Validate())
}

// ---- stores ---------------------------------------------------------------------

type env struct {
	name string
	st   store.Store
	wipe func()
}

func newEnvs(t *testing.T) []*env {
	ctx := context.Background()
	cfg := types.Config{MaxConcurrency: 32, ConnectionTimeout: 2 * time.Second, Etcd: types.EtcdConfig{Prefix: "/c24"}}
	enginefactory.InitEngineCache(ctx, cfg, nil)
	m, err := etcdv3.New(cfg, t)
	if err != nil {
		t.Fatal(err)
	}
	mr, err := miniredis.Run()
	if err != nil {
		t.Fatal(err)
	}
	t.Cleanup(mr.Close)
	cfg2 := cfg
	cfg2.Redis = types.RedisConfig{Addr: mr.Addr()}
	r, err := redis.New(cfg2, t)
	if err != nil {
		t.Fatal(err)
	}
	return []*env{
		{"etcd", m, func() {
			if _, err := m.Delete(ctx, "/", clientv3.WithPrefix()); err != nil {
				t.Fatal(err)
			}
		}},
		{"redis", r, func() { mr.FlushAll() }},
	}
}

type add struct {
	App   string `json:"app"`
	Entry string `json:"entry"`
	Ident string `json:"ident"`
	Node  string `json:"node"`
	ID    string `json:"id"`
	Acc   bool   `json:"names_accepted"`
	OK    bool   `json:"added"`
}

type query struct {
	Kind  string         `json:"kind"`
	App   string         `json:"app"`
	Entry string         `json:"entry"`
	Node  string         `json:"node,omitempty"`
	Acc   bool           `json:"names_accepted"`
	IDs   []string       `json:"ids,omitempty"`
	Err   string         `json:"error,omitempty"`
	Count map[string]int `json:"count,omitempty"`
}

type procRec struct {
	App   string `json:"app"`
	Entry string `json:"entry"`
	Node  string `json:"node"`
	Ident string `json:"ident"`
	Count int    `json:"count"`
	Acc   bool   `json:"names_accepted"`
	OK    bool   `json:"created"`
}

type scenario struct {
	Adds    []add
	Procs   []procRec
	Queries []query
}

func (e *env) run(t *testing.T, sc *scenario) {
	ctx, cancel := context.WithTimeout(context.Background(), 30*time.Second)
	defer cancel()
	e.wipe()
	if _, err := e.st.AddPod(ctx, "p", ""); err != nil {
		t.Fatal(err)
	}
	nodes := map[string]bool{"n1": true}
	for _, a := range sc.Adds {
		nodes[a.Node] = true
	}
	for _, q := range sc.Queries {
		if q.Node != "" {
			nodes[q.Node] = true
		}
	}
	for _, p := range sc.Procs {
		nodes[p.Node] = true
	}
	for n := range nodes {
		// store level: node names are not validated here (Calcium.AddNode validates them)
		if _, err := e.st.AddNode(ctx, &types.AddNodeOptions{Nodename: n, Endpoint: "mock://x", Podname: "p"}); err != nil {
			t.Fatalf("%s AddNode(%q): %v", e.name, n, err)
		}
	}
	for i := range sc.Adds {
		a := &sc.Adds[i]
		a.Acc = validateDeploy(a.App, a.Entry) == 0 && validateNode(a.Node) == 0
		w := &types.Workload{ID: a.ID, Name: utils.MakeWorkloadName(a.App, a.Entry, a.Ident), Nodename: a.Node, Podname: "p"}
		a.OK = e.st.AddWorkload(ctx, w, nil) == nil
	}
	// deployments in flight: processing markers (CreateProcessing without the matching delete)
	for i := range sc.Procs {
		p := &sc.Procs[i]
		p.Acc = validateDeploy(p.App, p.Entry) == 0 && validateNode(p.Node) == 0
		p.OK = e.st.CreateProcessing(ctx, &types.Processing{Appname: p.App, Entryname: p.Entry, Nodename: p.Node, Ident: p.Ident}, p.Count) == nil
	}
	for i := range sc.Queries {
		q := &sc.Queries[i]
		if q.Kind == "list" {
			q.Acc = (q.App == "" || validateDeploy(q.App, "e") == 0) && (q.Entry == "" || validateEntry(q.Entry) == 0) && (q.Node == "" || validateNode(q.Node) == 0)
		} else {
			q.Acc = validateDeploy(q.App, q.Entry) == 0
		}
		if q.Kind == "list" {
			ws, err := e.st.ListWorkloads(ctx, q.App, q.Entry, q.Node, 0, nil)
			if err != nil {
				q.Err = err.Error()
				continue
			}
			q.IDs = []string{}
			for _, w := range ws {
				q.IDs = append(q.IDs, w.ID)
			}
			sort.Strings(q.IDs)
		} else {
			m, err := e.st.GetDeployStatus(ctx, q.App, q.Entry)
			if err != nil {
				q.Err = err.Error()
				continue
			}
			q.Count = m
		}
	}
}

// streams observes WorkloadStatusStream (etcd store): for up to maxStreams accepted filters a stream
// is opened, a sentinel workload created under the filter's own names tells when the watch is
// established and serves as a fence, then every workload's status is set once.  No sleeps: the
// outcome does not depend on timing (events of one watch arrive in revision order).
func (e *env) streams(t *testing.T, sc *scenario, maxStreams int) {
	ctx, cancel := context.WithTimeout(context.Background(), 60*time.Second)
	defer cancel()
	for _, a := range sc.Adds {
		if !a.Acc {
			return // parseStatusKey needs four key elements; names outside validation are not streamed
		}
	}
	type stream struct {
		q        *query
		sentinel *types.StatusMeta // poked until the watch delivers it: the stream is established
		fence    *types.StatusMeta // set once after all statuses: everything before it has been delivered
		ch       chan *types.WorkloadStatus
		got      map[string]bool
	}
	counter := 0
	setStatus := func(m *types.StatusMeta) {
		counter++
		m.Extension = []byte(fmt.Sprintf("%d", counter)) // a changed value: an unchanged status is not written
		if err := e.st.SetWorkloadStatus(ctx, m, 0); err != nil {
			t.Fatalf("SetWorkloadStatus(%+v): %v", m, err)
		}
	}
	var sts []*stream
	var filters []query
	for _, q := range sc.Queries {
		if q.Kind == "list" && q.Acc && len(sts)+len(filters) < maxStreams {
			filters = append(filters, query{Kind: "stream", App: q.App, Entry: q.Entry, Node: q.Node, Acc: true})
		}
	}
	for k := range filters {
		q := &filters[k]
		sa, se, sn := q.App, q.Entry, q.Node
		if sa == "" {
			sa, se, sn = "zzsa", "zzse", "n1"
		} else if se == "" {
			se, sn = "zzse", "n1"
		} else if sn == "" {
			sn = "n1"
		}
		id := fmt.Sprintf("sentinel-%d", k)
		w := &types.Workload{ID: id, Name: utils.MakeWorkloadName(sa, se, "s0"), Nodename: sn, Podname: "p"}
		if err := e.st.AddWorkload(ctx, w, nil); err != nil {
			t.Fatalf("sentinel AddWorkload: %v", err)
		}
		fid := fmt.Sprintf("fence-%d", k)
		fw := &types.Workload{ID: fid, Name: utils.MakeWorkloadName(sa, se, "f0"), Nodename: sn, Podname: "p"}
		if err := e.st.AddWorkload(ctx, fw, nil); err != nil {
			t.Fatalf("fence AddWorkload: %v", err)
		}
		st := &stream{q: q, sentinel: &types.StatusMeta{ID: id, Appname: sa, Entrypoint: se, Nodename: sn, Running: true},
			fence: &types.StatusMeta{ID: fid, Appname: sa, Entrypoint: se, Nodename: sn, Running: true}, got: map[string]bool{}}
		st.ch = e.st.WorkloadStatusStream(ctx, q.App, q.Entry, q.Node, nil)
		sts = append(sts, st)
	}
	// wait until msg for the stream's own sentinel arrives; other ids seen meanwhile are recorded
	await := func(st *stream, record bool) {
		deadline := time.After(20 * time.Second)
		tick := time.NewTicker(40 * time.Millisecond)
		defer tick.Stop()
		target := st.sentinel
		if record {
			target = st.fence
		}
		setStatus(target)
		for {
			select {
			case m, ok := <-st.ch:
				if !ok {
					t.Fatalf("status stream closed early (filter %+v)", st.q)
				}
				if m.ID == target.ID {
					return
				}
				if record && !strings.HasPrefix(m.ID, "sentinel-") && !strings.HasPrefix(m.ID, "fence-") {
					st.got[m.ID] = true
				}
			case <-tick.C:
				if !record { // establishing: keep poking until the watch is there
					setStatus(st.sentinel)
				}
			case <-deadline:
				t.Fatalf("status stream never delivered its sentinel (filter %+v) adds %+v", st.q, sc.Adds)
			}
		}
	}
	for _, st := range sts {
		await(st, false)
	}
	for _, a := range sc.Adds {
		if a.OK {
			app, entry, _, err := utils.ParseWorkloadName(utils.MakeWorkloadName(a.App, a.Entry, a.Ident)) // as Calcium.SetWorkloadsStatus does
			if err != nil {
				t.Fatal(err)
			}
			setStatus(&types.StatusMeta{ID: a.ID, Appname: app, Entrypoint: entry, Nodename: a.Node, Running: true})
		}
	}
	for _, st := range sts {
		// drain sentinel pokes still queued from the establishing phase, then fence
		await(st, true)
		st.q.IDs = []string{}
		for id := range st.got {
			st.q.IDs = append(st.q.IDs, id)
		}
		sort.Strings(st.q.IDs)
		sc.Queries = append(sc.Queries, *st.q)
	}
	// end the watches and drain: a stream goroutine blocked on an unread channel would keep its pool worker
	cancel()
	for _, st := range sts {
		for range st.ch {
		}
	}
}

func (sc *scenario) term(backend string) string {
	adds := make([]string, len(sc.Adds))
	for i, a := range sc.Adds {
		adds[i] = fmt.Sprintf("(mkAdd %s %s %s %s %s %s %s)", cstr(a.App), cstr(a.Entry), cstr(a.Ident), cstr(a.Node), cstr(a.ID), vh.Bool(a.Acc), vh.Bool(a.OK))
	}
	qs := make([]string, len(sc.Queries))
	for i, q := range sc.Queries {
		if q.Kind == "stream" {
			qs[i] = fmt.Sprintf("(QStream %s %s %s %s %s)", cstr(q.App), cstr(q.Entry), cstr(q.Node), vh.Bool(q.Acc), cstrList(q.IDs))
			continue
		}
		if q.Kind == "list" {
			obs := "None"
			if q.Err == "" {
				obs = vh.Some(cstrList(q.IDs))
			}
			qs[i] = fmt.Sprintf("(QList %s %s %s %s %s)", cstr(q.App), cstr(q.Entry), cstr(q.Node), vh.Bool(q.Acc), obs)
		} else {
			items := []string{}
			if q.Err != "" {
				items = append(items, "(\"<error>\"%string, 0%N)")
			}
			for _, k := range vh.SortedKeys(q.Count) {
				items = append(items, fmt.Sprintf("(%s, %d%%N)", cstr(k), q.Count[k]))
			}
			qs[i] = fmt.Sprintf("(QStatus %s %s %s %s)", cstr(q.App), cstr(q.Entry), vh.Bool(q.Acc), vh.List(items))
		}
	}
	b := "Etcd"
	if backend == "redis" {
		b = "Redis"
	}
	ps := make([]string, len(sc.Procs))
	for i, p := range sc.Procs {
		ps[i] = fmt.Sprintf("(mkPc %s %s %s %s %d%%N %s %s)", cstr(p.App), cstr(p.Entry), cstr(p.Node), cstr(p.Ident), p.Count, vh.Bool(p.Acc), vh.Bool(p.OK))
	}
	return fmt.Sprintf("(mkCase %s %s %s %s)", b, vh.List(adds), vh.List(ps), vh.List(qs))
}

var safeNames = []string{"a", "b", "ab", "a.b", "web", "a-1", "A", "a_b", "x", "app", "app2", "web2"}
var safeEntries = []string{"a", "b", "c", "web", "e.1", "E", "n1", "web2", "web-canary", "ab"}
var slashNames = []string{"a/b", "b/c", ".", "..", "/a", "a/", "a//b", "a/.", "./a", "a/../b"}
var globNames = []string{"a*", "a?", "*", "?b", "**", "a[b", "[ab]", `a\b`, `\`, "a]", `a\*`}
var nodeNames = []string{"n1", "n2", "node-3", "a", "b"}

func hasAny(s, chars string) bool { return strings.ContainsAny(s, chars) }

// allQueries: every filter combination over the names present, plus absent names
func allQueries(adds []add, procs []procRec, extraApps, extraEntries []string) []query {
	seen := map[string]bool{}
	var qs []query
	push := func(q query) {
		k := q.Kind + "\x00" + q.App + "\x00" + q.Entry + "\x00" + q.Node
		if !seen[k] {
			seen[k] = true
			qs = append(qs, q)
		}
	}
	push(query{Kind: "list"})
	apps, entries, nodes := append([]string{}, extraApps...), append([]string{}, extraEntries...), []string{"n2"}
	for _, a := range adds {
		apps, entries, nodes = append(apps, a.App), append(entries, a.Entry), append(nodes, a.Node)
	}
	for _, p := range procs {
		apps, entries, nodes = append(apps, p.App), append(entries, p.Entry), append(nodes, p.Node)
		push(query{Kind: "status", App: p.App, Entry: p.Entry})
	}
	for _, a := range adds {
		push(query{Kind: "list", App: a.App})
		push(query{Kind: "list", App: a.App, Entry: a.Entry})
		push(query{Kind: "list", App: a.App, Entry: a.Entry, Node: a.Node})
		push(query{Kind: "list", App: a.App, Node: a.Node})  // node ignored without entrypoint
		push(query{Kind: "list", Entry: a.Entry, Node: a.Node}) // both ignored without app
		push(query{Kind: "status", App: a.App, Entry: a.Entry})
	}
	for _, ap := range apps {
		for _, en := range entries {
			push(query{Kind: "status", App: ap, Entry: en})
			push(query{Kind: "list", App: ap, Entry: en})
			for _, n := range nodes {
				if len(qs) < 45 {
					push(query{Kind: "list", App: ap, Entry: en, Node: n})
				}
			}
		}
	}
	return qs
}

func nq(qs []query) int {
	n := 0
	for _, q := range qs {
		if q.Kind != "stream" {
			n++
		}
	}
	return n
}

func mkAdds(triples [][3]string) []add {
	var out []add
	for i, tr := range triples {
		out = append(out, add{App: tr[0], Entry: tr[1], Node: tr[2], Ident: fmt.Sprintf("%06x", 0xabc000+i), ID: fmt.Sprintf("%08x", 0x1d000000+i*7919)})
	}
	return out
}

func storeCorpus() [][]add {
	return [][]add{
		// plain names: apps that are prefixes of each other, entry = another app's name, shared nodes
		mkAdds([][3]string{{"a", "b", "n1"}, {"ab", "b", "n1"}, {"a", "bc", "n1"}, {"a", "b", "n2"}, {"a", "b", "n1"}, {"b", "a", "n1"}}),
		mkAdds([][3]string{{"a_b", "c", "n1"}, {"a", "c", "n1"}, {"a_b", "c", "n2"}}),
		mkAdds([][3]string{{"web", "web", "web"}, {"web", "a", "web"}}),
		nil,
		// the collisions behind the repaired validation (store level: these names no longer pass Validate)
		mkAdds([][3]string{{"a/b", "c", "n1"}, {"a", "b/c", "n1"}}),
		mkAdds([][3]string{{".", "e", "n1"}, {"e", "n1", "n1"}}),
		mkAdds([][3]string{{"/a", "e", "n1"}, {"a", "e", "n1"}}),
		mkAdds([][3]string{{"..", "e", "n1"}, {"a", "..", "n1"}, {"a", "e", "n1"}}),
		mkAdds([][3]string{{"a", "b_c", "n1"}, {"a_b", "c", "n1"}}),
		mkAdds([][3]string{{"a", "e", "n/1"}, {"a", "e", "n"}}),
		// glob metacharacters: accepted names that collide on redis only
		mkAdds([][3]string{{"a*", "e", "n1"}, {"ab", "e", "n1"}, {"a", "e", "n1"}}),
		mkAdds([][3]string{{"a?", "e", "n1"}, {"ab", "e", "n1"}}),
		mkAdds([][3]string{{"a", "e?", "n1"}, {"a", "e1", "n1"}}),
	}
}

type procCase struct {
	adds  []add
	procs []procRec
}

func procCorpus() []procCase {
	mk := func(q [][4]string) []procRec {
		var out []procRec
		for i, x := range q {
			out = append(out, procRec{App: x[0], Entry: x[1], Node: x[2], Ident: fmt.Sprintf("op%04x", i), Count: 1 + (i*3)%5})
		}
		return out
	}
	return []procCase{
		// in-flight deployments of entrypoints whose names extend the queried one (web / web2 / web-canary)
		{mkAdds([][3]string{{"app", "web", "n1"}, {"app", "web", "n1"}, {"app", "web2", "n1"}, {"app", "web", "n2"}}),
			mk([][4]string{{"app", "web", "n1"}, {"app", "web2", "n1"}, {"app", "web-canary", "n1"}, {"app", "web2", "n2"}, {"app2", "web", "n1"}})},
		// only markers, no workloads; the same node under several entrypoints
		{nil, mk([][4]string{{"app", "web", "n1"}, {"app", "web", "n1"}, {"app", "web2", "n1"}, {"app2", "web", "n1"}, {"ap", "web", "n1"}})},
		{mkAdds([][3]string{{"a", "b", "n1"}, {"ab", "b", "n1"}}), mk([][4]string{{"a", "b", "n1"}, {"a", "bc", "n1"}, {"ab", "b", "n2"}, {"a", "b", "n2"}})},
		// names rejected by validation: ".." lets keys escape /deploy and /processing and meet at the root
		{mkAdds([][3]string{{"..", "e", "n1"}, {"a", "e", "n1"}}), mk([][4]string{{"..", "e", "n1"}, {"..", "e", "n2"}, {"a", "..", "n1"}})},
		{mkAdds([][3]string{{"a", "..", "n1"}, {"b", "e", "n1"}}), mk([][4]string{{"b", "..", "n1"}, {".", "e", "n1"}})},
		// glob metacharacters in names of markers and workloads
		{mkAdds([][3]string{{"a*", "e", "n1"}, {"ab", "e", "n1"}, {"a[b", "e", "n1"}, {`a\b`, "e", "n1"}}), mk([][4]string{{"a*", "e", "n1"}, {"ab", "e", "n1"}, {"a?", "e", "n2"}})},
	}
}

func randomProcs(r *vh.Run, adds []add) []procRec {
	var apps, entries []string
	for _, a := range adds {
		apps, entries = append(apps, a.App), append(entries, a.Entry)
	}
	// names that extend or shorten the ones in use
	ext := func(l []string) []string {
		out := append([]string{}, l...)
		for _, x := range l {
			out = append(out, x+"2", x+"-canary")
			if len(x) > 1 {
				out = append(out, x[:len(x)-1])
			}
		}
		return out
	}
	apps, entries = ext(apps), ext(entries)
	n := 1 + r.Rng.Intn(5)
	var out []procRec
	for i := 0; i < n; i++ {
		out = append(out, procRec{App: pick(r, apps), Entry: pick(r, entries), Node: pick(r, nodeNames[:3]), Ident: fmt.Sprintf("op%04x", i), Count: 1 + r.Rng.Intn(4)})
	}
	return out
}

func imin(a, b int) int {
	if a < b {
		return a
	}
	return b
}

func pick(r *vh.Run, l []string) string { return l[r.Rng.Intn(len(l))] }

func randomAdds(r *vh.Run, mode int) []add {
	n := 2 + r.Rng.Intn(7)
	var tr [][3]string
	// few distinct names so that prefixes and equal components are common
	apps := []string{pick(r, safeNames), pick(r, safeNames), pick(r, safeNames)}
	entries := []string{pick(r, safeEntries), pick(r, safeEntries)}
	if r.Rng.Intn(2) == 0 {
		entries = append(entries, apps[0])
	}
	switch mode {
	case 1: // path separators and dot names (rejected by validation)
		apps = append(apps, pick(r, slashNames), pick(r, slashNames))
		entries = append(entries, pick(r, slashNames))
	case 2: // glob metacharacters (accepted)
		apps = append(apps, pick(r, globNames), pick(r, globNames))
		entries = append(entries, pick(r, globNames))
	}
	for i := 0; i < n; i++ {
		tr = append(tr, [3]string{pick(r, apps), pick(r, entries), pick(r, nodeNames[:3])})
	}
	return mkAdds(tr)
}

func addsTags(adds []add, qs []query) (slash, glob, underline bool) {
	chk := func(s string, entry bool) {
		if hasAny(s, "/") || s == "." || s == ".." {
			slash = true
		}
		if hasAny(s, "*?[\\") {
			glob = true
		}
		if entry && hasAny(s, "_") {
			underline = true
		}
	}
	for _, a := range adds {
		chk(a.App, false)
		chk(a.Entry, true)
		chk(a.Node, false)
	}
	for _, q := range qs {
		chk(q.App, false)
		chk(q.Entry, true)
		chk(q.Node, false)
	}
	return
}

func TestC24(t *testing.T) {
	// ---- stores ----
	r := vh.New(t, "C24", "store")
	r.Coq("From Verif Require Import Names.Model.", "Model.case", "Model.agree", "Model.ok")
	envs := newEnvs(t)
	emit := func(e *env, adds []add, procs []procRec, kind string) {
		sc := &scenario{Adds: append([]add{}, adds...), Procs: append([]procRec{}, procs...)}
		sc.Queries = allQueries(sc.Adds, sc.Procs, []string{"a", "zz"}, []string{"b"})
		e.run(t, sc)
		if e.name == "etcd" {
			e.streams(t, sc, 4)
			r.Count(fmt.Sprintf("status_streams=%d", len(sc.Queries)-nq(sc.Queries)))
		}
		slash, glob, underline := addsTags(sc.Adds, sc.Queries)
		accepted := true
		for _, a := range sc.Adds {
			if !a.Acc {
				accepted = false
			}
		}
		for _, p := range sc.Procs {
			if !p.Acc {
				accepted = false
			}
		}
		r.Count(fmt.Sprintf("processing_markers=%d", imin(len(sc.Procs), 4)))
		r.Count("backend=" + e.name)
		r.Count(fmt.Sprintf("all_names_accepted=%v", accepted))
		r.Count(fmt.Sprintf("glob_meta=%v", glob))
		r.Count(fmt.Sprintf("workloads=%d", len(sc.Adds)))
		r.Count(fmt.Sprintf("queries=%d", (len(sc.Queries)/10)*10))
		r.Add(sc.term(e.name), map[string]any{"backend": e.name, "kind": kind, "workloads": sc.Adds, "processing": sc.Procs, "queries": sc.Queries},
			map[string]any{"backend": e.name, "glob_meta_in_names": glob, "slash_or_dot_names": slash, "underline_in_entry": underline, "all_names_accepted": accepted},
			accepted && len(sc.Adds) > 1)
	}
	for _, e := range envs {
		for _, adds := range storeCorpus() {
			emit(e, adds, nil, "corpus")
		}
		for _, pc := range procCorpus() {
			emit(e, pc.adds, pc.procs, "corpus")
		}
	}
	n := r.N(40, 600)
	for i := 0; i < n; i++ {
		mode := 0
		switch i % 10 {
		case 7, 8:
			mode = 1
		case 9:
			mode = 2
		}
		adds := randomAdds(r, mode)
		var procs []procRec
		// deployments in flight under names related to the workloads' names (also with '/'-and-dot
		// names: a ".." element lets deploy and processing keys meet in the one key space)
		if i%2 == 0 {
			procs = randomProcs(r, adds)
		}
		for _, e := range envs {
			emit(e, adds, procs, "random")
		}
	}
	r.Finish("corpus (prefix-related plain names, names with '_', the collisions behind the repaired validation, glob metacharacters) then random scenarios of 2-8 workloads over few distinct names (70% plain, 20% with '/' or dot names, 10% with '*'/'?'), each on the real etcd store (embedded cluster) and the real redis store (miniredis): AddWorkload, then ListWorkloads for every filter combination over present and absent names and GetDeployStatus for every (app, entry) pair; non-trivial = all names accepted by validation and at least 2 workloads")

	// ---- names and validation ----
	nm := vh.New(t, "C24", "names")
	nm.Coq("From Verif Require Import Names.Model.", "Model.ncase", "Model.nagree", "Model.nok")
	alphabet := []string{"a", "b", "c", "0", "_", "_", "/", "/", ".", ".", "*", "?", "-"}
	gen := func() string {
		k := nm.Rng.Intn(5)
		if nm.Rng.Intn(8) == 0 {
			k = 0
		}
		s := ""
		for i := 0; i < k; i++ {
			s += alphabet[nm.Rng.Intn(len(alphabet))]
		}
		return s
	}
	type triple struct{ app, entry, ident string }
	cases := []triple{{"a", "b", "c"}, {"a_b", "c", "d"}, {"a", "b_c", "d"}, {"/a", "b", "c"}, {"//", "b", "c"}, {"", "b", "c"}, {"a", "", "c"},
		{"a", "b", ""}, {"", "", ""}, {"a/b", "c", "d"}, {".", "b", "c"}, {"..", "b", "c"}, {"a", ".", "c"}, {"a", "..", "c"}, {"...", "b", "c"},
		{"a", "b", "c_d"}, {"_", "b", "c"}, {"a", "/", "c"}, {"a.b", "c.d", "e"}, {"a*", "b?", "c"}}
	nn := nm.N(800, 12000)
	for i := 0; i < nn; i++ {
		tr := triple{gen(), gen(), gen()}
		if nm.Rng.Intn(2) == 0 { // mostly valid: plain identifiers
			tr = triple{pick(nm, safeNames), pick(nm, safeEntries), fmt.Sprintf("%06x", nm.Rng.Intn(1<<24))}
			if nm.Rng.Intn(3) == 0 {
				tr.app += gen()
			}
		}
		cases = append(cases, tr)
	}
	for _, c := range cases {
		made := utils.MakeWorkloadName(c.app, c.entry, c.ident)
		pa, pe, pi, err := utils.ParseWorkloadName(made)
		parsed := "None"
		if err == nil {
			parsed = fmt.Sprintf("(Some (%s, %s, %s))", cstr(pa), cstr(pe), cstr(pi))
		}
		vd, ve, vn := validateDeploy(c.app, c.entry), validateEntry(c.entry), validateNode(c.app)
		nm.Count(fmt.Sprintf("deploy_validate=%d", vd))
		nm.Count(fmt.Sprintf("parse_ok=%v", err == nil))
		nm.Add(fmt.Sprintf("(mkN %s %s %s %s %s %d%%N %d%%N %d%%N)", cstr(c.app), cstr(c.entry), cstr(c.ident), cstr(made), parsed, vd, ve, vn),
			map[string]any{"app": c.app, "entry": c.entry, "ident": c.ident, "name": made, "parsed": []string{pa, pe, pi}, "parse_error": err != nil,
				"DeployOptions.Validate": vd, "Entrypoint.Validate": ve, "AddNodeOptions.Validate(app as node)": vn},
			map[string]any{"accepted": vd == 0}, vd == 0)
	}
	nm.Finish("MakeWorkloadName / ParseWorkloadName and DeployOptions/ReplaceOptions/Entrypoint/AddNodeOptions.Validate on boundary names and random names over [abc0_/.*?-] (half of them plain identifiers); non-trivial = accepted by DeployOptions.Validate")

	// ---- filepath.Join / Clean ----
	pp := vh.New(t, "C24", "paths")
	pp.Coq("From Verif Require Import Names.Model.", "Model.pcase", "Model.pagree", "Model.pok")
	palpha := []string{"a", "b", "/", "/", ".", ".", "-"}
	pgen := func() string {
		k := pp.Rng.Intn(7)
		s := ""
		for i := 0; i < k; i++ {
			s += palpha[pp.Rng.Intn(len(palpha))]
		}
		return s
	}
	pcases := [][]string{{}, {""}, {"", ""}, {"/deploy", "a", "b"}, {"/deploy", "", "", ""}, {"/deploy", ".", "e"}, {"/deploy", "..", "e"}, {"/deploy", "a/b", "c"},
		{"/events/", "0000000000000001"}, {"a", "../../b"}, {"..", ".."}, {"/..", "a"}, {".", "."}, {"a/", "/b"}, {"//"}, {"/"}, {"./a/./b/.."}, {"a/..", ".."}}
	pn := pp.N(450, 8000)
	for i := 0; i < pn; i++ {
		k := 1 + pp.Rng.Intn(4)
		var el []string
		if pp.Rng.Intn(2) == 0 {
			el = append(el, "/deploy")
		}
		for j := 0; j < k; j++ {
			el = append(el, pgen())
		}
		pcases = append(pcases, el)
	}
	for _, el := range pcases {
		j := filepath.Join(el...)
		c := ""
		if len(el) > 0 {
			c = filepath.Clean(el[0])
		}
		pp.Count(fmt.Sprintf("elems=%d", len(el)))
		pp.Add(fmt.Sprintf("(mkP %s %s %s)", cstrList(el), cstr(j), cstr(c)), map[string]any{"elems": el, "join": j, "clean_first": c}, nil, strings.Contains(strings.Join(el, "/"), ".."))
	}
	pp.Finish("filepath.Join on 1-5 elements and filepath.Clean on strings over [ab/.-] (separators and dots over-weighted), boundary paths first; non-trivial = contains '..'")
}
