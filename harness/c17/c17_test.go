package c17

import (
	"context"
	"errors"
	"fmt"
	"testing"
	"time"

	"verifharness/vh"

	"github.com/projecteru2/core/utils"
)

type probeKey struct{}

type ev struct {
	Who     string `json:"who"`
	Flag    bool   `json:"flag"`
	Derived bool   `json:"derived"`
	CEntry  bool   `json:"cancelled_on_entry"`
	CExit   bool   `json:"cancelled_on_exit"`
}

var outcomes = []string{"Absent", "Succeed", "Failr"}
var cpoints = []string{"Never", "Before", "InCond", "InThen", "InRollback"}

func coqEv(e ev) string {
	kind := "Detached"
	if e.Derived {
		kind = "Derived"
	}
	return fmt.Sprintf("(mkEv %s %s %s %s %s)", e.Who, vh.Bool(e.Flag), kind, vh.Bool(e.CEntry), vh.Bool(e.CExit))
}

func TestC17(t *testing.T) {
	r := vh.New(t, "C17", "txn")
	r.Coq("From Verif Require Import Utils.Txn.", "Txn.case", "Txn.agree", "Txn.ok")
	errCond, errThen, errRb := errors.New("cond"), errors.New("then"), errors.New("rb")

	run := func(isPCR bool, cnd, thn, rb, cp string) {
		parent, cancel := context.WithCancel(context.WithValue(context.Background(), probeKey{}, 1))
		defer cancel()
		var evs []ev
		step := func(who string, outcome string, e error, cancelAt string) func(context.Context, bool) error {
			return func(ctx context.Context, flag bool) error {
				x := ev{Who: who, Flag: flag, Derived: ctx.Value(probeKey{}) != nil, CEntry: ctx.Err() != nil}
				if cp == cancelAt {
					cancel()
				}
				x.CExit = ctx.Err() != nil
				evs = append(evs, x)
				if outcome == "Failr" {
					return e
				}
				return nil
			}
		}
		if cp == "Before" {
			cancel()
		}
		fc := step("SCond", cnd, errCond, "InCond")
		ft := step("SThen", thn, errThen, "InThen")
		fr := step("SRollback", rb, errRb, "InRollback")
		var err error
		if isPCR {
			err = utils.PCR(parent,
				func(ctx context.Context) error { return fc(ctx, false) },
				func(ctx context.Context) error { return ft(ctx, false) },
				func(ctx context.Context) error { return fr(ctx, false) }, 10*time.Second)
		} else {
			var then func(context.Context) error
			var rollback func(context.Context, bool) error
			if thn != "Absent" {
				then = func(ctx context.Context) error { return ft(ctx, false) }
			}
			if rb != "Absent" {
				rollback = fr
			}
			err = utils.Txn(parent, func(ctx context.Context) error { return fc(ctx, false) }, then, rollback, 10*time.Second)
		}
		res := "ROther"
		switch {
		case err == nil:
			res = "RNil"
		case errors.Is(err, errCond):
			res = "RCondErr"
		case errors.Is(err, errThen):
			res = "RThenErr"
		}
		coqEvs := make([]string, len(evs))
		for i, e := range evs {
			coqEvs[i] = coqEv(e)
		}
		if res == "ROther" {
			// not representable in the model: force a mismatch and a violation
			res = "RNil"
			coqEvs = nil
		}
		term := fmt.Sprintf("(mkCase %s %s %s %s %s %s %s)", vh.Bool(isPCR), cnd, thn, rb, cp, vh.List(coqEvs), res)
		desc := map[string]any{"pcr": isPCR, "cond": cnd, "then": thn, "rollback": rb, "cancel": cp, "events": evs, "result": res}
		r.Count("result=" + res)
		r.Count(fmt.Sprintf("events=%d", len(evs)))
		r.Add(term, desc, map[string]any{"pcr": isPCR}, cnd == "Failr" || thn == "Failr")
	}
	for _, cnd := range outcomes[1:] {
		for _, thn := range outcomes {
			for _, rb := range outcomes {
				for _, cp := range cpoints {
					run(false, cnd, thn, rb, cp)
				}
			}
		}
	}
	for _, p := range outcomes[1:] {
		for _, c := range outcomes[1:] {
			for _, rb := range outcomes[1:] {
				for _, cp := range cpoints {
					run(true, p, c, rb, cp)
				}
			}
		}
	}
	r.Finish("exhaustive: every outcome vector (cond ok/fail x then absent/ok/fail x rollback absent/ok/fail, and PCR prepare/commit/rollback ok/fail) x 5 caller-cancellation points; non-trivial = some step fails")
}
