package c17

import (
	"context"
	"errors"
	"fmt"
	"net"
	"sync"
	"testing"
	"time"

	"verifharness/vh"

	"github.com/projecteru2/core/types"
	"github.com/projecteru2/core/utils"

	"google.golang.org/grpc/peer"
)

type probeKey struct{}

type ev struct {
	Who     string `json:"who"`
	Flag    bool   `json:"flag"`
	Derived bool   `json:"derived"`
	CEntry  bool   `json:"cancelled_on_entry"`
	CExit   bool   `json:"cancelled_on_exit"`
}

var outcomes = []string{"Absent", "Succeed", "Failr"}
var cpoints = []string{"Never", "Before", "InCond", "InThen", "InRollback"}

func coqEv(e ev) string {
	kind := "Detached"
	if e.Derived {
		kind = "Derived"
	}
	return fmt.Sprintf("(mkEv %s %s %s %s %s)", e.Who, vh.Bool(e.Flag), kind, vh.Bool(e.CEntry), vh.Bool(e.CExit))
}

var causes = []string{"ByCancel", "ByDeadline", "ByTtl"}

type result struct {
	term  string
	desc  map[string]any
	res   string
	nev   int
	nontr bool
	pcr   bool
}

// one executes a single case against the real utils.Txn / utils.PCR.
//
//	ByCancel:   the caller cancels its context at the chosen point;
//	ByDeadline: the caller's context carries a deadline that passes at the chosen point
//	            (the step there sleeps until it has passed);
//	ByTtl:      the step at the chosen point outlives the transaction's own ttl.
func one(isPCR bool, cnd, thn, rb, cp, cause string, withPeer bool) result {
	errCond, errThen, errRb := errors.New("cond"), errors.New("then"), errors.New("rb")
	base := context.WithValue(context.Background(), probeKey{}, 1)
	if withPeer {
		// as in a gRPC handler: the caller's context carries peer info and a tracing id,
		// which utils.NewInheritCtx copies into the detached context
		base = peer.NewContext(base, &peer.Peer{Addr: &net.TCPAddr{IP: net.IPv4(127, 0, 0, 1), Port: 4242}})
		base = context.WithValue(base, types.TracingID, "verif-c17")
	}
	ttl := 30 * time.Second
	var parent context.Context
	var cancel context.CancelFunc
	var deadline time.Time
	switch cause {
	case "ByDeadline":
		deadline = time.Now().Add(2 * time.Second)
		if cp == "Before" {
			deadline = time.Now().Add(-time.Millisecond)
		}
		if cp == "Never" {
			deadline = time.Now().Add(10 * time.Minute)
		}
		parent, cancel = context.WithDeadline(base, deadline)
	case "ByTtl":
		ttl = 1500 * time.Millisecond
		parent, cancel = context.WithCancel(base)
	default:
		parent, cancel = context.WithCancel(base)
	}
	defer cancel()
	var evs []ev
	step := func(who string, outcome string, e error, cancelAt string) func(context.Context, bool) error {
		return func(ctx context.Context, flag bool) error {
			x := ev{Who: who, Flag: flag, Derived: ctx.Value(probeKey{}) != nil, CEntry: ctx.Err() != nil}
			if cp == cancelAt {
				switch cause {
				case "ByCancel":
					cancel()
				case "ByDeadline":
					time.Sleep(time.Until(deadline) + 30*time.Millisecond)
				case "ByTtl":
					time.Sleep(ttl + 100*time.Millisecond)
				}
			}
			x.CExit = ctx.Err() != nil
			evs = append(evs, x)
			if outcome == "Failr" {
				return e
			}
			return nil
		}
	}
	if cp == "Before" && cause == "ByCancel" {
		cancel()
	}
	fc := step("SCond", cnd, errCond, "InCond")
	ft := step("SThen", thn, errThen, "InThen")
	fr := step("SRollback", rb, errRb, "InRollback")
	var err error
	if isPCR {
		err = utils.PCR(parent,
			func(ctx context.Context) error { return fc(ctx, false) },
			func(ctx context.Context) error { return ft(ctx, false) },
			func(ctx context.Context) error { return fr(ctx, false) }, ttl)
	} else {
		var then func(context.Context) error
		var rollback func(context.Context, bool) error
		if thn != "Absent" {
			then = func(ctx context.Context) error { return ft(ctx, false) }
		}
		if rb != "Absent" {
			rollback = fr
		}
		err = utils.Txn(parent, func(ctx context.Context) error { return fc(ctx, false) }, then, rollback, ttl)
	}
	res := "ROther"
	switch {
	case err == nil:
		res = "RNil"
	case errors.Is(err, errCond):
		res = "RCondErr"
	case errors.Is(err, errThen):
		res = "RThenErr"
	}
	coqEvs := make([]string, len(evs))
	for i, e := range evs {
		coqEvs[i] = coqEv(e)
	}
	shown := res
	if res == "ROther" {
		// not representable in the model: force a mismatch and a violation
		res = "RNil"
		coqEvs = nil
	}
	term := fmt.Sprintf("(mkCase %s %s %s %s %s %s %s %s)", vh.Bool(isPCR), cnd, thn, rb, cp, cause, vh.List(coqEvs), res)
	desc := map[string]any{"caller_ctx_has_peer": withPeer, "pcr": isPCR, "cond": cnd, "then": thn, "rollback": rb, "cancel_point": cp, "cause": cause, "events": evs, "result": shown}
	return result{term: term, desc: desc, res: shown, nev: len(evs), nontr: cnd == "Failr" || thn == "Failr", pcr: isPCR}
}

func TestC17(t *testing.T) {
	r := vh.New(t, "C17", "txn")
	r.Coq("From Verif Require Import Utils.Txn.", "Txn.case", "Txn.agree", "Txn.ok")
	type job struct {
		pcr                     bool
		cnd, thn, rb, cp, cause string
		peer                    bool
	}
	var jobs []job
	for _, withPeer := range []bool{false, true} {
		for _, cause := range causes {
			for _, cp := range cpoints {
				if cause == "ByTtl" && (cp == "Before" || cp == "Never") {
					continue // the ttl cannot be used up before the call; Never is covered by ByCancel
				}
				for _, cnd := range outcomes[1:] {
					for _, thn := range outcomes {
						for _, rb := range outcomes {
							jobs = append(jobs, job{false, cnd, thn, rb, cp, cause, withPeer})
						}
					}
				}
				for _, p := range outcomes[1:] {
					for _, c := range outcomes[1:] {
						for _, rb := range outcomes[1:] {
							jobs = append(jobs, job{true, p, c, rb, cp, cause, withPeer})
						}
					}
				}
			}
		}
	}
	results := make([]result, len(jobs))
	var wg sync.WaitGroup
	for i, j := range jobs {
		wg.Add(1)
		go func(i int, j job) {
			defer wg.Done()
			results[i] = one(j.pcr, j.cnd, j.thn, j.rb, j.cp, j.cause, j.peer)
		}(i, j)
	}
	wg.Wait()
	for i, x := range results {
		r.Count("result=" + x.res)
		r.Count(fmt.Sprintf("events=%d", x.nev))
		r.Count("cause=" + jobs[i].cause)
		r.Count(fmt.Sprintf("caller_ctx_has_peer=%v", jobs[i].peer))
		// the Coq term does not mention the peer: the model is independent of it, but the two
		// variants are distinct implementation runs, so keep them distinct for the statistics
		r.Add(x.term+fmt.Sprintf(" (* peer=%v *)", jobs[i].peer), x.desc, map[string]any{"pcr": x.pcr, "cause": jobs[i].cause, "peer": jobs[i].peer}, x.nontr)
	}
	r.Finish("exhaustive: every outcome vector (cond ok/fail x then absent/ok/fail x rollback absent/ok/fail, and PCR prepare/commit/rollback ok/fail) x 5 points at which the caller's context ends x 3 ways it ends (explicit cancel, caller deadline passing, transaction ttl used up by the step) x caller context with/without gRPC peer + tracing id (what NewInheritCtx copies); non-trivial = some step fails")
}
