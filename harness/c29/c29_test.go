// Package c29: correspondence harness for C29 (file transfers).
//
// Stream "chunks": rpc.toSendLargeFileChunks through the verif export hook, on
// run-length described contents (so that files of many chunks stay small in the
// case files); observable = the chunks (run-length encoded) and their metadata.
//
// Stream "pipeline": the real calcium.Calcium (package cw: embedded etcd store,
// real locks) with workloads created through CreateWorkload on a node whose
// engine is a scripted fake (drain / drain then error / abort after k bytes /
// return without reading).  Each case feeds the chunks of one file to
// Calcium.SendLargeFile exactly like Vibranium.Send does and reads the result
// channel under a deadline (a time-out is an observable).  Observables: finished
// or timed out, the messages (target ordinal, error class), and per target what
// the engine received (a prefix of the content? how long?) with which metadata.
package c29

import (
	"bytes"
	"context"
	"errors"
	"fmt"
	"io"
	"sort"
	"sync"
	"testing"
	"time"

	"verifharness/cw"
	"verifharness/vh"

	"github.com/projecteru2/core/engine"
	enginefactory "github.com/projecteru2/core/engine/factory"
	"github.com/projecteru2/core/engine/mocks/fakeengine"
	resourcetypes "github.com/projecteru2/core/resource/types"
	"github.com/projecteru2/core/rpc"
	"github.com/projecteru2/core/types"
)

const chunkSize = types.SendLargeFileChunkSize

// ---------------------------------------------------------------- chunks

type run struct {
	B byte `json:"b"`
	N int  `json:"n"`
}

func expand(rs []run) []byte {
	var out []byte
	for _, r := range rs {
		out = append(out, bytes.Repeat([]byte{r.B}, r.N)...)
	}
	return out
}

func rle(b []byte) []run {
	var out []run
	for _, x := range b {
		if len(out) > 0 && out[len(out)-1].B == x {
			out[len(out)-1].N++
		} else {
			out = append(out, run{x, 1})
		}
	}
	return out
}

func coqRuns(rs []run) string {
	s := make([]string, len(rs))
	for i, r := range rs {
		s[i] = fmt.Sprintf("(%d, %d)", r.B, r.N)
	}
	return vh.List(s)
}

func coqIDs(ids []int) string {
	s := make([]string, len(ids))
	for i, x := range ids {
		s[i] = vh.Nat(x)
	}
	return vh.List(s)
}

func TestC29(t *testing.T) {
	t.Run("chunks", testChunks)
	t.Run("pipeline", testPipeline)
}

// direct: Calcium.Send (cluster/calcium/send.go), the non-chunked path
func runDirect(r *vh.Run, w *cw.World, wids []string, kind string, sizes []int, targets []int, beh []behaviour, zeroPerm bool) bool {
	const missing = "0000000000000000000000000000000000000000000000000000000000000000"
	files := make([]types.LinuxFile, len(sizes))
	fmap := map[string]types.LinuxFile{}
	for i, n := range sizes {
		content := make([]byte, n)
		for k := range content {
			content[k] = byte((k*11 + i) % 253)
		}
		f := types.LinuxFile{Content: content, Filename: fmt.Sprintf("/data/f%d", i), UID: 1001, GID: 1002 + i, Mode: 0o600}
		if zeroPerm {
			f.UID, f.GID, f.Mode = 0, 0, 0
		}
		files[i] = f
		want := f
		if zeroPerm {
			want.Mode = 0o755 // SendOptions.Validate: default permission
		}
		fmap[f.Filename] = want
	}
	theHub.mu.Lock()
	theHub.beh = map[string]behaviour{}
	for i, b := range beh {
		theHub.beh[wids[i]] = b
	}
	theHub.files, theHub.drecv = fmap, map[string]*received{}
	theHub.mu.Unlock()
	defer func() { theHub.mu.Lock(); theHub.files = nil; theHub.mu.Unlock() }()
	ids := make([]string, len(targets))
	for i, o := range targets {
		if o < 0 {
			ids[i] = missing
		} else {
			ids[i] = wids[o]
		}
	}
	ord := map[string]int{}
	for i, id := range wids {
		ord[id] = i
	}
	fidx := map[string]int{}
	for i, f := range files {
		fidx[f.Filename] = i
	}
	ctx, cancel := context.WithCancel(w.Ctx)
	defer cancel()
	derr := "DOk"
	type dm struct {
		T, F int
		E    string
	}
	var msgs []dm
	finished := true
	ch, err := w.C.Send(ctx, &types.SendOptions{IDs: ids, Files: files})
	switch {
	case errors.Is(err, types.ErrNoWorkloadIDs):
		derr = "DNoIDs"
	case errors.Is(err, types.ErrNoFilesToSend):
		derr = "DNoFiles"
	case err != nil:
		derr = "DOther"
	default:
		deadline := time.After(5 * time.Second)
	loop:
		for {
			select {
			case m, ok := <-ch:
				if !ok {
					break loop
				}
				x := dm{T: -1, F: -1, E: "ENone"}
				if o, ok := ord[m.ID]; ok {
					x.T = o
				}
				if i, ok := fidx[m.Path]; ok {
					x.F = i
				}
				switch {
				case m.Error == nil:
				case errors.Is(m.Error, errEngine):
					x.E = "EEngine"
				default:
					x.E = "EOther"
				}
				msgs = append(msgs, x)
			case <-deadline:
				finished = false
				go func() {
					for range ch {
					}
				}()
				break loop
			}
		}
	}
	sort.Slice(msgs, func(i, j int) bool {
		if msgs[i].T != msgs[j].T {
			return msgs[i].T < msgs[j].T
		}
		if msgs[i].F != msgs[j].F {
			return msgs[i].F < msgs[j].F
		}
		return msgs[i].E < msgs[j].E
	})
	opt := func(v int) string {
		if v < 0 {
			return "None"
		}
		return fmt.Sprintf("(Some %d)", v)
	}
	ms := make([]string, len(msgs))
	for i, m := range msgs {
		ms[i] = fmt.Sprintf("(mkDMsg %s %s %s)", opt(m.T), opt(m.F), m.E)
	}
	theHub.mu.Lock()
	rows := make([]string, len(wids))
	for i, id := range wids {
		cells := make([]string, len(files))
		for k, f := range files {
			rec := theHub.drecv[id+"|"+f.Filename]
			if rec == nil {
				cells[k] = "(mkDRecv 0 0 true true)"
			} else {
				cells[k] = fmt.Sprintf("(mkDRecv %d %d %s %s)", rec.calls, rec.n, vh.Bool(rec.prefix), vh.Bool(rec.metaOK))
			}
		}
		rows[i] = vh.List(cells)
	}
	theHub.mu.Unlock()
	if !finished || derr == "DOther" {
		derr = "DOk"
		ms = []string{"(mkDMsg None None ENone)", "(mkDMsg None None ENone)", "(mkDMsg None None ENone)", "(mkDMsg None None ENone)", "(mkDMsg None None ENone)", "(mkDMsg None None ENone)", "(mkDMsg None None ENone)", "(mkDMsg None None ENone)", "(mkDMsg None None ENone)", "(mkDMsg None None ENone)", "(mkDMsg None None ENone)", "(mkDMsg None None ENone)", "(mkDMsg None None ENone)"} // not representable: forces a mismatch and a violation
	}
	szs := make([]string, len(sizes))
	for i, n := range sizes {
		szs[i] = vh.Nat(n)
	}
	tg := make([]string, len(targets))
	for i, o := range targets {
		tg[i] = opt(o)
	}
	bs := make([]string, len(beh))
	for i, b := range beh {
		if b.Kind == "Abort" {
			bs[i] = fmt.Sprintf("(GiveUp %d)", b.K)
		} else {
			bs[i] = b.Kind
		}
	}
	term := fmt.Sprintf("(mkDCase %s %s %s %s %s %s)", vh.List(szs), vh.List(tg), vh.List(bs), derr, vh.List(ms), vh.List(rows))
	desc := map[string]any{"kind": kind, "sizes": sizes, "targets": targets, "behaviours": beh, "zero_perm": zeroPerm,
		"result": derr, "messages": msgs, "finished": finished}
	r.Count("kind=" + kind)
	r.Count("result=" + derr)
	r.Count(fmt.Sprintf("files=%d", len(sizes)))
	hasDup := false
	seen := map[int]bool{}
	for _, o := range targets {
		if seen[o] {
			hasDup = true
		}
		seen[o] = true
	}
	r.Add(term, desc, map[string]any{"stream": "direct", "kind": kind, "files": len(sizes), "targets": len(targets), "has_duplicate": hasDup}, len(sizes) > 0 && len(targets) > 0)
	return finished
}

func testChunks(t *testing.T) {
	r := vh.New(t, "C29", "chunks")
	r.Coq("From Verif Require Import Xfer.Chunks.", "Chunks.case", "Chunks.agree", "Chunks.ok")
	r.Shard = 30 // long contents: evaluate the shards in parallel
	rng := r.Rng

	emit := func(kind string, rs []run, nids int, uid, gid int, mode int64) {
		content := expand(rs)
		ids := make([]string, nids)
		idn := make([]int, nids)
		for i := range ids {
			ids[i] = fmt.Sprintf("id%d", i)
			idn[i] = i
		}
		file := types.LinuxFile{Content: content, Filename: "/dst/file", UID: uid, GID: gid, Mode: mode}
		out := rpc.VerifToSendLargeFileChunks(file, ids)
		obs := make([]string, len(out))
		metaOK := true
		for i, c := range out {
			ok := c.Dst == file.Filename && c.UID == uid && c.GID == gid && c.Mode == mode && len(c.IDs) == nids
			for k := range c.IDs {
				ok = ok && c.IDs[k] == ids[k]
			}
			metaOK = metaOK && ok
			obs[i] = fmt.Sprintf("(mkChunk %s %s %s)", coqRuns(rle(c.Chunk)), vh.Z(c.Size), vh.Bool(ok))
		}
		term := fmt.Sprintf("(mkCase %s %s)", coqRuns(rs), vh.List(obs))
		n := len(content)
		cls := "multi"
		switch {
		case n == 0:
			cls = "empty"
		case n < chunkSize:
			cls = "below"
		case n%chunkSize == 0:
			cls = "multiple"
		}
		r.Count("size=" + cls)
		r.Count(fmt.Sprintf("chunks=%d", len(out)))
		desc := map[string]any{"kind": kind, "size": n, "runs": len(rs), "chunks": len(out), "metadata_ok": metaOK}
		r.Add(term, desc, map[string]any{"kind": kind, "size_class": cls, "empty": n == 0}, n > chunkSize)
	}

	sizes := []int{0, 1, 2, chunkSize - 1, chunkSize, chunkSize + 1, 2*chunkSize - 1, 2 * chunkSize, 2*chunkSize + 1, 3 * chunkSize, 11 * chunkSize, 12*chunkSize + 5, 40 * chunkSize}
	for _, n := range sizes {
		// two-valued content whose runs straddle the chunk boundaries
		var rs []run
		left, b := n, byte(1)
		for left > 0 {
			k := 700
			if k > left {
				k = left
			}
			rs = append(rs, run{b, k})
			left -= k
			b = 3 - b
		}
		emit("corpus", rs, 2, 1000, 1000, 0o644)
	}
	n := r.N(90, 2000)
	for i := 0; i < n; i++ {
		var rs []run
		var total int
		switch x := rng.Intn(100); {
		case x < 5:
			total = 0
		case x < 25:
			total = 1 + rng.Intn(chunkSize)
		case x < 45:
			total = (1 + rng.Intn(5)) * chunkSize
		case x < 65:
			total = (1+rng.Intn(5))*chunkSize + []int{-1, 1}[rng.Intn(2)]
		default:
			total = 1 + rng.Intn(10*chunkSize)
		}
		left := total
		var last byte = 255
		for left > 0 {
			k := 1 + rng.Intn(1500)
			if rng.Intn(4) == 0 {
				k = 1 + rng.Intn(4)
			}
			if k > left {
				k = left
			}
			b := byte(rng.Intn(8))
			if b == last {
				b++
			}
			last = b
			rs = append(rs, run{b, k})
			left -= k
		}
		emit("random", rs, 1+rng.Intn(3), rng.Intn(2000), rng.Intn(2000), int64(rng.Intn(0o1000)))
	}
	r.Finish("corpus: sizes 0, 1, 2, s-1, s, s+1, 2s-1, 2s, 2s+1, 3s, 11s, 12s+5, 40s (s = 2048) with runs straddling chunk boundaries; random: 5% empty, 20% below one chunk, 20% exact multiples, 20% multiple +-1, 35% up to 10 chunks, contents as random byte runs; non-trivial = more than one chunk")
}

// ---------------------------------------------------------------- pipeline

type behaviour struct {
	Kind string `json:"kind"` // Drain | DrainErr | Abort | Ignore
	K    int    `json:"k"`    // Abort: bytes read before the engine gives up
}

type received struct {
	n      int
	prefix bool // what was read is a prefix of the content
	metaOK bool
	calls  int
}

type xferHub struct {
	mu      sync.Mutex
	beh     map[string]behaviour
	content []byte
	want    types.LinuxFile
	recv    map[string]*received
	// direct stream (Calcium.Send): several files, keyed by destination name
	files map[string]types.LinuxFile
	drecv map[string]*received // key: id + "|" + filename
}

var errEngine = errors.New("verif engine: copy failed")

type xferEngine struct {
	engine.API
	hub *xferHub
}

func (e *xferEngine) VirtualizationCopyChunkTo(_ context.Context, id, target string, size int64, content io.Reader, uid, gid int, mode int64) error {
	h := e.hub
	h.mu.Lock()
	b := h.beh[id]
	want := h.want
	full := h.content
	rec := h.recv[id]
	if h.files != nil { // direct stream
		want = h.files[target]
		full = want.Content
		rec = h.drecv[id+"|"+target]
		if rec == nil {
			rec = &received{}
			h.drecv[id+"|"+target] = rec
		}
	} else if rec == nil {
		rec = &received{}
		h.recv[id] = rec
	}
	rec.calls++
	rec.metaOK = target == want.Filename && size == int64(len(full)) && uid == want.UID && gid == want.GID && mode == want.Mode
	h.mu.Unlock()
	var got []byte
	var err error
	switch b.Kind {
	case "Drain", "DrainErr":
		got, _ = io.ReadAll(content)
		if b.Kind == "DrainErr" {
			err = errEngine
		}
	case "Abort":
		buf := make([]byte, b.K)
		n, _ := io.ReadFull(content, buf)
		got = buf[:n]
		err = errEngine
	case "Ignore": // returns success without reading (what /repo's own engine mock does)
	}
	h.mu.Lock()
	rec.n = len(got)
	rec.prefix = len(got) <= len(full) && bytes.Equal(got, full[:len(got)])
	h.mu.Unlock()
	return err
}

var theHub = &xferHub{}

func registerXfer() {
	enginefactory.VerifRegisterEngine("verifxfer://", func(ctx context.Context, config types.Config, nodename, endpoint, ca, cert, key string) (engine.API, error) {
		inner, err := fakeengine.MakeClient(ctx, config, nodename, endpoint, ca, cert, key)
		if err != nil {
			return nil, err
		}
		return &xferEngine{API: inner, hub: theHub}, nil
	})
}

type pcase struct {
	Chunks  int         `json:"chunks"` // file size = Chunks*2048 + Extra
	Extra   int         `json:"extra"`
	Targets []int       `json:"targets"` // ordinals of workloads; -1 = an id that does not exist
	Beh     []behaviour `json:"behaviours"` // per workload ordinal (0..2)
}

type msgObs struct {
	Target int    `json:"target"`
	Err    string `json:"err"` // ENone | EEngine | EOther
	PathOK bool   `json:"path_ok"`
}

func testPipeline(t *testing.T) {
	r := vh.New(t, "C29", "pipeline")
	r.Coq("From Verif Require Import Xfer.Pipeline.", "Pipeline.case", "Pipeline.agree", "Pipeline.ok")
	r.Shard = 13 // evaluate the shards in parallel
	rng := r.Rng
	registerXfer()
	w := cw.New(t, cw.Options{})
	if err := w.AddPod("p1"); err != nil {
		t.Fatal(err)
	}
	node, err := w.C.AddNode(w.Ctx, &types.AddNodeOptions{Nodename: "n1", Endpoint: "verifxfer://c29/n1", Podname: "p1",
		Resources: resourcetypes.Resources{"cpumem": resourcetypes.RawParams{"cpu": 64, "memory": int64(8 << 30)}}})
	if err != nil {
		t.Fatal(err)
	}
	if err := w.RawStore.SetNodeStatus(w.Ctx, node, 3600); err != nil {
		t.Fatal(err)
	}
	var wids []string
	ord := map[string]int{}
	// three fresh workloads (used again after a transfer that did not finish: its
	// blocked goroutines may hold the workload locks for ever)
	fresh := func() {
		ch, err := w.C.CreateWorkload(w.Ctx, &types.DeployOptions{
			Name: "app", Entrypoint: &types.Entrypoint{Name: "web"}, Podname: "p1", Image: "img",
			Count: 3, DeployStrategy: "AUTO", NodeFilter: &types.NodeFilter{Podname: "p1"},
			Resources: cw.CPUMem(0.01, 1<<20),
		})
		if err != nil {
			t.Fatal(err)
		}
		wids = nil
		for m := range ch {
			if m.Error != nil {
				t.Fatalf("create: %v", m.Error)
			}
			wids = append(wids, m.WorkloadID)
		}
		sort.Strings(wids)
		if len(wids) != 3 {
			t.Fatalf("created %d workloads", len(wids))
		}
		ord = map[string]int{}
		for i, id := range wids {
			ord[id] = i
		}
	}
	fresh()
	const missing = "0000000000000000000000000000000000000000000000000000000000000000"

	runCase := func(kind string, pc pcase) {
		size := pc.Chunks*chunkSize + pc.Extra
		content := make([]byte, size)
		for i := range content {
			content[i] = byte((i*7 + i/chunkSize) % 251)
		}
		file := types.LinuxFile{Content: content, Filename: "/data/file.bin", UID: 1001, GID: 1002, Mode: 0o640}
		theHub.mu.Lock()
		theHub.beh = map[string]behaviour{}
		for i, b := range pc.Beh {
			theHub.beh[wids[i]] = b
		}
		theHub.content, theHub.want, theHub.recv = content, file, map[string]*received{}
		theHub.mu.Unlock()
		ids := make([]string, len(pc.Targets))
		for i, o := range pc.Targets {
			if o < 0 {
				ids[i] = missing
			} else {
				ids[i] = wids[o]
			}
		}
		ctx, cancel := context.WithCancel(w.Ctx)
		// exactly what Vibranium.Send does for one file
		dc := make(chan *types.SendLargeFileOptions)
		resp := w.C.SendLargeFile(ctx, dc)
		stop := make(chan struct{})
		go func() {
			defer close(dc)
			for _, chunk := range rpc.VerifToSendLargeFileChunks(file, ids) {
				select {
				case dc <- chunk:
				case <-stop:
					return
				}
			}
		}()
		var msgs []msgObs
		finished := false
		deadline := time.After(5 * time.Second)
	loop:
		for {
			select {
			case m, ok := <-resp:
				if !ok {
					finished = true
					break loop
				}
				o := msgObs{Target: -1, Err: "ENone", PathOK: m.Path == file.Filename}
				if x, ok := ord[m.ID]; ok {
					o.Target = x
				}
				switch {
				case m.Error == nil:
				case errors.Is(m.Error, errEngine):
					o.Err = "EEngine"
				default:
					o.Err = "EOther"
				}
				msgs = append(msgs, o)
			case <-deadline:
				break loop
			}
		}
		if !finished {
			close(stop)
			go func() { // keep draining so that no goroutine stays blocked on resp holding a workload lock
				for range resp {
				}
			}()
			time.Sleep(50 * time.Millisecond)
		}
		cancel()
		sort.Slice(msgs, func(i, j int) bool {
			if msgs[i].Target != msgs[j].Target {
				return msgs[i].Target < msgs[j].Target
			}
			return msgs[i].Err < msgs[j].Err
		})
		// emit
		theHub.mu.Lock()
		recvs := make([]string, 3)
		recvDesc := make([]map[string]any, 3)
		for i, id := range wids {
			rec := theHub.recv[id]
			if rec == nil {
				recvs[i] = "RNone"
				recvDesc[i] = map[string]any{"calls": 0}
				continue
			}
			if rec.prefix {
				recvs[i] = fmt.Sprintf("(RPrefix %d %s %d)", rec.n, vh.Bool(rec.metaOK), rec.calls)
			} else {
				recvs[i] = fmt.Sprintf("(RGarbled %d %d)", rec.n, rec.calls)
			}
			recvDesc[i] = map[string]any{"calls": rec.calls, "bytes": rec.n, "is_prefix": rec.prefix, "metadata_ok": rec.metaOK}
		}
		theHub.mu.Unlock()
		ms := make([]string, len(msgs))
		for i, m := range msgs {
			tg := "None"
			if m.Target >= 0 {
				tg = fmt.Sprintf("(Some %d)", m.Target)
			}
			ms[i] = fmt.Sprintf("(mkMsg %s %s %s)", tg, m.Err, vh.Bool(m.PathOK))
		}
		bs := make([]string, len(pc.Beh))
		for i, b := range pc.Beh {
			switch b.Kind {
			case "Abort":
				bs[i] = fmt.Sprintf("(GiveUp %d)", b.K)
			default:
				bs[i] = b.Kind
			}
		}
		tg := make([]string, len(pc.Targets))
		for i, o := range pc.Targets {
			if o < 0 {
				tg[i] = "None"
			} else {
				tg[i] = fmt.Sprintf("(Some %d)", o)
			}
		}
		term := fmt.Sprintf("(mkCase %d %d %s %s %s %s %s)", pc.Chunks, pc.Extra, vh.List(tg), vh.List(bs),
			vh.Bool(finished), vh.List(ms), vh.List(recvs))
		hasMissing, hasDup, allDrain := false, false, true
		seen := map[int]bool{}
		for _, o := range pc.Targets {
			if o < 0 {
				hasMissing = true
			} else if pc.Beh[o].Kind != "Drain" {
				allDrain = false
			}
			if seen[o] {
				hasDup = true
			}
			seen[o] = true
		}
		tags := map[string]any{"kind": kind, "empty": size == 0, "has_missing": hasMissing, "has_duplicate": hasDup,
			"all_drain": allDrain, "chunks_total": (size + chunkSize - 1) / chunkSize}
		desc := map[string]any{"kind": kind, "case": pc, "size": size, "finished": finished, "messages": msgs, "received": recvDesc}
		r.Count("kind=" + kind)
		r.Count(fmt.Sprintf("finished=%v", finished))
		if size == 0 {
			r.Count("size=empty")
		}
		if hasMissing {
			r.Count("targets=with-missing")
		}
		if hasDup {
			r.Count("targets=with-duplicate")
		}
		if !allDrain {
			r.Count("engine=some-abort")
		}
		r.Add(term, desc, tags, size > 0 && len(pc.Targets) > 0)
		if !finished {
			r.Count("workloads-refreshed")
			fresh()
		}
	}

	D, DE, IG := behaviour{"Drain", 0}, behaviour{"DrainErr", 0}, behaviour{"Ignore", 0}
	AB := func(k int) behaviour { return behaviour{"Abort", k} }
	all := []behaviour{D, D, D}
	corpus := []pcase{
		{0, 1, []int{0}, all}, {0, 0, []int{0, 1}, all}, // one byte; EMPTY file
		{1, 0, []int{0, 1, 2}, all}, {3, 17, []int{2, 0}, all}, {14, 0, []int{0, 1, 2}, all}, {40, 1, []int{1}, all},
		{1, 5, []int{0, -1}, all},                          // missing target, small file
		{13, 0, []int{0, -1}, all},                         // missing target, more than 11 chunks
		{2, 0, []int{0, 1}, []behaviour{AB(0), D, D}},      // engine rejects at once, small file
		{13, 0, []int{0, 1}, []behaviour{AB(0), D, D}},     // engine rejects at once, large file
		{13, 0, []int{0, 1}, []behaviour{AB(3000), D, D}},  // error after partial read
		{11, 0, []int{0}, []behaviour{AB(10), D, D}},       // exactly fills the buffer
		{12, 0, []int{0}, []behaviour{AB(10), D, D}},       //
		{3, 0, []int{0, 1}, []behaviour{DE, D, D}},         // reads everything, then reports an error
		{2, 0, []int{0, 0}, all},                           // duplicated target
		{1, 0, []int{1, 0, 1}, all},                        //
		{3, 0, []int{0}, []behaviour{IG, D, D}},            // returns success without reading
		{13, 0, []int{0}, []behaviour{IG, D, D}},           //
		{5, 0, []int{}, all},                               // no targets at all
	}
	for _, pc := range corpus {
		runCase("corpus", pc)
	}
	n := r.N(30, 300)
	for i := 0; i < n; i++ {
		var pc pcase
		switch x := rng.Intn(100); {
		case x < 5:
		case x < 25:
			pc.Extra = 1 + rng.Intn(chunkSize-1)
		case x < 60:
			pc.Chunks, pc.Extra = 1+rng.Intn(8), rng.Intn(2)*rng.Intn(chunkSize)
		default:
			pc.Chunks, pc.Extra = 9+rng.Intn(30), rng.Intn(2)*rng.Intn(chunkSize)
		}
		nt := 1 + rng.Intn(3)
		perm := rng.Perm(3)
		kind := "ok"
		for k := 0; k < nt; k++ {
			pc.Targets = append(pc.Targets, perm[k])
		}
		pc.Beh = []behaviour{D, D, D}
		switch x := rng.Intn(100); {
		case x < 45:
		case x < 60:
			pc.Targets[rng.Intn(len(pc.Targets))] = -1
			kind = "missing"
		case x < 70:
			pc.Targets = append(pc.Targets, pc.Targets[rng.Intn(len(pc.Targets))])
			kind = "duplicate"
		case x < 90:
			size := pc.Chunks*chunkSize + pc.Extra
			k := 0
			if size > 0 && rng.Intn(3) > 0 {
				k = rng.Intn(size)
			}
			pc.Beh[pc.Targets[0]] = AB(k)
			kind = "abort"
		default:
			pc.Beh[pc.Targets[0]] = DE
			kind = "drain-then-error"
		}
		runCase(kind, pc)
	}
	// ---- stream "direct": Calcium.Send on the same world ----
	{
		rd := vh.New(t, "C29", "direct")
		rd.Coq("From Verif Require Import Xfer.Pipeline Xfer.Direct.", "Direct.dcase", "Direct.dagree", "Direct.dok")
		type dc struct {
			sizes   []int
			targets []int
			beh     []behaviour
			zero    bool
		}
		dcorpus := []dc{
			{[]int{10}, []int{0}, all, false},
			{[]int{0}, []int{0, 1}, all, false},            // empty file
			{[]int{5, 0, 3000}, []int{2, 0}, all, false},   // several files
			{[]int{100}, []int{0, -1}, all, false},         // missing target
			{[]int{100, 7}, []int{-1, 1}, all, false},      // missing target, two files: one message for it
			{[]int{64}, []int{1, 1}, all, false},           // duplicated target: sent twice, two results
			{[]int{2048, 1}, []int{0, 1}, []behaviour{AB(0), D, D}, false},
			{[]int{4000}, []int{0}, []behaviour{AB(100), D, D}, false},
			{[]int{9}, []int{0, 2}, []behaviour{DE, D, D}, false},
			{[]int{9}, []int{0}, all, true},                // uid = gid = mode = 0: default permission 0755
			{[]int{}, []int{0}, all, false},                // no files
			{[]int{4}, []int{}, all, false},                // no ids
		}
		for _, c := range dcorpus {
			if !runDirect(rd, w, wids, "corpus", c.sizes, c.targets, c.beh, c.zero) {
				fresh()
			}
		}
		nd := rd.N(25, 300)
		for i := 0; i < nd; i++ {
			var c dc
			nf := 1 + rng.Intn(3)
			for k := 0; k < nf; k++ {
				sz := rng.Intn(4500)
				if rng.Intn(6) == 0 {
					sz = 0
				}
				c.sizes = append(c.sizes, sz)
			}
			perm := rng.Perm(3)
			for k := 0; k < 1+rng.Intn(3); k++ {
				c.targets = append(c.targets, perm[k])
			}
			c.beh = []behaviour{D, D, D}
			kind := "ok"
			switch x := rng.Intn(100); {
			case x < 50:
			case x < 65:
				c.targets[rng.Intn(len(c.targets))] = -1
				kind = "missing"
			case x < 75:
				c.targets = append(c.targets, c.targets[rng.Intn(len(c.targets))])
				kind = "duplicate"
			case x < 90:
				c.beh[c.targets[0]] = AB(rng.Intn(3000))
				kind = "abort"
			default:
				c.beh[c.targets[0]] = DE
				kind = "drain-then-error"
			}
			if c.targets[0] < 0 && kind == "abort" {
				kind = "missing"
			}
			if !runDirect(rd, w, wids, kind, c.sizes, c.targets, c.beh, rng.Intn(8) == 0) {
				fresh()
			}
		}
		rd.Finish("Calcium.Send (non-chunked path) on the same world: corpus of 12 (empty file, several files, missing / duplicated target, aborting engine, default permission, no files, no ids), then random: 1-3 files of 0-4500 bytes to 1-3 of 3 workloads, 50% all drain, 15% one missing, 10% duplicated, 15% aborting engine, 10% drain then error; non-trivial = at least one file and one target")
	}
	// ---- stream "clientchunks": the client of the streaming RPC cuts the file as it likes ----
	{
		rk := vh.New(t, "C29", "clientchunks")
		rk.Coq("From Verif Require Import Xfer.Pipeline.", "Pipeline.kcase", "Pipeline.kagree", "Pipeline.kok")
		runClient := func(kind string, lens []int, targets []int, beh []behaviour) {
			size := 0
			for _, n := range lens {
				size += n
			}
			content := make([]byte, size)
			for i := range content {
				content[i] = byte((i*5 + 3) % 247)
			}
			file := types.LinuxFile{Content: content, Filename: "/data/client.bin", UID: 1001, GID: 1002, Mode: 0o640}
			theHub.mu.Lock()
			theHub.beh = map[string]behaviour{}
			for i, b := range beh {
				theHub.beh[wids[i]] = b
			}
			theHub.files = nil
			theHub.content, theHub.want, theHub.recv = content, file, map[string]*received{}
			theHub.mu.Unlock()
			ids := make([]string, len(targets))
			for i, o := range targets {
				if o < 0 {
					ids[i] = missing
				} else {
					ids[i] = wids[o]
				}
			}
			ctx, cancel := context.WithCancel(w.Ctx)
			dc := make(chan *types.SendLargeFileOptions)
			resp := w.C.SendLargeFile(ctx, dc)
			stop := make(chan struct{})
			go func() {
				defer close(dc)
				off := 0
				for _, n := range lens { // what rpc.SendLargeFile builds from each FileOptions message of the client
					opts := &types.SendLargeFileOptions{IDs: ids, Dst: file.Filename, Size: int64(size), Mode: file.Mode, UID: file.UID, GID: file.GID, Chunk: content[off : off+n]}
					off += n
					select {
					case dc <- opts:
					case <-stop:
						return
					}
				}
			}()
			var msgs []msgObs
			finished := false
			deadline := time.After(5 * time.Second)
		loop:
			for {
				select {
				case m, ok := <-resp:
					if !ok {
						finished = true
						break loop
					}
					o := msgObs{Target: -1, Err: "ENone", PathOK: m.Path == file.Filename}
					if x, ok := ord[m.ID]; ok {
						o.Target = x
					}
					switch {
					case m.Error == nil:
					case errors.Is(m.Error, errEngine):
						o.Err = "EEngine"
					default:
						o.Err = "EOther"
					}
					msgs = append(msgs, o)
				case <-deadline:
					break loop
				}
			}
			if !finished {
				close(stop)
				go func() {
					for range resp {
					}
				}()
				time.Sleep(50 * time.Millisecond)
			}
			cancel()
			sort.Slice(msgs, func(i, j int) bool {
				if msgs[i].Target != msgs[j].Target {
					return msgs[i].Target < msgs[j].Target
				}
				return msgs[i].Err < msgs[j].Err
			})
			theHub.mu.Lock()
			recvs := make([]string, 3)
			for i, id := range wids {
				rec := theHub.recv[id]
				switch {
				case rec == nil:
					recvs[i] = "RNone"
				case rec.prefix:
					recvs[i] = fmt.Sprintf("(RPrefix %d %s %d)", rec.n, vh.Bool(rec.metaOK), rec.calls)
				default:
					recvs[i] = fmt.Sprintf("(RGarbled %d %d)", rec.n, rec.calls)
				}
			}
			theHub.mu.Unlock()
			ms := make([]string, len(msgs))
			for i, m := range msgs {
				tg := "None"
				if m.Target >= 0 {
					tg = fmt.Sprintf("(Some %d)", m.Target)
				}
				ms[i] = fmt.Sprintf("(mkMsg %s %s %s)", tg, m.Err, vh.Bool(m.PathOK))
			}
			ls := make([]string, len(lens))
			for i, n := range lens {
				ls[i] = vh.Nat(n)
			}
			tg := make([]string, len(targets))
			for i, o := range targets {
				if o < 0 {
					tg[i] = "None"
				} else {
					tg[i] = fmt.Sprintf("(Some %d)", o)
				}
			}
			bs := make([]string, len(beh))
			for i, b := range beh {
				if b.Kind == "Abort" {
					bs[i] = fmt.Sprintf("(GiveUp %d)", b.K)
				} else {
					bs[i] = b.Kind
				}
			}
			term := fmt.Sprintf("(mkKCase %s %s %s %s %s %s)", vh.List(ls), vh.List(tg), vh.List(bs), vh.Bool(finished), vh.List(ms), vh.List(recvs))
			rk.Count("kind=" + kind)
			rk.Count(fmt.Sprintf("chunks=%d", len(lens)))
			rk.Count(fmt.Sprintf("finished=%v", finished))
			rk.Add(term, map[string]any{"kind": kind, "chunk_lengths": lens, "targets": targets, "behaviours": beh, "finished": finished, "messages": msgs},
				map[string]any{"stream": "clientchunks", "chunks": len(lens)}, len(lens) > 1)
			if !finished {
				fresh()
			}
		}
		kc := []struct {
			lens    []int
			targets []int
			beh     []behaviour
		}{
			{[]int{1000, 1000, 500}, []int{0, 1}, all},               // 2500 bytes in chunks below the core's chunk size
			{[]int{1, 1, 1}, []int{0}, all},                          //
			{[]int{2048, 100, 2048, 7}, []int{2, 0}, all},            // short chunk in the middle
			{[]int{5000}, []int{1}, all},                             // one chunk larger than the core's chunk size
			{[]int{300, 4096, 300}, []int{0, 1, 2}, all},             //
			{[]int{700, 700, 700, 700}, []int{0, 1}, []behaviour{AB(1000), D, D}},
			{[]int{10, 20}, []int{0, -1}, all},
		}
		for _, c := range kc {
			runClient("corpus", c.lens, c.targets, c.beh)
		}
		nk := rk.N(12, 200)
		for i := 0; i < nk; i++ {
			var lens []int
			for k := 0; k < 1+rng.Intn(8); k++ {
				switch rng.Intn(4) {
				case 0:
					lens = append(lens, chunkSize)
				case 1:
					lens = append(lens, 1+rng.Intn(64))
				default:
					lens = append(lens, 1+rng.Intn(3000))
				}
			}
			perm := rng.Perm(3)
			var targets []int
			for k := 0; k < 1+rng.Intn(3); k++ {
				targets = append(targets, perm[k])
			}
			beh := []behaviour{D, D, D}
			if rng.Intn(4) == 0 {
				beh[targets[0]] = AB(rng.Intn(2000))
			}
			runClient("random", lens, targets, beh)
		}
		rk.Finish("the chunks of ONE file cut by the client (1-8 chunks of the core's chunk size, 1-64 bytes or 1-3000 bytes each; corpus: 1000+1000+500, 1+1+1, a short chunk in the middle, one oversized chunk, aborting engine, missing target) put on the SendLargeFile input channel as rpc.SendLargeFile would; non-trivial = more than one chunk")
	}

	// ---- stream "multifile": several files on ONE SendLargeFile input channel ----
	{
		rm := vh.New(t, "C29", "multifile")
		rm.Coq("From Verif Require Import Xfer.Pipeline Xfer.Multi.", "Multi.mcase", "Multi.magree", "Multi.mok")
		runMulti := func(kind string, sizes []int, targets []int, beh []behaviour) {
			files := make([]types.LinuxFile, len(sizes))
			fmap := map[string]types.LinuxFile{}
			fidx := map[string]int{}
			for i, n := range sizes {
				content := make([]byte, n)
				for k := range content {
					content[k] = byte((k*13 + i) % 249)
				}
				files[i] = types.LinuxFile{Content: content, Filename: fmt.Sprintf("/data/m%d", i), UID: 1001, GID: 1002, Mode: 0o640}
				fmap[files[i].Filename] = files[i]
				fidx[files[i].Filename] = i
			}
			theHub.mu.Lock()
			theHub.beh = map[string]behaviour{}
			for i, b := range beh {
				theHub.beh[wids[i]] = b
			}
			theHub.files, theHub.drecv = fmap, map[string]*received{}
			theHub.mu.Unlock()
			ids := make([]string, len(targets))
			for i, o := range targets {
				if o < 0 {
					ids[i] = missing
				} else {
					ids[i] = wids[o]
				}
			}
			ctx, cancel := context.WithCancel(w.Ctx)
			dc := make(chan *types.SendLargeFileOptions)
			resp := w.C.SendLargeFile(ctx, dc)
			stop := make(chan struct{})
			go func() {
				defer close(dc)
				for _, f := range files { // one stream, file after file
					for _, chunk := range rpc.VerifToSendLargeFileChunks(f, ids) {
						select {
						case dc <- chunk:
						case <-stop:
							return
						}
					}
				}
			}()
			type mm struct{ T, F int }
			var msgs []mm
			finished := false
			deadline := time.After(5 * time.Second)
		loop:
			for {
				select {
				case m, ok := <-resp:
					if !ok {
						finished = true
						break loop
					}
					x := mm{-1, -1}
					if o, ok := ord[m.ID]; ok {
						x.T = o
					}
					if i, ok := fidx[m.Path]; ok {
						x.F = i
					}
					msgs = append(msgs, x)
				case <-deadline:
					break loop
				}
			}
			if !finished {
				close(stop)
				go func() {
					for range resp {
					}
				}()
				time.Sleep(50 * time.Millisecond)
			}
			cancel()
			sort.Slice(msgs, func(i, j int) bool {
				if msgs[i].T != msgs[j].T {
					return msgs[i].T < msgs[j].T
				}
				return msgs[i].F < msgs[j].F
			})
			opt := func(v int) string {
				if v < 0 {
					return "None"
				}
				return fmt.Sprintf("(Some %d)", v)
			}
			ms := make([]string, len(msgs))
			for i, m := range msgs {
				ms[i] = vh.Pair(opt(m.T), opt(m.F))
			}
			theHub.mu.Lock()
			rows := make([]string, len(wids))
			for i, id := range wids {
				cells := make([]string, len(files))
				for k, f := range files {
					rec := theHub.drecv[id+"|"+f.Filename]
					n := 0
					if rec != nil && rec.prefix {
						n = rec.n
					} else if rec != nil {
						n = 1 << 20 // garbled: not representable, forces a mismatch
					}
					cells[k] = vh.Nat(n)
				}
				rows[i] = vh.List(cells)
			}
			theHub.files = nil
			theHub.mu.Unlock()
			szs := make([]string, len(sizes))
			for i, n := range sizes {
				szs[i] = vh.Nat(n)
			}
			tg := make([]string, len(targets))
			for i, o := range targets {
				tg[i] = opt(o)
			}
			bs := make([]string, len(beh))
			for i, b := range beh {
				if b.Kind == "Abort" {
					bs[i] = fmt.Sprintf("(GiveUp %d)", b.K)
				} else {
					bs[i] = b.Kind
				}
			}
			term := fmt.Sprintf("(mkMCase %s %s %s %s %s %s)", vh.List(szs), vh.List(tg), vh.List(bs), vh.Bool(finished), vh.List(ms), vh.List(rows))
			desc := map[string]any{"kind": kind, "sizes": sizes, "targets": targets, "behaviours": beh, "finished": finished, "messages": msgs}
			rm.Count("kind=" + kind)
			rm.Count(fmt.Sprintf("files=%d", len(sizes)))
			rm.Count(fmt.Sprintf("finished=%v", finished))
			rm.Add(term, desc, map[string]any{"stream": "multifile", "files": len(sizes), "several_files": len(sizes) > 1}, len(sizes) > 1)
			if !finished {
				fresh()
			}
		}
		mc := []struct {
			sizes   []int
			targets []int
			beh     []behaviour
		}{
			{[]int{100}, []int{0, 1}, all},
			{[]int{100, 200}, []int{0}, all},                         // second file is dropped
			{[]int{3000, 5, 4100}, []int{0, 1}, all},                 //
			{[]int{10, 30000}, []int{2}, all},                        // large second file (15 chunks): drained, call finishes
			{[]int{2048, 2048}, []int{0, -1}, all},                   //
			{[]int{50, 60}, []int{0}, []behaviour{AB(10), D, D}},     //
		}
		for _, c := range mc {
			runMulti("corpus", c.sizes, c.targets, c.beh)
		}
		nm := rm.N(8, 120)
		for i := 0; i < nm; i++ {
			nf := 1 + rng.Intn(3)
			var sizes []int
			for k := 0; k < nf; k++ {
				sizes = append(sizes, 1+rng.Intn(9000))
			}
			perm := rng.Perm(3)
			var targets []int
			for k := 0; k < 1+rng.Intn(3); k++ {
				targets = append(targets, perm[k])
			}
			runMulti("random", sizes, targets, []behaviour{D, D, D})
		}
		rm.Finish("several files (1-3, 1-9000 bytes, distinct destinations) put one after the other on ONE SendLargeFile input channel, to 1-3 real workloads with draining engines (corpus also: missing target, aborting engine, a 15-chunk second file); non-trivial = more than one file")
	}
	r.Finish("corpus of 19 transfers (one byte, empty file, 1/3/14/40 chunks, missing target small+large, engine rejecting at once / after a partial read, buffer boundary 11/12 chunks, read-all-then-error, duplicated targets, engine returning success unread, no targets), then random transfers: size empty / below a chunk / 1-8 chunks / 9-38 chunks, 1-3 of 3 real workloads, 45% all engines drain, 15% one missing target, 10% duplicated target, 20% one engine aborts after k bytes, 10% drain then error; each through the real Calcium.SendLargeFile with a 5 s deadline; non-trivial = non-empty file and at least one target")
}
