// Package c22: correspondence harness for C22 (referential consistency under
// concurrency).
//
// A real Calcium (package cw, embedded etcd) runs 1-3 operations out of
// add-pod / remove-pod / add-node / remove-node / create / remove-workload on
// overlapping names.  A tracing layer of this package (store wrapper, wrapper
// around the etcd KV of the store for the two key-value steps of store.AddNode
// and store.RemovePod, resource-manager wrapper, lock wrapper) attributes every
// relevant call to its operation (by the tracing id in the context), can pause
// an operation before its k-th relevant call and can fail one call before it
// executes.  Schedule policy: phase 1, operation i runs k_i calls; phase 2,
// the operations finish one after the other.  Coq (Calcium/Refs.v) runs the same
// policy on the model and compares per-operation call traces, results and the
// final key-level snapshot; ok = Ref on the snapshot the implementation left.
package c22

import (
	"context"
	"encoding/json"
	"errors"
	"fmt"
	"runtime"
	"sort"
	"strings"
	"sync"
	"testing"
	"time"

	"go.etcd.io/etcd/api/v3/mvccpb"
	clientv3 "go.etcd.io/etcd/client/v3"

	"verifharness/cw"
	"verifharness/vh"

	"github.com/projecteru2/core/lock"
	"github.com/projecteru2/core/resource"
	"github.com/projecteru2/core/resource/plugins"
	plugintypes "github.com/projecteru2/core/resource/plugins/types"
	resourcetypes "github.com/projecteru2/core/resource/types"
	"github.com/projecteru2/core/store"
	"github.com/projecteru2/core/store/etcdv3"
	"github.com/projecteru2/core/store/etcdv3/meta"
	"github.com/projecteru2/core/types"
	enginetypes "github.com/projecteru2/core/engine/types"
)

// ---------------------------------------------------------------- tracer

type step struct {
	Tag  string `json:"op"`
	Call string `json:"call"` // Coq term of the rcall
	OK   bool   `json:"ok"`
	Kind string `json:"kind"` // constructor name
}

var errInjected = errors.New("verif: injected failure")

type tracer struct {
	mu       sync.Mutex
	steps    []step
	count    map[string]int // relevant calls started per tag
	fcount   map[string]int // faultable calls started per tag
	pauseAt  map[string]int // tag -> pause before the call with that index
	paused   map[string]chan struct{}
	isPaused map[string]bool
	fault    map[string]int // tag -> index of the faultable call that fails
	faulted  map[string]string
}

func newTracer() *tracer {
	return &tracer{count: map[string]int{}, fcount: map[string]int{}, pauseAt: map[string]int{}, paused: map[string]chan struct{}{},
		isPaused: map[string]bool{}, fault: map[string]int{}, faulted: map[string]string{}}
}

func tagOf(ctx context.Context) string {
	if ctx == nil {
		return ""
	}
	if v, ok := ctx.Value(types.TracingID).(string); ok {
		return v
	}
	return ""
}

func inRemap() bool {
	pcs := make([]uintptr, 64)
	n := runtime.Callers(2, pcs)
	frames := runtime.CallersFrames(pcs[:n])
	for {
		f, more := frames.Next()
		if strings.Contains(f.Function, "RemapResourceAndLog") || strings.Contains(f.Function, "doSendNodeMetrics") {
			return true
		}
		if !more {
			return false
		}
	}
}

// do runs one relevant call of an operation: pause point, fault, execution, log.
func (t *tracer) do(ctx context.Context, kind, term string, faultable bool, f func() error) error {
	tag := tagOf(ctx)
	if tag == "" || inRemap() {
		return f()
	}
	t.mu.Lock()
	idx := t.count[tag]
	t.count[tag] = idx + 1
	var ch chan struct{}
	if at, ok := t.pauseAt[tag]; ok && at == idx {
		ch = make(chan struct{})
		t.paused[tag] = ch
		t.isPaused[tag] = true
	}
	t.mu.Unlock()
	if ch != nil {
		<-ch
	}
	t.mu.Lock()
	inject := false
	if faultable {
		fi := t.fcount[tag]
		t.fcount[tag] = fi + 1
		if at, ok := t.fault[tag]; ok && at == fi {
			inject = true
			t.faulted[tag] = kind
		}
	}
	t.mu.Unlock()
	var err error
	if inject {
		err = errInjected
	} else {
		err = f()
	}
	t.mu.Lock()
	t.steps = append(t.steps, step{Tag: tag, Call: term, OK: err == nil, Kind: kind})
	t.mu.Unlock()
	return err
}

func (t *tracer) pausedNow(tag string) bool { t.mu.Lock(); defer t.mu.Unlock(); return t.isPaused[tag] }
func (t *tracer) release(tag string) {
	t.mu.Lock()
	ch := t.paused[tag]
	delete(t.paused, tag)
	delete(t.pauseAt, tag)
	t.isPaused[tag] = false
	t.mu.Unlock()
	if ch != nil {
		close(ch)
	}
}
func (t *tracer) releaseAll() {
	t.mu.Lock()
	tags := []string{}
	for k := range t.paused {
		tags = append(tags, k)
	}
	t.pauseAt = map[string]int{}
	t.mu.Unlock()
	for _, k := range tags {
		t.release(k)
	}
}

func str(s string) string { return vh.Str(s) }

// Coq term of an AddWorkload call -> workload id (to name the instance of a failed create)
var (
	wlIDs   = map[string]string{}
	wlIDsMu sync.Mutex
)

// ---- store wrapper (call level)
type storeT struct {
	store.Store
	t *tracer
}

func (s *storeT) AddPod(ctx context.Context, name, desc string) (p *types.Pod, err error) {
	err = s.t.do(ctx, "CAddPod", fmt.Sprintf("(CAddPod %s)", str(name)), true, func() (e error) { p, e = s.Store.AddPod(ctx, name, desc); return })
	return
}
func (s *storeT) GetNode(ctx context.Context, name string) (n *types.Node, err error) {
	err = s.t.do(ctx, "CGetNode", fmt.Sprintf("(CGetNode %s)", str(name)), true, func() (e error) { n, e = s.Store.GetNode(ctx, name); return })
	return
}
func (s *storeT) RemoveNode(ctx context.Context, node *types.Node) error {
	return s.t.do(ctx, "CRemoveNode", fmt.Sprintf("(CRemoveNode %s)", str(node.Name)), true, func() error { return s.Store.RemoveNode(ctx, node) })
}
func (s *storeT) SetNodeStatus(ctx context.Context, node *types.Node, ttl int64) error {
	// inside RemoveNode: SetNodeStatus(node, 90) before and SetNodeStatus(node, -1) after the store removal
	if ttl < 0 {
		return s.t.do(ctx, "CDelStatus", fmt.Sprintf("(CDelStatus %s)", str(node.Name)), true, func() error { return s.Store.SetNodeStatus(ctx, node, ttl) })
	}
	return s.t.do(ctx, "CSetStatus", fmt.Sprintf("(CSetStatus %s)", str(node.Name)), true, func() error { return s.Store.SetNodeStatus(ctx, node, ttl) })
}
func (s *storeT) ListNodeWorkloads(ctx context.Context, name string, labels map[string]string) (w []*types.Workload, err error) {
	err = s.t.do(ctx, "CListNodeWls", fmt.Sprintf("(CListNodeWls %s)", str(name)), true, func() (e error) { w, e = s.Store.ListNodeWorkloads(ctx, name, labels); return })
	return
}
func (s *storeT) AddWorkload(ctx context.Context, wl *types.Workload, p *types.Processing) error {
	wlIDsMu.Lock()
	wlIDs[fmt.Sprintf("(CAddWl %s %s)", str(wl.ID), str(wl.Nodename))] = wl.ID
	wlIDsMu.Unlock()
	return s.t.do(ctx, "CAddWl", fmt.Sprintf("(CAddWl %s %s)", str(wl.ID), str(wl.Nodename)), true, func() error { return s.Store.AddWorkload(ctx, wl, p) })
}
func (s *storeT) RemoveWorkload(ctx context.Context, wl *types.Workload) error {
	return s.t.do(ctx, "CRemoveWl", fmt.Sprintf("(CRemoveWl %s)", str(wl.ID)), true, func() error { return s.Store.RemoveWorkload(ctx, wl) })
}
func (s *storeT) GetWorkloads(ctx context.Context, ids []string) (w []*types.Workload, err error) {
	if len(ids) != 1 {
		return s.Store.GetWorkloads(ctx, ids)
	}
	err = s.t.do(ctx, "CGetWl", fmt.Sprintf("(CGetWl %s)", str(ids[0])), true, func() (e error) { w, e = s.Store.GetWorkloads(ctx, ids); return })
	return
}
func (s *storeT) CreateLock(key string, ttl time.Duration) (lock.DistributedLock, error) {
	l, err := s.Store.CreateLock(key, ttl)
	if err != nil {
		return l, err
	}
	return &lockT{DistributedLock: l, key: key, t: s.t}, nil
}

type lockT struct {
	lock.DistributedLock
	key string
	t   *tracer
}

func (l *lockT) Lock(ctx context.Context) (c context.Context, err error) {
	err = l.t.do(ctx, "CLock", fmt.Sprintf("(CLock %s)", str(l.key)), false, func() (e error) { c, e = l.DistributedLock.Lock(ctx); return })
	return
}
func (l *lockT) Unlock(ctx context.Context) error {
	return l.t.do(ctx, "CUnlock", fmt.Sprintf("(CUnlock %s)", str(l.key)), false, func() error { return l.DistributedLock.Unlock(ctx) })
}

// ---- KV wrapper inside the etcd store: the two steps of store.AddNode / store.RemovePod
type kvT struct {
	meta.KV
	t *tracer
}

func (k *kvT) Get(ctx context.Context, key string, opts ...clientv3.OpOption) (r *clientv3.GetResponse, err error) {
	// range over /node/<pod>:pod/
	if strings.HasPrefix(key, "/node/") && strings.HasSuffix(key, ":pod/") {
		pod := strings.TrimSuffix(strings.TrimPrefix(key, "/node/"), ":pod/")
		err = k.t.do(ctx, "CListPodNodes", fmt.Sprintf("(CListPodNodes %s)", str(pod)), true, func() (e error) { r, e = k.KV.Get(ctx, key, opts...); return })
		return
	}
	return k.KV.Get(ctx, key, opts...)
}
func (k *kvT) GetOne(ctx context.Context, key string, opts ...clientv3.OpOption) (r *mvccpbKV, err error) {
	if strings.HasPrefix(key, "/pod/info/") {
		pod := strings.TrimPrefix(key, "/pod/info/")
		err = k.t.do(ctx, "CGetPod", fmt.Sprintf("(CGetPod %s)", str(pod)), true, func() (e error) { r, e = k.KV.GetOne(ctx, key, opts...); return })
		return
	}
	return k.KV.GetOne(ctx, key, opts...)
}
func (k *kvT) Delete(ctx context.Context, key string, opts ...clientv3.OpOption) (r *clientv3.DeleteResponse, err error) {
	if strings.HasPrefix(key, "/pod/info/") {
		pod := strings.TrimPrefix(key, "/pod/info/")
		// store.RemovePod turns "nothing deleted" into an error afterwards: report it as the step's result
		var deleted int64
		err = k.t.do(ctx, "CDeletePod", fmt.Sprintf("(CDeletePod %s)", str(pod)), true, func() (e error) {
			r, e = k.KV.Delete(ctx, key, opts...)
			if e == nil {
				deleted = r.Deleted
				if deleted != 1 {
					return errors.New("not found")
				}
			}
			return
		})
		if err != nil && r != nil && deleted != 1 {
			return r, nil // let the store produce its own ErrPodNotFound
		}
		return
	}
	return k.KV.Delete(ctx, key, opts...)
}
func (k *kvT) BatchCreate(ctx context.Context, data map[string]string, opts ...clientv3.OpOption) (r *clientv3.TxnResponse, err error) {
	for key, val := range data {
		if strings.HasPrefix(key, "/node/") && !strings.Contains(key[len("/node/"):], ":") {
			node := strings.TrimPrefix(key, "/node/")
			var meta struct {
				Podname string `json:"podname"`
			}
			_ = json.Unmarshal([]byte(val), &meta)
			err = k.t.do(ctx, "CCreateNode", fmt.Sprintf("(CCreateNode %s %s)", str(node), str(meta.Podname)), true, func() (e error) { r, e = k.KV.BatchCreate(ctx, data, opts...); return })
			return
		}
	}
	return k.KV.BatchCreate(ctx, data, opts...)
}

// ---- resource manager wrapper
type rmgrT struct {
	resource.Manager
	t *tracer
}

func (m *rmgrT) AddNode(ctx context.Context, name string, opts resourcetypes.Resources, info *enginetypes.Info) (r resourcetypes.Resources, err error) {
	err = m.t.do(ctx, "PAddNode", fmt.Sprintf("(PAddNode %s)", str(name)), true, func() (e error) { r, e = m.Manager.AddNode(ctx, name, opts, info); return })
	return
}
func (m *rmgrT) RemoveNode(ctx context.Context, name string) error {
	return m.t.do(ctx, "PRemoveNode", fmt.Sprintf("(PRemoveNode %s)", str(name)), true, func() error { return m.Manager.RemoveNode(ctx, name) })
}
func (m *rmgrT) GetNodesDeployCapacity(ctx context.Context, names []string, opts resourcetypes.Resources) (r map[string]*plugintypes.NodeDeployCapacity, total int, err error) {
	if len(names) != 1 {
		return m.Manager.GetNodesDeployCapacity(ctx, names, opts)
	}
	err = m.t.do(ctx, "PCapacity", fmt.Sprintf("(PCapacity %s)", str(names[0])), true, func() (e error) {
		r, total, e = m.Manager.GetNodesDeployCapacity(ctx, names, opts)
		if e == nil && total <= 0 {
			return errors.New("no capacity")
		}
		return
	})
	if err != nil && r != nil {
		return r, total, nil // let calcium turn "no capacity" into its own error
	}
	return
}
func (m *rmgrT) Alloc(ctx context.Context, name string, n int, opts resourcetypes.Resources) (a, b []resourcetypes.Resources, err error) {
	err = m.t.do(ctx, "PAlloc", fmt.Sprintf("(PAlloc %s)", str(name)), true, func() (e error) { a, b, e = m.Manager.Alloc(ctx, name, n, opts); return })
	return
}
func (m *rmgrT) RollbackAlloc(ctx context.Context, name string, rs []resourcetypes.Resources) error {
	return m.t.do(ctx, "PRollbackAlloc", fmt.Sprintf("(PRollbackAlloc %s)", str(name)), true, func() error { return m.Manager.RollbackAlloc(ctx, name, rs) })
}
func (m *rmgrT) SetNodeResourceUsage(ctx context.Context, name string, nr resourcetypes.Resources, nrr resourcetypes.Resources, wr []resourcetypes.Resources, delta bool, incr bool) (a, b resourcetypes.Resources, err error) {
	err = m.t.do(ctx, "PSetUsage", fmt.Sprintf("(PSetUsage %s)", str(name)), true, func() (e error) {
		a, b, e = m.Manager.SetNodeResourceUsage(ctx, name, nr, nrr, wr, delta, incr)
		return
	})
	return
}

var _ = plugins.Incr
var _ = plugintypes.NodeResourceRequest{}

// ---------------------------------------------------------------- world

type rwSnap struct {
	Pods  []string    `json:"pods"`
	Nodes [][2]string `json:"nodes"`
	Nres  []string    `json:"nres"`
	Wls   [][2]string `json:"wls"`
}

func snapshot(w *cw.World) rwSnap {
	s := rwSnap{Pods: []string{}, Nodes: [][2]string{}, Nres: []string{}, Wls: [][2]string{}}
	get := func(prefix string) []*mvccpbKV {
		resp, err := w.Etcd.Get(w.Ctx, prefix, clientv3.WithPrefix())
		if err != nil {
			w.T.Fatalf("snapshot %s: %v", prefix, err)
		}
		return resp.Kvs
	}
	for _, kv := range get("/pod/info/") {
		s.Pods = append(s.Pods, strings.TrimPrefix(string(kv.Key), "/pod/info/"))
	}
	for _, kv := range get("/node/") {
		rest := strings.TrimPrefix(string(kv.Key), "/node/")
		if strings.Contains(rest, ":") {
			continue
		}
		var m struct {
			Podname string `json:"podname"`
		}
		_ = json.Unmarshal(kv.Value, &m)
		s.Nodes = append(s.Nodes, [2]string{rest, m.Podname})
	}
	for _, kv := range get("/resource/cpumem/") {
		s.Nres = append(s.Nres, strings.TrimPrefix(string(kv.Key), "/resource/cpumem/"))
	}
	for _, kv := range get("/workloads/") {
		var m struct {
			Nodename string `json:"nodename"`
		}
		_ = json.Unmarshal(kv.Value, &m)
		s.Wls = append(s.Wls, [2]string{strings.TrimPrefix(string(kv.Key), "/workloads/"), m.Nodename})
	}
	sort.Strings(s.Pods)
	sort.Strings(s.Nres)
	sort.Slice(s.Nodes, func(i, j int) bool { return s.Nodes[i][0] < s.Nodes[j][0] })
	sort.Slice(s.Wls, func(i, j int) bool { return s.Wls[i][0] < s.Wls[j][0] })
	return s
}

func (s rwSnap) term() string {
	pairs := func(ps [][2]string) string {
		out := make([]string, len(ps))
		for i, p := range ps {
			out[i] = vh.Pair(str(p[0]), str(p[1]))
		}
		return vh.List(out)
	}
	return fmt.Sprintf("(mkRw %s %s %s %s [])", vh.StrList(s.Pods), pairs(s.Nodes), vh.StrList(s.Nres), pairs(s.Wls))
}

type opSpec struct {
	Kind  string `json:"kind"` // add-pod remove-pod add-node remove-node create remove-wl
	A     string `json:"a"`    // pod / node / workload id
	B     string `json:"b"`    // add-node: pod
	Fault int    `json:"fault"`
	Pause int    `json:"pause"`
}

type opResult struct {
	ok bool
	id string // create: the workload id the engine produced
}

func runOp(w *cw.World, tag string, o opSpec) opResult {
	ctx := context.WithValue(w.Ctx, types.TracingID, tag)
	c := w.C
	switch o.Kind {
	case "add-pod":
		_, err := c.AddPod(ctx, o.A, "")
		return opResult{ok: err == nil}
	case "remove-pod":
		return opResult{ok: c.RemovePod(ctx, o.A) == nil}
	case "add-node":
		_, err := c.AddNode(ctx, &types.AddNodeOptions{Nodename: o.A, Endpoint: w.Hub.Endpoint(o.A), Podname: o.B,
			Resources: resourcetypes.Resources{"cpumem": resourcetypes.RawParams{"cpu": 8, "memory": int64(1 << 30)}}})
		return opResult{ok: err == nil}
	case "remove-node":
		return opResult{ok: c.RemoveNode(ctx, o.A) == nil}
	case "create":
		ch, err := c.CreateWorkload(ctx, &types.DeployOptions{
			Name: "app", Entrypoint: &types.Entrypoint{Name: "web"}, Podname: "p", Image: "img",
			Count: 1, DeployStrategy: "AUTO", NodeFilter: &types.NodeFilter{Includes: []string{o.A}},
			Resources: cw.CPUMem(0.1, 1<<20),
		})
		if err != nil {
			return opResult{}
		}
		res := opResult{}
		n := 0
		for m := range ch {
			n++
			if m.Error == nil {
				res.ok = true
			}
			if m.WorkloadID != "" {
				res.id = m.WorkloadID
			}
		}
		return res
	case "remove-wl":
		ch, err := c.RemoveWorkload(ctx, []string{o.A}, true)
		if err != nil {
			return opResult{}
		}
		ok := false
		for m := range ch {
			ok = m.Success
		}
		return opResult{ok: ok}
	}
	return opResult{}
}

func ctorOf(o opSpec, createID string) string {
	switch o.Kind {
	case "add-pod":
		return fmt.Sprintf("(OAddPod %s)", str(o.A))
	case "remove-pod":
		return fmt.Sprintf("(ORemovePod %s)", str(o.A))
	case "add-node":
		return fmt.Sprintf("(OAddNode %s %s)", str(o.A), str(o.B))
	case "remove-node":
		return fmt.Sprintf("(ORemoveNode %s)", str(o.A))
	case "create":
		return fmt.Sprintf("(OCreate %s %s)", str(o.A), str(createID))
	}
	return fmt.Sprintf("(ORemoveWl %s)", str(o.A))
}

type mvccpbKV = mvccpb.KeyValue

// ---------------------------------------------------------------- driver

// one case: build the initial world, run the operations under the policy, emit
func runCase(t *testing.T, r *vh.Run, worldNo int, ops []opSpec, tags map[string]any) bool {
	w := cw.New(t, cw.Options{NCPU: 8, Mem: 1 << 30})
	defer w.Close()
	tr := newTracer()
	// install the tracing layer
	m, ok := w.RawStore.(*etcdv3.Mercury)
	if !ok {
		t.Fatalf("C22 needs the etcd store")
	}
	m.KV = &kvT{KV: m.KV, t: tr}
	w.C.VerifSetStore(&storeT{Store: w.Store, t: tr})
	w.C.VerifSetRmgr(&rmgrT{Manager: w.Rmgr, t: tr})

	// initial world (untagged calls: not traced)
	existing := ""
	// worlds 5 and 6 are worlds 2 and 4 whose nodes are down (no live status key) / bypassed:
	// such nodes still belong to their pod
	base := worldNo
	switch worldNo {
	case 5:
		base = 2
	case 6:
		base = 4
	}
	switch base {
	case 1:
		must(t, w.AddPod("p"))
	case 2, 3:
		must(t, w.AddPod("p"))
		must(t, w.AddNode("n", "p", 8, 1<<30))
	case 4:
		must(t, w.AddPod("p"))
		must(t, w.AddPod("q"))
		must(t, w.AddNode("n", "p", 8, 1<<30))
		must(t, w.AddNode("m", "q", 8, 1<<30))
	}
	if base >= 3 {
		res := runOp(w, "", opSpec{Kind: "create", A: "n"})
		if !res.ok {
			t.Fatalf("setup create failed")
		}
		existing = res.id
		w.Quiesce()
	}
	down := func(name string) {
		node, err := w.RawStore.GetNode(w.Ctx, name)
		must(t, err)
		must(t, w.RawStore.SetNodeStatus(w.Ctx, node, -1))
	}
	bypass := func(name string) {
		node, err := w.RawStore.GetNode(w.Ctx, name)
		must(t, err)
		node.Bypass = true
		must(t, w.RawStore.UpdateNodes(w.Ctx, node))
	}
	switch worldNo {
	case 5:
		down("n")
	case 6:
		bypass("n")
		down("m")
	}
	for i := range ops {
		if ops[i].Kind == "remove-wl" && ops[i].A == "@w" {
			ops[i].A = existing
			if existing == "" {
				ops[i].A = "nope"
			}
		}
	}
	init := snapshot(w)

	// arm pauses and faults
	for i, o := range ops {
		tag := fmt.Sprintf("t%d", i)
		if o.Pause < 64 {
			tr.pauseAt[tag] = o.Pause
		}
		if o.Fault >= 0 {
			tr.fault[tag] = o.Fault
		}
	}
	results := make([]opResult, len(ops))
	done := make([]chan struct{}, len(ops))
	blocked := false
	waitFor := func(i int) bool { // finished or paused
		tag := fmt.Sprintf("t%d", i)
		deadline := time.Now().Add(1500 * time.Millisecond)
		for time.Now().Before(deadline) {
			select {
			case <-done[i]:
				return true
			default:
			}
			if tr.pausedNow(tag) {
				return true
			}
			time.Sleep(2 * time.Millisecond)
		}
		return false
	}
	// phase 1
	for i := range ops {
		i := i
		done[i] = make(chan struct{})
		go func() {
			defer close(done[i])
			results[i] = runOp(w, fmt.Sprintf("t%d", i), ops[i])
		}()
		if !waitFor(i) {
			blocked = true
			break
		}
	}
	// phase 2
	if !blocked {
		for i := range ops {
			tr.release(fmt.Sprintf("t%d", i))
			select {
			case <-done[i]:
			case <-time.After(1500 * time.Millisecond):
				blocked = true
			}
			if blocked {
				break
			}
		}
	}
	if blocked {
		// an operation waits for a lock held by a paused one: not a schedule of the policy; let everything finish
		tr.releaseAll()
		for i := range ops {
			if done[i] != nil {
				select {
				case <-done[i]:
				case <-time.After(30 * time.Second):
					t.Fatalf("C22: operation %d never returned", i)
				}
			}
		}
		w.Quiesce()
		r.Count("skipped_blocked_schedule")
		return false
	}
	w.Quiesce()
	time.Sleep(20 * time.Millisecond)
	final := snapshot(w)

	// emit
	opTerms, pauses, obsCalls, obsRes := []string{}, []string{}, []string{}, []string{}
	kinds := []string{}
	for i, o := range ops {
		tag := fmt.Sprintf("t%d", i)
		fl := "None"
		if o.Fault >= 0 {
			fl = vh.Some(vh.Nat(o.Fault))
		}
		cid := results[i].id
		if o.Kind == "create" && cid == "" {
			// the instance failed: the id the engine produced is in the AddWorkload call
			for _, st := range tr.steps {
				if st.Tag == tag && st.Kind == "CAddWl" {
					if k := strings.Index(st.Call, "(CAddWl "); k >= 0 {
						cid = wlIDs[st.Call]
					}
				}
			}
		}
		opTerms = append(opTerms, vh.Pair(ctorOf(o, cid), fl))
		pauses = append(pauses, vh.Nat(o.Pause))
		cs := []string{}
		for _, s := range tr.steps {
			if s.Tag == tag {
				cs = append(cs, vh.Pair(s.Call, vh.Bool(s.OK)))
			}
		}
		obsCalls = append(obsCalls, vh.List(cs))
		obsRes = append(obsRes, vh.Bool(results[i].ok))
		kinds = append(kinds, o.Kind)
	}
	term := fmt.Sprintf("(mkCase %s %s %s %s %s %s)", init.term(), vh.List(opTerms), vh.List(pauses), vh.List(obsCalls), vh.List(obsRes), final.term())
	sorted := append([]string{}, kinds...)
	sort.Strings(sorted)
	faultStep := ""
	for i, o := range ops {
		if k, ok := tr.faulted[fmt.Sprintf("t%d", i)]; ok {
			faultStep = o.Kind + ":" + k
		}
	}
	// input-level description of the known race shapes
	pairANP, pairCRN, tripleStale := false, false, false
	for _, a := range ops {
		removes := 0
		for _, b := range ops {
			if a.Kind == "add-node" && b.Kind == "remove-pod" && a.B == b.A {
				pairANP = true
			}
			if a.Kind == "create" && b.Kind == "remove-node" && a.A == b.A {
				pairCRN = true
			}
			if a.Kind == "add-node" && b.Kind == "remove-node" && a.A == b.A {
				removes++
			}
		}
		if removes >= 2 {
			tripleStale = true
		}
	}
	tg := map[string]any{"ops": strings.Join(sorted, "|"), "first": ops[0].Kind, "pause0": ops[0].Pause, "world": worldNo,
		"fault_step": faultStep, "n_ops": len(ops), "pair_addnode_removepod": pairANP, "pair_create_removenode": pairCRN,
		"triple_addnode_removenode_removenode": tripleStale}
	for k, v := range tags {
		tg[k] = v
	}
	resB := make([]bool, len(results))
	for i := range results {
		resB[i] = results[i].ok
	}
	desc := map[string]any{"world": worldNo, "init": init, "ops": ops, "steps": tr.steps, "results": resB, "final": final}
	r.Count("ops=" + strings.Join(sorted, "|"))
	r.Count(fmt.Sprintf("world=%d", worldNo))
	if faultStep != "" {
		r.Count("fault=" + faultStep)
	}
	r.Add(term, desc, tg, len(ops) >= 2 || faultStep != "")
	return true
}

func must(t *testing.T, err error) {
	if err != nil {
		t.Fatalf("setup: %v", err)
	}
}

func TestC22(t *testing.T) {
	r := vh.New(t, "C22", "refs")
	r.Coq("From Verif Require Import Calcium.Refs.", "Refs.case", "Refs.agree", "Refs.ok")
	r.Shard = 50
	n := r.N(64, 1200)
	rng := r.Rng
	nf := -1
	// corpus: the four witnesses
	runCase(t, r, 1, []opSpec{{Kind: "add-node", A: "n", B: "p", Fault: nf, Pause: 2}, {Kind: "remove-pod", A: "p", Fault: nf, Pause: 64}}, map[string]any{"corpus": "addnode-removepod"})
	runCase(t, r, 2, []opSpec{{Kind: "create", A: "n", Fault: nf, Pause: 6}, {Kind: "remove-node", A: "n", Fault: nf, Pause: 64}}, map[string]any{"corpus": "create-removenode"})
	runCase(t, r, 2, []opSpec{{Kind: "remove-node", A: "n", Fault: 6, Pause: 64}}, map[string]any{"corpus": "removenode-plugin-fault"})
	// every store / plugin call of RemoveNode with a single failure (0,1 GetNode; 2 ListNodeWorkloads; 3 SetNodeStatus(90);
	// 4 store.RemoveNode; 5 SetNodeStatus(-1); 6 rmgr.RemoveNode): Ref is checked on the final snapshot
	for f := 0; f <= 5; f++ {
		runCase(t, r, 2, []opSpec{{Kind: "remove-node", A: "n", Fault: f, Pause: 64}}, map[string]any{"corpus": "removenode-every-fault"})
	}
	runCase(t, r, 2, []opSpec{{Kind: "remove-node", A: "n", Fault: nf, Pause: 1}, {Kind: "remove-node", A: "n", Fault: nf, Pause: 64},
		{Kind: "add-node", A: "n", B: "p", Fault: nf, Pause: 1}}, map[string]any{"corpus": "stale-removenode"})
	// pods whose nodes are all down / bypassed still have nodes: RemovePod must be refused
	runCase(t, r, 5, []opSpec{{Kind: "remove-pod", A: "p", Fault: nf, Pause: 64}}, map[string]any{"corpus": "removepod-down-nodes"})
	runCase(t, r, 6, []opSpec{{Kind: "remove-pod", A: "p", Fault: nf, Pause: 64}}, map[string]any{"corpus": "removepod-down-nodes"})
	runCase(t, r, 6, []opSpec{{Kind: "remove-pod", A: "q", Fault: nf, Pause: 64}, {Kind: "remove-node", A: "m", Fault: nf, Pause: 64}}, map[string]any{"corpus": "removepod-down-nodes"})
	// create whose instance fails (store.AddWorkload, faultable call 4) runs the rollback of its allocation:
	// GetNode, pod lock, rmgr.RollbackAlloc, unlock (the lock events are part of the compared call sequence);
	// alone, and with RemoveNode of that node running completely right before the rollback / before the record removal
	runCase(t, r, 2, []opSpec{{Kind: "create", A: "n", Fault: 4, Pause: 64}}, map[string]any{"corpus": "create-rollback"})
	for _, pz := range []int{7, 8} {
		runCase(t, r, 2, []opSpec{{Kind: "create", A: "n", Fault: 4, Pause: pz}, {Kind: "remove-node", A: "n", Fault: nf, Pause: 64}}, map[string]any{"corpus": "create-rollback-removenode"})
	}
	runCase(t, r, 4, []opSpec{{Kind: "create", A: "n", Fault: 4, Pause: 8}, {Kind: "remove-node", A: "m", Fault: nf, Pause: 64}}, map[string]any{"corpus": "create-rollback-removenode"})
	emitted := 17
	gen := func() opSpec {
		switch rng.Intn(8) {
		case 0:
			return opSpec{Kind: "add-pod", A: []string{"p", "q"}[rng.Intn(2)]}
		case 1:
			return opSpec{Kind: "remove-pod", A: []string{"p", "q"}[rng.Intn(2)]}
		case 2, 3:
			return opSpec{Kind: "add-node", A: []string{"n", "m"}[rng.Intn(2)], B: []string{"p", "q"}[rng.Intn(2)]}
		case 4:
			return opSpec{Kind: "remove-node", A: []string{"n", "m"}[rng.Intn(2)]}
		case 5, 6:
			return opSpec{Kind: "create", A: []string{"n", "m"}[rng.Intn(2)]}
		}
		return opSpec{Kind: "remove-wl", A: "@w"}
	}
	for tries := 0; emitted < n && tries < 3*n; tries++ {
		world := rng.Intn(7)
		k := 1 + rng.Intn(2)
		if rng.Intn(6) == 0 {
			k = 3
		}
		ops := make([]opSpec, k)
		for i := range ops {
			ops[i] = gen()
			ops[i].Fault = -1
			ops[i].Pause = 64
		}
		if k >= 2 {
			ops[0].Pause = rng.Intn(8)
			if k == 3 && rng.Intn(2) == 0 {
				ops[2].Pause = rng.Intn(4)
			}
		}
		if rng.Intn(3) == 0 {
			ops[rng.Intn(k)].Fault = rng.Intn(8)
		}
		if runCase(t, r, world, ops, nil) {
			emitted++
		}
	}
	r.Finish("one case per run of 1-3 operations (add-pod, remove-pod, add-node, remove-node, create of one instance, remove-workload over pods p,q / nodes n,m) on a real Calcium with embedded etcd from one of seven initial worlds (two of them with down / bypassed nodes): phase 1 pauses operation i before its k_i-th relevant call, phase 2 lets the operations finish in order; optional single injected failure; corpus = the four refutation witnesses; schedules in which an operation would wait for a lock of a paused one are skipped; non-trivial = two or more operations or an injected failure")
}
