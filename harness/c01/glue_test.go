package c01

// Glue stream: cluster/calcium/resource.go doGetDeployStrategy, driven through the
// public Calcium.CalculateCapacity on a real Calcium whose store and resource
// manager are replaced (verif hooks VerifSetStore / VerifSetRmgr) by scripted
// mocks answering with a generated capacity map, deploy status and total.

import (
	"context"
	"errors"
	"fmt"
	"path/filepath"
	"testing"
	"time"

	"verifharness/vh"

	"github.com/projecteru2/core/cluster/calcium"
	enginefactory "github.com/projecteru2/core/engine/factory"
	lockmocks "github.com/projecteru2/core/lock/mocks"
	resourcemocks "github.com/projecteru2/core/resource/mocks"
	plugintypes "github.com/projecteru2/core/resource/plugins/types"
	storemocks "github.com/projecteru2/core/store/mocks"
	"github.com/projecteru2/core/strategy"
	"github.com/projecteru2/core/types"

	"github.com/stretchr/testify/mock"
)

type gluecase struct {
	Strategy string
	Need     int
	Limit    int
	Nodes    []string                                   // NodeFilter.Includes
	Caps     map[string]*plugintypes.NodeDeployCapacity // answer of GetNodesDeployCapacity
	Status   map[string]int                             // answer of GetDeployStatus
	Total    int
}

func newCalcium(t *testing.T) *calcium.Calcium {
	ctx := context.Background()
	cfg := types.Config{
		WALFile:             filepath.Join(t.TempDir(), "wal-c01"),
		HAKeepaliveInterval: 16 * time.Second,
		LockTimeout:         5 * time.Second,
		GlobalTimeout:       10 * time.Second,
		ConnectionTimeout:   2 * time.Second,
		MaxConcurrency:      32,
		Etcd:                types.EtcdConfig{Prefix: "/c01"},
	}
	enginefactory.InitEngineCache(ctx, cfg, nil)
	c, err := calcium.New(ctx, cfg, t)
	if err != nil {
		t.Fatal(err)
	}
	time.Sleep(300 * time.Millisecond) // let the one-shot InitMetrics use the real store
	return c
}

func runGlue(c *calcium.Calcium, g gluecase) (res string, class string, plan map[string]int, errText string) {
	ctx := context.Background()
	st := &storemocks.Store{}
	lk := &lockmocks.DistributedLock{}
	lk.On("Lock", mock.Anything).Return(ctx, nil)
	lk.On("Unlock", mock.Anything).Return(nil)
	st.On("CreateLock", mock.Anything, mock.Anything).Return(lk, nil)
	for _, n := range g.Nodes {
		st.On("GetNode", mock.Anything, n).Return(&types.Node{NodeMeta: types.NodeMeta{Name: n, Podname: "pod"}}, nil)
	}
	st.On("GetDeployStatus", mock.Anything, "app", "entry").Return(g.Status, nil)
	rm := &resourcemocks.Manager{}
	rm.On("GetNodesDeployCapacity", mock.Anything, mock.Anything, mock.Anything).Return(g.Caps, g.Total, nil)
	c.VerifSetStore(st)
	c.VerifSetRmgr(rm)
	opts := &types.DeployOptions{
		Name: "app", Entrypoint: &types.Entrypoint{Name: "entry"},
		DeployStrategy: g.Strategy, Count: g.Need, NodesLimit: g.Limit,
		NodeFilter: &types.NodeFilter{Includes: g.Nodes},
	}
	var o outcome
	func() {
		defer func() {
			if p := recover(); p != nil {
				o.panic = p
			}
		}()
		msg, err := c.CalculateCapacity(ctx, opts)
		o.err = err
		if err == nil && msg != nil {
			o.plan = msg.NodeCapacities
		}
	}()
	if o.err != nil && errors.Is(o.err, types.ErrAlreadyFilled) {
		return "(AlreadyFilled [])", "already-filled", nil, o.err.Error()
	}
	res, class = classify(o)
	if o.err != nil {
		errText = o.err.Error()
	}
	return res, class, o.plan, errText
}

func (g gen) glueCase() gluecase {
	s := strategies[g.intn(len(strategies))]
	n := 1 + g.intn(4)
	gc := gluecase{Strategy: s, Caps: map[string]*plugintypes.NodeDeployCapacity{}, Status: map[string]int{}}
	infos := g.infos(n, g.intn(2) == 0)
	for i, x := range infos {
		name := fmt.Sprintf("n%d", i)
		gc.Nodes = append(gc.Nodes, name)
		if g.intn(6) > 0 { // the manager reports only nodes with capacity
			gc.Caps[name] = &plugintypes.NodeDeployCapacity{Capacity: x.Capacity, Usage: x.Usage, Rate: x.Rate, Weight: 1}
		}
		switch g.intn(3) { // deploy status: absent, zero or positive
		case 0:
		case 1:
			gc.Status[name] = 0
		default:
			gc.Status[name] = x.Count
		}
	}
	if g.intn(4) == 0 {
		gc.Status["elsewhere"] = 3 // instances on a node that is not a candidate
	}
	var ci []strategy.Info
	for name, c := range gc.Caps {
		ci = append(ci, strategy.Info{Nodename: name, Capacity: c.Capacity, Count: gc.Status[name]})
	}
	gc.Total = satsum(ci)
	gc.Limit = g.pick(0, 0, 1, 2, 3)
	gc.Need = 1 + g.intn(10)
	if g.intn(2) == 0 && len(ci) > 0 {
		gc.Need = g.boundaryNeed(s, gc.Limit, ci)
	}
	if g.intn(15) == 0 {
		gc.Strategy = "NOPE"
	}
	if g.intn(15) == 0 {
		gc.Need = -g.intn(2)
	}
	return gc
}

func emitGlue(r *vh.Run, c *calcium.Calcium, g gluecase) {
	res, class, plan, errText := runGlue(c, g)
	caps := []string{}
	type jcap struct {
		Name     string
		Capacity int
		Usage    float64
		Rate     float64
	}
	jc := []jcap{}
	unlimited := false
	for _, k := range vh.SortedKeys(g.Caps) {
		e := g.Caps[k]
		caps = append(caps, fmt.Sprintf("(mkCapE %s %s %s %s)", coqStr(k), vh.ZI(e.Capacity), vh.F64(e.Usage), vh.F64(e.Rate)))
		jc = append(jc, jcap{k, e.Capacity, e.Usage, e.Rate})
		if e.Capacity == maxInt {
			unlimited = true
		}
	}
	term := fmt.Sprintf("(mkG %s %s %s %s %s %s %s)", coqStrategy(g.Strategy), vh.ZI(g.Need), vh.ZI(g.Limit),
		vh.List(caps), coqPlan(g.Status), vh.ZI(g.Total), res)
	desc := map[string]any{"strategy": g.Strategy, "need": g.Need, "limit": g.Limit, "nodes": g.Nodes, "capacities": jc,
		"deploy_status": g.Status, "total": g.Total, "outcome": class, "plan": plan, "error": errText}
	r.Count("strategy=" + coqStrategy(g.Strategy))
	r.Count("outcome=" + class)
	r.Count(fmt.Sprintf("candidates=%d", len(g.Caps)))
	tags := map[string]any{"strategy": g.Strategy, "n": len(g.Caps), "stream": "glue", "unlimited_capacity": unlimited,
		"need": g.Need, "limit": g.Limit}
	r.Add(term, desc, tags, len(g.Caps) >= 2 && class != "err-strategy" && class != "err-count")
}

func glueCorpus() []gluecase {
	capOf := func(c int, u, rt float64) *plugintypes.NodeDeployCapacity {
		return &plugintypes.NodeDeployCapacity{Capacity: c, Usage: u, Rate: rt, Weight: 1}
	}
	cs := []gluecase{}
	for _, s := range strategies {
		// counts come from the deploy status (n0 already runs 2), n2 has no capacity entry
		cs = append(cs, gluecase{s, 3, 0, []string{"n0", "n1", "n2"},
			map[string]*plugintypes.NodeDeployCapacity{"n0": capOf(4, 0.5, 0.125), "n1": capOf(4, 0.25, 0.125)},
			map[string]int{"n0": 2, "n2": 7}, 8})
		// limit binds through the deploy status
		cs = append(cs, gluecase{s, 2, 2, []string{"n0", "n1"},
			map[string]*plugintypes.NodeDeployCapacity{"n0": capOf(5, 0, 0.25), "n1": capOf(5, 0, 0.25)},
			map[string]int{"n0": 2, "n1": 1}, 10})
		// already filled
		cs = append(cs, gluecase{s, 1, 0, []string{"n0"},
			map[string]*plugintypes.NodeDeployCapacity{"n0": capOf(maxInt, 0, 0)}, map[string]int{"n0": 4}, maxInt})
		// empty capacity map
		cs = append(cs, gluecase{s, 1, 0, []string{"n0"}, map[string]*plugintypes.NodeDeployCapacity{}, map[string]int{}, 0})
	}
	return cs
}

func glueStream(t *testing.T, prop string) {
	r := vh.New(t, prop, "glue")
	okFn := "Strategy.Glue.gC01_ok"
	switch prop {
	case "C02":
		okFn = "Strategy.Glue.gC02_ok"
	case "C03":
		okFn = "Strategy.Glue.gC03_ok"
	}
	r.Coq("From Verif Require Import Base.GoFloat Strategy.Model Strategy.Glue.", "Strategy.Glue.gcase", "Strategy.Glue.gagree", okFn)
	r.Extra("Close Scope Z_scope.")
	r.Shard = 400
	c := newCalcium(t)
	g := gen{r}
	for _, gc := range glueCorpus() {
		emitGlue(r, c, gc)
	}
	n := r.N(150, 3000)
	for i := 0; i < n; i++ {
		emitGlue(r, c, g.glueCase())
	}
	r.Finish("glue doGetDeployStrategy through Calcium.CalculateCapacity with scripted store / resource-manager answers: " +
		"1-4 candidate nodes, capacity map covering a subset of the filtered nodes, deploy status absent/zero/positive and " +
		"with foreign nodes, total = saturating sum, half of the cases at the feasibility boundary; the model must " +
		"reproduce the result for SOME iteration order of the capacity map (all <= 24 permutations tried); " +
		"non-trivial = >= 2 candidates and not rejected by the strategy-name / count guard")
}
