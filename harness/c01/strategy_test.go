// Package c01 is the correspondence driver shared by C01, C02 and C03: it runs
// the real strategy.Deploy on generated candidate tables and emits every case,
// with what the implementation returned, as a Coq term for Strategy/Model.v.
package c01

import (
	"context"
	"errors"
	"fmt"
	"math"
	"sort"
	"strings"
	"testing"
	"time"

	"verifharness/deploypath"
	"verifharness/vh"

	"github.com/projecteru2/core/strategy"
	"github.com/projecteru2/core/types"
)

const maxInt = math.MaxInt64

type tcase struct {
	Strategy string
	Need     int
	Limit    int
	Infos    []strategy.Info
	Total    int
	Stream   string
}

func satsum(infos []strategy.Info) int {
	t := 0
	for _, x := range infos {
		if x.Capacity >= maxInt-t {
			return maxInt
		}
		t += x.Capacity
	}
	return t
}

func coqStrategy(s string) string {
	switch s {
	case strategy.Auto:
		return "Auto"
	case strategy.Fill:
		return "Fill"
	case strategy.Each:
		return "Each"
	case strategy.Global:
		return "Global"
	case strategy.Drained:
		return "Drained"
	}
	return "Other"
}

// coqStr emits a plain identifier-like name as a Coq string literal (cheap to
// type-check); anything else goes through vh.Str (byte list).
func coqStr(s string) string {
	for i := 0; i < len(s); i++ {
		c := s[i]
		if !(c >= 'a' && c <= 'z' || c >= 'A' && c <= 'Z' || c >= '0' && c <= '9' || c == '-' || c == '_') {
			return vh.Str(s)
		}
	}
	return "\"" + s + "\"%string"
}

func coqStrList(vs []string) string {
	out := make([]string, len(vs))
	for i, v := range vs {
		out[i] = coqStr(v)
	}
	return vh.List(out)
}

func coqInfo(x strategy.Info) string {
	return fmt.Sprintf("(mkInfo %s %s %s %s %s)", coqStr(x.Nodename), vh.F64(x.Usage), vh.F64(x.Rate), vh.ZI(x.Capacity), vh.ZI(x.Count))
}

func coqPlan(m map[string]int) string {
	items := []string{}
	for _, k := range vh.SortedKeys(m) {
		items = append(items, vh.Pair(coqStr(k), vh.ZI(m[k])))
	}
	return vh.List(items)
}

type outcome struct {
	plan  map[string]int
	err   error
	panic any
	late  bool
}

func runDeploy(c tcase, infos []strategy.Info) outcome {
	ch := make(chan outcome, 1)
	go func() {
		var o outcome
		defer func() {
			if p := recover(); p != nil {
				o.panic = p
			}
			ch <- o
		}()
		o.plan, o.err = strategy.Deploy(context.Background(), c.Strategy, c.Need, c.Limit, infos, c.Total)
	}()
	select {
	case o := <-ch:
		return o
	case <-time.After(3 * time.Second):
		return outcome{late: true}
	}
}

// classify maps what Deploy returned to the model's result type.
func classify(o outcome) (coq string, class string) {
	switch {
	case o.late:
		return "OutOfFuel", "timeout"
	case o.panic != nil:
		return "Panic", "panic"
	case o.err == nil:
		return "(Ok " + coqPlan(o.plan) + ")", "ok"
	case errors.Is(o.err, types.ErrAlreadyFilled):
		return "(AlreadyFilled " + coqPlan(o.plan) + ")", "already-filled"
	case errors.Is(o.err, types.ErrInvaildDeployStrategy):
		return "(Err EInvalidStrategy)", "err-strategy"
	case errors.Is(o.err, types.ErrInvaildDeployCount):
		return "(Err EInvalidCount)", "err-count"
	case errors.Is(o.err, types.ErrInsufficientResource):
		return "(Err EInsufficientResource)", "err-resource"
	case errors.Is(o.err, types.ErrInsufficientCapacity):
		return "(Err EInsufficientCapacity)", "err-capacity"
	}
	return "OutOfFuel", "err-unknown" // not representable: forces a mismatch
}

func hasDupNames(infos []strategy.Info) bool {
	seen := map[string]bool{}
	for _, x := range infos {
		if seen[x.Nodename] {
			return true
		}
		seen[x.Nodename] = true
	}
	return false
}

func emit(r *vh.Run, c tcase) {
	infos := make([]strategy.Info, len(c.Infos))
	copy(infos, c.Infos)
	o := runDeploy(c, infos)
	res, class := classify(o)
	after := make([]string, len(infos))
	for i, x := range infos {
		after[i] = x.Nodename
	}
	if o.late {
		after = nil
	}
	ins := make([]string, len(c.Infos))
	for i, x := range c.Infos {
		ins[i] = coqInfo(x)
	}
	term := fmt.Sprintf("(mkCase %s %s %s %s %s %s %s)", coqStrategy(c.Strategy), vh.ZI(c.Need), vh.ZI(c.Limit),
		vh.List(ins), vh.ZI(c.Total), res, coqStrList(after))
	type jinfo struct {
		Name     string
		Usage    float64
		Rate     float64
		Capacity int
		Count    int
	}
	jis := make([]jinfo, len(c.Infos))
	unlimited, unlimitedWithCount := false, false
	for i, x := range c.Infos {
		u, rt := x.Usage, x.Rate
		if math.IsNaN(u) || math.IsInf(u, 0) {
			u = -1
		}
		if math.IsNaN(rt) || math.IsInf(rt, 0) {
			rt = -1
		}
		jis[i] = jinfo{x.Nodename, u, rt, x.Capacity, x.Count}
		if x.Capacity == maxInt {
			unlimited = true
			if x.Count > 0 {
				unlimitedWithCount = true
			}
		}
	}
	desc := map[string]any{"strategy": c.Strategy, "need": c.Need, "limit": c.Limit, "total": c.Total, "infos": jis,
		"stream": c.Stream, "outcome": class, "plan": o.plan, "order_after": after}
	if o.err != nil {
		desc["error"] = o.err.Error()
	}
	if o.panic != nil {
		desc["panic"] = fmt.Sprint(o.panic)
	}
	nBucket := "n=0"
	switch n := len(c.Infos); {
	case n == 0:
	case n <= 3:
		nBucket = "n=1-3"
	case n <= 12:
		nBucket = "n=4-12"
	default:
		nBucket = "n>12"
	}
	r.Count("strategy=" + coqStrategy(c.Strategy))
	r.Count("outcome=" + class)
	r.Count(coqStrategy(c.Strategy) + "/" + class)
	r.Count(nBucket)
	r.Count("stream=" + c.Stream)
	if unlimited {
		r.Count("has-unlimited-capacity")
	}
	tags := map[string]any{"strategy": c.Strategy, "n": len(c.Infos), "stream": c.Stream,
		"unlimited_capacity": unlimited, "unlimited_capacity_with_count": unlimitedWithCount,
		"need": c.Need, "limit": c.Limit}
	firstGuard := class == "err-strategy" || class == "err-count" || (c.Total < c.Need && (c.Strategy == strategy.Auto || c.Strategy == strategy.Global || c.Strategy == strategy.Drained))
	r.Add(term, desc, tags, !firstGuard && len(c.Infos) >= 2 && c.Stream != "malformed")
}

// ---------------------------------------------------------------------------
// generators

var strategies = []string{strategy.Auto, strategy.Fill, strategy.Each, strategy.Global, strategy.Drained}

func mk(name string, usage, rate float64, cap, cnt int) strategy.Info {
	return strategy.Info{Nodename: name, Usage: usage, Rate: rate, Capacity: cap, Count: cnt}
}

func byCapCount(caps, cnts []int) []strategy.Info {
	out := []strategy.Info{}
	for i := range caps {
		out = append(out, mk(fmt.Sprintf("n%d", i), float64(i%3)/8, 0.125, caps[i], cnts[i]))
	}
	return out
}

func corpus() []tcase {
	cs := []tcase{}
	add := func(s string, need, limit int, infos []strategy.Info, total int) {
		cs = append(cs, tcase{s, need, limit, infos, total, "corpus"})
	}
	all := func(need, limit int, infos []strategy.Info) {
		for _, s := range strategies {
			add(s, need, limit, infos, satsum(infos))
		}
	}
	// witnesses of the two defects found while designing (DESIGN.md §7 #1, #10)
	add(strategy.Drained, 2, 0, []strategy.Info{mk("small", 0.1, 0.1, 1, 0), mk("big", 0.9, 0.1, 3, 0)}, 4)
	add(strategy.Drained, 2, 0, []strategy.Info{mk("big", 0.9, 0.1, 3, 0), mk("small", 0.1, 0.1, 1, 0)}, 4)
	add(strategy.Drained, 3, 0, []strategy.Info{mk("a", 0.5, 0.1, 2, 0), mk("b", 0.7, 0.1, 5, 0), mk("c", 0.2, 0.1, 1, 0)}, 8)
	add(strategy.Fill, 3, 0, []strategy.Info{mk("u", 0, 0, maxInt, 1)}, maxInt)
	add(strategy.Fill, 3, 1, []strategy.Info{mk("u", 0, 0, maxInt, 1), mk("v", 0, 0, 1, 0)}, maxInt)
	add(strategy.Fill, 5, 2, []strategy.Info{mk("u", 0, 0, maxInt, 2), mk("v", 0, 0, maxInt, 0), mk("w", 0, 0, 2, 1)}, maxInt)
	// outside the int64 domain: toDeploy (FILL) and Count++ (AUTO) wrap; the int64 twin must still agree
	add(strategy.Fill, maxInt, 0, []strategy.Info{mk("a", 0, 0, maxInt, 0), mk("b", 0, 0, maxInt, 0), mk("c", 0, 0, maxInt, maxInt-2)}, maxInt)
	add(strategy.Fill, maxInt, 2, []strategy.Info{mk("a", 0, 0, maxInt, 0), mk("b", 0, 0, maxInt, 1)}, maxInt)
	add(strategy.Auto, 4, 0, []strategy.Info{mk("a", 0, 0, 5, maxInt), mk("b", 0, 0, 5, maxInt-1)}, 10)
	add(strategy.Each, maxInt, 2, []strategy.Info{mk("a", 0, 0, maxInt, 0), mk("b", 0, 0, maxInt, 3), mk("c", 0, 0, 7, 0)}, maxInt)
	add(strategy.Drained, maxInt, 0, []strategy.Info{mk("a", 0.5, 0, maxInt, 0), mk("b", 0.25, 0, 9, 3)}, maxInt)
	// AUTO: the limit leaves a single eligible node whose capacity is below limit-count
	// while total still covers need (the heap runs down to / starts with one node)
	add(strategy.Auto, 4, 5, []strategy.Info{mk("a", 0, 0, 2, 0), mk("b", 0, 0, 10, 5)}, 12)
	add(strategy.Auto, 2, 5, []strategy.Info{mk("a", 0, 0, 2, 0), mk("b", 0, 0, 10, 5)}, 12)
	add(strategy.Auto, 3, 5, []strategy.Info{mk("a", 0, 0, 2, 0), mk("b", 0, 0, 10, 5)}, 12)
	add(strategy.Auto, 3, 4, []strategy.Info{mk("a", 0, 0, 1, 1), mk("b", 0, 0, maxInt, 4), mk("c", 0, 0, 7, 9)}, maxInt)
	add(strategy.Auto, 5, 6, []strategy.Info{mk("a", 0, 0, 2, 1), mk("b", 0, 0, 1, 2), mk("c", 0, 0, 9, 6)}, 12)
	add(strategy.Auto, 6, 0, []strategy.Info{mk("a", 0, 0, 1, 0), mk("b", 0, 0, 1, 0), mk("c", 0, 0, 3, 0)}, 5)
	// GLOBAL: per-instance shares far below 1e-9 (and denormal), equal usages: the balance is decided by them
	for _, rt := range []float64{1e-12, 3e-11, 4e-10, 6e-10, 2e-9, 1e-7, 5e-324, 1e-300} {
		add(strategy.Global, 12, 0, []strategy.Info{mk("a", 0.25, rt, 20, 0), mk("b", 0.25, rt, 20, 0), mk("c", 0.25, 2*rt, 20, 0)}, 60)
		add(strategy.Global, 9, 0, []strategy.Info{mk("a", 0, rt, 20, 0), mk("b", rt/2, rt, 4, 0), mk("c", 0.5, 0.125, 20, 0)}, 44)
	}
	// empty and singleton tables
	all(1, 0, nil)
	all(1, 1, nil)
	all(1, 0, []strategy.Info{mk("a", 0, 0, 1, 0)})
	all(2, 0, []strategy.Info{mk("a", 0, 0, 1, 0)})
	all(1, 2, []strategy.Info{mk("a", 0, 0, 1, 0)})
	// unlimited capacity everywhere
	all(7, 0, []strategy.Info{mk("a", 0.25, 0.125, maxInt, 0), mk("b", 0.5, 0.25, maxInt, 0), mk("c", 0.125, 0.5, maxInt, 0)})
	all(7, 2, []strategy.Info{mk("a", 0.25, 0.125, maxInt, 0), mk("b", 0.5, 0.25, 3, 0), mk("c", 0.125, 0.5, maxInt, 0)})
	all(7, 3, []strategy.Info{mk("a", 0.25, 0.125, maxInt, 1), mk("b", 0.5, 0.25, 3, 2), mk("c", 0.125, 0.5, maxInt, 5)})
	// tables of the repository's own tests
	all(10, 0, byCapCount([]int{10, 10, 10, 10}, []int{2, 3, 5, 7}))
	all(5, 0, byCapCount([]int{10, 10, 10, 10}, []int{2, 3, 5, 7}))
	all(15, 0, byCapCount([]int{10, 10, 10, 10}, []int{2, 3, 5, 7}))
	all(1, 0, byCapCount([]int{10, 10, 10, 10}, []int{2, 3, 5, 7}))
	all(4, 3, byCapCount([]int{1, 2, 3, 4, 5}, []int{3, 3, 3, 3, 3}))
	all(1, 3, byCapCount([]int{0, 10}, []int{0, 0}))
	all(3, 2, byCapCount([]int{4, 5, 6}, []int{1, 1, 1}))
	all(11, 5, byCapCount([]int{2, 4, 6, 8}, []int{5, 3, 1, 0}))
	all(20, 4, byCapCount([]int{10, 10, 10}, []int{1, 2, 3}))
	// AUTO: limit binds part-way; all ties
	all(6, 3, byCapCount([]int{5, 5, 5}, []int{2, 2, 2}))
	all(4, 3, byCapCount([]int{5, 5, 5}, []int{2, 2, 2}))
	all(3, 3, byCapCount([]int{5, 5, 5}, []int{2, 2, 2}))
	all(5, 2, byCapCount([]int{1, 1, 1, 1, 1, 1}, []int{1, 1, 1, 1, 1, 1}))
	all(6, 2, byCapCount([]int{1, 1, 1, 1, 1, 1}, []int{1, 1, 1, 1, 1, 1}))
	all(7, 2, byCapCount([]int{1, 1, 1, 1, 1, 1}, []int{1, 1, 1, 1, 1, 1}))
	// GLOBAL: equal keys reached by different splits; last-bit differences
	g := []strategy.Info{mk("a", 0.25, 0.25, 4, 0), mk("b", 0.375, 0.125, 4, 0), mk("c", 0.5, 0, 4, 0),
		mk("d", math.Nextafter(0.5, 1), 0, 4, 0), mk("e", 0.1, 0.2, 4, 0), mk("f", 0.2, 0.1, 4, 0)}
	all(9, 0, g)
	all(24, 0, g)
	all(25, 0, g)
	// DRAINED: equal capacities with different usage, equal usage with different capacities
	d := []strategy.Info{mk("a", 0.5, 0.1, 2, 0), mk("b", 0.7, 0.1, 2, 0), mk("c", 0.7, 0.1, 1, 0), mk("d", 0.1, 0.1, 9, 0),
		mk("e", 0.9, 0.1, 9, 0), mk("f", 0.9, 0.1, 3, 0)}
	for need := 1; need <= 27; need += 2 {
		add(strategy.Drained, need, 0, d, 26)
	}
	return cs
}

type gen struct{ r *vh.Run }

func (g gen) intn(n int) int { return g.r.Rng.Intn(n) }
func (g gen) pick(vs ...int) int { return vs[g.intn(len(vs))] }

func (g gen) float(tie bool) float64 {
	switch g.intn(6) {
	case 0:
		return float64(g.intn(9)) / 8 // dyadic, many ties
	case 1:
		return float64(g.intn(11)) / 10 // non-dyadic decimals
	case 2:
		f := float64(g.intn(9)) / 8
		if g.intn(2) == 0 {
			return math.Nextafter(f, 2)
		}
		return math.Nextafter(f, -1)
	case 3:
		return 0
	case 4:
		return float64(g.intn(101)) / 100
	}
	if tie {
		return 0.5
	}
	return g.r.Rng.Float64()
}

func (g gen) capacity() int {
	switch g.intn(10) {
	case 0:
		return 1
	case 1:
		return 2
	case 2:
		return 3
	case 3:
		return maxInt
	case 4:
		return 1 + g.intn(60)
	}
	return 1 + g.intn(8)
}

func (g gen) infos(n int, tieHeavy bool) []strategy.Info {
	out := make([]strategy.Info, n)
	tmplCap, tmplCnt := g.capacity(), g.intn(4)
	for i := range out {
		c, k := g.capacity(), g.intn(7)
		if tieHeavy && g.intn(2) == 0 {
			c = tmplCap
		}
		if tieHeavy && g.intn(2) == 0 {
			k = tmplCnt
		}
		out[i] = mk(fmt.Sprintf("node-%02d", i), g.float(tieHeavy), g.float(tieHeavy)/4, c, k)
	}
	g.r.Rng.Shuffle(n, func(i, j int) { out[i], out[j] = out[j], out[i] })
	return out
}

func roomOf(limit int, x strategy.Info) int {
	if limit > 0 {
		r := limit - x.Count
		if r < 0 {
			r = 0
		}
		if x.Capacity < r {
			r = x.Capacity
		}
		return r
	}
	return x.Capacity
}

func satAdd(a, b int) int {
	if b >= maxInt-a {
		return maxInt
	}
	return a + b
}

// boundaryNeed picks need at (or next to) the feasibility boundary of the strategy.
func (g gen) boundaryNeed(s string, limit int, infos []strategy.Info) int {
	delta := g.pick(-1, 0, 0, 1)
	b := 1
	switch s {
	case strategy.Auto:
		t := 0
		for _, x := range infos {
			t = satAdd(t, roomOf(limit, x))
		}
		b = t
	case strategy.Global, strategy.Drained:
		b = satsum(infos)
	case strategy.Each:
		caps := []int{}
		for _, x := range infos {
			caps = append(caps, x.Capacity)
		}
		sort.Sort(sort.Reverse(sort.IntSlice(caps)))
		l := limit
		if l == 0 {
			l = len(caps)
		}
		if l >= 1 && l <= len(caps) {
			b = caps[l-1]
		}
	case strategy.Fill:
		v := []int{}
		for _, x := range infos {
			v = append(v, satAdd(x.Count, x.Capacity))
		}
		sort.Sort(sort.Reverse(sort.IntSlice(v)))
		l := limit
		if l == 0 {
			l = len(v)
		}
		if l >= 1 && l <= len(v) {
			b = v[l-1]
		}
	}
	if b > 120 { // unlimited capacity: boundary out of reach, stay small
		return 1 + g.intn(40)
	}
	b += delta
	if b < 1 {
		b = 1
	}
	return b
}

func (g gen) random(stream string, bigOK bool) tcase {
	s := strategies[g.intn(len(strategies))]
	n := 1 + g.intn(12)
	switch g.intn(12) {
	case 0:
		n = 1 + g.intn(3)
	case 1:
		if bigOK { // long tables: pdqsort for the sort-based strategies, deeper heaps for AUTO/GLOBAL
			n = 13 + g.intn(30)
		}
	}
	infos := g.infos(n, g.intn(3) > 0)
	limit := g.pick(0, 0, 0, 1, 2, 3, 4, 5)
	if s == strategy.Auto && g.intn(3) == 0 {
		limit = 1 + g.intn(8)
	}
	need := 1 + g.intn(40)
	if (s == strategy.Each || s == strategy.Fill) && g.intn(10) < 7 {
		need = 1 + g.intn(7) // per-node amounts: keep most tables feasible
	}
	if s == strategy.Auto && limit > 0 && g.intn(10) < 6 {
		// a limit that binds on some nodes only
		maxc := 0
		for _, x := range infos {
			if x.Count > maxc {
				maxc = x.Count
			}
		}
		limit = maxc + g.intn(4)
		if limit == 0 {
			limit = 1
		}
		need = 1 + g.intn(12)
	}
	if stream == "boundary" {
		need = g.boundaryNeed(s, limit, infos)
	}
	if s == strategy.Global && need > 24 {
		need = 1 + need%24 // float-heavy model evaluation: keep the loop short
	}
	total := satsum(infos)
	if g.intn(12) == 0 { // caller passing a different total
		total = g.pick(0, need-1, need, need+1, total/2, maxInt)
	}
	return tcase{s, need, limit, infos, total, stream}
}

// autoLastNode: the per-node limit leaves few (often one) eligible nodes with little
// capacity, the others already reached the limit but still contribute to total.
func (g gen) autoLastNode() tcase {
	limit := 2 + g.intn(7)
	n := 2 + g.intn(5)
	infos := make([]strategy.Info, n)
	eligible := 1 + g.intn(2)
	if eligible > n-1 {
		eligible = n - 1
	}
	room := 0
	for i := range infos {
		if i < eligible {
			cnt := g.intn(limit - 1)        // < limit-1: at least 2 below the limit
			cp := 1 + g.intn(limit-cnt-1)    // capacity strictly below limit-cnt
			infos[i] = mk(fmt.Sprintf("node-%02d", i), g.float(true), g.float(true)/4, cp, cnt)
			room += cp
		} else {
			infos[i] = mk(fmt.Sprintf("node-%02d", i), g.float(true), g.float(true)/4, g.pick(5, 10, 30, maxInt), limit+g.intn(3))
		}
	}
	g.r.Rng.Shuffle(n, func(i, j int) { infos[i], infos[j] = infos[j], infos[i] })
	need := room + g.pick(-1, 0, 0, 1, 1, 2, 3)
	if need < 1 {
		need = 1
	}
	return tcase{strategy.Auto, need, limit, infos, satsum(infos), "auto-last-node"}
}

// globalTiny: usages (nearly) equal, per-instance shares between denormal and 1e-7,
// sometimes mixed with ordinary magnitudes; long loops.
func (g gen) globalTiny() tcase {
	n := 2 + g.intn(4)
	base := []float64{0, 0.25, 0.5, 1e-9, 0.1}[g.intn(5)]
	tiny := []float64{5e-324, 1e-300, 1e-15, 1e-12, 3e-11, 4e-10, 5e-10, 6e-10, 1e-9, 3e-9, 2e-8, 1e-7}
	infos := make([]strategy.Info, n)
	total := 0
	for i := range infos {
		rt := tiny[g.intn(len(tiny))] * float64(1+g.intn(3))
		u := base
		switch g.intn(4) {
		case 0:
			u = base + tiny[g.intn(len(tiny))]
		case 1:
			if g.intn(3) == 0 {
				rt = float64(1+g.intn(4)) / 16 // ordinary magnitude next to tiny ones
			}
		}
		cp := 3 + g.intn(25)
		infos[i] = mk(fmt.Sprintf("node-%02d", i), u, rt, cp, g.intn(3))
		total += cp
	}
	need := 8 + g.intn(17)
	if need > total {
		need = total
	}
	return tcase{strategy.Global, need, 0, infos, satsum(infos), "global-tiny"}
}

func (g gen) malformed() tcase {
	c := g.random("malformed", false)
	switch g.intn(10) {
	case 0:
		c.Strategy = []string{"DUMMY", "", "auto", "FILLX"}[g.intn(4)]
	case 1:
		c.Need = g.pick(0, -1, -5, math.MinInt64)
	case 2:
		c.Limit = g.pick(-1, -2, -100)
	case 3: // duplicate names
		if len(c.Infos) >= 2 {
			c.Infos[g.intn(len(c.Infos))].Nodename = c.Infos[0].Nodename
			c.Infos[len(c.Infos)-1].Nodename = c.Infos[0].Nodename
		}
	case 4: // zero / negative capacity
		for i := range c.Infos {
			if g.intn(2) == 0 {
				c.Infos[i].Capacity = g.pick(0, 0, -1, -3)
			}
		}
		c.Total = satsum0(c.Infos)
	case 5: // negative counts
		for i := range c.Infos {
			if g.intn(2) == 0 {
				c.Infos[i].Count = -g.intn(4)
			}
		}
	case 6: // NaN / Inf usage and rate
		for i := range c.Infos {
			switch g.intn(5) {
			case 0:
				c.Infos[i].Usage = math.NaN()
			case 1:
				c.Infos[i].Usage = math.Inf(1)
			case 2:
				c.Infos[i].Rate = math.Inf(-1)
			case 3:
				c.Infos[i].Rate = -0.25
			}
		}
	case 7: // huge need refused by the first guard
		c.Need = maxInt
		c.Total = g.pick(0, 5, maxInt-1)
	case 8: // limit larger than the table
		c.Limit = len(c.Infos) + 1 + g.intn(3)
	case 9: // negative zero usage
		for i := range c.Infos {
			if g.intn(2) == 0 {
				c.Infos[i].Usage = math.Copysign(0, -1)
			}
		}
	}
	return c
}

func satsum0(infos []strategy.Info) int {
	t := 0
	for _, x := range infos {
		if x.Capacity > 0 {
			t = satAdd(t, x.Capacity)
		}
	}
	return t
}

func TestStrategy(t *testing.T) {
	prop := vh.PropEnv("C01")
	r := vh.New(t, prop, "deploy")
	okFn := "Strategy.Model.C01_ok"
	switch prop {
	case "C02":
		okFn = "Strategy.Model.C02_ok"
	case "C03":
		okFn = "Strategy.Model.C03_ok"
	}
	// agreement is checked against the int64 twin of the model (Strategy/ModelW.v), which is
	// proved equal to the Z model on the validated domain (Strategy/ProofsW.v)
	r.Coq("From Verif Require Import Base.GoFloat Strategy.Model Strategy.ModelW.", "Strategy.Model.case", "Strategy.ModelW.agreeW", okFn)
	r.Extra("Close Scope Z_scope.") // Base.GoFloat opens it; vh.Str emits nat literals
	r.Shard = 250
	g := gen{r}
	for _, c := range corpus() {
		emit(r, c)
	}
	n := r.N(600, 20000)
	for i := 0; i < n; i++ {
		switch {
		case i%12 == 10:
			emit(r, g.autoLastNode())
		case i%12 == 11:
			emit(r, g.globalTiny())
		case i%10 < 4:
			emit(r, g.random("boundary", true))
		case i%10 < 9:
			emit(r, g.random("random", true))
		default:
			emit(r, g.malformed())
		}
	}
	r.Finish("corpus (defect witnesses, empty/singleton/unlimited tables, the repository's test tables, tie tables) " +
		"then 40% boundary-of-feasibility cases (need = feasibility threshold -1/0/+1), 50% random tables " +
		"(1-12 nodes, 1/12 with 13-42 nodes; capacities {1,2,3,small,MaxInt}, counts 0-6, " +
		"need 1-40, limit 0-5, dyadic/decimal/last-bit-perturbed floats, tie-heavy), 1/12 AUTO tables where the limit leaves one or two low-capacity eligible nodes while total covers need, 1/12 GLOBAL tables with per-instance shares from denormal to 1e-7 and (nearly) equal usages, 10% malformed (unknown strategy, " +
		"count<=0, negative limit, duplicate names, zero/negative capacity, negative count, NaN/Inf, huge need); " +
		"non-trivial = valid-stream case with >= 2 candidates not rejected by the first guard (strategy name, count, total<need). " +
		"Strategies: " + strings.Join(strategies, ","))
	glueStream(t, prop)
	if prop == "C01" || prop == "C03" {
		// the composed deploy path on a real Calcium (coq/Calcium/DeployPath.v)
		deploypath.Stream(t, prop, 50, 600)
	}
}
