// Package locklog is the shared part of the C18 / C19 correspondence harnesses:
// the client-visible event log (coq/Locks/LockLog.v, type cev), the two
// backends the real store.CreateLock is run against (one embedded etcd cluster
// with a watch on the lock prefix as ground truth for the mutation order; one
// miniredis per run), error canonicalisation and panic-safe calls.
package locklog

import (
	"context"
	"errors"
	"fmt"
	"net"
	"os"
	"path/filepath"
	"reflect"
	"sort"
	"strconv"
	"strings"
	"sync"
	"testing"
	"time"
	"unsafe"

	"verifharness/vh"

	"github.com/alicebob/miniredis/v2"
	goredis "github.com/go-redis/redis/v8"
	"github.com/muroq/redislock"
	"github.com/projecteru2/core/cluster/calcium"
	enginefactory "github.com/projecteru2/core/engine/factory"
	"github.com/projecteru2/core/lock"
	"github.com/projecteru2/core/lock/etcdlock"
	resourcetypes "github.com/projecteru2/core/resource/types"
	"github.com/projecteru2/core/store/etcdv3"
	"github.com/projecteru2/core/store/etcdv3/embedded"
	"github.com/projecteru2/core/store/redis"
	"github.com/projecteru2/core/types"
	clientv3 "go.etcd.io/etcd/client/v3"
	"go.etcd.io/etcd/client/v3/concurrency"
	"go.etcd.io/etcd/tests/v3/integration"
	"google.golang.org/grpc/codes"
	"google.golang.org/grpc/status"
)

// ---------------------------------------------------------------- event log

// Ev is one client-visible event (LockLog.cev) with its wall-clock time.
type Ev struct {
	Ms   int64  `json:"ms"`
	Kind string `json:"kind"`          // ECall EEnter EFail EExit EURet ELose ELost ECtx
	I    int    `json:"i"`             // contender
	Arg  string `json:"arg,omitempty"` // OpLock|OpTry, FBusy|FTimeout|FExpired|FOther, CtxLive|CtxSessionDone|CtxOther
	D    int64  `json:"d,omitempty"`   // ELose: virtual milliseconds
}

// Coq prints the event as a LockLog.cev term.
func (e Ev) Coq() string {
	switch e.Kind {
	case "ECall", "EFail", "ECtx":
		return fmt.Sprintf("%s %s %s", e.Kind, vh.Nat(e.I), e.Arg)
	case "ELose":
		return fmt.Sprintf("ELose %s %s", vh.Nat(e.I), vh.Z(e.D))
	default:
		return fmt.Sprintf("%s %s", e.Kind, vh.Nat(e.I))
	}
}

// CoqLog prints a log as a Coq list of pairs (ms, event).
func CoqLog(evs []Ev) string {
	items := make([]string, len(evs))
	for i, e := range evs {
		items[i] = vh.Pair(vh.Z(e.Ms), e.Coq())
	}
	return vh.List(items)
}

// Log is the single mutex-protected event log of a run; the position of an
// event in the slice is its global sequence number.
type Log struct {
	mu    sync.Mutex
	start time.Time
	evs   []Ev
}

func NewLog() *Log { return &Log{start: time.Now()} }

func (l *Log) add(e Ev) {
	l.mu.Lock()
	e.Ms = time.Since(l.start).Milliseconds()
	l.evs = append(l.evs, e)
	l.mu.Unlock()
}

func (l *Log) Call(i int, op string) { l.add(Ev{Kind: "ECall", I: i, Arg: op}) }
func (l *Log) Enter(i int)           { l.add(Ev{Kind: "EEnter", I: i}) }
func (l *Log) Fail(i int, f string)  { l.add(Ev{Kind: "EFail", I: i, Arg: f}) }
func (l *Log) Exit(i int)            { l.add(Ev{Kind: "EExit", I: i}) }
func (l *Log) URet(i int)            { l.add(Ev{Kind: "EURet", I: i}) }
func (l *Log) Lose(i int, d int64)   { l.add(Ev{Kind: "ELose", I: i, D: d}) }
func (l *Log) Lost(i int)            { l.add(Ev{Kind: "ELost", I: i}) }
func (l *Log) Ctx(i int, c string)   { l.add(Ev{Kind: "ECtx", I: i, Arg: c}) }
func (l *Log) Events() []Ev {
	l.mu.Lock()
	defer l.mu.Unlock()
	return append([]Ev(nil), l.evs...)
}

// Contention: some contender issued its call while another one was active
// (between its call and its Unlock return / failure) — LockLog.overlaps.
func Contention(evs []Ev) bool { return ContentionExcept(evs, nil) }

// ContentionExcept is Contention without the contenders in skip (contenders
// that fail by themselves, e.g. called with a cancelled context).
func ContentionExcept(evs []Ev, skip map[int]bool) bool {
	active := map[int]bool{}
	for _, e := range evs {
		if skip[e.I] {
			continue
		}
		switch e.Kind {
		case "ECall":
			if len(active) > 0 {
				return true
			}
			active[e.I] = true
		case "EFail", "EURet":
			delete(active, e.I)
		}
	}
	return false
}

// Outcome of contender i's call: enter | busy | timeout | expired | other | none.
func Outcome(evs []Ev, i int) string {
	for _, e := range evs {
		if e.I != i {
			continue
		}
		switch e.Kind {
		case "EEnter":
			return "enter"
		case "EFail":
			return strings.ToLower(strings.TrimPrefix(e.Arg, "F"))
		}
	}
	return "none"
}

// ---------------------------------------------------------------- calls

const (
	OpLock = "OpLock"
	OpTry  = "OpTry"
)

// Acquire invokes Lock / TryLock, converting a panic into panicked = true.
func Acquire(ctx context.Context, lk lock.DistributedLock, op string) (rctx context.Context, err error, panicked bool) {
	defer func() {
		if p := recover(); p != nil {
			rctx, err, panicked = nil, fmt.Errorf("panic: %v", p), true
		}
	}()
	if op == OpTry {
		rctx, err = lk.TryLock(ctx)
	} else {
		rctx, err = lk.Lock(ctx)
	}
	return
}

// Unlock invokes Unlock, converting a panic into an error.
func Unlock(ctx context.Context, lk lock.DistributedLock) (err error) {
	defer func() {
		if p := recover(); p != nil {
			err = fmt.Errorf("panic: %v", p)
		}
	}()
	return lk.Unlock(ctx)
}

// ClassifyFail canonicalises the error of a failed Lock / TryLock by operation.
func ClassifyFail(op string, err error, panicked bool) string {
	if panicked || err == nil {
		return "FOther"
	}
	if errors.Is(err, concurrency.ErrSessionExpired) {
		return "FExpired"
	}
	// the caller's own context was cancelled: the call's context is done, same
	// class as its deadline having passed
	if errors.Is(err, context.Canceled) || status.Code(err) == codes.Canceled {
		return "FTimeout"
	}
	switch op {
	case OpTry:
		if errors.Is(err, concurrency.ErrLocked) || errors.Is(err, redislock.ErrNotObtained) {
			return "FBusy"
		}
		// the deadline fired inside the tryAcquire RPC (lost reply, EtcdLock.LAcqLost)
		if errors.Is(err, context.DeadlineExceeded) || status.Code(err) == codes.DeadlineExceeded {
			return "FTimeout"
		}
	case OpLock:
		if errors.Is(err, context.DeadlineExceeded) || errors.Is(err, redislock.ErrNotObtained) ||
			errors.Is(err, os.ErrDeadlineExceeded) || status.Code(err) == codes.DeadlineExceeded {
			return "FTimeout"
		}
		var ne net.Error
		if errors.As(err, &ne) && ne.Timeout() {
			return "FTimeout"
		}
	}
	return "FOther"
}

// CtxState waits at most [wait] for Done() of the context returned by
// Lock/TryLock and canonicalises what an observer then sees (LockLog.cerr):
//
//	CtxSessionDone  Done() is closed and Err() is ErrLockSessionDone
//	CtxErrOpen      Err() already reports ErrLockSessionDone but Done() is not
//	                closed (the etcd lockContext's Err() can report the error
//	                before the context is cancelled: the holder is not woken up)
//	CtxCanceled     Done() is closed and Err() is context.Canceled (what a
//	                context derived from a cancelled one looks like)
//	CtxLive         Done() not closed, Err() == nil
//	CtxOther        anything else
func CtxState(ctx context.Context, wait time.Duration) string {
	c, _ := CtxStateAt(ctx, wait)
	return c
}

// CtxStateAt is CtxState that also reports when Done() was seen closed (zero
// time if it was not).
func CtxStateAt(ctx context.Context, wait time.Duration) (state string, doneAt time.Time) {
	defer func() {
		if state == "CtxSessionDone" || state == "CtxCanceled" {
			return
		}
		doneAt = time.Time{}
	}()
	state = ctxState(ctx, wait, &doneAt)
	return
}

func ctxState(ctx context.Context, wait time.Duration, doneAt *time.Time) string {
	if ctx == nil {
		return "CtxOther"
	}
	closed := func(grace time.Duration) bool {
		if grace <= 0 {
			select {
			case <-ctx.Done():
				return true
			default:
				return false
			}
		}
		tm := time.NewTimer(grace)
		defer tm.Stop()
		select {
		case <-ctx.Done():
			return true
		case <-tm.C:
			return false
		}
	}
	done := closed(wait)
	*doneAt = time.Now()
	err := ctx.Err()
	sessionDone := errors.Is(err, types.ErrLockSessionDone)
	if !done && sessionDone {
		// setError and the deferred cancel are two steps of the watcher
		// goroutine: do not mistake the instant between them for "not woken up"
		done = closed(10 * time.Millisecond)
		*doneAt = time.Now()
	}
	switch {
	case done && sessionDone:
		return "CtxSessionDone"
	case done && errors.Is(err, context.Canceled):
		return "CtxCanceled"
	case !done && sessionDone:
		return "CtxErrOpen"
	case !done && err == nil:
		return "CtxLive"
	}
	return "CtxOther"
}

// ---------------------------------------------------------------- etcd

// Mut is one mutation of a key under the lock prefix reported by the watch.
type Mut struct {
	Put bool  `json:"put"`
	I   int   `json:"i"`
	Rev int64 `json:"rev,omitempty"` // store revision of the mutation (diagnosis / ordering across prefixes; not emitted)
}

func CoqMuts(ms []Mut) string {
	items := make([]string, len(ms))
	for k, m := range ms {
		if m.Put {
			items[k] = "MPut " + vh.Nat(m.I)
		} else {
			items[k] = "MDel " + vh.Nat(m.I)
		}
	}
	return vh.List(items)
}

// Etcd is the one embedded cluster of a test and the real store on top of it.
type Etcd struct {
	M   *etcdv3.Mercury
	Cli *clientv3.Client
	C   *calcium.Calcium // optional: a Calcium on the same cluster / namespace (set by the test)

	hbMu       sync.Mutex
	hb         []hbSample
	hbInflight time.Time
}

const (
	etcdPrefix = "/verif"
	lockPrefix = "__lock__"
)

func NewEtcd(t *testing.T) (*Etcd, error) {
	cfg := types.Config{}
	cfg.Etcd.Prefix = etcdPrefix
	cfg.Etcd.LockPrefix = lockPrefix
	cfg.MaxConcurrency = 1000
	args := os.Args // embedded.NewCluster overwrites os.Args
	m, err := etcdv3.New(cfg, t)
	os.Args = args
	if err != nil {
		return nil, err
	}
	// the same namespaced client the store uses (cached per t.Name())
	cli := embedded.NewCluster(t, cfg.Etcd.Prefix).RandClient()
	e := &Etcd{M: m, Cli: cli}
	hctx, hcancel := context.WithCancel(context.Background())
	hdone := make(chan struct{})
	go e.heartbeat(hctx, hdone)
	// registered after the cluster's own cleanup, hence runs before it
	t.Cleanup(func() { hcancel(); <-hdone })
	return e, nil
}

// ---- environment health: write-latency heartbeat ----
//
// The embedded cluster shares the machine with everything else; when it stalls
// (fsync, CPU starvation) for longer than a contender's wait time-out, the
// time-out fires inside an RPC, which the model deliberately leaves out.  A
// single goroutine measures the latency of a small write to a key OUTSIDE the
// lock prefix every 10 ms; a run during which some write took longer than the
// caller's threshold is declared "stalled" (independently of what the
// contenders observed) and may be repeated by the caller.

type hbSample struct {
	start time.Time
	lat   time.Duration
}

func (e *Etcd) heartbeat(ctx context.Context, done chan struct{}) {
	defer close(done)
	for ctx.Err() == nil {
		t0 := time.Now()
		e.hbMu.Lock()
		e.hbInflight = t0
		e.hbMu.Unlock()
		pctx, cancel := context.WithTimeout(ctx, 10*time.Second)
		_, err := e.Cli.Put(pctx, "/__heartbeat__", "")
		cancel()
		lat := time.Since(t0)
		if err != nil && ctx.Err() == nil {
			lat = 10 * time.Second
		}
		e.hbMu.Lock()
		e.hb = append(e.hb, hbSample{t0, lat})
		e.hbInflight = time.Time{}
		e.hbMu.Unlock()
		select {
		case <-ctx.Done():
		case <-time.After(10 * time.Millisecond):
		}
	}
}

// MaxLatency is the largest heartbeat write latency observed in [from, to].
func (e *Etcd) MaxLatency(from, to time.Time) time.Duration {
	e.hbMu.Lock()
	defer e.hbMu.Unlock()
	var max time.Duration
	for k := len(e.hb) - 1; k >= 0; k-- {
		s := e.hb[k]
		if s.start.Add(s.lat).Before(from) {
			break // samples are sequential: all earlier ones ended earlier
		}
		if s.start.After(to) {
			continue
		}
		if s.lat > max {
			max = s.lat
		}
	}
	if !e.hbInflight.IsZero() && e.hbInflight.Before(to) {
		if d := time.Since(e.hbInflight); d > max {
			max = d
		}
	}
	return max
}

// EtcdRun is one run: N lock objects on one fresh key, their leases, the watch.
type EtcdRun struct {
	env    *Etcd
	pfx    string
	Locks  []lock.DistributedLock
	Leases []clientv3.LeaseID
	Single bool // single-contender run: every key under the prefix belongs to contender 0
	wch    clientv3.WatchChan
	cancel context.CancelFunc
}

// NewRun creates the lock objects sequentially through the real
// store.CreateLock (contender index = creation order), reads each one's session
// lease from the lock object (EtcdLease), and starts the watch on the lock
// prefix from the current revision.
func (e *Etcd) NewRun(key string, ttls []time.Duration) (*EtcdRun, error) {
	ctx, cancel := context.WithTimeout(context.Background(), 20*time.Second)
	defer cancel()
	r := &EtcdRun{env: e, pfx: "/" + lockPrefix + "/" + key + "/"}

	for _, ttl := range ttls {
		lk, err := e.M.CreateLock(key, ttl)
		if err != nil {
			return r, err
		}
		r.Locks = append(r.Locks, lk)
		// the session lease of the new lock object (leases cannot be told apart
		// by listing them: other runs grant leases concurrently)
		id, ok := EtcdLease(lk)
		if !ok {
			return r, errors.New("lock object without a session lease")
		}
		r.Leases = append(r.Leases, id)
	}

	resp, err := e.Cli.Get(ctx, r.pfx, clientv3.WithPrefix(), clientv3.WithCountOnly())
	if err != nil {
		return r, err
	}
	if resp.Count != 0 {
		return r, fmt.Errorf("lock prefix %s not empty", r.pfx)
	}
	wctx, wcancel := context.WithCancel(context.Background())
	r.cancel = wcancel
	r.wch = e.Cli.Watch(wctx, r.pfx, clientv3.WithPrefix(), clientv3.WithRev(resp.Header.Revision+1))
	return r, nil
}

// Revoke revokes contender i's session lease through the cluster client.
func (r *EtcdRun) Revoke(ctx context.Context, i int) error {
	_, err := r.env.Cli.Revoke(ctx, r.Leases[i])
	return err
}

// Close releases the sessions of lock objects that were never used (Unlock
// closes the session) — only for aborted runs — and stops the watch.
func (r *EtcdRun) Close() {
	if r.cancel != nil {
		r.cancel()
	}
}

// Finish puts a sentinel key under the prefix and reads the watch until it
// arrives: everything before it is the complete mutation history of the run, in
// revision order, with leases renamed to contender indices.
func (r *EtcdRun) Finish() (muts []Mut, err error) {
	defer r.Close()
	ctx, cancel := context.WithTimeout(context.Background(), 10*time.Second)
	defer cancel()
	sentinel := r.pfx + "zz-sentinel"
	if _, err = r.env.Cli.Put(ctx, sentinel, ""); err != nil {
		return nil, err
	}
	defer func() {
		dctx, dcancel := context.WithTimeout(context.Background(), 5*time.Second)
		defer dcancel()
		_, _ = r.env.Cli.Delete(dctx, sentinel)
	}()
	idx := map[clientv3.LeaseID]int{}
	for i, l := range r.Leases {
		idx[l] = i
	}
	for {
		select {
		case <-ctx.Done():
			return nil, errors.New("watch: sentinel not delivered")
		case wr, ok := <-r.wch:
			if !ok {
				return nil, errors.New("watch: channel closed")
			}
			if werr := wr.Err(); werr != nil {
				return nil, werr
			}
			for _, ev := range wr.Events {
				k := string(ev.Kv.Key)
				if k == sentinel {
					if ev.Type == clientv3.EventTypePut {
						return muts, nil
					}
					continue
				}
				var lease clientv3.LeaseID
				if ev.Type == clientv3.EventTypePut {
					lease = clientv3.LeaseID(ev.Kv.Lease)
				} else {
					hex := k[strings.LastIndex(k, "/")+1:]
					v, perr := strconv.ParseInt(hex, 16, 64)
					if perr != nil {
						return nil, fmt.Errorf("watch: key %q", k)
					}
					lease = clientv3.LeaseID(v)
				}
				i, known := idx[lease]
				if r.Single {
					i, known = 0, true
				}
				if !known {
					return nil, fmt.Errorf("watch: unknown lease in key %q", k)
				}
				muts = append(muts, Mut{Put: ev.Type == clientv3.EventTypePut, I: i, Rev: ev.Kv.ModRevision})
			}
		}
	}
}

// ---------------------------------------------------------------- cluster level (Calcium)

// NewCalcium builds a real *calcium.Calcium (calcium.New, mock engine) on the
// backend.  etcd: the same embedded cluster, key namespace and lock prefix as
// NewEtcd (calcium.New with the same *testing.T reuses the cached cluster), so
// the watch / heartbeat / cluster client of the Etcd environment apply.  redis:
// a fresh miniredis (returned) with lock prefix "lock".
func NewCalcium(t *testing.T, backend string, lockTimeout time.Duration) (*calcium.Calcium, *miniredis.Miniredis, error) {
	ctx := context.Background()
	cfg := types.Config{
		WALFile:             filepath.Join(t.TempDir(), "wal-"+backend),
		HAKeepaliveInterval: 16 * time.Second,
		LockTimeout:         lockTimeout,
		GlobalTimeout:       10 * time.Second,
		ConnectionTimeout:   2 * time.Second,
		MaxConcurrency:      64,
		Etcd:                types.EtcdConfig{Prefix: etcdPrefix, LockPrefix: lockPrefix},
	}
	var mr *miniredis.Miniredis
	if backend == "redis" {
		var err error
		if mr, err = miniredis.Run(); err != nil {
			return nil, nil, err
		}
		t.Cleanup(mr.Close)
		cfg.Store = types.Redis
		cfg.Redis = types.RedisConfig{Addr: mr.Addr(), LockPrefix: "lock"}
	}
	enginefactory.InitEngineCache(ctx, cfg, nil)
	args := os.Args
	c, err := calcium.New(ctx, cfg, t)
	os.Args = args
	return c, mr, err
}

// AddPodNode puts a pod and one mock-engine node into the store.
func AddPodNode(c *calcium.Calcium, pod, node string) error {
	ctx, cancel := context.WithTimeout(context.Background(), 20*time.Second)
	defer cancel()
	if _, err := c.AddPod(ctx, pod, ""); err != nil {
		return err
	}
	_, err := c.AddNode(ctx, &types.AddNodeOptions{Nodename: node, Endpoint: "mock://" + node, Podname: pod,
		Resources: resourcetypes.Resources{"cpumem": resourcetypes.RawParams{"cpu": 8, "memory": int64(1 << 30)}}})
	return err
}

// EtcdLease reads the session lease of an etcd lock object made inside the
// code under test (doLock creates it at call time): the unexported field
// `session *concurrency.Session` of *etcdlock.Mutex, through reflect + unsafe.
func EtcdLease(lk lock.DistributedLock) (id clientv3.LeaseID, ok bool) {
	defer func() {
		if recover() != nil {
			id, ok = 0, false
		}
	}()
	m, isM := lk.(*etcdlock.Mutex)
	if !isM || m == nil {
		return 0, false
	}
	f := reflect.ValueOf(m).Elem().FieldByName("session")
	if !f.IsValid() {
		return 0, false
	}
	sess := *(**concurrency.Session)(unsafe.Pointer(f.UnsafeAddr()))
	if sess == nil {
		return 0, false
	}
	return sess.Lease(), true
}

// RankByLease returns, for provisional contender ids 0..n-1 with the given
// leases, each one's rank among the run's leases (etcd lease ids grow in grant
// order; the model creates its contenders in that order) and the leases in rank
// order.
func RankByLease(leases []clientv3.LeaseID) (rank []int, sorted []clientv3.LeaseID) {
	sorted = append([]clientv3.LeaseID(nil), leases...)
	sort.Slice(sorted, func(a, b int) bool { return sorted[a] < sorted[b] })
	rank = make([]int, len(leases))
	for i, l := range leases {
		rank[i] = sort.Search(len(sorted), func(k int) bool { return sorted[k] >= l })
	}
	return rank, sorted
}

// Renumber renames the contenders of a log.
func Renumber(evs []Ev, rank []int) []Ev {
	out := make([]Ev, len(evs))
	for k, e := range evs {
		e.I = rank[e.I]
		out[k] = e
	}
	return out
}

// LeaseUnder returns the lease of the (single) key under the prefix, read
// through the cluster client.
func (e *Etcd) LeaseUnder(ctx context.Context, pfx string) (clientv3.LeaseID, error) {
	resp, err := e.Cli.Get(ctx, pfx, clientv3.WithPrefix())
	if err != nil {
		return 0, err
	}
	if len(resp.Kvs) != 1 {
		return 0, fmt.Errorf("%d keys under %s", len(resp.Kvs), pfx)
	}
	return clientv3.LeaseID(resp.Kvs[0].Lease), nil
}

// Pfx is the key prefix of the run's lock.
func (r *EtcdRun) Pfx() string { return r.pfx }

// ---------------------------------------------------------------- etcd behind a bridge (partition runs)

// Bridged is a second single-member integration cluster whose client traffic
// goes through a bridge that can be black-holed (network partition).  It must
// be created after NewEtcd (which puts the test into etcd's integration test
// context; BeforeTestExternal may be called only once per test).
type Bridged struct {
	Clus *integration.ClusterV3
	Cli  *clientv3.Client // not namespaced
}

func NewBridged(t *testing.T) (*Bridged, error) {
	// The integration framework names a member's unix sockets after the member
	// ("localhost:m0", bridge "localhost:m00") RELATIVE to the working
	// directory, so a second cluster needs its own directory, and the bridge
	// re-dials the member by that relative name after every heal: the working
	// directory stays this one for the rest of the test (BeforeTest's cleanup
	// restores the original one).  The first cluster's client is already
	// connected and does not re-dial.
	if err := os.Chdir(t.TempDir()); err != nil {
		return nil, err
	}
	clus := integration.NewClusterV3(t, &integration.ClusterConfig{Size: 1, UseBridge: true})
	t.Cleanup(func() { clus.Terminate(t) })
	return &Bridged{Clus: clus, Cli: clus.RandClient()}, nil
}

func (b *Bridged) Blackhole()   { b.Clus.Members[0].Bridge().Blackhole() }
func (b *Bridged) Unblackhole() { b.Clus.Members[0].Bridge().Unblackhole() }

// Revision is the current store revision (to be recorded before a run).
func (b *Bridged) Revision(pfx string) (int64, error) {
	ctx, cancel := context.WithTimeout(context.Background(), 10*time.Second)
	defer cancel()
	resp, err := b.Cli.Get(ctx, pfx, clientv3.WithPrefix(), clientv3.WithCountOnly())
	if err != nil {
		return 0, err
	}
	if resp.Count != 0 {
		return 0, fmt.Errorf("lock prefix %s not empty", pfx)
	}
	return resp.Header.Revision, nil
}

// History reads, after the partition is healed, the mutations of the keys
// under pfx since startRev as OBSERVED through a watch from that revision (etcd
// keeps the history, so the PUT and the lease-expiry DELETE that happened
// during the partition are replayed).  It first waits (at most 10 s) until no
// key is left under the prefix, then uses the sentinel technique.  Single
// contender: every key under the prefix belongs to contender 0.
func (b *Bridged) History(pfx string, startRev int64) (muts []Mut, err error) {
	ctx, cancel := context.WithTimeout(context.Background(), 25*time.Second)
	defer cancel()
	gone := false
	for dl := time.Now().Add(10 * time.Second); time.Now().Before(dl); time.Sleep(100 * time.Millisecond) {
		gctx, gcancel := context.WithTimeout(ctx, 2*time.Second)
		resp, gerr := b.Cli.Get(gctx, pfx, clientv3.WithPrefix(), clientv3.WithCountOnly())
		gcancel()
		if gerr == nil && resp.Count == 0 {
			gone = true
			break
		}
	}
	if !gone {
		return nil, errors.New("history: lock key still present 10 s after the heal")
	}
	sentinel := pfx + "zz-sentinel"
	if _, err = b.Cli.Put(ctx, sentinel, ""); err != nil {
		return nil, err
	}
	defer func() {
		dctx, dcancel := context.WithTimeout(context.Background(), 5*time.Second)
		defer dcancel()
		_, _ = b.Cli.Delete(dctx, sentinel)
	}()
	wctx, wcancel := context.WithCancel(ctx)
	defer wcancel()
	wch := b.Cli.Watch(wctx, pfx, clientv3.WithPrefix(), clientv3.WithRev(startRev+1))
	for {
		select {
		case <-ctx.Done():
			return nil, errors.New("history: sentinel not delivered")
		case wr, ok := <-wch:
			if !ok {
				return nil, errors.New("history: watch channel closed")
			}
			if werr := wr.Err(); werr != nil {
				return nil, werr
			}
			for _, ev := range wr.Events {
				if string(ev.Kv.Key) == sentinel {
					if ev.Type == clientv3.EventTypePut {
						return muts, nil
					}
					continue
				}
				muts = append(muts, Mut{Put: ev.Type == clientv3.EventTypePut, I: 0})
			}
		}
	}
}

// ---------------------------------------------------------------- redis

// RedisRun is one run: its own miniredis (virtual TTL clock), the real redis
// store on top of it and N lock objects on one key.
type RedisRun struct {
	S     *miniredis.Miniredis
	Locks []lock.DistributedLock
}

func NewRedisRun(key string, ttls []time.Duration) (*RedisRun, error) {
	s, err := miniredis.Run()
	if err != nil {
		return nil, err
	}
	cfg := types.Config{}
	cfg.Redis.Addr = s.Addr()
	cfg.Redis.LockPrefix = "lock"
	cfg.MaxConcurrency = 16
	st, err := redis.New(cfg, nil)
	if err != nil {
		s.Close()
		return nil, err
	}
	r := &RedisRun{S: s}
	for _, ttl := range ttls {
		lk, err := st.CreateLock(key, ttl)
		if err != nil {
			s.Close()
			return nil, err
		}
		r.Locks = append(r.Locks, lk)
	}
	return r, nil
}

func (r *RedisRun) Close() { r.S.Close() }

// Unacceptable is the log emitted when the infrastructure of a run failed: it
// is rejected by both acceptors (a failure of an idle contender).
func Unacceptable() []Ev { return []Ev{{Ms: 0, Kind: "EFail", I: 0, Arg: "FOther"}} }

// ---------------------------------------------------------------- timing validation

// Probe validates the wall-clock measurements of a run independently of what
// the contenders observe: a goroutine that sleeps 5 ms at a time records the
// largest gap between two wake-ups (scheduling / GC / CPU starvation of this
// process), and, for redis, a second one times a PING against the run's
// miniredis every 5 ms (latency of the in-process server as seen by a client).
type Probe struct {
	stop     chan struct{}
	wg       sync.WaitGroup
	mu       sync.Mutex
	gap, lat time.Duration
}

func StartProbe(redisAddr string) *Probe {
	p := &Probe{stop: make(chan struct{})}
	p.wg.Add(1)
	go func() {
		defer p.wg.Done()
		last := time.Now()
		for {
			select {
			case <-p.stop:
				return
			case <-time.After(5 * time.Millisecond):
			}
			now := time.Now()
			p.mu.Lock()
			if d := now.Sub(last); d > p.gap {
				p.gap = d
			}
			p.mu.Unlock()
			last = now
		}
	}()
	if redisAddr != "" {
		cli := goredis.NewClient(&goredis.Options{Addr: redisAddr})
		p.wg.Add(1)
		go func() {
			defer p.wg.Done()
			defer cli.Close()
			for {
				select {
				case <-p.stop:
					return
				case <-time.After(5 * time.Millisecond):
				}
				t0 := time.Now()
				ctx, cancel := context.WithTimeout(context.Background(), 5*time.Second)
				err := cli.Ping(ctx).Err()
				cancel()
				d := time.Since(t0)
				if err != nil {
					select {
					case <-p.stop:
						return
					default:
					}
					d = 5 * time.Second
				}
				p.mu.Lock()
				if d > p.lat {
					p.lat = d
				}
				p.mu.Unlock()
			}
		}()
	}
	return p
}

// Stop ends the probe: the largest scheduling gap (the nominal 5 ms sleep
// included) and the largest PING latency, in ms.
func (p *Probe) Stop() (gapMs, pingMs int64) {
	close(p.stop)
	p.wg.Wait()
	return p.gap.Milliseconds(), p.lat.Milliseconds()
}

// Pool runs job(0..n-1) with at most [width] running at a time.
func Pool(n, width int, job func(k int)) {
	sem := make(chan struct{}, width)
	var wg sync.WaitGroup
	for k := 0; k < n; k++ {
		wg.Add(1)
		sem <- struct{}{}
		go func(k int) {
			defer wg.Done()
			defer func() { <-sem }()
			job(k)
		}(k)
	}
	wg.Wait()
}
