package c10

// Concurrent pairs: two cluster operations on different workloads / nodes / pods run in two goroutines of the
// REAL Calcium; a gate (cw.Interceptor.Gate) makes them alternate call by call.  Coq's Interleave.v proves
// that such operations commute, so every interleaving equals the sequential history "A, then B"; here the
// observation of the concurrent run is emitted as that sequential history and compared with the model:
//   step A: error and messages of A observed in the concurrent run, the calls of the concurrent log that are
//           A's, and the snapshot after A taken from a sequential twin run (A's intermediate state is not
//           observable in the concurrent run);
//   step B: error, messages, calls of B and the FINAL snapshot, all from the concurrent run.

import (
	"strconv"
	"strings"
	"sync"
	"time"

	"github.com/projecteru2/core/types"
	resourcetypes "github.com/projecteru2/core/resource/types"

	"verifharness/cw"
	"verifharness/vh"
)

type concPair struct {
	name    string
	a, b    Op
	fault   *FaultSpec // armed globally; its method must be one only A (or only B) calls
	faultOn int        // 0: the fault is A's, 1: B's (for the sequential twin)
}

// lockstep gate: a call of one party waits (at most `patience`) until the other party has made as many calls
type lockstep struct {
	mu       sync.Mutex
	n        [2]int
	done     [2]bool
	owner    func(c cw.Call) int
	patience time.Duration
	switches int
	last     int
}

func (l *lockstep) gate(c cw.Call) {
	o := l.owner(c)
	if o < 0 || c.Bg {
		return
	}
	l.mu.Lock()
	l.n[o]++
	if l.last != o {
		l.switches++
		l.last = o
	}
	l.mu.Unlock()
	deadline := time.Now().Add(l.patience)
	for time.Now().Before(deadline) {
		l.mu.Lock()
		ok := l.done[1-o] || l.n[1-o] >= l.n[o]
		l.mu.Unlock()
		if ok {
			return
		}
		time.Sleep(500 * time.Microsecond)
	}
}

// invoke runs one API call of the kinds used in concurrent pairs and collects its messages.
func (d *driver) invoke(o Op) (int, []string, bool) {
	w := d.w
	ctx := w.Ctx
	x := xlat{w: w, opi: o.Opi}
	msgs := []string{}
	timeout := false
	deadline := time.After(chanDeadline)
	var err error
	switch o.Kind {
	case "realloc":
		err = w.C.ReallocResource(ctx, &types.ReallocOptions{ID: d.resolve(o.IDs)[0], Resources: cw.CPUMem(float64(o.CPU)/100, o.Mem)})
	case "setnode":
		so := &types.SetNodeOptions{Nodename: nodeName(o.Node), Bypass: types.TriOptions(o.Bypass), Delta: o.Delta}
		if o.SetMem {
			so.Resources = resourcetypes.Resources{"cpumem": resourcetypes.RawParams{"memory": o.Mem}}
		}
		if o.Label > 0 {
			so.Labels = map[string]string{"l": strconv.Itoa(o.Label)}
		}
		_, err = w.C.SetNode(ctx, so)
	case "dissociate":
		var ch chan *types.DissociateWorkloadMessage
		ch, err = w.C.DissociateWorkload(ctx, d.resolve(o.IDs))
		if err == nil {
		loopd:
			for {
				select {
				case m, ok := <-ch:
					if !ok {
						msgs = append(msgs, "MClose")
						break loopd
					}
					msgs = append(msgs, "(MDissociate "+x.widOf(m.WorkloadID)+" "+coqErr(m.Error)+")")
				case <-deadline:
					timeout = true
					break loopd
				}
			}
		}
	case "remove":
		var ch chan *types.RemoveWorkloadMessage
		ch, err = w.C.RemoveWorkload(ctx, d.resolve(o.IDs), o.Force)
		if err == nil {
		loopr:
			for {
				select {
				case m, ok := <-ch:
					if !ok {
						msgs = append(msgs, "MClose")
						break loopr
					}
					if m.WorkloadID == "" {
						msgs = append(msgs, "MRemoveNodeFail")
					} else {
						msgs = append(msgs, "(MRemove "+x.widOf(m.WorkloadID)+" "+vh.Bool(m.Success)+")")
					}
				case <-deadline:
					timeout = true
					break loopr
				}
			}
		}
	default:
		d.t.Fatalf("concurrent pair: unsupported op %s", o.Kind)
	}
	return errClass(err), msgs, timeout
}

// footprint of an operation: the strings by which its intercepted calls are recognised
func (d *driver) footprint(o Op) []string {
	fp := []string{}
	switch o.Kind {
	case "setnode":
		fp = append(fp, nodeName(o.Node))
		for _, n := range d.snap.Nodes {
			if n.Name == nodeName(o.Node) {
				fp = append(fp, n.Pod)
			}
		}
	default:
		for _, c := range o.IDs {
			fp = append(fp, d.live[c])
			for _, wl := range d.snap.Workloads {
				if wl.Canon == c {
					fp = append(fp, wl.Node, wl.Pod)
				}
			}
		}
	}
	return fp
}

func touches(c cw.Call, fp []string) bool {
	for _, s := range fp {
		if s == "" {
			continue
		}
		if c.Node == s || c.Target == s || (len(s) > 8 && strings.Contains(c.Target, s)) || strings.HasSuffix(c.Target, "_"+s) || strings.HasSuffix(c.Target, "/"+s) {
			return true
		}
	}
	return false
}

// runPair runs A and B concurrently under the lockstep gate and returns their observations (snapshot of A unset).
func (d *driver) runPair(p concPair) (*StepObs, *StepObs, *lockstep, []cw.Call) {
	w := d.w
	w.Quiesce()
	w.IC.Reset()
	w.Hub.SetOpNorm(p.a.Opi, false)
	w.Hub.SetOpNorm(p.b.Opi, false)
	fpA, fpB := d.footprint(p.a), d.footprint(p.b)
	owner := func(c cw.Call) int {
		a, b := touches(c, fpA), touches(c, fpB)
		switch {
		case a && !b:
			return 0
		case b && !a:
			return 1
		}
		return -1
	}
	ls := &lockstep{owner: owner, patience: 40 * time.Millisecond, last: -1}
	if p.fault != nil {
		w.IC.SetFault(&cw.Addr{Method: p.fault.Method, Target: p.fault.Target, Ord: p.fault.Ord, ByNode: p.fault.ByNode})
	}
	w.IC.Gate = ls.gate
	oa := &StepObs{Op: p.a, Msgs: []string{}}
	ob := &StepObs{Op: p.b, Msgs: []string{}}
	var wg sync.WaitGroup
	wg.Add(2)
	go func() {
		defer wg.Done()
		oa.Err, oa.Msgs, oa.Timeout = d.invoke(p.a)
		ls.mu.Lock()
		ls.done[0] = true
		ls.mu.Unlock()
	}()
	go func() {
		defer wg.Done()
		ob.Err, ob.Msgs, ob.Timeout = d.invoke(p.b)
		ls.mu.Lock()
		ls.done[1] = true
		ls.mu.Unlock()
	}()
	wg.Wait()
	w.IC.Gate = nil
	w.Quiesce()
	log := w.IC.Log()
	w.IC.SetFault(nil)
	var la, lb []cw.Call
	unowned := []cw.Call{}
	for _, c := range log {
		if c.Bg {
			continue
		}
		switch owner(c) {
		case 0:
			la = append(la, c)
		case 1:
			lb = append(lb, c)
		default:
			unowned = append(unowned, c)
		}
	}
	d.encodeCalls(xlat{w: w, opi: p.a.Opi}, la, oa)
	d.encodeCalls(xlat{w: w, opi: p.b.Opi}, lb, ob)
	if p.fault != nil {
		ff := *p.fault
		if oa.Hit != "" {
			oa.Fault = &ff
		} else if ob.Hit != "" {
			ob.Fault = &ff
		}
	}
	s := w.Snapshot()
	ob.Snap, ob.SnapCoq = s, snapCoq(s)
	d.snap = s
	d.live = map[string]string{}
	for _, wl := range s.Workloads {
		d.live[wl.Canon] = wl.ID
	}
	return oa, ob, ls, unowned
}

// encodeCalls: the intercepted calls as the model sees them, and the model-level address of the faulted one.
// A fault that hit the plugin's usage write INSIDE a resource-manager call (Party "plugin") makes that manager call
// fail without any effect: for the model it is the fail-before fault of the enclosing manager call.
func (d *driver) encodeCalls(x xlat, log []cw.Call, obs *StepObs) {
	inner := map[int]bool{} // Seq of the manager call enclosing a faulted plugin call
	for i, c := range log {
		if c.Party == "plugin" && c.Faulted {
			for j := i - 1; j >= 0; j-- {
				if log[j].Party == "rmgr" && log[j].Node == c.Node && !log[j].Bg {
					inner[log[j].Seq] = true
					break
				}
			}
		}
	}
	counts := map[string]int{}
	for _, c := range log {
		if c.Bg {
			continue
		}
		ck, ok := x.key(c)
		if !ok {
			continue
		}
		k := ck.Term
		faulted := c.Faulted || inner[c.Seq]
		if faulted {
			obs.hitCoq = "(Some (mkFault (KCall " + k + ") " + strconv.Itoa(counts[k]) + " FailBefore))"
			obs.Hit = c.Party + "/" + c.Method + "/" + c.Target + "#" + strconv.Itoa(counts[k])
			if inner[c.Seq] {
				obs.Hit += "(plugin write)"
			}
		}
		counts[k]++
		fl := "0"
		if faulted {
			fl = "1"
		}
		obs.Calls = append(obs.Calls, strconv.Itoa(len(ck.Enc)+1), fl)
		for _, v := range ck.Enc {
			obs.Calls = append(obs.Calls, strconv.FormatInt(v, 10))
		}
	}
	if obs.hitCoq == "" {
		obs.hitCoq = "None"
	}
}
